(* LinkFacts3.v — Rlinks over whole requests: add_links and index_batch_crawl (Part D). *)
From Coq Require Import List NArith Bool Lia Arith.
Import ListNotations.
From Traph Require Import Bytes Consts Helpers Rules Tst TstDefs Traph Spec Ops RefDefs TstFacts
  LinkFacts LinkFacts2.
Open Scope N_scope.

(* ====================================================================== *)
(* add_page_int is a step in the sense of LinkFacts2                      *)
(* ====================================================================== *)

Lemma is_prefix_refl : forall p, is_prefix p p = true.
Proof.
  induction p as [|x p IH]; [reflexivity|]. cbn [is_prefix]. rewrite IH.
  rewrite (proj2 (beq_eq x x) eq_refl). reflexivity.
Qed.

Lemma add_lru_finds : forall flag l s, wf_lru l ->
  nodeof (fst (add_lru flag l s)) l <> None.
Proof.
  intros flag l s Hl. unfold nodeof. rewrite add_lru_tr.
  pose proof (lru_iter_nonempty l Hl) as Hne.
  destruct (find (lru_iter l) (tr s)) as [d|] eqn:E.
  - rewrite (find_ins_old flag _ [] 0 (nb s) hist0 (tr s) _ d Hne (is_prefix_refl _) E). discriminate.
  - destruct (find_ins_new flag _ [] 0 (nb s) hist0 (tr s) _ Hne (is_prefix_refl _) E) as (a & pa & ->).
    discriminate.
Qed.

Lemma set_tree_upd_step : forall f q s, link_neutral f -> good s ->
  step_ok s (set_tree (upd f q (tr s)) s).
Proof. intros f q s Hf Hg. apply (upd_step f q s _ Hf); auto. Qed.

Lemma trie_add_page_step : forall l cr s, good s ->
  step_ok s (fst (fst (trie_add_page l cr s))).
Proof.
  intros l cr s Hg. unfold trie_add_page.
  pose proof (add_lru_step false l s Hg) as H1.
  destruct (add_lru false l s) as [s1 h]. cbn [fst] in H1.
  pose proof (step_good _ _ H1) as Hg1.
  destruct (find (lru_iter l) (tr s1)) as [d|]; [|exact H1].
  destruct (page d).
  - destruct (cr && negb (crawled d)); cbn [fst]; [|exact H1].
    apply (step_trans _ _ _ H1). apply set_tree_upd_step; [apply neutral_set_crawled|exact Hg1].
  - cbn [fst]. apply (step_trans _ _ _ H1).
    apply set_tree_upd_step; [apply neutral_page_crawled|exact Hg1].
Qed.

Lemma trie_add_page_is_page : forall l cr s, wf_lru l ->
  is_page (fst (fst (trie_add_page l cr s))) l.
Proof.
  intros l cr s Hl. unfold trie_add_page.
  pose proof (add_lru_finds false l s Hl) as H1.
  destruct (add_lru false l s) as [s1 h]. cbn [fst] in H1. unfold nodeof in H1.
  destruct (find (lru_iter l) (tr s1)) as [d|] eqn:E; [|congruence].
  destruct (page d) eqn:Ep.
  - destruct (cr && negb (crawled d)); cbn [fst].
    + exists (set_crawled d). unfold nodeof. cbn [set_tree set_tr tr].
      rewrite find_upd_same, E by reflexivity. split; [reflexivity|exact Ep].
    + exists d. auto.
  - cbn [fst]. eexists. unfold nodeof. cbn [set_tree set_tr tr].
    rewrite find_upd_same, E by (intro x; destruct cr; reflexivity).
    split; [reflexivity|]. destruct cr; reflexivity.
Qed.

Lemma walk_prefixes_step : forall ps s ninv valid, good s ->
  step_ok s (fst (fst (walk_prefixes ps s ninv valid))).
Proof.
  induction ps as [|p ps IH]; intros s ninv valid Hg; [apply step_refl; exact Hg|].
  cbn [walk_prefixes].
  pose proof (add_lru_step true p s Hg) as H1.
  destruct (add_lru true p s) as [s1 h]. cbn [fst] in H1.
  pose proof (step_good _ _ H1) as Hg1.
  destruct (find (lru_iter p) (tr s1)) as [d|].
  - destruct (we d =? 0); apply (step_trans _ _ _ H1); apply IH; exact Hg1.
  - apply (step_trans _ _ _ H1); apply IH; exact Hg1.
Qed.

Lemma set_we_all_step : forall w ps s s', good s ->
  tr s' = set_we_all w ps (tr s) -> nb s' = nb s -> stubs s' = stubs s ->
  step_ok s s'.
Proof.
  intros w ps. induction ps as [|p ps IH]; intros s s' Hg Etr Enb Est.
  - cbn in Etr. split; [|split; [exact Est|split]].
    + destruct Hg as (H1 & H2 & H3). split; [rewrite Etr; exact H1|].
      split; [rewrite Enb; exact H2|rewrite Etr, Enb; exact H3].
    + intros q d Hd. exists d. rewrite Etr. auto.
    + intros q d Hd. left. exists d. rewrite Etr in Hd. auto.
  - unfold set_we_all in Etr. cbn [fold_left] in Etr. fold (set_we_all w ps) in Etr.
    pose proof (set_tree_upd_step (set_we w) (lru_iter p) s (neutral_set_we w) Hg) as H1.
    apply (step_trans _ _ _ H1). apply IH; [apply (step_good _ _ H1)|exact Etr|exact Enb|exact Est].
Qed.

Lemma add_prefixes_step : forall ps best s, good s ->
  step_ok s (fst (add_prefixes ps best s)).
Proof.
  intros ps best s Hg. unfold add_prefixes.
  pose proof (walk_prefixes_step ps s 0%nat [] Hg) as H1.
  destruct (walk_prefixes ps s 0 []) as [[s1 ninv] valid]. cbn [fst] in H1.
  destruct (negb (Nat.eqb ninv 0) && negb best); [exact H1|].
  destruct (Nat.eqb ninv (length ps)); [exact H1|]. cbn [fst].
  apply (step_trans _ _ _ H1).
  apply (set_we_all_step (lastwe s1 + 1) valid s1); try reflexivity. apply (step_good _ _ H1).
Qed.

Lemma create_from_step : forall p s, good s -> step_ok s (fst (create_from p s)).
Proof.
  intros p s Hg. unfold create_from.
  pose proof (add_prefixes_step (lru_variations p) true s Hg) as H1.
  destruct (add_prefixes (lru_variations p) true s) as [s1 [| |w valid]]; exact H1.
Qed.

Lemma add_page_int_step : forall l cr s, good s ->
  step_ok s (fst (fst (add_page_int l cr s))).
Proof.
  intros l cr s Hg. unfold add_page_int.
  pose proof (trie_add_page_step l cr s Hg) as H1.
  destruct (trie_add_page l cr s) as [[s1 h] created]. cbn [fst] in H1.
  destruct (decide s1 l h) as [|p|]; try exact H1.
  pose proof (create_from_step p s1 (step_good _ _ H1)) as H2.
  destruct (create_from p s1) as [s2 c]. cbn [fst] in *. apply (step_trans _ _ _ H1 H2).
Qed.

Lemma add_page_int_is_page : forall l cr s, good s -> wf_lru l ->
  is_page (fst (fst (add_page_int l cr s))) l.
Proof.
  intros l cr s Hg Hl. unfold add_page_int.
  pose proof (trie_add_page_step l cr s Hg) as H1.
  pose proof (trie_add_page_is_page l cr s Hl) as Hp.
  destruct (trie_add_page l cr s) as [[s1 h] created]. cbn [fst] in H1, Hp.
  destruct (decide s1 l h) as [|p|]; try exact Hp.
  pose proof (create_from_step p s1 (step_good _ _ H1)) as H2.
  destruct (create_from p s1) as [s2 c]. cbn [fst] in *. apply (step_is_page _ _ _ H2 Hp).
Qed.

(* ====================================================================== *)
(* the specification side: links and pages through s_add_page             *)
(* ====================================================================== *)

Definition apage (a : astate) (x : bytes) : Prop := exists c, In (x, c) (a_pages a).
Definition pages_mono (a a' : astate) : Prop := forall x, apage a x -> apage a' x.

Lemma pages_mono_refl : forall a, pages_mono a a.
Proof. intros a x H. exact H. Qed.
Lemma pages_mono_trans : forall a b c, pages_mono a b -> pages_mono b c -> pages_mono a c.
Proof. intros a b c H1 H2 x H. auto. Qed.

Lemma aset_has : forall (A : Type) k (v : A) l, In (k, v) (aset k v l).
Proof.
  intros A k v l. induction l as [|[k' v'] l IH]; [left; reflexivity|].
  cbn [aset]. destruct (beq k k') eqn:E.
  - apply beq_eq in E. subst k'. left. reflexivity.
  - right. exact IH.
Qed.

Lemma aset_keys : forall (A : Type) k (v : A) l x c, In (x, c) l -> exists c', In (x, c') (aset k v l).
Proof.
  intros A k v l x c. induction l as [|[k' v'] l IH]; intro Hin; [destruct Hin|].
  cbn [aset]. destruct Hin as [Hin|Hin].
  - injection Hin as -> ->. destruct (beq k x); [exists v|exists c]; left; reflexivity.
  - destruct (beq k k').
    + exists c. right. exact Hin.
    + destruct (IH Hin) as (c' & Hc'). exists c'. right. exact Hc'.
Qed.

Lemma acreate_pages : forall x a, a_pages (fst (acreate x a)) = a_pages a.
Proof.
  intros x a. unfold acreate.
  destruct (dedup_bytes _ []); reflexivity.
Qed.

Lemma acreate_links : forall x a, a_links (fst (acreate x a)) = a_links a.
Proof.
  intros x a. unfold acreate.
  destruct (dedup_bytes _ []); reflexivity.
Qed.

Lemma s_add_page_fields : forall l cr a,
  a_links (fst (fst (s_add_page l cr a))) = a_links a /\
  a_pages (fst (fst (s_add_page l cr a))) =
    match aget l (a_pages a) with
    | Some c => aset l (c || cr) (a_pages a)
    | None => a_pages a ++ [(l, cr)]
    end.
Proof.
  intros l cr a. unfold s_add_page.
  match goal with |- context [adecide ?A1 l] => set (a1 := A1) end.
  destruct (adecide a1 l) as [|x|]; cbn [fst]; try (split; reflexivity).
  pose proof (acreate_pages x a1) as Hp. pose proof (acreate_links x a1) as Hl.
  destruct (acreate x a1) as [a2 c]. cbn [fst] in *. rewrite Hp, Hl. split; reflexivity.
Qed.

Lemma s_add_page_links : forall l cr a, a_links (fst (fst (s_add_page l cr a))) = a_links a.
Proof. intros. apply s_add_page_fields. Qed.

Lemma s_add_page_mono : forall l cr a, pages_mono a (fst (fst (s_add_page l cr a))).
Proof.
  intros l cr a x (c & Hc). unfold apage.
  rewrite (proj2 (s_add_page_fields l cr a)).
  destruct (aget l (a_pages a)) as [c0|].
  - apply (aset_keys _ _ _ _ _ _ Hc).
  - exists c. apply in_or_app. left. exact Hc.
Qed.

Lemma s_add_page_apage : forall l cr a, apage (fst (fst (s_add_page l cr a))) l.
Proof.
  intros l cr a. unfold apage. rewrite (proj2 (s_add_page_fields l cr a)).
  destruct (aget l (a_pages a)) as [c0|].
  - exists (c0 || cr). apply aset_has.
  - exists cr. apply in_or_app. right. left. reflexivity.
Qed.

Lemma mark_crawled_mono : forall l a, pages_mono a (mark_crawled l a).
Proof. intros l a x (c & Hc). unfold apage, mark_crawled. cbn [a_pages]. apply (aset_keys _ _ _ _ _ _ Hc). Qed.

(* ====================================================================== *)
(* multimaps                                                              *)
(* ====================================================================== *)

Definition pairs_of (out : bool) (m : list (bytes * list bytes)) : list (bytes * bytes) :=
  flat_map (fun e => map (lpair out (fst e)) (snd e)) m.

Definition fkey (out : bool) (l : bytes) : bytes * bytes -> bool := fun p => beq (lkey out p) l.

Lemma pairs_of_keys : forall out m x, In x (pairs_of out m) -> In (lkey out x) (map fst m).
Proof.
  intros out m x. induction m as [|[k vs] m IH]; intro Hin; [destruct Hin|].
  cbn [pairs_of flat_map fst snd map] in *. apply in_app_or in Hin. destruct Hin as [Hin|Hin].
  - apply in_map_iff in Hin. destruct Hin as (v & <- & _). rewrite lkey_lpair. left. reflexivity.
  - right. apply IH. exact Hin.
Qed.

Lemma mm_add_keys : forall k v (m : list (bytes * list bytes)) x,
  In x (map fst (mm_add k v m)) -> x = k \/ In x (map fst m).
Proof.
  intros k v m x. induction m as [|[k' vs] m IH]; cbn [mm_add map fst].
  - intros [H|[]]. auto.
  - destruct (beq k k') eqn:E; cbn [map fst In]; intros [H|H].
    + right. left. exact H.
    + right. right. exact H.
    + right. left. exact H.
    + destruct (IH H) as [H'|H']; [left|right; right]; exact H'.
Qed.

Lemma mm_add_nodup : forall k v (m : list (bytes * list bytes)),
  NoDup (map fst m) -> NoDup (map fst (mm_add k v m)).
Proof.
  intros k v m. induction m as [|[k' vs] m IH]; cbn [mm_add map fst]; intro H.
  - constructor; [intros []|constructor].
  - inversion H as [|? ? Hnin Hnd]; subst. destruct (beq k k') eqn:E; cbn [map fst].
    + constructor; assumption.
    + constructor; [|apply IH; exact Hnd].
      intro Hin. apply mm_add_keys in Hin. destruct Hin as [->|Hin]; [|auto].
      rewrite (proj2 (beq_eq k k) eq_refl) in E. discriminate.
Qed.

Lemma mm_add_filter : forall out k v m l, NoDup (map fst m) ->
  filter (fkey out l) (pairs_of out (mm_add k v m)) =
  filter (fkey out l) (pairs_of out m ++ [lpair out k v]).
Proof.
  intros out k v m l. induction m as [|[k' vs] m IH]; intro Hnd.
  - cbn [mm_add pairs_of flat_map fst snd map app]. reflexivity.
  - inversion Hnd as [|? ? Hnin Hnd']; subst. cbn [mm_add]. destruct (beq k k') eqn:E.
    + apply beq_eq in E. subst k'.
      change (pairs_of out ((k, vs ++ [v]) :: m))
        with (map (lpair out k) (vs ++ [v]) ++ pairs_of out m).
      change (pairs_of out ((k, vs) :: m)) with (map (lpair out k) vs ++ pairs_of out m).
      rewrite map_app. cbn [map]. rewrite !filter_app.
      destruct (fkey out l (lpair out k v)) eqn:Ek.
      * unfold fkey in Ek. rewrite lkey_lpair in Ek. apply beq_eq in Ek. subst l.
        rewrite (filter_nil _ (fkey out k) (pairs_of out m)).
        -- rewrite !app_nil_r. reflexivity.
        -- intros x Hx. unfold fkey. destruct (beq (lkey out x) k) eqn:Ex; [|reflexivity].
           apply beq_eq in Ex. exfalso. apply Hnin. rewrite <- Ex. apply pairs_of_keys. exact Hx.
      * cbn [filter]. rewrite Ek. rewrite !app_nil_r. reflexivity.
    + change (pairs_of out ((k', vs) :: mm_add k v m))
        with (map (lpair out k') vs ++ pairs_of out (mm_add k v m)).
      change (pairs_of out ((k', vs) :: m)) with (map (lpair out k') vs ++ pairs_of out m).
      rewrite <- app_assoc, !filter_app, (IH Hnd'), filter_app. reflexivity.
Qed.

Lemma mm_add_length : forall out k v m,
  length (pairs_of out (mm_add k v m)) = S (length (pairs_of out m)).
Proof.
  intros out k v m. induction m as [|[k' vs] m IH]; [reflexivity|].
  cbn [mm_add]. destruct (beq k k').
  - change (pairs_of out ((k', vs ++ [v]) :: m))
      with (map (lpair out k') (vs ++ [v]) ++ pairs_of out m).
    change (pairs_of out ((k', vs) :: m)) with (map (lpair out k') vs ++ pairs_of out m).
    rewrite !app_length, !map_length, app_length. cbn [length]. lia.
  - change (pairs_of out ((k', vs) :: mm_add k v m))
      with (map (lpair out k') vs ++ pairs_of out (mm_add k v m)).
    change (pairs_of out ((k', vs) :: m)) with (map (lpair out k') vs ++ pairs_of out m).
    rewrite !app_length, IH. lia.
Qed.

Lemma mm_add_in : forall out k v m x,
  In x (pairs_of out (mm_add k v m)) -> In x (pairs_of out m) \/ x = lpair out k v.
Proof.
  intros out k v m x. induction m as [|[k' vs] m IH].
  - cbn. intros [H|[]]; auto.
  - cbn [mm_add]. destruct (beq k k') eqn:E.
    + apply beq_eq in E. subst k'.
      change (pairs_of out ((k, vs ++ [v]) :: m))
        with (map (lpair out k) (vs ++ [v]) ++ pairs_of out m).
      change (pairs_of out ((k, vs) :: m)) with (map (lpair out k) vs ++ pairs_of out m).
      rewrite map_app, !in_app_iff. cbn [map In]. intros [[H|[H|[]]]|H]; auto.
    + change (pairs_of out ((k', vs) :: mm_add k v m))
        with (map (lpair out k') vs ++ pairs_of out (mm_add k v m)).
      change (pairs_of out ((k', vs) :: m)) with (map (lpair out k') vs ++ pairs_of out m).
      rewrite !in_app_iff. intros [H|H]; auto. destruct (IH H); auto.
Qed.

(* the multimap built from a list of links, keyed by the [out] side *)
Definition mm_from (out : bool) (m0 : list (bytes * list bytes)) (links : list (bytes * bytes)) :=
  fold_left (fun m x => mm_add (lkey out x) (lval out x) m) links m0.

Lemma mm_from_spec : forall out links m0, NoDup (map fst m0) ->
  NoDup (map fst (mm_from out m0 links)) /\
  (forall l, filter (fkey out l) (pairs_of out (mm_from out m0 links)) =
             filter (fkey out l) (pairs_of out m0 ++ links)) /\
  length (pairs_of out (mm_from out m0 links)) = (length (pairs_of out m0) + length links)%nat /\
  (forall x, In x (pairs_of out (mm_from out m0 links)) -> In x (pairs_of out m0) \/ In x links).
Proof.
  intros out links. induction links as [|x links IH]; intros m0 Hnd.
  - cbn [mm_from fold_left]. rewrite app_nil_r, Nat.add_0_r. auto.
  - unfold mm_from. cbn [fold_left]. fold (mm_from out (mm_add (lkey out x) (lval out x) m0) links).
    destruct (IH _ (mm_add_nodup (lkey out x) (lval out x) m0 Hnd)) as (H1 & H2 & H3 & H4).
    split; [exact H1|]. split; [|split].
    + intro l. rewrite H2, !filter_app, mm_add_filter by exact Hnd.
      rewrite lpair_eta, filter_app. cbn [filter app].
      destruct (fkey out l x); rewrite <- ?app_assoc; reflexivity.
    + rewrite H3, mm_add_length. cbn [length]. lia.
    + intros y Hy. destruct (H4 y Hy) as [Hy'|Hy']; [|right; right; exact Hy'].
      apply mm_add_in in Hy'. destruct Hy' as [Hy'|Hy']; [left; exact Hy'|].
      right. left. rewrite Hy'. symmetry. apply lpair_eta.
Qed.

(* ====================================================================== *)
(* flush_links                                                            *)
(* ====================================================================== *)

Definition ends_ok (s : traph) (x : bytes * bytes) : Prop :=
  wf_lru (fst x) /\ wf_lru (snd x) /\ is_page s (fst x) /\ is_page s (snd x).

Lemma ends_ok_lpair : forall out s p o, ends_ok s (lpair out p o) ->
  wf_lru p /\ is_page s p /\ wf_lru o /\ is_page s o.
Proof. intros [|] s p o (H1 & H2 & H3 & H4); cbn [lpair fst snd] in *; auto. Qed.

Lemma pairs_of_cons : forall out p others mm,
  pairs_of out ((p, others) :: mm) = map (lpair out p) others ++ pairs_of out mm.
Proof. reflexivity. Qed.

Lemma flush_links_cons : forall out p others mm s,
  flush_links out ((p, others) :: mm) s =
  flush_links out mm (store_links out (lru_iter p) (map (fun o => addr_of o s) others) s).
Proof. reflexivity. Qed.

Lemma flush_step : forall out mm s links links2,
  good s -> Rbase s -> Rdir out s links -> Rdir (negb out) s links2 ->
  (forall x, In x (pairs_of out mm) -> ends_ok s x) ->
  let s' := flush_links out mm s in
  good s' /\ Rbase s' /\ Rdir out s' (links ++ pairs_of out mm) /\ Rdir (negb out) s' links2 /\
  length (stubs s') = (length (stubs s) + length (pairs_of out mm))%nat /\
  (forall t, is_page s t -> is_page s' t).
Proof.
  intros out mm. induction mm as [|[p others] mm IH]; intros s links links2 Hg HB Hd Ho Hends.
  - cbn [flush_links fold_left pairs_of flat_map length]. rewrite app_nil_r, Nat.add_0_r.
    cbv zeta. repeat (split; [assumption|]). split; auto.
  - cbv zeta. rewrite flush_links_cons, pairs_of_cons.
    rewrite pairs_of_cons in Hends.
    destruct others as [|o others'].
    + cbn [map]. rewrite store_links_nil. cbn [app]. apply IH; auto.
    + set (others := o :: others') in *.
      assert (Hall : forall t, In t others -> wf_lru p /\ is_page s p /\ wf_lru t /\ is_page s t).
      { intros t Ht. apply (ends_ok_lpair out). apply Hends. apply in_or_app. left.
        apply in_map. exact Ht. }
      destruct (Hall o (or_introl eq_refl)) as (Hwp & (dp & Hdp & _) & _).
      assert (Htg : Forall (fun t => wf_lru t /\ is_page s t) others).
      { apply Forall_forall. intros t Ht. destruct (Hall t Ht) as (_ & _ & H3 & H4). auto. }
      destruct (store_links_step out p others s dp links links2 Hg HB Hd Ho Hwp Hdp Htg)
        as (Hg1 & HB1 & Hd1 & Ho1 & Hlen1 & Hpg1 & _).
      set (s1 := store_links out (lru_iter p) (map (fun o0 => addr_of o0 s) others) s) in *.
      destruct (IH s1 (links ++ map (lpair out p) others) links2 Hg1 HB1 Hd1 Ho1)
        as (Hg2 & HB2 & Hd2 & Ho2 & Hlen2 & Hpg2).
      { intros x Hx. assert (Hx' : In x (map (lpair out p) others ++ pairs_of out mm))
          by (apply in_or_app; right; exact Hx).
        destruct (Hends x Hx') as (H1 & H2 & H3 & H4).
        split; [exact H1|]. split; [exact H2|]. split; apply Hpg1; assumption. }
      split; [exact Hg2|]. split; [exact HB2|]. split; [rewrite app_assoc; exact Hd2|].
      split; [exact Ho2|]. split; [|auto].
      rewrite Hlen2, Hlen1, app_length, map_length. lia.
Qed.

(* ====================================================================== *)
(* Traph.add_links                                                        *)
(* ====================================================================== *)

Definition see_m (l : bytes) (st : traph * list bytes) : traph * list bytes :=
  if mem_bytes l (snd st) then st
  else (fst (fst (add_page_int l false (fst st))), l :: snd st).
Definition see_a (l : bytes) (st : astate * list bytes) : astate * list bytes :=
  if mem_bytes l (snd st) then st
  else (fst (fst (s_add_page l false (fst st))), l :: snd st).

Definition see2_m (st : traph * list bytes) (x : bytes * bytes) := see_m (snd x) (see_m (fst x) st).
Definition see2_a (st : astate * list bytes) (x : bytes * bytes) := see_a (snd x) (see_a (fst x) st).

Lemma add_links_eq : forall links s,
  fst (add_links links s) =
  flush_links false (mm_from false [] links)
    (flush_links true (mm_from true [] links) (fst (fold_left see2_m links (s, [])))).
Proof.
  intros links s. unfold add_links. cbv zeta.
  match goal with |- context [fold_left ?F links _] => set (FF := F) end.
  assert (HF : forall s n c seen outs ins a b, exists n' c',
            FF (s, n, c, seen, outs, ins) (a, b) =
            (fst (see2_m (s, seen) (a, b)), n', c', snd (see2_m (s, seen) (a, b)),
             mm_add a b outs, mm_add b a ins)).
  { intros s0 n c seen outs ins a b. unfold FF, see2_m, see_m. cbn [fst snd].
    destruct (mem_bytes a seen).
    - cbn [fst snd]. destruct (mem_bytes b seen).
      + eexists; eexists; reflexivity.
      + destruct (add_page_int b false s0) as [[s' n'] c']. eexists; eexists; reflexivity.
    - destruct (add_page_int a false s0) as [[s' n'] c']. cbn [fst snd].
      destruct (mem_bytes b (a :: seen)).
      + eexists; eexists; reflexivity.
      + destruct (add_page_int b false s') as [[s'' n''] c'']. eexists; eexists; reflexivity. }
  assert (HG : forall ls s n c seen outs ins, exists n' c',
            fold_left FF ls (s, n, c, seen, outs, ins) =
            (fst (fold_left see2_m ls (s, seen)), n', c', snd (fold_left see2_m ls (s, seen)),
             mm_from true outs ls, mm_from false ins ls)).
  { clear s. intro ls. induction ls as [|[a b] ls IH]; intros s n c seen outs ins.
    - cbn [fold_left mm_from fst snd]. eexists; eexists; reflexivity.
    - cbn [fold_left]. destruct (HF s n c seen outs ins a b) as (n' & c' & ->).
      destruct (see2_m (s, seen) (a, b)) as [s1 seen1] eqn:E. cbn [fst snd].
      destruct (IH s1 n' c' seen1 (mm_add a b outs) (mm_add b a ins)) as (n2 & c2 & ->).
      exists n2, c2. reflexivity. }
  destruct (HG links s 0 [] [] [] []) as (n' & c' & ->). reflexivity.
Qed.

Lemma s_add_links_eq : forall links a,
  fst (s_add_links links a) =
  fold_left (fun a p => add_link p a) links (fst (fold_left see2_a links (a, []))).
Proof.
  intros links a. unfold s_add_links. cbv zeta.
  match goal with |- context [fold_left ?F links (a, 0, [], [])] => set (FF := F) end.
  assert (HF : forall a n c seen x y, exists n' c',
            FF (a, n, c, seen) (x, y) =
            (fst (see2_a (a, seen) (x, y)), n', c', snd (see2_a (a, seen) (x, y)))).
  { intros a0 n c seen x y. unfold FF, see2_a, see_a. cbn [fst snd].
    destruct (mem_bytes x seen).
    - cbn [fst snd]. destruct (mem_bytes y seen).
      + eexists; eexists; reflexivity.
      + destruct (s_add_page y false a0) as [[a' n'] c']. eexists; eexists; reflexivity.
    - destruct (s_add_page x false a0) as [[a' n'] c']. cbn [fst snd].
      destruct (mem_bytes y (x :: seen)).
      + eexists; eexists; reflexivity.
      + destruct (s_add_page y false a') as [[a'' n''] c'']. eexists; eexists; reflexivity. }
  assert (HG : forall ls a n c seen, exists n' c',
            fold_left FF ls (a, n, c, seen) =
            (fst (fold_left see2_a ls (a, seen)), n', c', snd (fold_left see2_a ls (a, seen)))).
  { clear a. intro ls. induction ls as [|[x y] ls IH]; intros a n c seen.
    - cbn [fold_left fst snd]. eexists; eexists; reflexivity.
    - cbn [fold_left]. destruct (HF a n c seen x y) as (n' & c' & ->).
      destruct (see2_a (a, seen) (x, y)) as [a1 seen1] eqn:E. cbn [fst snd].
      destruct (IH a1 n' c' seen1) as (n2 & c2 & ->). exists n2, c2. reflexivity. }
  destruct (HG links a 0 [] []) as (n' & c' & ->). reflexivity.
Qed.

Lemma mem_bytes_in : forall x l, mem_bytes x l = true -> In x l.
Proof.
  intros x l. induction l as [|y l IH]; cbn [mem_bytes]; [discriminate|].
  intro H. apply orb_prop in H. destruct H as [H|H].
  - apply beq_eq in H. left. auto.
  - right. auto.
Qed.

Definition seen_ok (s : traph) (a : astate) (seen : list bytes) : Prop :=
  forall x, In x seen -> is_page s x /\ apage a x.

Lemma see_step : forall l s a seen, wf_lru l -> good s -> seen_ok s a seen ->
  let st := see_m l (s, seen) in
  let sa := see_a l (a, seen) in
  snd sa = snd st /\ step_ok s (fst st) /\ a_links (fst sa) = a_links a /\
  pages_mono a (fst sa) /\ seen_ok (fst st) (fst sa) (snd st) /\
  (forall x, In x seen -> In x (snd st)) /\ In l (snd st).
Proof.
  intros l s a seen Hl Hg Hseen. unfold see_m, see_a. cbn [fst snd].
  destruct (mem_bytes l seen) eqn:E; cbn [fst snd].
  - split; [reflexivity|]. split; [apply step_refl; exact Hg|]. split; [reflexivity|].
    split; [apply pages_mono_refl|]. split; [exact Hseen|]. split; [auto|].
    apply mem_bytes_in. exact E.
  - pose proof (add_page_int_step l false s Hg) as Hst.
    split; [reflexivity|]. split; [exact Hst|]. split; [apply s_add_page_links|].
    split; [apply s_add_page_mono|]. split; [|split; [intros x Hx; right; exact Hx|left; reflexivity]].
    intros x [<-|Hx].
    + split; [apply add_page_int_is_page; assumption|apply s_add_page_apage].
    + destruct (Hseen x Hx) as (H1 & H2).
      split; [apply (step_is_page _ _ _ Hst H1)|apply (s_add_page_mono l false a x H2)].
Qed.

Lemma see2_step : forall x s a seen, wf_lru (fst x) -> wf_lru (snd x) -> good s -> seen_ok s a seen ->
  let st := see2_m (s, seen) x in
  let sa := see2_a (a, seen) x in
  snd sa = snd st /\ step_ok s (fst st) /\ a_links (fst sa) = a_links a /\
  pages_mono a (fst sa) /\ seen_ok (fst st) (fst sa) (snd st) /\
  (forall y, In y seen -> In y (snd st)) /\ In (fst x) (snd st) /\ In (snd x) (snd st).
Proof.
  intros x s a seen Hx Hy Hg Hseen. unfold see2_m, see2_a.
  destruct (see_step (fst x) s a seen Hx Hg Hseen) as (E1 & S1 & L1 & M1 & K1 & I1 & J1).
  destruct (see_m (fst x) (s, seen)) as [s1 seen1].
  destruct (see_a (fst x) (a, seen)) as [a1 seen1']. cbn [fst snd] in *. subst seen1'.
  destruct (see_step (snd x) s1 a1 seen1 Hy (step_good _ _ S1) K1) as (E2 & S2 & L2 & M2 & K2 & I2 & J2).
  cbv zeta. split; [exact E2|]. split; [apply (step_trans _ _ _ S1 S2)|]. split; [congruence|].
  split; [apply (pages_mono_trans _ _ _ M1 M2)|]. split; [exact K2|]. split; [auto|]. split; auto.
Qed.

Lemma see_fold : forall links s a seen,
  Forall (fun p => wf_lru (fst p) /\ wf_lru (snd p)) links -> good s -> seen_ok s a seen ->
  let st := fold_left see2_m links (s, seen) in
  let sa := fold_left see2_a links (a, seen) in
  snd sa = snd st /\ step_ok s (fst st) /\ a_links (fst sa) = a_links a /\
  pages_mono a (fst sa) /\ seen_ok (fst st) (fst sa) (snd st) /\
  (forall y, In y seen -> In y (snd st)) /\
  (forall x, In x links -> In (fst x) (snd st) /\ In (snd x) (snd st)).
Proof.
  induction links as [|x links IH]; intros s a seen Hwf Hg Hseen.
  - cbn [fold_left fst snd]. split; [reflexivity|]. split; [apply step_refl; exact Hg|].
    split; [reflexivity|]. split; [apply pages_mono_refl|]. split; [exact Hseen|].
    split; [auto|]. intros x [].
  - inversion Hwf as [|? ? [Hx Hy] Hwf']; subst. cbn [fold_left].
    destruct (see2_step x s a seen Hx Hy Hg Hseen) as (E1 & S1 & L1 & M1 & K1 & I1 & J1 & J1').
    destruct (see2_m (s, seen) x) as [s1 seen1].
    destruct (see2_a (a, seen) x) as [a1 seen1']. cbn [fst snd] in *. subst seen1'.
    destruct (IH s1 a1 seen1 Hwf' (step_good _ _ S1) K1) as (E2 & S2 & L2 & M2 & K2 & I2 & J2).
    cbv zeta. split; [exact E2|]. split; [apply (step_trans _ _ _ S1 S2)|]. split; [congruence|].
    split; [apply (pages_mono_trans _ _ _ M1 M2)|]. split; [exact K2|]. split; [auto|].
    intros y [<-|Hin]; [split; auto|apply J2; exact Hin].
Qed.

Lemma fold_add_link : forall links a,
  a_links (fold_left (fun a p => add_link p a) links a) = a_links a ++ links /\
  a_pages (fold_left (fun a p => add_link p a) links a) = a_pages a.
Proof.
  induction links as [|p links IH]; intro a; cbn [fold_left].
  - rewrite app_nil_r. auto.
  - destruct (IH (add_link p a)) as (-> & ->). cbn [add_link a_links a_pages].
    rewrite <- app_assoc. auto.
Qed.

(* Rdir against the grouped list is Rdir against the original list *)
Lemma Rdir_grouped : forall out s L0 links,
  Rdir out s (L0 ++ pairs_of out (mm_from out [] links)) -> Rdir out s (L0 ++ links).
Proof.
  intros out s L0 links. apply Rdir_ext. intro l.
  destruct (mm_from_spec out links [] (NoDup_nil _)) as (_ & H & _).
  rewrite !filter_app. f_equal. apply (H l).
Qed.

Theorem add_links_Rlinks : forall links s a,
  Rcore s a -> Rlinks s a -> wf_op (OAddLinks links) ->
  Rlinks (fst (add_links links s)) (fst (s_add_links links a)).
Proof.
  intros links s a HC HL Hwf. cbn [wf_op] in Hwf.
  pose proof (R_good s a HC HL) as Hg.
  pose proof (R_closed s a true HC HL) as Hc1. pose proof (R_closed s a false HC HL) as Hc2.
  apply Rlinks_split in HL. destruct HL as ((HB & Ho) & Hi & He & Hn).
  rewrite add_links_eq, s_add_links_eq.
  assert (Hseen0 : seen_ok s a []) by (intros x []).
  destruct (see_fold links s a [] Hwf Hg Hseen0) as (E1 & S1 & L1 & M1 & K1 & _ & J1).
  destruct (fold_left see2_m links (s, [])) as [s1 seen1].
  destruct (fold_left see2_a links (a, [])) as [a1 seen1']. cbn [fst snd] in *. subst seen1'.
  pose proof (step_good _ _ S1) as Hg1.
  pose proof (step_Rbase _ _ S1 HB) as HB1.
  pose proof (step_Rdir _ _ true _ Hg S1 HB Hc1 Ho) as Ho1.
  pose proof (step_Rdir _ _ false _ Hg S1 HB Hc2 Hi) as Hi1.
  assert (Hends1 : forall x, In x links -> ends_ok s1 x).
  { intros x Hx. rewrite Forall_forall in Hwf. destruct (Hwf x Hx) as (W1 & W2).
    destruct (J1 x Hx) as (I1 & I2). split; [exact W1|]. split; [exact W2|].
    split; [apply (K1 _ I1)|apply (K1 _ I2)]. }
  (* the out-chains *)
  destruct (mm_from_spec true links [] (NoDup_nil _)) as (_ & _ & Hlo & Hino).
  destruct (flush_step true (mm_from true [] links) s1 (a_links a) (a_links a) Hg1 HB1 Ho1 Hi1)
    as (Hg2 & HB2 & Ho2 & Hi2 & Hlen2 & Hpg2).
  { intros x Hx. destruct (Hino x Hx) as [[]|Hx']. apply Hends1. exact Hx'. }
  set (s2 := flush_links true (mm_from true [] links) s1) in *.
  (* the in-chains *)
  destruct (mm_from_spec false links [] (NoDup_nil _)) as (_ & _ & Hli & Hini).
  destruct (flush_step false (mm_from false [] links) s2 (a_links a)
              (a_links a ++ pairs_of true (mm_from true [] links)) Hg2 HB2 Hi2 Ho2)
    as (Hg3 & HB3 & Hi3 & Ho3 & Hlen3 & Hpg3).
  { intros x Hx. destruct (Hini x Hx) as [[]|Hx'].
    destruct (Hends1 x Hx') as (W1 & W2 & P1 & P2). split; [exact W1|]. split; [exact W2|]. split; auto. }
  set (s3 := flush_links false (mm_from false [] links) s2) in *.
  cbn [negb] in Ho3.
  apply Rdir_grouped in Ho3. apply Rdir_grouped in Hi3.
  destruct (fold_add_link links a1) as (El & Ep).
  apply Rlinks_split. rewrite El, L1. split; [split; [exact HB3|exact Ho3]|].
  split; [exact Hi3|]. split.
  - intros x y Hin. unfold apage in *. rewrite Ep. apply in_app_or in Hin. destruct Hin as [Hin|Hin].
    + destruct (He x y Hin) as (H1 & H2). split; [apply (M1 x H1)|apply (M1 y H2)].
    + destruct (J1 (x, y) Hin) as (I1 & I2). cbn [fst snd] in *.
      split; [apply (K1 _ I1)|apply (K1 _ I2)].
  - rewrite Hlen3, Hlen2, Hlo, Hli, (step_stubs _ _ S1). cbn [pairs_of flat_map length].
    unfold s_stubs in *. rewrite El, L1. unfold blen in *. rewrite app_length. lia.
Qed.

(* ====================================================================== *)
(* Traph.index_batch_crawl                                                *)
(* ====================================================================== *)

Definition crawl_m (src : bytes) (st : traph * list bytes) : traph * list bytes :=
  if mem_bytes src (snd st)
  then (set_tree (upd set_crawled (lru_iter src) (tr (fst st))) (fst st), snd st)
  else (fst (fst (add_page_int src true (fst st))), src :: snd st).
Definition crawl_a (src : bytes) (st : astate * list bytes) : astate * list bytes :=
  if mem_bytes src (snd st) then (mark_crawled src (fst st), snd st)
  else (fst (fst (s_add_page src true (fst st))), src :: snd st).

Definition outer_m (st : traph * list bytes) (e : bytes * list bytes) : traph * list bytes :=
  let st1 := fold_left (fun st t => see_m t st) (snd e) (crawl_m (fst e) st) in
  (store_links true (lru_iter (fst e)) (map (fun o => addr_of o (fst st1)) (snd e)) (fst st1),
   snd st1).

Definition link_a (src : bytes) (st : astate * list bytes) (t : bytes) : astate * list bytes :=
  (add_link (src, t) (fst (see_a t st)), snd (see_a t st)).
Definition outer_a (st : astate * list bytes) (e : bytes * list bytes) : astate * list bytes :=
  fold_left (link_a (fst e)) (snd e) (crawl_a (fst e) st).

Definition pairs_from (e : bytes * list bytes) : list (bytes * bytes) :=
  map (fun t => (fst e, t)) (snd e).
Definition allpairs (data : list (bytes * list bytes)) : list (bytes * bytes) :=
  flat_map pairs_from data.

Lemma mm_from_app : forall out m L1 L2, mm_from out m (L1 ++ L2) = mm_from out (mm_from out m L1) L2.
Proof. intros. unfold mm_from. apply fold_left_app. Qed.

Lemma batch_crawl_eq : forall data s,
  fst (batch_crawl data s) =
  flush_links false (mm_from false [] (allpairs data)) (fst (fold_left outer_m data (s, []))).
Proof.
  intros data s. unfold batch_crawl.
  match goal with |- context [fold_left ?F data _] => set (FF := F) end.
  assert (HF : forall s n c seen ins src tgts, exists n' c',
            FF (s, n, c, seen, ins) (src, tgts) =
            (fst (outer_m (s, seen) (src, tgts)), n', c', snd (outer_m (s, seen) (src, tgts)),
             mm_from false ins (pairs_from (src, tgts)))).
  { intros s0 n c seen ins src tgts. unfold FF.
    match goal with |- context [fold_left ?G tgts _] => set (GG := G) end.
    assert (HGG : forall s n c seen ins t, exists n' c',
              GG (s, n, c, seen, ins) t =
              (fst (see_m t (s, seen)), n', c', snd (see_m t (s, seen)), mm_add t src ins)).
    { intros s1 n1 c1 seen1 ins1 t. unfold GG, see_m. cbn [fst snd].
      destruct (mem_bytes t seen1).
      - eexists; eexists; reflexivity.
      - destruct (add_page_int t false s1) as [[s' n'] c']. eexists; eexists; reflexivity. }
    assert (HI : forall ts s n c seen ins, exists n' c',
              fold_left GG ts (s, n, c, seen, ins) =
              (fst (fold_left (fun st t => see_m t st) ts (s, seen)), n', c',
               snd (fold_left (fun st t => see_m t st) ts (s, seen)),
               mm_from false ins (pairs_from (src, ts)))).
    { intro ts. induction ts as [|t ts IH]; intros s1 n1 c1 seen1 ins1.
      - cbn. eexists; eexists; reflexivity.
      - cbn [fold_left]. destruct (HGG s1 n1 c1 seen1 ins1 t) as (n' & c' & ->).
        destruct (see_m t (s1, seen1)) as [s2 seen2]. cbn [fst snd].
        destruct (IH s2 n' c' seen2 (mm_add t src ins1)) as (n2 & c2 & ->).
        exists n2, c2. reflexivity. }
    unfold outer_m, crawl_m. cbn [fst snd].
    destruct (mem_bytes src seen).
    - destruct (HI tgts (set_tree (upd set_crawled (lru_iter src) (tr s0)) s0) n c seen ins)
        as (n2 & c2 & ->). eexists; eexists; reflexivity.
    - destruct (add_page_int src true s0) as [[s' n'] c']. cbn [fst snd].
      destruct (HI tgts s' (n + n') (c ++ c') (src :: seen) ins) as (n2 & c2 & ->).
      eexists; eexists; reflexivity. }
  assert (HG : forall ls s n c seen ins, exists n' c',
            fold_left FF ls (s, n, c, seen, ins) =
            (fst (fold_left outer_m ls (s, seen)), n', c', snd (fold_left outer_m ls (s, seen)),
             mm_from false ins (allpairs ls))).
  { clear s. intro ls. induction ls as [|[src tgts] ls IH]; intros s n c seen ins.
    - cbn. eexists; eexists; reflexivity.
    - cbn [fold_left]. destruct (HF s n c seen ins src tgts) as (n' & c' & ->).
      destruct (outer_m (s, seen) (src, tgts)) as [s1 seen1]. cbn [fst snd].
      destruct (IH s1 n' c' seen1 (mm_from false ins (pairs_from (src, tgts)))) as (n2 & c2 & ->).
      exists n2, c2. cbn [allpairs flat_map]. rewrite mm_from_app. reflexivity. }
  destruct (HG data s 0 [] [] []) as (n' & c' & ->). reflexivity.
Qed.

Lemma s_batch_eq : forall data a,
  fst (s_batch data a) = fst (fold_left outer_a data (a, [])).
Proof.
  intros data a. unfold s_batch.
  match goal with |- context [fold_left ?F data _] => set (FF := F) end.
  assert (HF : forall a n c seen src tgts, exists n' c',
            FF (a, n, c, seen) (src, tgts) =
            (fst (outer_a (a, seen) (src, tgts)), n', c', snd (outer_a (a, seen) (src, tgts)))).
  { intros a0 n c seen src tgts. unfold FF.
    match goal with |- context [fold_left ?G tgts _] => set (GG := G) end.
    assert (HGG : forall a n c seen t, exists n' c',
              GG (a, n, c, seen) t =
              (fst (link_a src (a, seen) t), n', c', snd (link_a src (a, seen) t))).
    { intros a1 n1 c1 seen1 t. unfold GG, link_a, see_a. cbn [fst snd].
      destruct (mem_bytes t seen1).
      - eexists; eexists; reflexivity.
      - destruct (s_add_page t false a1) as [[a' n'] c']. eexists; eexists; reflexivity. }
    assert (HI : forall ts a n c seen, exists n' c',
              fold_left GG ts (a, n, c, seen) =
              (fst (fold_left (link_a src) ts (a, seen)), n', c',
               snd (fold_left (link_a src) ts (a, seen)))).
    { intro ts. induction ts as [|t ts IH]; intros a1 n1 c1 seen1.
      - cbn. eexists; eexists; reflexivity.
      - cbn [fold_left]. destruct (HGG a1 n1 c1 seen1 t) as (n' & c' & ->).
        destruct (link_a src (a1, seen1) t) as [a2 seen2]. cbn [fst snd].
        destruct (IH a2 n' c' seen2) as (n2 & c2 & ->). exists n2, c2. reflexivity. }
    unfold outer_a, crawl_a. cbn [fst snd].
    destruct (mem_bytes src seen).
    - destruct (HI tgts (mark_crawled src a0) n c seen) as (n2 & c2 & ->).
      eexists; eexists; reflexivity.
    - destruct (s_add_page src true a0) as [[a' n'] c']. cbn [fst snd].
      destruct (HI tgts a' (n + n') (c ++ c') (src :: seen)) as (n2 & c2 & ->).
      eexists; eexists; reflexivity. }
  assert (HG : forall ls a n c seen, exists n' c',
            fold_left FF ls (a, n, c, seen) =
            (fst (fold_left outer_a ls (a, seen)), n', c', snd (fold_left outer_a ls (a, seen)))).
  { clear a. intro ls. induction ls as [|[src tgts] ls IH]; intros a n c seen.
    - cbn. eexists; eexists; reflexivity.
    - cbn [fold_left]. destruct (HF a n c seen src tgts) as (n' & c' & ->).
      destruct (outer_a (a, seen) (src, tgts)) as [a1 seen1]. cbn [fst snd].
      destruct (IH a1 n' c' seen1) as (n2 & c2 & ->). exists n2, c2. reflexivity. }
  destruct (HG data a 0 [] []) as (n' & c' & ->). reflexivity.
Qed.

Lemma crawl_step : forall src s a seen, wf_lru src -> good s -> seen_ok s a seen ->
  let st := crawl_m src (s, seen) in
  let sa := crawl_a src (a, seen) in
  snd sa = snd st /\ step_ok s (fst st) /\ a_links (fst sa) = a_links a /\
  pages_mono a (fst sa) /\ seen_ok (fst st) (fst sa) (snd st) /\
  (forall x, In x seen -> In x (snd st)) /\ In src (snd st).
Proof.
  intros src s a seen Hl Hg Hseen. unfold crawl_m, crawl_a. cbn [fst snd].
  destruct (mem_bytes src seen) eqn:E; cbn [fst snd].
  - pose proof (set_tree_upd_step set_crawled (lru_iter src) s neutral_set_crawled Hg) as Hst.
    split; [reflexivity|]. split; [exact Hst|]. split; [reflexivity|].
    split; [apply mark_crawled_mono|]. split; [|split; [auto|apply mem_bytes_in; exact E]].
    intros x Hx. destruct (Hseen x Hx) as (H1 & H2).
    split; [apply (step_is_page _ _ _ Hst H1)|apply (mark_crawled_mono src a x H2)].
  - pose proof (add_page_int_step src true s Hg) as Hst.
    split; [reflexivity|]. split; [exact Hst|]. split; [apply s_add_page_links|].
    split; [apply s_add_page_mono|]. split; [|split; [intros x Hx; right; exact Hx|left; reflexivity]].
    intros x [<-|Hx].
    + split; [apply add_page_int_is_page; assumption|apply s_add_page_apage].
    + destruct (Hseen x Hx) as (H1 & H2).
      split; [apply (step_is_page _ _ _ Hst H1)|apply (s_add_page_mono src true a x H2)].
Qed.

Lemma inner_fold : forall src tgts s a seen, Forall wf_lru tgts -> good s -> seen_ok s a seen ->
  let st := fold_left (fun st t => see_m t st) tgts (s, seen) in
  let sa := fold_left (link_a src) tgts (a, seen) in
  snd sa = snd st /\ step_ok s (fst st) /\
  a_links (fst sa) = a_links a ++ map (fun t => (src, t)) tgts /\
  pages_mono a (fst sa) /\ seen_ok (fst st) (fst sa) (snd st) /\
  (forall x, In x seen -> In x (snd st)) /\ (forall t, In t tgts -> In t (snd st)).
Proof.
  intros src tgts. induction tgts as [|t tgts IH]; intros s a seen Hwf Hg Hseen.
  - cbn [fold_left fst snd map]. rewrite app_nil_r. split; [reflexivity|].
    split; [apply step_refl; exact Hg|]. split; [reflexivity|]. split; [apply pages_mono_refl|].
    split; [exact Hseen|]. split; [auto|]. intros x [].
  - inversion Hwf as [|? ? Ht Hwf']; subst. cbn [fold_left].
    destruct (see_step t s a seen Ht Hg Hseen) as (E1 & S1 & L1 & M1 & K1 & I1 & J1).
    change (link_a src (a, seen) t)
      with (add_link (src, t) (fst (see_a t (a, seen))), snd (see_a t (a, seen))).
    destruct (see_m t (s, seen)) as [s1 seen1].
    destruct (see_a t (a, seen)) as [a1 seen1']. cbn [fst snd] in *. subst seen1'.
    destruct (IH s1 (add_link (src, t) a1) seen1 Hwf' (step_good _ _ S1) K1)
      as (E2 & S2 & L2 & M2 & K2 & I2 & J2).
    cbv zeta. split; [exact E2|]. split; [apply (step_trans _ _ _ S1 S2)|].
    split; [rewrite L2; cbn [add_link a_links map]; rewrite L1, <- app_assoc; reflexivity|].
    split; [intros x Hx; apply M2; apply (M1 x Hx)|]. split; [exact K2|]. split; [auto|].
    intros y [<-|Hy]; [apply I2; exact J1|apply J2; exact Hy].
Qed.

(* the invariant between two sources of a batch: the out-chains are up to date,
   the in-chains still describe the links L0 present before the request *)
Definition J (L0 : list (bytes * bytes)) (a0 : astate) (n0 : nat)
           (s : traph) (a : astate) (seen : list bytes) (Lnew : list (bytes * bytes)) : Prop :=
  good s /\ Rbase s /\ Rdir true s (L0 ++ Lnew) /\ Rdir false s L0 /\
  closed true s (L0 ++ Lnew) /\ closed false s L0 /\
  a_links a = L0 ++ Lnew /\ pages_mono a0 a /\ seen_ok s a seen /\
  (forall x, In x Lnew -> In (fst x) seen /\ In (snd x) seen) /\
  length (stubs s) = (n0 + length Lnew)%nat.

Lemma is_page_known : forall s l, is_page s l -> nodeof s l <> None.
Proof. intros s l (d & -> & _). discriminate. Qed.

Lemma outer_step : forall L0 a0 n0 e s a seen Lnew,
  wf_lru (fst e) -> Forall wf_lru (snd e) -> J L0 a0 n0 s a seen Lnew ->
  let st := outer_m (s, seen) e in
  let sa := outer_a (a, seen) e in
  snd sa = snd st /\ J L0 a0 n0 (fst st) (fst sa) (snd st) (Lnew ++ pairs_from e).
Proof.
  intros L0 a0 n0 [src tgts] s a seen Lnew Hsrc Htg
         (Hg & HB & Ho & Hi & Hc1 & Hc2 & Hl & Hm & Hseen & Hends & Hlen).
  cbn [fst snd] in Hsrc, Htg. unfold outer_m, outer_a. cbn [fst snd].
  destruct (crawl_step src s a seen Hsrc Hg Hseen) as (E1 & S1 & L1 & M1 & K1 & I1 & J1).
  destruct (crawl_m src (s, seen)) as [s1 seen1].
  destruct (crawl_a src (a, seen)) as [a1 seen1']. cbn [fst snd] in *. subst seen1'.
  pose proof (step_good _ _ S1) as Hg1.
  destruct (inner_fold src tgts s1 a1 seen1 Htg Hg1 K1) as (E2 & S2 & L2 & M2 & K2 & I2 & J2).
  destruct (fold_left (fun st t => see_m t st) tgts (s1, seen1)) as [s2 seen2].
  destruct (fold_left (link_a src) tgts (a1, seen1)) as [a2 seen2']. cbn [fst snd] in *. subst seen2'.
  pose proof (step_trans _ _ _ S1 S2) as S12.
  pose proof (step_good _ _ S12) as Hg2.
  pose proof (step_Rbase _ _ S12 HB) as HB2.
  pose proof (step_Rdir _ _ true _ Hg S12 HB Hc1 Ho) as Ho2.
  pose proof (step_Rdir _ _ false _ Hg S12 HB Hc2 Hi) as Hi2.
  pose proof (step_closed _ _ true _ S12 Hc1) as Hc12.
  pose proof (step_closed _ _ false _ S12 Hc2) as Hc22.
  assert (Hsrc2 : is_page s2 src) by (apply (K2 src); apply I2; exact J1).
  destruct Hsrc2 as (dsrc & Hdsrc & Hpsrc).
  assert (Htg2 : Forall (fun t => wf_lru t /\ is_page s2 t) tgts).
  { apply Forall_forall. intros t Ht. rewrite Forall_forall in Htg.
    split; [apply Htg; exact Ht|apply (K2 t); apply J2; exact Ht]. }
  destruct (store_links_step true src tgts s2 dsrc (L0 ++ Lnew) L0 Hg2 HB2 Ho2 Hi2 Hsrc Hdsrc Htg2)
    as (Hg3 & HB3 & Ho3 & Hi3 & Hlen3 & Hpg3 & Hkn3).
  cbv zeta. split; [reflexivity|].
  change (map (lpair true src) tgts) with (pairs_from (src, tgts)) in Ho3.
  rewrite <- app_assoc in Ho3. cbn [negb] in Hi3.
  split; [exact Hg3|]. split; [exact HB3|]. split; [exact Ho3|]. split; [exact Hi3|].
  split; [|split; [|split; [|split; [|split; [|split]]]]].
  - intros x Hx. rewrite app_assoc in Hx. apply in_app_or in Hx. destruct Hx as [Hx|Hx].
    + apply Hkn3. apply Hc12. exact Hx.
    + apply Hkn3. unfold pairs_from in Hx. cbn [fst snd] in Hx. apply in_map_iff in Hx.
      destruct Hx as (t & <- & _). cbn [lkey fst]. rewrite Hdsrc. discriminate.
  - intros x Hx. apply Hkn3. apply Hc22. exact Hx.
  - rewrite L2, L1, Hl, <- app_assoc. reflexivity.
  - intros x Hx. apply M2. apply M1. apply Hm. exact Hx.
  - intros x Hx. destruct (K2 x Hx) as (H1 & H2). split; [apply Hpg3; exact H1|exact H2].
  - intros x Hx. apply in_app_or in Hx. destruct Hx as [Hx|Hx].
    + destruct (Hends x Hx) as (H1 & H2). split; apply I2; apply I1; assumption.
    + unfold pairs_from in Hx. cbn [fst snd] in Hx. apply in_map_iff in Hx.
      destruct Hx as (t & <- & Ht). cbn [fst snd]. split; [apply I2; exact J1|apply J2; exact Ht].
  - rewrite Hlen3, (step_stubs _ _ S12), Hlen, app_length. unfold pairs_from.
    rewrite map_length. cbn [snd]. lia.
Qed.

Lemma outer_fold : forall L0 a0 n0 data s a seen Lnew,
  Forall (fun p => wf_lru (fst p) /\ Forall wf_lru (snd p)) data ->
  J L0 a0 n0 s a seen Lnew ->
  let st := fold_left outer_m data (s, seen) in
  let sa := fold_left outer_a data (a, seen) in
  snd sa = snd st /\ J L0 a0 n0 (fst st) (fst sa) (snd st) (Lnew ++ allpairs data).
Proof.
  intros L0 a0 n0 data. induction data as [|e data IH]; intros s a seen Lnew Hwf HJ.
  - cbn [fold_left fst snd allpairs flat_map]. rewrite app_nil_r. auto.
  - inversion Hwf as [|? ? [He1 He2] Hwf']; subst. cbn [fold_left].
    destruct (outer_step L0 a0 n0 e s a seen Lnew He1 He2 HJ) as (E1 & HJ1).
    destruct (outer_m (s, seen) e) as [s1 seen1].
    destruct (outer_a (a, seen) e) as [a1 seen1']. cbn [fst snd] in *. subst seen1'.
    destruct (IH s1 a1 seen1 (Lnew ++ pairs_from e) Hwf' HJ1) as (E2 & HJ2).
    cbv zeta. split; [exact E2|]. cbn [allpairs flat_map]. rewrite app_assoc. exact HJ2.
Qed.

Lemma allpairs_wf : forall data x,
  Forall (fun p => wf_lru (fst p) /\ Forall wf_lru (snd p)) data ->
  In x (allpairs data) -> wf_lru (fst x) /\ wf_lru (snd x).
Proof.
  intros data x Hwf Hx. unfold allpairs in Hx. apply in_flat_map in Hx.
  destruct Hx as (e & He & Hx). rewrite Forall_forall in Hwf. destruct (Hwf e He) as (H1 & H2).
  unfold pairs_from in Hx. apply in_map_iff in Hx. destruct Hx as (t & <- & Ht). cbn [fst snd].
  rewrite Forall_forall in H2. auto.
Qed.

Theorem batch_crawl_Rlinks : forall data s a,
  Rcore s a -> Rlinks s a -> wf_op (OBatch data) ->
  Rlinks (fst (batch_crawl data s)) (fst (s_batch data a)).
Proof.
  intros data s a HC HL [Hwf _].
  pose proof (R_good s a HC HL) as Hg.
  pose proof (R_closed s a true HC HL) as Hc1. pose proof (R_closed s a false HC HL) as Hc2.
  apply Rlinks_split in HL. destruct HL as ((HB & Ho) & Hi & He & Hn).
  rewrite batch_crawl_eq, s_batch_eq.
  assert (HJ0 : J (a_links a) a (length (stubs s)) s a [] []).
  { unfold J. rewrite app_nil_r, Nat.add_0_r. repeat (split; [assumption|]).
    split; [reflexivity|]. split; [apply pages_mono_refl|]. split; [intros x []|].
    split; [intros x []|reflexivity]. }
  destruct (outer_fold _ _ _ data s a [] [] Hwf HJ0) as (E1 & HJ1).
  destruct (fold_left outer_m data (s, [])) as [s1 seen1].
  destruct (fold_left outer_a data (a, [])) as [a1 seen1']. cbn [fst snd app] in *. subst seen1'.
  destruct HJ1 as (Hg1 & HB1 & Ho1 & Hi1 & _ & _ & Hl1 & Hm1 & Hseen1 & Hends1 & Hlen1).
  destruct (mm_from_spec false (allpairs data) [] (NoDup_nil _)) as (_ & _ & Hli & Hini).
  destruct (flush_step false (mm_from false [] (allpairs data)) s1 (a_links a)
              (a_links a ++ allpairs data) Hg1 HB1 Hi1 Ho1)
    as (Hg2 & HB2 & Hi2 & Ho2 & Hlen2 & Hpg2).
  { intros x Hx. destruct (Hini x Hx) as [[]|Hx'].
    destruct (allpairs_wf data x Hwf Hx') as (W1 & W2). destruct (Hends1 x Hx') as (I1 & I2).
    split; [exact W1|]. split; [exact W2|]. split; [apply (Hseen1 _ I1)|apply (Hseen1 _ I2)]. }
  cbn [negb] in Ho2. apply Rdir_grouped in Hi2.
  apply Rlinks_split. rewrite Hl1. split; [split; [exact HB2|exact Ho2]|].
  split; [exact Hi2|]. split.
  - intros x y Hin. apply in_app_or in Hin. destruct Hin as [Hin|Hin].
    + destruct (He x y Hin) as (H1 & H2). split; [apply (Hm1 x H1)|apply (Hm1 y H2)].
    + destruct (Hends1 (x, y) Hin) as (I1 & I2). cbn [fst snd] in *.
      split; [apply (Hseen1 _ I1)|apply (Hseen1 _ I2)].
  - rewrite Hlen2, Hlen1, Hli. cbn [pairs_of flat_map length].
    unfold s_stubs in *. rewrite Hl1. unfold blen in *. rewrite app_length. lia.
Qed.

(* a by-product: one page insertion *)
Theorem add_page_int_Rlinks : forall l cr s a,
  Rcore s a -> Rlinks s a ->
  Rlinks (fst (fst (add_page_int l cr s))) (fst (fst (s_add_page l cr a))).
Proof.
  intros l cr s a HC HL. apply (step_Rlinks s _ a _ HC HL).
  - apply add_page_int_step. apply (R_good s a HC HL).
  - apply s_add_page_links.
  - intros x c Hin. apply (s_add_page_mono l cr a x). exists c. exact Hin.
Qed.
