(* ViewFacts2.v — Part C: how node rewrites (upd) and scalar updates transform Rcore. *)
From Coq Require Import List NArith Bool Lia Arith.
Import ListNotations.
From Traph Require Import Bytes Consts Helpers Rules Tst TstDefs Traph Spec Ops RefDefs TstFacts ViewFacts.
Open Scope N_scope.

Definition updl (f : nd -> nd) (l : bytes) (s : traph) : traph :=
  set_tree (upd f (lru_iter l) (tr s)) s.

Lemma updl_fields : forall f l s,
  tr (updl f l s) = upd f (lru_iter l) (tr s) /\ nb (updl f l s) = nb s /\
  lastwe (updl f l s) = lastwe s /\ stubs (updl f l s) = stubs s /\
  rules (updl f l s) = rules s /\ dflt (updl f l s) = dflt s.
Proof. intros. cbn. auto 6. Qed.

(* ====================================================================== *)
(* Rcore split in independent groups over the tree                        *)
(* ====================================================================== *)

Definition Known_ok (t : tst) (n : N) (known : list bytes) : Prop :=
  wf_tst t /\
  (forall l, wf_lru l -> (find (lru_iter l) t <> None <-> In l known)) /\
  Forall wf_lru known /\ NoDup known /\
  n = 1 + fold_left (fun n p => n + nblk (last (lru_iter p) [])) known 0.

Definition Pages_ok (t : tst) (pages : list (bytes * bool)) : Prop :=
  (forall l c, wf_lru l ->
     (In (l, c) pages <-> exists d, find (lru_iter l) t = Some d /\ page d = true /\ crawled d = c)) /\
  Forall (fun x => wf_lru (fst x)) pages /\ NoDup (map fst pages) /\
  (forall p d, find p t = Some d -> crawled d = true -> page d = true).

Definition Pref_ok (t : tst) (pref : list (bytes * N)) : Prop :=
  (forall l w, wf_lru l ->
     (In (l, w) pref <-> exists d, find (lru_iter l) t = Some d /\ we d = w /\ w <> 0)) /\
  Forall (fun x => wf_lru (fst x)) pref /\ NoDup (map fst pref).

Definition Flags_ok (t : tst) (flags : list bytes) : Prop :=
  (forall l, wf_lru l -> (In l flags <-> exists d, find (lru_iter l) t = Some d /\ rule d = true)) /\
  Forall wf_lru flags.

Definition Nochild_ok (t : tst) : Prop :=
  forall p q d d', find p t = Some d -> nochild d = true ->
    is_prefix p q = true -> p <> q -> find q t = Some d' -> we d' = 0.

Lemma Rcore_groups : forall s a,
  Rcore s a <->
  Known_ok (tr s) (nb s) (a_known a) /\ Pages_ok (tr s) (a_pages a) /\
  Pref_ok (tr s) (a_pref a) /\ Flags_ok (tr s) (a_flags a) /\ Nochild_ok (tr s) /\
  lastwe s = a_last a /\ rules s = a_rules a /\ dflt s = a_dflt a.
Proof.
  intros s a. split.
  - intro HR.
    split; [|split; [|split; [|split; [|split; [|split; [|split]]]]]].
    + split; [exact (R_wf s a HR)|]. split; [exact (R_known s a HR)|].
      split; [exact (R_known_wf s a HR)|]. split; [exact (R_known_nodup s a HR)|exact (R_nb s a HR)].
    + split; [exact (R_pages s a HR)|]. split; [exact (R_pages_wf s a HR)|].
      split; [exact (R_pages_nodup s a HR)|exact (R_crawled s a HR)].
    + split; [exact (R_pref s a HR)|]. split; [exact (R_pref_wf s a HR)|exact (R_pref_nodup s a HR)].
    + split; [exact (R_flags s a HR)|exact (R_flags_wf s a HR)].
    + exact (R_nochild s a HR).
    + exact (R_last s a HR).
    + exact (R_rules s a HR).
    + exact (R_dflt s a HR).
  - intros ((K1 & K2 & K3 & K4 & K5) & (P1 & P2 & P3 & P4) & (W1 & W2 & W3) & (F1 & F2) & NC & L & RU & DF).
    constructor; assumption.
Qed.

(* Rcore only looks at the tree, the block count and three scalars *)
Lemma Rcore_ext : forall s s' a, tr s' = tr s -> nb s' = nb s -> lastwe s' = lastwe s ->
  rules s' = rules s -> dflt s' = dflt s -> Rcore s a -> Rcore s' a.
Proof.
  intros s s' a E1 E2 E3 E4 E5 HR. apply Rcore_groups in HR. apply Rcore_groups.
  rewrite E1, E2, E3, E4, E5. exact HR.
Qed.

(* ====================================================================== *)
(* find versus upd                                                        *)
(* ====================================================================== *)

Definition path_eq_dec : forall p q : list bytes, {p = q} + {p <> q} :=
  list_eq_dec (list_eq_dec N.eq_dec).

Lemma find_upd_cases : forall f p q t d', (forall d, stem (f d) = stem d) ->
  find p (upd f q t) = Some d' ->
  exists d, find p t = Some d /\ ((p = q /\ d' = f d) \/ (p <> q /\ d' = d)).
Proof.
  intros f p q t d' Hf H. destruct (path_eq_dec p q) as [E|E].
  - subst p. rewrite find_upd_same in H by exact Hf.
    destruct (find q t) as [d|]; [|discriminate]. cbn in H. injection H as <-.
    exists d. auto.
  - rewrite find_upd_other in H by assumption. exists d'. auto.
Qed.

Lemma find_upd_ex : forall f q t (P : nd -> Prop), (forall d, stem (f d) = stem d) ->
  (forall d, P (f d) <-> P d) ->
  forall p, (exists d, find p (upd f q t) = Some d /\ P d) <-> (exists d, find p t = Some d /\ P d).
Proof.
  intros f q t P Hf HP p. destruct (path_eq_dec p q) as [E|E].
  - subst p. rewrite find_upd_same by exact Hf. destruct (find q t) as [d|]; cbn [option_map].
    + split.
      * intros (d' & E & H). injection E as <-. exists d. split; [reflexivity|apply HP; exact H].
      * intros (d' & E & H). injection E as <-. exists (f d). split; [reflexivity|apply HP; exact H].
    + split; intros (d' & E & _); discriminate.
  - rewrite find_upd_other by assumption. reflexivity.
Qed.

Lemma find_upd_none : forall f p q t, (forall d, stem (f d) = stem d) ->
  (find p (upd f q t) <> None <-> find p t <> None).
Proof.
  intros f p q t Hf. destruct (path_eq_dec p q) as [E|E].
  - subst p. rewrite find_upd_same by exact Hf. destruct (find q t); cbn; split; congruence.
  - rewrite find_upd_other by assumption. reflexivity.
Qed.

Lemma nof_upd : forall f l l' t, (forall d, stem (f d) = stem d) -> wf_lru l -> wf_lru l' ->
  find (lru_iter l') (upd f (lru_iter l) t) =
  if beq l' l then option_map f (find (lru_iter l) t) else find (lru_iter l') t.
Proof.
  intros f l l' t Hf Hl Hl'. destruct (beq_spec l' l) as [E|E].
  - subst. apply find_upd_same. exact Hf.
  - apply find_upd_other; [exact Hf|]. intro H. apply E. apply lru_iter_inj; assumption.
Qed.

Lemma nodeof_updl : forall f l l' s, (forall d, stem (f d) = stem d) -> wf_lru l -> wf_lru l' ->
  nodeof (updl f l s) l' = if beq l' l then option_map f (nodeof s l) else nodeof s l'.
Proof. intros f l l' s Hf Hl Hl'. unfold nodeof. apply nof_upd; assumption. Qed.

(* ---- frame lemmas: a group survives any rewrite that keeps its fields ---- *)

Lemma upd_Known_ok : forall f q t n known, (forall d, stem (f d) = stem d) ->
  Known_ok t n known -> Known_ok (upd f q t) n known.
Proof.
  intros f q t n known Hf (K1 & K2 & K3 & K4 & K5).
  split; [apply upd_wf; assumption|]. split; [|auto].
  intros l Hl. rewrite (find_upd_none f _ q t Hf). apply K2. exact Hl.
Qed.

Lemma upd_Pages_ok : forall f q t pages, (forall d, stem (f d) = stem d) ->
  (forall d, page (f d) = page d) -> (forall d, crawled (f d) = crawled d) ->
  Pages_ok t pages -> Pages_ok (upd f q t) pages.
Proof.
  intros f q t pages Hf Hp Hc (P1 & P2 & P3 & P4).
  split; [|split; [exact P2|split; [exact P3|]]].
  - intros l c Hl.
    rewrite (find_upd_ex f q t (fun d => page d = true /\ crawled d = c) Hf).
    + apply P1. exact Hl.
    + intro d. rewrite Hp, Hc. reflexivity.
  - intros p d' H Hcr. destruct (find_upd_cases f p q t d' Hf H) as (d & Hd & [[_ ->]|[_ ->]]).
    + rewrite Hp. apply (P4 p d Hd). rewrite <- Hc. exact Hcr.
    + apply (P4 p d Hd Hcr).
Qed.

Lemma upd_Pref_ok : forall f q t pref, (forall d, stem (f d) = stem d) ->
  (forall d, we (f d) = we d) -> Pref_ok t pref -> Pref_ok (upd f q t) pref.
Proof.
  intros f q t pref Hf Hw (W1 & W2 & W3).
  split; [|split; [exact W2|exact W3]].
  intros l w Hl.
  rewrite (find_upd_ex f q t (fun d => we d = w /\ w <> 0) Hf).
  - apply W1. exact Hl.
  - intro d. rewrite Hw. reflexivity.
Qed.

Lemma upd_Flags_ok : forall f q t flags, (forall d, stem (f d) = stem d) ->
  (forall d, rule (f d) = rule d) -> Flags_ok t flags -> Flags_ok (upd f q t) flags.
Proof.
  intros f q t flags Hf Hr (F1 & F2).
  split; [|exact F2].
  intros l Hl.
  rewrite (find_upd_ex f q t (fun d => rule d = true) Hf).
  - apply F1. exact Hl.
  - intro d. rewrite Hr. reflexivity.
Qed.

Lemma upd_Nochild_ok : forall f q t, (forall d, stem (f d) = stem d) ->
  (forall d, nochild (f d) = nochild d) -> (forall d, we (f d) = we d) ->
  Nochild_ok t -> Nochild_ok (upd f q t).
Proof.
  intros f q t Hf Hn Hw NC p q' dp' dq' Hp Hnc Hpq Hne Hq.
  destruct (find_upd_cases f p q t dp' Hf Hp) as (dp & Hdp & Cp).
  destruct (find_upd_cases f q' q t dq' Hf Hq) as (dq & Hdq & Cq).
  assert (E1 : nochild dp = true).
  { destruct Cp as [[_ ->]|[_ ->]]; [rewrite Hn in Hnc|]; exact Hnc. }
  assert (E2 : we dq' = we dq).
  { destruct Cq as [[_ ->]|[_ ->]]; [apply Hw|reflexivity]. }
  rewrite E2. apply (NC p q' dp dq); assumption.
Qed.

(* ====================================================================== *)
(* the groups that change                                                 *)
(* ====================================================================== *)

Definition page_fn (cr : bool) : nd -> nd :=
  fun d => if cr then set_crawled (set_page d) else set_page d.

Lemma page_fn_stem : forall cr d, stem (page_fn cr d) = stem d.
Proof. intros [|] d; reflexivity. Qed.

Lemma set_page_Pages : forall cr l t d pages, wf_lru l ->
  find (lru_iter l) t = Some d -> page d = false ->
  Pages_ok t pages -> Pages_ok (upd (page_fn cr) (lru_iter l) t) (pages ++ [(l, cr)]).
Proof.
  intros cr l t d pages Hl Hd Hpg (P1 & P2 & P3 & P4).
  assert (Hcrd : crawled d = false).
  { destruct (crawled d) eqn:E; [|reflexivity]. rewrite (P4 _ d Hd E) in Hpg. discriminate. }
  assert (Hnot : forall c, ~ In (l, c) pages).
  { intros c H. apply (P1 l c Hl) in H. destruct H as (d2 & Hd2 & Hp2 & _). congruence. }
  split; [|split; [|split]].
  - intros l' c Hl'. rewrite (nof_upd _ l l' t (page_fn_stem cr) Hl Hl'), in_app_iff.
    destruct (beq_spec l' l) as [E|E].
    + subst l'. rewrite Hd. cbn [option_map]. split.
      * intros [H|[H|[]]]; [exfalso; apply (Hnot c H)|]. injection H as <-.
        eexists. split; [reflexivity|]. destruct cr; cbn; auto.
      * intros (d' & E & Hp & Hc). injection E as <-. right. left. f_equal.
        destruct cr; cbn in Hc; congruence.
    + split.
      * intros [H|[H|[]]]; [apply (P1 l' c Hl'); exact H|]. injection H as H _. congruence.
      * intro H. left. apply (P1 l' c Hl'). exact H.
  - apply Forall_app. split; [exact P2|]. constructor; [exact Hl|constructor].
  - rewrite map_app. apply NoDup_app_intro; [exact P3|constructor; [intros []|constructor]|].
    intros x Hx [<-|[]]. apply in_map_iff in Hx. destruct Hx as ([k c] & E & Hin).
    cbn in E. subst k. apply (Hnot c Hin).
  - intros p d' H Hcr. destruct (find_upd_cases _ p _ t d' (page_fn_stem cr) H) as (d0 & Hd0 & [[_ ->]|[_ ->]]).
    + destruct cr; reflexivity.
    + apply (P4 p d0 Hd0 Hcr).
Qed.

Lemma Forall_aset : forall (A : Type) (m : list (bytes * A)) k v,
  wf_lru k -> Forall (fun x => wf_lru (fst x)) m -> Forall (fun x => wf_lru (fst x)) (aset k v m).
Proof.
  intros A m k v Hk Hm. apply Forall_forall. intros [k' v'] Hin.
  apply In_aset_weak in Hin. destruct Hin as [[-> _]|Hin]; [exact Hk|].
  rewrite Forall_forall in Hm. apply (Hm _ Hin).
Qed.

Lemma Forall_adel : forall (A : Type) (P : bytes * A -> Prop) (m : list (bytes * A)) k,
  Forall P m -> Forall P (adel k m).
Proof.
  intros A P m k Hm. apply Forall_forall. intros x Hin. apply In_adel_weak in Hin.
  rewrite Forall_forall in Hm. apply (Hm _ Hin).
Qed.

Lemma set_crawled_Pages : forall l t d pages, wf_lru l ->
  find (lru_iter l) t = Some d -> page d = true ->
  Pages_ok t pages -> Pages_ok (upd set_crawled (lru_iter l) t) (aset l true pages).
Proof.
  intros l t d pages Hl Hd Hpg (P1 & P2 & P3 & P4).
  assert (Hf : forall d, stem (set_crawled d) = stem d) by (intro; reflexivity).
  split; [|split; [|split]].
  - intros l' c Hl'. rewrite (nof_upd _ l l' t Hf Hl Hl'), (In_aset _ _ _ _ _ P3).
    destruct (beq_spec l' l) as [E|E].
    + subst l'. rewrite Hd. cbn [option_map]. split.
      * intros [[_ ->]|[Hne _]]; [|congruence]. eexists. split; [reflexivity|]. cbn. auto.
      * intros (d' & E & Hp & Hc). injection E as <-. left. cbn in Hc. auto.
    + split.
      * intros [[-> _]|[_ H]]; [congruence|]. apply (P1 l' c Hl'). exact H.
      * intro H. right. split; [exact E|]. apply (P1 l' c Hl'). exact H.
  - apply Forall_aset; assumption.
  - apply NoDup_aset. exact P3.
  - intros p d' H Hcr. destruct (find_upd_cases _ p _ t d' Hf H) as (d0 & Hd0 & [[-> ->]|[_ ->]]).
    + cbn. congruence.
    + apply (P4 p d0 Hd0 Hcr).
Qed.

Lemma set_we_Pref : forall w l t d pref, wf_lru l -> w <> 0 ->
  find (lru_iter l) t = Some d ->
  Pref_ok t pref -> Pref_ok (upd (set_we w) (lru_iter l) t) (aset l w pref).
Proof.
  intros w l t d pref Hl Hw Hd (W1 & W2 & W3).
  assert (Hf : forall d, stem (set_we w d) = stem d) by (intro; reflexivity).
  split; [|split].
  - intros l' w' Hl'. rewrite (nof_upd _ l l' t Hf Hl Hl'), (In_aset _ _ _ _ _ W3).
    destruct (beq_spec l' l) as [E|E].
    + subst l'. rewrite Hd. cbn [option_map]. split.
      * intros [[_ ->]|[Hne _]]; [|congruence]. eexists. split; [reflexivity|]. cbn. auto.
      * intros (d' & E & Hwe & Hne). injection E as <-. left. cbn in Hwe. auto.
    + split.
      * intros [[-> _]|[_ H]]; [congruence|]. apply (W1 l' w' Hl'). exact H.
      * intro H. right. split; [exact E|]. apply (W1 l' w' Hl'). exact H.
  - apply Forall_aset; assumption.
  - apply NoDup_aset. exact W3.
Qed.

Lemma unset_we_Pref : forall l t d pref, wf_lru l ->
  find (lru_iter l) t = Some d ->
  Pref_ok t pref -> Pref_ok (upd (set_we 0) (lru_iter l) t) (adel l pref).
Proof.
  intros l t d pref Hl Hd (W1 & W2 & W3).
  assert (Hf : forall d, stem (set_we 0 d) = stem d) by (intro; reflexivity).
  split; [|split].
  - intros l' w' Hl'. rewrite (nof_upd _ l l' t Hf Hl Hl'), (In_adel _ _ _ _ W3).
    destruct (beq_spec l' l) as [E|E].
    + subst l'. rewrite Hd. cbn [option_map]. split.
      * intros [Hne _]. congruence.
      * intros (d' & E & Hwe & Hne). injection E as <-. cbn in Hwe. congruence.
    + split.
      * intros [_ H]. apply (W1 l' w' Hl'). exact H.
      * intro H. split; [exact E|]. apply (W1 l' w' Hl'). exact H.
  - apply Forall_adel. exact W2.
  - apply NoDup_adel. exact W3.
Qed.

Lemma set_we_Nochild : forall w l t, 
  (forall p dp, is_prefix p (lru_iter l) = true -> p <> lru_iter l ->
                find p t = Some dp -> nochild dp = false) ->
  Nochild_ok t -> Nochild_ok (upd (set_we w) (lru_iter l) t).
Proof.
  intros w l t Hanc NC p q' dp' dq' Hp Hnc Hpq Hne Hq.
  assert (Hf : forall d, stem (set_we w d) = stem d) by (intro; reflexivity).
  destruct (find_upd_cases _ p _ t dp' Hf Hp) as (dp & Hdp & Cp).
  destruct (find_upd_cases _ q' _ t dq' Hf Hq) as (dq & Hdq & Cq).
  assert (E1 : nochild dp = true).
  { destruct Cp as [[_ ->]|[_ ->]]; exact Hnc. }
  destruct Cq as [[-> ->]|[_ ->]].
  - rewrite (Hanc p dp Hpq Hne Hdp) in E1. discriminate.
  - apply (NC p q' dp dq); assumption.
Qed.

Lemma unset_we_Nochild : forall q t, Nochild_ok t -> Nochild_ok (upd (set_we 0) q t).
Proof.
  intros q t NC p q' dp' dq' Hp Hnc Hpq Hne Hq.
  assert (Hf : forall d, stem (set_we 0 d) = stem d) by (intro; reflexivity).
  destruct (find_upd_cases _ p _ t dp' Hf Hp) as (dp & Hdp & Cp).
  destruct (find_upd_cases _ q' _ t dq' Hf Hq) as (dq & Hdq & Cq).
  assert (E1 : nochild dp = true).
  { destruct Cp as [[_ ->]|[_ ->]]; exact Hnc. }
  destruct Cq as [[_ ->]|[_ ->]].
  - reflexivity.
  - apply (NC p q' dp dq); assumption.
Qed.

Definition flags_after (b : bool) (l : bytes) (flags : list bytes) : list bytes :=
  if b then add_set l flags else filter (fun q => negb (beq l q)) flags.

Lemma set_rule_Flags : forall b l t d flags, wf_lru l ->
  find (lru_iter l) t = Some d ->
  Flags_ok t flags -> Flags_ok (upd (set_rule b) (lru_iter l) t) (flags_after b l flags).
Proof.
  intros b l t d flags Hl Hd (F1 & F2).
  assert (Hf : forall d, stem (set_rule b d) = stem d) by (intro; reflexivity).
  split.
  - intros l' Hl'. rewrite (nof_upd _ l l' t Hf Hl Hl').
    destruct (beq_spec l' l) as [E|E].
    + subst l'. rewrite Hd. cbn [option_map]. destruct b; cbn [flags_after].
      * rewrite In_add_set. split; [|auto]. intros _. eexists. split; reflexivity.
      * rewrite filter_In, beq_refl. cbn [negb]. split.
        -- intros [_ H]. discriminate.
        -- intros (d' & E & H). injection E as <-. cbn in H. discriminate.
    + rewrite <- (F1 l' Hl'). destruct b; cbn [flags_after].
      * rewrite In_add_set. split; [intros [H|H]; [congruence|exact H]|auto].
      * rewrite filter_In. split; [tauto|]. intro H. split; [exact H|].
        apply negb_true_iff. apply beq_neq. congruence.
  - apply Forall_forall. intros x Hx. rewrite Forall_forall in F2. destruct b; cbn [flags_after] in Hx.
    + apply In_add_set in Hx. destruct Hx as [->|Hx]; [exact Hl|apply F2; exact Hx].
    + apply filter_In in Hx. apply F2. apply Hx.
Qed.

(* ====================================================================== *)
(* Part C — the main statements                                           *)
(* ====================================================================== *)

Ltac open_R HR :=
  apply Rcore_groups in HR; destruct HR as (K & P & W & F & NC & L & RU & DF);
  apply Rcore_groups; unfold updl, set_tree, set_tr;
  cbn [tr nb lastwe stubs rules dflt a_pages a_known a_pref a_links a_last a_flags a_rules a_dflt
       upd_pref upd_known].

Ltac fld := intro; reflexivity.

Lemma set_page_Rcore : forall s a l d (cr : bool), Rcore s a -> wf_lru l -> nodeof s l = Some d ->
  page d = false ->
  Rcore (updl (fun d => if cr then set_crawled (set_page d) else set_page d) l s)
        (mkA (a_pages a ++ [(l, cr)]) (a_known a) (a_pref a) (a_links a) (a_last a)
             (a_flags a) (a_rules a) (a_dflt a)).
Proof.
  intros s a l d cr HR Hl Hd Hpg. open_R HR. fold (page_fn cr).
  assert (Hf := page_fn_stem cr).
  split; [apply upd_Known_ok; assumption|].
  split; [eapply set_page_Pages; eassumption|].
  split; [apply upd_Pref_ok; [assumption|intro; destruct cr; reflexivity|assumption]|].
  split; [apply upd_Flags_ok; [assumption|intro; destruct cr; reflexivity|assumption]|].
  split; [apply upd_Nochild_ok; [assumption|intro; destruct cr; reflexivity..|assumption]|].
  auto.
Qed.

Lemma set_crawled_Rcore : forall s a l d, Rcore s a -> wf_lru l -> nodeof s l = Some d ->
  page d = true ->
  Rcore (updl set_crawled l s)
        (mkA (aset l true (a_pages a)) (a_known a) (a_pref a) (a_links a) (a_last a)
             (a_flags a) (a_rules a) (a_dflt a)).
Proof.
  intros s a l d HR Hl Hd Hpg. open_R HR.
  split; [apply upd_Known_ok; [fld|assumption]|].
  split; [eapply set_crawled_Pages; eassumption|].
  split; [apply upd_Pref_ok; [fld|fld|assumption]|].
  split; [apply upd_Flags_ok; [fld|fld|assumption]|].
  split; [apply upd_Nochild_ok; [fld|fld|fld|assumption]|].
  auto.
Qed.

(* the ancestors condition, brought down to stem lists *)
Lemma ancestors_cond : forall s l, wf_lru l ->
  (forall l' d', In l' (stem_prefixes l) -> l' <> l -> nodeof s l' = Some d' -> nochild d' = false) ->
  forall p dp, is_prefix p (lru_iter l) = true -> p <> lru_iter l ->
               find p (tr s) = Some dp -> nochild dp = false.
Proof.
  intros s l Hl H p dp Hp Hne Hdp.
  assert (Hw : Forall wf_stem p) by (eapply Forall_prefix; [exact Hp|apply lru_iter_wf]).
  apply (H (concat p) dp).
  - apply In_stem_prefixes. exists p. split; [reflexivity|]. split; [|exact Hp].
    eapply find_nonempty. exact Hdp.
  - intro E. apply Hne. rewrite <- E. symmetry. apply lru_iter_concat_stems. exact Hw.
  - rewrite nodeof_concat by exact Hw. exact Hdp.
Qed.

(* slightly stronger than requested: [we d = 0] is not needed *)
Lemma set_we_Rcore' : forall s a l d w, Rcore s a -> wf_lru l -> nodeof s l = Some d ->
  w <> 0 ->
  (forall l' d', In l' (stem_prefixes l) -> l' <> l -> nodeof s l' = Some d' -> nochild d' = false) ->
  Rcore (updl (set_we w) l s) (upd_pref (aset l w) a).
Proof.
  intros s a l d w HR Hl Hd Hw Hanc.
  pose proof (ancestors_cond s l Hl Hanc) as Hanc'. open_R HR.
  split; [apply upd_Known_ok; [fld|assumption]|].
  split; [apply upd_Pages_ok; [fld|fld|fld|assumption]|].
  split; [eapply set_we_Pref; eassumption|].
  split; [apply upd_Flags_ok; [fld|fld|assumption]|].
  split; [apply set_we_Nochild; assumption|].
  auto.
Qed.

Lemma set_we_Rcore : forall s a l d w, Rcore s a -> wf_lru l -> nodeof s l = Some d ->
  w <> 0 -> we d = 0 ->
  (forall l' d', In l' (stem_prefixes l) -> l' <> l -> nodeof s l' = Some d' -> nochild d' = false) ->
  Rcore (updl (set_we w) l s) (upd_pref (aset l w) a).
Proof. intros s a l d w HR Hl Hd Hw _ Hanc. eapply set_we_Rcore'; eassumption. Qed.

Lemma unset_we_Rcore : forall s a l d, Rcore s a -> wf_lru l -> nodeof s l = Some d ->
  Rcore (updl (set_we 0) l s) (upd_pref (adel l) a).
Proof.
  intros s a l d HR Hl Hd. open_R HR.
  split; [apply upd_Known_ok; [fld|assumption]|].
  split; [apply upd_Pages_ok; [fld|fld|fld|assumption]|].
  split; [eapply unset_we_Pref; eassumption|].
  split; [apply upd_Flags_ok; [fld|fld|assumption]|].
  split; [apply unset_we_Nochild; assumption|].
  auto.
Qed.

Lemma set_rule_Rcore : forall s a l d b, Rcore s a -> wf_lru l -> nodeof s l = Some d ->
  Rcore (updl (set_rule b) l s)
        (mkA (a_pages a) (a_known a) (a_pref a) (a_links a) (a_last a)
             (if b then add_set l (a_flags a) else filter (fun q => negb (beq l q)) (a_flags a))
             (a_rules a) (a_dflt a)).
Proof.
  intros s a l d b HR Hl Hd. open_R HR.
  split; [apply upd_Known_ok; [fld|assumption]|].
  split; [apply upd_Pages_ok; [fld|fld|fld|assumption]|].
  split; [apply upd_Pref_ok; [fld|fld|assumption]|].
  split; [eapply (set_rule_Flags b); eassumption|].
  split; [apply upd_Nochild_ok; [fld|fld|fld|assumption]|].
  auto.
Qed.

(* any rewrite that keeps stem, page, crawled, rule, nochild and we keeps Rcore
   (no hypothesis on l: it may be ill-formed or absent) *)
Lemma updl_frame_Rcore : forall f s a l,
  (forall d, stem (f d) = stem d) -> (forall d, page (f d) = page d) ->
  (forall d, crawled (f d) = crawled d) -> (forall d, rule (f d) = rule d) ->
  (forall d, nochild (f d) = nochild d) -> (forall d, we (f d) = we d) ->
  Rcore s a -> Rcore (updl f l s) a.
Proof.
  intros f s a l H1 H2 H3 H4 H5 H6 HR. open_R HR.
  split; [apply upd_Known_ok; assumption|].
  split; [apply upd_Pages_ok; assumption|].
  split; [apply upd_Pref_ok; assumption|].
  split; [apply upd_Flags_ok; assumption|].
  split; [apply upd_Nochild_ok; assumption|].
  auto.
Qed.

Lemma set_head_Rcore : forall s a l h, Rcore s a -> Rcore (updl (set_outh h) l s) a.
Proof. intros s a l h HR. apply updl_frame_Rcore; try fld. exact HR. Qed.

Lemma set_inh_Rcore : forall s a l h, Rcore s a -> Rcore (updl (set_inh h) l s) a.
Proof. intros s a l h HR. apply updl_frame_Rcore; try fld. exact HR. Qed.

(* the same at the level of raw stem lists (store_links rewrites through a path) *)
Lemma upd_frame_Rcore : forall f s a q st,
  (forall d, stem (f d) = stem d) -> (forall d, page (f d) = page d) ->
  (forall d, crawled (f d) = crawled d) -> (forall d, rule (f d) = rule d) ->
  (forall d, nochild (f d) = nochild d) -> (forall d, we (f d) = we d) ->
  Rcore s a -> Rcore (mkT (upd f q (tr s)) (nb s) (lastwe s) st (rules s) (dflt s)) a.
Proof.
  intros f s a q st H1 H2 H3 H4 H5 H6 HR.
  apply Rcore_groups in HR. destruct HR as (K & P & W & F & NC & L & RU & DF).
  apply Rcore_groups. cbn [tr nb lastwe stubs rules dflt].
  split; [apply upd_Known_ok; assumption|].
  split; [apply upd_Pages_ok; assumption|].
  split; [apply upd_Pref_ok; assumption|].
  split; [apply upd_Flags_ok; assumption|].
  split; [apply upd_Nochild_ok; assumption|].
  auto.
Qed.

(* ---- scalar updates ------------------------------------------------------ *)

Lemma Rcore_scalars : forall s a w st rs df lk, Rcore s a ->
  Rcore (mkT (tr s) (nb s) w st rs df)
        (mkA (a_pages a) (a_known a) (a_pref a) lk w (a_flags a) rs df).
Proof.
  intros s a w st rs df lk HR.
  apply Rcore_groups in HR. destruct HR as (K & P & W & F & NC & L & RU & DF).
  apply Rcore_groups.
  cbn [tr nb lastwe stubs rules dflt a_pages a_known a_pref a_links a_last a_flags a_rules a_dflt].
  auto 10.
Qed.

Lemma Rcore_set_last : forall s a w, Rcore s a ->
  Rcore (mkT (tr s) (nb s) w (stubs s) (rules s) (dflt s))
        (mkA (a_pages a) (a_known a) (a_pref a) (a_links a) w (a_flags a) (a_rules a) (a_dflt a)).
Proof.
  intros s a w HR. rewrite (R_rules s a HR), (R_dflt s a HR). apply Rcore_scalars. exact HR.
Qed.

Lemma Rcore_set_stubs : forall s a st, Rcore s a ->
  Rcore (mkT (tr s) (nb s) (lastwe s) st (rules s) (dflt s)) a.
Proof.
  intros s a st HR. eapply Rcore_ext; [..|exact HR]; reflexivity.
Qed.

Lemma Rcore_set_links : forall s a lk, Rcore s a ->
  Rcore s (mkA (a_pages a) (a_known a) (a_pref a) lk (a_last a) (a_flags a) (a_rules a) (a_dflt a)).
Proof.
  intros s a lk HR. apply Rcore_groups in HR. apply Rcore_groups. exact HR.
Qed.

Lemma Rcore_set_rules : forall s a rs, Rcore s a ->
  Rcore (mkT (tr s) (nb s) (lastwe s) (stubs s) rs (dflt s))
        (mkA (a_pages a) (a_known a) (a_pref a) (a_links a) (a_last a) (a_flags a) rs (a_dflt a)).
Proof.
  intros s a rs HR. rewrite (R_last s a HR) at 1. rewrite (R_dflt s a HR). apply Rcore_scalars. exact HR.
Qed.

Lemma Rcore_set_dflt : forall s a df, Rcore s a ->
  Rcore (mkT (tr s) (nb s) (lastwe s) (stubs s) (rules s) df)
        (mkA (a_pages a) (a_known a) (a_pref a) (a_links a) (a_last a) (a_flags a) (a_rules a) df).
Proof.
  intros s a df HR. rewrite (R_last s a HR) at 1. rewrite (R_rules s a HR). apply Rcore_scalars. exact HR.
Qed.

(* ====================================================================== *)
(* A first composition (checks the interface): LRUTrie.add_page           *)
(* ====================================================================== *)

Lemma aset_aget_same : forall (A : Type) (m : list (bytes * A)) k v,
  aget k m = Some v -> aset k v m = m.
Proof.
  intros A m k v. induction m as [|[k1 v1] m IH]; intro H; [discriminate|].
  cbn [aget aset] in *. destruct (beq k k1).
  - injection H as <-. reflexivity.
  - f_equal. apply IH. exact H.
Qed.

Definition pages_after (l : bytes) (cr : bool) (pages : list (bytes * bool)) : list (bytes * bool) :=
  match aget l pages with
  | Some c => aset l (c || cr) pages
  | None => pages ++ [(l, cr)]
  end.

Lemma trie_add_page_Rcore : forall l cr s a, wf_lru l -> Rcore s a ->
  Rcore (fst (fst (trie_add_page l cr s)))
        (mkA (pages_after l cr (a_pages a)) (know l (a_known a)) (a_pref a) (a_links a) (a_last a)
             (a_flags a) (a_rules a) (a_dflt a)) /\
  snd (fst (trie_add_page l cr s)) = ahist a l /\
  snd (trie_add_page l cr s) = negb (amem l (a_pages a)).
Proof.
  intros l cr s a Hl HR.
  pose proof (add_lru_Rcore false l s a Hl HR) as HR1.
  pose proof (add_lru_hist false l s a Hl HR) as HH.
  pose proof (add_lru_self false l s Hl) as Hself.
  unfold trie_add_page. destruct (add_lru false l s) as [s1 h] eqn:E1.
  cbn [fst snd] in HR1, HH, Hself. subst h.
  change (find (lru_iter l) (tr s1)) with (nodeof s1 l).
  destruct (nodeof s1 l) as [d|] eqn:Hd; [|congruence].
  unfold pages_after, amem.
  change (a_pages a) with (a_pages (upd_known (know l) a)).
  destruct (page d) eqn:Hpg.
  - assert (Hag : aget l (a_pages (upd_known (know l) a)) = Some (crawled d)).
    { apply (aget_pages_iff s1 _ l (crawled d) HR1 Hl). exists d. auto. }
    rewrite Hag. cbn [fst snd negb]. split; [|auto].
    destruct cr, (crawled d) eqn:Hc; cbn [andb orb negb].
    + rewrite aset_aget_same by exact Hag. exact HR1.
    + apply (set_crawled_Rcore s1 _ l d HR1 Hl Hd Hpg).
    + rewrite aset_aget_same by exact Hag. exact HR1.
    + rewrite aset_aget_same by exact Hag. exact HR1.
  - assert (Hag : aget l (a_pages (upd_known (know l) a)) = None).
    { destruct (aget l (a_pages (upd_known (know l) a))) as [c|] eqn:Eg; [|reflexivity].
      apply (aget_pages_iff s1 _ l c HR1 Hl) in Eg. destruct Eg as (d2 & Hd2 & Hp2 & _). congruence. }
    rewrite Hag. cbn [fst snd negb]. split; [|auto].
    apply (set_page_Rcore s1 _ l d cr HR1 Hl Hd Hpg).
Qed.
