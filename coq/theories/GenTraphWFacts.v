(* GenTraphWFacts.v — the explicit creation of a webentity translated from the source (GenTraphW.v, generated on every run from
   /repo/traph/traph.py: Traph.create_webentity, __add_prefixes, __generated_web_entity_id; lru_trie/header.py; node.py refresh /
   set_webentity) does on the bytes of the trie file and on the RAM header object exactly what the model's
   Traph.create_webentity / add_prefixes does, on every state satisfying Inv18.  Part 2 (plan at the top of GenTraphWFacts1.v):
     5. the first loop: one add_lru(prefix, True) per prefix; the invalid list counts the prefixes whose node carries a webentity,
        the dict holds, for every valid prefix in first-occurrence order, a node object whose block is the address of the node
        at that prefix (walk_spec)
     6. the second loop: each node refreshed from the file, its webentity register set, its block rewritten in place
        (set_loop_spec)
     7. py_traph_add_prefixes_spec, py_traph_create_webentity_spec; the id is persisted in the header block; the whole file is
        the model's trie file; examples by vm_compute. *)
From Coq Require Import List NArith Bool Lia Arith.
Import ListNotations.
From Traph Require Import Bytes Consts Layout Helpers Rules Tst TstDefs Traph Traphw TraceDefs Codec CodecFacts
  TstFacts Store StoreFacts GenStorage GenNode GenNodeFacts GenTrie GenTrieFacts GenTrieW GenTrieWDefs GenTraphW GenTraphWDefs.
From Traph Require Import TraceFacts2 TraceFacts3 TraceFacts4 LinkFacts StoreFacts2 GenTrieWAdd1 GenTrieWAdd2 GenTrieWAdd
  GenTrieWPage ReopenFacts GenTrieWFrame GenTraphWFacts1.
From Traph Require IdFacts.
Open Scope N_scope.

Arguments N.shiftr : simpl never.
Arguments N.shiftl : simpl never.
Arguments N.modulo : simpl never.
Arguments N.div : simpl never.
Arguments N.land : simpl never.
Arguments N.lor : simpl never.
Arguments N.ldiff : simpl never.
Arguments N.mul : simpl never.
Arguments N.add : simpl never.
Arguments N.sub : simpl never.
Arguments N.ltb : simpl never.
Arguments N.eqb : simpl never.
Arguments N.pow : simpl never.

(* ====================================================================================== *)
(* 5. the first loop                                                                      *)
(* ====================================================================================== *)
(* every node object kept in the dict names the block of the node found at its key in the current tree (its registers may be
   stale: the second loop refreshes it) *)
Definition dict_ok (s : traph) (idx : Idx) : Prop :=
  forall k n h, In (k, (n, h)) idx -> exists d, find (lru_iter k) (tr s) = Some d /\ nd_block n = Some (addr d).

Lemma dict_ok_add_lru : forall flag p s idx, dict_ok s idx -> dict_ok (fst (add_lru flag p s)) idx.
Proof.
  intros flag p s idx H k n h Hin. destruct (H k n h Hin) as (d & Hd & Hb).
  destruct (add_lru_addr_stable flag p s _ d Hd) as (d' & Hd' & Ha & _).
  exists d'. split; [exact Hd'|]. rewrite Ha. exact Hb.
Qed.

Lemma dict_ok_upd : forall f q s idx, (forall d, stem (f d) = stem d) -> (forall d, addr (f d) = addr d) ->
  dict_ok s idx -> dict_ok (set_tree (upd f q (tr s)) s) idx.
Proof.
  intros f q s idx Hs Ha H k n h Hin. destruct (H k n h Hin) as (d & Hd & Hb).
  cbn [set_tree set_tr tr].
  destruct (find_upd_keeps f q (tr s) _ d Hs Hd) as [Hk|[_ Hk]].
  - exists d. split; assumption.
  - exists (f d). split; [exact Hk|]. rewrite Ha. exact Hb.
Qed.

Lemma walked_nb_mono : forall ps s, nb s <= nb (walked ps s).
Proof.
  induction ps as [|p ps IH]; intro s; [cbn; lia|].
  cbn [walked fold_left]. fold (walked ps (fst (add_lru true p s))).
  pose proof (IH (fst (add_lru true p s))) as H. rewrite add_lru_nb in H.
  pose proof (ins_nb_mono true (lru_iter p) [] 0 (nb s) hist0 (tr s)). lia.
Qed.

Lemma walk_prefixes_cons : forall p ps s ninv valid,
  walk_prefixes (p :: ps) s ninv valid =
  let s1 := fst (add_lru true p s) in
  match find (lru_iter p) (tr s1) with
  | Some d => if we d =? 0 then walk_prefixes ps s1 ninv (if mem_bytes p valid then valid else valid ++ [p])
              else walk_prefixes ps s1 (S ninv) valid
  | None => walk_prefixes ps s1 ninv valid
  end.
Proof. intros. cbn [walk_prefixes]. destruct (add_lru true p s) as [s1 h]. reflexivity. Qed.

(* the first loop of __add_prefixes from any state: the storage follows the walks of the model, the header block is never
   touched, the invalid list is as long as the model's count, the keys of the dict are the model's valid list *)
Lemma walk_spec : forall ps s sg inv idx ninv valid H,
  Inv18 s -> root_first s -> trep (files_of s) sg -> hk H sg -> Forall wf_lru ps ->
  length inv = ninv -> map fst idx = valid -> dict_ok s idx ->
  forall s1 ninv' valid', walk_prefixes ps s ninv valid = (s1, ninv', valid') ->
  nb s1 * 128 < 2 ^ 64 ->
  exists sg' inv' idx', fold_left walk_step ps (Some (sg, inv, idx)) = Some (sg', inv', idx') /\
    trep (files_of s1) sg' /\ hk H sg' /\ length inv' = ninv' /\ map fst idx' = valid' /\ dict_ok s1 idx' /\
    Inv18 s1 /\ root_first s1.
Proof.
  induction ps as [|p ps IH]; intros s sg inv idx ninv valid H Hinv Hroot Hrep Hhk Hwf Hlen Hkeys Hdict s1 ninv' valid' Ew Hsize.
  - cbn [walk_prefixes] in Ew. injection Ew as <- <- <-. exists sg, inv, idx.
    split; [reflexivity|]. split; [exact Hrep|]. split; [exact Hhk|]. split; [exact Hlen|]. split; [exact Hkeys|].
    split; [exact Hdict|]. split; [exact Hinv|exact Hroot].
  - pose proof (Forall_inv Hwf) as Hwp. pose proof (Forall_inv_tail Hwf) as Hwps.
    rewrite walk_prefixes_cons in Ew. cbv zeta in Ew.
    set (sa := fst (add_lru true p s)) in *.
    assert (Hs1 : s1 = walked ps sa).
    { destruct (find (lru_iter p) (tr sa)) as [d|]; [destruct (we d =? 0)|];
        apply (f_equal (fun x => fst (fst x))) in Ew; rewrite walk_state in Ew; symmetry; exact Ew. }
    assert (Hsa : nb sa * 128 < 2 ^ 64).
    { pose proof (walked_nb_mono ps sa) as Hm. rewrite <- Hs1 in Hm. rewrite pow64 in *. nia. }
    destruct (py_trie_add_lru_spec s Hinv sg p true Hroot Hrep Hwp Hsa) as (sg1 & n & ph & Eadd & Hrep1 & _ & t' & Ht' & Hn).
    fold sa in Hrep1, Ht'.
    destruct (py_trie_add_lru_frame sg p true sg1 (n, ph) H Hhk Eadd) as [Hhk1 _].
    pose proof (add_lru_Inv18 true p s Hinv) as Hinv1. fold sa in Hinv1.
    pose proof (add_lru_root_first true p s Hinv Hroot) as Hroot1. fold sa in Hroot1.
    pose proof (dict_ok_add_lru true p s idx Hdict) as Hdict1. fold sa in Hdict1.
    destruct t' as [|d l c r]; [destruct Hn|].
    pose proof Hn as (_ & Hblk & Hdata & _).
    assert (Hfd : find (lru_iter p) (tr sa) = Some d) by (rewrite find_of_sub, Ht'; reflexivity).
    rewrite Hfd in Ew.
    destruct (node_has_we d _ _ _ n Hdata) as (Ehw & _).
    cbn [fold_left walk_step]. rewrite Eadd, Ehw.
    destruct (we d =? 0) eqn:Ewe; cbn [negb].
    + (* a valid prefix: the dict is updated *)
      apply (IH sa sg1 inv (py_dict_update p (n, ph) idx) ninv (if mem_bytes p valid then valid else valid ++ [p]) H Hinv1 Hroot1 Hrep1 Hhk1 Hwps Hlen); [| |exact Ew|exact Hsize].
      * rewrite dict_update_keys, Hkeys. reflexivity.
      * intros k n0 h0 Hin. destruct (dict_update_In _ _ _ _ _ _ Hin) as [Hold|[Ev ->]].
        -- exact (Hdict1 k n0 h0 Hold).
        -- injection Ev as -> ->. exists d. split; assumption.
    + (* a prefix that already belongs to a webentity *)
      apply (IH sa sg1 (inv ++ [p]) idx (S ninv) valid H Hinv1 Hroot1 Hrep1 Hhk1 Hwps); [|exact Hkeys|exact Hdict1|exact Ew|exact Hsize].
      rewrite app_length, Hlen. cbn [length]. lia.
Qed.

(* ====================================================================================== *)
(* 6. the second loop                                                                     *)
(* ====================================================================================== *)
Lemma set_loop_spec : forall w idx s sg H,
  w < 2 ^ 32 -> Inv18 s -> trep (files_of s) sg -> hk H sg -> dict_ok s idx ->
  let s' := set_tree (set_we_all w (map fst idx) (tr s)) s in
  exists sg', fold_left (set_step w) idx (Some sg) = Some sg' /\ trep (files_of s') sg' /\ hk H sg' /\ Inv18 s'.
Proof.
  intros w idx. induction idx as [|[k [n h]] idx IH]; intros s sg H Hw Hinv Hrep Hhk Hdict s'.
  - exists sg. split; [reflexivity|]. unfold s'. cbn [map set_we_all fold_left].
    assert (E : set_tree (tr s) s = s) by (destruct s; reflexivity). rewrite E.
    split; [exact Hrep|]. split; [exact Hhk|exact Hinv].
  - destruct (Hdict k n h (or_introl eq_refl)) as (d & Hd & Hb).
    destruct (set_we_in_place s Hinv w (lru_iter k) d n sg H Hw Hd Hb Hrep Hhk)
      as (n1 & sg1 & n2 & sg2 & Eref & Ewr & Hrep2 & Hhk2 & Hinv2).
    cbn [fold_left set_step]. rewrite Eref, Ewr.
    set (s2 := set_tree (upd (set_we w) (lru_iter k) (tr s)) s) in *.
    assert (Hdict2 : dict_ok s2 idx).
    { apply dict_ok_upd; try reflexivity. intros k0 n0 h0 Hin. apply (Hdict k0 n0 h0). right. exact Hin. }
    destruct (IH s2 sg2 H Hw Hinv2 Hrep2 Hhk2 Hdict2) as (sg' & Ef & Hrep' & Hhk' & Hinv').
    exists sg'. split; [exact Ef|].
    assert (E : s' = set_tree (set_we_all w (map fst idx) (tr s2)) s2) by reflexivity.
    rewrite E. split; [exact Hrep'|]. split; [exact Hhk'|exact Hinv'].
Qed.

(* ====================================================================================== *)
(* 7. __add_prefixes and create_webentity                                                 *)
(* ====================================================================================== *)
Lemma ltb_0_length : forall n : nat, (0 <? N.of_nat n) = negb (Nat.eqb n 0).
Proof. intros [|n]; [reflexivity|]. apply N.ltb_lt. lia. Qed.

Lemma eqb_of_nat : forall a b : nat, (N.of_nat a =? N.of_nat b) = Nat.eqb a b.
Proof.
  intros a b. destruct (Nat.eqb_spec a b) as [->|Hne]; [apply N.eqb_refl|]. apply N.eqb_neq. lia.
Qed.

Lemma add_prefixes_nb : forall ps best s s1 ninv valid, walk_prefixes ps s 0%nat [] = (s1, ninv, valid) ->
  nb (fst (add_prefixes ps best s)) = nb s1.
Proof.
  intros ps best s s1 ninv valid E. unfold add_prefixes. rewrite E.
  destruct (negb (Nat.eqb ninv 0) && negb best); [reflexivity|].
  destruct (Nat.eqb ninv (length ps)); reflexivity.
Qed.

(* Traph.__add_prefixes(prefixes, use_best_case) on the RAM header and the trie file of the state: it raises exactly when the
   model refuses; otherwise it returns the model's report, and the header object and the storage represent the model's next state
   (which satisfies the invariant and the root clause again) *)
Theorem py_traph_add_prefixes_spec : forall s, Inv18 s -> root_first s -> forall hd sg ps best,
  hrep s hd sg -> Forall wf_lru ps ->
  let r := add_prefixes ps best s in
  let s' := fst r in
  nb s' * 128 < 2 ^ 64 -> lastwe s + 1 < 2 ^ 32 ->
  Inv18 s' /\ root_first s' /\
  match r with
  | (_, ARefuse) => py_traph_add_prefixes hd sg ps best = None
  | (_, ANothing) => exists hd' sg', py_traph_add_prefixes hd sg ps best = Some (hd', sg', (None, [])) /\ hrep s' hd' sg'
  | (_, ACreated w valid) =>
      exists hd' sg', py_traph_add_prefixes hd sg ps best = Some (hd', sg', (Some w, valid)) /\ hrep s' hd' sg' /\
        w = lastwe s + 1 /\ decode_trie_header (firstn 128 (pm_array sg')) = w
  end.
Proof.
  intros s Hinv Hroot hd sg ps best Hh Hwf r s' Hsize Hlt.
  split; [exact (Tr_inv _ _ _ (add_prefixes_Tr ps best s Hinv))|].
  split; [apply Q_root_first, add_prefixes_Q, root_first_Q; assumption|].
  destruct (walk_prefixes ps s 0%nat []) as [[s1 ninv] valid] eqn:Ew.
  unfold s', r in Hsize. rewrite (add_prefixes_nb ps best s s1 ninv valid Ew) in Hsize.
  pose proof Hh as (Hrep & Hdat & _).
  pose proof (hrep_hk s hd sg Hh) as Hhk.
  destruct (walk_spec ps s sg [] [] 0%nat [] _ Hinv Hroot Hrep Hhk Hwf eq_refl eq_refl
              ltac:(intros k n h []) s1 ninv valid Ew Hsize)
    as (sg1 & inv & idx & Efold & Hrep1 & Hhk1 & Hlen & Hkeys & Hdict & Hinv1 & _).
  pose proof (IdFacts.walk_prefixes_lastwe ps s 0%nat [] s1 ninv valid Ew) as Elw.
  rewrite add_prefixes_eq, Efold, ltb_0_length, eqb_of_nat, Hlen.
  unfold s', r, add_prefixes. rewrite Ew.
  destruct (negb (Nat.eqb ninv 0) && negb best); [reflexivity|].
  destruct (Nat.eqb ninv (length ps)).
  - cbn [fst]. exists hd, sg1. split; [reflexivity|]. rewrite <- Elw in Hdat, Hhk1. apply hrep_intro; assumption.
  - cbn [fst].
    assert (Hh1 : hrep s1 hd sg1) by (rewrite <- Elw in Hdat, Hhk1; apply hrep_intro; assumption).
    destruct (py_traph_generated_web_entity_id_spec s1 hd sg1 Hinv1 Hh1 ltac:(rewrite Elw; exact Hlt))
      as (hd' & sg2 & Egen & Hh2 & Hinv2 & _).
    rewrite Egen.
    set (w := lastwe s1 + 1) in *. set (s1h := with_lastwe w s1) in *.
    pose proof Hh2 as (Hrep2 & Hdat2 & _). pose proof (hrep_hk _ _ _ Hh2) as Hhk2.
    assert (Hdict2 : dict_ok s1h idx) by exact Hdict.
    destruct (set_loop_spec w idx s1h sg2 _ ltac:(unfold w; rewrite Elw; exact Hlt) Hinv2 Hrep2 Hhk2 Hdict2)
      as (sg3 & Eset & Hrep3 & Hhk3 & _).
    rewrite Eset, Hkeys. exists hd', sg3. split; [reflexivity|].
    assert (Es : mkT (set_we_all w valid (tr s1)) (nb s1) w (stubs s1) (rules s1) (dflt s1)
                 = set_tree (set_we_all w (map fst idx) (tr s1h)) s1h) by (rewrite Hkeys; reflexivity).
    rewrite Es. split; [|split].
    + apply hrep_intro; [exact Hrep3|exact Hdat2|exact Hhk3].
    + unfold w. rewrite Elw. reflexivity.
    + destruct Hhk3 as (_ & -> & _). change (lastwe s1h) with w. apply trie_header_roundtrip.
      unfold w. rewrite Elw. exact Hlt.
Qed.

(* Traph.create_webentity(prefixes): the requested statement *)
Theorem py_traph_create_webentity_spec : forall s, Inv18 s -> root_first s -> forall hd sg ps,
  hrep s hd sg -> Forall wf_lru ps ->
  let r := create_webentity ps s in
  let s' := fst r in
  nb s' * 128 < 2 ^ 64 -> lastwe s + 1 < 2 ^ 32 ->
  match add_prefixes ps false s with
  | (_, ARefuse) => py_traph_create_webentity hd sg ps = None
  | (_, ANothing) => exists hd' sg', py_traph_create_webentity hd sg ps = Some (hd', sg', (None, [])) /\ hrep s' hd' sg'
  | (_, ACreated w valid) => exists hd' sg', py_traph_create_webentity hd sg ps = Some (hd', sg', (Some w, valid)) /\ hrep s' hd' sg'
  end.
Proof.
  intros s Hinv Hroot hd sg ps Hh Hwf r s' Hsize Hlt.
  assert (Es : s' = fst (add_prefixes ps false s)).
  { unfold s', r, create_webentity. destruct (add_prefixes ps false s) as [s1 [| |w v]]; reflexivity. }
  rewrite Es in *.
  destruct (py_traph_add_prefixes_spec s Hinv Hroot hd sg ps false Hh Hwf Hsize Hlt) as (_ & _ & HA).
  unfold py_traph_create_webentity.
  destruct (add_prefixes ps false s) as [s1 [| |w v]].
  - rewrite HA. reflexivity.
  - destruct HA as (hd' & sg' & E & Hh'). exists hd', sg'. rewrite E. split; [reflexivity|exact Hh'].
  - destruct HA as (hd' & sg' & E & Hh' & _). exists hd', sg'. rewrite E. split; [reflexivity|exact Hh'].
Qed.

(* the new state can be used again *)
Lemma create_webentity_Inv18 : forall ps s, Inv18 s -> Inv18 (fst (create_webentity ps s)).
Proof. intros ps s H. exact (Tr_inv _ _ _ (create_webentity_Tr ps s H)). Qed.
Lemma create_webentity_root_first : forall ps s, Inv18 s -> root_first s -> root_first (fst (create_webentity ps s)).
Proof. intros ps s Hinv Hr. apply Q_root_first, create_webentity_Q, root_first_Q; assumption. Qed.

(* ---- corollary 1: the id is the counter + 1, and it is persisted in the header block ---- *)
Corollary py_traph_create_webentity_id : forall s, Inv18 s -> root_first s -> forall hd sg ps,
  hrep s hd sg -> Forall wf_lru ps ->
  nb (fst (create_webentity ps s)) * 128 < 2 ^ 64 -> lastwe s + 1 < 2 ^ 32 ->
  forall s1 w valid, add_prefixes ps false s = (s1, ACreated w valid) ->
  w = lastwe s + 1 /\
  exists hd' sg', py_traph_create_webentity hd sg ps = Some (hd', sg', (Some w, valid)) /\
    decode_trie_header (firstn 128 (pm_array sg')) = w /\ py_thdr_last_webentity_id hd' = w.
Proof.
  intros s Hinv Hroot hd sg ps Hh Hwf Hsize Hlt s1 w valid Ea.
  assert (Es : fst (create_webentity ps s) = fst (add_prefixes ps false s)).
  { unfold create_webentity. destruct (add_prefixes ps false s) as [s2 [| |w2 v2]]; reflexivity. }
  rewrite Es in Hsize.
  destruct (py_traph_add_prefixes_spec s Hinv Hroot hd sg ps false Hh Hwf Hsize Hlt) as (_ & _ & HA).
  rewrite Ea in HA. cbn [fst] in HA. destruct HA as (hd' & sg' & E & (_ & Hd' & _) & Ew & Hdec).
  split; [exact Ew|]. exists hd', sg'. unfold py_traph_create_webentity. rewrite E.
  split; [reflexivity|]. split; [exact Hdec|].
  unfold py_thdr_last_webentity_id. rewrite Hd'.
  assert (El : lastwe s1 = w).
  { unfold add_prefixes in Ea. destruct (walk_prefixes ps s 0 []) as [[s2 ninv] v2].
    destruct (negb (Nat.eqb ninv 0) && negb false); [discriminate Ea|].
    destruct (Nat.eqb ninv (length ps)); [discriminate Ea|]. injection Ea as <- <- _. reflexivity. }
  rewrite El. reflexivity.
Qed.

(* ---- corollary 2: a storage that represents a state holds exactly the model's trie file ---- *)
Lemma flat_blocks_file : forall s,
  flat_map encode_tblock (ft (files_of s)) = flat_map (fun p => encode_tblock (snd p)) (flatten (tr s)).
Proof.
  intro s. unfold files_of. cbn [ft]. induction (flatten (tr s)) as [|p l IH]; [reflexivity|].
  cbn [flat_map map]. rewrite IH. reflexivity.
Qed.

Theorem hrep_file : forall s hd sg, hrep s hd sg -> pm_array sg = trie_file s.
Proof.
  intros s hd sg ((_ & (hdr & Harr & Hl) & _) & _ & Hh). unfold trie_file. rewrite <- flat_blocks_file, <- Hh, Harr.
  rewrite firstn_app, Hl, Nat.sub_diag, firstn_O, app_nil_r, firstn_all2 by lia. reflexivity.
Qed.

Corollary py_traph_create_webentity_file : forall s, Inv18 s -> root_first s -> forall hd sg ps,
  hrep s hd sg -> Forall wf_lru ps ->
  let s' := fst (create_webentity ps s) in
  nb s' * 128 < 2 ^ 64 -> lastwe s + 1 < 2 ^ 32 ->
  forall hd' sg' rep, py_traph_create_webentity hd sg ps = Some (hd', sg', rep) ->
  pm_array sg' = trie_file s' /\ hrep s' hd' sg'.
Proof.
  intros s Hinv Hroot hd sg ps Hh Hwf s' Hsize Hlt hd' sg' rep E.
  pose proof (py_traph_create_webentity_spec s Hinv Hroot hd sg ps Hh Hwf Hsize Hlt) as HA. fold s' in HA.
  destruct (add_prefixes ps false s) as [s1 [| |w v]].
  - rewrite HA in E. discriminate E.
  - destruct HA as (hd2 & sg2 & E2 & Hh2). rewrite E2 in E. injection E as <- <- _.
    split; [exact (hrep_file _ _ _ Hh2)|exact Hh2].
  - destruct HA as (hd2 & sg2 & E2 & Hh2). rewrite E2 in E. injection E as <- <- _.
    split; [exact (hrep_file _ _ _ Hh2)|exact Hh2].
Qed.


(* ---- non-vacuity: the translated code run on the bytes of the trie file of a concrete state (PropsEx.exs), with the RAM header
   of that state ---- *)
From Traph Require PropsEx.
Definition hd0 : py_thdr := mk_th [VNum (lastwe PropsEx.exs); VBytes version_bytes].
Definition newp : bytes := PropsEx.ex_px ++ [112; 58; 122; 124].
Definition newq : bytes := PropsEx.ex_px ++ [112; 58; 113; 124].

Definition blk_encodableb (b : tblock) : bool :=
  (Nat.leb (length (b_stem b)) 74) && (b_flags b <? 256) && (b_we b <? 2 ^ 32) &&
  (b_left b <? 2 ^ 64) && (b_right b <? 2 ^ 64) && (b_child b <? 2 ^ 64) &&
  (b_parent b <? 2 ^ 64) && (b_out b <? 2 ^ 64) && (b_in b <? 2 ^ 64).
Lemma blk_encodableb_ok : forall b, blk_encodableb b = true -> blk_encodable b.
Proof.
  intros b H. unfold blk_encodableb in H. repeat (apply andb_true_iff in H; destruct H as [H ?]).
  unfold blk_encodable. repeat split; try (apply N.ltb_lt; assumption). apply Nat.leb_le. exact H.
Qed.

(* the hypotheses of the theorems are satisfiable: the example state with its own header and file *)
Example ex_hrep : hrep PropsEx.exs hd0 ex_sg.
Proof.
  split; [|split; [reflexivity|vm_compute; reflexivity]].
  apply trep_of_file. apply Forall_forall. intros b Hb. apply blk_encodableb_ok.
  assert (Hall : forallb blk_encodableb (ft (files_of PropsEx.exs)) = true) by (vm_compute; reflexivity).
  rewrite forallb_forall in Hall. apply Hall. exact Hb.
Qed.
Example ex_inv : Inv18 PropsEx.exs /\ root_first PropsEx.exs.
Proof. split; [apply run_Inv18; exact PropsEx.exh_wf|apply run_root_first]. Qed.

(* a creation with a duplicated new prefix: id 4 = counter + 1, the valid prefixes without repetition in first-occurrence order,
   the bytes of the storage are the trie file of the model's next state, the counter is in the header block and in RAM *)
Definition ex_create (ps : list bytes) : option (option N * list bytes * bool * N * N) :=
  match py_traph_create_webentity hd0 ex_sg ps with
  | Some (hd', sg', (w, valid)) =>
      Some (w, valid, Bytes.beq (pm_array sg') (trie_file (fst (create_webentity ps PropsEx.exs))),
            decode_trie_header (firstn 128 (pm_array sg')), py_thdr_last_webentity_id hd')
  | None => None
  end.
Example ex_create_dup :
  ex_create [newp; newq; newp] = Some (Some 4, [newp; newq], true, 4, 4) /\
  snd (create_webentity [newp; newq; newp] PropsEx.exs) = Report 0 [(4, [newp; newq])] /\
  lastwe PropsEx.exs = 3.
Proof. vm_compute. repeat split; reflexivity. Qed.
(* the file did change: both new nodes carry the id *)
Example ex_create_dup_we :
  option_map (fun d => we d) (find (lru_iter newp) (tr (fst (create_webentity [newp; newq; newp] PropsEx.exs)))) = Some 4 /\
  option_map (fun d => we d) (find (lru_iter newq) (tr (fst (create_webentity [newp; newq; newp] PropsEx.exs)))) = Some 4.
Proof. vm_compute. split; reflexivity. Qed.
(* a prefix that already belongs to a webentity: TraphException in the source, None here, Refused in the model *)
Example ex_create_refused :
  py_traph_create_webentity hd0 ex_sg [newp; PropsEx.ex_px] = None /\
  snd (create_webentity [newp; PropsEx.ex_px] PropsEx.exs) = Refused.
Proof. vm_compute. split; reflexivity. Qed.
(* best case allowed (the call made by the creation rules): the taken prefix is skipped, the new one gets the id *)
Example ex_add_prefixes_best :
  match py_traph_add_prefixes hd0 ex_sg [newp; PropsEx.ex_px] true with
  | Some (hd', sg', (w, valid)) =>
      Some (w, valid, Bytes.beq (pm_array sg') (trie_file (fst (add_prefixes [newp; PropsEx.ex_px] true PropsEx.exs))))
  | None => None
  end = Some (Some 4, [newp], true) /\
  snd (add_prefixes [newp; PropsEx.ex_px] true PropsEx.exs) = ACreated 4 [newp].
Proof. vm_compute. split; reflexivity. Qed.
(* every prefix taken, best case allowed: nothing is created, the header is not written *)
Example ex_add_prefixes_nothing :
  match py_traph_add_prefixes hd0 ex_sg [PropsEx.ex_px] true with
  | Some (hd', sg', (w, valid)) =>
      Some (w, valid, Bytes.beq (pm_array sg') (trie_file PropsEx.exs), py_thdr_last_webentity_id hd')
  | None => None
  end = Some (None, [], true, 3) /\
  snd (add_prefixes [PropsEx.ex_px] true PropsEx.exs) = ANothing.
Proof. vm_compute. split; reflexivity. Qed.
(* __generated_web_entity_id alone *)
Example ex_generated_id :
  option_map (fun r => (snd r, py_thdr_last_webentity_id (fst (fst r)), decode_trie_header (firstn 128 (pm_array (snd (fst r)))),
                        Bytes.beq (skipn 128 (pm_array (snd (fst r)))) (skipn 128 (pm_array ex_sg))))
             (py_traph_generated_web_entity_id hd0 ex_sg) = Some (4, 4, 4, true).
Proof. vm_compute. reflexivity. Qed.

(* the theorem instantiated on the example: all its hypotheses hold there *)
Example ex_theorem_applies :
  exists hd' sg', py_traph_create_webentity hd0 ex_sg [newp; newq; newp] = Some (hd', sg', (Some 4, [newp; newq])) /\
    hrep (fst (create_webentity [newp; newq; newp] PropsEx.exs)) hd' sg'.
Proof.
  destruct ex_inv as [Hinv Hroot].
  assert (Hwf : Forall wf_lru [newp; newq; newp]) by (repeat constructor; PropsEx.wf_lru_tac).
  pose proof (py_traph_create_webentity_spec PropsEx.exs Hinv Hroot hd0 ex_sg [newp; newq; newp] ex_hrep Hwf
                ltac:(vm_compute; reflexivity) ltac:(vm_compute; reflexivity)) as HA.
  assert (Ea : snd (add_prefixes [newp; newq; newp] false PropsEx.exs) = ACreated 4 [newp; newq]) by (vm_compute; reflexivity).
  destruct (add_prefixes [newp; newq; newp] false PropsEx.exs) as [s1 a]. cbn [snd] in Ea. subst a. exact HA.
Qed.

Print Assumptions py_traph_generated_web_entity_id_spec.
Print Assumptions py_traph_add_prefixes_spec.
Print Assumptions py_traph_create_webentity_spec.
Print Assumptions py_traph_create_webentity_id.
Print Assumptions py_traph_create_webentity_file.
Print Assumptions ex_hrep.
Print Assumptions ex_theorem_applies.
