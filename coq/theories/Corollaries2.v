(* Corollaries2.v — explicit corollary for the sentence of C06 "afterwards the page
   resolves to max(E,K)": what resolving the inserted LRU returns after the insertion.
   Kept case (E at least as long as K): the prefix E, unchanged.  Candidate case (K
   longer than E, K a stem-prefix of the LRU): the page resolves to the NEW webentity,
   which owns K, through the longest variation of K that is a stem-prefix of the LRU;
   that is K itself unless a www-variation of K is also a stem-prefix of the LRU. *)
From Coq Require Import List NArith Bool Lia Arith Permutation Sorted.
Import ListNotations.
From Traph Require Import Bytes Consts Helpers Rules Tst TstDefs Traph Spec Ops RefDefs
  TstFacts QueryCore QueryLinks SpecFacts RefFull Corollaries.
Open Scope N_scope.

(* ---- variations ------------------------------------------------------------ *)
Lemma In_self_variations : forall x, In x (lru_variations x).
Proof.
  intro x. unfold lru_variations. destruct x as [|b x]; [left; reflexivity|]. cbv zeta.
  destruct (Nat.leb _ 1); [left; reflexivity|].
  destruct (Nat.eqb _ 1); [left; reflexivity|].
  apply in_or_app. left. left. reflexivity.
Qed.

(* ---- more on the resolution fold ------------------------------------------ *)
Lemma rfold_some : forall pref L b, exists p w,
  fold_left (rstep pref) L (Some b) = Some (p, w) /\ ((p, w) = b \/ In p L).
Proof.
  intros pref L. induction L as [|y L IH]; intro b.
  - destruct b as [p w]. exists p, w. split; [reflexivity|left; reflexivity].
  - cbn [fold_left]. unfold rstep at 2. destruct (aget y pref) as [wy|].
    + destruct (IH (y, wy)) as (p & w & E & H). exists p, w. split; [exact E|].
      right. destruct H as [H|H]; [injection H as -> _; left; reflexivity|right; exact H].
    + destruct (IH b) as (p & w & E & H). exists p, w. split; [exact E|].
      destruct H as [H|H]; [left; exact H|right; right; exact H].
Qed.

(* an attached stem-prefix is never longer than the resolved one *)
Lemma resolve_max : forall pref l q, In q (stem_prefixes l) -> amem q pref = true ->
  exists p w, resolve pref l = Some (p, w) /\ (length q <= length p)%nat.
Proof.
  intros pref l q Hin Hm. apply amem_aget in Hm. destruct Hm as (wq & Hq).
  unfold resolve. fold (rstep pref). pose proof (stem_prefixes_sorted l) as Hs.
  apply in_split in Hin. destruct Hin as (L1 & L2 & E). rewrite E in Hs |- *.
  destruct (sorted_split _ _ _ Hs) as [_ S2].
  rewrite fold_left_app. cbn [fold_left]. unfold rstep at 2. rewrite Hq.
  destruct (rfold_some pref L2 (q, wq)) as (p & w & Ef & H).
  exists p, w. split.
  - exact Ef.
  - destruct H as [H|H]; [injection H as -> _; lia|].
    rewrite Forall_forall in S2. specialize (S2 p H). unfold shorter in S2. lia.
Qed.

Lemma sorted_same_length : forall (L : list bytes) p q, StronglySorted shorter L ->
  In p L -> In q L -> length p = length q -> p = q.
Proof.
  induction L as [|y L IH]; intros p q Hs Hp Hq E; [destruct Hp|].
  inversion Hs as [|y' L' Hl Hy]; subst. rewrite Forall_forall in Hy. unfold shorter in Hy.
  destruct Hp as [<-|Hp]; destruct Hq as [<-|Hq].
  - reflexivity.
  - specialize (Hy q Hq). lia.
  - specialize (Hy p Hp). lia.
  - apply IH; assumption.
Qed.

(* ---- what the ladder says when it proposes a candidate ----------------------- *)
Lemma adecide_cand : forall a l x, adecide a l = LCand x ->
  x <> [] /\ forall p w, resolve (a_pref a) l = Some (p, w) -> (length p < length x)%nat.
Proof.
  intros a l x. unfold adecide, decide. cbn [rules dflt].
  set (cand := longest_candidate (a_rules a) l (ahist a l)).
  unfold ahist. destruct (resolve (a_pref a) l) as [[p w]|]; cbn [h_pos].
  - destruct (blen cand <=? blen p) eqn:Ek; [discriminate|]. apply N.leb_gt in Ek.
    destruct cand as [|c0 cand'] eqn:Ec.
    + exfalso. unfold blen in Ek. cbn [length] in Ek. lia.
    + intro H. injection H as <-. split; [discriminate|].
      intros p' w' E. injection E as <- <-. unfold blen in Ek. lia.
  - destruct cand as [|c0 cand'].
    + destruct (apply_rule (a_dflt a) l) as [[|y d]|]; try discriminate.
      intro H. injection H as <-. split; [discriminate|]. intros; discriminate.
    + intro H. injection H as <-. split; [discriminate|]. intros; discriminate.
Qed.

Lemma adecide_keep : forall a l, adecide a l = LKeep ->
  exists p w, resolve (a_pref a) l = Some (p, w) /\ h_pref (ahist a l) = p.
Proof.
  intros a l. unfold adecide, decide. cbn [rules dflt].
  set (cand := longest_candidate (a_rules a) l (ahist a l)).
  unfold ahist. destruct (resolve (a_pref a) l) as [[p w]|]; cbn [h_pos h_pref].
  - intros _. eauto.
  - destruct cand as [|c0 cand'].
    + destruct (apply_rule (a_dflt a) l) as [[|y d]|]; discriminate.
    + discriminate.
Qed.

(* ---- attaching a list of keys ------------------------------------------------ *)
Lemma aget_aset : forall (m : list (bytes * N)) k v x,
  aget x (aset k v m) = if beq x k then Some v else aget x m.
Proof.
  induction m as [|[k' v'] m IH]; intros k v x; cbn [aset aget].
  - reflexivity.
  - destruct (beq k k') eqn:E; cbn [aget].
    + apply beq_eq in E. subst k'. destruct (beq x k); reflexivity.
    + rewrite IH. destruct (beq x k') eqn:E1; destruct (beq x k) eqn:E2; try reflexivity.
      apply beq_eq in E1, E2. subst. rewrite beq_refl in E. discriminate.
Qed.

Lemma aget_aset_all : forall vs (m : list (bytes * N)) w x,
  aget x (fold_left (fun m v => aset v w m) vs m) = if mem_bytes x vs then Some w else aget x m.
Proof.
  induction vs as [|v vs IH]; intros m w x; cbn [fold_left mem_bytes]; [reflexivity|].
  rewrite IH, aget_aset. destruct (mem_bytes x vs); destruct (beq x v); reflexivity.
Qed.

Lemma a_pref_acreate : forall x a p,
  aget p (a_pref (fst (acreate x a))) =
  if mem_bytes p (free_variations x a) then Some (a_last a + 1) else aget p (a_pref a).
Proof.
  intros x a p. unfold acreate, free_variations. cbn [upd_known a_pref a_last].
  destruct (dedup_bytes _ []) as [|v vs] eqn:E.
  - cbn [fst a_pref upd_known mem_bytes]. reflexivity.
  - cbn [fst a_pref]. rewrite aget_aset_all. reflexivity.
Qed.

Lemma free_variations_In : forall x a v,
  In v (free_variations x a) <-> In v (lru_variations x) /\ amem v (a_pref a) = false.
Proof.
  intros x a v. unfold free_variations.
  destruct (dedup_bytes_spec (filter (fun v => negb (amem v (a_pref a))) (lru_variations x)) [] (NoDup_nil _))
    as [_ H].
  rewrite H, filter_In, negb_true_iff. cbn [In]. tauto.
Qed.

Lemma is_stem_prefix_In : forall p l, is_stem_prefix p l = true <-> In p (stem_prefixes l).
Proof. intros. unfold is_stem_prefix. apply mem_bytes_In. Qed.

(* ====================================================================== *)
(* Specification level                                                      *)
(* ====================================================================== *)

(* kept case: nothing is attached, the page resolves to E *)
Theorem s_after_keep : forall l cr a, adecide a l = LKeep ->
  a_pref (fst (fst (s_add_page l cr a))) = a_pref a /\
  s_resolve_prefix l (fst (fst (s_add_page l cr a))) = Some (h_pref (ahist a l)) /\
  s_resolve_prefix l a = Some (h_pref (ahist a l)) /\
  s_resolve_we l (fst (fst (s_add_page l cr a))) = s_resolve_we l a.
Proof.
  intros l cr a Hk. rewrite s_add_page_unfold. cbv zeta.
  change (adecide (with_page l cr a) l) with (adecide a l). rewrite Hk. cbn [fst].
  destruct (adecide_keep a l Hk) as (p & w & E & Hp).
  unfold s_resolve_prefix, s_resolve_we, with_page. cbn [a_pref]. rewrite E, Hp. auto.
Qed.

(* candidate case *)
Theorem s_after_cand : forall l cr a x, adecide a l = LCand x -> is_stem_prefix x l = true ->
  let a' := fst (fst (s_add_page l cr a)) in
  let w := a_last a + 1 in
  aget x (a_pref a) = None /\
  aget x (a_pref a') = Some w /\
  exists p', resolve (a_pref a') l = Some (p', w) /\
             In p' (lru_variations x) /\ aget p' (a_pref a) = None /\
             is_stem_prefix p' l = true /\ (length x <= length p')%nat.
Proof.
  intros l cr a x Hc Hx. cbv zeta. rewrite s_add_page_unfold. cbv zeta.
  change (adecide (with_page l cr a) l) with (adecide a l). rewrite Hc.
  pose proof (a_pref_acreate x (with_page l cr a)) as Hget.
  pose proof (free_variations_In x (with_page l cr a)) as Hfree.
  destruct (acreate x (with_page l cr a)) as [a2 c]. cbn [fst] in *.
  change (a_pref (with_page l cr a)) with (a_pref a) in *.
  change (a_last (with_page l cr a)) with (a_last a) in *.
  destruct (adecide_cand a l x Hc) as [Hne Hlt].
  apply is_stem_prefix_In in Hx.
  (* nothing attached at or above the length of x *)
  assert (Hfree_above : forall q, In q (stem_prefixes l) -> (length x <= length q)%nat ->
                                  aget q (a_pref a) = None).
  { intros q Hq Hle. apply amem_false_aget. destruct (amem q (a_pref a)) eqn:Em; [|reflexivity].
    exfalso. destruct (resolve_max _ _ _ Hq Em) as (p & w0 & E & Hl).
    specialize (Hlt p w0 E). lia. }
  assert (Hx0 : aget x (a_pref a) = None) by (apply Hfree_above; [exact Hx|lia]).
  assert (Hxv : In x (free_variations x (with_page l cr a))).
  { apply Hfree. split; [apply In_self_variations|]. apply amem_false_aget. exact Hx0. }
  assert (Hx2 : aget x (a_pref a2) = Some (a_last a + 1)).
  { rewrite Hget. apply mem_bytes_In in Hxv. rewrite Hxv. reflexivity. }
  split; [exact Hx0|]. split; [exact Hx2|].
  assert (Hm : amem x (a_pref a2) = true) by (apply amem_aget; eauto).
  destruct (resolve_max _ _ _ Hx Hm) as (p' & w' & E & Hl).
  pose proof (resolve_aget _ _ _ _ E) as Hp'.
  assert (Hp'in : In p' (stem_prefixes l)).
  { apply is_stem_prefix_In.
    destruct (proj1 (resolve_in_realm (a_pref a2) p' l) (ex_intro _ w' E)) as [_ Hr].
    unfold in_realm in Hr. apply andb_true_iff in Hr. apply Hr. }
  pose proof (Hfree_above p' Hp'in Hl) as Hp0.
  rewrite Hget in Hp'. destruct (mem_bytes p' (free_variations x (with_page l cr a))) eqn:Emem.
  - injection Hp' as <-. apply mem_bytes_In in Emem. apply Hfree in Emem. destruct Emem as [Hv _].
    exists p'. split; [exact E|]. split; [exact Hv|]. split; [exact Hp0|].
    split; [apply is_stem_prefix_In; exact Hp'in|exact Hl].
  - congruence.
Qed.

(* the prefix itself, when no other variation of x lies on the way to l *)
Definition no_longer_variation (x l : bytes) : Prop :=
  forall v, In v (lru_variations x) -> is_stem_prefix v l = true -> (length v <= length x)%nat.

Theorem s_after_cand_prefix : forall l cr a x, adecide a l = LCand x -> is_stem_prefix x l = true ->
  no_longer_variation x l ->
  s_resolve_prefix l (fst (fst (s_add_page l cr a))) = Some x /\
  s_resolve_we l (fst (fst (s_add_page l cr a))) = Some (a_last a + 1).
Proof.
  intros l cr a x Hc Hx Hv.
  destruct (s_after_cand l cr a x Hc Hx) as (_ & _ & p' & E & Hin & _ & Hsp & Hl).
  assert (Ep : p' = x).
  { apply (sorted_same_length (stem_prefixes l)); [apply stem_prefixes_sorted| | |].
    - apply is_stem_prefix_In. exact Hsp.
    - apply is_stem_prefix_In. exact Hx.
    - specialize (Hv p' Hin Hsp). lia. }
  subst p'. unfold s_resolve_prefix, s_resolve_we. rewrite E. auto.
Qed.

(* K-B at the level of the specification *)
Theorem s_after_potential : forall l cr a x, s_potential l a = Some x -> x <> [] ->
  (forall c, adecide a l = LCand c -> is_stem_prefix c l = true /\ no_longer_variation c l) ->
  s_resolve_prefix l (fst (fst (s_add_page l cr a))) = s_potential l a.
Proof.
  intros l cr a x Hp Hne Hrule. rewrite Hp. unfold s_potential in Hp.
  destruct (adecide a l) as [|c|] eqn:Ed; [| |discriminate].
  - injection Hp as Hp. rewrite <- Hp. apply (s_after_keep l cr a Ed).
  - injection Hp as Hp. subst c. destruct (Hrule x eq_refl) as [H1 H2].
    apply (s_after_cand_prefix l cr a x Ed H1 H2).
Qed.

(* ====================================================================== *)
(* On runs                                                                  *)
(* ====================================================================== *)
Lemma step_add_page_R : forall d rs h l cr, wf_rules rs -> Forall wf_op h -> wf_lru l ->
  Rcore (fst (step (run d rs h) (OAddPage l cr))) (fst (fst (s_add_page l cr (srun d rs h)))).
Proof.
  intros d rs h l cr H1 H2 Hl.
  destruct (step_R _ _ (OAddPage l cr) (run_RR d rs h H1 H2) Hl) as [[HC _] _].
  cbn [sstep] in HC. unfold rep3 in HC.
  destruct (s_add_page l cr (srun d rs h)) as [[a' n] c]. exact HC.
Qed.

(* kept case: the existing prefix E is at least as long as the proposed K *)
Theorem C06_after_keep : forall d rs h l cr, wf_rules rs -> Forall wf_op h -> wf_lru l ->
  let s := run d rs h in let a := srun d rs h in
  adecide a l = LKeep ->
  retrieve_prefix l (fst (step s (OAddPage l cr))) = potential_prefix l s /\
  retrieve_prefix l (fst (step s (OAddPage l cr))) = retrieve_prefix l s /\
  retrieve_webentity l (fst (step s (OAddPage l cr))) = retrieve_webentity l s.
Proof.
  intros d rs h l cr H1 H2 Hl s a Hk.
  pose proof (step_add_page_R d rs h l cr H1 H2 Hl) as HC'. fold s a in HC'.
  pose proof (run_Rc d rs h H1 H2) as HC. fold s a in HC.
  destruct (s_after_keep l cr a Hk) as (_ & E1 & E2 & E3).
  rewrite (retrieve_prefix_spec _ _ HC' l Hl), (retrieve_webentity_spec _ _ HC' l Hl).
  rewrite (retrieve_prefix_spec _ _ HC l Hl), (retrieve_webentity_spec _ _ HC l Hl).
  rewrite (potential_spec _ _ HC l Hl). unfold s_potential. rewrite Hk, E1, E2, E3. auto.
Qed.

(* candidate case: K is longer than E (or there is no E) and K is a stem-prefix of the LRU:
   the page resolves to the new webentity, which owns K, through a variation of K *)
Theorem C06_after_cand : forall d rs h l cr x, wf_rules rs -> Forall wf_op h -> wf_lru l ->
  let s := run d rs h in let a := srun d rs h in
  let s' := fst (step s (OAddPage l cr)) in
  adecide a l = LCand x -> is_stem_prefix x l = true ->
  potential_prefix l s = Some x /\
  webentity_by_prefix x s = RRefused /\
  webentity_by_prefix x s' = ROk (lastwe s + 1) /\
  retrieve_webentity l s' = Some (lastwe s + 1) /\
  exists p', retrieve_prefix l s' = Some p' /\ In p' (lru_variations x) /\
             webentity_by_prefix p' s = RRefused /\
             is_stem_prefix p' l = true /\ (length x <= length p')%nat.
Proof.
  intros d rs h l cr x H1 H2 Hl s a s' Hc Hx.
  pose proof (step_add_page_R d rs h l cr H1 H2 Hl) as HC'. fold s a s' in HC'.
  pose proof (run_Rc d rs h H1 H2) as HC. fold s a in HC.
  destruct (s_after_cand l cr a x Hc Hx) as (Hx0 & Hx2 & p' & E & Hin & Hp0 & Hsp & Hlen).
  rewrite (R_last _ _ HC).
  assert (Hwx : wf_lru x).
  { apply is_stem_prefix_In in Hx. apply (ViewFacts.stem_prefix_path l x Hx). }
  assert (Hwp : wf_lru p').
  { apply is_stem_prefix_In in Hsp. apply (ViewFacts.stem_prefix_path l p' Hsp). }
  split; [rewrite (potential_spec _ _ HC l Hl); unfold s_potential; rewrite Hc; reflexivity|].
  split; [rewrite (webentity_by_prefix_spec _ _ HC x Hwx), Hx0; reflexivity|].
  split; [rewrite (webentity_by_prefix_spec _ _ HC' x Hwx), Hx2; reflexivity|].
  split; [rewrite (retrieve_webentity_spec _ _ HC' l Hl); unfold s_resolve_we; rewrite E; reflexivity|].
  exists p'. split; [rewrite (retrieve_prefix_spec _ _ HC' l Hl); unfold s_resolve_prefix; rewrite E; reflexivity|].
  split; [exact Hin|]. split; [rewrite (webentity_by_prefix_spec _ _ HC p' Hwp), Hp0; reflexivity|].
  split; assumption.
Qed.

(* the sentence of the property, with the hypothesis it needs: K is a stem-prefix of the
   LRU (the rule family) and no other variation of K is a longer stem-prefix of the LRU *)
Theorem C06_after : forall d rs h l cr x, wf_rules rs -> Forall wf_op h -> wf_lru l ->
  let s := run d rs h in
  potential_prefix l s = Some x -> x <> [] ->
  is_stem_prefix x l = true -> no_longer_variation x l ->
  retrieve_prefix l (fst (step s (OAddPage l cr))) = potential_prefix l s.
Proof.
  intros d rs h l cr x H1 H2 Hl s Hp Hne Hx Hv.
  pose proof (step_add_page_R d rs h l cr H1 H2 Hl) as HC'. fold s in HC'.
  pose proof (run_Rc d rs h H1 H2) as HC. fold s in HC.
  rewrite (retrieve_prefix_spec _ _ HC' l Hl). rewrite (potential_spec _ _ HC l Hl) in Hp |- *.
  apply (s_after_potential l cr (srun d rs h) x Hp Hne).
  intros c Hc. unfold s_potential in Hp. rewrite Hc in Hp. injection Hp as ->. auto.
Qed.

Print Assumptions s_after_keep.
Print Assumptions s_after_cand.
Print Assumptions s_after_potential.
Print Assumptions C06_after_keep.
Print Assumptions C06_after_cand.
Print Assumptions C06_after.
