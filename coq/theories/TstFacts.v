(* TstFacts.v — machine-checked facts about the ternary-search-tree model
   (Tst.v) in the vocabulary of TstDefs.v. *)
From Coq Require Import List NArith Bool Lia Arith.
Import ListNotations.
From Traph Require Import Bytes Consts Helpers Tst TstDefs.
Open Scope N_scope.

(* ====================================================================== *)
(* Group 1 — order on bytes                                               *)
(* ====================================================================== *)

Lemma lex_refl : forall a, lex a a = Eq.
Proof.
  induction a as [|x a IH]; simpl; [reflexivity|].
  rewrite N.compare_refl. exact IH.
Qed.

Lemma lex_eq : forall a b, lex a b = Eq <-> a = b.
Proof.
  induction a as [|x a IH]; intros [|y b]; simpl; split; intro H;
    try reflexivity; try discriminate.
  - destruct (N.compare_spec x y) as [E|E|E]; try discriminate.
    subst. f_equal. apply IH; exact H.
  - injection H as -> ->. rewrite N.compare_refl. apply IH. reflexivity.
Qed.

Lemma lex_antisym : forall a b, lex b a = CompOpp (lex a b).
Proof.
  induction a as [|x a IH]; intros [|y b]; simpl; try reflexivity.
  rewrite (N.compare_antisym x y).
  destruct (x ?= y); simpl; auto.
Qed.

Lemma lex_lt_trans : forall a b c, lex a b = Lt -> lex b c = Lt -> lex a c = Lt.
Proof.
  induction a as [|x a IH]; intros [|y b] [|z c]; simpl; intros H1 H2;
    try reflexivity; try discriminate.
  destruct (N.compare_spec x y) as [E1|E1|E1]; try discriminate;
  destruct (N.compare_spec y z) as [E2|E2|E2]; try discriminate; subst.
  - rewrite N.compare_refl. eapply IH; eauto.
  - rewrite (proj2 (N.compare_lt_iff _ _) E2). reflexivity.
  - rewrite (proj2 (N.compare_lt_iff _ _) E1). reflexivity.
  - rewrite (proj2 (N.compare_lt_iff x z)) by lia. reflexivity.
Qed.

Lemma beq_eq : forall a b, beq a b = true <-> a = b.
Proof.
  intros a b. unfold beq. rewrite <- lex_eq.
  destruct (lex a b); split; intro H; try reflexivity; discriminate.
Qed.

Lemma lex_gt_lt : forall a b, lex a b = Gt <-> lex b a = Lt.
Proof.
  intros a b. rewrite (lex_antisym a b).
  destruct (lex a b); simpl; split; intro H; try reflexivity; discriminate.
Qed.

(* ====================================================================== *)
(* Unfolding lemmas (used instead of simpl on the nested fixpoints)       *)
(* ====================================================================== *)

Lemma find_nil : forall t, find [] t = None.
Proof. reflexivity. Qed.

Lemma find_Lf : forall p, find p Lf = None.
Proof. destruct p; reflexivity. Qed.

Lemma find_Nd : forall s rest d l c r,
  find (s :: rest) (Nd d l c r) =
  match lex s (stem d) with
  | Eq => match rest with [] => Some d | _ :: _ => find rest c end
  | Lt => find (s :: rest) l
  | Gt => find (s :: rest) r
  end.
Proof.
  intros. unfold find. simpl.
  destruct (lex s (stem d)); try reflexivity. destruct rest; reflexivity.
Qed.

Lemma upd_nil : forall f t, upd f [] t = t.
Proof. reflexivity. Qed.

Lemma upd_Lf : forall f q, upd f q Lf = Lf.
Proof. destruct q; reflexivity. Qed.

Lemma upd_Nd : forall f s rest d l c r,
  upd f (s :: rest) (Nd d l c r) =
  match lex s (stem d) with
  | Eq => match rest with
          | [] => Nd (f d) l c r
          | _ :: _ => Nd d l (upd f rest c) r
          end
  | Lt => Nd d (upd f (s :: rest) l) c r
  | Gt => Nd d l c (upd f (s :: rest) r)
  end.
Proof. reflexivity. Qed.

(* ====================================================================== *)
(* Group 2 — find / upd                                                   *)
(* ====================================================================== *)

Lemma find_upd_same : forall f q t, (forall d, stem (f d) = stem d) ->
  find q (upd f q t) = option_map f (find q t).
Proof.
  intros f q t Hf. revert t.
  induction q as [|s rest IHq]; intro t; [reflexivity|].
  induction t as [|d l IHl c _ r IHr].
  - rewrite upd_Lf, find_Lf. reflexivity.
  - rewrite upd_Nd, find_Nd.
    destruct (lex s (stem d)) eqn:E.
    + destruct rest as [|s2 rest2].
      * rewrite find_Nd, Hf, E. reflexivity.
      * rewrite find_Nd, E. apply IHq.
    + rewrite find_Nd, E. apply IHl.
    + rewrite find_Nd, E. apply IHr.
Qed.

Lemma find_upd_other : forall f p q t, (forall d, stem (f d) = stem d) ->
  p <> q -> find p (upd f q t) = find p t.
Proof.
  intros f p q t Hf. revert p t.
  induction q as [|s rest IHq]; intros p t Hpq; [reflexivity|].
  induction t as [|d l IHl c _ r IHr].
  - rewrite upd_Lf. reflexivity.
  - rewrite upd_Nd.
    destruct p as [|x p']; [reflexivity|].
    destruct (lex s (stem d)) eqn:E.
    + apply lex_eq in E. destruct rest as [|s2 rest2].
      * rewrite !find_Nd, Hf.
        destruct (lex x (stem d)) eqn:E2; try reflexivity.
        destruct p' as [|x2 p2]; [|reflexivity].
        apply lex_eq in E2. exfalso. apply Hpq. congruence.
      * rewrite !find_Nd.
        destruct (lex x (stem d)) eqn:E2; try reflexivity.
        destruct p' as [|x2 p2]; [reflexivity|].
        apply IHq. apply lex_eq in E2. intro H. apply Hpq. congruence.
    + rewrite !find_Nd. destruct (lex x (stem d)); try reflexivity. apply IHl.
    + rewrite !find_Nd. destruct (lex x (stem d)); try reflexivity. apply IHr.
Qed.

Lemma sib_stems_upd : forall f q t, (forall d, stem (f d) = stem d) ->
  sib_stems (upd f q t) = sib_stems t.
Proof.
  intros f q t Hf. destruct q as [|s rest]; [reflexivity|].
  induction t as [|d l IHl c _ r IHr].
  - rewrite upd_Lf. reflexivity.
  - rewrite upd_Nd. destruct (lex s (stem d)).
    + destruct rest; cbn [sib_stems]; rewrite ?Hf; reflexivity.
    + cbn [sib_stems]. rewrite IHl. reflexivity.
    + cbn [sib_stems]. rewrite IHr. reflexivity.
Qed.

Lemma upd_bst : forall f q t, (forall d, stem (f d) = stem d) -> bst t -> bst (upd f q t).
Proof.
  intros f q t Hf. revert t.
  induction q as [|s rest IHq]; intros t Hb; [exact Hb|].
  induction t as [|d l IHl c _ r IHr].
  - rewrite upd_Lf. exact I.
  - rewrite upd_Nd. simpl in Hb. destruct Hb as (Hl & Hr & Bl & Bc & Br).
    destruct (lex s (stem d)).
    + destruct rest as [|s2 rest2]; cbn [bst]; rewrite ?Hf; repeat split; auto.
    + cbn [bst]. rewrite (sib_stems_upd f (s :: rest) l Hf). repeat split; auto.
    + cbn [bst]. rewrite (sib_stems_upd f (s :: rest) r Hf). repeat split; auto.
Qed.

Lemma upd_stems_wf : forall f q t, (forall d, stem (f d) = stem d) ->
  stems_wf t -> stems_wf (upd f q t).
Proof.
  intros f q t Hf. revert t.
  induction q as [|s rest IHq]; intros t Hb; [exact Hb|].
  induction t as [|d l IHl c _ r IHr].
  - rewrite upd_Lf. exact I.
  - rewrite upd_Nd. simpl in Hb. destruct Hb as (Hd & Bl & Bc & Br).
    destruct (lex s (stem d)).
    + destruct rest as [|s2 rest2]; cbn [stems_wf]; rewrite ?Hf; repeat split; auto.
    + cbn [stems_wf]. repeat split; auto.
    + cbn [stems_wf]. repeat split; auto.
Qed.

Lemma upd_wf : forall f q t, (forall d, stem (f d) = stem d) -> wf_tst t -> wf_tst (upd f q t).
Proof.
  intros f q t Hf [Hb Hs]. split; [apply upd_bst | apply upd_stems_wf]; assumption.
Qed.

Lemma find_prefix_closed : forall p s t, p <> [] ->
  find (p ++ [s]) t <> None -> find p t <> None.
Proof.
  induction p as [|x p IHp]; intros s t Hp; [congruence|].
  induction t as [|d l IHl c _ r IHr].
  - rewrite find_Lf. auto.
  - simpl app. rewrite !find_Nd.
    destruct (lex x (stem d)); auto.
    destruct p as [|x2 p2].
    + intros _. discriminate.
    + simpl app. apply IHp. discriminate.
Qed.

Lemma find_last_stem : forall p d t, find p t = Some d -> stem d = last p [].
Proof.
  induction p as [|x p IHp]; intros d0 t; [rewrite find_nil; discriminate|].
  induction t as [|d l IHl c _ r IHr].
  - rewrite find_Lf. discriminate.
  - rewrite find_Nd. destruct (lex x (stem d)) eqn:E; auto.
    destruct p as [|x2 p2].
    + intro H. injection H as <-. apply lex_eq in E. simpl. congruence.
    + intro H. apply IHp in H. exact H.
Qed.

(* ====================================================================== *)
(* Group 3 — enumeration versus lookup                                    *)
(* ====================================================================== *)

Lemma find_cons_in_sib : forall s rest t d,
  find (s :: rest) t = Some d -> In s (sib_stems t).
Proof.
  intros s rest t d0.
  induction t as [|d l IHl c _ r IHr].
  - rewrite find_Lf. discriminate.
  - rewrite find_Nd. cbn [sib_stems]. rewrite in_app_iff. cbn [In].
    destruct (lex s (stem d)) eqn:E; intro H.
    + apply lex_eq in E. auto.
    + auto.
    + auto.
Qed.

Lemma paths_find_bwd : forall t pre q d,
  find q t = Some d -> In (pre ++ q, d) (paths pre t).
Proof.
  induction t as [|d0 l IHl c IHc r IHr]; intros pre q d.
  - rewrite find_Lf. discriminate.
  - destruct q as [|x q']; [rewrite find_nil; discriminate|].
    rewrite find_Nd. cbn [paths].
    destruct (lex x (stem d0)) eqn:E; intro H.
    + apply lex_eq in E. subst x. destruct q' as [|x2 q2].
      * injection H as ->. left. reflexivity.
      * right. apply in_or_app. left.
        apply (IHc (pre ++ [stem d0])) in H.
        rewrite <- app_assoc in H. exact H.
    + right. apply in_or_app. right. apply in_or_app. left. apply IHl. exact H.
    + right. apply in_or_app. right. apply in_or_app. right. apply IHr. exact H.
Qed.

Lemma paths_find_fwd : forall t pre p d, bst t ->
  In (p, d) (paths pre t) -> exists q, p = pre ++ q /\ find q t = Some d.
Proof.
  induction t as [|d0 l IHl c IHc r IHr]; intros pre p d Hb Hin.
  - destruct Hin.
  - cbn [bst] in Hb. destruct Hb as (Hl & Hr & Bl & Bc & Br).
    cbn [paths] in Hin. destruct Hin as [Hin|Hin].
    + injection Hin as <- <-. exists [stem d0]. split; [reflexivity|].
      rewrite find_Nd, lex_refl. reflexivity.
    + apply in_app_or in Hin. destruct Hin as [Hin|Hin].
      * apply IHc in Hin; [|exact Bc]. destruct Hin as (q & -> & Hq).
        exists (stem d0 :: q). split; [rewrite <- app_assoc; reflexivity|].
        rewrite find_Nd, lex_refl. destruct q; [rewrite find_nil in Hq; discriminate|exact Hq].
      * apply in_app_or in Hin. destruct Hin as [Hin|Hin].
        -- apply IHl in Hin; [|exact Bl]. destruct Hin as (q & -> & Hq).
           exists q. split; [reflexivity|].
           destruct q as [|x q']; [rewrite find_nil in Hq; discriminate|].
           rewrite find_Nd. rewrite (Hl x (find_cons_in_sib _ _ _ _ Hq)). exact Hq.
        -- apply IHr in Hin; [|exact Br]. destruct Hin as (q & -> & Hq).
           exists q. split; [reflexivity|].
           destruct q as [|x q']; [rewrite find_nil in Hq; discriminate|].
           rewrite find_Nd. rewrite (Hr x (find_cons_in_sib _ _ _ _ Hq)). exact Hq.
Qed.

Lemma paths_find : forall t, wf_tst t ->
  forall p d, In (p, d) (paths [] t) <-> find p t = Some d.
Proof.
  intros t [Hb _] p d. split.
  - intro H. apply paths_find_fwd in H; [|exact Hb].
    destruct H as (q & -> & Hq). exact Hq.
  - intro H. apply (paths_find_bwd t [] p d H).
Qed.

Lemma paths_head : forall t pre p, In p (map fst (paths pre t)) ->
  exists s q, p = pre ++ s :: q /\ In s (sib_stems t).
Proof.
  induction t as [|d l IHl c IHc r IHr]; intros pre p Hin.
  - destruct Hin.
  - cbn [paths map fst] in Hin. cbn [sib_stems].
    destruct Hin as [Hin|Hin].
    + exists (stem d), []. split; [symmetry; exact Hin|].
      apply in_or_app. right. left. reflexivity.
    + rewrite !map_app, !in_app_iff in Hin. destruct Hin as [Hin|[Hin|Hin]].
      * apply IHc in Hin. destruct Hin as (s & q & -> & _).
        exists (stem d), (s :: q). split; [rewrite <- app_assoc; reflexivity|].
        apply in_or_app. right. left. reflexivity.
      * apply IHl in Hin. destruct Hin as (s & q & -> & Hs).
        exists s, q. split; [reflexivity|]. apply in_or_app. left. exact Hs.
      * apply IHr in Hin. destruct Hin as (s & q & -> & Hs).
        exists s, q. split; [reflexivity|]. apply in_or_app. right. right. exact Hs.
Qed.

Lemma NoDup_app_intro : forall (A : Type) (a b : list A),
  NoDup a -> NoDup b -> (forall x, In x a -> In x b -> False) -> NoDup (a ++ b).
Proof.
  intros A a b Ha Hb Hd. induction Ha as [|x a Hx Ha IH]; [exact Hb|].
  simpl. constructor.
  - rewrite in_app_iff. intros [H|H]; [auto|]. apply (Hd x); [left; reflexivity|exact H].
  - apply IH. intros y Hy. apply Hd. right. exact Hy.
Qed.

Lemma paths_nodup_gen : forall t pre, bst t -> NoDup (map fst (paths pre t)).
Proof.
  induction t as [|d l IHl c IHc r IHr]; intros pre Hb.
  - constructor.
  - cbn [bst] in Hb. destruct Hb as (Hl & Hr & Bl & Bc & Br).
    cbn [paths map fst]. rewrite !map_app.
    assert (HC : forall p, In p (map fst (paths (pre ++ [stem d]) c)) ->
                 exists s q, p = pre ++ stem d :: s :: q).
    { intros p Hp. apply paths_head in Hp. destruct Hp as (s & q & -> & _).
      exists s, q. rewrite <- app_assoc. reflexivity. }
    assert (HL : forall p, In p (map fst (paths pre l)) ->
                 exists s q, p = pre ++ s :: q /\ lex s (stem d) = Lt).
    { intros p Hp. apply paths_head in Hp. destruct Hp as (s & q & -> & Hs).
      exists s, q. split; [reflexivity|]. apply Hl. exact Hs. }
    assert (HR : forall p, In p (map fst (paths pre r)) ->
                 exists s q, p = pre ++ s :: q /\ lex s (stem d) = Gt).
    { intros p Hp. apply paths_head in Hp. destruct Hp as (s & q & -> & Hs).
      exists s, q. split; [reflexivity|]. apply Hr. exact Hs. }
    constructor.
    + rewrite !in_app_iff. intros [H|[H|H]].
      * apply HC in H. destruct H as (s & q & H). apply app_inv_head in H. discriminate.
      * apply HL in H. destruct H as (s & q & H & E). apply app_inv_head in H.
        injection H as <-. rewrite lex_refl in E. discriminate.
      * apply HR in H. destruct H as (s & q & H & E). apply app_inv_head in H.
        injection H as <-. rewrite lex_refl in E. discriminate.
    + apply NoDup_app_intro; [apply IHc; exact Bc| |].
      * apply NoDup_app_intro; [apply IHl; exact Bl|apply IHr; exact Br|].
        intros p H1 H2. apply HL in H1. apply HR in H2.
        destruct H1 as (s1 & q1 & -> & E1). destruct H2 as (s2 & q2 & H & E2).
        apply app_inv_head in H. injection H as -> _. congruence.
      * intros p H1 H2. apply HC in H1. destruct H1 as (s1 & q1 & ->).
        rewrite in_app_iff in H2. destruct H2 as [H2|H2].
        -- apply HL in H2. destruct H2 as (s2 & q2 & H & E2).
           apply app_inv_head in H. injection H as <- _. rewrite lex_refl in E2. discriminate.
        -- apply HR in H2. destruct H2 as (s2 & q2 & H & E2).
           apply app_inv_head in H. injection H as <- _. rewrite lex_refl in E2. discriminate.
Qed.

Lemma paths_nodup : forall t, wf_tst t -> NoDup (map fst (paths [] t)).
Proof. intros t [Hb _]. apply paths_nodup_gen. exact Hb. Qed.

Lemma concat_snoc : forall (pre : list bytes) (s : bytes), concat (pre ++ [s]) = concat pre ++ s.
Proof. intros. rewrite concat_app. simpl. rewrite app_nil_r. reflexivity. Qed.

Lemma dfs_paths : forall pre t,
  dfs (concat pre) t = map (fun x => (concat (fst x), snd x)) (paths pre t).
Proof.
  intros pre t. revert pre.
  induction t as [|d l IHl c IHc r IHr]; intro pre; [reflexivity|].
  cbn [dfs paths map fst snd]. rewrite !map_app.
  rewrite <- IHl, <- IHr, <- IHc, concat_snoc. reflexivity.
Qed.

Lemma all_nodes_paths : forall t,
  all_nodes t = map (fun x => (concat (fst x), snd x)) (paths [] t).
Proof. intro t. apply (dfs_paths [] t). Qed.

(* ====================================================================== *)
(* Unfolding lemmas for ins and its projections                           *)
(* ====================================================================== *)

Lemma ins_nil : forall flag pre pa nb h t, ins flag [] pre pa nb h t = (t, nb, h).
Proof. reflexivity. Qed.

Lemma ins_Lf : forall flag s rest pre pa nb h,
  ins flag (s :: rest) pre pa nb h Lf =
  let a := nb * bsz in
  let d := mkNd a pa s false false false (negb (flag && nonempty rest)) 0 0 0 in
  let '(c, nb', _) := ins flag rest (pre ++ s) a (nb + nblk s) h Lf in
  (Nd d Lf c Lf, nb', h).
Proof. reflexivity. Qed.

Lemma ins_Nd : forall flag s rest pre pa nb h d l c r,
  ins flag (s :: rest) pre pa nb h (Nd d l c r) =
  match lex s (stem d) with
  | Eq =>
      let d' := if flag && nonempty rest then set_nochild false d else d in
      let h' := visit d (pre ++ s) h in
      let '(c', nb', h'') := ins flag rest (pre ++ s) (addr d) nb h' c in
      (Nd d' l c' r, nb', h'')
  | Lt => let '(l', nb', h') := ins flag (s :: rest) pre pa nb h l in (Nd d l' c r, nb', h')
  | Gt => let '(r', nb', h') := ins flag (s :: rest) pre pa nb h r in (Nd d l c r', nb', h')
  end.
Proof. reflexivity. Qed.

Lemma ins_t_nil : forall flag pre pa nb h t, ins_t flag [] pre pa nb h t = t.
Proof. reflexivity. Qed.
Lemma ins_nb_nil : forall flag pre pa nb h t, ins_nb flag [] pre pa nb h t = nb.
Proof. reflexivity. Qed.
Lemma ins_h_nil : forall flag pre pa nb h t, ins_h flag [] pre pa nb h t = h.
Proof. reflexivity. Qed.

Lemma ins_t_Lf : forall flag s rest pre pa nb h,
  ins_t flag (s :: rest) pre pa nb h Lf =
  Nd (mkNd (nb * bsz) pa s false false false (negb (flag && nonempty rest)) 0 0 0)
     Lf (ins_t flag rest (pre ++ s) (nb * bsz) (nb + nblk s) h Lf) Lf.
Proof.
  intros. unfold ins_t. rewrite ins_Lf. cbv zeta.
  destruct (ins flag rest (pre ++ s) (nb * bsz) (nb + nblk s) h Lf) as [[c nb'] h']. reflexivity.
Qed.

Lemma ins_nb_Lf : forall flag s rest pre pa nb h,
  ins_nb flag (s :: rest) pre pa nb h Lf =
  ins_nb flag rest (pre ++ s) (nb * bsz) (nb + nblk s) h Lf.
Proof.
  intros. unfold ins_nb. rewrite ins_Lf. cbv zeta.
  destruct (ins flag rest (pre ++ s) (nb * bsz) (nb + nblk s) h Lf) as [[c nb'] h']. reflexivity.
Qed.

Lemma ins_h_Lf : forall flag s rest pre pa nb h,
  ins_h flag (s :: rest) pre pa nb h Lf = h.
Proof.
  intros. unfold ins_h. rewrite ins_Lf. cbv zeta.
  destruct (ins flag rest (pre ++ s) (nb * bsz) (nb + nblk s) h Lf) as [[c nb'] h']. reflexivity.
Qed.

Lemma ins_t_Nd : forall flag s rest pre pa nb h d l c r,
  ins_t flag (s :: rest) pre pa nb h (Nd d l c r) =
  match lex s (stem d) with
  | Eq => Nd (if flag && nonempty rest then set_nochild false d else d) l
             (ins_t flag rest (pre ++ s) (addr d) nb (visit d (pre ++ s) h) c) r
  | Lt => Nd d (ins_t flag (s :: rest) pre pa nb h l) c r
  | Gt => Nd d l c (ins_t flag (s :: rest) pre pa nb h r)
  end.
Proof.
  intros. unfold ins_t. rewrite ins_Nd. cbv zeta.
  destruct (lex s (stem d)).
  - destruct (ins flag rest (pre ++ s) (addr d) nb (visit d (pre ++ s) h) c) as [[c' nb'] h']. reflexivity.
  - destruct (ins flag (s :: rest) pre pa nb h l) as [[c' nb'] h']. reflexivity.
  - destruct (ins flag (s :: rest) pre pa nb h r) as [[c' nb'] h']. reflexivity.
Qed.

Lemma ins_nb_Nd : forall flag s rest pre pa nb h d l c r,
  ins_nb flag (s :: rest) pre pa nb h (Nd d l c r) =
  match lex s (stem d) with
  | Eq => ins_nb flag rest (pre ++ s) (addr d) nb (visit d (pre ++ s) h) c
  | Lt => ins_nb flag (s :: rest) pre pa nb h l
  | Gt => ins_nb flag (s :: rest) pre pa nb h r
  end.
Proof.
  intros. unfold ins_nb. rewrite ins_Nd. cbv zeta.
  destruct (lex s (stem d)).
  - destruct (ins flag rest (pre ++ s) (addr d) nb (visit d (pre ++ s) h) c) as [[c' nb'] h']. reflexivity.
  - destruct (ins flag (s :: rest) pre pa nb h l) as [[c' nb'] h']. reflexivity.
  - destruct (ins flag (s :: rest) pre pa nb h r) as [[c' nb'] h']. reflexivity.
Qed.

Lemma ins_h_Nd : forall flag s rest pre pa nb h d l c r,
  ins_h flag (s :: rest) pre pa nb h (Nd d l c r) =
  match lex s (stem d) with
  | Eq => ins_h flag rest (pre ++ s) (addr d) nb (visit d (pre ++ s) h) c
  | Lt => ins_h flag (s :: rest) pre pa nb h l
  | Gt => ins_h flag (s :: rest) pre pa nb h r
  end.
Proof.
  intros. unfold ins_h. rewrite ins_Nd. cbv zeta.
  destruct (lex s (stem d)).
  - destruct (ins flag rest (pre ++ s) (addr d) nb (visit d (pre ++ s) h) c) as [[c' nb'] h']. reflexivity.
  - destruct (ins flag (s :: rest) pre pa nb h l) as [[c' nb'] h']. reflexivity.
  - destruct (ins flag (s :: rest) pre pa nb h r) as [[c' nb'] h']. reflexivity.
Qed.

Lemma stem_nochild_if : forall (b : bool) d, stem (if b then set_nochild false d else d) = stem d.
Proof. intros [|] d; reflexivity. Qed.

(* ====================================================================== *)
(* Group 4 — insertion                                                    *)
(* ====================================================================== *)

Lemma sib_stems_ins : forall flag s rest pre pa nb h t x,
  In x (sib_stems (ins_t flag (s :: rest) pre pa nb h t)) -> x = s \/ In x (sib_stems t).
Proof.
  intros flag s rest pre pa nb h t x.
  induction t as [|d l IHl c _ r IHr].
  - rewrite ins_t_Lf. cbn [sib_stems app stem In]. intros [H|[]]. left. auto.
  - rewrite ins_t_Nd. destruct (lex s (stem d)); cbn [sib_stems]; rewrite ?stem_nochild_if.
    + auto.
    + rewrite !in_app_iff. cbn [In]. intros [H|H]; [|auto].
      apply IHl in H. destruct H; auto.
    + rewrite !in_app_iff. cbn [In]. intros [H|[H|H]]; auto.
      apply IHr in H. destruct H; auto.
Qed.

Lemma ins_bst : forall flag ss pre pa nb h t, bst t -> bst (ins_t flag ss pre pa nb h t).
Proof.
  intros flag ss.
  induction ss as [|s rest IHss]; intros pre pa nb h t Hb; [exact Hb|].
  induction t as [|d l IHl c _ r IHr].
  - rewrite ins_t_Lf. cbn [bst sib_stems]. repeat split; try (intros x []).
    apply IHss. exact I.
  - rewrite ins_t_Nd. cbn [bst] in Hb. destruct Hb as (Hl & Hr & Bl & Bc & Br).
    destruct (lex s (stem d)) eqn:E; cbn [bst]; rewrite ?stem_nochild_if.
    + repeat split; auto.
    + repeat split; auto. intros x Hx. apply sib_stems_ins in Hx.
      destruct Hx as [->|Hx]; auto.
    + repeat split; auto. intros x Hx. apply sib_stems_ins in Hx.
      destruct Hx as [->|Hx]; auto.
Qed.

Lemma ins_stems_wf : forall flag ss pre pa nb h t, Forall wf_stem ss ->
  stems_wf t -> stems_wf (ins_t flag ss pre pa nb h t).
Proof.
  intros flag ss.
  induction ss as [|s rest IHss]; intros pre pa nb h t Hss Hb; [exact Hb|].
  inversion Hss as [|s' rest' Hs Hrest]; subst.
  induction t as [|d l IHl c _ r IHr].
  - rewrite ins_t_Lf. cbn [stems_wf stem]. repeat split; auto.
  - rewrite ins_t_Nd. cbn [stems_wf] in Hb. destruct Hb as (Hd & Bl & Bc & Br).
    destruct (lex s (stem d)) eqn:E; cbn [stems_wf]; rewrite ?stem_nochild_if;
      repeat split; auto.
Qed.

Lemma ins_wf : forall flag ss pre pa nb h t, Forall wf_stem ss -> wf_tst t ->
  wf_tst (ins_t flag ss pre pa nb h t).
Proof.
  intros flag ss pre pa nb h t Hss [Hb Hs]. split.
  - apply ins_bst. exact Hb.
  - apply ins_stems_wf; assumption.
Qed.

Lemma is_prefix_cons : forall x p s ss,
  is_prefix (x :: p) (s :: ss) = beq x s && is_prefix p ss.
Proof. reflexivity. Qed.

Lemma find_ins_other : forall flag ss pre pa nb h t p,
  p <> [] -> is_prefix p ss = false ->
  find p (ins_t flag ss pre pa nb h t) = find p t.
Proof.
  intros flag ss.
  induction ss as [|s rest IHss]; intros pre pa nb h t p Hp Hpre; [reflexivity|].
  destruct p as [|x p']; [congruence|]. clear Hp.
  rewrite is_prefix_cons in Hpre.
  induction t as [|d l IHl c _ r IHr].
  - rewrite ins_t_Lf, find_Lf, find_Nd. cbn [stem].
    destruct (lex x s) eqn:E; try apply find_Lf.
    apply lex_eq in E. subst x. rewrite (proj2 (beq_eq s s) eq_refl) in Hpre.
    destruct p' as [|x2 p2]; [discriminate Hpre|].
    rewrite IHss; [apply find_Lf|discriminate|exact Hpre].
  - rewrite ins_t_Nd. destruct (lex s (stem d)) eqn:E.
    + rewrite !find_Nd, stem_nochild_if.
      destruct (lex x (stem d)) eqn:E2; try reflexivity.
      apply lex_eq in E, E2. assert (Hxs : beq x s = true) by (apply beq_eq; congruence).
      rewrite Hxs in Hpre.
      destruct p' as [|x2 p2]; [discriminate Hpre|].
      apply IHss; [discriminate|exact Hpre].
    + rewrite !find_Nd. destruct (lex x (stem d)); try reflexivity. apply IHl.
    + rewrite !find_Nd. destruct (lex x (stem d)); try reflexivity. apply IHr.
Qed.

Lemma ltb_SS : forall a b, Nat.ltb (S a) (S b) = Nat.ltb a b.
Proof. reflexivity. Qed.

Lemma ltb_1_nonempty : forall (A : Type) (l : list A), Nat.ltb 1 (S (length l)) = nonempty l.
Proof. intros A [|x l]; reflexivity. Qed.

Lemma find_ins_old : forall flag ss pre pa nb h t p d,
  p <> [] -> is_prefix p ss = true -> find p t = Some d ->
  find p (ins_t flag ss pre pa nb h t) =
  Some (if flag && Nat.ltb (length p) (length ss) then set_nochild false d else d).
Proof.
  intros flag ss.
  induction ss as [|s rest IHss]; intros pre pa nb h t p d0 Hp Hpre Hf.
  { destruct p; [congruence|discriminate Hpre]. }
  destruct p as [|x p']; [congruence|]. clear Hp.
  rewrite is_prefix_cons in Hpre. apply andb_prop in Hpre. destruct Hpre as [Hx Hpre].
  apply beq_eq in Hx. subst x.
  induction t as [|d l IHl c _ r IHr].
  - rewrite find_Lf in Hf. discriminate.
  - rewrite ins_t_Nd. rewrite find_Nd in Hf. destruct (lex s (stem d)) eqn:E.
    + rewrite find_Nd, stem_nochild_if, E.
      destruct p' as [|x2 p2].
      * injection Hf as <-. cbn [length]. rewrite ltb_1_nonempty. reflexivity.
      * cbn [length]. rewrite ltb_SS. apply IHss; [discriminate|exact Hpre|exact Hf].
    + rewrite find_Nd, E. apply IHl. exact Hf.
    + rewrite find_Nd, E. apply IHr. exact Hf.
Qed.

Lemma find_ins_new : forall flag ss pre pa nb h t p,
  p <> [] -> is_prefix p ss = true -> find p t = None ->
  exists a pa', find p (ins_t flag ss pre pa nb h t) =
    Some (mkNd a pa' (last p []) false false false
               (negb (flag && Nat.ltb (length p) (length ss))) 0 0 0).
Proof.
  intros flag ss.
  induction ss as [|s rest IHss]; intros pre pa nb h t p Hp Hpre Hf.
  { destruct p; [congruence|discriminate Hpre]. }
  destruct p as [|x p']; [congruence|]. clear Hp.
  rewrite is_prefix_cons in Hpre. apply andb_prop in Hpre. destruct Hpre as [Hx Hpre].
  apply beq_eq in Hx. subst x.
  induction t as [|d l IHl c _ r IHr].
  - rewrite ins_t_Lf, find_Nd. cbn [stem]. rewrite lex_refl.
    destruct p' as [|x2 p2].
    + exists (nb * bsz), pa. cbn [length last]. rewrite ltb_1_nonempty. reflexivity.
    + cbn [length]. rewrite ltb_SS.
      change (last (s :: x2 :: p2) []) with (last (x2 :: p2) []).
      apply IHss; [discriminate|exact Hpre|apply find_Lf].
  - rewrite ins_t_Nd. rewrite find_Nd in Hf. destruct (lex s (stem d)) eqn:E.
    + rewrite find_Nd, stem_nochild_if, E.
      destruct p' as [|x2 p2]; [discriminate Hf|].
      cbn [length]. rewrite ltb_SS.
      change (last (s :: x2 :: p2) []) with (last (x2 :: p2) []).
      apply IHss; [discriminate|exact Hpre|exact Hf].
    + rewrite find_Nd, E. apply IHl. exact Hf.
    + rewrite find_Nd, E. apply IHr. exact Hf.
Qed.

(* ---- the sibling lookup and the child subtree under a stem --------------- *)

Fixpoint sib_find (s : bytes) (t : tst) : option (nd * tst) :=
  match t with
  | Lf => None
  | Nd d l c r =>
      match lex s (stem d) with
      | Eq => Some (d, c)
      | Lt => sib_find s l
      | Gt => sib_find s r
      end
  end.

(* the sibling tree one stem down along [s] (Lf when [s] is absent) *)
Definition child (s : bytes) (t : tst) : tst :=
  match sib_find s t with Some (_, c) => c | None => Lf end.

Lemma find_sib : forall s rest t,
  find (s :: rest) t =
  match sib_find s t with
  | None => None
  | Some (d, c) => match rest with [] => Some d | _ :: _ => find rest c end
  end.
Proof.
  intros s rest t. induction t as [|d l IHl c _ r IHr].
  - apply find_Lf.
  - rewrite find_Nd. cbn [sib_find]. destruct (lex s (stem d)); auto.
Qed.

Lemma find_single : forall s t,
  find [s] t = match sib_find s t with Some (d, _) => Some d | None => None end.
Proof. intros. rewrite find_sib. destruct (sib_find s t) as [[d c]|]; reflexivity. Qed.

Lemma find_cons_child : forall s p t, p <> [] -> find (s :: p) t = find p (child s t).
Proof.
  intros s p t Hp. rewrite find_sib. unfold child.
  destruct (sib_find s t) as [[d c]|].
  - destruct p; [congruence|reflexivity].
  - symmetry. apply find_Lf.
Qed.

Lemma ins_nb_sib : forall flag s rest pre pa nb h t,
  ins_nb flag (s :: rest) pre pa nb h t =
  match sib_find s t with
  | Some (d, c) => ins_nb flag rest (pre ++ s) (addr d) nb (visit d (pre ++ s) h) c
  | None => ins_nb flag rest (pre ++ s) (nb * bsz) (nb + nblk s) h Lf
  end.
Proof.
  intros. induction t as [|d l IHl c _ r IHr].
  - apply ins_nb_Lf.
  - rewrite ins_nb_Nd. cbn [sib_find]. destruct (lex s (stem d)); auto.
Qed.

Lemma ins_h_sib : forall flag s rest pre pa nb h t,
  ins_h flag (s :: rest) pre pa nb h t =
  match sib_find s t with
  | Some (d, c) => ins_h flag rest (pre ++ s) (addr d) nb (visit d (pre ++ s) h) c
  | None => h
  end.
Proof.
  intros. induction t as [|d l IHl c _ r IHr].
  - apply ins_h_Lf.
  - rewrite ins_h_Nd. cbn [sib_find]. destruct (lex s (stem d)); auto.
Qed.

Lemma follow_nil : forall pre h t, follow [] pre h t = (h, None).
Proof. reflexivity. Qed.

Lemma follow_Lf : forall ss pre h, follow ss pre h Lf = (h, None).
Proof. destruct ss; reflexivity. Qed.

Lemma follow_Nd : forall s rest pre h d l c r,
  follow (s :: rest) pre h (Nd d l c r) =
  match lex s (stem d) with
  | Eq => let h' := visit d (pre ++ s) h in
          match rest with
          | [] => (h', Some d)
          | _ :: _ => follow rest (pre ++ s) h' c
          end
  | Lt => follow (s :: rest) pre h l
  | Gt => follow (s :: rest) pre h r
  end.
Proof. reflexivity. Qed.

Lemma follow_sib : forall s rest pre h t,
  follow (s :: rest) pre h t =
  match sib_find s t with
  | Some (d, c) => match rest with
                   | [] => (visit d (pre ++ s) h, Some d)
                   | _ :: _ => follow rest (pre ++ s) (visit d (pre ++ s) h) c
                   end
  | None => (h, None)
  end.
Proof.
  intros. induction t as [|d l IHl c _ r IHr].
  - apply follow_Lf.
  - rewrite follow_Nd. cbn [sib_find]. destruct (lex s (stem d)); auto.
Qed.

(* ---- non-empty prefixes -------------------------------------------------- *)

Lemma nprefixes_map : forall ss pre, nprefixes pre ss = map (app pre) (nprefixes [] ss).
Proof.
  induction ss as [|s r IH]; intro pre; [reflexivity|].
  cbn [nprefixes map app]. f_equal.
  rewrite (IH (pre ++ [s])), (IH [s]), map_map.
  apply map_ext. intro a. rewrite <- app_assoc. reflexivity.
Qed.

Lemma nprefixes_cons : forall s rest,
  nprefixes [] (s :: rest) = [s] :: map (cons s) (nprefixes [] rest).
Proof.
  intros. cbn [nprefixes app]. f_equal. apply (nprefixes_map rest [s]).
Qed.

Lemma nprefixes_nonempty : forall ss pre p, In p (nprefixes pre ss) -> p <> [].
Proof.
  induction ss as [|s r IH]; intros pre p Hin; [destruct Hin|].
  cbn [nprefixes] in Hin. destruct Hin as [<-|Hin].
  - destruct pre; discriminate.
  - eapply IH; eauto.
Qed.

(* ---- ins_nb -------------------------------------------------------------- *)

Definition absent (t : tst) (p : list bytes) : bool :=
  match find p t with None => true | Some _ => false end.

Lemma absent_cons_child : forall s p t, p <> [] -> absent t (s :: p) = absent (child s t) p.
Proof. intros. unfold absent. rewrite find_cons_child by assumption. reflexivity. Qed.

Lemma missing_aux : forall s t L, (forall p, In p L -> p <> []) ->
  map (fun p => last p []) (filter (absent t) (map (cons s) L)) =
  map (fun p => last p []) (filter (absent (child s t)) L).
Proof.
  intros s t L. induction L as [|a L IH]; intro HL; [reflexivity|].
  assert (Ha : a <> []) by (apply HL; left; reflexivity).
  cbn [map filter]. rewrite absent_cons_child by exact Ha.
  destruct (absent (child s t) a).
  - cbn [map]. rewrite IH by (intros p Hp; apply HL; right; exact Hp).
    f_equal. destruct a; [congruence|reflexivity].
  - apply IH. intros p Hp. apply HL. right. exact Hp.
Qed.

Lemma missing_cons : forall t s rest,
  missing t (s :: rest) =
  (if absent t [s] then [s] else []) ++ missing (child s t) rest.
Proof.
  intros. unfold missing. fold (absent t). fold (absent (child s t)).
  rewrite nprefixes_cons. cbn [filter].
  destruct (absent t [s]); cbn [map app last]; [f_equal|];
    apply missing_aux; apply nprefixes_nonempty.
Qed.

Lemma ins_nb_spec : forall flag ss pre pa nb h t,
  ins_nb flag ss pre pa nb h t = nb + fold_right N.add 0 (map nblk (missing t ss)).
Proof.
  intros flag ss.
  induction ss as [|s rest IHss]; intros pre pa nb h t.
  - rewrite ins_nb_nil. unfold missing. cbn [nprefixes filter map fold_right]. lia.
  - rewrite ins_nb_sib, missing_cons. unfold absent, child. rewrite find_single.
    destruct (sib_find s t) as [[d c]|].
    + cbn [app]. apply IHss.
    + cbn [app map fold_right]. rewrite IHss. lia.
Qed.

(* ---- histories ----------------------------------------------------------- *)

(* hist_of relative to a subtree: walk from [t], standing at LRU [pre] with history [h] *)
Definition hist_from (pre : bytes) (h : hist) (t : tst) (ss : list bytes) : hist :=
  fold_left (fun h p => match find p t with Some d => visit d (pre ++ concat p) h | None => h end)
            (nprefixes [] ss) h.

Lemma hist_of_from : forall t ss, hist_of t ss = hist_from [] hist0 t ss.
Proof. reflexivity. Qed.

Lemma fold_left_map_in : forall (A B C : Type) (f : A -> C -> A) (g : A -> B -> A)
  (k : B -> C) (L : list B) (a : A),
  (forall a x, In x L -> f a (k x) = g a x) ->
  fold_left f (map k L) a = fold_left g L a.
Proof.
  intros A B C f g k L. induction L as [|x L IH]; intros a H; [reflexivity|].
  cbn [map fold_left]. rewrite H by (left; reflexivity).
  apply IH. intros a' y Hy. apply H. right. exact Hy.
Qed.

Lemma hist_from_nil : forall pre h t, hist_from pre h t [] = h.
Proof. reflexivity. Qed.

Lemma hist_from_cons : forall pre h t s rest,
  hist_from pre h t (s :: rest) =
  hist_from (pre ++ s)
            (match find [s] t with Some d => visit d (pre ++ s) h | None => h end)
            (child s t) rest.
Proof.
  intros. unfold hist_from. rewrite nprefixes_cons. cbn [fold_left concat].
  rewrite app_nil_r.
  apply fold_left_map_in. intros a p Hp.
  apply nprefixes_nonempty in Hp.
  rewrite find_cons_child by exact Hp.
  cbn [concat]. rewrite app_assoc. reflexivity.
Qed.

Lemma hist_from_Lf : forall pre h ss, hist_from pre h Lf ss = h.
Proof.
  intros. unfold hist_from. generalize (nprefixes [] ss) as L.
  induction L as [|p L IH]; [reflexivity|].
  cbn [fold_left]. rewrite find_Lf. exact IH.
Qed.

Lemma ins_h_from : forall flag ss pre pa nb h t,
  ins_h flag ss pre pa nb h t = hist_from pre h t ss.
Proof.
  intros flag ss.
  induction ss as [|s rest IHss]; intros pre pa nb h t; [reflexivity|].
  rewrite ins_h_sib, hist_from_cons, find_single. unfold child.
  destruct (sib_find s t) as [[d c]|].
  - apply IHss.
  - symmetry. apply hist_from_Lf.
Qed.

Lemma ins_hist : forall flag ss nb t, ins_h flag ss [] 0 nb hist0 t = hist_of t ss.
Proof. intros. rewrite hist_of_from. apply ins_h_from. Qed.

Lemma follow_hist_from : forall ss pre h t, fst (follow ss pre h t) = hist_from pre h t ss.
Proof.
  induction ss as [|s rest IHss]; intros pre h t; [reflexivity|].
  rewrite follow_sib, hist_from_cons, find_single. unfold child.
  destruct (sib_find s t) as [[d c]|].
  - destruct rest as [|s2 rest2]; [reflexivity|]. apply IHss.
  - symmetry. apply hist_from_Lf.
Qed.

Lemma follow_hist : forall ss t, fst (follow ss [] hist0 t) = hist_of t ss.
Proof. intros. rewrite hist_of_from. apply follow_hist_from. Qed.

Lemma follow_find_gen : forall ss pre h t, snd (follow ss pre h t) = find ss t.
Proof.
  induction ss as [|s rest IHss]; intros pre h t; [reflexivity|].
  rewrite follow_sib, find_sib.
  destruct (sib_find s t) as [[d c]|]; [|reflexivity].
  destruct rest as [|s2 rest2]; [reflexivity|]. apply IHss.
Qed.

Lemma follow_find : forall ss t, snd (follow ss [] hist0 t) = find ss t.
Proof. intros. apply follow_find_gen. Qed.

(* ====================================================================== *)
(* Group 5 — stems of a well-formed LRU                                   *)
(* ====================================================================== *)

Lemma lru_iter_from_cons : forall cur x l,
  lru_iter_from cur (x :: l) =
  if x =? sep then (cur ++ [sep]) :: lru_iter_from [] l else lru_iter_from (cur ++ [x]) l.
Proof. reflexivity. Qed.

Lemma lru_iter_from_wf : forall l cur, ~ In sep cur -> Forall wf_stem (lru_iter_from cur l).
Proof.
  induction l as [|x l IH]; intros cur Hc; [constructor|].
  rewrite lru_iter_from_cons. destruct (N.eqb_spec x sep) as [E|E].
  - constructor.
    + exists cur. split; [reflexivity|exact Hc].
    + apply IH. intros [].
  - apply IH. rewrite in_app_iff. intros [H|[H|[]]]; [auto|]. apply E. exact H.
Qed.

Lemma lru_iter_wf : forall l, Forall wf_stem (lru_iter l).
Proof. intro l. apply lru_iter_from_wf. intros []. Qed.

Lemma last_cons_cons : forall (A : Type) (x y : A) l d, last (x :: y :: l) d = last (y :: l) d.
Proof. reflexivity. Qed.

Lemma lru_iter_from_concat : forall l cur, l <> [] -> last l 0 = sep ->
  concat (lru_iter_from cur l) = cur ++ l.
Proof.
  induction l as [|x l IH]; intros cur Hne Hlast; [congruence|].
  rewrite lru_iter_from_cons. destruct (N.eqb_spec x sep) as [E|E].
  - subst x. cbn [concat]. destruct l as [|y l'].
    + cbn [lru_iter_from concat]. apply app_nil_r.
    + rewrite last_cons_cons in Hlast. rewrite IH; [|discriminate|exact Hlast].
      rewrite <- app_assoc. reflexivity.
  - destruct l as [|y l'].
    + cbn [last] in Hlast. congruence.
    + rewrite last_cons_cons in Hlast. rewrite IH; [|discriminate|exact Hlast].
      rewrite <- app_assoc. reflexivity.
Qed.

Lemma lru_iter_concat : forall l, wf_lru l -> concat (lru_iter l) = l.
Proof. intros l [Hne Hlast]. apply (lru_iter_from_concat l [] Hne Hlast). Qed.

Lemma lru_iter_from_nonempty : forall l cur, l <> [] -> last l 0 = sep ->
  lru_iter_from cur l <> [].
Proof.
  induction l as [|x l IH]; intros cur Hne Hlast; [congruence|].
  rewrite lru_iter_from_cons. destruct (N.eqb_spec x sep) as [E|E]; [discriminate|].
  destruct l as [|y l'].
  - cbn [last] in Hlast. congruence.
  - rewrite last_cons_cons in Hlast. apply IH; [discriminate|exact Hlast].
Qed.

Lemma lru_iter_nonempty : forall l, wf_lru l -> lru_iter l <> [].
Proof. intros l [Hne Hlast]. apply (lru_iter_from_nonempty l [] Hne Hlast). Qed.

Lemma lru_iter_from_stem : forall body cur rest, ~ In sep body ->
  lru_iter_from cur (body ++ sep :: rest) = (cur ++ body ++ [sep]) :: lru_iter_from [] rest.
Proof.
  induction body as [|x b IH]; intros cur rest Hb.
  - cbn [app]. rewrite lru_iter_from_cons, N.eqb_refl. reflexivity.
  - cbn [app]. rewrite lru_iter_from_cons. destruct (N.eqb_spec x sep) as [E|E].
    + exfalso. apply Hb. left. exact E.
    + rewrite IH by (intro H; apply Hb; right; exact H).
      rewrite <- app_assoc. reflexivity.
Qed.

Lemma lru_iter_concat_stems : forall p, Forall wf_stem p -> lru_iter (concat p) = p.
Proof.
  intros p Hp. induction Hp as [|s p Hs Hp IH]; [reflexivity|].
  destruct Hs as (body & -> & Hb).
  cbn [concat]. rewrite <- app_assoc. cbn [app].
  unfold lru_iter in *. rewrite lru_iter_from_stem by exact Hb.
  rewrite IH. reflexivity.
Qed.

Lemma concat_stems_inj : forall p q, Forall wf_stem p -> Forall wf_stem q ->
  concat p = concat q -> p = q.
Proof.
  intros p q Hp Hq H.
  rewrite <- (lru_iter_concat_stems p Hp), <- (lru_iter_concat_stems q Hq), H. reflexivity.
Qed.
