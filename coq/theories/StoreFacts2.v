(* StoreFacts2.v — the root of a non-empty trie is the first data block (offset bsz)
   in every reachable state: the clause `root_first` needed by the block-level lookup
   is an invariant of every request.  Then the block-level corollaries on reachable
   states (S5). *)
From Coq Require Import List NArith Bool Lia Arith.
Import ListNotations.
From Traph Require Import Bytes Consts Helpers Rules Tst TstDefs Traph Traphw Ops RefDefs
  TstFacts TraceDefs TraceFacts TraceFacts6 Store StoreFacts.
Open Scope N_scope.

(* ====================================================================== *)
(* The root clause                                                          *)
(* ====================================================================== *)
Definition root_ok (t : tst) (n : N) : Prop :=
  match t with Lf => n = 1 | Nd d _ _ _ => addr d = bsz end.
Definition Q (s : traph) : Prop := root_ok (tr s) (nb s).

Lemma Q_root_first : forall s, Q s -> root_first s.
Proof. intros s H. unfold Q, root_first in *. destruct (tr s); [right; reflexivity|left; exact H]. Qed.

Lemma root_ok_ins : forall flag ss pre pa n h t, root_ok t n ->
  root_ok (ins_t flag ss pre pa n h t) (ins_nb flag ss pre pa n h t).
Proof.
  intros flag ss pre pa n h t H. destruct ss as [|x rest]; [exact H|].
  destruct t as [|d l c r].
  - rewrite ins_t_Lf. cbn [root_ok addr]. cbn [root_ok] in H. rewrite H. apply N.mul_1_l.
  - rewrite ins_t_Nd. cbn [root_ok] in *. destruct (lex x (stem d)); cbn [root_ok]; try exact H.
    destruct (flag && nonempty rest); exact H.
Qed.

Lemma root_ok_upd : forall f p t n, (forall d, addr (f d) = addr d) -> root_ok t n -> root_ok (upd f p t) n.
Proof.
  intros f p t n Hf H. destruct t as [|d l c r]; [rewrite upd_Lf; exact H|].
  destruct p as [|x rest]; [exact H|]. rewrite upd_Nd. cbn [root_ok] in *.
  destruct (lex x (stem d)); cbn [root_ok]; try exact H.
  destruct rest; cbn [root_ok]; [rewrite Hf|]; exact H.
Qed.

Lemma Q_ram : forall s s', tr s' = tr s -> nb s' = nb s -> Q s -> Q s'.
Proof. intros s s' E1 E2 H. unfold Q in *. rewrite E1, E2. exact H. Qed.

Lemma add_lru_Q : forall flag l s, Q s -> Q (fst (add_lru flag l s)).
Proof.
  intros flag l s H. unfold Q, add_lru.
  pose proof (root_ok_ins flag (lru_iter l) [] 0 (nb s) hist0 (tr s) H) as H1.
  unfold ins_t, ins_nb in H1.
  destruct (ins flag (lru_iter l) [] 0 (nb s) hist0 (tr s)) as [[t' nb'] h']. exact H1.
Qed.

Lemma set_tree_upd_Q : forall f p s, (forall d, addr (f d) = addr d) -> Q s ->
  Q (set_tree (upd f p (tr s)) s).
Proof. intros f p s Hf H. unfold Q. cbn [set_tree set_tr tr nb]. apply root_ok_upd; assumption. Qed.

Lemma fold_pres : forall (A B : Type) (P : A -> Prop) (f : A -> B -> A) l a,
  (forall a b, P a -> P (f a b)) -> P a -> P (fold_left f l a).
Proof.
  intros A B P f l. induction l as [|b l IH]; intros a Hf Ha; [exact Ha|].
  cbn [fold_left]. apply IH; [exact Hf|apply Hf; exact Ha].
Qed.

Lemma store_links_Q : forall out p tgs s, Q s -> Q (store_links out p tgs s).
Proof.
  intros out p tgs s H. unfold store_links. destruct tgs as [|t0 tgs]; [exact H|].
  destruct (find p (tr s)) as [d|]; [|exact H].
  destruct (push_stubs (t0 :: tgs) (if out then outh d else inh d) (stubs s)) as [st' h'].
  unfold Q. cbn [tr nb]. apply root_ok_upd; [|exact H]. intro d0. destruct out; reflexivity.
Qed.

Lemma trie_add_page_Q : forall l cr s, Q s -> Q (fst (fst (trie_add_page l cr s))).
Proof.
  intros l cr s H. unfold trie_add_page.
  pose proof (add_lru_Q false l s H) as H1.
  destruct (add_lru false l s) as [s1 h]. cbn [fst] in H1.
  destruct (find (lru_iter l) (tr s1)) as [d|]; [|exact H1].
  destruct (page d).
  - destruct (cr && negb (crawled d)); cbn [fst]; [|exact H1].
    apply set_tree_upd_Q; [reflexivity|exact H1].
  - cbn [fst]. apply set_tree_upd_Q; [|exact H1]. intro d0. destruct cr; reflexivity.
Qed.

Lemma walk_prefixes_Q : forall ps s ninv valid, Q s -> Q (fst (fst (walk_prefixes ps s ninv valid))).
Proof.
  induction ps as [|p ps IH]; intros s ninv valid H; [exact H|].
  cbn [walk_prefixes].
  pose proof (add_lru_Q true p s H) as H1.
  destruct (add_lru true p s) as [s1 h]. cbn [fst] in H1.
  destruct (find (lru_iter p) (tr s1)) as [d|].
  - destruct (we d =? 0); apply IH; exact H1.
  - apply IH; exact H1.
Qed.

Lemma set_we_all_root : forall w ps t n, root_ok t n -> root_ok (set_we_all w ps t) n.
Proof.
  intros w ps t n H. unfold set_we_all.
  apply (fold_pres _ _ (fun t => root_ok t n)); [|exact H].
  intros t0 p H0. apply root_ok_upd; [reflexivity|exact H0].
Qed.

Lemma add_prefixes_Q : forall ps best s, Q s -> Q (fst (add_prefixes ps best s)).
Proof.
  intros ps best s H. unfold add_prefixes.
  pose proof (walk_prefixes_Q ps s 0%nat [] H) as H1.
  destruct (walk_prefixes ps s 0 []) as [[s1 ninv] valid]. cbn [fst] in H1.
  destruct (negb (Nat.eqb ninv 0) && negb best); [exact H1|].
  destruct (Nat.eqb ninv (length ps)); [exact H1|]. cbn [fst].
  unfold Q. cbn [tr nb]. apply set_we_all_root. exact H1.
Qed.

Lemma create_from_Q : forall p s, Q s -> Q (fst (create_from p s)).
Proof.
  intros p s H. unfold create_from.
  pose proof (add_prefixes_Q (lru_variations p) true s H) as H1.
  destruct (add_prefixes (lru_variations p) true s) as [s1 [| |w valid]]; exact H1.
Qed.

Lemma add_page_int_Q : forall l cr s, Q s -> Q (fst (fst (add_page_int l cr s))).
Proof.
  intros l cr s H. unfold add_page_int.
  pose proof (trie_add_page_Q l cr s H) as H1.
  destruct (trie_add_page l cr s) as [[s1 h] created]. cbn [fst] in H1.
  destruct (decide s1 l h) as [|p|]; try exact H1.
  pose proof (create_from_Q p s1 H1) as H2.
  destruct (create_from p s1) as [s2 c]. exact H2.
Qed.

Lemma add_page_Q : forall l cr s, Q s -> Q (fst (add_page l cr s)).
Proof.
  intros l cr s H. unfold add_page. pose proof (add_page_int_Q l cr s H) as H1.
  destruct (add_page_int l cr s) as [[s1 n] c]. exact H1.
Qed.

Lemma pages_fold_Q : forall cr ls (x : traph * N * list (N * list bytes)), Q (fst (fst x)) ->
  Q (fst (fst (fold_left (fun '(s, n, c) l => let '(s', n', c') := add_page_int l cr s in (s', n + n', c ++ c'))
                         ls x))).
Proof.
  intros cr ls x H.
  apply (fold_pres _ _ (fun x : traph * N * list (N * list bytes) => Q (fst (fst x)))); [|exact H].
  intros [[s n] c] l Ha. cbn [fst] in Ha. pose proof (add_page_int_Q l cr s Ha) as H1.
  destruct (add_page_int l cr s) as [[s' n'] c']. exact H1.
Qed.

Lemma add_pages_Q : forall ls cr s, Q s -> Q (fst (add_pages ls cr s)).
Proof.
  intros ls cr s H. unfold add_pages.
  pose proof (pages_fold_Q cr ls (s, 0, []) H) as H1.
  destruct (fold_left _ ls (s, 0, [])) as [[s1 n] c]. exact H1.
Qed.

Lemma flush_links_Q : forall out mm s, Q s -> Q (flush_links out mm s).
Proof.
  intros out mm s H. unfold flush_links. apply (fold_pres _ _ Q); [|exact H].
  intros s0 [p others] H0. apply store_links_Q. exact H0.
Qed.

Lemma add_links_Q : forall links s, Q s -> Q (fst (add_links links s)).
Proof.
  intros links s H. unfold add_links.
  match goal with |- context [fold_left ?f links ?x0] =>
    assert (H1 : Q (fst (fst (fst (fst (fst (fold_left f links x0))))))) end.
  { apply (fold_pres _ _ (fun x : traph * N * list (N * list bytes) * list bytes
                                   * list (bytes * list bytes) * list (bytes * list bytes)
                          => Q (fst (fst (fst (fst (fst x))))))); [|exact H].
    intros [[[[[s0 n0] c0] seen0] outs0] ins0] [a b] Ha. cbn [fst] in Ha.
    destruct (mem_bytes a seen0).
    - destruct (mem_bytes b seen0); [exact Ha|].
      pose proof (add_page_int_Q b false s0 Ha) as H2.
      destruct (add_page_int b false s0) as [[s' n'] c']. exact H2.
    - pose proof (add_page_int_Q a false s0 Ha) as H2.
      destruct (add_page_int a false s0) as [[s' n'] c']. cbn [fst] in H2.
      destruct (mem_bytes b (a :: seen0)); [exact H2|].
      pose proof (add_page_int_Q b false s' H2) as H3.
      destruct (add_page_int b false s') as [[s'' n''] c'']. exact H3. }
  destruct (fold_left _ links _) as [[[[[s1 n] c] seen] outs] ins]. cbn [fst] in *.
  apply flush_links_Q, flush_links_Q. exact H1.
Qed.

Lemma batch_crawl_Q : forall data s, Q s -> Q (fst (batch_crawl data s)).
Proof.
  intros data s H. unfold batch_crawl.
  match goal with |- context [fold_left ?f data ?x0] =>
    assert (H1 : Q (fst (fst (fst (fst (fold_left f data x0)))))) end.
  { apply (fold_pres _ _ (fun x : traph * N * list (N * list bytes) * list bytes
                                   * list (bytes * list bytes)
                          => Q (fst (fst (fst (fst x)))))); [|exact H].
    intros [[[[s0 n0] c0] seen0] ins0] [src tgts] Ha. cbn [fst] in Ha.
    match goal with |- context [if mem_bytes src seen0 then ?A else ?B] =>
      assert (H2 : Q (fst (fst (fst (if mem_bytes src seen0 then A else B))))) end.
    { destruct (mem_bytes src seen0).
      - cbn [fst]. apply set_tree_upd_Q; [reflexivity|exact Ha].
      - pose proof (add_page_int_Q src true s0 Ha) as H2.
        destruct (add_page_int src true s0) as [[s' n'] c']. exact H2. }
    match goal with |- context [if mem_bytes src seen0 then ?A else ?B] =>
      destruct (if mem_bytes src seen0 then A else B) as [[[s2 n2] c2] seen2] end.
    cbn [fst] in H2.
    match goal with |- context [fold_left ?g tgts ?y0] =>
      assert (H3 : Q (fst (fst (fst (fst (fold_left g tgts y0)))))) end.
    { apply (fold_pres _ _ (fun x : traph * N * list (N * list bytes) * list bytes
                                     * list (bytes * list bytes)
                            => Q (fst (fst (fst (fst x)))))); [|exact H2].
      intros [[[[s3 n3] c3] seen3] ins3] t Hb. cbn [fst] in Hb.
      destruct (mem_bytes t seen3); [exact Hb|].
      pose proof (add_page_int_Q t false s3 Hb) as H4.
      destruct (add_page_int t false s3) as [[s' n'] c']. exact H4. }
    destruct (fold_left _ tgts _) as [[[[s4 n4] c4] seen4] ins4]. cbn [fst] in *.
    apply store_links_Q. exact H3. }
  destruct (fold_left _ data _) as [[[[s1 n] c] seen] ins]. cbn [fst] in *.
  apply flush_links_Q. exact H1.
Qed.

Lemma create_webentity_Q : forall ps s, Q s -> Q (fst (create_webentity ps s)).
Proof.
  intros ps s H. unfold create_webentity. pose proof (add_prefixes_Q ps false s H) as H1.
  destruct (add_prefixes ps false s) as [s1 [| |w valid]]; exact H1.
Qed.

Lemma delete_webentity_Q : forall w ps s, Q s -> Q (fst (delete_webentity w ps s)).
Proof.
  intros w ps s H. unfold delete_webentity.
  destruct (forallb _ ps); [|exact H]. cbn [fst]. unfold Q. cbn [set_tree set_tr tr nb].
  apply (fold_pres _ _ (fun t => root_ok t (nb s))); [|exact H].
  intros t0 p H0. apply root_ok_upd; [reflexivity|exact H0].
Qed.

Lemma add_prefix_Q : forall p w s, Q s -> Q (fst (add_prefix p w s)).
Proof.
  intros p w s H. unfold add_prefix. pose proof (add_lru_Q true p s H) as H1.
  destruct (add_lru true p s) as [s1 h]. cbn [fst] in H1.
  destruct (find (lru_iter p) (tr s1)) as [d|]; [|exact H1].
  destruct (we d =? 0); [|exact H1]. cbn [fst]. apply set_tree_upd_Q; [reflexivity|exact H1].
Qed.

Lemma remove_prefix_Q : forall p w s, Q s -> Q (fst (remove_prefix p w s)).
Proof.
  intros p w s H. unfold remove_prefix. pose proof (add_lru_Q false p s H) as H1.
  destruct (add_lru false p s) as [s1 h]. cbn [fst] in H1.
  destruct (find (lru_iter p) (tr s1)) as [d|]; [|exact H1].
  destruct ((w =? 0) || (negb (we d =? 0) && (we d =? w))); [|exact H1].
  cbn [fst]. apply set_tree_upd_Q; [reflexivity|exact H1].
Qed.

Lemma move_prefix_Q : forall p wt ws s, Q s -> Q (fst (move_prefix p wt ws s)).
Proof.
  intros p wt ws s H. unfold move_prefix. pose proof (remove_prefix_Q p ws s H) as H1.
  destruct (remove_prefix p ws s) as [s1 r]. cbn [fst] in H1.
  destruct r; try exact H1. apply add_prefix_Q. exact H1.
Qed.

Lemma add_rule_Q : forall p k write s, Q s -> Q (fst (add_rule p k write s)).
Proof.
  intros p k write s H. unfold add_rule.
  set (s0 := mkT (tr s) (nb s) (lastwe s) (stubs s) (aset p k (rules s)) (dflt s)).
  assert (H0 : Q s0) by exact H.
  destruct write; cbn [negb]; [|exact H0].
  pose proof (add_lru_Q false p s0 H0) as H1.
  destruct (add_lru false p s0) as [s1 h]. cbn [fst] in H1.
  assert (H2 : Q (set_tree (upd (set_rule true) (lru_iter p) (tr s1)) s1))
    by (apply set_tree_upd_Q; [reflexivity|exact H1]).
  pose proof (pages_fold_Q false
                (pages_under p (set_tree (upd (set_rule true) (lru_iter p) (tr s1)) s1))
                (set_tree (upd (set_rule true) (lru_iter p) (tr s1)) s1, 0, []) H2) as H3.
  destruct (fold_left _ _ _) as [[s3 n] c]. exact H3.
Qed.

Lemma remove_rule_Q : forall p s, Q s -> Q (fst (remove_rule p s)).
Proof.
  intros p s H. unfold remove_rule. destruct (aget p (rules s)); [|exact H].
  cbn [tr]. destruct (find (lru_iter p) (tr s)); [|exact H].
  cbn [fst]. unfold Q. cbn [set_tree set_tr tr nb]. apply root_ok_upd; [reflexivity|exact H].
Qed.

Lemma install_rules_Q : forall rs write s, Q s -> Q (install_rules rs write s).
Proof.
  intros rs write s H. unfold install_rules. apply (fold_pres _ _ Q); [|exact H].
  intros s0 [p k] H0. apply add_rule_Q. exact H0.
Qed.

Theorem init_Q : forall d rs, Q (init d rs).
Proof. intros d rs. unfold init. apply install_rules_Q. reflexivity. Qed.

Lemma reopen_Q : forall d rs s, Q s -> Q (reopen d rs s).
Proof. intros d rs s H. unfold reopen. apply install_rules_Q. exact H. Qed.

Lemma clear_Q : forall od ors s, Q (clear od ors s).
Proof.
  intros od ors s. unfold clear. destruct ors as [rs|]; [apply install_rules_Q|]; reflexivity.
Qed.

Theorem step_Q : forall s o, Q s -> Q (fst (step s o)).
Proof.
  intros s o H. destruct o; cbn [step].
  - apply add_page_Q; exact H.
  - apply add_pages_Q; exact H.
  - apply add_links_Q; exact H.
  - apply batch_crawl_Q; exact H.
  - apply create_webentity_Q; exact H.
  - apply delete_webentity_Q; exact H.
  - apply add_prefix_Q; exact H.
  - apply remove_prefix_Q; exact H.
  - apply move_prefix_Q; exact H.
  - apply add_rule_Q; exact H.
  - apply remove_rule_Q; exact H.
  - apply reopen_Q; exact H.
  - apply clear_Q.
Qed.

Theorem history_Q : forall h s, Q s -> Q (mrun_state h s).
Proof.
  induction h as [|o h IH]; intros s H; [exact H|]. cbn [mrun_state]. apply IH, step_Q, H.
Qed.

(* ====================================================================== *)
(* Reachable states                                                         *)
(* ====================================================================== *)

(* Inv18 along every history of well-formed requests (clear included) *)
Theorem step_Inv18 : forall s o, Inv18 s -> wf_op o -> Inv18 (fst (step s o)).
Proof.
  intros s o H Hwf. destruct o; try (apply (step_trace s _ H Hwf I)).
  cbn [step fst]. apply (clear_trace od ors s).
Qed.

Theorem history_Inv18_all : forall h s, Inv18 s -> Forall wf_op h -> Inv18 (mrun_state h s).
Proof.
  induction h as [|o h IH]; intros s H Hh; [exact H|].
  inversion Hh as [|o' h' Hw Hh']; subst. cbn [mrun_state].
  apply IH; [|exact Hh']. apply step_Inv18; assumption.
Qed.

Lemma run2_mrun_state : forall h s a, fst (fst (run2 h s a)) = mrun_state h s.
Proof.
  induction h as [|o h IH]; intros s a; [reflexivity|].
  cbn [run2 mrun_state]. destruct (step s o) as [s1 r]. destruct (sstep s a o) as [a1 r'].
  specialize (IH s1 a1). destruct (run2 h s1 a1) as [[s2 a2] rs]. exact IH.
Qed.

Lemma run_mrun_state : forall d rs h, run d rs h = mrun_state h (init d rs).
Proof. intros. unfold run. apply run2_mrun_state. Qed.

Lemma run_Inv18 : forall d rs h, Forall wf_op h -> Inv18 (run d rs h).
Proof. intros d rs h Hh. rewrite run_mrun_state. apply history_Inv18_all; [apply init_Inv18|exact Hh]. Qed.

Lemma run_root_first : forall d rs h, root_first (run d rs h).
Proof. intros d rs h. rewrite run_mrun_state. apply Q_root_first, history_Q, init_Q. Qed.

(* S5 — on every reachable state the block-level access paths agree with the tree *)
Section Reach.
  Variables (d : rulekind) (rs : list (bytes * rulekind)) (h : list op).
  Hypothesis Hh : Forall wf_op h.
  Let s := run d rs h.

  Theorem reach_block_read : forall p n, find p (tr s) = Some n ->
    exists l c r, find_sub p (tr s) = Some (Nd n l c r) /\
      b_read (files_of s) (addr n) = Some (main_block n (root_addr l) (root_addr r) (root_addr c), stem n).
  Proof. apply b_read_node. apply run_Inv18. exact Hh. Qed.

  Theorem reach_block_lookup : forall l, b_lru_node (files_of s) l = option_map addr (nodeof s l).
  Proof. intro l. apply b_lru_node_spec; [apply run_Inv18; exact Hh|apply run_root_first]. Qed.

  Theorem reach_block_windup : forall p n, find p (tr s) = Some n ->
    b_windup_lru (files_of s) (addr n) = Some (concat p).
  Proof. apply b_windup_spec. apply run_Inv18. exact Hh. Qed.

  Theorem reach_block_windup_lru : forall l n, wf_lru l -> nodeof s l = Some n ->
    b_windup_lru (files_of s) (addr n) = Some l.
  Proof.
    intros l n Hl Hn. unfold nodeof in Hn. rewrite (reach_block_windup _ _ Hn).
    f_equal. apply lru_iter_concat. exact Hl.
  Qed.

  Theorem reach_block_paths_agree : forall l a, wf_lru l ->
    b_lru_node (files_of s) l = Some a -> b_windup_lru (files_of s) a = Some l.
  Proof. intros l a. apply b_paths_agree; [apply run_Inv18; exact Hh|apply run_root_first]. Qed.
End Reach.

(* the same for the formulation of history_Inv18 *)
Theorem history_block_paths_agree : forall d rs h, Forall (fun o => wf_op o /\ covered o) h ->
  let s := mrun_state h (init d rs) in
  forall l a, wf_lru l -> b_lru_node (files_of s) l = Some a -> b_windup_lru (files_of s) a = Some l.
Proof.
  intros d rs h Hh s l a. apply b_paths_agree.
  - apply history_Inv18; [apply init_Inv18|exact Hh].
  - apply Q_root_first, history_Q, init_Q.
Qed.

Print Assumptions reach_block_read.
Print Assumptions reach_block_lookup.
Print Assumptions reach_block_windup.
Print Assumptions reach_block_paths_agree.
Print Assumptions history_block_paths_agree.
Print Assumptions step_Q.
