(* GenNodeFacts.v — the translated multi-block stem code of LRUTrieNode (GenNode.v, generated
   from /repo/traph/lru_trie/node.py and helpers.detailed_chunks_iter) agrees with the block
   model: detailed_chunks_iter = chunks, set_stem / __set_default_data = main_block,
   write = append of node_blocks, read = b_read (main block + reassembled stem).
   No bound on the stem length anywhere. *)
From Coq Require Import List NArith Bool Lia Arith.
Import ListNotations.
From Traph Require Import Bytes Consts Layout Helpers Tst TstDefs Traph Codec CodecFacts
  GenStorage GenNode TraceDefs Store.
Open Scope N_scope.

Arguments N.shiftr : simpl never.
Arguments N.shiftl : simpl never.
Arguments N.modulo : simpl never.
Arguments N.div : simpl never.
Arguments N.land : simpl never.
Arguments N.lor : simpl never.
Arguments N.mul : simpl never.
Arguments N.add : simpl never.
Arguments N.sub : simpl never.

(* ====================================================================================== *)
(* 1. detailed_chunks_iter                                                                *)
(* ====================================================================================== *)

Lemma skipn_skipn' : forall (A : Type) (a b : nat) (l : list A),
  skipn a (skipn b l) = skipn (b + a) l.
Proof.
  intros A a b; induction b as [|b IH]; intro l; [reflexivity|].
  destruct l as [|x l]; [cbn; apply skipn_nil|]. cbn [skipn Nat.add]. apply IH.
Qed.

(* chunks as an indexed family of slices *)
Lemma chunks_fuel_seq : forall n fuel l,
  chunks_fuel fuel n l =
  map (fun i => firstn n (skipn (i * n) l)) (seq 0 (length (chunks_fuel fuel n l))).
Proof.
  intros n fuel; induction fuel as [|f IH]; intro l; cbn [chunks_fuel].
  - reflexivity.
  - destruct l as [|x l]; [reflexivity|].
    cbn [length seq map]. f_equal.
    rewrite <- seq_shift, map_map.
    rewrite IH at 1. apply map_ext. intro i.
    rewrite skipn_skipn'. reflexivity.
Qed.

Lemma chunks_seq : forall n l, (0 < n)%nat ->
  chunks n l = map (fun i => firstn n (skipn (i * n) l)) (seq 0 ((length l + n - 1) / n)).
Proof.
  intros n l Hn. unfold chunks. rewrite chunks_fuel_seq at 1.
  rewrite chunks_fuel_length by lia. reflexivity.
Qed.

Lemma fold_left_snoc : forall (A B : Type) (f : B -> A) (l : list B) (acc : list A),
  fold_left (fun a x => a ++ [f x]) l acc = acc ++ map f l.
Proof.
  intros A B f l; induction l as [|x l IH]; intro acc; cbn [fold_left map].
  - symmetry. apply app_nil_r.
  - rewrite IH, <- app_assoc. reflexivity.
Qed.

(* the generated function, loop removed *)
Lemma py_detailed_chunks_iter_eq : forall cs s,
  py_detailed_chunks_iter cs s =
  if N.of_nat (length s) <=? cs then [(true, s)]
  else let nb := py_ceil_div (N.of_nat (length s)) cs in
       map (fun c => (c =? nb - 1, GenNode.py_slice (c * cs) (c * cs + cs) s)) (py_range nb).
Proof.
  intros cs s. unfold py_detailed_chunks_iter.
  destruct (N.of_nat (length s) <=? cs); [reflexivity|].
  cbv zeta. rewrite (fold_left_snoc _ _
    (fun c => (c =? py_ceil_div (N.of_nat (length s)) cs - 1,
               GenNode.py_slice (c * cs) (c * cs + cs) s))).
  reflexivity.
Qed.

Lemma py_ceil_div_nat : forall a n, (0 < n)%nat ->
  N.to_nat (py_ceil_div (N.of_nat a) (N.of_nat n)) = ((a + n - 1) / n)%nat.
Proof.
  intros a n Hn. unfold py_ceil_div.
  replace (N.of_nat a + N.of_nat n - 1) with (N.of_nat (a + n - 1)) by lia.
  rewrite <- Nat2N.inj_div. apply Nat2N.id.
Qed.

Lemma py_slice_chunk : forall i n s,
  GenNode.py_slice (N.of_nat i * N.of_nat n) (N.of_nat i * N.of_nat n + N.of_nat n) s =
  firstn n (skipn (i * n) s).
Proof.
  intros i n s. unfold GenNode.py_slice. f_equal; [|f_equal]; lia.
Qed.

(* the chunks, for every chunk size > 0 *)
Theorem py_detailed_chunks_snd : forall n s, (0 < n)%nat ->
  map snd (py_detailed_chunks_iter (N.of_nat n) s) =
  match s with [] => [[]] | _ => chunks n s end.
Proof.
  intros n s Hn. rewrite py_detailed_chunks_iter_eq.
  destruct (N.leb_spec (N.of_nat (length s)) (N.of_nat n)) as [Hle|Hgt].
  - cbn [map snd]. destruct s as [|x s']; [reflexivity|].
    rewrite chunks_seq by assumption.
    replace ((length (x :: s') + n - 1) / n)%nat with 1%nat.
    + cbn [seq map Nat.mul skipn]. rewrite firstn_all2 by lia. reflexivity.
    + symmetry. cbn [length] in *.
      replace (S (length s') + n - 1)%nat with (length s' + 1 * n)%nat by lia.
      rewrite Nat.div_add by lia. rewrite Nat.div_small by lia. reflexivity.
  - cbv zeta. rewrite map_map. cbn [snd]. unfold py_range. rewrite map_map.
    rewrite py_ceil_div_nat by assumption.
    destruct s as [|x s']; [cbn [length] in Hgt; lia|].
    rewrite chunks_seq by assumption.
    apply map_ext. intro i. apply py_slice_chunk.
Qed.

(* the is_last marks: false for all but the last pair, true for the last *)
Lemma map_eqb_last : forall k,
  map (fun i => N.of_nat i =? N.of_nat k) (seq 0 (S k)) = repeat false k ++ [true].
Proof.
  intro k. rewrite seq_S, map_app. cbn [map Nat.add]. rewrite N.eqb_refl. f_equal.
  assert (map (fun i => N.of_nat i =? N.of_nat k) (seq 0 k) = map (fun _ => false) (seq 0 k)) as ->.
  { apply map_ext_in. intros i Hi. apply in_seq in Hi. apply N.eqb_neq. lia. }
  rewrite <- (seq_length k 0) at 2. generalize (seq 0 k). intro l.
  induction l as [|x l IH]; cbn; [reflexivity|]. f_equal. exact IH.
Qed.

Theorem py_detailed_chunks_fst : forall n s, (0 < n)%nat ->
  map fst (py_detailed_chunks_iter (N.of_nat n) s) =
  repeat false (length (py_detailed_chunks_iter (N.of_nat n) s) - 1) ++ [true].
Proof.
  intros n s Hn. rewrite py_detailed_chunks_iter_eq.
  destruct (N.leb_spec (N.of_nat (length s)) (N.of_nat n)) as [Hle|Hgt]; [reflexivity|].
  cbv zeta. rewrite map_length, map_map. cbn [fst]. unfold py_range.
  rewrite map_length, seq_length, map_map.
  assert (1 <= py_ceil_div (N.of_nat (length s)) (N.of_nat n)) as Hnb.
  { unfold py_ceil_div. apply N.div_le_lower_bound; lia. }
  remember (py_ceil_div (N.of_nat (length s)) (N.of_nat n)) as nb eqn:Enb.
  destruct (N.to_nat nb) as [|k] eqn:Ek; [lia|].
  replace (nb - 1) with (N.of_nat k) by lia.
  replace (S k - 1)%nat with k by lia. apply map_eqb_last.
Qed.

Lemma py_detailed_chunks_length : forall n s, (0 < n)%nat ->
  length (py_detailed_chunks_iter (N.of_nat n) s) =
  match s with [] => 1%nat | _ => length (chunks n s) end.
Proof.
  intros n s Hn. rewrite <- (map_length snd), py_detailed_chunks_snd by assumption.
  destruct s; reflexivity.
Qed.

(* both components at the chunk size of the package *)
Theorem py_detailed_chunks_spec : forall s,
  map snd (py_detailed_chunks_iter stem_size s) =
    match s with [] => [[]] | _ => chunks stem_size_nat s end /\
  map fst (py_detailed_chunks_iter stem_size s) =
    repeat false (length (py_detailed_chunks_iter stem_size s) - 1) ++ [true].
Proof.
  intro s. change stem_size with (N.of_nat stem_size_nat). split.
  - apply py_detailed_chunks_snd. vm_compute. lia.
  - apply py_detailed_chunks_fst. vm_compute. lia.
Qed.

(* the same as one list: every chunk paired with "no chunk follows" *)
Fixpoint mark_last (cs : list bytes) : list (bool * bytes) :=
  match cs with
  | [] => []
  | c :: rest => (negb (nonempty rest), c) :: mark_last rest
  end.

Lemma marks_unique : forall (l : list (bool * bytes)),
  map fst l = repeat false (length l - 1) ++ [true] -> l = mark_last (map snd l).
Proof.
  induction l as [|[f c] l IH]; intro H; [reflexivity|].
  cbn [map snd mark_last]. cbn [map fst length] in H.
  destruct l as [|p l'].
  - cbn in H. cbn. injection H as ->. reflexivity.
  - replace (S (length (p :: l')) - 1)%nat with (S (length (p :: l') - 1)) in H
      by (cbn [length]; lia).
    cbn [repeat app] in H. injection H as -> H. f_equal. apply IH. exact H.
Qed.

Theorem py_detailed_chunks_mark : forall s, s <> [] ->
  py_detailed_chunks_iter stem_size s = mark_last (chunks stem_size_nat s).
Proof.
  intros s Hs. destruct (py_detailed_chunks_spec s) as [Hsnd Hfst].
  rewrite (marks_unique _ Hfst), Hsnd. destruct s; [contradiction|reflexivity].
Qed.

(* ====================================================================================== *)
(* 2. __set_default_data / set_stem / stem                                                *)
(* ====================================================================================== *)

Definition default_data : list fval :=
  [VBytes []; VNum default_flags] ++ repeat (VNum 0) node_registers.

(* components: head at pos_stem, flags = default_flags (+ has_tail bit), registers 0 *)
Theorem py_node_set_stem_spec : forall nd st,
  nd_data nd = default_data ->
  let nd' := py_node_set_stem nd st in
  nd_data nd' =
    [VBytes (stem_head st);
     VNum (default_flags + bit (has_tail_of st) flag_has_tail)] ++ repeat (VNum 0) node_registers /\
  nd_tail nd' = (if has_tail_of st then skipn stem_size_nat st else nd_tail nd) /\
  nd_block nd' = nd_block nd /\ nd_exists nd' = nd_exists nd.
Proof.
  intros nd st Hd. cbv zeta. unfold py_node_set_stem, has_tail_of, stem_head.
  change stem_size with 74. change stem_size_nat with 74%nat.
  destruct (N.leb_spec (N.of_nat (length st)) 74) as [Hle|Hgt].
  - assert (Nat.ltb 74 (length st) = false) as -> by (apply Nat.ltb_ge; lia).
    cbn [nd_set_data nd_data nd_tail nd_block nd_exists]. rewrite Hd.
    rewrite firstn_all2 by lia. repeat split.
  - assert (Nat.ltb 74 (length st) = true) as -> by (apply Nat.ltb_lt; lia).
    unfold py_node_flag_as_having_tail.
    cbn [nd_set_data nd_set_tail nd_data nd_tail nd_block nd_exists]. rewrite Hd.
    repeat split.
    unfold GenNode.py_slice. rewrite firstn_all2; [f_equal|rewrite skipn_length]; lia.
Qed.

Theorem py_node_new_node_spec : forall st a,
  let nd := py_node_set_default_data py_node_new (Some st) in
  let d := mkNd a 0 st false false false true 0 0 0 in
  nd_data nd = tblock_vals (main_block d 0 0 0) /\
  nd_tail nd = skipn stem_size_nat st /\
  nd_block nd = None /\ nd_exists nd = false /\
  py_node_stem nd = st.
Proof.
  intros st a. cbv zeta. unfold py_node_set_default_data.
  pose proof (py_node_set_stem_spec
    (nd_set_data ([VBytes []; VNum default_flags] ++ repeat (VNum 0) node_registers) py_node_new)
    st eq_refl) as H. cbv zeta in H.
  destruct H as (Hdata & Htail & Hblk & Hex).
  assert (nd_tail (py_node_set_stem (nd_set_data
            ([VBytes []; VNum default_flags] ++ repeat (VNum 0) node_registers) py_node_new) st)
          = skipn stem_size_nat st) as Htail'.
  { rewrite Htail. unfold has_tail_of.
    destruct (Nat.ltb_spec stem_size_nat (length st)) as [Hlt|Hge]; [reflexivity|].
    cbn [nd_tail nd_set_data py_node_new]. symmetry. apply skipn_all2. exact Hge. }
  repeat split.
  - rewrite Hdata. unfold main_block, flags_of. rewrite tblock_vals_eq.
    cbn [b_stem b_flags b_we b_left b_right b_child b_parent b_out b_in
         stem page crawled rule nochild we par outh inh].
    destruct (has_tail_of st); reflexivity.
  - exact Htail'.
  - rewrite Hblk. reflexivity.
  - rewrite Hex. reflexivity.
  - unfold py_node_stem. rewrite Htail', Hdata. cbn [app nth py_get_bytes pos_stem vbytes].
    unfold py_get_bytes, pos_stem. cbn [nth vbytes]. apply firstn_skipn.
Qed.

(* ====================================================================================== *)
(* 3. write                                                                               *)
(* ====================================================================================== *)

(* the body of the tail loop of write (copied from the generated text; see py_node_write_eq) *)
Definition wr_chunk (sg : py_pm) (it : bool * bytes) : py_pm :=
 let '(v_is_last, v_chunk) := it in
 (let v_data := ([VBytes v_chunk; VNum default_flags] ++ repeat (VNum 0%N) node_registers) in
 (let v_data := py_flag v_data (N.of_nat pos_flags) flag_is_tail in
 (if (negb v_is_last)
 then (let v_data := py_flag v_data (N.of_nat pos_flags) flag_has_tail in
 (let '(sg, _) := py_pm_write sg (pack node_format v_data) None in
 sg))
 else (let '(sg, _) := py_pm_write sg (pack node_format v_data) None in
 sg)))).

Lemma py_node_write_eq : forall nd sg,
  py_node_write nd sg =
  (let '(sg, v_block) := py_pm_write sg (py_node_pack nd) (nd_block nd) in
   let nd := nd_set_block (Some v_block) nd in
   if py_nonempty (nd_tail nd) && negb (nd_exists nd)
   then (nd_set_exists true nd, fold_left wr_chunk (py_detailed_chunks_iter stem_size (nd_tail nd)) sg)
   else (nd_set_exists true nd, sg)).
Proof. intros nd sg. reflexivity. Qed.

Definition tail_block (ch : bytes) (more : bool) : tblock :=
  mkBlk ch (default_flags + bit true flag_is_tail + bit more flag_has_tail) 0 0 0 0 0 0 0.

Lemma wr_chunk_eq : forall sg last ch,
  wr_chunk sg (last, ch) = fst (py_pm_write sg (encode_tblock (tail_block ch (negb last))) None).
Proof. intros sg [|] ch; reflexivity. Qed.

Lemma tail_blocks_cons : forall ch rest,
  tail_blocks (ch :: rest) = tail_block ch (nonempty rest) :: tail_blocks rest.
Proof. reflexivity. Qed.

(* appending one whole block *)
Lemma pm_append_block : forall sg data,
  pm_block_size sg = py_node_block_size -> length data = 128%nat ->
  py_pm_write sg data None =
  (mk_pm py_node_block_size (pm_array sg ++ data) (N.of_nat (length (pm_array sg ++ data))),
   N.of_nat (length (pm_array sg))).
Proof.
  intros sg data Hbs Hlen. unfold py_pm_write. cbn [pm_block_size pm_array pm_cursor].
  rewrite Hbs. change py_node_block_size with 128. rewrite app_length, Hlen.
  f_equal; [f_equal|]; lia.
Qed.

Lemma fold_wr_chunks : forall cs sg,
  pm_block_size sg = py_node_block_size -> pm_cursor sg = N.of_nat (length (pm_array sg)) ->
  fold_left wr_chunk (mark_last cs) sg =
  mk_pm py_node_block_size (pm_array sg ++ flat_map encode_tblock (tail_blocks cs))
        (N.of_nat (length (pm_array sg ++ flat_map encode_tblock (tail_blocks cs)))).
Proof.
  induction cs as [|ch rest IH]; intros sg Hbs Hcur.
  - cbn [mark_last fold_left tail_blocks flat_map]. rewrite app_nil_r.
    destruct sg as [bs arr cur]. cbn in *. subst. reflexivity.
  - cbn [mark_last fold_left]. rewrite wr_chunk_eq, negb_involutive.
    rewrite pm_append_block by (try apply encode_tblock_length; assumption).
    cbn [fst]. rewrite IH by reflexivity. cbn [pm_array].
    rewrite tail_blocks_cons. cbn [flat_map]. rewrite <- !app_assoc. reflexivity.
Qed.

(* first write of a node: the main block and the tail blocks are appended *)
Theorem py_node_write_new_gen : forall nd sg b,
  nd_block nd = None -> nd_exists nd = false -> nd_data nd = tblock_vals b ->
  pm_block_size sg = py_node_block_size ->
  let arr' := pm_array sg ++ encode_tblock b ++
              flat_map encode_tblock (tail_blocks (chunks stem_size_nat (nd_tail nd))) in
  py_node_write nd sg =
  (mk_nd (Some (N.of_nat (length (pm_array sg)))) true (nd_tail nd) (nd_data nd),
   mk_pm py_node_block_size arr' (N.of_nat (length arr'))).
Proof.
  intros [blk ex tl dt] sg b Hblk Hex Hdata Hbs. cbn in Hblk, Hex, Hdata. subst blk ex dt.
  cbv zeta. rewrite py_node_write_eq.
  unfold py_node_pack. cbn [nd_block nd_data nd_tail]. fold (encode_tblock b).
  rewrite pm_append_block by (try apply encode_tblock_length; assumption).
  cbn [nd_set_block nd_tail nd_exists nd_data nd_set_exists nd_block negb].
  rewrite andb_true_r. destruct tl as [|x t].
  - cbn [py_nonempty]. cbn [chunks chunks_fuel length tail_blocks flat_map].
    rewrite !app_nil_r. reflexivity.
  - cbn [py_nonempty]. rewrite py_detailed_chunks_mark by discriminate.
    rewrite fold_wr_chunks by reflexivity. cbn [pm_array]. rewrite <- !app_assoc. reflexivity.
Qed.

(* the requested form; the hypotheses on b_stem and on the has_tail bit of b are not needed *)
Theorem py_node_write_new : forall nd sg b st,
  nd_block nd = None -> nd_exists nd = false -> nd_data nd = tblock_vals b ->
  nd_tail nd = skipn stem_size_nat st ->
  pm_block_size sg = py_node_block_size ->
  let nd' := fst (py_node_write nd sg) in
  let sg' := snd (py_node_write nd sg) in
  pm_array sg' = pm_array sg ++ encode_tblock b ++
                 flat_map encode_tblock (tail_blocks (stem_tail_chunks st)) /\
  pm_block_size sg' = pm_block_size sg /\
  pm_cursor sg' = N.of_nat (length (pm_array sg')) /\
  nd_block nd' = Some (N.of_nat (length (pm_array sg))) /\ nd_exists nd' = true /\
  nd_tail nd' = nd_tail nd /\ nd_data nd' = nd_data nd.
Proof.
  intros nd sg b st Hblk Hex Hdata Htail Hbs. cbv zeta.
  rewrite (py_node_write_new_gen nd sg b Hblk Hex Hdata Hbs). cbv zeta. cbn [fst snd].
  cbn [pm_array pm_block_size pm_cursor nd_block nd_exists nd_tail nd_data].
  rewrite Htail. fold (stem_tail_chunks st). rewrite Hbs. repeat split.
Qed.

(* a brand-new node: LRUTrieNode(storage, stem=st).write() appends node_blocks *)
Corollary py_node_write_brand_new : forall sg st,
  pm_block_size sg = py_node_block_size ->
  let nd := py_node_set_default_data py_node_new (Some st) in
  let a := N.of_nat (length (pm_array sg)) in
  let d := mkNd a 0 st false false false true 0 0 0 in
  let nd' := fst (py_node_write nd sg) in
  let sg' := snd (py_node_write nd sg) in
  pm_array sg' = pm_array sg ++ flat_map encode_tblock (node_blocks d 0 0 0) /\
  pm_block_size sg' = pm_block_size sg /\
  pm_cursor sg' = N.of_nat (length (pm_array sg')) /\
  nd_block nd' = Some a /\ nd_exists nd' = true /\
  nd_tail nd' = nd_tail nd /\ nd_data nd' = nd_data nd /\ py_node_stem nd' = st.
Proof.
  intros sg st Hbs. cbv zeta.
  destruct (py_node_new_node_spec st (N.of_nat (length (pm_array sg))))
    as (Hdata & Htail & Hblk & Hex & Hstem).
  destruct (py_node_write_new _ sg _ st Hblk Hex Hdata Htail Hbs)
    as (Harr & Hbs' & Hcur & Hb' & He' & Ht' & Hd').
  repeat split; try assumption.
  unfold py_node_stem. rewrite Ht', Hd'. exact Hstem.
Qed.

(* later writes of the same node: one block overwritten in place, no tail written *)
Theorem py_node_write_existing_gen : forall nd sg a,
  nd_exists nd = true -> nd_block nd = Some a -> pm_block_size sg = py_node_block_size ->
  py_node_write nd sg =
  (nd,
   mk_pm py_node_block_size
     (firstn (N.to_nat a) (pm_array sg) ++ pack node_format (nd_data nd) ++
      skipn (N.to_nat a + 128) (pm_array sg))
     (a + N.of_nat (length (pack node_format (nd_data nd))))).
Proof.
  intros [blk ex tl dt] sg a Hex Hblk Hbs. cbn [nd_exists nd_block] in Hex, Hblk. subst ex blk.
  rewrite py_node_write_eq. cbn [nd_block nd_data].
  unfold py_pm_write, py_node_pack. cbn [pm_block_size pm_array pm_cursor].
  cbn [nd_set_block nd_tail nd_exists nd_set_exists nd_data nd_block]. rewrite andb_false_r.
  rewrite Hbs. unfold py_slice_assign. change py_node_block_size with 128.
  replace (N.to_nat (N.max a (a + 128))) with (N.to_nat a + 128)%nat by lia.
  reflexivity.
Qed.

Theorem py_node_write_existing : forall nd sg a b,
  nd_exists nd = true -> nd_block nd = Some a -> nd_data nd = tblock_vals b ->
  pm_block_size sg = py_node_block_size ->
  a + 128 <= N.of_nat (length (pm_array sg)) ->
  let nd' := fst (py_node_write nd sg) in
  let sg' := snd (py_node_write nd sg) in
  nd' = nd /\
  length (pm_array sg') = length (pm_array sg) /\
  firstn (N.to_nat a) (pm_array sg') = firstn (N.to_nat a) (pm_array sg) /\
  GenStorage.py_slice a (a + 128) (pm_array sg') = encode_tblock b /\
  skipn (N.to_nat a + 128) (pm_array sg') = skipn (N.to_nat a + 128) (pm_array sg) /\
  pm_block_size sg' = pm_block_size sg /\ pm_cursor sg' = a + 128.
Proof.
  intros nd sg a b Hex Hblk Hdata Hbs Hlen. cbv zeta.
  rewrite (py_node_write_existing_gen nd sg a Hex Hblk Hbs). cbn [fst snd pm_array pm_block_size pm_cursor].
  rewrite Hdata. fold (encode_tblock b).
  assert (length (firstn (N.to_nat a) (pm_array sg)) = N.to_nat a) as Hf
    by (rewrite firstn_length; lia).
  pose proof (encode_tblock_length b) as He.
  repeat split.
  - rewrite !app_length, Hf, He, skipn_length. lia.
  - rewrite firstn_app, Hf, Nat.sub_diag. cbn [firstn]. rewrite app_nil_r.
    rewrite firstn_firstn. f_equal. lia.
  - unfold GenStorage.py_slice. replace (N.to_nat (a + 128 - a)) with 128%nat by lia.
    rewrite skipn_app, Hf, Nat.sub_diag. rewrite skipn_all2 by lia. cbn [app skipn].
    rewrite firstn_app, He, Nat.sub_diag, firstn_O, app_nil_r.
    apply firstn_all2. lia.
  - rewrite app_assoc. rewrite skipn_app. rewrite skipn_all2 by (rewrite app_length; lia).
    rewrite app_length, Hf, He, Nat.sub_diag. reflexivity.
  - symmetry. exact Hbs.
  - rewrite He. reflexivity.
Qed.

(* ====================================================================================== *)
(* 4. read                                                                                *)
(* ====================================================================================== *)

(* the hypotheses of CodecFacts.tblock_roundtrip, as a predicate *)
Definition blk_encodable (b : tblock) : Prop :=
  (length (b_stem b) <= 74)%nat /\ b_flags b < 256 /\ b_we b < 2 ^ 32 /\
  b_left b < 2 ^ 64 /\ b_right b < 2 ^ 64 /\ b_child b < 2 ^ 64 /\
  b_parent b < 2 ^ 64 /\ b_out b < 2 ^ 64 /\ b_in b < 2 ^ 64.

Lemma blk_encodable_roundtrip : forall b, blk_encodable b -> decode_tblock (encode_tblock b) = b.
Proof. intros b (H1 & H2 & H3 & H4 & H5 & H6 & H7 & H8 & H9). apply tblock_roundtrip; assumption. Qed.

Theorem unpack_encode_tblock : forall b, blk_encodable b ->
  unpack node_format (encode_tblock b) = tblock_vals b.
Proof.
  intros [st fl w l r c p o i]. unfold blk_encodable.
  cbn [b_stem b_flags b_we b_left b_right b_child b_parent b_out b_in].
  intros (Hst & Hfl & Hw & Hl & Hr & Hc & Hp & Ho & Hi).
  rewrite encode_tblock_eq, tblock_vals_eq. unfold tblock_bytes, unpack.
  cbn [b_stem b_flags b_we b_left b_right b_child b_parent b_out b_in].
  rewrite node_fields_eq, node_layout_eq.
  cbn [map fsize]. unfold slice.
  change (N.to_nat 0) with 0%nat. change (N.to_nat 1) with 1%nat. change (N.to_nat 4) with 4%nat.
  change (N.to_nat 8) with 8%nat. change (N.to_nat 75) with 75%nat. change (N.to_nat 76) with 76%nat.
  change (N.to_nat 80) with 80%nat. change (N.to_nat 88) with 88%nat. change (N.to_nat 96) with 96%nat.
  change (N.to_nat 104) with 104%nat. change (N.to_nat 112) with 112%nat. change (N.to_nat 120) with 120%nat.
  peel. cbn [dec_item].
  rewrite pascal_roundtrip by (change (N.to_nat 75) with 75%nat; lia).
  rewrite (le_roundtrip 1) by exact Hfl.
  rewrite (le_roundtrip 4) by exact Hw.
  rewrite !(le_roundtrip 8) by assumption.
  reflexivity.
Qed.

(* test(data, FLAGS, HAS_TAIL) on the values of a block is the has_tail bit of the block *)
Lemma py_test_testbit : forall x pos, negb (N.land (N.shiftr x pos) 1 =? 0) = N.testbit x pos.
Proof.
  intros x pos. change 1 with (N.ones 1) at 1. rewrite N.land_ones.
  change (2 ^ 1) with 2. rewrite <- N.bit0_mod, N.shiftr_spec', N.add_0_l.
  destruct (N.testbit x pos); reflexivity.
Qed.

Lemma py_test_has_tail : forall b,
  py_test (tblock_vals b) (N.of_nat pos_flags) flag_has_tail = blk_has_tail b.
Proof.
  intro b. unfold py_test, blk_has_tail.
  change (py_get_num (N.to_nat (N.of_nat pos_flags)) (tblock_vals b)) with (b_flags b).
  apply py_test_testbit.
Qed.

Lemma py_get_stem : forall b, py_get_bytes pos_stem (tblock_vals b) = b_stem b.
Proof. intro b. reflexivity. Qed.

(* the tail loop of read (copied from the generated text; see py_node_read_eq) *)
Fixpoint rd_loop (fuel : nat) (st : (py_pm * list bytes)) {struct fuel} : (py_pm * list bytes) :=
 match fuel with
 | O => st
 | S fuel' =>
 let '(sg, v_chunks) := st in
 (let '(sg, v_tail_data) := py_pm_read sg None in
 (match v_tail_data with
 | None => (sg, v_chunks)
 | Some v_tail_data => (let v_data := (unpack node_format v_tail_data) in
 (let v_chars := (py_get_bytes pos_stem v_data) in
 (let v_chunks := v_chunks ++ [v_chars] in
 (if (negb (py_test v_data (N.of_nat pos_flags) flag_has_tail))
 then (sg, v_chunks)
 else (rd_loop fuel' (sg, v_chunks)))))) end))
 end.

Lemma py_node_read_eq : forall nd sg a,
  py_node_read nd sg a =
  (let '(sg, v_data) := py_pm_read sg (Some a) in
   match v_data with
   | None => (nd_set_tail [] (py_node_set_default_data (nd_set_exists false nd) None), sg)
   | Some v_data =>
       let nd := nd_set_tail [] (nd_set_block (Some a)
                   (nd_set_data (unpack node_format v_data) (nd_set_exists true nd))) in
       if py_node_has_tail nd
       then let '(sg, v_chunks) := rd_loop (S (length (pm_array sg))) (sg, []) in
            (nd_set_tail (concat v_chunks) nd, sg)
       else (nd, sg)
   end).
Proof. intros nd sg a. reflexivity. Qed.

(* the stored stem continuation, without fuel: stems of the following blocks while the
   previous one carries the has_tail bit, stopping at the end of the file *)
Fixpoint tail_of (bs : list tblock) : bytes :=
  match bs with
  | [] => []
  | b :: r => b_stem b ++ (if blk_has_tail b then tail_of r else [])
  end.

(* --- slicing a file made of a 128-byte header and encoded blocks --- *)
Lemma skipn_blocks : forall j bs,
  skipn (128 * j) (flat_map encode_tblock bs) = flat_map encode_tblock (skipn j bs).
Proof.
  induction j as [|j IH]; intro bs.
  - reflexivity.
  - destruct bs as [|b r].
    + cbn [flat_map skipn]. apply skipn_nil.
    + cbn [flat_map]. rewrite skipn_app.
      rewrite skipn_all2 by (rewrite encode_tblock_length; lia).
      rewrite encode_tblock_length. cbn [app skipn].
      replace (128 * S j - 128)%nat with (128 * j)%nat by lia. apply IH.
Qed.

Lemma nth_error_skipn_hd : forall (A : Type) j (l : list A), nth_error l j = hd_error (skipn j l).
Proof.
  intros A; induction j as [|j IH]; intro l; destruct l as [|x l]; try reflexivity. apply IH.
Qed.

Lemma skipn_S_tl : forall (A : Type) j (l : list A), skipn (S j) l = tl (skipn j l).
Proof.
  intros A; induction j as [|j IH]; intro l; destruct l as [|x l]; try reflexivity.
  apply (IH l).
Qed.

Definition blk_off (j : nat) : N := bsz * N.of_nat (S j).

Lemma slice_block : forall hdr bs j, length hdr = 128%nat ->
  GenStorage.py_slice (blk_off j) (blk_off j + py_node_block_size) (hdr ++ flat_map encode_tblock bs) =
  match nth_error bs j with Some b => encode_tblock b | None => [] end.
Proof.
  intros hdr bs j Hh. unfold GenStorage.py_slice, blk_off, bsz. change py_node_block_size with 128.
  replace (N.to_nat (128 * N.of_nat (S j) + 128 - 128 * N.of_nat (S j))) with 128%nat by lia.
  replace (N.to_nat (128 * N.of_nat (S j))) with (128 + 128 * j)%nat by lia.
  rewrite skipn_app, skipn_all2 by lia. rewrite Hh. cbn [app].
  replace (128 + 128 * j - 128)%nat with (128 * j)%nat by lia.
  rewrite skipn_blocks, nth_error_skipn_hd.
  destruct (skipn j bs) as [|b r]; cbn [hd_error flat_map].
  - apply firstn_nil.
  - rewrite firstn_app, encode_tblock_length, Nat.sub_diag, firstn_O, app_nil_r.
    apply firstn_all2. rewrite encode_tblock_length. lia.
Qed.

Lemma encode_tblock_nonempty : forall b, py_or_none (encode_tblock b) = Some (encode_tblock b).
Proof.
  intro b. pose proof (encode_tblock_length b) as H.
  destruct (encode_tblock b); [discriminate H|reflexivity].
Qed.

Lemma blk_off_next : forall j, blk_off j + py_node_block_size = blk_off (S j).
Proof. intro j. unfold blk_off, bsz. change py_node_block_size with 128. lia. Qed.

Lemma blk_off_eq : forall j, blk_off j = 128 * (1 + N.of_nat j).
Proof. intro j. unfold blk_off, bsz. change py_node_block_size with 128. lia. Qed.

(* sequential read at a block boundary *)
Lemma pm_read_next : forall sg hdr bs j,
  pm_block_size sg = py_node_block_size -> pm_array sg = hdr ++ flat_map encode_tblock bs ->
  length hdr = 128%nat -> pm_cursor sg = blk_off j ->
  py_pm_read sg None =
  (mk_pm py_node_block_size (pm_array sg) (blk_off (S j)),
   match nth_error bs j with Some b => Some (encode_tblock b) | None => None end).
Proof.
  intros sg hdr bs j Hbs Harr Hh Hcur. unfold py_pm_read.
  cbn [pm_block_size pm_array pm_cursor]. rewrite Hbs, Hcur, blk_off_next. f_equal.
  rewrite <- blk_off_next, Harr, slice_block by assumption.
  destruct (nth_error bs j); [apply encode_tblock_nonempty|reflexivity].
Qed.

Lemma pm_read_at : forall sg hdr bs j,
  pm_block_size sg = py_node_block_size -> pm_array sg = hdr ++ flat_map encode_tblock bs ->
  length hdr = 128%nat ->
  py_pm_read sg (Some (blk_off j)) =
  (mk_pm py_node_block_size (pm_array sg) (blk_off (S j)),
   match nth_error bs j with Some b => Some (encode_tblock b) | None => None end).
Proof.
  intros sg hdr bs j Hbs Harr Hh. unfold py_pm_read.
  cbn [pm_block_size pm_array pm_cursor]. rewrite Hbs, blk_off_next. f_equal.
  rewrite <- blk_off_next, Harr, slice_block by assumption.
  destruct (nth_error bs j); [apply encode_tblock_nonempty|reflexivity].
Qed.

(* the loop: each iteration consumes one block, so fuel >= number of remaining blocks is enough *)
Lemma rd_loop_spec : forall hdr bs, length hdr = 128%nat -> Forall blk_encodable bs ->
  forall fuel sg j acc,
  pm_block_size sg = py_node_block_size -> pm_array sg = hdr ++ flat_map encode_tblock bs ->
  pm_cursor sg = blk_off j -> (length bs <= fuel + j)%nat ->
  let r := rd_loop fuel (sg, acc) in
  pm_array (fst r) = pm_array sg /\ pm_block_size (fst r) = py_node_block_size /\
  concat (snd r) = concat acc ++ tail_of (skipn j bs).
Proof.
  intros hdr bs Hh Henc. induction fuel as [|k IH]; intros sg j acc Hbs Harr Hcur Hfuel; cbv zeta.
  - cbn [rd_loop fst snd]. rewrite skipn_all2 by lia. cbn [tail_of]. rewrite app_nil_r.
    repeat split. exact Hbs.
  - cbn [rd_loop]. rewrite (pm_read_next sg hdr bs j Hbs Harr Hh Hcur).
    rewrite (nth_error_skipn_hd _ j bs).
    assert (Forall blk_encodable (skipn j bs)) as Henc'.
    { rewrite <- (firstn_skipn j bs) in Henc. apply Forall_app in Henc. apply Henc. }
    pose proof (skipn_S_tl _ j bs) as Hnext.
    destruct (skipn j bs) as [|b rest] eqn:Esk; cbn [hd_error].
    + cbn [fst snd pm_array pm_block_size tail_of]. rewrite app_nil_r. repeat split.
    + inversion Henc' as [|b' rest' Hb Hrest]; subst b' rest'.
      cbv zeta. rewrite (unpack_encode_tblock b Hb), py_test_has_tail, py_get_stem.
      cbn [tail_of]. destruct (blk_has_tail b) eqn:Eht; cbn [negb].
      * specialize (IH (mk_pm py_node_block_size (pm_array sg) (blk_off (S j))) (S j)
                       (acc ++ [b_stem b]) eq_refl Harr eq_refl ltac:(lia)).
        cbv zeta in IH. cbn [pm_array] in IH. destruct IH as (IH1 & IH2 & IH3).
        repeat split; [exact IH1|exact IH2|].
        rewrite IH3, Hnext. cbn [tl]. rewrite concat_app. cbn [concat].
        rewrite app_nil_r, <- app_assoc. reflexivity.
      * cbn [fst snd pm_array pm_block_size]. rewrite concat_app. cbn [concat].
        rewrite !app_nil_r. repeat split.
Qed.

(* --- the block-level reader of Store.v in the same terms --- *)
Lemma blk_at_off : forall f j, blk_at f (blk_off j) = nth_error (ft f) j.
Proof.
  intros f j. unfold blk_at, blk_off.
  assert (bsz * N.of_nat (S j) mod bsz = 0) as ->.
  { rewrite N.mul_comm. apply N.mod_mul. discriminate. }
  assert (bsz <=? bsz * N.of_nat (S j) = true) as ->.
  { apply N.leb_le. unfold bsz. change py_node_block_size with 128. lia. }
  cbn [N.eqb andb]. unfold tidx.
  rewrite N.mul_comm, N.div_mul by discriminate. f_equal. lia.
Qed.

Lemma tails_tail_of : forall f fuel j, (length (ft f) <= fuel + j)%nat ->
  tails fuel f (blk_off j) = tail_of (skipn j (ft f)).
Proof.
  intros f; induction fuel as [|k IH]; intros j Hfuel.
  - cbn [tails]. rewrite skipn_all2 by lia. reflexivity.
  - cbn [tails]. rewrite blk_at_off, (nth_error_skipn_hd _ j (ft f)).
    pose proof (skipn_S_tl _ j (ft f)) as Hnext.
    destruct (skipn j (ft f)) as [|b rest] eqn:Esk; cbn [hd_error]; [reflexivity|].
    cbn [tail_of]. f_equal. destruct (blk_has_tail b); [|reflexivity].
    change (blk_off j + bsz) with (blk_off j + py_node_block_size).
    rewrite blk_off_next, IH by lia. rewrite Hnext. reflexivity.
Qed.

Lemma b_read_off : forall f j b, nth_error (ft f) j = Some b ->
  b_read f (blk_off j) =
  Some (b, b_stem b ++ (if blk_has_tail b then tail_of (skipn (S j) (ft f)) else [])).
Proof.
  intros f j b Hn. unfold b_read. rewrite blk_at_off, Hn.
  change (blk_off j + bsz) with (blk_off j + py_node_block_size).
  rewrite blk_off_next, tails_tail_of; [reflexivity|].
  assert (j < length (ft f))%nat by (apply nth_error_Some; congruence). lia.
Qed.

(* node.read(block) on an existing data block *)
Theorem py_node_read_spec : forall nd0 sg hdr f i b,
  pm_block_size sg = py_node_block_size ->
  pm_array sg = hdr ++ flat_map encode_tblock (ft f) -> length hdr = 128%nat ->
  Forall blk_encodable (ft f) -> nth_error (ft f) i = Some b ->
  let a := blk_off i in
  let r := py_node_read nd0 sg a in
  nd_exists (fst r) = true /\ nd_block (fst r) = Some a /\ nd_data (fst r) = tblock_vals b /\
  nd_tail (fst r) = (if blk_has_tail b then tail_of (skipn (S i) (ft f)) else []) /\
  b_read f a = Some (b, py_node_stem (fst r)) /\
  pm_array (snd r) = pm_array sg /\ pm_block_size (snd r) = pm_block_size sg.
Proof.
  intros nd0 sg hdr f i b Hbs Harr Hh Henc Hn. cbv zeta.
  rewrite py_node_read_eq, (pm_read_at sg hdr (ft f) i Hbs Harr Hh), Hn.
  assert (blk_encodable b) as Hb.
  { rewrite Forall_forall in Henc. apply Henc. eapply nth_error_In. exact Hn. }
  cbv zeta. rewrite (unpack_encode_tblock b Hb).
  unfold py_node_has_tail. cbn [nd_data nd_set_tail nd_set_block nd_set_data nd_set_exists
    nd_block nd_exists nd_tail].
  rewrite py_test_has_tail, (b_read_off f i b Hn).
  destruct (blk_has_tail b) eqn:Eht.
  - pose proof (rd_loop_spec hdr (ft f) Hh Henc
      (S (length (pm_array (mk_pm py_node_block_size (pm_array sg) (blk_off (S i))))))
      (mk_pm py_node_block_size (pm_array sg) (blk_off (S i))) (S i) [] eq_refl Harr eq_refl) as HL.
    cbv zeta in HL. cbn [pm_array] in HL.
    assert (length (ft f) <= S (length (pm_array sg)) + S i)%nat as Hfuel.
    { rewrite Harr, app_length. clear. induction (ft f) as [|x l IHl]; cbn [flat_map length]; [lia|].
      rewrite app_length, encode_tblock_length. lia. }
    specialize (HL Hfuel). cbn [pm_array].
    destruct (rd_loop (S (length (pm_array sg)))
               (mk_pm py_node_block_size (pm_array sg) (blk_off (S i)), [])) as [sg2 chs].
    cbn [fst snd] in HL. destruct HL as (HL1 & HL2 & HL3). cbn [concat app] in HL3.
    cbn [fst snd nd_exists nd_block nd_data nd_tail nd_set_tail]. unfold py_node_stem.
    cbn [nd_data nd_tail nd_block nd_exists nd_set_tail nd_set_block nd_set_data nd_set_exists].
    rewrite py_get_stem, HL3, Hbs. repeat split; assumption.
  - cbn [fst snd nd_exists nd_block nd_data nd_tail pm_array pm_block_size]. unfold py_node_stem.
    cbn [nd_data nd_tail nd_block nd_exists nd_set_tail nd_set_block nd_set_data nd_set_exists].
    rewrite py_get_stem, Hbs. repeat split.
Qed.

(* node.read(block) at or beyond the end of the file: the node does not exist *)
Theorem py_node_read_absent : forall nd0 sg a,
  N.of_nat (length (pm_array sg)) <= a ->
  let r := py_node_read nd0 sg a in
  nd_exists (fst r) = false /\ nd_block (fst r) = nd_block nd0 /\
  nd_data (fst r) = default_data /\ nd_tail (fst r) = [] /\
  pm_array (snd r) = pm_array sg /\ pm_block_size (snd r) = pm_block_size sg.
Proof.
  intros nd0 sg a Ha. cbv zeta. rewrite py_node_read_eq. unfold py_pm_read.
  cbn [pm_array pm_block_size pm_cursor].
  unfold GenStorage.py_slice. rewrite skipn_all2 by lia. rewrite firstn_nil.
  cbn [py_or_none fst snd]. repeat split.
Qed.

(* ====================================================================================== *)
(* 5. write then read: the stem of any length comes back                                  *)
(* ====================================================================================== *)

Lemma main_block_has_tail : forall d la ra ca,
  blk_has_tail (main_block d la ra ca) = has_tail_of (stem d).
Proof.
  intros d la ra ca. unfold blk_has_tail, main_block, flags_of. cbn [b_flags].
  destruct (page d), (crawled d), (rule d), (has_tail_of (stem d)), (nochild d); reflexivity.
Qed.

Lemma tail_block_has_tail : forall ch more, blk_has_tail (tail_block ch more) = more.
Proof. intros ch [|]; reflexivity. Qed.

Lemma tail_of_tail_blocks : forall cs, tail_of (tail_blocks cs) = concat cs.
Proof.
  induction cs as [|ch rest IH]; [reflexivity|].
  rewrite tail_blocks_cons. cbn [tail_of concat]. rewrite tail_block_has_tail.
  change (b_stem (tail_block ch (nonempty rest))) with ch. f_equal.
  destruct rest as [|c r]; [reflexivity|]. cbn [nonempty]. exact IH.
Qed.

Lemma tail_blocks_encodable : forall cs, (forall c, In c cs -> (length c <= 74)%nat) ->
  Forall blk_encodable (tail_blocks cs).
Proof.
  induction cs as [|ch rest IH]; intro Hlen; [constructor|].
  rewrite tail_blocks_cons. constructor.
  - unfold blk_encodable, tail_block.
    cbn [b_stem b_flags b_we b_left b_right b_child b_parent b_out b_in].
    split; [apply Hlen; left; reflexivity|].
    repeat split. destruct rest; reflexivity.
  - apply IH. intros c Hc. apply Hlen. right. exact Hc.
Qed.

Lemma new_node_blocks_encodable : forall a st,
  Forall blk_encodable (node_blocks (mkNd a 0 st false false false true 0 0 0) 0 0 0).
Proof.
  intros a st. unfold node_blocks. constructor.
  - unfold blk_encodable, main_block, flags_of.
    cbn [b_stem b_flags b_we b_left b_right b_child b_parent b_out b_in
         stem page crawled rule nochild we par outh inh].
    split; [unfold stem_head; rewrite firstn_length; change stem_size_nat with 74%nat; lia|].
    generalize (has_tail_of st). intros [|]; repeat split.
  - apply tail_blocks_encodable. intros c Hc. cbn [stem] in Hc. unfold stem_tail_chunks in Hc.
    apply chunks_each in Hc; [|vm_compute; lia]. change stem_size_nat with 74%nat in Hc. lia.
Qed.

Lemma flat_blocks_length : forall bs,
  length (flat_map encode_tblock bs) = (128 * length bs)%nat.
Proof.
  induction bs as [|b r IH]; [reflexivity|].
  cbn [flat_map length]. rewrite app_length, encode_tblock_length, IH. lia.
Qed.

Theorem py_node_write_read_roundtrip : forall nd0 sg hdr f st,
  pm_block_size sg = py_node_block_size ->
  pm_array sg = hdr ++ flat_map encode_tblock (ft f) -> length hdr = 128%nat ->
  Forall blk_encodable (ft f) ->
  let nd := py_node_set_default_data py_node_new (Some st) in
  let sg' := snd (py_node_write nd sg) in
  let a := N.of_nat (length (pm_array sg)) in
  let r := py_node_read nd0 sg' a in
  py_node_stem (fst r) = st /\ nd_exists (fst r) = true /\ nd_block (fst r) = Some a /\
  nd_data (fst r) = nd_data nd /\ nd_tail (fst r) = nd_tail nd.
Proof.
  intros nd0 sg hdr f st Hbs Harr Hh Henc. cbv zeta.
  destruct (py_node_write_brand_new sg st Hbs) as (Hw1 & Hw2 & _).
  destruct (py_node_new_node_spec st (N.of_nat (length (pm_array sg))))
    as (Hdata & Htail & _ & _ & _).
  set (d := mkNd (N.of_nat (length (pm_array sg))) 0 st false false false true 0 0 0) in *.
  set (sg' := snd (py_node_write (py_node_set_default_data py_node_new (Some st)) sg)) in *.
  set (f' := mkFiles (ft f ++ node_blocks d 0 0 0) (fhdr f) (fl f)).
  assert (N.of_nat (length (pm_array sg)) = blk_off (length (ft f))) as Ha.
  { rewrite Harr, app_length, flat_blocks_length, Hh. unfold blk_off, bsz.
    change py_node_block_size with 128. lia. }
  assert (pm_array sg' = hdr ++ flat_map encode_tblock (ft f')) as Harr'.
  { rewrite Hw1, Harr. cbn [ft f']. rewrite flat_map_app, app_assoc. reflexivity. }
  assert (nth_error (ft f') (length (ft f)) = Some (main_block d 0 0 0)) as Hn.
  { cbn [ft f']. rewrite nth_error_app2 by lia. rewrite Nat.sub_diag. reflexivity. }
  assert (Forall blk_encodable (ft f')) as Henc'.
  { cbn [ft f']. apply Forall_app. split; [exact Henc|apply new_node_blocks_encodable]. }
  rewrite Ha.
  destruct (py_node_read_spec nd0 sg' hdr f' (length (ft f)) _
              (eq_trans Hw2 Hbs) Harr' Hh Henc' Hn) as (R1 & R2 & R3 & R4 & _).
  assert (nd_tail (fst (py_node_read nd0 sg' (blk_off (length (ft f))))) = skipn stem_size_nat st)
    as Rtail.
  { rewrite R4, main_block_has_tail. cbn [stem d].
    assert (skipn (S (length (ft f))) (ft f') = tail_blocks (stem_tail_chunks st)) as ->.
    { cbn [ft f']. rewrite skipn_app, skipn_all2 by lia.
      replace (S (length (ft f)) - length (ft f))%nat with 1%nat by lia. reflexivity. }
    rewrite tail_of_tail_blocks. unfold stem_tail_chunks.
    rewrite chunks_concat by (vm_compute; lia).
    unfold has_tail_of. destruct (Nat.ltb_spec stem_size_nat (length st)) as [Hlt|Hge];
      [reflexivity|]. symmetry. apply skipn_all2. exact Hge. }
  repeat split.
  - unfold py_node_stem. rewrite R3, Rtail, py_get_stem. cbn [b_stem main_block stem d].
    apply firstn_skipn.
  - exact R1.
  - exact R2.
  - rewrite R3. symmetry. exact Hdata.
  - rewrite Rtail. symmetry. exact Htail.
Qed.

Print Assumptions py_detailed_chunks_spec.
Print Assumptions py_detailed_chunks_mark.
Print Assumptions py_node_set_stem_spec.
Print Assumptions py_node_new_node_spec.
Print Assumptions py_node_write_new_gen.
Print Assumptions py_node_write_new.
Print Assumptions py_node_write_brand_new.
Print Assumptions py_node_write_existing_gen.
Print Assumptions py_node_write_existing.
Print Assumptions unpack_encode_tblock.
Print Assumptions py_node_read_spec.
Print Assumptions py_node_read_absent.
Print Assumptions py_node_write_read_roundtrip.
