(* QueryLinks3.v — Q07: the webentity network (fast and slow walks) and the page tallies. *)
From Coq Require Import List NArith Bool Lia Arith Permutation.
Import ListNotations.
From Traph Require Import Bytes Consts Helpers Rules Tst TstDefs Traph Spec Ops RefDefs TstFacts
     QueryCore QueryCore2 QueryCore3 TopkFacts QueryLinks.
Open Scope N_scope.

(* ====================================================================== *)
(* Folds of gincr are sums                                                 *)
(* ====================================================================== *)
Definition gkey := (N * N * N)%type.
Definition keqb (k k' : gkey) : bool :=
  (fst (fst k) =? fst (fst k')) && (snd (fst k) =? snd (fst k')) && (snd k =? snd k').

Lemma keqb_eq : forall k k', keqb k k' = true <-> k = k'.
Proof.
  intros [[a b] c] [[a' b'] c']. unfold keqb. cbn [fst snd].
  rewrite !andb_true_iff, !N.eqb_eq. split.
  - intros [[-> ->] ->]. reflexivity.
  - intro E. inversion E. auto.
Qed.

Lemma keqb_refl : forall k, keqb k k = true.
Proof. intro k. apply keqb_eq. reflexivity. Qed.

Lemma keqb_sym : forall k k', keqb k k' = keqb k' k.
Proof.
  intros k k'. destruct (keqb k k') eqn:E.
  - apply keqb_eq in E. subst k'. symmetry. apply keqb_refl.
  - destruct (keqb k' k) eqn:E'; [|reflexivity]. apply keqb_eq in E'. subst k'.
    rewrite keqb_refl in E. discriminate.
Qed.

Lemma gincr_cons : forall k v k' v' g,
  gincr k v ((k', v') :: g) = if keqb k k' then (k', v' + v) :: g else (k', v') :: gincr k v g.
Proof. intros [[a b] c] v [[a' b'] c'] v' g. reflexivity. Qed.

Lemma gincr_nil : forall k v, gincr k v [] = [(k, v)].
Proof. intros [[a b] c] v. reflexivity. Qed.

(* the value stored under a key (0 when absent) *)
Definition gget (k : gkey) (g : list (gkey * N)) : N :=
  sumf (fun kv => if keqb (fst kv) k then snd kv else 0) g.

Definition gfold (items : list (gkey * N)) (g : list (gkey * N)) : list (gkey * N) :=
  fold_left (fun g kv => gincr (fst kv) (snd kv) g) items g.

Lemma gget_gincr : forall k' k v g, gget k' (gincr k v g) = gget k' g + (if keqb k k' then v else 0).
Proof.
  intros k' k v g. induction g as [|[k0 v0] g IH].
  - rewrite gincr_nil. unfold gget. cbn [sumf fst snd]. lia.
  - rewrite gincr_cons. destruct (keqb k k0) eqn:E.
    + apply keqb_eq in E. subst k0. unfold gget. cbn [sumf fst snd]. destruct (keqb k k'); lia.
    + unfold gget in *. cbn [sumf fst snd]. rewrite IH. lia.
Qed.

Lemma gincr_keys : forall k v g k',
  In k' (map fst (gincr k v g)) <-> k' = k \/ In k' (map fst g).
Proof.
  intros k v g k'. induction g as [|[k0 v0] g IH].
  - rewrite gincr_nil. cbn. intuition.
  - rewrite gincr_cons. destruct (keqb k k0) eqn:E.
    + apply keqb_eq in E. subst k0. cbn [map fst In]. intuition.
    + cbn [map fst In]. rewrite IH. intuition.
Qed.

Lemma gincr_nodup : forall k v g, NoDup (map fst g) -> NoDup (map fst (gincr k v g)).
Proof.
  intros k v g. induction g as [|[k0 v0] g IH]; intro Hnd.
  - rewrite gincr_nil. cbn. constructor; [intros []|constructor].
  - rewrite gincr_cons. destruct (keqb k k0) eqn:E; [exact Hnd|].
    cbn [map fst] in *. inversion Hnd as [|x l Hx Hnd']; subst. constructor; [|apply IH; exact Hnd'].
    intro H. apply gincr_keys in H. destruct H as [->|H]; [|contradiction].
    rewrite keqb_refl in E. discriminate.
Qed.

Lemma gfold_app : forall l1 l2 g, gfold (l1 ++ l2) g = gfold l2 (gfold l1 g).
Proof. intros l1 l2 g. unfold gfold. apply fold_left_app. Qed.

Lemma gfold_spec : forall items g, NoDup (map fst g) ->
  NoDup (map fst (gfold items g)) /\
  (forall k, In k (map fst (gfold items g)) <-> In k (map fst g) \/ In k (map fst items)) /\
  (forall k, gget k (gfold items g) = gget k g + gget k items).
Proof.
  induction items as [|[k v] items IH]; intros g Hnd.
  - unfold gfold. cbn [fold_left map]. split; [exact Hnd|]. split; [intro k; cbn [In]; tauto|].
    intro k. replace (gget k []) with 0 by reflexivity. lia.
  - unfold gfold in *. cbn [fold_left fst snd].
    destruct (IH (gincr k v g) (gincr_nodup k v g Hnd)) as (H1 & H2 & H3).
    split; [exact H1|]. split.
    + intro k'. rewrite H2, gincr_keys. cbn [map fst In]. intuition.
    + intro k'. rewrite H3, gget_gincr. unfold gget at 4. cbn [sumf fst snd]. fold (gget k' items). lia.
Qed.

Lemma gget_absent : forall k g, ~ In k (map fst g) -> gget k g = 0.
Proof.
  intros k g H. unfold gget. apply sumf_zero. intros [k0 v0] Hin. cbn [fst snd].
  destruct (keqb k0 k) eqn:E; [|reflexivity]. apply keqb_eq in E. subst k0.
  exfalso. apply H. apply in_map_iff. exists (k, v0). auto.
Qed.

Lemma gget_in : forall g k v, NoDup (map fst g) -> In (k, v) g -> gget k g = v.
Proof.
  induction g as [|[k0 v0] g IH]; intros k v Hnd Hin; [destruct Hin|].
  cbn [map fst] in Hnd. inversion Hnd as [|x l Hx Hnd']; subst.
  unfold gget. cbn [sumf fst snd]. fold (gget k g). destruct Hin as [E|Hin].
  - inversion E; subst. rewrite keqb_refl, (gget_absent k g Hx). lia.
  - destruct (keqb k0 k) eqn:E.
    + apply keqb_eq in E. subst k0. exfalso. apply Hx. apply in_map_iff. exists (k, v). auto.
    + rewrite (IH k v Hnd' Hin). lia.
Qed.

Lemma gget_present : forall g k, NoDup (map fst g) -> In k (map fst g) -> In (k, gget k g) g.
Proof.
  intros g k Hnd Hin. apply in_map_iff in Hin. destruct Hin as ([k0 v] & E & Hin). cbn [fst] in E. subst k0.
  rewrite (gget_in g k v Hnd Hin). exact Hin.
Qed.

(* with positive increments: an entry is there iff the sum of its increments is not 0 *)
Theorem gfold_in : forall items, (forall kv, In kv items -> snd kv <> 0) ->
  forall k v, In (k, v) (gfold items []) <-> v = gget k items /\ v <> 0.
Proof.
  intros items Hpos k v.
  destruct (gfold_spec items [] (NoDup_nil _)) as (Hnd & Hkeys & Hget). split.
  - intro Hin. pose proof (gget_in _ k v Hnd Hin) as Hv. rewrite Hget in Hv.
    unfold gget at 1 in Hv. cbn [sumf] in Hv. split; [lia|].
    assert (Hk : In k (map fst items)).
    { apply (in_map fst) in Hin. cbn [fst] in Hin. apply Hkeys in Hin. destruct Hin as [[]|H]. exact H. }
    apply in_map_iff in Hk. destruct Hk as ([k0 v0] & E & Hk). cbn [fst] in E. subst k0.
    rewrite <- Hv. rewrite N.add_0_l. unfold gget. apply (sumf_pos _ _ _ (k, v0) Hk).
    cbn [fst snd]. rewrite keqb_refl. apply (Hpos _ Hk).
  - intros [-> Hnz]. unfold gget in Hnz. apply sumf_nonzero in Hnz.
    destruct Hnz as ([k0 v0] & Hin & Hv). cbn [fst snd] in Hv.
    destruct (keqb k0 k) eqn:E; [|congruence]. apply keqb_eq in E. subst k0.
    assert (Hk : In k (map fst (gfold items []))).
    { apply Hkeys. right. apply in_map_iff. exists (k, v0). auto. }
    pose proof (gget_present _ k Hnd Hk) as H. rewrite Hget in H.
    unfold gget at 1 in H. cbn [sumf] in H. rewrite N.add_0_l in H. exact H.
Qed.

Lemma gget_app : forall k l1 l2, gget k (l1 ++ l2) = gget k l1 + gget k l2.
Proof. intros k l1 l2. unfold gget. apply sumf_app. Qed.

Lemma gget_flat_map : forall (A : Type) k (F : A -> list (gkey * N)) l,
  gget k (flat_map F l) = sumf (fun x => gget k (F x)) l.
Proof. intros A k F l. unfold gget. apply sumf_flat_map. Qed.

Lemma gfold_flat_map : forall (A : Type) (F : A -> list (gkey * N)) l g,
  fold_left (fun g x => gfold (F x) g) l g = gfold (flat_map F l) g.
Proof.
  intros A F l. induction l as [|x l IH]; intro g; [reflexivity|].
  cbn [fold_left flat_map]. rewrite gfold_app. apply IH.
Qed.

(* ====================================================================== *)
(* The two walks as gincr folds over item lists                            *)
(* ====================================================================== *)
Definition pw_of (s : traph) : list (nd * N) :=
  filter (fun x => page (fst x) && negb (snd x =? 0)) (dww 0 (tr s)).
Definition p2w_of (s : traph) (a : N) : N :=
  match List.find (fun x => addr (fst x) =? a) (pw_of s) with Some (_, w) => w | None => 0 end.

(* what one weighted target contributes from a page of webentity w *)
Definition litem (f : N -> N) (auto : bool) (w : N) (tw : N * N) : list (gkey * N) :=
  let t := f (fst tw) in
  if t =? 0 then [] else if negb auto && (w =? t) then [] else [((w, 0, t), snd tw)].

Definition litems (f : N -> N) (out auto : bool) (s : traph) (pw : list (nd * N)) : list (gkey * N) :=
  flat_map (fun dw => flat_map (litem f auto (snd dw)) (weighted (dir_targets out (fst dw) s))) pw.

Definition tallies (pw : list (nd * N)) : list (gkey * N) :=
  map (fun dw => ((snd dw, if crawled (fst dw) then 1 else 2, 0), 1)) pw.

Lemma inner_fold : forall (f : N -> N) auto w W g,
  fold_left (fun g '(tg, wt) =>
               let tw := f tg in
               if tw =? 0 then g
               else if negb auto && (w =? tw) then g
               else gincr (w, 0, tw) wt g) W g
  = gfold (flat_map (litem f auto w) W) g.
Proof.
  intros f auto w W. induction W as [|[tg wt] W IH]; intro g; [reflexivity|].
  cbn [fold_left flat_map]. rewrite gfold_app, IH. f_equal.
  unfold litem. cbn [fst snd]. destruct (f tg =? 0); [reflexivity|].
  destruct (negb auto && (w =? f tg)); reflexivity.
Qed.

Lemma tallies_fold : forall (pw : list (nd * N)) (g : list (gkey * N)),
  fold_left (fun g '(d, w) => gincr (w, if crawled d then 1 else 2, 0) 1 g) pw g = gfold (tallies pw) g.
Proof.
  induction pw as [|[d w] l IH]; intro g; [reflexivity|].
  unfold gfold, tallies in *. cbn [fold_left map fst snd]. apply IH.
Qed.

Lemma webentities_links_unfold : forall out auto s,
  webentities_links out auto s
  = gfold (tallies (pw_of s) ++ litems (p2w_of s) out auto s (pw_of s)) [].
Proof.
  intros out auto s. unfold webentities_links. cbv zeta.
  fold (pw_of s). rewrite gfold_app. unfold litems. rewrite <- gfold_flat_map.
  rewrite tallies_fold. apply fold_left_ext2. intros g [d w]. cbn [fst snd].
  destruct (head_dir out d =? 0) eqn:E.
  - apply N.eqb_eq in E. rewrite (head_zero_nil s out d E). reflexivity.
  - exact (inner_fold (p2w_of s) auto w _ g).
Qed.

Lemma flat_map_filter : forall (A B : Type) (c : A -> bool) (F : A -> list B) l,
  flat_map (fun x => if c x then F x else []) l = flat_map F (filter c l).
Proof.
  intros A B c F l. induction l as [|x l IH]; [reflexivity|].
  cbn [flat_map filter]. destruct (c x); cbn [flat_map app]; rewrite IH; reflexivity.
Qed.

Lemma webentities_links_slow_unfold : forall out auto s,
  webentities_links_slow out auto s
  = gfold (litems (fun a => we_at a (tr s)) out auto s (pw_of s)) [].
Proof.
  intros out auto s. unfold webentities_links_slow, litems, pw_of.
  rewrite <- flat_map_filter, <- gfold_flat_map.
  apply fold_left_ext2. intros g [d w]. cbn [fst snd].
  destruct (page d); cbn [negb orb andb]; [|reflexivity].
  destruct (head_dir out d =? 0) eqn:E; cbn [orb].
  - apply N.eqb_eq in E. rewrite (head_zero_nil s out d E). destruct (w =? 0); reflexivity.
  - destruct (w =? 0); cbn [negb]; [reflexivity|].
    exact (inner_fold (fun a => we_at a (tr s)) auto w _ g).
Qed.

Lemma litems_pos : forall f out auto s pw kv, In kv (litems f out auto s pw) -> snd kv <> 0.
Proof.
  intros f out auto s pw kv H. unfold litems in H. apply in_flat_map in H.
  destruct H as ([d w] & _ & H). apply in_flat_map in H. destruct H as ([tg wt] & Hw & H).
  unfold litem in H. cbn [fst snd] in H.
  destruct (f tg =? 0); [destruct H|]. destruct (negb auto && (w =? f tg)); [destruct H|].
  destruct H as [<-|[]]. cbn [snd]. eapply weighted_pos. exact Hw.
Qed.

Lemma tallies_pos : forall pw kv, In kv (tallies pw) -> snd kv <> 0.
Proof.
  intros pw kv H. unfold tallies in H. apply in_map_iff in H. destruct H as (x & <- & _). cbn. lia.
Qed.

Lemma gget_tallies_kind0 : forall pw A B, gget (A, 0, B) (tallies pw) = 0.
Proof.
  intros pw A B. unfold gget, tallies. rewrite sumf_map. apply sumf_zero. intros [d w] _.
  cbn [fst snd]. unfold keqb. cbn [fst snd]. destruct (crawled d); cbn; rewrite andb_false_r; reflexivity.
Qed.

Lemma gget_litems_kind : forall f out auto s pw A k B, k <> 0 -> gget (A, k, B) (litems f out auto s pw) = 0.
Proof.
  intros f out auto s pw A k B Hk. apply gget_absent. intro H. apply in_map_iff in H.
  destruct H as ([k0 v0] & E & H). cbn [fst] in E. subst k0.
  unfold litems in H. apply in_flat_map in H.
  destruct H as ([d w] & _ & H). apply in_flat_map in H. destruct H as ([tg wt] & Hw & H).
  unfold litem in H. cbn [fst snd] in H.
  destruct (f tg =? 0); [destruct H|]. destruct (negb auto && (w =? f tg)); [destruct H|].
  destruct H as [E|[]]. inversion E. congruence.
Qed.

(* ====================================================================== *)
(* The specification's network as a gincr fold                             *)
(* ====================================================================== *)
Section Ninc.
  Variables wa wb : N.
  Fixpoint ninc (g : list (N * N * N)) : list (N * N * N) :=
    match g with
    | [] => [(wa, wb, 1)]
    | (p, q, n) :: g' => if (p =? wa) && (q =? wb) then (p, q, n + 1) :: g'
                         else (p, q, n) :: ninc g'
    end.
End Ninc.

Definition emb (e : N * N * N) : gkey * N := ((fst (fst e), 0, snd (fst e)), snd e).

Lemma ninc_emb : forall wa wb g, map emb (ninc wa wb g) = gincr (wa, 0, wb) 1 (map emb g).
Proof.
  intros wa wb g. induction g as [|[[p q] n] g IH].
  - cbn [ninc map]. rewrite gincr_nil. reflexivity.
  - cbn [ninc map]. unfold emb at 2. cbn [fst snd]. rewrite gincr_cons. unfold keqb. cbn [fst snd].
    rewrite (N.eqb_sym wa p), (N.eqb_sym wb q), N.eqb_refl, andb_true_r.
    destruct ((p =? wa) && (q =? wb)); cbn [map]; [reflexivity|]. rewrite IH. reflexivity.
Qed.

Definition sitem (a : astate) (auto : bool) (p : bytes * bytes) : list (gkey * N) :=
  let wa := owner a (fst p) in
  let wb := owner a (snd p) in
  if (wa =? 0) || (wb =? 0) || (negb auto && (wa =? wb)) then [] else [((wa, 0, wb), 1)].

Lemma s_network_emb_gen : forall auto a links g,
  map emb (fold_left (fun g '(x, y) =>
               let wa := owner a x in let wb := owner a y in
               if (wa =? 0) || (wb =? 0) || (negb auto && (wa =? wb)) then g
               else (fix inc (g : list (N * N * N)) :=
                       match g with
                       | [] => [(wa, wb, 1)]
                       | (p, q, n) :: g' => if (p =? wa) && (q =? wb) then (p, q, n + 1) :: g'
                                            else (p, q, n) :: inc g'
                       end) g) links g)
  = gfold (flat_map (sitem a auto) links) (map emb g).
Proof.
  intros auto a links. induction links as [|[x y] links IH]; intro g; [reflexivity|].
  cbn [fold_left flat_map]. rewrite gfold_app, IH. f_equal.
  unfold sitem. cbn [fst snd].
  destruct ((owner a x =? 0) || (owner a y =? 0) || (negb auto && (owner a x =? owner a y)));
    [reflexivity|].
  unfold gfold. cbn [fold_left fst snd]. rewrite <- ninc_emb. reflexivity.
Qed.

Lemma s_network_emb : forall auto a,
  map emb (s_network auto a) = gfold (flat_map (sitem a auto) (a_links a)) [].
Proof. intros auto a. unfold s_network. apply (s_network_emb_gen auto a (a_links a) []). Qed.

Lemma emb_in : forall A B n g, In (A, B, n) g <-> In ((A, 0, B), n) (map emb g).
Proof.
  intros A B n g. rewrite in_map_iff. split.
  - intro H. exists (A, B, n). auto.
  - intros ([[p q] m] & E & H). unfold emb in E. cbn [fst snd] in E. inversion E; subst. exact H.
Qed.

Definition near (out : bool) (p : bytes * bytes) : bytes := if out then fst p else snd p.
Definition far (out : bool) (p : bytes * bytes) : bytes := if out then snd p else fst p.
Definition okb (A B : N) (auto : bool) : bool :=
  negb (A =? 0) && negb (B =? 0) && (auto || negb (A =? B)).
(* submissions going from a page of A to a page of B (out) / reaching A from B (in) *)
Definition cnt (a : astate) (out : bool) (A B : N) : N :=
  N.of_nat (length (filter (fun p => (owner a (near out p) =? A) && (owner a (far out p) =? B))
                           (a_links a))).

Ltac eqb_cases :=
  repeat match goal with
         | |- context [?x =? ?y] => destruct (N.eqb_spec x y)
         end; subst; cbn [negb andb orb]; try reflexivity; try lia; try congruence.

Lemma gget_sitem : forall a auto p A B,
  gget (A, 0, B) (sitem a auto p)
  = if okb A B auto && ((owner a (fst p) =? A) && (owner a (snd p) =? B)) then 1 else 0.
Proof.
  intros a auto p A B. unfold sitem, gget, okb, keqb. cbv zeta.
  generalize (owner a (fst p)) (owner a (snd p)). intros u v.
  destruct auto; cbn [negb andb orb]; eqb_cases; cbn [sumf fst snd]; eqb_cases.
Qed.

Lemma sumf_if_count : forall (A : Type) (b : bool) (c : A -> bool) l,
  sumf (fun x => if b && c x then 1 else 0) l = if b then N.of_nat (length (filter c l)) else 0.
Proof.
  intros A b c l. destruct b; cbn [andb].
  - symmetry. apply sumf_count.
  - apply sumf_zero. reflexivity.
Qed.

Lemma s_network_in : forall auto a A B n,
  In (A, B, n) (s_network auto a) <-> n = (if okb A B auto then cnt a true A B else 0) /\ n <> 0.
Proof.
  intros auto a A B n. rewrite emb_in, s_network_emb, gfold_in.
  - rewrite gget_flat_map.
    rewrite (sumf_ext_in _ _ _ _ (fun p _ => gget_sitem a auto p A B)).
    rewrite sumf_if_count. reflexivity.
  - intros kv H. apply in_flat_map in H. destruct H as (p & _ & H). unfold sitem in H.
    cbv zeta in H. destruct (_ || _ || _); [destruct H|]. destruct H as [<-|[]]. cbn. lia.
Qed.

Lemma gget_litem : forall f auto w tw A B,
  gget (A, 0, B) (litem f auto w tw)
  = if (w =? A) && (negb (B =? 0) && (auto || negb (A =? B))) && (f (fst tw) =? B) then snd tw else 0.
Proof.
  intros f auto w tw A B. unfold litem, gget, keqb. cbv zeta.
  generalize (f (fst tw)). intro u.
  destruct auto; cbn [negb andb orb]; eqb_cases; cbn [sumf fst snd]; eqb_cases.
Qed.

(* ====================================================================== *)
(* Q07 through R                                                           *)
(* ====================================================================== *)
Definition lruD (x : bytes * nd * N) : bytes := fst (fst x).
Definition pwf (x : bytes * nd * N) : bool := page (snd (fst x)) && negb (snd x =? 0).

Section Q07.
  Variables (s : traph) (a : astate).
  Hypothesis HR : R s a.

  Let HC : Rcore s a := proj1 HR.
  Let HL : Rlinks s a := proj2 HR.
  Let Hwf : wf_tst (tr s) := R_wf s a HC.

  (* every node with its LRU and the webentity it belongs to *)
  Definition D : list (bytes * nd * N) := dfw [] 0 (tr s).

  Lemma D_all : map fst D = all_nodes (tr s).
  Proof. apply dfw_dfs. Qed.

  Lemma D_dww : map (fun x => (snd (fst x), snd x)) D = dww 0 (tr s).
  Proof. apply dfw_dww. Qed.

  Lemma D_in : forall l d w, In (l, d, w) D -> wf_lru l /\ nodeof s l = Some d /\ w = owner a l.
  Proof.
    intros l d w Hin.
    assert (H1 : In (l, d) (all_nodes (tr s))).
    { rewrite <- D_all. apply in_map_iff. exists (l, d, w). auto. }
    apply (all_nodes_nodeof s a HC) in H1. destruct H1 as [Hl Hn].
    split; [exact Hl|]. split; [exact Hn|].
    assert (H2 : In (d, w) (dww 0 (tr s))).
    { rewrite <- D_dww. apply in_map_iff. exists (l, d, w). auto. }
    pose proof (dww_unique s a HR (lru_iter l) d d w Hn H2 eq_refl) as E.
    inversion E as [Ew]. rewrite (owner_wwalk s a HR). rewrite <- Ew at 1. exact Ew.
  Qed.

  Lemma D_node : forall l d, wf_lru l -> nodeof s l = Some d -> In (l, d, owner a l) D.
  Proof.
    intros l d Hl Hn.
    assert (H1 : In (l, d) (all_nodes (tr s))) by (apply (all_nodes_nodeof s a HC); auto).
    rewrite <- D_all in H1. apply in_map_iff in H1. destruct H1 as ([[l' d'] w] & E & Hin).
    cbn [fst] in E. inversion E; subst. destruct (D_in l d w Hin) as (_ & _ & ->). exact Hin.
  Qed.

  Lemma D_nodup : NoDup (map lruD D).
  Proof.
    unfold lruD. rewrite <- (map_map fst fst), D_all. apply (all_nodes_keys_nodup s a HC).
  Qed.

  Lemma pw_D : pw_of s = map (fun x => (snd (fst x), snd x)) (filter pwf D).
  Proof. unfold pw_of. rewrite <- D_dww, filter_map_comm. reflexivity. Qed.

  (* the RAM map of the fast walk answers what the windup answers *)
  Lemma p2w_spec : forall tg y d, target_view s a tg y d -> p2w_of s tg = we_at tg (tr s).
  Proof.
    intros tg y d V. pose proof (tv_node _ _ _ _ _ V) as Hn. unfold nodeof in Hn.
    rewrite <- (tv_addr _ _ _ _ _ V). rewrite (we_at_find s a HR _ d Hn).
    unfold p2w_of, pw_of.
    rewrite (find_filter_unique _ _ _ _ (d, wwalk 0 (tr s) (lru_iter y))).
    - cbn [fst snd]. rewrite (tv_page _ _ _ _ _ V). cbn [andb].
      destruct (wwalk 0 (tr s) (lru_iter y) =? 0) eqn:E; cbn [negb]; [|reflexivity].
      apply N.eqb_eq in E. symmetry. exact E.
    - apply (dww_here s a HR). exact Hn.
    - cbn [fst]. apply N.eqb_refl.
    - intros [d1 w1] Hin E. cbn [fst] in E. apply N.eqb_eq in E.
      apply (dww_unique s a HR _ d d1 w1 Hn Hin E).
  Qed.

  Lemma litems_same : forall out auto,
    litems (p2w_of s) out auto s (pw_of s) = litems (fun t => we_at t (tr s)) out auto s (pw_of s).
  Proof.
    intros out auto. unfold litems. apply flat_map_ext_in. intros [d w] _.
    apply flat_map_ext_in. intros [tg wt] Hin. unfold litem. cbn [fst snd].
    assert (Htg : In tg (dir_targets out d s)) by (apply weighted_in; exists wt; exact Hin).
    destruct (target_node s a HR _ _ Htg) as (y & d' & V). rewrite (p2w_spec tg y d' V). reflexivity.
  Qed.

  (* what one page contributes to the entry (A, 0, B) *)
  Lemma page_contrib : forall out auto l d w A B, wf_lru l -> nodeof s l = Some d ->
    gget (A, 0, B) (flat_map (litem (fun t => we_at t (tr s)) auto w) (weighted (dir_targets out d s)))
    = if (w =? A) && (negb (B =? 0) && (auto || negb (A =? B)))
      then N.of_nat (length (filter (fun p => beq (near out p) l && (owner a (far out p) =? B)) (a_links a)))
      else 0.
  Proof.
    intros out auto l d w A B Hl Hn. rewrite gget_flat_map.
    rewrite (sumf_ext_in _ _ _ _ (fun tw _ => gget_litem _ auto w tw A B)).
    destruct ((w =? A) && (negb (B =? 0) && (auto || negb (A =? B)))); cbn [andb].
    - rewrite (sumf_weighted (fun t => we_at t (tr s) =? B)).
      rewrite (filter_ext_in' _ _ (fun t => owner a (lru_at t s) =? B)).
      + rewrite (dir_count s a HR out l d (fun y => owner a y =? B) Hl Hn), ends_count.
        unfold near, far. destruct out; reflexivity.
      + intros t Ht. destruct (target_node s a HR _ _ Ht) as (y & d' & V).
        rewrite (tv_we _ _ _ _ _ V), (tv_lru _ _ _ _ _ V). reflexivity.
    - apply sumf_zero. reflexivity.
  Qed.

  Definition cterm (out auto : bool) (A B : N) (p : bytes * bytes) : N :=
    if okb A B auto && ((owner a (near out p) =? A) && (owner a (far out p) =? B)) then 1 else 0.

  Lemma near_page : forall out p, In p (a_links a) ->
    wf_lru (near out p) /\ exists d, nodeof s (near out p) = Some d /\ page d = true.
  Proof.
    intros out [x y] Hin. apply (link_ends s a HR) in Hin. unfold near. destruct out; cbn [fst snd]; tauto.
  Qed.

  Lemma D_contrib : forall out auto A B x, In x D ->
    (if pwf x
     then gget (A, 0, B) (flat_map (litem (fun t => we_at t (tr s)) auto (snd x))
                                   (weighted (dir_targets out (snd (fst x)) s)))
     else 0)
    = sumf (fun p => if beq (near out p) (lruD x) then cterm out auto A B p else 0) (a_links a).
  Proof.
    intros out auto A B [[l d] w] Hin. destruct (D_in l d w Hin) as (Hl & Hn & Hw).
    unfold pwf, lruD. cbn [fst snd].
    destruct (page d) eqn:Hpg; cbn [andb].
    - destruct (w =? 0) eqn:E0; cbn [negb].
      + apply N.eqb_eq in E0. symmetry. apply sumf_zero. intros p Hp.
        destruct (beq (near out p) l) eqn:Eb; [|reflexivity]. apply beq_eq in Eb.
        unfold cterm, okb. rewrite Eb, <- Hw, E0. destruct (N.eqb_spec 0 A); [subst A|]; cbn; try reflexivity.
        rewrite andb_false_r. reflexivity.
      + rewrite (page_contrib out auto l d w A B Hl Hn).
        assert (Eok : (w =? A) && (negb (B =? 0) && (auto || negb (A =? B))) = okb A B auto && (w =? A)).
        { unfold okb. destruct (N.eqb_spec w A) as [->|Hne]; [rewrite E0|]; cbn [negb andb];
            rewrite ?andb_false_r, ?andb_true_r; reflexivity. }
        rewrite Eok, sumf_count.
        destruct (okb A B auto && (w =? A)) eqn:Ec.
        * apply sumf_ext_in. intros p Hp. destruct (beq (near out p) l) eqn:Eb; cbn [andb]; [|reflexivity].
          apply beq_eq in Eb. unfold cterm. rewrite Eb, <- Hw.
          apply andb_true_iff in Ec. destruct Ec as [-> ->]. cbn [andb]. reflexivity.
        * symmetry. apply sumf_zero. intros p Hp. destruct (beq (near out p) l) eqn:Eb; [|reflexivity].
          apply beq_eq in Eb. unfold cterm. rewrite Eb, <- Hw, andb_assoc, Ec. reflexivity.
    - symmetry. apply sumf_zero. intros p Hp. destruct (beq (near out p) l) eqn:Eb; [|reflexivity].
      apply beq_eq in Eb. destruct (near_page out p Hp) as (_ & d' & Hn' & Hp'). rewrite Eb in Hn'.
      congruence.
  Qed.

  Lemma litems_value : forall out auto A B,
    gget (A, 0, B) (litems (fun t => we_at t (tr s)) out auto s (pw_of s))
    = if okb A B auto then cnt a out A B else 0.
  Proof.
    intros out auto A B. unfold litems. rewrite gget_flat_map, pw_D, sumf_map, sumf_filter. cbn [fst snd].
    rewrite (sumf_ext_in _ _ _ _ (D_contrib out auto A B)).
    rewrite (sumf_swap _ _ (fun x p => if beq (near out p) (lruD x) then cterm out auto A B p else 0)).
    rewrite (sumf_ext_in _ _ (cterm out auto A B)).
    - unfold cterm, cnt. apply sumf_if_count.
    - intros p Hp.
      rewrite <- (sumf_map _ _ (fun y => if beq (near out p) y then cterm out auto A B p else 0) lruD).
      rewrite (sumf_select _ _ _ D_nodup).
      destruct (near_page out p Hp) as (Hl & d & Hn & _).
      assert (Hm : mem_bytes (near out p) (map lruD D) = true).
      { apply mem_bytes_In. apply in_map_iff. exists (near out p, d, owner a (near out p)).
        split; [reflexivity|]. apply D_node; assumption. }
      rewrite Hm. reflexivity.
  Qed.

  Lemma fast_in : forall out auto A B n,
    In (A, 0, B, n) (webentities_links out auto s)
    <-> n = (if okb A B auto then cnt a out A B else 0) /\ n <> 0.
  Proof.
    intros out auto A B n. rewrite webentities_links_unfold, gfold_in.
    - rewrite gget_app, gget_tallies_kind0, litems_same, litems_value, N.add_0_l. reflexivity.
    - intros kv H. apply in_app_iff in H. destruct H as [H|H].
      + eapply tallies_pos. exact H.
      + eapply litems_pos. exact H.
  Qed.

  Lemma slow_in : forall out auto A B n,
    In (A, 0, B, n) (webentities_links_slow out auto s)
    <-> n = (if okb A B auto then cnt a out A B else 0) /\ n <> 0.
  Proof.
    intros out auto A B n. rewrite webentities_links_slow_unfold, gfold_in.
    - rewrite litems_value. reflexivity.
    - intros kv H. eapply litems_pos. exact H.
  Qed.

  Lemma okb_sym : forall A B auto, okb A B auto = okb B A auto.
  Proof.
    intros A B auto. unfold okb. rewrite (N.eqb_sym A B).
    destruct (A =? 0), (B =? 0); reflexivity.
  Qed.

  Lemma cnt_flip : forall A B, cnt a false A B = cnt a true B A.
  Proof.
    intros A B. unfold cnt, near, far. f_equal. f_equal. apply filter_ext. intro p. apply andb_comm.
  Qed.

  (* the weight from A to B = number of submitted links from a page of A to a page of B *)
  Theorem network_out_spec : forall auto A B n,
    In (A, 0, B, n) (webentities_links true auto s) <-> In (A, B, n) (s_network auto a).
  Proof. intros auto A B n. rewrite fast_in, s_network_in. reflexivity. Qed.

  Theorem network_in_spec : forall auto A B n,
    In (A, 0, B, n) (webentities_links false auto s) <-> In (B, A, n) (s_network auto a).
  Proof. intros auto A B n. rewrite fast_in, s_network_in, okb_sym, cnt_flip. reflexivity. Qed.

  Theorem network_slow_spec : forall out auto A B n,
    In (A, 0, B, n) (webentities_links_slow out auto s) <-> In (A, 0, B, n) (webentities_links out auto s).
  Proof. intros out auto A B n. rewrite fast_in, slow_in. reflexivity. Qed.

  (* explicit reading of an entry *)
  Theorem network_entry : forall auto A B n,
    In (A, B, n) (s_network auto a) <->
    A <> 0 /\ B <> 0 /\ (auto = true \/ A <> B) /\ n <> 0 /\
    n = N.of_nat (length (filter (fun p => (owner a (fst p) =? A) && (owner a (snd p) =? B)) (a_links a))).
  Proof.
    intros auto A B n. rewrite s_network_in. unfold okb, cnt, near, far.
    destruct (N.eqb_spec A 0), (N.eqb_spec B 0), (N.eqb_spec A B), auto; cbn [negb andb orb];
      intuition (try congruence; try discriminate).
  Qed.
End Q07.

(* ====================================================================== *)
(* Tallies of crawled / uncrawled pages per webentity                      *)
(* ====================================================================== *)
Section Tallies.
  Variables (s : traph) (a : astate).
  Hypothesis HR : R s a.

  Let HC : Rcore s a := proj1 HR.

  Lemma pages_count : forall (f : bytes * bool -> bool),
    count_if f (a_pages a)
    = sumf (fun x : bytes * nd * N =>
              if page (snd (fst x)) then (if f (fst (fst x), crawled (snd (fst x))) then 1 else 0) else 0)
           (D s).
  Proof.
    intro f. unfold count_if.
    rewrite <- (Permutation_length (Permutation_filter' _ f _ _ (pages_iter_perm s a HC))).
    unfold pages_iter. rewrite <- (D_all s).
    rewrite sumf_count, sumf_map, sumf_filter, sumf_map. reflexivity.
  Qed.

  Lemma tallies_value : forall (kd : N) (h : bool -> bool) A,
    (forall b : bool, ((if b then 1 else 2) =? kd) = h b) ->
    gget (A, kd, 0) (tallies (pw_of s))
    = if A =? 0 then 0 else count_if (fun x => (owner a (fst x) =? A) && h (snd x)) (a_pages a).
  Proof.
    intros kd h A Hh. unfold gget, tallies. rewrite sumf_map, (pw_D s), sumf_map, sumf_filter.
    cbn [fst snd]. destruct (N.eqb_spec A 0) as [->|HA].
    - apply sumf_zero. intros [[l d] w] _. unfold pwf, keqb. cbn [fst snd].
      destruct (page d); cbn [andb]; [|reflexivity].
      destruct (N.eqb_spec w 0); cbn [negb andb]; reflexivity.
    - rewrite pages_count. apply sumf_ext_in. intros [[l d] w] Hin.
      destruct (D_in s a HR l d w Hin) as (_ & _ & Hw). unfold pwf, keqb. cbn [fst snd].
      rewrite <- Hw, Hh, N.eqb_refl, andb_true_r.
      destruct (page d); cbn [andb]; [|reflexivity].
      destruct (N.eqb_spec w 0) as [->|Hw0]; cbn [negb].
      + destruct (N.eqb_spec 0 A); [congruence|reflexivity].
      + reflexivity.
  Qed.

  Lemma tally_in : forall out auto (kd : N) (h : bool -> bool) A c, kd <> 0 ->
    (forall b : bool, ((if b then 1 else 2) =? kd) = h b) ->
    (In (A, kd, 0, c) (webentities_links out auto s) <->
     A <> 0 /\ c <> 0 /\ c = count_if (fun x => (owner a (fst x) =? A) && h (snd x)) (a_pages a)).
  Proof.
    intros out auto kd h A c Hkd Hh. rewrite webentities_links_unfold, gfold_in.
    - rewrite gget_app, (gget_litems_kind _ _ _ _ _ A kd 0 Hkd), (tallies_value kd h A Hh), N.add_0_r.
      destruct (N.eqb_spec A 0) as [->|HA]; intuition congruence.
    - intros kv H. apply in_app_iff in H. destruct H as [H|H].
      + eapply tallies_pos. exact H.
      + eapply litems_pos. exact H.
  Qed.

  (* a webentity is listed with its crawled-page tally iff that tally is not 0 *)
  Theorem tallies_spec : forall out auto A c,
    In (A, 1, 0, c) (webentities_links out auto s) <-> A <> 0 /\ c <> 0 /\ c = fst (s_tally A a).
  Proof.
    intros out auto A c. rewrite (tally_in out auto 1 (fun b => b) A c); [|lia|intros []; reflexivity].
    unfold s_tally. cbn [fst]. reflexivity.
  Qed.

  Theorem tallies_uncrawled_spec : forall out auto A c,
    In (A, 2, 0, c) (webentities_links out auto s) <-> A <> 0 /\ c <> 0 /\ c = snd (s_tally A a).
  Proof.
    intros out auto A c. rewrite (tally_in out auto 2 negb A c); [|lia|intros []; reflexivity].
    unfold s_tally. cbn [snd]. reflexivity.
  Qed.

  (* nothing else is in the answer *)
  Theorem links_kinds : forall out auto A k B n,
    In (A, k, B, n) (webentities_links out auto s) -> k = 0 \/ (k = 1 /\ B = 0) \/ (k = 2 /\ B = 0).
  Proof.
    intros out auto A k B n H. rewrite webentities_links_unfold in H.
    destruct (gfold_spec (tallies (pw_of s) ++ litems (p2w_of s) out auto s (pw_of s)) [] (NoDup_nil _))
      as (_ & Hkeys & _).
    apply (in_map fst) in H. cbn [fst] in H. apply Hkeys in H. destruct H as [[]|H].
    rewrite map_app, in_app_iff in H. destruct H as [H|H].
    - unfold tallies in H. rewrite map_map in H. apply in_map_iff in H. destruct H as ([d w] & E & _).
      cbn [fst snd] in E. inversion E. destruct (crawled d); auto.
    - left. apply in_map_iff in H. destruct H as ([k0 v0] & E & H). cbn [fst] in E. subst k0.
      unfold litems in H. apply in_flat_map in H. destruct H as ([d w] & _ & H).
      apply in_flat_map in H. destruct H as ([tg wt] & _ & H). unfold litem in H. cbn [fst snd] in H.
      destruct (p2w_of s tg =? 0); [destruct H|]. destruct (negb auto && (w =? p2w_of s tg)); [destruct H|].
      destruct H as [E|[]]. inversion E. reflexivity.
  Qed.
End Tallies.
