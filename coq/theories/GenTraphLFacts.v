(* GenTraphLFacts.v — the page-link request of the public API translated from /repo/traph/traph.py on every run
   (GenTraphL.v: Traph.get_page_links, over the translated LRUTrie.lru_node / windup_lru, LRUTrieNode.read and
   LinkStore.weighted_link_nodes_iter) answers exactly what the model's Traph.page_links answers, for EVERY history:
   on any trie storage holding the trie file of the state reached and any link storage holding its link file.
   The translated code never fails, never runs out of fuel, and leaves every byte of the trie storage as it was. *)
From Coq Require Import List NArith Bool Lia Arith.
Import ListNotations.
From Traph Require Import Bytes Consts Layout Helpers Rules Tst TstDefs Traph Spec Ops RefDefs Traphw TraceDefs Codec
  CodecFacts TstFacts Store StoreFacts StoreFacts2 RefFull LinkFacts GenStorage GenNode GenNodeFacts GenLinks
  GenLinksFacts GenTrie GenTrieFacts GenTrieW GenTraphL.
From Traph Require Import TopkFacts QueryLinks GenTraphPages.
From Traph Require GenTrieWPage.
Open Scope N_scope.

Arguments N.shiftr : simpl never.
Arguments N.shiftl : simpl never.
Arguments N.modulo : simpl never.
Arguments N.div : simpl never.
Arguments N.land : simpl never.
Arguments N.lor : simpl never.
Arguments N.mul : simpl never.
Arguments N.add : simpl never.
Arguments N.sub : simpl never.
Arguments N.ltb : simpl never.
Arguments N.leb : simpl never.
Arguments N.eqb : simpl never.

(* ---- LRUTrie.windup_lru never changes the bytes (whatever the storage, whatever the address) ---- *)
Lemma ploop_arr : forall fuel sg n out sg' n' out',
  ploop fuel (sg, n, out) = Some (sg', n', out') -> pm_array sg' = pm_array sg.
Proof.
  induction fuel as [|k IH]; intros sg n out sg' n' out' H.
  - cbn [ploop] in H. injection H as <- _ _. reflexivity.
  - cbn [ploop] in H. destruct (py_node_has_parent n).
    + unfold py_node_read_parent in H. cbv zeta in H.
      destruct (N.ltb (py_node_parent n) py_first_data_block); [discriminate H|].
      pose proof (node_read_o_arr n sg (Some (py_node_parent n))) as Ha.
      destruct (py_node_read_o n sg (Some (py_node_parent n))) as [n1 sg1]. cbn [snd] in Ha.
      rewrite <- Ha. exact (IH _ _ _ _ _ _ H).
    + injection H as <- _ _. reflexivity.
Qed.

Lemma windup_arr : forall sg a sg' l, py_trie_windup_lru sg a = Some (sg', l) -> pm_array sg' = pm_array sg.
Proof.
  intros sg a sg' l H. rewrite windup_eq, init_read in H.
  pose proof (node_read_o_arr (nd_set_tail [] (nd_set_exists false (nd_set_block None py_node_new))) sg (Some a)) as Ha.
  destruct (py_node_read_o _ sg (Some a)) as [n0 sg0]. cbn [snd] in Ha.
  rewrite parents_iter_eq in H.
  destruct (negb (py_node_has_parent n0)).
  - injection H as <- _. exact Ha.
  - unfold py_node_parent_node in H. rewrite init_read in H.
    pose proof (node_read_o_arr (nd_set_tail [] (nd_set_exists false (nd_set_block None py_node_new))) sg0
                  (Some (py_node_parent n0))) as Hb.
    destruct (py_node_read_o _ sg0 (Some (py_node_parent n0))) as [n1 sg1]. cbn [snd] in Hb.
    destruct (ploop (S (length (pm_array sg1))) (sg1, n1, [n1])) as [[[sg2 n2] out2]|] eqn:Ep; [|discriminate H].
    injection H as <- _. rewrite (ploop_arr _ _ _ _ _ _ _ Ep). congruence.
Qed.

(* ---- the generated request, re-stated in named pieces ---- *)
Definition LSt : Type := option (py_pm * list (bytes * bytes * N) * py_node).

(* body of `for target, weight in weighted_link_nodes_iter(out-list)` *)
Definition out_body (v_lru : bytes) (v_include_outbound v_include_internal : bool) (st : LSt) (v__it : option N * N) : LSt :=
  match st with
  | None => None
  | Some (sg, v_pagelinks, v_target_node) => (let '(v_target, v_weight) := v__it in
   (let '(v_target_node, sg) := py_node_read_o v_target_node sg v_target in
   (match (nd_block v_target_node) with
   | None => None
   | Some v__x => (match py_trie_windup_lru sg v__x with
   | None => None
   | Some (sg, v_target_lru) => (if ((v_include_outbound && (negb (beq v_target_lru v_lru))) || (v_include_internal && (beq v_target_lru v_lru)))
   then (let v_pagelinks := v_pagelinks ++ [(v_lru, v_target_lru, v_weight)] in
   (Some (sg, v_pagelinks, v_target_node)))
   else (Some (sg, v_pagelinks, v_target_node))) end) end))) end.

(* body of `for source, weight in weighted_link_nodes_iter(in-list)` *)
Definition in_body (v_lru : bytes) (st : LSt) (v__it : option N * N) : LSt :=
  match st with
  | None => None
  | Some (sg, v_pagelinks, v_source_node) => (let '(v_target, v_weight) := v__it in
   (let '(v_source_node, sg) := py_node_read_o v_source_node sg v_target in
   (match (nd_block v_source_node) with
   | None => None
   | Some v__x => (match py_trie_windup_lru sg v__x with
   | None => None
   | Some (sg, v_source_lru) => (if (negb (beq v_source_lru v_lru))
   then (let v_pagelinks := v_pagelinks ++ [(v_source_lru, v_lru, v_weight)] in
   (Some (sg, v_pagelinks, v_source_node)))
   else (Some (sg, v_pagelinks, v_source_node))) end) end))) end.

(* the inbound part of the request (the generated term has it once per branch of the outbound `if`) *)
Definition in_part (sgl : py_pm) (v_lru : bytes) (v_include_inbound : bool) (v_node : py_node)
    (sg : py_pm) (v_pagelinks : list (bytes * bytes * N)) (v_source_node : py_node)
    : option (py_pm * list (bytes * bytes * N)) :=
  if ((py_node_has_inlinks v_node) && v_include_inbound)
  then (match py_ls_weighted_link_nodes_iter sgl (py_node_inlinks v_node) with
        | None => None
        | Some v__items =>
            match fold_left (in_body v_lru) v__items (Some (sg, v_pagelinks, v_source_node)) with
            | None => None
            | Some (sg, v_pagelinks, v_source_node) => Some (sg, v_pagelinks)
            end
        end)
  else Some (sg, v_pagelinks).

Lemma get_page_links_eq : forall sg sgl lru inb int outb,
  py_traph_get_page_links sg sgl lru inb int outb =
  match py_trie_lru_node sg lru with
  | None => None
  | Some (sg, None) => Some (sg, [])
  | Some (sg, Some v_node) =>
      if negb (py_node_is_page v_node) then Some (sg, [])
      else
        let '(v_source_node, sg) := py_node_init sg None None None in
        let '(v_target_node, sg) := py_node_init sg None None None in
        if (py_node_has_outlinks v_node) && (outb || int)
        then match py_ls_weighted_link_nodes_iter sgl (py_node_outlinks v_node) with
             | None => None
             | Some v__items =>
                 match fold_left (out_body lru outb int) v__items (Some (sg, [], v_target_node)) with
                 | None => None
                 | Some (sg, v_pagelinks, _) => in_part sgl lru inb v_node sg v_pagelinks v_source_node
                 end
             end
        else in_part sgl lru inb v_node sg [] v_source_node
  end.
Proof. reflexivity. Qed.

(* ---- the link registers of a node object read from the file ---- *)
Lemma get_out : forall b, py_get_num pos_out (tblock_vals b) = b_out b.
Proof. intros [st fl w l r c p o i]. reflexivity. Qed.
Lemma get_in : forall b, py_get_num pos_in (tblock_vals b) = b_in b.
Proof. intros [st fl w l r c p o i]. reflexivity. Qed.

Lemma node_init_none : forall sg, py_node_init sg None None None = (py_node_set_default_data py_node_new None, sg).
Proof. reflexivity. Qed.

(* what the model does with one weighted out-target / in-source *)
Definition out_keep (lru : bytes) (outb int : bool) (s : traph) (x : N * N) : list (bytes * bytes * N) :=
  let '(tg, w) := x in
  let tl := lru_at tg s in
  if (outb && negb (beq tl lru)) || (int && beq tl lru) then [(lru, tl, w)] else [].
Definition in_keep (lru : bytes) (s : traph) (x : N * N) : list (bytes * bytes * N) :=
  let '(sr, w) := x in
  let sl := lru_at sr s in
  if negb (beq sl lru) then [(sl, lru, w)] else [].

Lemma page_links_eq : forall lru inb int outb s,
  page_links lru inb int outb s =
  match find (lru_iter lru) (tr s) with
  | None => []
  | Some d =>
      if negb (page d) then []
      else (if negb (outh d =? 0) && (outb || int) then flat_map (out_keep lru outb int s) (out_w d s) else [])
           ++ (if negb (inh d =? 0) && inb then flat_map (in_keep lru s) (in_w d s) else [])
  end.
Proof. reflexivity. Qed.

Section OnState.
  Variable s : traph.
  Hypothesis Hinv : Inv18 s.
  Hypothesis Hroot : root_first s.

  (* a block address that is the address of the node at some path, whose LRU the model's lru_at spells *)
  Definition known_target (x : N * N) : Prop :=
    exists p d, find p (tr s) = Some d /\ addr d = fst x /\ lru_at (fst x) s = concat p.

  (* reading the block of a target into any node object, then winding it up *)
  Lemma read_windup : forall x nd0 sg, known_target x -> trep (files_of s) sg ->
    exists nd1 sg1 sg2,
      py_node_read_o nd0 sg (Some (fst x)) = (nd1, sg1) /\ nd_block nd1 = Some (fst x) /\
      py_trie_windup_lru sg1 (fst x) = Some (sg2, lru_at (fst x) s) /\
      trep (files_of s) sg2 /\ pm_array sg2 = pm_array sg.
  Proof.
    intros x nd0 sg (p & d & Hf & Ha & Hl) Hrep.
    destruct (find_subt _ _ _ Hf) as (l & c & r & _ & Hsub).
    pose proof (read_subt s Hinv d l c r nd0 sg Hsub Hrep) as HR. cbv zeta in HR.
    pose proof (node_read_o_arr nd0 sg (Some (addr d))) as Harr.
    rewrite Ha in HR, Harr.
    destruct (py_node_read_o nd0 sg (Some (fst x))) as [nd1 sg1]. cbn [fst snd] in HR, Harr.
    destruct HR as [(_ & Hb & _) Hrep1].
    destruct (py_trie_windup_spec s Hinv sg1 p d Hrep1 Hf) as (sg2 & Ew & Hrep2).
    rewrite Ha in Hb, Ew.
    exists nd1, sg1, sg2. split; [reflexivity|]. split; [exact Hb|].
    split; [rewrite Hl; exact Ew|]. split; [exact Hrep2|].
    rewrite (windup_arr _ _ _ _ Ew). exact Harr.
  Qed.

  Lemma out_fold_spec : forall lru outb int items sg pl tn,
    trep (files_of s) sg -> Forall known_target items ->
    exists sg' tn',
      fold_left (out_body lru outb int) (map lift items) (Some (sg, pl, tn))
        = Some (sg', pl ++ flat_map (out_keep lru outb int s) items, tn') /\
      trep (files_of s) sg' /\ pm_array sg' = pm_array sg.
  Proof.
    intros lru outb int. induction items as [|[tg w] items IH]; intros sg pl tn Hrep Hk.
    - cbn [map fold_left flat_map]. rewrite app_nil_r. exists sg, tn.
      split; [reflexivity|]. split; [exact Hrep|reflexivity].
    - inversion Hk as [|? ? Hx Hrest]; subst.
      destruct (read_windup (tg, w) tn sg Hx Hrep) as (nd1 & sg1 & sg2 & Er & Hb & Ew & Hrep2 & Harr2).
      cbn [fst] in Er, Hb, Ew.
      cbn [map fold_left flat_map]. change (lift (tg, w)) with (Some tg, w). cbn [out_body].
      rewrite Er, Hb, Ew. cbn [out_keep]. cbv zeta.
      destruct ((outb && negb (beq (lru_at tg s) lru)) || (int && beq (lru_at tg s) lru)).
      + destruct (IH sg2 (pl ++ [(lru, lru_at tg s, w)]) nd1 Hrep2 Hrest) as (sg' & tn' & E & Hrep' & Harr').
        exists sg', tn'. rewrite E, <- app_assoc. split; [reflexivity|]. split; [exact Hrep'|congruence].
      + destruct (IH sg2 pl nd1 Hrep2 Hrest) as (sg' & tn' & E & Hrep' & Harr').
        exists sg', tn'. rewrite E. split; [reflexivity|]. split; [exact Hrep'|congruence].
  Qed.

  Lemma in_fold_spec : forall lru items sg pl sn,
    trep (files_of s) sg -> Forall known_target items ->
    exists sg' sn',
      fold_left (in_body lru) (map lift items) (Some (sg, pl, sn))
        = Some (sg', pl ++ flat_map (in_keep lru s) items, sn') /\
      trep (files_of s) sg' /\ pm_array sg' = pm_array sg.
  Proof.
    intros lru. induction items as [|[tg w] items IH]; intros sg pl sn Hrep Hk.
    - cbn [map fold_left flat_map]. rewrite app_nil_r. exists sg, sn.
      split; [reflexivity|]. split; [exact Hrep|reflexivity].
    - inversion Hk as [|? ? Hx Hrest]; subst.
      destruct (read_windup (tg, w) sn sg Hx Hrep) as (nd1 & sg1 & sg2 & Er & Hb & Ew & Hrep2 & Harr2).
      cbn [fst] in Er, Hb, Ew.
      cbn [map fold_left flat_map]. change (lift (tg, w)) with (Some tg, w). cbn [in_body].
      rewrite Er, Hb, Ew. cbn [in_keep]. cbv zeta.
      destruct (negb (beq (lru_at tg s) lru)).
      + destruct (IH sg2 (pl ++ [(lru_at tg s, lru, w)]) nd1 Hrep2 Hrest) as (sg' & sn' & E & Hrep' & Harr').
        exists sg', sn'. rewrite E, <- app_assoc. split; [reflexivity|]. split; [exact Hrep'|congruence].
      + destruct (IH sg2 pl nd1 Hrep2 Hrest) as (sg' & sn' & E & Hrep' & Harr').
        exists sg', sn'. rewrite E. split; [reflexivity|]. split; [exact Hrep'|congruence].
  Qed.

  (* the inbound part, from the node object of a node of the tree *)
  Lemma in_part_spec : forall sgl lru inb d l c r n sg pl sn,
    GenTrieFacts.node_at (Nd d l c r) n -> trep (files_of s) sg ->
    (inh d <> 0 -> py_ls_weighted_link_nodes_iter sgl (inh d) = Some (map lift (in_w d s))) ->
    Forall known_target (in_w d s) ->
    exists sg', in_part sgl lru inb n sg pl sn
                = Some (sg', pl ++ (if negb (inh d =? 0) && inb then flat_map (in_keep lru s) (in_w d s) else [])) /\
      trep (files_of s) sg' /\ pm_array sg' = pm_array sg.
  Proof.
    intros sgl lru inb d l c r n sg pl sn (_ & _ & Hd & _) Hrep Hit Hk.
    unfold in_part, py_node_has_inlinks, py_node_inlinks. rewrite Hd, get_in. cbn [main_block b_in].
    destruct (N.eqb_spec (inh d) 0) as [Ez|Enz]; cbn [negb andb].
    - exists sg. rewrite app_nil_r. split; [reflexivity|]. split; [exact Hrep|reflexivity].
    - destruct inb.
      + rewrite (Hit Enz).
        destruct (in_fold_spec lru (in_w d s) sg pl sn Hrep Hk) as (sg' & sn' & E & Hrep' & Harr').
        rewrite E. exists sg'. split; [reflexivity|]. split; [exact Hrep'|exact Harr'].
      + exists sg. rewrite app_nil_r. split; [reflexivity|]. split; [exact Hrep|reflexivity].
  Qed.

  Theorem get_page_links_spec : forall sg sgl lru inb int outb,
    trep (files_of s) sg -> wf_lru lru ->
    (forall p nd, find p (tr s) = Some nd ->
       (outh nd <> 0 -> py_ls_weighted_link_nodes_iter sgl (outh nd) = Some (map lift (out_w nd s))) /\
       (inh nd <> 0 -> py_ls_weighted_link_nodes_iter sgl (inh nd) = Some (map lift (in_w nd s)))) ->
    (forall h x, In x (weighted (targets_of (stubs s) h)) -> known_target x) ->
    exists sg', py_traph_get_page_links sg sgl lru inb int outb = Some (sg', page_links lru inb int outb s) /\
      trep (files_of s) sg' /\ pm_array sg' = pm_array sg.
  Proof.
    intros sg sgl lru inb int outb Hrep Hwf Hiter Hknown.
    rewrite get_page_links_eq, page_links_eq.
    destruct (lru_node_full s Hinv Hroot sg lru Hrep Hwf) as (sg1 & Hrep1 & Harr1 & H1).
    unfold find. destruct (find_sub (lru_iter lru) (tr s)) as [sub|] eqn:Ef.
    2:{ rewrite H1. exists sg1. split; [reflexivity|]. split; [exact Hrep1|exact Harr1]. }
    destruct H1 as (n & E1 & Hn & Hsub). rewrite E1.
    destruct sub as [|d l c r]; [destruct Hn|]. cbn [node_of].
    pose proof Hn as (_ & _ & Hd & _).
    rewrite (GenTrieWPage.is_page_main n d _ _ _ Hd).
    destruct (page d); cbn [negb].
    2:{ exists sg1. split; [reflexivity|]. split; [exact Hrep1|exact Harr1]. }
    rewrite !node_init_none.
    assert (Hfd : find (lru_iter lru) (tr s) = Some d) by (unfold find; rewrite Ef; reflexivity).
    destruct (Hiter _ _ Hfd) as [Hio Hii].
    assert (Hko : Forall known_target (out_w d s)).
    { apply Forall_forall. intros x Hx. exact (Hknown (outh d) x Hx). }
    assert (Hki : Forall known_target (in_w d s)).
    { apply Forall_forall. intros x Hx. exact (Hknown (inh d) x Hx). }
    unfold py_node_has_outlinks, py_node_outlinks. rewrite Hd, get_out. cbn [main_block b_out].
    destruct (negb (outh d =? 0) && (outb || int)) eqn:Eo.
    - apply andb_true_iff in Eo. destruct Eo as [Eo _]. apply negb_true_iff, N.eqb_neq in Eo.
      rewrite (Hio Eo).
      destruct (out_fold_spec lru outb int (out_w d s) sg1 [] (py_node_set_default_data py_node_new None) Hrep1 Hko)
        as (sg2 & tn' & E2 & Hrep2 & Harr2).
      rewrite E2. cbn [app].
      destruct (in_part_spec sgl lru inb d l c r n sg2 (flat_map (out_keep lru outb int s) (out_w d s))
                  (py_node_set_default_data py_node_new None) Hn Hrep2 Hii Hki) as (sg3 & E3 & Hrep3 & Harr3).
      rewrite E3. exists sg3. split; [reflexivity|]. split; [exact Hrep3|congruence].
    - destruct (in_part_spec sgl lru inb d l c r n sg1 [] (py_node_set_default_data py_node_new None) Hn Hrep1 Hii Hki)
        as (sg3 & E3 & Hrep3 & Harr3).
      rewrite E3. exists sg3. split; [reflexivity|]. split; [exact Hrep3|congruence].
  Qed.
End OnState.

(* ---- every weighted target of a reachable state is the address of a node of the tree ---- *)
Lemma reachable_known_target : forall s a, RefDefs.R s a ->
  forall h x, In x (weighted (targets_of (stubs s) h)) -> known_target s x.
Proof.
  intros s a [HC HL] h [tg w] Hin.
  assert (Hin' : In tg (targets_of (stubs s) h)) by (apply weighted_in; exists w; exact Hin).
  unfold targets_of in Hin'. apply chain_in' in Hin'. destruct Hin' as (i & pv & Hn).
  destruct (L_targets s a HL i tg pv Hn) as (p & d & Hf & Ha & _).
  exists p, d. cbn [fst]. split; [exact Hf|]. split; [exact Ha|].
  rewrite <- Ha. apply lru_at_spec; [exact (R_wf s a HC)|exact (L_addr s a HL)|exact Hf].
Qed.

(* ---- the main theorem: for every history ---- *)
Theorem py_traph_get_page_links_spec : forall d rs h, wf_rules rs -> Forall wf_op h ->
  let s := run d rs h in
  forall sg sgl lru inb int outb,
    trep (files_of s) sg -> lrep (stubs s) sgl -> fits (nb s * bsz) -> fits (saddr (length (stubs s))) -> wf_lru lru ->
    exists sg', py_traph_get_page_links sg sgl lru inb int outb = Some (sg', page_links lru inb int outb s) /\
      trep (files_of s) sg' /\ pm_array sg' = pm_array sg.
Proof.
  intros d rs h Hr Hh s sg sgl lru inb int outb Hrep Hlrep Hft Hfl Hwf.
  pose proof (run_Inv18 d rs h Hh) as Hinv. fold s in Hinv.
  pose proof (run_root_first d rs h) as Hroot. fold s in Hroot.
  pose proof (run_RR d rs h Hr Hh) as HRR. fold s in HRR.
  pose proof (proj2 HRR) as HR.
  pose proof (reachable_wf_stubs s _ HR Hft Hfl) as Hwfs.
  apply (get_page_links_spec s Hinv Hroot sg sgl lru inb int outb Hrep Hwf).
  - intros p nd Hf. destruct (L_heads s _ HR p nd Hf) as [Ho Hi].
    split; intro Hnz.
    + destruct Ho as [E|(j & Hj & E)]; [contradiction|]. unfold out_w. rewrite E.
      destruct (nth_error (stubs s) j) as [x|] eqn:En; [|apply nth_error_None in En; lia].
      exact (py_ls_weighted_spec (stubs s) sgl j x Hwfs Hlrep En).
    + destruct Hi as [E|(j & Hj & E)]; [contradiction|]. unfold in_w. rewrite E.
      destruct (nth_error (stubs s) j) as [x|] eqn:En; [|apply nth_error_None in En; lia].
      exact (py_ls_weighted_spec (stubs s) sgl j x Hwfs Hlrep En).
  - exact (reachable_known_target s _ HRR).
Qed.

Print Assumptions py_traph_get_page_links_spec.

(* ---- non-vacuity: a history in which the page ex_pa has three out-targets (ex_pb twice: weight 2; ex_pl, whose stem
   spans two blocks; itself: an internal link) and two in-sources (ex_pxy twice: weight 2; ex_pb); the translated request run
   on the bytes of the two files of the state reached answers the model's page_links for every setting of the switches ---- *)
From Traph Require IdFacts PropsEx.
Import IdFacts PropsEx.
Definition exh_l : list op :=
  [ OAddPage ex_pa true;
    OAddLinks [(ex_pa, ex_pb); (ex_pa, ex_pl); (ex_pa, ex_pb); (ex_pa, ex_pa)];
    OAddPage ex_pxy false;
    OAddLinks [(ex_pxy, ex_pa); (ex_pb, ex_pa); (ex_pxy, ex_pa)] ].
Notation exs_l := (run Domain [] exh_l).
Definition ex_sgt : py_pm := mk_pm 128 (trie_file exs_l) 0.
Definition ex_sgl : py_pm := mk_pm 16 (link_file exs_l) 0.

Lemma exh_l_wf : Forall wf_op exh_l.
Proof. unfold exh_l. repeat constructor; cbn [wf_op fst snd]; try wf_lru_tac; try discriminate. Qed.

Definition all_switches : list (bool * bool * bool) :=
  [(true, true, true); (true, true, false); (true, false, true); (true, false, false);
   (false, true, true); (false, true, false); (false, false, true); (false, false, false)].

Definition link_eqb (x y : bytes * bytes * N) : bool :=
  beq (fst (fst x)) (fst (fst y)) && beq (snd (fst x)) (snd (fst y)) && (snd x =? snd y).
Fixpoint links_eqb (l1 l2 : list (bytes * bytes * N)) : bool :=
  match l1, l2 with
  | [], [] => true
  | x :: l1', y :: l2' => link_eqb x y && links_eqb l1' l2'
  | _, _ => false
  end.

Example ex_links_all_switches :
  (forallb (fun '(inb, int, outb) =>
             match py_traph_get_page_links ex_sgt ex_sgl ex_pa inb int outb with
             | Some (_, l) => links_eqb l (page_links ex_pa inb int outb exs_l)
             | None => false
             end) all_switches = true) /\
  (map (fun '(inb, int, outb) => length (page_links ex_pa inb int outb exs_l)) all_switches
    = [5; 3; 4; 2; 3; 1; 2; 0]%nat).
Proof. vm_compute. split; reflexivity. Qed.

Example ex_links_values :
  option_map snd (py_traph_get_page_links ex_sgt ex_sgl ex_pa true true true)
    = Some [(ex_pa, ex_pa, 1); (ex_pa, ex_pb, 2); (ex_pa, ex_pl, 1); (ex_pxy, ex_pa, 2); (ex_pb, ex_pa, 1)] /\
  option_map snd (py_traph_get_page_links ex_sgt ex_sgl ex_pa false false true)
    = Some [(ex_pa, ex_pb, 2); (ex_pa, ex_pl, 1)] /\
  option_map snd (py_traph_get_page_links ex_sgt ex_sgl ex_pa false true false) = Some [(ex_pa, ex_pa, 1)] /\
  option_map snd (py_traph_get_page_links ex_sgt ex_sgl ex_pa true false false)
    = Some [(ex_pxy, ex_pa, 2); (ex_pb, ex_pa, 1)] /\
  option_map snd (py_traph_get_page_links ex_sgt ex_sgl ex_pb true true true)
    = Some [(ex_pb, ex_pa, 1); (ex_pa, ex_pb, 2)] /\
  (* a node that is not a page, an LRU that is not in the trie *)
  option_map snd (py_traph_get_page_links ex_sgt ex_sgl ex_px true true true) = Some [] /\
  option_map snd (py_traph_get_page_links ex_sgt ex_sgl (ex_px ++ [112; 58; 122; 124]) true true true) = Some [] /\
  page_links ex_pa true true true exs_l
    = [(ex_pa, ex_pa, 1); (ex_pa, ex_pb, 2); (ex_pa, ex_pl, 1); (ex_pxy, ex_pa, 2); (ex_pb, ex_pa, 1)].
Proof. vm_compute. repeat split; reflexivity. Qed.

(* the hypotheses of the theorem are met by that history and the two files, and the theorem then gives the reply above *)
Definition blk_encb (b : tblock) : bool :=
  Nat.leb (length (b_stem b)) 74 && (b_flags b <? 256) && (b_we b <? 2 ^ 32) && (b_left b <? 2 ^ 64) &&
  (b_right b <? 2 ^ 64) && (b_child b <? 2 ^ 64) && (b_parent b <? 2 ^ 64) && (b_out b <? 2 ^ 64) && (b_in b <? 2 ^ 64).
Lemma blk_encb_ok : forall b, blk_encb b = true -> blk_encodable b.
Proof.
  intros b H. unfold blk_encb in H. repeat (apply andb_true_iff in H; destruct H as [H ?]).
  repeat split; try (apply N.ltb_lt; assumption). apply Nat.leb_le. exact H.
Qed.
Lemma ex_trep_l : trep (files_of exs_l) ex_sgt.
Proof.
  apply (trep_of_file exs_l 0). apply Forall_forall. intros b Hb. apply blk_encb_ok. revert b Hb.
  apply forallb_forall. vm_compute. reflexivity.
Qed.
Lemma ex_lrep_l : lrep (stubs exs_l) ex_sgl.
Proof. split; [reflexivity|]. unfold ex_sgl, link_file. cbn [pm_array]. reflexivity. Qed.

Example ex_links_by_theorem : exists sg',
  py_traph_get_page_links ex_sgt ex_sgl ex_pa true true true
    = Some (sg', [(ex_pa, ex_pa, 1); (ex_pa, ex_pb, 2); (ex_pa, ex_pl, 1); (ex_pxy, ex_pa, 2); (ex_pb, ex_pa, 1)]) /\
  trep (files_of exs_l) sg' /\ pm_array sg' = pm_array ex_sgt.
Proof.
  assert (Hwf : wf_lru ex_pa) by wf_lru_tac.
  assert (H1 : fits (nb exs_l * bsz)) by (vm_compute; reflexivity).
  assert (H2 : fits (saddr (length (stubs exs_l)))) by (vm_compute; reflexivity).
  pose proof (py_traph_get_page_links_spec Domain [] exh_l ex_rules_wf exh_l_wf ex_sgt ex_sgl ex_pa true true true
                ex_trep_l ex_lrep_l H1 H2 Hwf) as H.
  replace (page_links ex_pa true true true (run Domain [] exh_l))
    with [(ex_pa, ex_pa, 1); (ex_pa, ex_pb, 2); (ex_pa, ex_pl, 1); (ex_pxy, ex_pa, 2); (ex_pb, ex_pa, 1)] in H
    by (vm_compute; reflexivity).
  exact H.
Qed.

Print Assumptions ex_links_all_switches.
Print Assumptions ex_links_by_theorem.
Print Assumptions py_traph_get_page_links_spec.
