(* LinkFacts.v — the link store and the block addresses: chains of stubs, addresses
   handed out by add_lru, the address -> LRU lookup.  (Parts A and B; the refinement
   clauses about links are in LinkFacts2.v.) *)
From Coq Require Import List NArith Bool Lia Arith.
Import ListNotations.
From Traph Require Import Bytes Consts Helpers Rules Tst TstDefs Traph Spec Ops RefDefs TstFacts.
Open Scope N_scope.

(* ====================================================================== *)
(* Part A — chains                                                        *)
(* ====================================================================== *)

Lemma ssz_nz : ssz <> 0.
Proof. discriminate. Qed.

Lemma stub_addr_idx : forall i, N.to_nat (stub_addr i / ssz - 1) = i.
Proof.
  intro i. unfold stub_addr. rewrite N.mul_comm, N.div_mul by exact ssz_nz. lia.
Qed.

Lemma stub_addr_nz : forall i, stub_addr i <> 0.
Proof. intro i. unfold stub_addr, ssz, py_stub_block_size. lia. Qed.

Lemma stub_addr_inj : forall i j, stub_addr i = stub_addr j -> i = j.
Proof. intros i j. unfold stub_addr, ssz, py_stub_block_size. lia. Qed.

Lemma chain_S : forall f st h,
  chain (S f) st h =
  if h =? 0 then []
  else match nth_error st (N.to_nat (h / ssz - 1)) with
       | Some (tg, pv) => tg :: chain f st pv
       | None => []
       end.
Proof. reflexivity. Qed.

Lemma chain_0 : forall f st, chain f st 0 = [].
Proof. destruct f; reflexivity. Qed.

Lemma chain_stub : forall f st j,
  chain (S f) st (stub_addr j) =
  match nth_error st j with
  | Some (tg, pv) => tg :: chain f st pv
  | None => []
  end.
Proof.
  intros. rewrite chain_S.
  destruct (N.eqb_spec (stub_addr j) 0) as [E|E]; [exfalso; exact (stub_addr_nz j E)|].
  rewrite stub_addr_idx. reflexivity.
Qed.

Lemma head_ok_mono : forall n m h, (n <= m)%nat -> head_ok n h -> head_ok m h.
Proof.
  intros n m h Hnm [->|(j & Hj & ->)]; [left; reflexivity|].
  right. exists j. split; [lia|reflexivity].
Qed.

Lemma head_ok_0 : forall n, head_ok n 0.
Proof. intro n. left. reflexivity. Qed.

Lemma chain_fuel_gen : forall st, stubs_ok st ->
  forall f1 f2 n h, head_ok n h -> (n < f1)%nat -> (n < f2)%nat ->
  chain f1 st h = chain f2 st h.
Proof.
  intros st Hst. induction f1 as [|f1 IH]; intros f2 n h Hh H1 H2; [lia|].
  destruct f2 as [|f2]; [lia|].
  destruct Hh as [->|(j & Hj & ->)]; [rewrite !chain_0; reflexivity|].
  rewrite !chain_stub.
  destruct (nth_error st j) as [[tg pv]|] eqn:E; [|reflexivity].
  f_equal. apply (IH f2 j pv); [eapply Hst; eauto|lia|lia].
Qed.

(* fuel beyond the length is irrelevant *)
Lemma chain_fuel : forall st h, stubs_ok st -> head_ok (length st) h ->
  forall f1 f2, (length st < f1)%nat -> (length st < f2)%nat ->
  chain f1 st h = chain f2 st h.
Proof. intros st h Hst Hh f1 f2 H1 H2. eapply chain_fuel_gen; eauto. Qed.

Lemma chain_app : forall st more, stubs_ok st ->
  forall f h, head_ok (length st) h -> chain f (st ++ more) h = chain f st h.
Proof.
  intros st more Hst. induction f as [|f IH]; intros h Hh; [reflexivity|].
  destruct Hh as [->|(j & Hj & ->)]; [rewrite !chain_0; reflexivity|].
  rewrite !chain_stub, nth_error_app1 by exact Hj.
  destruct (nth_error st j) as [[tg pv]|] eqn:E; [|reflexivity].
  f_equal. apply IH. apply (head_ok_mono j); [lia|eapply Hst; eauto].
Qed.

(* appending stubs does not change older chains *)
Lemma targets_app : forall st more h, stubs_ok st -> head_ok (length st) h ->
  targets_of (st ++ more) h = targets_of st h.
Proof.
  intros st more h Hst Hh. unfold targets_of.
  rewrite chain_app by assumption.
  apply chain_fuel; try assumption; rewrite ?app_length; lia.
Qed.

Lemma targets_of_0 : forall st, targets_of st 0 = [].
Proof. intro st. apply chain_0. Qed.

(* every element of a chain is the target of some stub *)
Lemma chain_in : forall f st h tg, In tg (chain f st h) ->
  exists i pv, nth_error st i = Some (tg, pv).
Proof.
  induction f as [|f IH]; intros st h tg Hin; [destruct Hin|].
  rewrite chain_S in Hin. destruct (h =? 0); [destruct Hin|].
  destruct (nth_error st (N.to_nat (h / ssz - 1))) as [[tg' pv]|] eqn:E; [|destruct Hin].
  destruct Hin as [<-|Hin]; [eauto|]. eapply IH; eauto.
Qed.

Lemma targets_of_in : forall st h tg, In tg (targets_of st h) ->
  exists i pv, nth_error st i = Some (tg, pv).
Proof. intros st h tg. apply chain_in. Qed.

(* ---- push_stubs ---------------------------------------------------------- *)

Lemma push_stubs_nil : forall h st, push_stubs [] h st = (st, h).
Proof. reflexivity. Qed.

Lemma push_stubs_cons : forall tg r h st,
  push_stubs (tg :: r) h st = push_stubs r (stub_addr (length st)) (st ++ [(tg, h)]).
Proof.
  intros. unfold push_stubs. cbn [fold_left].
  rewrite app_length, Nat.add_1_r. reflexivity.
Qed.

Lemma stubs_ok_snoc : forall st tg h, stubs_ok st -> head_ok (length st) h ->
  stubs_ok (st ++ [(tg, h)]).
Proof.
  intros st tg h Hst Hh i tg' pv Hn.
  destruct (Nat.lt_ge_cases i (length st)) as [Hi|Hi].
  - rewrite nth_error_app1 in Hn by exact Hi. eapply Hst; eauto.
  - rewrite nth_error_app2 in Hn by exact Hi.
    destruct (i - length st)%nat as [|k] eqn:Ek.
    + cbn in Hn. injection Hn as <- <-. apply (head_ok_mono (length st)); [lia|exact Hh].
    + destruct k; discriminate Hn.
Qed.

Lemma targets_snoc : forall st tg h, stubs_ok st -> head_ok (length st) h ->
  targets_of (st ++ [(tg, h)]) (stub_addr (length st)) = tg :: targets_of st h.
Proof.
  intros st tg h Hst Hh. unfold targets_of.
  rewrite chain_stub, nth_error_app2, Nat.sub_diag by lia. cbn [nth_error].
  f_equal. rewrite chain_app by assumption.
  apply chain_fuel; try assumption; rewrite ?app_length; cbn [length]; lia.
Qed.

Lemma push_stubs_gen : forall targets h st, stubs_ok st -> head_ok (length st) h ->
  exists news,
    push_stubs targets h st = (st ++ news, snd (push_stubs targets h st)) /\
    map fst news = targets /\
    stubs_ok (st ++ news) /\
    head_ok (length (st ++ news)) (snd (push_stubs targets h st)) /\
    (targets <> [] -> snd (push_stubs targets h st) <> 0) /\
    targets_of (st ++ news) (snd (push_stubs targets h st)) = rev targets ++ targets_of st h.
Proof.
  induction targets as [|tg r IH]; intros h st Hst Hh.
  - exists []. rewrite push_stubs_nil, app_nil_r. cbn [snd map rev app].
    repeat split; auto; congruence.
  - rewrite push_stubs_cons.
    destruct (IH (stub_addr (length st)) (st ++ [(tg, h)])) as (news & E & Hm & Hok & Hhd & _ & Htg).
    { apply stubs_ok_snoc; assumption. }
    { right. exists (length st). split; [rewrite app_length; cbn; lia|reflexivity]. }
    exists ((tg, h) :: news).
    replace (st ++ (tg, h) :: news) with ((st ++ [(tg, h)]) ++ news)
      by (rewrite <- app_assoc; reflexivity).
    repeat split; auto.
    + cbn [map fst]. congruence.
    + intros _. destruct r as [|tg2 r2].
      * rewrite push_stubs_nil. cbn [snd]. apply stub_addr_nz.
      * destruct (IH (stub_addr (length st)) (st ++ [(tg, h)])) as (_ & _ & _ & _ & _ & Hnz & _).
        { apply stubs_ok_snoc; assumption. }
        { right. exists (length st). split; [rewrite app_length; cbn; lia|reflexivity]. }
        apply Hnz. discriminate.
    + rewrite Htg, targets_snoc by assumption. cbn [rev]. rewrite <- app_assoc. reflexivity.
Qed.

(* the effect of pushing a non-empty list of targets on the chain hanging from h *)
Lemma push_stubs_spec : forall targets h st,
  stubs_ok st -> head_ok (length st) h -> targets <> [] ->
  let '(st', h') := push_stubs targets h st in
  (exists news, st' = st ++ news /\ map fst news = targets) /\
  length st' = (length st + length targets)%nat /\
  stubs_ok st' /\ head_ok (length st') h' /\ h' <> 0 /\
  targets_of st' h' = rev targets ++ targets_of st h.
Proof.
  intros targets h st Hst Hh Hne.
  destruct (push_stubs_gen targets h st Hst Hh) as (news & E & Hm & Hok & Hhd & Hnz & Htg).
  rewrite E. repeat split; auto.
  - exists news. auto.
  - rewrite app_length. f_equal. rewrite <- Hm. symmetry. apply map_length.
Qed.

(* ====================================================================== *)
(* Part B — addresses                                                     *)
(* ====================================================================== *)

Lemma bsz_pos : 0 < bsz.
Proof. reflexivity. Qed.

Lemma mul_bsz_inj : forall k k', k * bsz = k' * bsz -> k = k'.
Proof. intros k k'. unfold bsz, py_node_block_size. lia. Qed.

Lemma nblk_pos : forall s, 1 <= nblk s.
Proof. intro s. unfold nblk. lia. Qed.

Lemma ins_nb_mono : forall flag ss pre pa nb h t, nb <= ins_nb flag ss pre pa nb h t.
Proof. intros. rewrite ins_nb_spec. lia. Qed.

(* the fields of a node that insertion of an LRU leaves alone *)
Definition keeps (d' d : nd) : Prop :=
  addr d' = addr d /\ stem d' = stem d /\ page d' = page d /\ crawled d' = crawled d /\
  we d' = we d /\ rule d' = rule d /\ outh d' = outh d /\ inh d' = inh d.

Lemma keeps_refl : forall d, keeps d d.
Proof. intro d. unfold keeps. repeat split; reflexivity. Qed.

Lemma keeps_nochild_if : forall (b : bool) d, keeps (if b then set_nochild false d else d) d.
Proof. intros [|] d; unfold keeps; repeat split; reflexivity. Qed.

(* a node of the tree after insertion is an old one, or sits on a missing prefix *)
Lemma find_ins_class : forall flag ss pre pa nb h t p d',
  find p (ins_t flag ss pre pa nb h t) = Some d' ->
  (exists d, find p t = Some d /\ keeps d' d) \/
  (find p t = None /\ is_prefix p ss = true /\ p <> []).
Proof.
  intros flag ss pre pa nb h t p d' Hf.
  assert (Hp : p <> []) by (intros ->; rewrite find_nil in Hf; discriminate).
  destruct (is_prefix p ss) eqn:Epre.
  - destruct (find p t) as [d|] eqn:Eold.
    + left. exists d. split; [reflexivity|].
      rewrite (find_ins_old flag ss pre pa nb h t p d Hp Epre Eold) in Hf.
      injection Hf as <-. apply keeps_nochild_if.
    + right. auto.
  - left. rewrite find_ins_other in Hf by assumption.
    exists d'. split; [exact Hf|apply keeps_refl].
Qed.

(* an old node survives insertion with its address and link heads *)
Lemma find_ins_keeps : forall flag ss pre pa nb h t p d,
  find p t = Some d ->
  exists d', find p (ins_t flag ss pre pa nb h t) = Some d' /\ keeps d' d.
Proof.
  intros flag ss pre pa nb h t p d Hf.
  assert (Hp : p <> []) by (intros ->; rewrite find_nil in Hf; discriminate).
  destruct (is_prefix p ss) eqn:Epre.
  - rewrite (find_ins_old flag ss pre pa nb h t p d Hp Epre Hf).
    eexists. split; [reflexivity|apply keeps_nochild_if].
  - rewrite find_ins_other by assumption. exists d. split; [exact Hf|apply keeps_refl].
Qed.

(* a new node gets a fresh block address *)
Lemma ins_new_addr : forall flag ss pre pa nb h t p,
  p <> [] -> is_prefix p ss = true -> find p t = None ->
  exists d', find p (ins_t flag ss pre pa nb h t) = Some d' /\
    (exists k, addr d' = k * bsz /\ nb <= k /\
               k + nblk (stem d') <= ins_nb flag ss pre pa nb h t) /\
    page d' = false /\ crawled d' = false /\ we d' = 0 /\ rule d' = false /\
    outh d' = 0 /\ inh d' = 0.
Proof.
  intros flag ss.
  induction ss as [|s rest IHss]; intros pre pa nb h t p Hp Hpre Hf.
  { destruct p; [congruence|discriminate Hpre]. }
  destruct p as [|x p']; [congruence|]. clear Hp.
  rewrite is_prefix_cons in Hpre. apply andb_prop in Hpre. destruct Hpre as [Hx Hpre].
  apply beq_eq in Hx. subst x.
  induction t as [|d l IHl c _ r IHr].
  - rewrite ins_t_Lf, ins_nb_Lf, find_Nd. cbn [stem]. rewrite lex_refl.
    destruct p' as [|x2 p2].
    + eexists. split; [reflexivity|]. cbn [addr stem page crawled we rule outh inh].
      split; [|repeat split; reflexivity].
      exists nb. split; [reflexivity|]. split; [lia|]. apply ins_nb_mono.
    + destruct (IHss (pre ++ s) (nb * bsz) (nb + nblk s) h Lf (x2 :: p2))
        as (d' & Hd' & (k & Hk1 & Hk2 & Hk3) & Hrest);
        [discriminate|exact Hpre|apply find_Lf|].
      exists d'. split; [exact Hd'|]. split; [|exact Hrest].
      exists k. split; [exact Hk1|]. split; [lia|exact Hk3].
  - rewrite ins_t_Nd, ins_nb_Nd. rewrite find_Nd in Hf. destruct (lex s (stem d)) eqn:E.
    + rewrite find_Nd, stem_nochild_if, E.
      destruct p' as [|x2 p2]; [discriminate Hf|].
      apply IHss; [discriminate|exact Hpre|exact Hf].
    + rewrite find_Nd, E. apply IHl. exact Hf.
    + rewrite find_Nd, E. apply IHr. exact Hf.
Qed.

(* distinct new nodes get distinct addresses *)
Lemma ins_new_inj : forall flag ss pre pa nb h t p q dp dq,
  p <> [] -> q <> [] -> is_prefix p ss = true -> is_prefix q ss = true ->
  find p t = None -> find q t = None ->
  find p (ins_t flag ss pre pa nb h t) = Some dp ->
  find q (ins_t flag ss pre pa nb h t) = Some dq ->
  addr dp = addr dq -> p = q.
Proof.
  intros flag ss.
  induction ss as [|s rest IHss]; intros pre pa nb h t p q dp dq Hp Hq Hpp Hpq Hfp Hfq.
  { destruct p; [congruence|discriminate Hpp]. }
  destruct p as [|x p']; [congruence|]. destruct q as [|y q']; [congruence|]. clear Hp Hq.
  rewrite is_prefix_cons in Hpp, Hpq.
  apply andb_prop in Hpp. destruct Hpp as [Hx Hpp]. apply beq_eq in Hx. subst x.
  apply andb_prop in Hpq. destruct Hpq as [Hy Hpq]. apply beq_eq in Hy. subst y.
  induction t as [|d l IHl c _ r IHr].
  - rewrite ins_t_Lf, !find_Nd. cbn [stem]. rewrite lex_refl.
    destruct p' as [|x2 p2]; destruct q' as [|y2 q2].
    + reflexivity.
    + intros Hdp Hdq Ha. exfalso. injection Hdp as <-. cbn [addr] in Ha.
      destruct (ins_new_addr flag rest (pre ++ s) (nb * bsz) (nb + nblk s) h Lf (y2 :: q2))
        as (d' & Hd' & (k & Hk1 & Hk2 & _) & _); [discriminate|exact Hpq|apply find_Lf|].
      rewrite Hd' in Hdq. injection Hdq as <-. rewrite Hk1 in Ha.
      apply mul_bsz_inj in Ha. pose proof (nblk_pos s). lia.
    + intros Hdp Hdq Ha. exfalso. injection Hdq as <-. cbn [addr] in Ha.
      destruct (ins_new_addr flag rest (pre ++ s) (nb * bsz) (nb + nblk s) h Lf (x2 :: p2))
        as (d' & Hd' & (k & Hk1 & Hk2 & _) & _); [discriminate|exact Hpp|apply find_Lf|].
      rewrite Hd' in Hdp. injection Hdp as <-. rewrite Hk1 in Ha.
      apply mul_bsz_inj in Ha. pose proof (nblk_pos s). lia.
    + intros Hdp Hdq Ha. f_equal.
      eapply (IHss (pre ++ s) (nb * bsz) (nb + nblk s) h Lf);
        try eassumption; try discriminate; apply find_Lf.
  - rewrite ins_t_Nd. rewrite find_Nd in Hfp, Hfq. destruct (lex s (stem d)) eqn:E.
    + rewrite !find_Nd, stem_nochild_if, E.
      destruct p' as [|x2 p2]; [discriminate Hfp|].
      destruct q' as [|y2 q2]; [discriminate Hfq|].
      intros Hdp Hdq Ha. f_equal.
      eapply IHss; try eassumption; discriminate.
    + rewrite !find_Nd, E. apply IHl; assumption.
    + rewrite !find_Nd, E. apply IHr; assumption.
Qed.

(* [1 <= nb]: block 0 is the header, so that a new node never gets address 0 *)
Lemma ins_addr_ok : forall flag ss pre pa nb h t,
  1 <= nb -> addr_ok t nb ->
  addr_ok (ins_t flag ss pre pa nb h t) (ins_nb flag ss pre pa nb h t).
Proof.
  intros flag ss pre pa nb h t Hnb [Hb Hinj]. split.
  - intros p d' Hf.
    destruct (find_ins_class _ _ _ _ _ _ _ _ _ Hf) as [(d & Hd & Hk)|(Hn & Hpre & Hp)].
    + destruct Hk as (Ea & Es & _). destruct (Hb p d Hd) as (k & Hk1 & Hk2 & Hk3).
      exists k. rewrite Ea, Es. pose proof (ins_nb_mono flag ss pre pa nb h t).
      split; [exact Hk1|]. split; [exact Hk2|lia].
    + destruct (ins_new_addr flag ss pre pa nb h t p Hp Hpre Hn)
        as (d1 & Hd1 & (k & Hk1 & Hk2 & Hk3) & _).
      rewrite Hd1 in Hf. injection Hf as <-.
      exists k. split; [exact Hk1|]. split; [lia|exact Hk3].
  - intros p q dp dq Hfp Hfq Ha.
    destruct (find_ins_class _ _ _ _ _ _ _ _ _ Hfp) as [(d1 & Hd1 & Hk1)|(Hn1 & Hpre1 & Hp1)];
    destruct (find_ins_class _ _ _ _ _ _ _ _ _ Hfq) as [(d2 & Hd2 & Hk2)|(Hn2 & Hpre2 & Hp2)].
    + destruct Hk1 as (Ea1 & _). destruct Hk2 as (Ea2 & _).
      apply (Hinj p q d1 d2 Hd1 Hd2). congruence.
    + exfalso. destruct Hk1 as (Ea1 & _).
      destruct (Hb p d1 Hd1) as (k1 & Hk11 & Hk12 & Hk13).
      destruct (ins_new_addr flag ss pre pa nb h t q Hp2 Hpre2 Hn2)
        as (d' & Hd' & (k & Hk1 & Hk2 & Hk3) & _).
      rewrite Hd' in Hfq. injection Hfq as <-.
      rewrite Ea1, Hk11, Hk1 in Ha. apply mul_bsz_inj in Ha.
      pose proof (nblk_pos (stem d1)). lia.
    + exfalso. destruct Hk2 as (Ea2 & _).
      destruct (Hb q d2 Hd2) as (k2 & Hk21 & Hk22 & Hk23).
      destruct (ins_new_addr flag ss pre pa nb h t p Hp1 Hpre1 Hn1)
        as (d' & Hd' & (k & Hk1 & Hk2 & Hk3) & _).
      rewrite Hd' in Hfp. injection Hfp as <-.
      rewrite Ea2, Hk21, Hk1 in Ha. apply mul_bsz_inj in Ha.
      pose proof (nblk_pos (stem d2)). lia.
    + eapply ins_new_inj; eassumption.
Qed.

(* ---- add_lru ------------------------------------------------------------- *)

Lemma add_lru_tr : forall flag l s,
  tr (fst (add_lru flag l s)) = ins_t flag (lru_iter l) [] 0 (nb s) hist0 (tr s).
Proof.
  intros. unfold add_lru, ins_t.
  destruct (ins flag (lru_iter l) [] 0 (nb s) hist0 (tr s)) as [[t' nb'] h']. reflexivity.
Qed.

Lemma add_lru_nb : forall flag l s,
  nb (fst (add_lru flag l s)) = ins_nb flag (lru_iter l) [] 0 (nb s) hist0 (tr s).
Proof.
  intros. unfold add_lru, ins_nb.
  destruct (ins flag (lru_iter l) [] 0 (nb s) hist0 (tr s)) as [[t' nb'] h']. reflexivity.
Qed.

Lemma add_lru_stubs : forall flag l s, stubs (fst (add_lru flag l s)) = stubs s.
Proof.
  intros. unfold add_lru.
  destruct (ins flag (lru_iter l) [] 0 (nb s) hist0 (tr s)) as [[t' nb'] h']. reflexivity.
Qed.

Lemma add_lru_wf : forall flag l s, wf_tst (tr s) -> wf_tst (tr (fst (add_lru flag l s))).
Proof. intros. rewrite add_lru_tr. apply ins_wf; [apply lru_iter_wf|assumption]. Qed.

Lemma add_lru_addr_ok : forall flag l s,
  1 <= nb s -> addr_ok (tr s) (nb s) ->
  let s' := fst (add_lru flag l s) in addr_ok (tr s') (nb s').
Proof.
  intros flag l s Hnb Hok. cbv zeta. rewrite add_lru_tr, add_lru_nb.
  apply ins_addr_ok; assumption.
Qed.

Lemma add_lru_addr_stable : forall flag l s p d,
  find p (tr s) = Some d ->
  exists d', find p (tr (fst (add_lru flag l s))) = Some d' /\
             addr d' = addr d /\ page d' = page d /\ outh d' = outh d /\ inh d' = inh d.
Proof.
  intros flag l s p d Hf. rewrite add_lru_tr.
  destruct (find_ins_keeps flag (lru_iter l) [] 0 (nb s) hist0 (tr s) p d Hf)
    as (d' & Hd' & Ha & _ & Hp & _ & _ & _ & Ho & Hi).
  exists d'. auto.
Qed.

(* the nodes of the tree after add_lru: old ones (heads kept) or fresh ones (no links) *)
Lemma add_lru_class : forall flag l s p d',
  find p (tr (fst (add_lru flag l s))) = Some d' ->
  (exists d, find p (tr s) = Some d /\ keeps d' d) \/
  (find p (tr s) = None /\ page d' = false /\ outh d' = 0 /\ inh d' = 0).
Proof.
  intros flag l s p d' Hf. rewrite add_lru_tr in Hf.
  destruct (find_ins_class _ _ _ _ _ _ _ _ _ Hf) as [H|(Hn & Hpre & Hp)]; [left; exact H|].
  right. split; [exact Hn|].
  destruct (ins_new_addr flag (lru_iter l) [] 0 (nb s) hist0 (tr s) p Hp Hpre Hn)
    as (d1 & Hd1 & _ & Hpg & _ & _ & _ & Ho & Hi).
  rewrite Hd1 in Hf. injection Hf as <-. auto.
Qed.

(* ---- upd ----------------------------------------------------------------- *)

Lemma find_upd_class : forall f q t p d', (forall d, stem (f d) = stem d) ->
  find p (upd f q t) = Some d' ->
  (p = q /\ exists d, find q t = Some d /\ d' = f d) \/ (p <> q /\ find p t = Some d').
Proof.
  intros f q t p d' Hf H.
  destruct (list_eq_dec (list_eq_dec N.eq_dec) p q) as [->|Hne].
  - left. split; [reflexivity|]. rewrite find_upd_same in H by exact Hf.
    destruct (find q t) as [d|]; [|discriminate H]. exists d. cbn in H. split; congruence.
  - right. split; [exact Hne|]. rewrite find_upd_other in H by assumption. exact H.
Qed.

Lemma find_upd_keeps : forall f q t p d, (forall d, stem (f d) = stem d) ->
  find p t = Some d ->
  find p (upd f q t) = Some d \/ (p = q /\ find p (upd f q t) = Some (f d)).
Proof.
  intros f q t p d Hf H.
  destruct (list_eq_dec (list_eq_dec N.eq_dec) p q) as [->|Hne].
  - right. split; [reflexivity|]. rewrite find_upd_same, H by exact Hf. reflexivity.
  - left. rewrite find_upd_other by assumption. exact H.
Qed.

Lemma upd_addr_ok : forall f q t nb,
  (forall d, stem (f d) = stem d /\ addr (f d) = addr d) ->
  addr_ok t nb -> addr_ok (upd f q t) nb.
Proof.
  intros f q t nb Hf [Hb Hinj].
  assert (Hs : forall d, stem (f d) = stem d) by (intro d; apply Hf).
  assert (Ha : forall d, addr (f d) = addr d) by (intro d; apply Hf).
  split.
  - intros p d' H. destruct (find_upd_class f q t p d' Hs H) as [(-> & d & Hd & ->)|(_ & Hd)].
    + rewrite Hs, Ha. eapply Hb; eauto.
    + eapply Hb; eauto.
  - intros p p' d1 d2 H1 H2 E.
    destruct (find_upd_class f q t p d1 Hs H1) as [(-> & e1 & He1 & ->)|(_ & He1)];
    destruct (find_upd_class f q t p' d2 Hs H2) as [(-> & e2 & He2 & ->)|(_ & He2)];
      rewrite ?Ha in E; eapply Hinj; eauto.
Qed.

(* ---- lru_at -------------------------------------------------------------- *)

Lemma node_at_spec : forall t nb p d, wf_tst t -> addr_ok t nb -> find p t = Some d ->
  exists d', node_at (addr d) t = Some (concat p, d').
Proof.
  intros t nb p d Hwf [_ Hinj] Hf. unfold node_at.
  destruct (List.find (fun x => addr (snd x) =? addr d) (all_nodes t)) as [[l d']|] eqn:E.
  - apply find_some in E. destruct E as [Hin Ha]. cbn [snd] in Ha. apply N.eqb_eq in Ha.
    rewrite all_nodes_paths in Hin. apply in_map_iff in Hin.
    destruct Hin as ([p' d''] & Heq & Hin). cbn [fst snd] in Heq. injection Heq as <- <-.
    apply (paths_find t Hwf) in Hin.
    rewrite (Hinj p' p d'' d Hin Hf Ha). eauto.
  - exfalso. apply (paths_find t Hwf) in Hf.
    assert (Hin : In (concat p, d) (all_nodes t)).
    { rewrite all_nodes_paths. apply in_map_iff. exists (p, d). split; [reflexivity|exact Hf]. }
    pose proof (find_none _ _ E (concat p, d) Hin) as Hc. cbn [snd] in Hc.
    rewrite N.eqb_refl in Hc. discriminate Hc.
Qed.

Lemma lru_at_spec : forall s p d, wf_tst (tr s) -> addr_ok (tr s) (nb s) ->
  find p (tr s) = Some d -> lru_at (addr d) s = concat p.
Proof.
  intros s p d Hwf Hok Hf. unfold lru_at.
  destruct (node_at_spec (tr s) (nb s) p d Hwf Hok Hf) as (d' & ->). reflexivity.
Qed.

(* lru_at only looks at the tree *)
Lemma lru_at_tr : forall a s s', tr s' = tr s -> lru_at a s' = lru_at a s.
Proof. intros a s s' E. unfold lru_at. rewrite E. reflexivity. Qed.

Lemma lru_at_add_lru : forall flag l s p d,
  wf_tst (tr s) -> 1 <= nb s -> addr_ok (tr s) (nb s) -> find p (tr s) = Some d ->
  lru_at (addr d) (fst (add_lru flag l s)) = lru_at (addr d) s.
Proof.
  intros flag l s p d Hwf Hnb Hok Hf.
  rewrite (lru_at_spec s p d Hwf Hok Hf).
  destruct (add_lru_addr_stable flag l s p d Hf) as (d' & Hd' & Ha & _).
  rewrite <- Ha. apply lru_at_spec; [apply add_lru_wf; exact Hwf| |exact Hd'].
  apply add_lru_addr_ok; assumption.
Qed.

Lemma lru_at_upd : forall f q s s' p d,
  (forall d, stem (f d) = stem d /\ addr (f d) = addr d) ->
  tr s' = upd f q (tr s) -> nb s' = nb s ->
  wf_tst (tr s) -> addr_ok (tr s) (nb s) -> find p (tr s) = Some d ->
  lru_at (addr d) s' = lru_at (addr d) s.
Proof.
  intros f q s s' p d Hf Etr Enb Hwf Hok Hd.
  assert (Hs : forall d, stem (f d) = stem d) by (intro x; apply Hf).
  rewrite (lru_at_spec s p d Hwf Hok Hd).
  assert (Hwf' : wf_tst (tr s')) by (rewrite Etr; apply upd_wf; assumption).
  assert (Hok' : addr_ok (tr s') (nb s')) by (rewrite Etr, Enb; apply upd_addr_ok; assumption).
  destruct (find_upd_keeps f q (tr s) p d Hs Hd) as [H|(_ & H)]; rewrite <- Etr in H.
  - apply (lru_at_spec s' p d Hwf' Hok' H).
  - replace (addr d) with (addr (f d)) by apply Hf.
    apply (lru_at_spec s' p (f d) Hwf' Hok' H).
Qed.
