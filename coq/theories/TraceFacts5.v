(* TraceFacts5.v — C18, part 5: add_links, index_batch_crawl, clear / init, and the
   final theorems (replay soundness of every request, cuts). *)
From Coq Require Import List NArith Bool Lia Arith Permutation.
Import ListNotations.
From Traph Require Import Bytes Consts Helpers Rules Tst TstDefs Traph Traphw Spec Ops RefDefs
  TstFacts LinkFacts LinkFacts2 LinkFacts3 TraceDefs TraceFacts TraceFacts2 TraceFacts3 TraceFacts4.
Open Scope N_scope.

Ltac splits := repeat match goal with |- _ /\ _ => split end.

(* ====================================================================== *)
(* LRUs known to the tree                                                  *)
(* ====================================================================== *)
Definition known (s : traph) (l : bytes) : Prop := nodeof s l <> None.
Definition all_known (s : traph) (seen : list bytes) : Prop := forall x, In x seen -> known s x.
Definition mm_known (s : traph) (mm : list (bytes * list bytes)) : Prop :=
  forall k vs v, In (k, vs) mm -> In v vs -> known s v.

Lemma Inv18_good : forall s, Inv18 s -> good s.
Proof. intros s [H1 _ H3 H4 _ _ _ _]. split; [exact H1|split; assumption]. Qed.

Lemma api_known : forall l cr s, Inv18 s -> wf_lru l -> known (st_of (add_page_int l cr s)) l.
Proof.
  intros l cr s H Hl. destruct (add_page_int_is_page l cr s (Inv18_good s H) Hl) as (d & Hd & _).
  unfold known, st_of. rewrite Hd. discriminate.
Qed.

Lemma api_keeps : forall l cr s x, Inv18 s -> known s x -> known (st_of (add_page_int l cr s)) x.
Proof.
  intros l cr s x H Hx. exact (step_known _ _ x (add_page_int_step l cr s (Inv18_good s H)) Hx).
Qed.

Lemma upd_known : forall f p s x, (forall d, stem (f d) = stem d) -> known s x ->
  known (set_tree (upd f p (tr s)) s) x.
Proof.
  intros f p s x Hs Hx. unfold known, nodeof in *. cbn [set_tree set_tr tr].
  destruct (find (lru_iter x) (tr s)) as [d|] eqn:E; [|congruence].
  destruct (find_upd_keeps f p (tr s) _ d Hs E) as [->|(_ & ->)]; discriminate.
Qed.

Lemma store_links_known : forall out p tgs s x, known s x -> known (store_links out p tgs s) x.
Proof.
  intros out p tgs s x Hx. unfold store_links.
  destruct tgs as [|t tgs]; [exact Hx|].
  destruct (find p (tr s)) as [d|]; [|exact Hx].
  destruct (push_stubs (t :: tgs) (if out then outh d else inh d) (stubs s)) as [st' h'].
  unfold known, nodeof in *. cbn [tr].
  destruct (find (lru_iter x) (tr s)) as [d0|] eqn:E; [|congruence].
  assert (Hs : forall d, stem ((if out then set_outh h' else set_inh h') d) = stem d)
    by (intro d1; destruct out; reflexivity).
  destruct (find_upd_keeps _ p (tr s) _ d0 Hs E) as [->|(_ & ->)]; discriminate.
Qed.

Lemma mm_add_vals : forall k v (mm : list (bytes * list bytes)) k' vs' v',
  In (k', vs') (mm_add k v mm) -> In v' vs' ->
  v' = v \/ exists vs0, In (k', vs0) mm /\ In v' vs0.
Proof.
  intros k v mm. induction mm as [|[k0 vs0] mm IH]; intros k' vs' v' Hin Hv; cbn [mm_add] in Hin.
  - destruct Hin as [E|[]]. injection E as <- <-. destruct Hv as [<-|[]]. left. reflexivity.
  - destruct (beq k k0).
    + destruct Hin as [E|Hin].
      * injection E as <- <-. apply in_app_iff in Hv. destruct Hv as [Hv|[<-|[]]].
        -- right. exists vs0. split; [left; reflexivity|exact Hv].
        -- left. reflexivity.
      * right. exists vs'. split; [right; exact Hin|exact Hv].
    + destruct Hin as [E|Hin].
      * injection E as <- <-. right. exists vs0. split; [left; reflexivity|exact Hv].
      * destruct (IH _ _ _ Hin Hv) as [->|(vs1 & H1 & H2)]; [left; reflexivity|].
        right. exists vs1. split; [right; exact H1|exact H2].
Qed.

Lemma mm_known_add : forall s k v mm, mm_known s mm -> known s v -> mm_known s (mm_add k v mm).
Proof.
  intros s k v mm Hm Hv k' vs' v' Hin Hv'.
  destruct (mm_add_vals _ _ _ _ _ _ Hin Hv') as [->|(vs0 & H1 & H2)]; [exact Hv|eauto].
Qed.

Lemma mm_known_mono : forall s s' mm, (forall x, known s x -> known s' x) -> mm_known s mm -> mm_known s' mm.
Proof. intros s s' mm Hk Hm k vs v H1 H2. apply Hk. eapply Hm; eauto. Qed.

Lemma all_known_mono : forall s s' l, (forall x, known s x -> known s' x) -> all_known s l -> all_known s' l.
Proof. intros s s' l Hk Ha x Hx. apply Hk, Ha, Hx. Qed.

(* ====================================================================== *)
(* Folds with an extra state invariant                                     *)
(* ====================================================================== *)
Lemma fold_left_ext : forall (A B : Type) (f g : A -> B -> A) l a,
  (forall a b, f a b = g a b) -> fold_left f l a = fold_left g l a.
Proof.
  intros A B f g l. induction l as [|x l IH]; intros a H; [reflexivity|].
  cbn [fold_left]. rewrite H. apply IH. exact H.
Qed.

Lemma flat_Tr_inv : forall (A : Type) (step : traph -> A -> traph) (stw : traph -> A -> list wr)
  (J : traph -> Prop) xs s, Inv18 s -> J s ->
  (forall s x, In x xs -> Inv18 s -> J s -> Tr (stw s x) s (step s x) /\ J (step s x)) ->
  Tr (flat_w step stw xs s) s (fold_left step xs s) /\ J (fold_left step xs s).
Proof.
  intros A step stw J. induction xs as [|x xs IH]; intros s H HJ Hstep; cbn [fold_left flat_w].
  - split; [apply Tr_nil; exact H|exact HJ].
  - destruct (Hstep s x (or_introl eq_refl) H HJ) as [T1 J1].
    destruct (IH (step s x) (Tr_inv _ _ _ T1) J1) as [T2 J2].
    { intros s0 y Hy. apply Hstep. right. exact Hy. }
    split; [eapply Tr_app; eauto|exact J2].
Qed.

(* ====================================================================== *)
(* flush_links                                                            *)
(* ====================================================================== *)
Definition fl_step (out : bool) (s : traph) (x : bytes * list bytes) : traph :=
  store_links out (lru_iter (fst x)) (map (fun o => addr_of o s) (snd x)) s.
Definition fl_w (out : bool) (s : traph) (x : bytes * list bytes) : list wr :=
  store_links_w out (fst x) (map (fun o => addr_of o s) (snd x)) s.

Lemma flush_links_eq : forall out mm s, flush_links out mm s = fold_left (fl_step out) mm s.
Proof.
  intros. unfold flush_links. apply fold_left_ext. intros a [p others]. reflexivity.
Qed.

Lemma flush_links_w_eq : forall out mm s, flush_links_w out mm s = flat_w (fl_step out) (fl_w out) mm s.
Proof.
  intros. unfold flush_links_w.
  rewrite (fold_left_ext _ _ _ (fun '(s, w) x => (fl_step out s x, w ++ fl_w out s x))).
  - rewrite fold_pair. reflexivity.
  - intros [s0 w0] [p others]. reflexivity.
Qed.

Lemma addr_of_known : forall s o, known s o -> exists p d, find p (tr s) = Some d /\ addr d = addr_of o s.
Proof.
  intros s o Ho. unfold known, nodeof in Ho. unfold addr_of.
  destruct (find (lru_iter o) (tr s)) as [d|] eqn:E; [|congruence]. eauto.
Qed.

Lemma flush_Tr : forall out mm s (J : traph -> Prop), Inv18 s -> mm_known s mm -> J s ->
  (forall s p tgs, J s -> J (store_links out p tgs s)) ->
  Tr (flush_links_w out mm s) s (flush_links out mm s) /\
  J (flush_links out mm s) /\ (forall x, known s x -> known (flush_links out mm s) x).
Proof.
  intros out mm s J H Hm HJ HJs. rewrite flush_links_w_eq, flush_links_eq.
  pose (K := fun s' : traph => (forall x, known s x -> known s' x) /\ J s').
  destruct (flat_Tr_inv _ (fl_step out) (fl_w out) K mm s H) as [T [K1 K2]].
  - split; auto.
  - intros s0 [p others] Hin H0 [Hk0 HJ0]. unfold fl_step, fl_w. cbn [fst snd]. split.
    + apply store_links_Tr; [exact H0|]. intros tg Htg. apply in_map_iff in Htg.
      destruct Htg as (o & <- & Ho). apply addr_of_known. apply Hk0. eapply Hm; eauto.
    + split; [|apply HJs; exact HJ0]. intros x Hx. apply store_links_known. apply Hk0. exact Hx.
  - auto.
Qed.

(* ====================================================================== *)
(* add_links                                                               *)
(* ====================================================================== *)
Definition seeM (cr : bool) (l : bytes) (x : traph * N * list (N * list bytes) * list bytes) :=
  let '(s, n, c, seen) := x in
  if mem_bytes l seen then (s, n, c, seen)
  else let '(s', n', c') := add_page_int l cr s in (s', n + n', c ++ c', l :: seen).
Definition seeW (cr : bool) (l : bytes) (x : traph * list wr * list bytes) :=
  let '(s, w, seen) := x in
  if mem_bytes l seen then (s, w, seen)
  else (st_of (add_page_int l cr s), w ++ add_page_int_w l cr s, l :: seen).

Lemma see_ok : forall cr l s0 s n c w seen, Tr w s0 s -> all_known s seen -> wf_lru l ->
  exists s' n' c' w' seen',
    seeM cr l (s, n, c, seen) = (s', n', c', seen') /\ seeW cr l (s, w, seen) = (s', w', seen') /\
    Tr w' s0 s' /\ all_known s' seen' /\ In l seen' /\ (forall x, In x seen -> In x seen') /\
    (forall x, known s x -> known s' x).
Proof.
  intros cr l s0 s n c w seen T Hk Hl. unfold seeM, seeW.
  destruct (mem_bytes l seen) eqn:Em.
  - exists s, n, c, w, seen. splits; auto. apply mem_bytes_in. exact Em.
  - pose proof (add_page_int_Tr l cr s (Tr_inv _ _ _ T)) as T2.
    pose proof (api_known l cr s (Tr_inv _ _ _ T) Hl) as K1.
    assert (K2 : forall x, known s x -> known (st_of (add_page_int l cr s)) x)
      by (intros x Hx; apply api_keeps; [apply (Tr_inv _ _ _ T)|exact Hx]).
    unfold st_of in *. destruct (add_page_int l cr s) as [[s' n'] c']. cbn [fst] in *.
    exists s', (n + n'), (c ++ c'), (w ++ add_page_int_w l cr s), (l :: seen).
    splits; auto.
    + eapply Tr_app; eauto.
    + intros x [<-|Hx]; [exact K1|apply K2, Hk, Hx].
    + left. reflexivity.
    + intros x Hx. right. exact Hx.
Qed.

Lemma add_links_alt : forall links s,
  add_links links s =
  let '(s1, n, c, _, outs, ins) :=
      fold_left (fun '(s, n, c, seen, outs, ins) '(a, b) =>
                   let '(s, n, c, seen) := seeM false a (s, n, c, seen) in
                   let '(s, n, c, seen) := seeM false b (s, n, c, seen) in
                   (s, n, c, seen, mm_add a b outs, mm_add b a ins))
                links (s, 0, [], [], [], []) in
  (flush_links false ins (flush_links true outs s1), Report n c).
Proof. reflexivity. Qed.

Lemma add_links_w_alt : forall links s,
  add_links_w links s =
  let '(s1, w, _, outs, ins) :=
      fold_left (fun '(s, w, seen, outs, ins) '(a, b) =>
                   let '(s, w, seen) := seeW false a (s, w, seen) in
                   let '(s, w, seen) := seeW false b (s, w, seen) in
                   (s, w, seen, mm_add a b outs, mm_add b a ins))
                links (s, [], [], [], []) in
  w ++ flush_links_w true outs s1 ++ flush_links_w false ins (flush_links true outs s1).
Proof. reflexivity. Qed.

Lemma add_links_Tr : forall links s, Inv18 s ->
  Forall (fun p => wf_lru (fst p) /\ wf_lru (snd p)) links ->
  Tr (add_links_w links s) s (fst (add_links links s)).
Proof.
  intros links s0 H0 Hwf. rewrite add_links_alt, add_links_w_alt.
  match goal with |- context [fold_left ?F links (s0, 0, [], [], [], [])] => set (FM := F) end.
  match goal with |- context [fold_left ?F links (s0, [], [], [], [])] => set (FW := F) end.
  assert (HG : forall ls s n c w seen outs ins,
            Forall (fun p => wf_lru (fst p) /\ wf_lru (snd p)) ls ->
            Tr w s0 s -> all_known s seen -> mm_known s outs -> mm_known s ins ->
            exists s' n' c' w' seen' outs' ins',
              fold_left FM ls (s, n, c, seen, outs, ins) = (s', n', c', seen', outs', ins') /\
              fold_left FW ls (s, w, seen, outs, ins) = (s', w', seen', outs', ins') /\
              Tr w' s0 s' /\ mm_known s' outs' /\ mm_known s' ins').
  { induction ls as [|[a b] ls IH]; intros s n c w seen outs ins Hls T Hk Ho Hi.
    - exists s, n, c, w, seen, outs, ins. splits; auto.
    - inversion Hls as [|x xs [Ha Hb] Hls']; subst. cbn [fst snd] in Ha, Hb.
      cbn [fold_left]. unfold FM at 2, FW at 2. cbn beta iota.
      destruct (see_ok false a s0 s n c w seen T Hk Ha)
        as (s1 & n1 & c1 & w1 & seen1 & E1 & E1' & T1 & K1 & Ia & Inc1 & Kk1).
      rewrite E1, E1'.
      destruct (see_ok false b s0 s1 n1 c1 w1 seen1 T1 K1 Hb)
        as (s2 & n2 & c2 & w2 & seen2 & E2 & E2' & T2 & K2 & Ib & Inc2 & Kk2).
      rewrite E2, E2'.
      apply IH; try assumption.
      + apply mm_known_add; [|apply K2, Ib].
        eapply mm_known_mono; [|exact Ho]. auto.
      + apply mm_known_add; [|apply K2, Inc2, Ia].
        eapply mm_known_mono; [|exact Hi]. auto. }
  destruct (HG links s0 0 [] [] [] [] [] Hwf (Tr_nil _ H0)) as
      (s1 & n1 & c1 & w1 & seen1 & outs1 & ins1 & -> & -> & T1 & Ho & Hi).
  { intros x []. } { intros k vs v []. } { intros k vs v []. }
  cbn [fst].
  destruct (flush_Tr true outs1 s1 (fun _ => True) (Tr_inv _ _ _ T1) Ho I) as (T2 & _ & K2); [auto|].
  destruct (flush_Tr false ins1 (flush_links true outs1 s1) (fun _ => True) (Tr_inv _ _ _ T2)) as (T3 & _ & _);
    [eapply mm_known_mono; eauto|exact I|auto|].
  eapply Tr_app; [exact T1|]. eapply Tr_app; [exact T2|exact T3].
Qed.

(* ====================================================================== *)
(* index_batch_crawl                                                       *)
(* ====================================================================== *)
Definition srcM (src : bytes) (x : traph * N * list (N * list bytes) * list bytes) :=
  let '(s, n, c, seen) := x in
  if mem_bytes src seen
  then (set_tree (upd set_crawled (lru_iter src) (tr s)) s, n, c, seen)
  else let '(s', n', c') := add_page_int src true s in (s', n + n', c ++ c', src :: seen).
Definition srcW (src : bytes) (x : traph * list wr * list bytes) :=
  let '(s, w, seen) := x in
  if mem_bytes src seen
  then (let s' := set_tree (upd set_crawled (lru_iter src) (tr s)) s in
        match find (lru_iter src) (tr s) with
        | Some d => if crawled d then (s', w, seen) else (s', w ++ node_write src s', seen)
        | None => (s', w, seen)
        end)
  else (st_of (add_page_int src true s), w ++ add_page_int_w src true s, src :: seen).

Lemma find_none_sub : forall p t, find p t = None -> find_sub p t = None.
Proof.
  intros p t H. rewrite find_of_sub in H. destruct (find_sub p t) as [[|d l c r]|] eqn:E; auto.
  - exfalso. exact (find_sub_not_Lf _ _ E).
  - discriminate H.
Qed.

Lemma upd_id : forall f p t d, find p t = Some d -> f d = d -> upd f p t = t.
Proof.
  intros f. induction p as [|s rest IH]; intros t d H Hf; [reflexivity|].
  induction t as [|d0 l IHl c _ r IHr]; [apply upd_Lf|].
  rewrite find_Nd in H. rewrite upd_Nd. destruct (lex s (stem d0)).
  - destruct rest as [|s2 rest2].
    + injection H as ->. rewrite Hf. reflexivity.
    + rewrite (IH c d H Hf). reflexivity.
  - rewrite (IHl H). reflexivity.
  - rewrite (IHr H). reflexivity.
Qed.

Lemma set_crawled_id : forall d, crawled d = true -> set_crawled d = d.
Proof. intros [a p s pg cr ru nc w o i] E. cbn in E. subst. reflexivity. Qed.

Lemma src_ok : forall src s0 s n c w seen, Tr w s0 s -> all_known s seen -> wf_lru src ->
  exists s' n' c' w' seen',
    srcM src (s, n, c, seen) = (s', n', c', seen') /\ srcW src (s, w, seen) = (s', w', seen') /\
    Tr w' s0 s' /\ all_known s' seen' /\ In src seen' /\ (forall x, known s x -> known s' x).
Proof.
  intros src s0 s n c w seen T Hk Hl. unfold srcM, srcW.
  pose proof (Tr_inv _ _ _ T) as HI.
  destruct (mem_bytes src seen) eqn:Em.
  - set (s' := set_tree (upd set_crawled (lru_iter src) (tr s)) s).
    assert (Kk : forall x, known s x -> known s' x) by (intros x Hx; apply upd_known; [reflexivity|exact Hx]).
    assert (Hcommon : forall w', Tr w' s0 s' ->
       exists s'0 n' c' w'0 seen',
         (s', n, c, seen) = (s'0, n', c', seen') /\ (s', w', seen) = (s'0, w'0, seen') /\
         Tr w'0 s0 s'0 /\ all_known s'0 seen' /\ In src seen' /\ (forall x, known s x -> known s'0 x)).
    { intros w' T'. exists s', n, c, w', seen. splits; auto.
      - eapply all_known_mono; eauto.
      - apply mem_bytes_in. exact Em. }
    destruct (find (lru_iter src) (tr s)) as [d|] eqn:Ef.
    + destruct (crawled d) eqn:Ec.
      * apply Hcommon. rewrite <- (app_nil_r w). eapply Tr_app; [exact T|].
        apply Tr_ram; try reflexivity; [exact HI|]. cbn [s' set_tree set_tr tr].
        apply (upd_id _ _ _ d Ef). apply set_crawled_id. exact Ec.
      * apply Hcommon. eapply Tr_app; [exact T|].
        apply node_write_upd_Tr; [exact HI|apply soft_set_crawled].
    + apply Hcommon. rewrite <- (app_nil_r w). eapply Tr_app; [exact T|].
      apply Tr_ram; try reflexivity; [exact HI|]. cbn [s' set_tree set_tr tr].
      apply upd_none. apply find_none_sub. exact Ef.
  - destruct (see_ok true src s0 s n c w seen T Hk Hl)
      as (s1 & n1 & c1 & w1 & seen1 & E1 & E1' & T1 & K1 & Ia & _ & Kk1).
    unfold seeM, seeW in E1, E1'. rewrite Em in E1, E1'.
    exists s1, n1, c1, w1, seen1. splits; auto.
Qed.

Lemma batch_alt : forall data s,
  batch_crawl data s =
  let '(s1, n, c, _, ins) :=
      fold_left
        (fun '(s, n, c, seen, ins) '(src, tgts) =>
           let '(s, n, c, seen) := srcM src (s, n, c, seen) in
           let '(s, n, c, seen, ins) :=
               fold_left (fun '(s, n, c, seen, ins) t =>
                            let '(s, n, c, seen) := seeM false t (s, n, c, seen) in
                            (s, n, c, seen, mm_add t src ins))
                         tgts (s, n, c, seen, ins) in
           (store_links true (lru_iter src) (map (fun o => addr_of o s) tgts) s, n, c, seen, ins))
        data (s, 0, [], [], []) in
  (flush_links false ins s1, Report n c).
Proof. reflexivity. Qed.

Lemma batch_w_alt : forall data s,
  batch_crawl_w data s =
  let '(s1, w, _, ins) :=
      fold_left
        (fun '(s, w, seen, ins) '(src, tgts) =>
           let '(s, w, seen) := srcW src (s, w, seen) in
           let '(s, w, seen, ins) :=
               fold_left (fun '(s, w, seen, ins) t =>
                            let '(s, w, seen) := seeW false t (s, w, seen) in
                            (s, w, seen, mm_add t src ins))
                         tgts (s, w, seen, ins) in
           let tg := map (fun o => addr_of o s) tgts in
           (store_links true (lru_iter src) tg s, w ++ store_links_w true src tg s, seen, ins))
        data (s, [], [], []) in
  w ++ flush_links_w false ins s1.
Proof. reflexivity. Qed.

Lemma batch_Tr : forall data s, Inv18 s ->
  Forall (fun p => wf_lru (fst p) /\ Forall wf_lru (snd p)) data ->
  Tr (batch_crawl_w data s) s (fst (batch_crawl data s)).
Proof.
  intros data s0 H0 Hwf. rewrite batch_alt, batch_w_alt.
  match goal with |- context [fold_left ?F data (s0, 0, [], [], [])] => set (GM := F) end.
  match goal with |- context [fold_left ?F data (s0, [], [], [])] => set (GW := F) end.
  (* the inner fold over the targets of one source *)
  assert (HI : forall src tgts s n c w seen ins,
            Forall wf_lru tgts -> Tr w s0 s -> all_known s seen -> mm_known s ins -> known s src ->
            exists s' n' c' w' seen' ins',
              fold_left (fun '(s, n, c, seen, ins) t =>
                           let '(s, n, c, seen) := seeM false t (s, n, c, seen) in
                           (s, n, c, seen, mm_add t src ins)) tgts (s, n, c, seen, ins)
                = (s', n', c', seen', ins') /\
              fold_left (fun '(s, w, seen, ins) t =>
                           let '(s, w, seen) := seeW false t (s, w, seen) in
                           (s, w, seen, mm_add t src ins)) tgts (s, w, seen, ins)
                = (s', w', seen', ins') /\
              Tr w' s0 s' /\ all_known s' seen' /\ mm_known s' ins' /\
              (forall t, In t tgts -> In t seen') /\ (forall x, In x seen -> In x seen')).
  { intros src. induction tgts as [|t tgts IH]; intros s n c w seen ins Ht T Hk Hi Hsrc.
    - exists s, n, c, w, seen, ins. splits; auto. intros t [].
    - inversion Ht as [|t' ts' Ht1 Ht2]; subst. cbn [fold_left].
      destruct (see_ok false t s0 s n c w seen T Hk Ht1)
        as (s1 & n1 & c1 & w1 & seen1 & E1 & E1' & T1 & K1 & Ia & Inc1 & Kk1).
      rewrite E1, E1'.
      destruct (IH s1 n1 c1 w1 seen1 (mm_add t src ins) Ht2 T1 K1)
        as (s2 & n2 & c2 & w2 & seen2 & ins2 & E2 & E2' & T2 & K2 & M2 & In2 & Inc2).
      + apply mm_known_add; [|apply Kk1, Hsrc]. eapply mm_known_mono; eauto.
      + apply Kk1, Hsrc.
      + exists s2, n2, c2, w2, seen2, ins2. splits; auto.
        intros x [<-|Hx]; auto. }
  assert (HG : forall ls s n c w seen ins,
            Forall (fun p => wf_lru (fst p) /\ Forall wf_lru (snd p)) ls ->
            Tr w s0 s -> all_known s seen -> mm_known s ins ->
            exists s' n' c' w' seen' ins',
              fold_left GM ls (s, n, c, seen, ins) = (s', n', c', seen', ins') /\
              fold_left GW ls (s, w, seen, ins) = (s', w', seen', ins') /\
              Tr w' s0 s' /\ mm_known s' ins').
  { induction ls as [|[src tgts] ls IH]; intros s n c w seen ins Hls T Hk Hi.
    - exists s, n, c, w, seen, ins. splits; auto.
    - inversion Hls as [|x xs [Ha Hb] Hls']; subst. cbn [fst snd] in Ha, Hb.
      cbn [fold_left]. unfold GM at 2, GW at 2. cbn beta iota.
      destruct (src_ok src s0 s n c w seen T Hk Ha)
        as (s1 & n1 & c1 & w1 & seen1 & E1 & E1' & T1 & K1 & Ia & Kk1).
      rewrite E1, E1'.
      destruct (HI src tgts s1 n1 c1 w1 seen1 ins Hb T1 K1)
        as (s2 & n2 & c2 & w2 & seen2 & ins2 & E2 & E2' & T2 & K2 & M2 & In2 & Inc2).
      { eapply mm_known_mono; eauto. } { apply K1, Ia. }
      rewrite E2, E2'. cbv zeta.
      assert (T3 : Tr (store_links_w true src (map (fun o => addr_of o s2) tgts) s2) s2
                      (store_links true (lru_iter src) (map (fun o => addr_of o s2) tgts) s2)).
      { apply store_links_Tr; [apply (Tr_inv _ _ _ T2)|]. intros tg Htg. apply in_map_iff in Htg.
        destruct Htg as (o & <- & Ho). apply addr_of_known. apply K2, In2, Ho. }
      apply IH; try assumption.
      + eapply Tr_app; eauto.
      + intros x Hx. apply store_links_known. apply K2, Hx.
      + eapply mm_known_mono; [|exact M2]. intros x Hx. apply store_links_known. exact Hx. }
  destruct (HG data s0 0 [] [] [] [] Hwf (Tr_nil _ H0)) as
      (s1 & n1 & c1 & w1 & seen1 & ins1 & -> & -> & T1 & Hi).
  { intros x []. } { intros k vs v []. }
  cbn [fst].
  destruct (flush_Tr false ins1 s1 (fun _ => True) (Tr_inv _ _ _ T1) Hi I) as (T2 & _ & _); [auto|].
  eapply Tr_app; [exact T1|exact T2].
Qed.
