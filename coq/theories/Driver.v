(* Driver.v — the executable face of the model for the correspondence harness.
   One generic answer type, one dispatcher: every script command (opcode + generic
   arguments) runs the model request AND the abstract specification side by side
   and returns both answers.  All request-specific logic is here in Coq, so that
   the OCaml side is a 100-line parser/printer. *)
From Coq Require Import List NArith Bool.
From Traph Require Import Bytes Consts Helpers Rules Tst Traph Spec Codec Storage Traphw Sched TraceDefs Store.
Import ListNotations.
Open Scope N_scope.

Inductive ans :=
| ARefused | ACrash | ANone
| ANum (n : N) | ABytes (b : bytes) | AList (l : list ans).

Record dstate := mkD { d_m : traph; d_a : astate }.
Definition d0 : dstate := mkD (init Domain []) (s_init Domain []).

(* ---- encoders ------------------------------------------------------------------ *)
Definition a_bool (b : bool) : ans := ANum (if b then 1 else 0).
Definition a_opt {A} (f : A -> ans) (o : option A) : ans := match o with Some x => f x | None => ANone end.
Definition a_list {A} (f : A -> ans) (l : list A) : ans := AList (map f l).
Definition a_res {A} (f : A -> ans) (r : res A) : ans :=
  match r with RRefused => ARefused | RCrash => ACrash | ROk x => f x end.
Definition a_reply (r : reply) : ans :=
  match r with
  | Refused => ARefused
  | Crash => ACrash
  | Ok => ANum 1
  | Report n c => AList [ANum n; a_list (fun '(w, ps) => AList [ANum w; a_list ABytes ps]) c]
  end.
Definition a_page (x : bytes * bool) : ans := AList [ABytes (fst x); a_bool (snd x)].
Definition a_link (x : bytes * bytes * N) : ans :=
  let '(a, b, w) := x in AList [ABytes a; ABytes b; ANum w].
Definition a_pair (x : bytes * bytes) : ans := AList [ABytes (fst x); ABytes (snd x)].

(* ---- decoders ------------------------------------------------------------------ *)
Definition g_num (a : ans) : N := match a with ANum n => n | _ => 0 end.
Definition g_bool (a : ans) : bool := match a with ANum 0 => false | ANum _ => true | _ => false end.
Definition g_bytes (a : ans) : bytes := match a with ABytes b => b | _ => [] end.
Definition g_list (a : ans) : list ans := match a with AList l => l | _ => [] end.
Definition g_optnum (a : ans) : option N := match a with ANum n => Some n | _ => None end.
Definition g_optbytes (a : ans) : option bytes := match a with ABytes b => Some b | _ => None end.
Definition g_kind (a : ans) : rulekind :=
  match g_num a with 0 => Domain | 1 => Subdomain | n => Path (N.to_nat (n - 1)) end.
Definition g_rules (a : ans) : list (bytes * rulekind) :=
  map (fun x => match g_list x with [p; k] => (g_bytes p, g_kind k) | _ => ([], Domain) end) (g_list a).
Definition g_blist (a : ans) : list bytes := map g_bytes (g_list a).
Definition g_pairs (a : ans) : list (bytes * bytes) :=
  map (fun x => match g_list x with [p; q] => (g_bytes p, g_bytes q) | _ => ([], []) end) (g_list a).
Definition g_batch (a : ans) : list (bytes * list bytes) :=
  map (fun x => match g_list x with [p; q] => (g_bytes p, g_blist q) | _ => ([], []) end) (g_list a).
Definition arg (n : nat) (args : list ans) : ans := nth n args ANone.

(* ---- storage machines (C15) ------------------------------------------------------ *)
Definition g_sop (a : ans) : sop :=
  match g_list a with
  | [ANum 0; ANum b] => SRead b
  | [ANum 1] => SReadNext
  | [ANum 2; ABytes d; ANum b] => SWrite d b
  | [ANum 3; ABytes d] => SAppend d
  | [ANum 4] => SLen
  | _ => SCount
  end.
Definition a_sres (r : sres) : ans :=
  match r with
  | RData (Some b) => ABytes b
  | RData None => ANone
  | RBlock b => AList [ANum b]
  | RLen n => ANum n
  end.

(* ---- answers of the abstract side ---------------------------------------------- *)
Definition a_tm (m : trie_metrics) : ans :=
  AList [ANum (m_nodes m); ANum (m_pages m); ANum (m_crawled m); ANum (m_tail m);
         ANum (m_fragmented m); ANum (m_stems m); ANum (m_max_tail m)].
Definition a_pr (r : page_result) : ans :=
  AList [a_bool (pr_done r); ANum (pr_count r); ANum (pr_count_crawled r);
         a_list a_page (pr_pages r); a_opt ABytes (pr_token r)].
Definition a_lr (r : link_result) : ans :=
  AList [a_bool (lr_done r); ANum (lr_sources r); a_list a_link (lr_links r); a_opt ABytes (lr_token r)].
Definition a_graph (g : list (N * N * N * N)) : ans :=
  a_list (fun '(a, b, c, v) => AList [ANum a; ANum b; ANum c; ANum v]) g.

Definition both (m a : ans) : ans := AList [m; a].

(* ---- coroutines (C16) ---- *)
Definition g_coro (x : ans) : coro :=
  match g_list x with
  | [ANum 0; d] => CBatch (batch_start (g_batch d))
  | [ANum 1; p; k] => CRule (rule_start (g_bytes p) (g_kind k))
  | [ANum 2; _; ps] => CPages (pagesq_start (g_blist ps))
  | [ANum 3; o; au] => CNet (netq_start (g_bool o) (g_bool au))
  | [ANum 4; w; ps; inb; int; outb] =>
      CLinks (plinksq_start (g_num w) (g_blist ps) (g_bool inb) (g_bool int) (g_bool outb))
  | _ => CPages (pagesq_start [])
  end.
Definition a_coro (c : coro) : ans :=
  match c with
  | CBatch b => AList [a_bool (b_done b); a_reply (Report (b_n b) (b_c b))]
  | CRule r => AList [a_bool (r_done r); a_reply (Report (r_n r) (r_c r))]
  | CPages q => AList [a_bool (q_done q); if q_refused q then ARefused else a_list a_page (q_acc q)]
  | CNet q => AList [a_bool (n_done q); a_graph (n_graph q)]
  | CLinks q => AList [a_bool (l_done q); if l_refused q then ARefused else a_list a_link (l_acc q)]
  end.
Fixpoint finish_all (n : nat) (cs : list coro) (m : traph) : list coro * traph :=
  match n with
  | O => (cs, m)
  | S k =>
      let '(cs', m') := finish_all k cs m in
      match nth_error cs' k with
      | Some c => let '(c', m'') := run_alone 100000 c m' in (set_nth_co k c' cs', m'')
      | None => (cs', m')
      end
  end.
Definition seq_spec (x : ans) (a : astate) : astate :=
  match g_list x with
  | [ANum 0; d] => fst (s_batch (g_batch d) a)
  | [ANum 1; p; k] => fst (s_add_rule (g_bytes p) (g_kind k) true (pages_beneath (g_bytes p) a) a)
  | _ => a
  end.

(* write requests: run both sides *)
Definition wr (st : dstate) (rm : traph * reply) (ra : astate * reply) : dstate * ans :=
  (mkD (fst rm) (fst ra), both (a_reply (snd rm)) (a_reply (snd ra))).
Definition rep3 (x : astate * N * list (N * list bytes)) : astate * reply :=
  let '(a, n, c) := x in (a, Report n c).

Definition exec (op : N) (args : list ans) (st : dstate) : dstate * ans :=
  let m := d_m st in
  let a := d_a st in
  let A0 := arg 0 args in let A1 := arg 1 args in let A2 := arg 2 args in
  let A3 := arg 3 args in let A4 := arg 4 args in let A5 := arg 5 args in
  match op with
  (* ---- configuration and write requests ---- *)
  | 1 => (mkD (init (g_kind A0) (g_rules A1)) (s_init (g_kind A0) (g_rules A1)), both (ANum 1) (ANum 1))
  | 2 => wr st (add_page (g_bytes A0) (g_bool A1) m) (rep3 (s_add_page (g_bytes A0) (g_bool A1) a))
  | 3 => wr st (add_pages (g_blist A0) (g_bool A1) m) (rep3 (s_add_pages (g_blist A0) (g_bool A1) a))
  | 4 => wr st (add_links (g_pairs A0) m) (s_add_links (g_pairs A0) a)
  | 5 => wr st (batch_crawl (g_batch A0) m) (s_batch (g_batch A0) a)
  | 6 => wr st (create_webentity (g_blist A0) m) (s_create (g_blist A0) a)
  | 7 => wr st (delete_webentity (g_num A0) (g_blist A1) m) (s_delete (g_num A0) (g_blist A1) a)
  | 8 => wr st (add_prefix (g_bytes A0) (g_num A1) m) (s_add_prefix (g_bytes A0) (g_num A1) a)
  | 9 => wr st (remove_prefix (g_bytes A0) (g_num A1) m) (s_remove_prefix (g_bytes A0) (g_num A1) a)
  | 10 => wr st (move_prefix (g_bytes A0) (g_num A1) (g_num A2) m)
             (s_move_prefix (g_bytes A0) (g_num A1) (g_num A2) a)
  | 11 => (* the order in which the index re-inserts the pages is taken from the model *)
      let order := pages_under (g_bytes A0)
                     (fst (add_lru false (g_bytes A0) m)) in
      wr st (add_rule (g_bytes A0) (g_kind A1) true m) (s_add_rule (g_bytes A0) (g_kind A1) true order a)
  | 12 => wr st (remove_rule (g_bytes A0) m) (s_remove_rule (g_bytes A0) a)
  | 13 => (mkD (reopen (g_kind A0) (g_rules A1) m) (s_reopen (g_kind A0) (g_rules A1) a), both (ANum 1) (ANum 1))
  | 14 =>
      let od := match A0 with ANum _ => Some (g_kind A0) | _ => None end in
      let ors := match A1 with AList _ => Some (g_rules A1) | _ => None end in
      (mkD (clear od ors m) (s_clear od ors a), both (ANum 1) (ANum 1))
  (* ---- read requests ---- *)
  | 20 => (st, both (match retrieve_webentity (g_bytes A0) m with Some w => ANum w | None => ARefused end)
                    (match s_resolve_we (g_bytes A0) a with Some w => ANum w | None => ARefused end))
  | 21 => (st, both (match retrieve_prefix (g_bytes A0) m with Some p => ABytes p | None => ARefused end)
                    (match s_resolve_prefix (g_bytes A0) a with Some p => ABytes p | None => ARefused end))
  | 22 => (st, both (a_opt ABytes (potential_prefix (g_bytes A0) m)) (a_opt ABytes (s_potential (g_bytes A0) a)))
  | 23 => (st, both (a_res ANum (webentity_by_prefix (g_bytes A0) m))
                    (match aget (g_bytes A0) (a_pref a) with Some w => ANum w | None => ARefused end))
  | 24 => (st, both (a_res (a_list a_page) (webentity_pages (g_blist A1) m))
                    (a_res (a_list a_page) (s_we_pages None (g_blist A1) a)))
  | 25 => (st, both (a_res (a_list a_page) (webentity_crawled_pages (g_blist A1) m))
                    (a_res (fun l => a_list a_page (filter (fun x => snd x) l)) (s_we_pages None (g_blist A1) a)))
  | 26 => (st, both (a_res a_pr (paginate_pages (g_blist A1) (g_optnum A2) (g_optbytes A3) (g_bool A4) m))
                    (a_res (a_list a_page) (s_paged (g_bool A4) (g_blist A1) a)))
  | 27 => (st, both (a_res (a_list (fun x => AList [ABytes (fst x); ANum (snd x)]))
                           (most_linked (g_blist A1) (g_num A2) (g_optnum A3) m))
                    (a_res (a_list (fun x => AList [ABytes (fst x); ANum (s_indegree (fst x) a)]))
                           (s_we_pages (g_optnum A3) (g_blist A1) a)))
  | 28 => (st, both (a_res (a_list ANum) (parent_webentities (g_num A0) (g_blist A1) m))
                    (a_res (a_list ANum) (s_parents (g_num A0) (g_blist A1) a)))
  | 29 => (st, both (a_res (a_list ANum) (child_webentities (g_num A0) (g_blist A1) m))
                    (a_res (a_list ANum) (s_children (g_num A0) (g_blist A1) a)))
  | 30 => (st, both (a_res (a_list a_link)
                           (webentity_pagelinks (g_num A0) (g_blist A1) (g_bool A2) (g_bool A3) (g_bool A4) m))
                    (a_res (a_list a_link)
                           (s_pagelinks (g_num A0) (g_blist A1) (g_bool A2) (g_bool A3) (g_bool A4) a)))
  | 31 => (st, both (a_res a_lr (paginate_pagelinks (g_num A0) (g_blist A1) (g_bool A2) (g_bool A3)
                                                    (g_optnum A4) (g_optbytes A5) m))
                    (a_res (a_list a_link)
                           (s_pagelinks (g_num A0) (g_blist A1) false (g_bool A2) (g_bool A3) a)))
  | 32 => (st, both (a_res (a_list ANum) (webentity_neighbours (g_bool A0) (g_blist A2) m))
                    (a_res (a_list ANum) (s_neighbours (g_bool A0) (g_blist A2) a)))
  | 33 => (st, both (a_list a_link (page_links (g_bytes A0) (g_bool A1) (g_bool A2) (g_bool A3) m))
                    (a_list a_link (s_page_links (g_bytes A0) (g_bool A1) (g_bool A2) (g_bool A3) a)))
  | 34 => (st, both (a_graph (if g_bool A2 then webentities_links_slow (g_bool A0) (g_bool A1) m
                              else webentities_links (g_bool A0) (g_bool A1) m))
                    (AList [a_list (fun '(x, y, n) => if g_bool A0 then AList [ANum x; ANum y; ANum n]
                                                      else AList [ANum y; ANum x; ANum n])
                                   (s_network (g_bool A1) a);
                            a_list (fun w => let '(c, u) := s_tally w a in AList [ANum w; ANum c; ANum u])
                                   (deduped (filter (fun w => negb (w =? 0))
                                                    (map (fun x => owner a (fst x)) (a_pages a))))]))
  | 35 => (st, both (a_list a_page (pages_iter m)) (a_list a_page (a_pages a)))
  | 36 => (st, both (a_list (fun x => AList [ABytes (fst x); ANum (snd x)]) (prefix_iter m))
                    (a_list (fun x => AList [ABytes (fst x); ANum (snd x)]) (a_pref a)))
  | 37 => (st, both (a_list a_pair (links_iter (g_bool A0) m))
                    (a_list (fun p => if g_bool A0 then a_pair p else a_pair (snd p, fst p))
                            (dedup_pairs (a_links a))))
  | 38 => (st, both (AList [ANum (count_pages m); ANum (count_crawled_pages m); ANum (count_links_x2 m)])
                    (AList [ANum (blen (a_pages a)); ANum (count_if (fun x => snd x) (a_pages a));
                            ANum (s_stubs a)]))
  | 39 => (st, both (AList (g_list (a_tm (metrics m)) ++ [ANum (count_links_x2 m)]))
                    (AList [ANum (s_trie_blocks a - 1); ANum (blen (a_pages a));
                            ANum (count_if (fun x => snd x) (a_pages a));
                            ANum (s_trie_blocks a - 1 - blen (a_known a)); ANum (s_stubs a)]))
  | 48 => (* Traph.metrics(): the "links" figures and the integer "bst" figures *)
      let '(mi, li, mo, lo) := links_metrics m in
      let '(nb, mh, ms, sh, ss) := bst_metrics m in
      (st, both (AList [ANum mi; ABytes li; ANum mo; ABytes lo; ANum nb; ANum mh; ANum ms; ANum sh; ANum ss]) ANone)
  | 46 =>
      (* page degree figures: [indegree; outdegree; degree; weighted indegree; weighted outdegree; weighted degree] *)
      let figs (pl : bytes -> bool -> bool -> bool -> list (bytes * bytes * N)) :=
          let sumw (l : list (bytes * bytes * N)) := fold_left (fun acc x => acc + snd x) l 0 in
          let i := pl (g_bytes A0) true false false in
          let o := pl (g_bytes A0) false false true in
          let d := pl (g_bytes A0) true true true in
          AList [ANum (blen i); ANum (blen o); ANum (blen d); ANum (sumw i); ANum (sumw o); ANum (sumw d)] in
      (st, both (figs (fun l x y z => page_links l x y z m)) (figs (fun l x y z => s_page_links l x y z a)))
  | 47 =>
      (* the located node by the tree model, and by pointer following on the stored blocks *)
      let f := files_of m in
      let blk := b_lru_node f (g_bytes A0) in
      (st, both (AList [a_opt (fun d => ANum (addr d)) (find (lru_iter (g_bytes A0)) (tr m));
                        a_opt ANum blk;
                        match blk with Some a => a_opt ABytes (b_windup_lru f a) | None => ANone end])
                ANone)
  | 40 => (st, both (a_list ABytes (lru_variations (g_bytes A0))) ANone)
  | 41 => (st, both (match find (lru_iter (g_bytes A0)) (tr m) with
                     | Some d => AList [ANum 1; ABytes (lru_at (addr d) m)]
                     | None => AList [ANum 0]
                     end)
                    (a_bool (mem_bytes (g_bytes A0) (a_known a))))
  | 42 => (st, both (a_list (fun x => ABytes (fst x)) (all_nodes (tr m))) (a_list ABytes (a_known a)))
  | 43 => (st, both (ABytes (trie_file m)) ANone)
  | 44 => (st, both (ABytes (link_file m)) ANone)
  | 45 => (st, both (AList [ANum (nb m * bsz); ANum ((1 + blen (stubs m)) * ssz)])
                    (AList [ANum (s_trie_blocks a * bsz); ANum ((1 + s_stubs a) * ssz)]))
  (* ---- pure helpers ---- *)
  | 60 => (st, both (a_list ABytes (lru_iter (g_bytes A0))) ANone)
  | 61 => (st, both (ABytes (build_token (g_num A0) (g_num A1))) ANone)
  | 62 => (st, both (a_opt (fun '(i, p) => AList [ANum i; ANum p]) (parse_token (g_bytes A0))) ANone)
  | 63 => (st, both (a_opt ABytes (apply_rule (g_kind A0) (g_bytes A1))) ANone)
  | 64 => (st, both (a_list ABytes (stem_head (g_bytes A0) :: stem_tail_chunks (g_bytes A0))) ANone)
  | 65 => (st, both (ABytes (lru_dirname (g_bytes A0))) ANone)
  | 66 => (st, both (AList [ANum (base4_append (g_num A0) (g_num A1)); a_list ANum (int_to_base4 (g_num A0))]) ANone)
  | 70 =>
      let ops := map g_sop (g_list A1) in
      let '(fs, fr) := file_run (g_num A0) (mkF [] 0) ops in
      let '(ms, mr) := mem_run (g_num A0) (mkM [] 0) ops in
      (st, both (AList [a_list a_sres fr; ABytes (f_data fs)]) (AList [a_list a_sres mr; ABytes (m_data ms)]))
  | 80 =>
      (* cooperative interleaving: start the coroutines, advance them as the schedule says, then
         finish the unfinished ones in index order.  The specification side applies the writing
         requests one after another (the property: final pages and links are those). *)
      let cs := map g_coro (g_list A0) in
      let sched := map (fun x => N.to_nat (g_num x)) (g_list A1) in
      let '(cs1, m1) := exec_sched sched cs m in
      let '(cs2, m2) := finish_all (length cs1) cs1 m1 in
      let a2 := fold_left (fun a x => seq_spec x a) (g_list A0) a in
      (mkD m2 a2, both (a_list a_coro cs2) ANone)
  | 81 =>
      (* abandoned requests: the coroutines are started and advanced as the schedule says, and then dropped.  A request
         that never ran a step leaves nothing behind; the specification side applies only the writing requests that ran to
         their end (a writer dropped half-way leaves the specification state where it was: the harness stops consulting it) *)
      let cs := map g_coro (g_list A0) in
      let sched := map (fun x => N.to_nat (g_num x)) (g_list A1) in
      let '(cs1, m1) := exec_sched sched cs m in
      let a2 := fold_left (fun a xc => if co_done (snd xc) then seq_spec (fst xc) a else a) (combine (g_list A0) cs1) a in
      (mkD m1 a2, both (a_list (fun c => if co_done c then a_coro c else AList [a_bool false; ANone]) cs1) ANone)
  | _ => (st, ACrash)
  end.

(* ---- write traces (C18): opcode 100 + k runs request k and also returns its program-ordered writes ---- *)
Definition writes_of (op : N) (args : list ans) (m : traph) : list Traphw.wr :=
  let A0 := arg 0 args in let A1 := arg 1 args in let A2 := arg 2 args in
  match op with
  | 1 => [THdr 0; LHdr] ++ install_rules_w (g_rules A1) (mkT Lf 1 0 [] [] (g_kind A0))
  | 2 => add_page_int_w (g_bytes A0) (g_bool A1) m
  | 3 => add_pages_w (g_blist A0) (g_bool A1) m
  | 4 => add_links_w (g_pairs A0) m
  | 5 => batch_crawl_w (g_batch A0) m
  | 6 => create_webentity_w (g_blist A0) m
  | 7 => delete_webentity_w (g_num A0) (g_blist A1) m
  | 8 => add_prefix_w (g_bytes A0) (g_num A1) m
  | 9 => remove_prefix_w (g_bytes A0) (g_num A1) m
  | 10 => move_prefix_w (g_bytes A0) (g_num A1) (g_num A2) m
  | 11 => add_rule_w (g_bytes A0) (g_kind A1) m
  | 12 => remove_rule_w (g_bytes A0) m
  | 14 => clear_w (match A0 with ANum _ => Some (g_kind A0) | _ => None end)
                  (match A1 with AList _ => Some (g_rules A1) | _ => None end) m
  | _ => []
  end.
Definition a_wr (w : Traphw.wr) : ans :=
  AList [a_bool (wr_file w); a_opt ANum (wr_offset w); ABytes (wr_bytes w)].
Definition exec_traced (op : N) (args : list ans) (st : dstate) : dstate * ans :=
  if 100 <? op then
    let k := op - 100 in
    let tr := writes_of k args (d_m st) in
    let '(st', a) := exec k args st in
    (st', AList [a; a_list a_wr tr])
  else exec op args st.
