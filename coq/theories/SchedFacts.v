(* SchedFacts.v — index_batch_crawl_iter as a coroutine (Sched.v), part 1:
   the code between two yields cut into micro-steps carrying ghost state
   (abstract pages, the pairs whose out-chain / in-chain has been written), and
   T1: a coroutine run alone is the request index_batch_crawl. *)
From Coq Require Import List NArith Bool Lia Arith.
Import ListNotations.
From Traph Require Import Bytes Consts Helpers Rules Tst TstDefs Traph Spec Sched.
Open Scope N_scope.

Notation created := (list (N * list bytes)).
Notation links := (list (bytes * bytes)).

(* ====================================================================== *)
(* configurations and micro-steps                                         *)
(* ====================================================================== *)

(* coroutine, index, ghost abstract state, ghost out-pairs, ghost in-pairs *)
Record cfg := mkC { cb : bco; cs : traph; ca : astate; co : links; ci : links }.

(* one iteration of the loop of batch_step; the boolean says "yield after it" *)
Definition micro (c : cfg) : cfg * bool :=
  let b := cb c in let s := cs c in
  match b_flush b with
  | Some [] => (mkC (mkB [] None (b_seen b) (b_ins b) (Some []) (b_n b) (b_c b) true) s (ca c) (co c) (ci c), true)
  | Some ((t, srcs) :: rest) =>
      (mkC (mkB [] None (b_seen b) (b_ins b) (Some rest) (b_n b) (b_c b) false)
           (store_links false (lru_iter t) (map (fun o => addr_of o s) srcs) s)
           (ca c) (co c) (ci c ++ map (fun o => (o, t)) srcs), true)
  | None =>
    match b_cur b with
    | None =>
        match b_todo b with
        | [] => (mkC (mkB [] None (b_seen b) (b_ins b) (Some (b_ins b)) (b_n b) (b_c b) false) s
                     (ca c) (co c) (ci c), false)
        | (src, tgts) :: todo =>
            let b0 := mkB todo (Some (src, tgts, [])) (b_seen b) (b_ins b) None (b_n b) (b_c b) false in
            if mem_bytes src (b_seen b)
            then (mkC b0 (set_tree (upd set_crawled (lru_iter src) (tr s)) s)
                      (mark_crawled src (ca c)) (co c) (ci c), false)
            else let '(b1, s1) := b_see src true b0 s in
                 (mkC b1 s1 (fst (fst (s_add_page src true (ca c)))) (co c) (ci c), false)
        end
    | Some (src, [], done) =>
        (mkC (mkB (b_todo b) None (b_seen b) (b_ins b) None (b_n b) (b_c b) false)
             (store_links true (lru_iter src) (map (fun o => addr_of o s) done) s)
             (ca c) (co c ++ map (fun t => (src, t)) done) (ci c), false)
    | Some (src, t :: rest, done) =>
        let b0 := mkB (b_todo b) (Some (src, rest, done ++ [t])) (b_seen b) (mm_add t src (b_ins b)) None
                      (b_n b) (b_c b) false in
        if mem_bytes t (b_seen b) then (mkC b0 s (ca c) (co c) (ci c), false)
        else let '(b1, s1) := b_see t false b0 s in
             (mkC b1 s1 (fst (fst (s_add_page t false (ca c)))) (co c) (ci c), true)
    end
  end.

Fixpoint giter (fuel : nat) (c : cfg) : cfg :=
  match fuel with
  | O => c
  | S f => let '(c', y) := micro c in if y then c' else giter f c'
  end.

(* the ghost components do not influence the run *)
Lemma batch_step_giter : forall fuel c,
  batch_step fuel (cb c) (cs c) = (cb (giter fuel c), cs (giter fuel c)).
Proof.
  induction fuel as [|f IH]; intros [b s a go gi]; [reflexivity|].
  cbn [giter batch_step cb cs]. unfold micro. cbn [cb cs ca co ci].
  destruct (b_flush b) as [[|[t srcs] rest]|]; [reflexivity|reflexivity|].
  destruct (b_cur b) as [[[src [|t rest]] done]|].
  - apply (IH (mkC _ _ _ _ _)).
  - destruct (mem_bytes t (b_seen b)).
    + apply (IH (mkC _ _ _ _ _)).
    + destruct (b_see t false _ s) as [b1 s1]. reflexivity.
  - destruct (b_todo b) as [|[src tgts] todo].
    + apply (IH (mkC _ _ _ _ _)).
    + destruct (mem_bytes src (b_seen b)).
      * apply (IH (mkC _ _ _ _ _)).
      * destruct (b_see src true _ s) as [b1 s1]. apply (IH (mkC _ _ _ _ _)).
Qed.

(* the micro-steps as a relation: one constructor per branch *)
Inductive mstep : cfg -> cfg -> Prop :=
| MS_fin : forall todo cur seen ins n c dn s a go gi,
    mstep (mkC (mkB todo cur seen ins (Some []) n c dn) s a go gi)
          (mkC (mkB [] None seen ins (Some []) n c true) s a go gi)
| MS_flush : forall todo cur seen ins t srcs rest n c dn s a go gi,
    mstep (mkC (mkB todo cur seen ins (Some ((t, srcs) :: rest)) n c dn) s a go gi)
          (mkC (mkB [] None seen ins (Some rest) n c false)
               (store_links false (lru_iter t) (map (fun o => addr_of o s) srcs) s)
               a go (gi ++ map (fun o => (o, t)) srcs))
| MS_toflush : forall seen ins n c dn s a go gi,
    mstep (mkC (mkB [] None seen ins None n c dn) s a go gi)
          (mkC (mkB [] None seen ins (Some ins) n c false) s a go gi)
| MS_src_seen : forall src tgts todo seen ins n c dn s a go gi,
    mem_bytes src seen = true ->
    mstep (mkC (mkB ((src, tgts) :: todo) None seen ins None n c dn) s a go gi)
          (mkC (mkB todo (Some (src, tgts, [])) seen ins None n c false)
               (set_tree (upd set_crawled (lru_iter src) (tr s)) s) (mark_crawled src a) go gi)
| MS_src_new : forall src tgts todo seen ins n c dn s a go gi,
    mem_bytes src seen = false ->
    mstep (mkC (mkB ((src, tgts) :: todo) None seen ins None n c dn) s a go gi)
          (mkC (mkB todo (Some (src, tgts, [])) (src :: seen) ins None
                    (n + snd (fst (add_page_int src true s))) (c ++ snd (add_page_int src true s)) false)
               (fst (fst (add_page_int src true s))) (fst (fst (s_add_page src true a))) go gi)
| MS_src_done : forall src done todo seen ins n c dn s a go gi,
    mstep (mkC (mkB todo (Some (src, [], done)) seen ins None n c dn) s a go gi)
          (mkC (mkB todo None seen ins None n c false)
               (store_links true (lru_iter src) (map (fun o => addr_of o s) done) s)
               a (go ++ map (fun t => (src, t)) done) gi)
| MS_tgt_seen : forall src t rest done todo seen ins n c dn s a go gi,
    mem_bytes t seen = true ->
    mstep (mkC (mkB todo (Some (src, t :: rest, done)) seen ins None n c dn) s a go gi)
          (mkC (mkB todo (Some (src, rest, done ++ [t])) seen (mm_add t src ins) None n c false) s a go gi)
| MS_tgt_new : forall src t rest done todo seen ins n c dn s a go gi,
    mem_bytes t seen = false ->
    mstep (mkC (mkB todo (Some (src, t :: rest, done)) seen ins None n c dn) s a go gi)
          (mkC (mkB todo (Some (src, rest, done ++ [t])) (t :: seen) (mm_add t src ins) None
                    (n + snd (fst (add_page_int t false s))) (c ++ snd (add_page_int t false s)) false)
               (fst (fst (add_page_int t false s))) (fst (fst (s_add_page t false a))) go gi).

Lemma micro_mstep : forall c, mstep c (fst (micro c)).
Proof.
  intros [[todo cur seen ins fl n c dn] s a go gi]. unfold micro. cbn [cb cs ca co ci b_flush b_cur b_todo b_seen b_ins b_n b_c].
  destruct fl as [[|[t srcs] rest]|]; cbn [fst]; [constructor|constructor|].
  destruct cur as [[[src [|t rest]] done]|].
  - constructor.
  - destruct (mem_bytes t seen) eqn:E; cbn [fst]; [constructor; exact E|].
    unfold b_see. cbn [b_todo b_cur b_seen b_ins b_flush b_n b_c].
    pose proof (MS_tgt_new src t rest done todo seen ins n c dn s a go gi E) as H.
    destruct (add_page_int t false s) as [[s' n'] c']. exact H.
  - destruct todo as [|[src tgts] todo]; [constructor|].
    destruct (mem_bytes src seen) eqn:E; cbn [fst]; [constructor; exact E|].
    unfold b_see. cbn [b_todo b_cur b_seen b_ins b_flush b_n b_c].
    pose proof (MS_src_new src tgts todo seen ins n c dn s a go gi E) as H.
    destruct (add_page_int src true s) as [[s' n'] c']. exact H.
Qed.

(* reflexive-transitive closure *)
Inductive msteps : cfg -> cfg -> Prop :=
| MS_refl : forall c, msteps c c
| MS_cons : forall c c1 c2, mstep c c1 -> msteps c1 c2 -> msteps c c2.

Lemma giter_msteps : forall fuel c, msteps c (giter fuel c).
Proof.
  induction fuel as [|f IH]; intro c; [constructor|].
  cbn [giter]. pose proof (micro_mstep c) as H. destruct (micro c) as [c' y]. cbn [fst] in H.
  destruct y.
  - apply (MS_cons _ _ _ H). constructor.
  - apply (MS_cons _ _ _ H). apply IH.
Qed.

Lemma giter_S : forall f c, exists c1, mstep c c1 /\ msteps c1 (giter (S f) c).
Proof.
  intros f c. cbn [giter]. pose proof (micro_mstep c) as H. destruct (micro c) as [c' y]. cbn [fst] in H.
  exists c'. split; [exact H|]. destruct y; [constructor|apply giter_msteps].
Qed.

(* an invariant of the micro-steps, and a reflexive-transitive relation they satisfy *)
Lemma msteps_ind2 : forall (P : cfg -> Prop) (Rel : cfg -> cfg -> Prop),
  (forall c, Rel c c) ->
  (forall c c1 c2, Rel c c1 -> Rel c1 c2 -> Rel c c2) ->
  (forall c c', P c -> mstep c c' -> P c' /\ Rel c c') ->
  forall c c', msteps c c' -> P c -> P c' /\ Rel c c'.
Proof.
  intros P Rel Hr Ht Hs c c' H. induction H as [c|c c1 c2 H1 H2 IH]; intro HP.
  - split; [exact HP|apply Hr].
  - destruct (Hs c c1 HP H1) as (HP1 & HR1). destruct (IH HP1) as (HP2 & HR2).
    split; [exact HP2|apply (Ht _ _ _ HR1 HR2)].
Qed.

Lemma msteps_inv : forall (P : cfg -> Prop),
  (forall c c', P c -> mstep c c' -> P c') ->
  forall c c', msteps c c' -> P c -> P c'.
Proof.
  intros P Hs c c' H. induction H as [c|c c1 c2 H1 H2 IH]; intro HP; [exact HP|].
  apply IH. apply (Hs c c1 HP H1).
Qed.

(* ====================================================================== *)
(* T1. the request as folds of named functions                            *)
(* ====================================================================== *)

Definition acc5 := (traph * N * created * list bytes * list (bytes * list bytes))%type.

Definition bc_inner (src : bytes) : acc5 -> bytes -> acc5 :=
  fun '(s, n, c, seen, ins) t =>
    let '(s, n, c, seen) :=
        if mem_bytes t seen then (s, n, c, seen)
        else let '(s', n', c') := add_page_int t false s in (s', n + n', c ++ c', t :: seen) in
    (s, n, c, seen, mm_add t src ins).

Definition bc_src (src : bytes) : acc5 -> acc5 :=
  fun '(s, n, c, seen, ins) =>
    let '(s, n, c, seen) :=
        if mem_bytes src seen
        then (set_tree (upd set_crawled (lru_iter src) (tr s)) s, n, c, seen)
        else let '(s', n', c') := add_page_int src true s in (s', n + n', c ++ c', src :: seen) in
    (s, n, c, seen, ins).

Definition bc_close (src : bytes) (tgts : list bytes) : acc5 -> acc5 :=
  fun '(s, n, c, seen, ins) =>
    (store_links true (lru_iter src) (map (fun o => addr_of o s) tgts) s, n, c, seen, ins).

Definition bc_outer : acc5 -> bytes * list bytes -> acc5 :=
  fun acc '(src, tgts) => bc_close src tgts (fold_left (bc_inner src) tgts (bc_src src acc)).

Definition bc_fin : acc5 -> traph * N * created :=
  fun '(s1, n, c, _, ins) => (flush_links false ins s1, n, c).

Lemma fold_left_ext : forall (X E : Type) (f g : X -> E -> X),
  (forall x e, f x e = g x e) -> forall l x, fold_left f l x = fold_left g l x.
Proof.
  intros X E f g H l. induction l as [|e l IH]; intro x; [reflexivity|].
  cbn [fold_left]. rewrite H. apply IH.
Qed.

Lemma batch_crawl_fold : forall data s,
  batch_crawl data s =
  let '(s', n, c) := bc_fin (fold_left bc_outer data (s, 0, [], [], [])) in (s', Report n c).
Proof.
  intros data s. unfold batch_crawl.
  match goal with |- context [fold_left ?F data _] => set (FF := F) end.
  generalize ((s, 0, [], [], []) : acc5). intro acc.
  rewrite (fold_left_ext _ _ FF bc_outer).
  - assert (HX : forall X : acc5,
              (let '(s1, n, c, _, ins) := X in (flush_links false ins s1, Report n c)) =
              (let '(s', n, c) := bc_fin X in (s', Report n c))).
    { intros [[[[s1 n1] c1] seen1] ins1]. reflexivity. }
    apply HX.
  - intros [[[[s0 n0] c0] seen0] ins0] [src tgts]. unfold FF, bc_outer, bc_src.
    destruct (mem_bytes src seen0).
    + reflexivity.
    + destruct (add_page_int src true s0) as [[s' n'] c']. reflexivity.
Qed.

(* what is left to do from a coroutine state, as a function of the request's folds *)
Definition rest (b : bco) (s : traph) : traph * N * created :=
  match b_flush b with
  | Some fl => (flush_links false fl s, b_n b, b_c b)
  | None =>
      let acc0 := (s, b_n b, b_c b, b_seen b, b_ins b) in
      let acc1 := match b_cur b with
                  | None => acc0
                  | Some (src, r, done) => bc_close src (done ++ r) (fold_left (bc_inner src) r acc0)
                  end in
      bc_fin (fold_left bc_outer (b_todo b) acc1)
  end.

Lemma bc_outer_eq : forall acc src tgts,
  bc_outer acc (src, tgts) = bc_close src tgts (fold_left (bc_inner src) tgts (bc_src src acc)).
Proof. reflexivity. Qed.

Lemma bc_src_seen : forall src s n c seen ins, mem_bytes src seen = true ->
  bc_src src (s, n, c, seen, ins) = (set_tree (upd set_crawled (lru_iter src) (tr s)) s, n, c, seen, ins).
Proof. intros src s n c seen ins H. unfold bc_src. rewrite H. reflexivity. Qed.

Lemma bc_src_new : forall src s n c seen ins, mem_bytes src seen = false ->
  bc_src src (s, n, c, seen, ins) =
  (fst (fst (add_page_int src true s)), n + snd (fst (add_page_int src true s)),
   c ++ snd (add_page_int src true s), src :: seen, ins).
Proof.
  intros src s n c seen ins H. unfold bc_src. rewrite H.
  destruct (add_page_int src true s) as [[s' n'] c']. reflexivity.
Qed.

Lemma bc_inner_seen : forall src t s n c seen ins, mem_bytes t seen = true ->
  bc_inner src (s, n, c, seen, ins) t = (s, n, c, seen, mm_add t src ins).
Proof. intros src t s n c seen ins H. unfold bc_inner. rewrite H. reflexivity. Qed.

Lemma bc_inner_new : forall src t s n c seen ins, mem_bytes t seen = false ->
  bc_inner src (s, n, c, seen, ins) t =
  (fst (fst (add_page_int t false s)), n + snd (fst (add_page_int t false s)),
   c ++ snd (add_page_int t false s), t :: seen, mm_add t src ins).
Proof.
  intros src t s n c seen ins H. unfold bc_inner. rewrite H.
  destruct (add_page_int t false s) as [[s' n'] c']. reflexivity.
Qed.

Lemma mstep_rest : forall c c', mstep c c' -> rest (cb c') (cs c') = rest (cb c) (cs c).
Proof.
  intros c c' H. destruct H; unfold rest;
    cbn [cb cs b_flush b_cur b_todo b_seen b_ins b_n b_c fold_left app]; try reflexivity.
  - (* source seen *) rewrite bc_outer_eq, bc_src_seen by exact H. reflexivity.
  - (* source new *) rewrite bc_outer_eq, bc_src_new by exact H. reflexivity.
  - (* source done *) rewrite app_nil_r. reflexivity.
  - (* target seen *) rewrite bc_inner_seen by exact H. rewrite <- app_assoc. reflexivity.
  - (* target new *) rewrite bc_inner_new by exact H. rewrite <- app_assoc. reflexivity.
Qed.

(* a finished coroutine has flushed everything *)
Definition bwf (b : bco) : Prop := b_done b = true -> b_flush b = Some [].

Lemma mstep_bwf : forall c c', mstep c c' -> bwf (cb c').
Proof. intros c c' H. destruct H; unfold bwf; cbn [cb b_done b_flush]; intro E; congruence. Qed.

Definition rem_t (b : bco) : nat :=
  (match b_cur b with Some (_, r, _) => length r | None => 0 end
   + fold_right (fun x acc => length (snd x) + acc) 0 (b_todo b))%nat.

Definition mu (b : bco) : nat :=
  match b_flush b with
  | Some fl => ((if b_done b then 0 else 1) + length fl)%nat
  | None => (2 + length (b_ins b) + rem_t b + batch_fuel b)%nat
  end.

Lemma mm_add_len : forall (k v : bytes) (m : list (bytes * list bytes)),
  (length (mm_add k v m) <= S (length m))%nat.
Proof.
  intros k v m. induction m as [|[k' vs] m IH]; cbn [mm_add length]; [lia|].
  destruct (beq k k'); cbn [length]; lia.
Qed.

Lemma mstep_mu_le : forall c c', bwf (cb c) -> mstep c c' -> (mu (cb c') <= mu (cb c))%nat.
Proof.
  intros c c' Hw H. destruct H; unfold bwf in Hw; unfold mu, rem_t, batch_fuel;
    cbn [cb b_done b_flush b_cur b_todo b_seen b_ins fold_right length snd] in *;
    try (pose proof (mm_add_len t src ins)); lia.
Qed.

Lemma mstep_mu_lt : forall c c', b_done (cb c) = false -> mstep c c' -> (mu (cb c') < mu (cb c))%nat.
Proof.
  intros c c' Hd H. destruct H; unfold mu, rem_t, batch_fuel;
    cbn [cb b_done b_flush b_cur b_todo b_seen b_ins fold_right length snd] in *;
    try (pose proof (mm_add_len t src ins)); subst; try lia.
Qed.

Lemma msteps_T1 : forall c c', msteps c c' -> bwf (cb c) ->
  bwf (cb c') /\ rest (cb c') (cs c') = rest (cb c) (cs c) /\ (mu (cb c') <= mu (cb c))%nat.
Proof.
  intros c c' H. induction H as [c|c c1 c2 H1 H2 IH]; intro Hw; [auto|].
  destruct (IH (mstep_bwf _ _ H1)) as (Hw2 & Hr2 & Hm2).
  split; [exact Hw2|]. split; [rewrite Hr2; apply (mstep_rest _ _ H1)|].
  pose proof (mstep_mu_le _ _ Hw H1). lia.
Qed.

Lemma batch_fuel_S : forall b, exists f, batch_fuel b = S f.
Proof. intro b. unfold batch_fuel. eexists. reflexivity. Qed.

(* one turn of a coroutine that is not finished *)
Lemma bstep_T1 : forall b s a go gi, bwf b -> b_done b = false ->
  let c' := giter (batch_fuel b) (mkC b s a go gi) in
  batch_step (batch_fuel b) b s = (cb c', cs c') /\
  bwf (cb c') /\ rest (cb c') (cs c') = rest b s /\ (mu (cb c') < mu b)%nat.
Proof.
  intros b s a go gi Hw Hd c'.
  split; [apply (batch_step_giter (batch_fuel b) (mkC b s a go gi))|].
  destruct (batch_fuel_S b) as (f & Ef). unfold c'. rewrite Ef.
  destruct (giter_S f (mkC b s a go gi)) as (c1 & H1 & H2).
  destruct (msteps_T1 _ _ H2 (mstep_bwf _ _ H1)) as (Hw2 & Hr2 & Hm2).
  split; [exact Hw2|]. split; [rewrite Hr2; apply (mstep_rest _ _ H1)|].
  pose proof (mstep_mu_lt (mkC b s a go gi) c1 Hd H1) as Hlt. cbn [cb] in Hlt. lia.
Qed.

Lemma run_alone_rest : forall k b s, bwf b -> (mu b < k)%nat ->
  exists b', run_alone k (CBatch b) s = (CBatch b', fst (fst (rest b s))) /\
             b_done b' = true /\ b_n b' = snd (fst (rest b s)) /\ b_c b' = snd (rest b s).
Proof.
  induction k as [|k IH]; intros b s Hw Hk; [lia|].
  cbn [run_alone co_done]. destruct (b_done b) eqn:Hd.
  - exists b. unfold rest. rewrite (Hw Hd). cbn [fst snd flush_links fold_left]. auto.
  - unfold co_step. cbn [co_done]. rewrite Hd.
    destruct (bstep_T1 b s (mkA [] [] [] [] 0 [] [] (dflt s)) [] [] Hw Hd) as (E & Hw' & Hr & Hm).
    rewrite E.
    destruct (IH _ (cs (giter (batch_fuel b) (mkC b s (mkA [] [] [] [] 0 [] [] (dflt s)) [] []))) Hw')
      as (b' & E' & Hd' & Hn' & Hc'); [lia|].
    exists b'. rewrite E'. rewrite Hr in Hn', Hc' |- *. auto.
Qed.

(* T1: a coroutine run alone is the request *)
Theorem batch_alone : forall data s, exists fuel b',
  run_alone fuel (CBatch (batch_start data)) s = (CBatch b', fst (batch_crawl data s)) /\
  b_done b' = true /\ Report (b_n b') (b_c b') = snd (batch_crawl data s).
Proof.
  intros data s.
  assert (Hw : bwf (batch_start data)) by (intro E; discriminate).
  destruct (run_alone_rest (S (mu (batch_start data))) (batch_start data) s Hw (Nat.lt_succ_diag_r _))
    as (b' & E & Hd & Hn & Hc).
  exists (S (mu (batch_start data))), b'. rewrite E, Hn, Hc, batch_crawl_fold.
  unfold rest, batch_start. cbn [b_flush b_cur b_todo b_seen b_ins b_n b_c].
  destruct (bc_fin _) as [[s' n'] c']. cbn [fst snd]. auto.
Qed.

(* ====================================================================== *)
(* the scheduler's fuel is enough to reach the next yield                 *)
(* ====================================================================== *)

Definition need (b : bco) : nat := match b_flush b with Some _ => 1%nat | None => batch_fuel b end.

(* with at least [need b] units the run stops at a yield: more fuel changes nothing *)
Lemma batch_step_enough : forall fuel n b s, (need b <= fuel)%nat ->
  batch_step (fuel + n) b s = batch_step fuel b s.
Proof.
  induction fuel as [|f IH]; intros n b s Hn.
  - exfalso. unfold need, batch_fuel in Hn. destruct (b_flush b); lia.
  - cbn [Nat.add batch_step]. unfold need in Hn.
    destruct (b_flush b) as [[|[t srcs] rest]|] eqn:Ef; [reflexivity|reflexivity|].
    unfold batch_fuel in Hn.
    destruct (b_cur b) as [[[src [|t rest]] done]|] eqn:Ec.
    + apply IH. unfold need, batch_fuel. cbn [b_flush b_cur b_todo]. lia.
    + destruct (mem_bytes t (b_seen b)); [|reflexivity].
      apply IH. unfold need, batch_fuel. cbn [b_flush b_cur b_todo length] in *. lia.
    + destruct (b_todo b) as [|[src tgts] todo] eqn:Et.
      * apply IH. unfold need. cbn [b_flush]. lia.
      * cbn [length fold_right snd] in Hn.
        destruct (mem_bytes src (b_seen b)).
        -- apply IH. unfold need, batch_fuel. cbn [b_flush b_cur b_todo]. lia.
        -- unfold b_see. cbn [b_todo b_cur b_seen b_ins b_flush b_n b_c].
           destruct (add_page_int src true s) as [[s' n'] c'].
           apply IH. unfold need, batch_fuel. cbn [b_flush b_cur b_todo]. lia.
Qed.

Corollary batch_fuel_enough : forall n b s,
  batch_step (batch_fuel b + n) b s = batch_step (batch_fuel b) b s.
Proof.
  intros n b s. apply batch_step_enough. unfold need. destruct (b_flush b); [|lia].
  unfold batch_fuel. lia.
Qed.
