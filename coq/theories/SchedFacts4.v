(* SchedFacts4.v — get_webentity_pages_iter as a coroutine (pagesq_step of Sched.v)
   interleaved with batch coroutines: every pair the query yields is, at the moment
   of the yield, a page of the index (with that crawled mark) lying under one of the
   query's prefixes (C16_sandwich_partial).  The traversal keeps block addresses on
   its stack across yields; what keeps them meaningful is that the other coroutines
   never move a node: a path keeps its block address (tree_ext). *)
From Coq Require Import List NArith Bool Lia Arith Permutation.
Import ListNotations.
From Traph Require Import Bytes Consts Helpers Rules Tst TstDefs Traph Spec Ops RefDefs TstFacts
  ViewFacts ViewFacts2 RefCore RefCore3 LinkFacts LinkFacts2 LinkFacts3 Sched SchedFacts SchedFacts2 SchedFacts3.
Open Scope N_scope.

(* ====================================================================== *)
(* reading a node by block address                                        *)
(* ====================================================================== *)

Lemma paths_incl_c : forall pre d l c r, incl (paths (pre ++ [stem d]) c) (paths pre (Nd d l c r)).
Proof. intros pre d l c r y Hy. cbn [paths]. right. apply in_or_app. left. exact Hy. Qed.
Lemma paths_incl_l : forall pre d l c r, incl (paths pre l) (paths pre (Nd d l c r)).
Proof. intros pre d l c r y Hy. cbn [paths]. right. apply in_or_app. right. apply in_or_app. left. exact Hy. Qed.
Lemma paths_incl_r : forall pre d l c r, incl (paths pre r) (paths pre (Nd d l c r)).
Proof. intros pre d l c r y Hy. cbn [paths]. right. apply in_or_app. right. apply in_or_app. right. exact Hy. Qed.

(* the node read at address a sits at some sibling-prefix pp; its three pointers are
   the roots of three subtrees whose nodes are nodes of the whole tree *)
Lemma read_at_paths : forall t pre a x, read_at a t = Some x ->
  exists pp l c r,
    addr (rn_d x) = a /\ rn_left x = root_addr l /\ rn_right x = root_addr r /\ rn_child x = root_addr c /\
    In (pp ++ [stem (rn_d x)], rn_d x) (paths pre t) /\
    incl (paths pp l) (paths pre t) /\ incl (paths pp r) (paths pre t) /\
    incl (paths (pp ++ [stem (rn_d x)]) c) (paths pre t).
Proof.
  induction t as [|d l IHl c IHc r IHr]; intros pre a x H; [discriminate|].
  cbn [read_at] in H. destruct (addr d =? a) eqn:E.
  - injection H as <-. apply N.eqb_eq in E. exists pre, l, c, r. cbn [rn_d rn_left rn_right rn_child].
    split; [exact E|]. split; [reflexivity|]. split; [reflexivity|]. split; [reflexivity|].
    split; [left; reflexivity|]. split; [apply paths_incl_l|]. split; [apply paths_incl_r|apply paths_incl_c].
  - assert (Hsub : forall pre' sub, incl (paths pre' sub) (paths pre (Nd d l c r)) ->
              (exists pp l' c' r',
                 addr (rn_d x) = a /\ rn_left x = root_addr l' /\ rn_right x = root_addr r' /\
                 rn_child x = root_addr c' /\
                 In (pp ++ [stem (rn_d x)], rn_d x) (paths pre' sub) /\
                 incl (paths pp l') (paths pre' sub) /\ incl (paths pp r') (paths pre' sub) /\
                 incl (paths (pp ++ [stem (rn_d x)]) c') (paths pre' sub)) ->
              exists pp l' c' r',
                 addr (rn_d x) = a /\ rn_left x = root_addr l' /\ rn_right x = root_addr r' /\
                 rn_child x = root_addr c' /\
                 In (pp ++ [stem (rn_d x)], rn_d x) (paths pre (Nd d l c r)) /\
                 incl (paths pp l') (paths pre (Nd d l c r)) /\ incl (paths pp r') (paths pre (Nd d l c r)) /\
                 incl (paths (pp ++ [stem (rn_d x)]) c') (paths pre (Nd d l c r))).
    { intros pre' sub Hi (pp & l' & c' & r' & H1 & H2 & H3 & H4 & H5 & H6 & H7 & H8).
      exists pp, l', c', r'. repeat (split; [assumption|]).
      split; [apply Hi; exact H5|]. split; [|split]; eapply incl_tran; eassumption. }
    destruct (read_at a c) as [xc|] eqn:Ec.
    + injection H as <-. apply (Hsub (pre ++ [stem d]) c (paths_incl_c pre d l c r)). apply (IHc _ _ _ Ec).
    + destruct (read_at a l) as [xl|] eqn:El.
      * injection H as <-. apply (Hsub pre l (paths_incl_l pre d l c r)). apply (IHl _ _ _ El).
      * apply (Hsub pre r (paths_incl_r pre d l c r)). apply (IHr _ _ _ H).
Qed.

(* ====================================================================== *)
(* the invariant of a page-query coroutine                                *)
(* ====================================================================== *)

Definition under (P0 p : list bytes) : Prop := exists r, p = P0 ++ r.

(* a stack entry: the block of a node at some path p under the current prefix; the
   second component is the LRU of the level above *)
Definition qentry_ok (P0 : list bytes) (t : tst) (e : N * bytes * N) : Prop :=
  exists p d, find p t = Some d /\ addr d = fst (fst e) /\ concat (removelast p) = snd (fst e) /\ under P0 p.

Definition QInv (ps0 : list bytes) (q : qco) (s : traph) : Prop :=
  incl (q_prefixes q) ps0 /\
  (q_pend q ++ q_stack q = [] \/
   exists P0 d0, In P0 ps0 /\ find (lru_iter P0) (tr s) = Some d0 /\ addr d0 = q_start q /\
                 Forall (qentry_ok (lru_iter P0) (tr s)) (q_pend q ++ q_stack q)).

(* what can be said of a yielded pair at the moment of the yield *)
Definition qual (ps0 : list bytes) (s : traph) (l : bytes) (c : bool) : Prop :=
  exists P0 p d, In P0 ps0 /\ find p (tr s) = Some d /\ concat p = l /\ page d = true /\ crawled d = c /\
                 under (lru_iter P0) p /\ (p = lru_iter P0 \/ we d = 0).

(* nodes are never moved: a path keeps its block address *)
Definition tree_ext (s s' : traph) : Prop :=
  forall p d, find p (tr s) = Some d -> exists d', find p (tr s') = Some d' /\ addr d' = addr d.

Lemma tree_ext_refl : forall s, tree_ext s s.
Proof. intros s p d H. exists d. auto. Qed.
Lemma tree_ext_trans : forall s1 s2 s3, tree_ext s1 s2 -> tree_ext s2 s3 -> tree_ext s1 s3.
Proof.
  intros s1 s2 s3 H1 H2 p d Hd. destruct (H1 p d Hd) as (d2 & Hd2 & E2). destruct (H2 p d2 Hd2) as (d3 & Hd3 & E3).
  exists d3. split; [exact Hd3|congruence].
Qed.

Lemma QInv_ext : forall ps0 q s s', tree_ext s s' -> QInv ps0 q s -> QInv ps0 q s'.
Proof.
  intros ps0 q s s' Hx (Hi & Hst). split; [exact Hi|].
  destruct Hst as [Hn|(P0 & d0 & HP & Hf & Ha & Hall)]; [left; exact Hn|right].
  destruct (Hx _ _ Hf) as (d0' & Hf' & Ea). exists P0, d0'. split; [exact HP|]. split; [exact Hf'|].
  split; [congruence|]. apply Forall_forall. intros e He. rewrite Forall_forall in Hall.
  destruct (Hall e He) as (p & d & H1 & H2 & H3 & H4). destruct (Hx _ _ H1) as (d' & H1' & E').
  exists p, d'. split; [exact H1'|]. split; [congruence|]. auto.
Qed.

Lemma QInv_start : forall ps s, QInv ps (pagesq_start ps) s.
Proof. intros ps s. split; [apply incl_refl|left; reflexivity]. Qed.

Lemma under_snoc : forall P0 p y, under P0 p -> under P0 (p ++ [y]).
Proof. intros P0 p y (r & ->). exists (r ++ [y]). rewrite app_assoc. reflexivity. Qed.

Lemma under_sibling : forall P0 pp x, under P0 (pp ++ [x]) -> pp ++ [x] <> P0 -> forall y, under P0 (pp ++ [y]).
Proof.
  intros P0 pp x (r & E) Hne y. destruct (exists_last (l := r)) as (r' & z & ->).
  - intros ->. rewrite app_nil_r in E. contradiction.
  - rewrite app_assoc in E. apply app_inj_tail in E. destruct E as (-> & _).
    exists (r' ++ [y]). rewrite app_assoc. reflexivity.
Qed.

(* pushing the root of a subtree *)
Lemma sub_entry : forall t P0 pp sub pre lv, wf_tst t -> incl (paths pp sub) (paths [] t) ->
  concat pp = pre -> (forall y, under P0 (pp ++ [y])) ->
  Forall (qentry_ok P0 t) (nz3 (root_addr sub) pre lv).
Proof.
  intros t P0 pp sub pre lv Hwf Hi Hc Hu. unfold nz3. destruct sub as [|ds ls cs rs]; cbn [root_addr].
  - constructor.
  - destruct (addr ds =? 0); constructor; [|constructor].
    exists (pp ++ [stem ds]), ds. cbn [fst snd]. split; [|split; [reflexivity|split; [|apply Hu]]].
    + apply (paths_find t Hwf). apply Hi. cbn [paths]. left. reflexivity.
    + rewrite removelast_last. exact Hc.
Qed.

Lemma pagesq_step_sound : forall ps0 s, wf_tst (tr s) -> addr_ok (tr s) (nb s) ->
  forall fuel q, QInv ps0 q s ->
  QInv ps0 (pagesq_step fuel q s) s /\
  (q_acc (pagesq_step fuel q s) = q_acc q \/
   exists l c, q_acc (pagesq_step fuel q s) = q_acc q ++ [(l, c)] /\ qual ps0 s l c).
Proof.
  intros ps0 s Hwf Hok. induction fuel as [|f IH]; intros q HQ; [split; [exact HQ|left; reflexivity]|].
  cbn [pagesq_step]. destruct HQ as (Hincl & Hst).
  set (stk := q_pend q ++ q_stack q) in *. clearbody stk.
  destruct stk as [|[[a pre] lv] rest].
  - (* next prefix *)
    destruct (q_prefixes q) as [|p ps] eqn:Eps.
    + split; [|left; reflexivity]. split; [intros x []|left; reflexivity].
    + destruct (find (lru_iter p) (tr s)) as [d|] eqn:Ef.
      * match goal with |- context [pagesq_step f ?Q s] => set (q1 := Q) end.
        assert (HQ1 : QInv ps0 q1 s).
        { split; [intros x Hx; apply Hincl; right; exact Hx|]. right.
          exists p, d. split; [apply Hincl; left; reflexivity|]. split; [exact Ef|]. split; [reflexivity|].
          cbn [q1 q_pend q_stack app]. constructor; [|constructor].
          exists (lru_iter p), d. cbn [fst snd]. split; [exact Ef|]. split; [reflexivity|].
          split; [reflexivity|]. exists []. rewrite app_nil_r. reflexivity. }
        apply (IH q1 HQ1).
      * split; [|left; reflexivity]. split; [intros x []|left; reflexivity].
  - destruct Hst as [Hn|(P0 & d0 & HP0 & Hf0 & Ha0 & Hall)]; [discriminate|].
    inversion Hall as [|? ? He Hrest]; subst.
    destruct (read_at a (tr s)) as [x|] eqn:Er.
    + (* the node of the entry *)
      destruct He as (p & d & Hfp & Hda & Hpre & Hu). cbn [fst snd] in Hda, Hpre.
      destruct (read_at_paths (tr s) [] a x Er) as (pp & l & c & r & Hxa & Hl & Hr & Hc & Hin & Il & Ir & Ic).
      apply (paths_find (tr s) Hwf) in Hin.
      assert (Ep : p = pp ++ [stem (rn_d x)]).
      { apply (proj2 Hok p _ d (rn_d x) Hfp Hin). congruence. }
      subst p. rewrite removelast_last in Hpre.
      assert (Ed : d = rn_d x) by congruence. subst d.
      assert (Ecur : pre ++ stem (rn_d x) = concat (pp ++ [stem (rn_d x)])) by (rewrite concat_snoc, Hpre; reflexivity).
      (* the pushes are entries *)
      match goal with |- context [mkQ (q_prefixes q) (q_start q) rest ?P _ false false] => set (pushes := P) end.
      assert (Hpush : Forall (qentry_ok (lru_iter P0) (tr s)) pushes).
      { unfold pushes. apply Forall_app. split.
        - destruct ((a =? q_start q) || (we (rn_d x) =? 0)); [|constructor].
          rewrite Hc. apply (sub_entry (tr s) _ (pp ++ [stem (rn_d x)]) c _ _ Hwf Ic).
          + symmetry. exact Ecur.
          + intro y. apply under_snoc. exact Hu.
        - destruct (a =? q_start q) eqn:Ea; [constructor|].
          assert (Hne : pp ++ [stem (rn_d x)] <> lru_iter P0).
          { intro E. rewrite E in Hin. rewrite Hf0 in Hin. injection Hin as E'.
            apply N.eqb_neq in Ea. apply Ea. rewrite <- Ha0, E'. symmetry. exact Hxa. }
          apply Forall_app. split.
          + rewrite Hl. apply (sub_entry (tr s) _ pp l _ _ Hwf Il Hpre). apply (under_sibling _ _ _ Hu Hne).
          + rewrite Hr. apply (sub_entry (tr s) _ pp r _ _ Hwf Ir Hpre). apply (under_sibling _ _ _ Hu Hne). }
      clearbody pushes.
      destruct (((a =? q_start q) || (we (rn_d x) =? 0)) && page (rn_d x)) eqn:Ey.
      * (* yield *)
        split.
        -- split; [exact Hincl|]. right. exists P0, d0. cbn [q_pend q_stack q_start].
           split; [exact HP0|]. split; [exact Hf0|]. split; [exact Ha0|]. apply Forall_app. auto.
        -- right. exists (pre ++ stem (rn_d x)), (crawled (rn_d x)). split; [reflexivity|].
           exists P0, (pp ++ [stem (rn_d x)]), (rn_d x). split; [exact HP0|]. split; [exact Hin|].
           split; [symmetry; exact Ecur|]. apply andb_prop in Ey. destruct Ey as (Hrel & Hpg).
           split; [exact Hpg|]. split; [reflexivity|]. split; [exact Hu|].
           apply orb_prop in Hrel. destruct Hrel as [Hrel|Hrel].
           ++ left. apply N.eqb_eq in Hrel. apply (proj2 Hok _ _ (rn_d x) d0 Hin Hf0). congruence.
           ++ right. apply N.eqb_eq in Hrel. exact Hrel.
      * match goal with |- context [pagesq_step f ?Q s] => set (q1 := Q) end.
        assert (HQ1 : QInv ps0 q1 s).
        { split; [exact Hincl|]. right. exists P0, d0. cbn [q1 q_pend q_stack q_start app].
          split; [exact HP0|]. split; [exact Hf0|]. split; [exact Ha0|]. apply Forall_app. auto. }
        apply (IH q1 HQ1).
    + match goal with |- context [pagesq_step f ?Q s] => set (q1 := Q) end.
      assert (HQ1 : QInv ps0 q1 s).
      { split; [exact Hincl|]. right. exists P0, d0. cbn [q1 q_pend q_stack q_start app]. auto. }
      apply (IH q1 HQ1).
Qed.

(* the same, in terms of the specification state: a page of a_pages under a prefix *)
Lemma qual_spec : forall ps0 s a l c, Rcore s a -> Forall wf_lru ps0 -> qual ps0 s l c ->
  In (l, c) (a_pages a) /\ exists P0, In P0 ps0 /\ is_stem_prefix P0 l = true.
Proof.
  intros ps0 s a l c HC Hps (P0 & p & d & HP & Hf & <- & Hpg & Hcr & Hu & _).
  pose proof (R_wf s a HC) as Hwf.
  destruct (wf_lru_of_path s p d Hwf Hf) as (_ & Hwl & Eit).
  destruct (find_nodeof s p d Hwf Hf) as (_ & Hn).
  split.
  - apply (R_pages s a HC (concat p) c Hwl). exists d. auto.
  - exists P0. split; [exact HP|]. unfold is_stem_prefix. apply mem_bytes_In.
    rewrite Forall_forall in Hps.
    apply (is_prefix_iff (concat p) P0 Hwl (Hps P0 HP)). rewrite Eit. apply is_prefix_spec. exact Hu.
Qed.

(* ====================================================================== *)
(* batch coroutines never move a node                                     *)
(* ====================================================================== *)

Lemma step_ok_ext : forall s s', step_ok s s' -> tree_ext s s'.
Proof.
  intros s s' (_ & _ & Hold & _) p d Hd. destruct (Hold p d Hd) as (d' & Hd' & Ha & _). exists d'. auto.
Qed.

Lemma store_links_ext : forall out path tg s, tree_ext s (store_links out path tg s).
Proof.
  intros out path tg s. unfold store_links. destruct tg as [|t tg]; [apply tree_ext_refl|].
  destruct (find path (tr s)) as [d0|]; [|apply tree_ext_refl].
  destruct (push_stubs (t :: tg) (if out then outh d0 else inh d0) (stubs s)) as [st' h'].
  intros p d Hd. cbn [tr].
  set (g := if out then set_outh h' else set_inh h').
  assert (Hg : forall x, stem (g x) = stem x) by (intro x; unfold g; destruct out; reflexivity).
  destruct (find_upd_keeps g path (tr s) p d Hg Hd) as [H|(_ & H)].
  - exists d. auto.
  - exists (g d). split; [exact H|]. unfold g. destruct out; reflexivity.
Qed.

Lemma mstep_ext : forall c c', CInv c -> mstep c c' -> tree_ext (cs c) (cs c').
Proof.
  intros c c' [HS HB] H. pose proof (SI_good _ _ _ _ HS) as Hg.
  destruct H; cbn [cs] in *; try apply tree_ext_refl; try apply store_links_ext.
  - apply step_ok_ext. apply set_tree_upd_step; [apply neutral_set_crawled|exact Hg].
  - apply step_ok_ext. apply add_page_int_step. exact Hg.
  - apply step_ok_ext. apply add_page_int_step. exact Hg.
Qed.

Lemma msteps_ext : forall c c', msteps c c' -> CInv c ->
  CInv c' /\ pages_mono (ca c) (ca c') /\ tree_ext (cs c) (cs c').
Proof.
  intros c c' H. induction H as [c|c c1 c2 H1 H2 IH]; intro HI.
  - split; [exact HI|]. split; [apply pages_mono_refl|apply tree_ext_refl].
  - destruct (mstep_CInv c c1 HI H1) as (HI1 & Hm1 & _). pose proof (mstep_ext c c1 HI H1) as Hx1.
    destruct (IH HI1) as (HI2 & Hm2 & Hx2).
    split; [exact HI2|]. split; [apply (pages_mono_trans _ _ _ Hm1 Hm2)|apply (tree_ext_trans _ _ _ Hx1 Hx2)].
Qed.

Lemma bstep_ext : forall b s a go gi, SInv s a go gi -> BInv b a ->
  exists a' go' gi', SInv (snd (bstep b s)) a' go' gi' /\ BInv (fst (bstep b s)) a' /\
                     pages_mono a a' /\ tree_ext s (snd (bstep b s)).
Proof.
  intros b s a go gi HS HB. unfold bstep. destruct (b_done b).
  - exists a, go, gi. cbn [fst snd]. split; [exact HS|]. split; [exact HB|].
    split; [apply pages_mono_refl|apply tree_ext_refl].
  - pose proof (batch_step_giter (batch_fuel b) (mkC b s a go gi)) as E. cbn [cb cs] in E.
    destruct (msteps_ext _ _ (giter_msteps (batch_fuel b) (mkC b s a go gi)) (conj HS HB))
      as ((HS' & HB') & Hm & Hx).
    set (c' := giter (batch_fuel b) (mkC b s a go gi)) in *.
    exists (ca c'), (co c'), (ci c'). rewrite E. cbn [fst snd]. auto.
Qed.

(* ====================================================================== *)
(* any schedule of batches and page queries                               *)
(* ====================================================================== *)

(* the invariant of a coroutine, relative to the coroutine it started as *)
Definition CoInv (s : traph) (a : astate) (c0 c : coro) : Prop :=
  match c0, c with
  | CBatch _, CBatch b => BInv b a
  | CPages q0, CPages q => QInv (q_prefixes q0) q s
  | _, _ => False
  end.

Definition co_start_ok (c0 : coro) : Prop :=
  match c0 with
  | CBatch b => exists d, b = batch_start d /\ wf_data d
  | CPages q => exists ps, q = pagesq_start ps
  | _ => False
  end.

Definition MInv (cs0 cs : list coro) (s : traph) : Prop :=
  exists a go gi, SInv s a go gi /\ Forall2 (CoInv s a) cs0 cs.

Lemma CoInv_mono : forall s a s' a' c0 c, pages_mono a a' -> tree_ext s s' ->
  CoInv s a c0 c -> CoInv s' a' c0 c.
Proof.
  intros s a s' a' c0 c Hm Hx H. destruct c0, c; cbn [CoInv] in *; try contradiction.
  - apply (BInv_mono _ _ _ Hm H).
  - apply (QInv_ext _ _ _ _ Hx H).
Qed.

Lemma Forall2_set_nth_co : forall (Rl : coro -> coro -> Prop) cs0 cs i c',
  Forall2 Rl cs0 cs -> (forall c0, nth_error cs0 i = Some c0 -> Rl c0 c') ->
  Forall2 Rl cs0 (set_nth_co i c' cs).
Proof.
  intros Rl cs0 cs i c' H. revert i. induction H as [|c0 c l0 l Hc Hl IH]; intros i Hi; [destruct i; constructor|].
  destruct i as [|i]; cbn [set_nth_co].
  - constructor; [apply Hi; reflexivity|exact Hl].
  - constructor; [exact Hc|]. apply IH. intros c1 H1. apply Hi. exact H1.
Qed.

Lemma Forall2_nth : forall (Rl : coro -> coro -> Prop) cs0 cs i c,
  Forall2 Rl cs0 cs -> nth_error cs i = Some c -> exists c0, nth_error cs0 i = Some c0 /\ Rl c0 c.
Proof.
  intros Rl cs0 cs i c H. revert i. induction H as [|c0 c1 l0 l Hc Hl IH]; intros i Hi.
  - destruct i; discriminate.
  - destruct i as [|i]; cbn [nth_error] in *.
    + injection Hi as <-. exists c0. auto.
    + apply IH. exact Hi.
Qed.

Lemma Forall2_impl : forall (A B : Type) (P Q : A -> B -> Prop) l l',
  (forall x y, P x y -> Q x y) -> Forall2 P l l' -> Forall2 Q l l'.
Proof. intros A B P Q l l' H F. induction F; constructor; auto. Qed.

Definition pq_fuel (q : qco) (s : traph) : nat :=
  S (S (length (q_prefixes q) + length (q_prefixes q) * tree_size (tr s)
        + tree_size (tr s) + length (q_stack q) + length (q_pend q))).

Lemma co_step_pages : forall q s,
  co_step (CPages q) s = (CPages (if q_done q then q else pagesq_step (pq_fuel q s) q s), s).
Proof. intros q s. unfold co_step. cbn [co_done]. destruct (q_done q); reflexivity. Qed.

Lemma MInv_step : forall cs0 cs s i c, MInv cs0 cs s -> nth_error cs i = Some c ->
  MInv cs0 (set_nth_co i (fst (co_step c s)) cs) (snd (co_step c s)).
Proof.
  intros cs0 cs s i c (a & go & gi & HS & HF) Hi.
  destruct (Forall2_nth _ _ _ _ _ HF Hi) as (c0 & Hi0 & Hc).
  destruct c0 as [b0|r0|q0|n0|l0], c as [b|r|q|n|lq]; cbn [CoInv] in Hc; try contradiction.
  - (* a batch moves *)
    rewrite co_step_batch. cbn [fst snd].
    destruct (bstep_ext b s a go gi HS Hc) as (a' & go' & gi' & HS' & HB' & Hm & Hx).
    exists a', go', gi'. split; [exact HS'|].
    apply Forall2_set_nth_co.
    + apply (Forall2_impl _ _ (CoInv s a)); [|exact HF]. intros x y. apply (CoInv_mono _ _ _ _ _ _ Hm Hx).
    + intros c1 H1. rewrite Hi0 in H1. injection H1 as <-. exact HB'.
  - (* a query moves: the index is untouched *)
    rewrite co_step_pages. cbn [fst snd].
    exists a, go, gi. split; [exact HS|].
    apply Forall2_set_nth_co; [exact HF|].
    intros c1 H1. rewrite Hi0 in H1. injection H1 as <-. cbn [CoInv].
    destruct (q_done q); [exact Hc|].
    apply (pagesq_step_sound _ s (R_wf s a (SI_core _ _ _ _ HS)) (proj2 (proj2 (SI_good _ _ _ _ HS))) _ q Hc).
Qed.

Lemma MInv_exec : forall cs0 sched cs s, MInv cs0 cs s ->
  MInv cs0 (fst (exec_sched sched cs s)) (snd (exec_sched sched cs s)).
Proof.
  intros cs0 sched. induction sched as [|i sched IH]; intros cs s HM; [exact HM|].
  cbn [exec_sched]. destruct (nth_error cs i) as [c|] eqn:Hi; [|apply IH; exact HM].
  pose proof (MInv_step cs0 cs s i c HM Hi) as H1.
  destruct (co_step c s) as [c' s']. cbn [fst snd] in H1. apply IH. exact H1.
Qed.

Lemma MInv_init : forall cs0 s0 a0, R s0 a0 -> Forall co_start_ok cs0 -> MInv cs0 cs0 s0.
Proof.
  intros cs0 s0 a0 HR Hok. exists a0, (a_links a0), (a_links a0). split; [apply SInv_R; exact HR|].
  induction Hok as [|c0 l Hc Hl IH]; constructor; [|exact IH].
  destruct c0 as [b|r|q|n|lq]; cbn [co_start_ok CoInv] in *.
  - destruct Hc as (d & -> & Hd). apply BInv_start. exact Hd.
  - contradiction.
  - destruct Hc as (ps & ->). apply QInv_start.
  - contradiction.
  - contradiction.
Qed.

(* T4 (partial).  Start batch coroutines and page-query coroutines from a state
   related to a specification state, run any schedule, then give a turn to a query:
   its accumulator is unchanged or grows by ONE pair (l, c), and at that moment l is
   a page of the index, c is its crawled mark, and l lies under one of the prefixes
   the query was started with. *)
Theorem C16_sandwich_partial : forall cs0 sched s0 a0 i q0 q,
  R s0 a0 -> Forall co_start_ok cs0 ->
  let cs := fst (exec_sched sched cs0 s0) in
  let s := snd (exec_sched sched cs0 s0) in
  nth_error cs0 i = Some (CPages q0) -> nth_error cs i = Some (CPages q) ->
  exists q', co_step (CPages q) s = (CPages q', s) /\
    (q_acc q' = q_acc q \/
     exists l c, q_acc q' = q_acc q ++ [(l, c)] /\ qual (q_prefixes q0) s l c).
Proof.
  intros cs0 sched s0 a0 i q0 q HR Hok cs s Hi0 Hi.
  destruct (MInv_exec cs0 sched cs0 s0 (MInv_init cs0 s0 a0 HR Hok)) as (a & go & gi & HS & HF).
  fold cs in HF. fold s in HS, HF.
  destruct (Forall2_nth _ _ _ _ _ HF Hi) as (c0 & Hi0' & Hc). rewrite Hi0 in Hi0'. injection Hi0' as <-.
  cbn [CoInv] in Hc. rewrite co_step_pages. eexists. split; [reflexivity|].
  destruct (q_done q); [left; reflexivity|].
  apply (pagesq_step_sound _ s (R_wf s a (SI_core _ _ _ _ HS)) (proj2 (proj2 (SI_good _ _ _ _ HS))) _ q Hc).
Qed.

(* the same read on the specification side: there is an abstract state refined by the
   index at that moment in which (l, c) is a page under one of the prefixes *)
Theorem C16_sandwich_partial_spec : forall cs0 sched s0 a0 i q0 q,
  R s0 a0 -> Forall co_start_ok cs0 -> Forall wf_lru (q_prefixes q0) ->
  let cs := fst (exec_sched sched cs0 s0) in
  let s := snd (exec_sched sched cs0 s0) in
  nth_error cs0 i = Some (CPages q0) -> nth_error cs i = Some (CPages q) ->
  exists q' a, co_step (CPages q) s = (CPages q', s) /\ Rcore s a /\
    (q_acc q' = q_acc q \/
     exists l c, q_acc q' = q_acc q ++ [(l, c)] /\ In (l, c) (a_pages a) /\
                 exists P0, In P0 (q_prefixes q0) /\ is_stem_prefix P0 l = true).
Proof.
  intros cs0 sched s0 a0 i q0 q HR Hok Hps cs s Hi0 Hi.
  destruct (MInv_exec cs0 sched cs0 s0 (MInv_init cs0 s0 a0 HR Hok)) as (a & go & gi & HS & HF).
  fold cs in HF. fold s in HS, HF.
  destruct (C16_sandwich_partial cs0 sched s0 a0 i q0 q HR Hok Hi0 Hi) as (q' & E & H).
  fold s in E, H. exists q', a. split; [exact E|]. split; [apply (SI_core _ _ _ _ HS)|].
  destruct H as [H|(l & c & H1 & H2)]; [left; exact H|right].
  exists l, c. split; [exact H1|]. apply (qual_spec _ s a l c (SI_core _ _ _ _ HS) Hps H2).
Qed.
