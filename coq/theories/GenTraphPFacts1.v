(* GenTraphPFacts1.v — the insertion of a page with automatic webentity creation translated from the source (GenTraphP.v,
   generated on every run from /repo/traph/traph.py: Traph.add_page, add_pages, __add_page, __create_webentity, expand_prefix,
   __apply_webentity_creation_rule, __apply_webentity_default_creation_rule; walk_history.py: rules_to_apply;
   traph_write_report.py), part 1.
   PLAN
     GenTraphPFacts1 (this file)
       1. the generated __add_page re-stated in named pieces (rule_step, after_rules, finish; equality by reflexivity)
       2. the translated LRUTrie.add_page never touches the header block (py_trie_add_page_frame: GenTrieWAll only gives trep,
          whose header bytes are existentially quantified) and node.refresh() changes no byte (refresh_same)
       3. the RAM rule table: py_rules_get = aget; the fold over history.rules_to_apply() = Traph.longest_candidate whenever
          every anchor met on the walk has an entry in the RAM table (rules_fold_spec); the condition on a state
          (anchors_known) and how the walk history of add_lru relates to it (walk_anchors_known)
       4. __create_webentity(prefix, expand=True, use_best_case=True) = Traph.create_from (py_create_from_spec)
       5. the model side: sizes, counters and RAM fields along add_page_int; anchors_known is kept by add_page_int
     GenTraphPFacts
       6. py_traph_add_page_int_spec on every state with Inv18, root_first and the anchors met known
       7. py_traph_add_page_spec, py_traph_add_pages_spec on `run d rs h`; the reports merged by dict.update = list append
     GenTraphPReach
       8. anchors_known holds on `run d rs h` whenever every reopen of h re-supplies a rule for each anchor flagged in the file
          (run_anchors_known; in particular without reopen), hence the theorems of 7 there without extra hypothesis
     GenTraphPEx
       9. examples by vm_compute; the theorems instantiated; the anchor condition cannot be dropped (a reopen with fewer rules:
          the code raises KeyError, the model skips the anchor). *)
From Coq Require Import List NArith Bool Lia Arith.
Import ListNotations.
From Traph Require Import Bytes Consts Layout Helpers Rules Tst TstDefs Traph Spec Ops RefDefs Traphw TraceDefs Codec CodecFacts
  TstFacts Store StoreFacts StoreFacts2 RefFull GenStorage GenNode GenNodeFacts GenTrie GenTrieFacts GenTrieW GenTrieWDefs
  GenTraphW GenTraphWDefs GenTraphP GenTraphPDefs.
From Traph Require Import TraceFacts2 TraceFacts3 TraceFacts4 LinkFacts GenTrieWAdd1 GenTrieWAdd2 GenTrieWAdd GenTrieWPage
  GenTrieWAll ReopenFacts GenTrieWFrame GenTraphWFacts1 GenTraphWFacts ViewFacts ViewFacts2 RefCore IdFacts GenHelpersFacts.
Open Scope N_scope.

Arguments N.shiftr : simpl never.
Arguments N.shiftl : simpl never.
Arguments N.modulo : simpl never.
Arguments N.div : simpl never.
Arguments N.land : simpl never.
Arguments N.lor : simpl never.
Arguments N.ldiff : simpl never.
Arguments N.mul : simpl never.
Arguments N.add : simpl never.
Arguments N.sub : simpl never.
Arguments N.ltb : simpl never.
Arguments N.eqb : simpl never.
Arguments N.leb : simpl never.
Arguments N.pow : simpl never.

(* ====================================================================================== *)
(* 1. the generated definition in named pieces                                            *)
(* ====================================================================================== *)
(* one turn of `for rule_prefix in history.rules_to_apply()` *)
Definition rule_step (rm : py_ram) (v_lru : bytes) (acc : option bytes) (v_rule_prefix : bytes) : option bytes :=
 match acc with
 | None => None
 | Some v_longest_candidate_prefix => (match py_traph_apply_webentity_creation_rule rm v_rule_prefix v_lru with
 | None => None
 | Some v_candidate_prefix => (let v_longest_candidate_prefix := (if (match v_candidate_prefix with None => false | Some v_candidate_prefix => (py_nonempty v_candidate_prefix) && (N.ltb (N.of_nat (length v_longest_candidate_prefix)) (N.of_nat (length v_candidate_prefix))) end)
 then (match v_candidate_prefix with Some v__c => v__c | None => v_longest_candidate_prefix end)
 else v_longest_candidate_prefix) in
 (Some v_longest_candidate_prefix)) end) end.

(* `node.refresh(); return node, report` *)
Definition finish (hd : py_thdr) (sg : py_pm) (v_node : py_node) (v_report : py_report)
  : option (py_thdr * py_pm * (py_node * py_report)) :=
 (let '(v_node, sg) := py_node_refresh v_node sg in
 (Some (hd, sg, (v_node, v_report)))).

(* `self.__create_webentity(prefix, expand=True, use_best_case=True)` merged into the report, then the end *)
Definition create_then_finish (hd : py_thdr) (sg : py_pm) (v_node : py_node) (v_report : py_report) (p : bytes)
  : option (py_thdr * py_pm * (py_node * py_report)) :=
 match py_traph_create_webentity_from hd sg p true true with
 | None => None
 | Some (hd, sg, v__r) => finish hd sg v_node (py_report_iadd v_report v__r)
 end.

(* everything after the loop over the rules *)
Definition after_rules (rm : py_ram) (hd : py_thdr) (sg : py_pm) (v_lru : bytes) (v_node : py_node) (v_history : py_hist)
  (v_report : py_report) (v_longest_candidate_prefix : bytes) : option (py_thdr * py_pm * (py_node * py_report)) :=
 if (match (hs_webentity_position v_history) with None => false | Some v__p => N.leb (N.of_nat (length v_longest_candidate_prefix)) v__p end)
 then finish hd sg v_node v_report
 else if py_nonempty v_longest_candidate_prefix
 then create_then_finish hd sg v_node v_report v_longest_candidate_prefix
 else match py_traph_apply_webentity_default_creation_rule rm v_lru with
      | None => None
      | Some None => finish hd sg v_node v_report
      | Some (Some p) => if py_nonempty p then create_then_finish hd sg v_node v_report p else finish hd sg v_node v_report
      end.

Lemma add_page_int_eq : forall rm hd sg v_lru v_crawled,
  py_traph_add_page_int rm hd sg v_lru v_crawled =
  match py_trie_add_page sg v_lru v_crawled with
  | None => None
  | Some (sg, (v_node, v_history)) =>
      let v_report := if hs_page_was_created v_history then mk_rp [] (0 + 1) else py_report_new in
      match fold_left (rule_step rm v_lru) (py_hist_rules_to_apply v_history) (Some []) with
      | None => None
      | Some longest => after_rules rm hd sg v_lru v_node v_history v_report longest
      end
  end.
Proof.
  intros. unfold py_traph_add_page_int.
  destruct (py_trie_add_page sg v_lru v_crawled) as [[sg1 [n h]]|]; reflexivity.
Qed.

(* one turn of `for lru in lrus` in Traph.add_pages *)
Definition pages_step (rm : py_ram) (v_crawled : bool) (st : option (py_thdr * py_pm * py_report)) (v_lru : bytes)
  : option (py_thdr * py_pm * py_report) :=
 match st with
 | None => None
 | Some (hd, sg, v_report) =>
     match py_traph_add_page_int rm hd sg v_lru v_crawled with
     | None => None
     | Some (hd, sg, (v_node, v_page_report)) => Some (hd, sg, py_report_iadd v_report v_page_report)
     end
 end.

Lemma add_pages_eq : forall rm hd sg v_lrus v_crawled,
  py_traph_add_pages rm hd sg v_lrus v_crawled = fold_left (pages_step rm v_crawled) v_lrus (Some (hd, sg, py_report_new)).
Proof.
  intros. unfold py_traph_add_pages. cbv zeta.
  match goal with |- match fold_left ?f _ _ with _ => _ end = _ => change f with (pages_step rm v_crawled) end.
  destruct (fold_left (pages_step rm v_crawled) v_lrus (Some (hd, sg, py_report_new))) as [[[hd' sg'] r]|]; reflexivity.
Qed.

(* ====================================================================================== *)
(* 2. the header block across LRUTrie.add_page and node.refresh                            *)
(* ====================================================================================== *)
Lemma flag_as_page_block : forall n, nd_block (py_node_flag_as_page n) = nd_block n.
Proof. reflexivity. Qed.
Lemma flag_as_crawled_block : forall n, nd_block (py_node_flag_as_crawled n) = nd_block n.
Proof. reflexivity. Qed.

Theorem py_trie_add_page_frame : forall sg lru cr sg' r H,
  hk H sg -> py_trie_add_page sg lru cr = Some (sg', r) -> hk H sg' /\ okN (fst r).
Proof.
  intros sg lru cr sg' r H Hk. unfold py_trie_add_page.
  destruct (py_trie_add_lru sg lru false) as [[sg1 [n h]]|] eqn:Ea; [|discriminate].
  destruct (py_trie_add_lru_frame sg lru false sg1 (n, h) H Hk Ea) as [Hk1 Hn]. cbn [fst] in Hn.
  destruct (negb (py_node_is_page n)).
  - cbv zeta.
    set (n1 := py_node_flag_as_page n).
    assert (Hn1 : okN n1) by (eapply okN_block; [apply flag_as_page_block|exact Hn]).
    destruct cr.
    + assert (Hn2 : okN (py_node_flag_as_crawled n1)) by (eapply okN_block; [apply flag_as_crawled_block|exact Hn1]).
      destruct (py_node_write (py_node_flag_as_crawled n1) sg1) as [n3 sg3] eqn:Ew.
      destruct (py_node_write_frame' _ _ H _ _ Hk1 Hn2 Ew) as [Hk3 Hn3].
      intro E. injection E as <- <-. split; assumption.
    + destruct (py_node_write n1 sg1) as [n3 sg3] eqn:Ew.
      destruct (py_node_write_frame' _ _ H _ _ Hk1 Hn1 Ew) as [Hk3 Hn3].
      intro E. injection E as <- <-. split; assumption.
  - destruct (cr && negb (py_node_is_crawled n)).
    + cbv zeta.
      assert (Hn2 : okN (py_node_flag_as_crawled n)) by (eapply okN_block; [apply flag_as_crawled_block|exact Hn]).
      destruct (py_node_write (py_node_flag_as_crawled n) sg1) as [n3 sg3] eqn:Ew.
      destruct (py_node_write_frame' _ _ H _ _ Hk1 Hn2 Ew) as [Hk3 Hn3].
      intro E. injection E as <- <-. split; assumption.
    + intro E. injection E as <- <-. split; assumption.
Qed.

(* trep only looks at the array and the block size *)
Lemma trep_same : forall f sg sg', trep f sg -> same sg sg' -> trep f sg'.
Proof. intros f sg sg' (H1 & H2 & H3) [Ha Hb]. unfold trep. rewrite Ha, Hb. repeat split; assumption. Qed.

Lemma refresh_same : forall n sg, same sg (snd (py_node_refresh n sg)).
Proof.
  intros n sg. unfold py_node_refresh.
  pose proof (py_node_read_o_same n sg (nd_block n)) as [HS _].
  destruct (py_node_read_o n sg (nd_block n)) as [n1 sg1]. exact HS.
Qed.

Lemma hrep_same : forall s hd sg sg', hrep s hd sg -> same sg sg' -> hrep s hd sg'.
Proof.
  intros s hd sg sg' (Hr & Hd & Hh) HS. split; [exact (trep_same _ _ _ Hr HS)|]. split; [exact Hd|].
  destruct HS as [Ha _]. rewrite Ha. exact Hh.
Qed.

(* node.refresh(); return: the header object and the bytes are those before *)
Lemma finish_spec : forall s hd sg n rp, hrep s hd sg ->
  exists n' sg', finish hd sg n rp = Some (hd, sg', (n', rp)) /\ hrep s hd sg' /\ same sg sg'.
Proof.
  intros s hd sg n rp Hh. unfold finish. pose proof (refresh_same n sg) as HS.
  destruct (py_node_refresh n sg) as [n' sg']. cbn [snd] in HS.
  exists n', sg'. split; [reflexivity|]. split; [exact (hrep_same _ _ _ _ Hh HS)|exact HS].
Qed.

(* ====================================================================================== *)
(* 3. the rules                                                                           *)
(* ====================================================================================== *)
Lemma py_rules_get_eq : forall k d, py_rules_get k d = aget k d.
Proof. intros k d. induction d as [|[k' v] d IH]; [reflexivity|]. cbn [py_rules_get aget]. rewrite IH. reflexivity. Qed.

Lemma ltb_of_nat : forall a b : nat, (N.of_nat a <? N.of_nat b) = Nat.ltb a b.
Proof.
  intros a b. destruct (Nat.ltb_spec a b) as [H|H]; [apply N.ltb_lt|apply N.ltb_ge]; lia.
Qed.

Lemma nonempty_ltb : forall (best c : bytes),
  py_nonempty c && (N.of_nat (length best) <? N.of_nat (length c)) = Nat.ltb (length best) (length c).
Proof.
  intros best c. rewrite ltb_of_nat. destruct c as [|x c]; [|reflexivity].
  cbn [py_nonempty andb length]. symmetry. apply Nat.ltb_ge. lia.
Qed.

(* the step of Traph.longest_candidate *)
Definition cand_step (rs : list (bytes * rulekind)) (lru : bytes) (best : bytes) (pos : N) : bytes :=
  match aget (bsub lru pos) rs with
  | Some k => match apply_rule k lru with
              | Some c => if Nat.ltb (length best) (length c) then c else best
              | None => best
              end
  | None => best
  end.

Lemma longest_candidate_eq : forall rs lru h, longest_candidate rs lru h = fold_left (cand_step rs lru) (rev (h_rules h)) [].
Proof. reflexivity. Qed.

(* the loop over the anchors met, deepest first: as long as every anchor has its compiled rule in RAM, the code keeps the
   candidate the model keeps *)
Lemma rules_fold_spec : forall rm lru poss best,
  (forall pos, In pos poss -> aget (bsub lru pos) (ram_rules rm) <> None) ->
  fold_left (rule_step rm lru) (map (fun v_position => firstn (N.to_nat v_position) lru) poss) (Some best) =
  Some (fold_left (cand_step (ram_rules rm) lru) poss best).
Proof.
  intros rm lru poss. induction poss as [|pos poss IH]; intros best Hk; [reflexivity|].
  cbn [map fold_left]. rewrite <- IH by (intros p Hp; apply Hk; right; exact Hp). f_equal.
  unfold rule_step, cand_step, py_traph_apply_webentity_creation_rule, py_re_search.
  rewrite py_rules_get_eq. fold (bsub lru pos).
  destruct (aget (bsub lru pos) (ram_rules rm)) as [k|] eqn:Ek; [|exfalso; exact (Hk pos (or_introl eq_refl) Ek)].
  destruct (apply_rule k lru) as [c|]; [|reflexivity]. cbv zeta.
  rewrite nonempty_ltb. destruct (Nat.ltb (length best) (length c)); reflexivity.
Qed.

(* a missing entry: the KeyError of the source *)
Lemma rules_fold_none : forall rm lru poss, fold_left (rule_step rm lru) poss None = None.
Proof. intros rm lru poss. induction poss as [|p poss IH]; [reflexivity|exact IH]. Qed.

Lemma rules_fold_missing : forall rm lru pos poss best,
  aget (bsub lru pos) (ram_rules rm) = None ->
  fold_left (rule_step rm lru) (map (fun v_position => firstn (N.to_nat v_position) lru) (pos :: poss)) (Some best) = None.
Proof.
  intros rm lru pos poss best E. cbn [map fold_left].
  assert (E1 : rule_step rm lru (Some best) (firstn (N.to_nat pos) lru) = None).
  { unfold rule_step, py_traph_apply_webentity_creation_rule. rewrite py_rules_get_eq. fold (bsub lru pos). rewrite E.
    reflexivity. }
  rewrite E1. apply rules_fold_none.
Qed.

(* ---- the condition on a state: every node carrying the rule flag has its anchor in the RAM table ---- *)
Definition anchors_known (s : traph) : Prop :=
  forall l d, wf_lru l -> nodeof s l = Some d -> rule d = true -> aget l (rules s) <> None.

(* ---- the condition on one walk (what the theorem about one insertion needs) ---- *)
Definition walk_known (rs : list (bytes * rulekind)) (lru : bytes) (h : hist) : Prop :=
  forall pos, In pos (h_rules h) -> aget (bsub lru pos) rs <> None.

(* the anchors recorded by a walk are the flagged nodes on the path *)
Lemma visit_rules : forall d x h pos, In pos (h_rules (visit d x h)) ->
  In pos (h_rules h) \/ (pos = blen x /\ rule d = true).
Proof.
  intros d x h pos. unfold visit.
  destruct (we d =? 0); destruct (rule d); cbn [h_rules]; intro H;
    try (apply in_app_or in H; destruct H as [H|[H|[]]]); auto.
Qed.

Lemma hist_fold_rules : forall s X h pos,
  In pos (h_rules (fold_left (fun h x => match nodeof s x with Some d => visit d x h | None => h end) X h)) ->
  In pos (h_rules h) \/ exists x d, In x X /\ pos = blen x /\ nodeof s x = Some d /\ rule d = true.
Proof.
  intros s X. induction X as [|x X IH]; intros h pos H; [left; exact H|].
  cbn [fold_left] in H. destruct (IH _ _ H) as [H1|(x0 & d & Hx & Hp & Hd & Hr)].
  - destruct (nodeof s x) as [d|] eqn:Ed; [|left; exact H1].
    destruct (visit_rules d x h pos H1) as [H2|[H2 H3]]; [left; exact H2|].
    right. exists x, d. split; [left; reflexivity|]. auto.
  - right. exists x0, d. split; [right; exact Hx|]. auto.
Qed.

Lemma firstn_app_length : forall (A : Type) (a b : list A), firstn (length a) (a ++ b) = a.
Proof. intros A a b. rewrite firstn_app, Nat.sub_diag, firstn_O, app_nil_r. apply firstn_all. Qed.

Lemma bsub_stem_prefix : forall l x, wf_lru l -> In x (stem_prefixes l) -> bsub l (blen x) = x.
Proof.
  intros l x Hl Hx. apply In_stem_prefixes in Hx. destruct Hx as (p & -> & _ & Hp).
  unfold bsub, blen. rewrite Nnat.Nat2N.id.
  assert (E : exists q, lru_iter l = p ++ q).
  { revert Hp. generalize (lru_iter l). induction p as [|a p IH]; intros ss Hp; [exists ss; reflexivity|].
    destruct ss as [|b ss]; [discriminate Hp|]. cbn [is_prefix] in Hp.
    apply andb_true_iff in Hp. destruct Hp as [Hab Hp]. apply beq_eq in Hab. subst b.
    destruct (IH ss Hp) as (q & ->). exists q. reflexivity. }
  destruct E as (q & E).
  rewrite <- (lru_iter_concat l Hl), E, concat_app. apply firstn_app_length.
Qed.

Lemma walk_anchors_known : forall flag lru s, wf_lru lru -> anchors_known s ->
  walk_known (rules s) lru (snd (add_lru flag lru s)).
Proof.
  intros flag lru s Hl Hk pos Hpos.
  rewrite add_lru_snd, ins_hist, hist_of_nodeof in Hpos.
  destruct (hist_fold_rules s _ _ _ Hpos) as [[]|(x & d & Hx & -> & Hd & Hr)].
  rewrite (bsub_stem_prefix lru x Hl Hx).
  destruct (stem_prefix_path lru x Hx) as (Hwx & _). exact (Hk x d Hwx Hd Hr).
Qed.

(* ====================================================================================== *)
(* 4. __create_webentity(prefix, expand=True, use_best_case=True)                          *)
(* ====================================================================================== *)
Lemma add_prefixes_best_not_refused : forall ps s, snd (add_prefixes ps true s) <> ARefuse.
Proof.
  intros ps s. unfold add_prefixes. destruct (walk_prefixes ps s 0 []) as [[s1 ninv] valid].
  rewrite andb_false_r. destruct (Nat.eqb ninv (length ps)); cbn [snd]; discriminate.
Qed.

Theorem py_create_from_spec : forall s, Inv18 s -> root_first s -> forall hd sg p,
  hrep s hd sg -> wf_lru p ->
  let r := create_from p s in
  let s' := fst r in
  nb s' * 128 < 2 ^ 64 -> lastwe s + 1 < 2 ^ 32 ->
  Inv18 s' /\ root_first s' /\
  exists hd' sg', py_traph_create_webentity_from hd sg p true true = Some (hd', sg', mk_rp (snd r) 0) /\ hrep s' hd' sg'.
Proof.
  intros s Hinv Hroot hd sg p Hh Hp r s' Hsize Hlt.
  assert (Es : s' = fst (add_prefixes (lru_variations p) true s)) by apply create_from_state.
  rewrite Es in Hsize.
  destruct (py_traph_add_prefixes_spec s Hinv Hroot hd sg (lru_variations p) true Hh (lru_variations_wf p Hp) Hsize Hlt)
    as (Hinv' & Hroot' & HA).
  rewrite Es. split; [exact Hinv'|]. split; [exact Hroot'|].
  unfold py_traph_create_webentity_from, py_traph_expand_prefix. rewrite py_lru_variations_eq. cbv zeta.
  pose proof (add_prefixes_best_not_refused (lru_variations p) s) as Hnr.
  unfold r, create_from.
  destruct (add_prefixes (lru_variations p) true s) as [s1 [| |w valid]]; cbn [fst snd] in *.
  - exfalso. apply Hnr. reflexivity.
  - destruct HA as (hd' & sg' & E & Hh'). rewrite E. exists hd', sg'. split; [reflexivity|exact Hh'].
  - destruct HA as (hd' & sg' & E & Hh' & Ew & _). rewrite E.
    assert (E0 : (w =? 0) = false) by (apply N.eqb_neq; lia).
    rewrite E0. exists hd', sg'. split; [reflexivity|exact Hh'].
Qed.

(* ====================================================================================== *)
(* 5. the model side                                                                      *)
(* ====================================================================================== *)
(* ---- RAM fields ---- *)
Lemma tap_state_fields : forall lru cr s, lastwe (tap_state lru cr s) = lastwe s /\ rules (tap_state lru cr s) = rules s /\
  dflt (tap_state lru cr s) = dflt s /\ stubs (tap_state lru cr s) = stubs s.
Proof.
  intros lru cr s. unfold tap_state. destruct (find (lru_iter lru) (tr s)) as [d|]; [|auto].
  destruct (page d); [destruct (cr && negb (crawled d))|]; auto.
Qed.

Lemma trie_add_page_fields : forall lru cr s, let s1 := fst (fst (trie_add_page lru cr s)) in
  lastwe s1 = lastwe s /\ rules s1 = rules s /\ dflt s1 = dflt s.
Proof.
  intros lru cr s. cbv zeta. rewrite trie_add_page_state.
  destruct (tap_state_fields lru cr (fst (add_lru false lru s))) as (H1 & H2 & H3 & _).
  destruct (add_lru_fields false lru s) as (G1 & _ & G2 & G3).
  rewrite H1, H2, H3. auto.
Qed.

Lemma walked_fields : forall ps s, rules (walked ps s) = rules s /\ dflt (walked ps s) = dflt s.
Proof.
  induction ps as [|p ps IH]; intro s; [auto|].
  cbn [walked fold_left]. fold (walked ps (fst (add_lru true p s))).
  destruct (IH (fst (add_lru true p s))) as [H1 H2]. destruct (add_lru_fields true p s) as (_ & _ & G2 & G3).
  rewrite H1, H2. auto.
Qed.

Lemma add_prefixes_fields : forall ps best s, let s' := fst (add_prefixes ps best s) in
  rules s' = rules s /\ dflt s' = dflt s.
Proof.
  intros ps best s. cbv zeta. unfold add_prefixes.
  pose proof (walk_state ps s 0 []) as Ew. pose proof (walked_fields ps s) as Hf.
  destruct (walk_prefixes ps s 0 []) as [[s1 ninv] valid]. cbn [fst] in Ew. subst s1.
  destruct (negb (Nat.eqb ninv 0) && negb best); [exact Hf|].
  destruct (Nat.eqb ninv (length ps)); exact Hf.
Qed.

Lemma add_page_int_parts : forall lru cr s,
  let r1 := trie_add_page lru cr s in
  let s1 := fst (fst r1) in
  add_page_int lru cr s =
  match decide s1 lru (snd (fst r1)) with
  | LCand p => (fst (create_from p s1), if snd r1 then 1 else 0, snd (create_from p s1))
  | _ => (s1, if snd r1 then 1 else 0, [])
  end.
Proof.
  intros lru cr s. cbv zeta. unfold add_page_int. destruct (trie_add_page lru cr s) as [[s1 h] created]. cbn [fst snd].
  destruct (decide s1 lru h) as [|p|]; try reflexivity. destruct (create_from p s1) as [s2 c]. reflexivity.
Qed.

Lemma add_page_int_ram : forall lru cr s, let s' := fst (fst (add_page_int lru cr s)) in
  rules s' = rules s /\ dflt s' = dflt s.
Proof.
  intros lru cr s. cbv zeta. rewrite add_page_int_parts. cbv zeta.
  destruct (trie_add_page_fields lru cr s) as (_ & H2 & H3).
  destruct (decide _ lru _) as [|p|]; cbn [fst]; auto.
  rewrite create_from_state.
  destruct (add_prefixes_fields (lru_variations p) true (fst (fst (trie_add_page lru cr s)))) as [G1 G2].
  rewrite G1, G2. auto.
Qed.

Lemma add_page_int_ramrep : forall lru cr s rm, ramrep s rm -> ramrep (fst (fst (add_page_int lru cr s))) rm.
Proof.
  intros lru cr s rm [H1 H2]. destruct (add_page_int_ram lru cr s) as [G1 G2]. split; congruence.
Qed.

(* ---- sizes ---- *)
Lemma add_lru_nb_mono : forall flag p s, nb s <= nb (fst (add_lru flag p s)).
Proof. intros. rewrite add_lru_nb. apply ins_nb_mono. Qed.

Lemma trie_add_page_nb_mono : forall lru cr s, nb s <= nb (fst (fst (trie_add_page lru cr s))).
Proof. intros. rewrite trie_add_page_state, tap_state_nb. apply add_lru_nb_mono. Qed.

Lemma add_prefixes_nb_mono : forall ps best s, nb s <= nb (fst (add_prefixes ps best s)).
Proof.
  intros ps best s. destruct (walk_prefixes ps s 0 []) as [[s1 ninv] valid] eqn:Ew.
  rewrite (add_prefixes_nb ps best s s1 ninv valid Ew).
  pose proof (walk_state ps s 0 []) as E. rewrite Ew in E. cbn [fst] in E. subst s1. apply walked_nb_mono.
Qed.

Lemma create_from_nb_mono : forall p s, nb s <= nb (fst (create_from p s)).
Proof. intros. rewrite create_from_state. apply add_prefixes_nb_mono. Qed.

Lemma add_page_int_nb_trie : forall lru cr s,
  nb (fst (fst (trie_add_page lru cr s))) <= nb (fst (fst (add_page_int lru cr s))).
Proof.
  intros lru cr s. rewrite add_page_int_parts. cbv zeta.
  destruct (decide _ lru _) as [|p|]; cbn [fst]; try lia. apply create_from_nb_mono.
Qed.

Lemma add_page_int_nb_mono : forall lru cr s, nb s <= nb (fst (fst (add_page_int lru cr s))).
Proof.
  intros. pose proof (trie_add_page_nb_mono lru cr s). pose proof (add_page_int_nb_trie lru cr s). lia.
Qed.

(* ---- the counter: a page creates at most one webentity, whose id is the counter + 1 ---- *)
Lemma add_page_int_counter : forall lru cr s,
  let r := add_page_int lru cr s in
  (snd r = [] /\ lastwe (fst (fst r)) = lastwe s) \/
  (exists valid, snd r = [(lastwe s + 1, valid)] /\ lastwe (fst (fst r)) = lastwe s + 1).
Proof.
  intros lru cr s. cbv zeta. rewrite add_page_int_parts. cbv zeta.
  destruct (trie_add_page_fields lru cr s) as (H1 & _).
  destruct (decide _ lru _) as [|p|]; cbn [fst snd]; auto.
  set (s1 := fst (fst (trie_add_page lru cr s))) in *.
  unfold create_from.
  pose proof (add_prefixes_ids (lru_variations p) true s1) as Hid.
  destruct (add_prefixes (lru_variations p) true s1) as [s2 [| |w valid]]; specialize (Hid s2 _ eq_refl); cbn [fst snd].
  - left. split; [reflexivity|congruence].
  - left. split; [reflexivity|congruence].
  - right. destruct Hid as [Hw Hl]. exists valid. rewrite Hl, Hw, H1. auto.
Qed.

(* ---- anchors_known along add_page_int ---- *)
Lemma anchors_known_ext : forall s s', tr s' = tr s -> rules s' = rules s -> anchors_known s -> anchors_known s'.
Proof. intros s s' Ht Hr H l d Hl Hd Hru. unfold nodeof in Hd. rewrite Ht in Hd. rewrite Hr. exact (H l d Hl Hd Hru). Qed.

Lemma anchors_known_add_lru : forall flag p s, anchors_known s -> anchors_known (fst (add_lru flag p s)).
Proof.
  intros flag p s H l d' Hl Hd' Hr. destruct (add_lru_fields flag p s) as (_ & _ & Er & _). rewrite Er.
  destruct (add_lru_bwd flag p s l d' Hd') as [(d & Hd & Hs)|(_ & _ & _ & _ & Hru & _)]; [|congruence].
  apply same_data_proj in Hs. destruct Hs as (_ & _ & Hru & _). apply (H l d Hl Hd). congruence.
Qed.

Lemma anchors_known_upd : forall f q s, (forall d, stem (f d) = stem d) -> (forall d, rule (f d) = rule d) ->
  anchors_known s -> anchors_known (set_tree (upd f q (tr s)) s).
Proof.
  intros f q s Hst Hru H l d' Hl Hd' Hr. unfold nodeof in Hd'. cbn [set_tree set_tr tr rules] in *.
  destruct (find_upd_cases f _ q (tr s) d' Hst Hd') as (d & Hd & [[_ ->]|[_ ->]]).
  - apply (H l d Hl Hd). rewrite <- Hru. exact Hr.
  - exact (H l d Hl Hd Hr).
Qed.

Lemma anchors_known_tap : forall lru cr s, anchors_known s -> anchors_known (tap_state lru cr s).
Proof.
  intros lru cr s H. unfold tap_state. destruct (find (lru_iter lru) (tr s)) as [d|]; [|exact H].
  destruct (page d); [destruct (cr && negb (crawled d)); [|exact H]|].
  - apply anchors_known_upd; auto.
  - apply anchors_known_upd; [intro d0; destruct cr; reflexivity|intro d0; destruct cr; reflexivity|exact H].
Qed.

Lemma anchors_known_walked : forall ps s, anchors_known s -> anchors_known (walked ps s).
Proof.
  induction ps as [|p ps IH]; intros s H; [exact H|]. cbn [walked fold_left]. apply IH. apply anchors_known_add_lru. exact H.
Qed.

Lemma anchors_known_set_we_all : forall w ps s, anchors_known s -> anchors_known (set_tree (set_we_all w ps (tr s)) s).
Proof.
  intros w ps. induction ps as [|p ps IH]; intros s H.
  - cbn [set_we_all fold_left]. eapply anchors_known_ext; [| |exact H]; reflexivity.
  - cbn [set_we_all fold_left].
    pose proof (anchors_known_upd (set_we w) (lru_iter p) s (fun _ => eq_refl) (fun _ => eq_refl) H) as H1.
    specialize (IH _ H1). eapply anchors_known_ext; [| |exact IH]; reflexivity.
Qed.

Lemma anchors_known_add_prefixes : forall ps best s, anchors_known s -> anchors_known (fst (add_prefixes ps best s)).
Proof.
  intros ps best s H. unfold add_prefixes.
  pose proof (walk_state ps s 0 []) as Ew. pose proof (anchors_known_walked ps s H) as Hw.
  destruct (walk_prefixes ps s 0 []) as [[s1 ninv] valid]. cbn [fst] in Ew. subst s1.
  destruct (negb (Nat.eqb ninv 0) && negb best); [exact Hw|].
  destruct (Nat.eqb ninv (length ps)); [exact Hw|]. cbn [fst].
  eapply anchors_known_ext; [| |exact (anchors_known_set_we_all (lastwe (walked ps s) + 1) valid _ Hw)]; reflexivity.
Qed.

Lemma anchors_known_trie_add_page : forall lru cr s, anchors_known s -> anchors_known (fst (fst (trie_add_page lru cr s))).
Proof. intros. rewrite trie_add_page_state. apply anchors_known_tap, anchors_known_add_lru. assumption. Qed.

Theorem anchors_known_add_page_int : forall lru cr s, anchors_known s -> anchors_known (fst (fst (add_page_int lru cr s))).
Proof.
  intros lru cr s H. rewrite add_page_int_parts. cbv zeta.
  pose proof (anchors_known_trie_add_page lru cr s H) as H1.
  destruct (decide _ lru _) as [|p|]; cbn [fst]; try exact H1.
  rewrite create_from_state. apply anchors_known_add_prefixes. exact H1.
Qed.

(* the walk made by the insertion of a page only meets known anchors *)
Lemma trie_add_page_walk_known : forall lru cr s, wf_lru lru -> anchors_known s ->
  walk_known (rules s) lru (snd (fst (trie_add_page lru cr s))).
Proof.
  intros lru cr s Hl H. destruct (trie_add_page_parts lru cr s) as [E _]. rewrite E.
  apply walk_anchors_known; assumption.
Qed.
