(* LinkFacts2.v — the links part of the refinement relation under the primitives
   of the model: add_lru, in-place field updates, LinkStore.add_links (Part C). *)
From Coq Require Import List NArith Bool Lia Arith.
Import ListNotations.
From Traph Require Import Bytes Consts Helpers Rules Tst TstDefs Traph Spec Ops RefDefs TstFacts LinkFacts.
Open Scope N_scope.

(* ---- the two directions of a link, handled uniformly ----------------------- *)
Definition lkey (out : bool) (p : bytes * bytes) : bytes := if out then fst p else snd p.
Definition lval (out : bool) (p : bytes * bytes) : bytes := if out then snd p else fst p.
Definition lpair (out : bool) (l t : bytes) : bytes * bytes := if out then (l, t) else (t, l).

Lemma lkey_lpair : forall out l t, lkey out (lpair out l t) = l.
Proof. intros [|] l t; reflexivity. Qed.
Lemma lval_lpair : forall out l t, lval out (lpair out l t) = t.
Proof. intros [|] l t; reflexivity. Qed.
Lemma lpair_eta : forall out x, lpair out (lkey out x) (lval out x) = x.
Proof. intros [|] [a b]; reflexivity. Qed.

(* ---- Rlinks split in a base part and one part per direction ---------------- *)
Record Rbase (s : traph) : Prop := mkRbase {
  B_addr : addr_ok (tr s) (nb s);
  B_stubs : stubs_ok (stubs s);
  B_heads : forall p d, find p (tr s) = Some d ->
      head_ok (length (stubs s)) (outh d) /\ head_ok (length (stubs s)) (inh d);
  B_targets : forall i tg pv, nth_error (stubs s) i = Some (tg, pv) ->
      exists p d, find p (tr s) = Some d /\ addr d = tg /\ page d = true
}.

(* the chain of direction [out] of every node, oldest first, against an explicit list of links *)
Definition Rdir (out : bool) (s : traph) (links : list (bytes * bytes)) : Prop :=
  forall l d, wf_lru l -> nodeof s l = Some d ->
    map (fun t => lru_at t s) (rev (targets_of (stubs s) (head_dir out d)))
    = map (lval out) (filter (fun p => beq (lkey out p) l) links).

Definition Rout (s : traph) (links : list (bytes * bytes)) : Prop := Rbase s /\ Rdir true s links.
Definition Rin (s : traph) (links : list (bytes * bytes)) : Prop := Rdir false s links.

Lemma Rlinks_split : forall s a,
  Rlinks s a <->
  (Rout s (a_links a) /\ Rin s (a_links a) /\
   (forall x y, In (x, y) (a_links a) ->
      (exists c, In (x, c) (a_pages a)) /\ (exists c, In (y, c) (a_pages a))) /\
   N.of_nat (length (stubs s)) = s_stubs a).
Proof.
  intros s a. split.
  - intros [Ha Hs Hh Ht Ho Hi He Hn]. split; [split; [constructor; assumption|exact Ho]|].
    split; [exact Hi|]. split; assumption.
  - intros ([[Ha Hs Hh Ht] Ho] & Hi & He & Hn). constructor; assumption.
Qed.

(* Rdir only depends on the sub-sequences of links with a given key *)
Lemma Rdir_ext : forall out s L L',
  (forall l, filter (fun p => beq (lkey out p) l) L = filter (fun p => beq (lkey out p) l) L') ->
  Rdir out s L -> Rdir out s L'.
Proof. intros out s L L' E H l d Hl Hd. rewrite <- E. apply H; assumption. Qed.

Lemma head_dir_ok : forall s, Rbase s -> forall out p d, find p (tr s) = Some d ->
  head_ok (length (stubs s)) (head_dir out d).
Proof. intros s HB out p d Hd. destruct (B_heads s HB p d Hd). destruct out; assumption. Qed.

(* ---- a state worth talking about ------------------------------------------- *)
Definition good (s : traph) : Prop := wf_tst (tr s) /\ 1 <= nb s /\ addr_ok (tr s) (nb s).

Definition is_page (s : traph) (l : bytes) : Prop := exists d, nodeof s l = Some d /\ page d = true.

(* every link of the list has its [out]-side end in the tree *)
Definition closed (out : bool) (s : traph) (links : list (bytes * bytes)) : Prop :=
  forall x, In x links -> nodeof s (lkey out x) <> None.

Lemma filter_nil : forall (A : Type) (f : A -> bool) (l : list A),
  (forall x, In x l -> f x = false) -> filter f l = [].
Proof.
  intros A f l. induction l as [|x l IH]; intro H; [reflexivity|].
  cbn [filter]. rewrite (H x (or_introl eq_refl)). apply IH. intros y Hy. apply H. right. exact Hy.
Qed.

Lemma closed_filter : forall out s links l, closed out s links -> nodeof s l = None ->
  filter (fun p => beq (lkey out p) l) links = [].
Proof.
  intros out s links l Hc Hn. apply filter_nil. intros x Hx.
  destruct (beq (lkey out x) l) eqn:E; [|reflexivity].
  apply beq_eq in E. exfalso. apply (Hc x Hx). rewrite E. exact Hn.
Qed.

(* ---- steps that leave the link store alone --------------------------------- *)
(* s' has at least the nodes of s, at the same addresses, pages staying pages; the
   heads of old nodes are unchanged and the new nodes have no links *)
Definition step_ok (s s' : traph) : Prop :=
  good s' /\ stubs s' = stubs s /\
  (forall p d, find p (tr s) = Some d ->
     exists d', find p (tr s') = Some d' /\ addr d' = addr d /\ (page d = true -> page d' = true)) /\
  (forall p d', find p (tr s') = Some d' ->
     (exists d, find p (tr s) = Some d /\ outh d' = outh d /\ inh d' = inh d) \/
     (find p (tr s) = None /\ outh d' = 0 /\ inh d' = 0)).

Lemma step_refl : forall s, good s -> step_ok s s.
Proof.
  intros s Hg. split; [exact Hg|]. split; [reflexivity|]. split.
  - intros p d Hd. exists d. auto.
  - intros p d Hd. left. exists d. auto.
Qed.

Lemma step_trans : forall s s' s'', step_ok s s' -> step_ok s' s'' -> step_ok s s''.
Proof.
  intros s s' s'' (Hg1 & Hst1 & Hold1 & Hnew1) (Hg2 & Hst2 & Hold2 & Hnew2).
  split; [exact Hg2|]. split; [congruence|]. split.
  - intros p d Hd. destruct (Hold1 p d Hd) as (d1 & Hd1 & Ha1 & Hp1).
    destruct (Hold2 p d1 Hd1) as (d2 & Hd2 & Ha2 & Hp2).
    exists d2. split; [exact Hd2|]. split; [congruence|auto].
  - intros p d2 Hd2. destruct (Hnew2 p d2 Hd2) as [(d1 & Hd1 & Ho & Hi)|(Hn & Ho & Hi)].
    + destruct (Hnew1 p d1 Hd1) as [(d & Hd & Ho1 & Hi1)|(Hn1 & Ho1 & Hi1)].
      * left. exists d. split; [exact Hd|]. split; congruence.
      * right. split; [exact Hn1|]. split; congruence.
    + right. split; [|auto].
      destruct (find p (tr s)) as [d|] eqn:E; [|reflexivity].
      destruct (Hold1 p d E) as (d1 & Hd1 & _). congruence.
Qed.

Lemma step_good : forall s s', step_ok s s' -> good s'.
Proof. intros s s' H. apply H. Qed.

Lemma step_stubs : forall s s', step_ok s s' -> stubs s' = stubs s.
Proof. intros s s' H. apply H. Qed.

Lemma step_lru_at : forall s s', good s -> step_ok s s' ->
  forall p d, find p (tr s) = Some d -> lru_at (addr d) s' = lru_at (addr d) s.
Proof.
  intros s s' (Hwf & _ & Hok) ((Hwf' & _ & Hok') & _ & Hold & _) p d Hd.
  rewrite (lru_at_spec s p d Hwf Hok Hd).
  destruct (Hold p d Hd) as (d' & Hd' & Ha & _). rewrite <- Ha.
  apply (lru_at_spec s' p d' Hwf' Hok' Hd').
Qed.

Lemma step_Rbase : forall s s', step_ok s s' -> Rbase s -> Rbase s'.
Proof.
  intros s s' ((Hwf' & _ & Hok') & Hst & Hold & Hnew) [Ha Hs Hh Ht]. constructor.
  - exact Hok'.
  - rewrite Hst. exact Hs.
  - intros p d' Hd'. rewrite Hst.
    destruct (Hnew p d' Hd') as [(d & Hd & -> & ->)|(_ & -> & ->)].
    + apply (Hh p d Hd).
    + split; apply head_ok_0.
  - intros i tg pv Hn. rewrite Hst in Hn.
    destruct (Ht i tg pv Hn) as (p & d & Hd & Hda & Hpg).
    destruct (Hold p d Hd) as (d' & Hd' & Ha' & Hp').
    exists p, d'. split; [exact Hd'|]. split; [congruence|auto].
Qed.

Lemma step_Rdir : forall s s' out links, good s -> step_ok s s' -> Rbase s ->
  closed out s links -> Rdir out s links -> Rdir out s' links.
Proof.
  intros s s' out links Hg Hstep HB Hc HR l d' Hl Hn.
  pose proof Hstep as (_ & Hst & _ & Hnew).
  unfold nodeof in Hn. destruct (Hnew _ _ Hn) as [(d & Hd & Ho & Hi)|(Hnone & Ho & Hi)].
  - assert (E : head_dir out d' = head_dir out d) by (destruct out; assumption).
    rewrite E, Hst, <- (HR l d Hl Hd).
    apply map_ext_in. intros tg Hin. apply in_rev in Hin.
    apply targets_of_in in Hin. destruct Hin as (i & pv & Hi').
    destruct (B_targets s HB i tg pv Hi') as (p0 & d0 & Hf0 & <- & _).
    apply (step_lru_at s s' Hg Hstep p0 d0 Hf0).
  - assert (E : head_dir out d' = 0) by (destruct out; assumption).
    rewrite E, targets_of_0. cbn [rev map].
    rewrite (closed_filter out s links l Hc Hnone). reflexivity.
Qed.

Lemma step_known : forall s s' l, step_ok s s' -> nodeof s l <> None -> nodeof s' l <> None.
Proof.
  intros s s' l (_ & _ & Hold & _) H. unfold nodeof in *.
  destruct (find (lru_iter l) (tr s)) as [d|] eqn:E; [|congruence].
  destruct (Hold _ _ E) as (d' & -> & _). discriminate.
Qed.

Lemma step_closed : forall s s' out links, step_ok s s' -> closed out s links -> closed out s' links.
Proof. intros s s' out links Hs Hc x Hx. apply (step_known s s' _ Hs). apply Hc. exact Hx. Qed.

Lemma step_is_page : forall s s' l, step_ok s s' -> is_page s l -> is_page s' l.
Proof.
  intros s s' l (_ & _ & Hold & _) (d & Hd & Hp). unfold nodeof in Hd.
  destruct (Hold _ _ Hd) as (d' & Hd' & _ & Hp'). exists d'. split; [exact Hd'|auto].
Qed.

(* ---- add_lru is such a step ------------------------------------------------ *)
Lemma add_lru_good : forall flag l s, good s -> good (fst (add_lru flag l s)).
Proof.
  intros flag l s (Hwf & Hnb & Hok). split; [apply add_lru_wf; exact Hwf|]. split.
  - rewrite add_lru_nb. pose proof (ins_nb_mono flag (lru_iter l) [] 0 (nb s) hist0 (tr s)). lia.
  - apply add_lru_addr_ok; assumption.
Qed.

Lemma add_lru_step : forall flag l s, good s -> step_ok s (fst (add_lru flag l s)).
Proof.
  intros flag l s Hg. split; [apply add_lru_good; exact Hg|].
  split; [apply add_lru_stubs|]. split.
  - intros p d Hd. destruct (add_lru_addr_stable flag l s p d Hd) as (d' & Hd' & Ha & Hp & _).
    exists d'. split; [exact Hd'|]. split; [exact Ha|congruence].
  - intros p d' Hd'. destruct (add_lru_class flag l s p d' Hd') as [(d & Hd & Hk)|(Hn & _ & Ho & Hi)].
    + left. exists d. destruct Hk as (_ & _ & _ & _ & _ & _ & Ho & Hi). auto.
    + right. auto.
Qed.

(* ---- in-place updates of fields other than addr / outh / inh --------------- *)
Definition link_neutral (f : nd -> nd) : Prop :=
  forall d, stem (f d) = stem d /\ addr (f d) = addr d /\ outh (f d) = outh d /\
            inh (f d) = inh d /\ (page d = true -> page (f d) = true).

Lemma neutral_set_crawled : link_neutral set_crawled.
Proof. intro d. repeat split; auto. Qed.
Lemma neutral_set_page : link_neutral set_page.
Proof. intro d. repeat split; auto. Qed.
Lemma neutral_set_we : forall w, link_neutral (set_we w).
Proof. intros w d. repeat split; auto. Qed.
Lemma neutral_set_rule : forall b, link_neutral (set_rule b).
Proof. intros b d. repeat split; auto. Qed.
Lemma neutral_set_nochild : forall b, link_neutral (set_nochild b).
Proof. intros b d. repeat split; auto. Qed.
Lemma neutral_page_crawled : forall cr : bool,
  link_neutral (fun d => if cr then set_crawled (set_page d) else set_page d).
Proof. intros [|] d; repeat split; auto. Qed.

Lemma upd_step : forall f q s s', link_neutral f ->
  tr s' = upd f q (tr s) -> nb s' = nb s -> stubs s' = stubs s ->
  good s -> step_ok s s'.
Proof.
  intros f q s s' Hf Etr Enb Est (Hwf & Hnb & Hok).
  assert (Hs : forall d, stem (f d) = stem d) by (intro d; apply Hf).
  assert (Hsa : forall d, stem (f d) = stem d /\ addr (f d) = addr d)
    by (intro d; split; apply Hf).
  split; [|split; [exact Est|split]].
  - split; [rewrite Etr; apply upd_wf; assumption|].
    split; [rewrite Enb; exact Hnb|]. rewrite Etr, Enb. apply upd_addr_ok; assumption.
  - intros p d Hd. rewrite Etr.
    destruct (find_upd_keeps f q (tr s) p d Hs Hd) as [H|(_ & H)].
    + exists d. auto.
    + exists (f d). split; [exact H|]. split; apply Hf.
  - intros p d' Hd'. rewrite Etr in Hd'. left.
    destruct (find_upd_class f q (tr s) p d' Hs Hd') as [(-> & d & Hd & ->)|(_ & Hd)].
    + exists d. split; [exact Hd|]. split; apply Hf.
    + exists d'. auto.
Qed.

(* ---- Rlinks under the steps ------------------------------------------------ *)
Lemma R_good : forall s a, Rcore s a -> Rlinks s a -> good s.
Proof.
  intros s a HC HL. split; [apply (R_wf s a HC)|]. split; [|apply (L_addr s a HL)].
  rewrite (R_nb s a HC). unfold s_trie_blocks. lia.
Qed.

Lemma R_is_page : forall s a x c, Rcore s a -> In (x, c) (a_pages a) -> wf_lru x /\ is_page s x.
Proof.
  intros s a x c HC Hin.
  assert (Hw : wf_lru x).
  { pose proof (R_pages_wf s a HC) as H. rewrite Forall_forall in H. apply (H (x, c) Hin). }
  split; [exact Hw|].
  apply (R_pages s a HC x c Hw) in Hin. destruct Hin as (d & Hd & Hp & _). exists d. auto.
Qed.

Lemma R_closed : forall s a out, Rcore s a -> Rlinks s a -> closed out s (a_links a).
Proof.
  intros s a out HC HL [x y] Hin.
  destruct (L_ends s a HL x y Hin) as ((c1 & H1) & (c2 & H2)).
  destruct (R_is_page s a x c1 HC H1) as (_ & d1 & Hd1 & _).
  destruct (R_is_page s a y c2 HC H2) as (_ & d2 & Hd2 & _).
  destruct out; cbn [lkey fst snd]; congruence.
Qed.

(* the general form: any step, any abstract state with the same links and no fewer pages *)
Lemma step_Rlinks : forall s s' a a', Rcore s a -> Rlinks s a -> step_ok s s' ->
  a_links a' = a_links a ->
  (forall x c, In (x, c) (a_pages a) -> exists c', In (x, c') (a_pages a')) ->
  Rlinks s' a'.
Proof.
  intros s s' a a' HC HL Hstep El Hpg.
  pose proof (R_good s a HC HL) as Hg.
  pose proof (R_closed s a true HC HL) as Hc1. pose proof (R_closed s a false HC HL) as Hc2.
  apply Rlinks_split in HL. destruct HL as ((HB & Ho) & Hi & He & Hn).
  apply Rlinks_split. rewrite El. split; [split|split; [|split]].
  - apply (step_Rbase s s' Hstep HB).
  - apply (step_Rdir s s' true _ Hg Hstep HB Hc1 Ho).
  - apply (step_Rdir s s' false _ Hg Hstep HB Hc2 Hi).
  - intros x y Hin. destruct (He x y Hin) as ((c1 & H1) & (c2 & H2)).
    split; [apply (Hpg x c1 H1)|apply (Hpg y c2 H2)].
  - rewrite (step_stubs s s' Hstep), Hn. unfold s_stubs. rewrite El. reflexivity.
Qed.

Lemma add_lru_Rlinks : forall flag l s a, Rcore s a -> Rlinks s a ->
  Rlinks (fst (add_lru flag l s)) (upd_known (know l) a).
Proof.
  intros flag l s a HC HL.
  apply (step_Rlinks s _ a _ HC HL).
  - apply add_lru_step. apply (R_good s a HC HL).
  - reflexivity.
  - intros x c H. exists c. exact H.
Qed.

Lemma upd_Rlinks : forall f q s s' a a', link_neutral f ->
  tr s' = upd f q (tr s) -> nb s' = nb s -> stubs s' = stubs s ->
  Rcore s a -> Rlinks s a ->
  a_links a' = a_links a ->
  (forall x c, In (x, c) (a_pages a) -> exists c', In (x, c') (a_pages a')) ->
  Rlinks s' a'.
Proof.
  intros f q s s' a a' Hf Etr Enb Est HC HL El Hpg.
  apply (step_Rlinks s s' a a' HC HL); try assumption.
  apply (upd_step f q s s' Hf Etr Enb Est). apply (R_good s a HC HL).
Qed.

(* the instances used by the write requests: set_tree (upd f q (tr s)) s, same abstract links/pages *)
Lemma upd_tree_Rlinks : forall f q s a a', link_neutral f -> Rcore s a -> Rlinks s a ->
  a_links a' = a_links a ->
  (forall x c, In (x, c) (a_pages a) -> exists c', In (x, c') (a_pages a')) ->
  Rlinks (set_tree (upd f q (tr s)) s) a'.
Proof.
  intros f q s a a' Hf HC HL El Hpg.
  apply (upd_Rlinks f q s (set_tree (upd f q (tr s)) s) a a' Hf); try reflexivity; assumption.
Qed.

Lemma upd_same_Rlinks : forall f q s a, link_neutral f -> Rcore s a -> Rlinks s a ->
  Rlinks (set_tree (upd f q (tr s)) s) a.
Proof. intros f q s a Hf HC HL. apply (upd_tree_Rlinks f q s a a Hf HC HL); [reflexivity|eauto]. Qed.

(* ====================================================================== *)
(* LinkStore.add_links                                                    *)
(* ====================================================================== *)

Definition set_head (out : bool) (h : N) : nd -> nd := if out then set_outh h else set_inh h.

Lemma set_head_stem : forall out h d, stem (set_head out h d) = stem d.
Proof. intros [|] h d; reflexivity. Qed.
Lemma set_head_addr : forall out h d, addr (set_head out h d) = addr d.
Proof. intros [|] h d; reflexivity. Qed.
Lemma set_head_page : forall out h d, page (set_head out h d) = page d.
Proof. intros [|] h d; reflexivity. Qed.
Lemma set_head_same : forall out h d, head_dir out (set_head out h d) = h.
Proof. intros [|] h d; reflexivity. Qed.
Lemma set_head_other : forall out h d, head_dir (negb out) (set_head out h d) = head_dir (negb out) d.
Proof. intros [|] h d; reflexivity. Qed.

Lemma store_links_nil : forall out path s, store_links out path [] s = s.
Proof. reflexivity. Qed.

Lemma store_links_shape : forall out path targets s d,
  targets <> [] -> find path (tr s) = Some d ->
  stubs_ok (stubs s) -> head_ok (length (stubs s)) (head_dir out d) ->
  exists news h',
    store_links out path targets s =
      mkT (upd (set_head out h') path (tr s)) (nb s) (lastwe s) (stubs s ++ news) (rules s) (dflt s) /\
    map fst news = targets /\
    stubs_ok (stubs s ++ news) /\
    head_ok (length (stubs s ++ news)) h' /\
    targets_of (stubs s ++ news) h' = rev targets ++ targets_of (stubs s) (head_dir out d).
Proof.
  intros out path targets s d Hne Hf Hst Hh.
  destruct (push_stubs_gen targets (head_dir out d) (stubs s) Hst Hh)
    as (news & E & Hm & Hok & Hhd & _ & Htg).
  exists news, (snd (push_stubs targets (head_dir out d) (stubs s))).
  split; [|auto].
  destruct targets as [|tg r]; [congruence|].
  unfold store_links. rewrite Hf. fold (head_dir out d). rewrite E. reflexivity.
Qed.

Lemma filter_all : forall (A : Type) (f : A -> bool) (l : list A),
  (forall x, In x l -> f x = true) -> filter f l = l.
Proof.
  intros A f l. induction l as [|x l IH]; intro H; [reflexivity|].
  cbn [filter]. rewrite (H x (or_introl eq_refl)). f_equal. apply IH.
  intros y Hy. apply H. right. exact Hy.
Qed.

Lemma lru_iter_inj : forall l1 l2, wf_lru l1 -> wf_lru l2 -> lru_iter l1 = lru_iter l2 -> l1 = l2.
Proof.
  intros l1 l2 H1 H2 E. rewrite <- (lru_iter_concat l1 H1), <- (lru_iter_concat l2 H2), E.
  reflexivity.
Qed.

Lemma head_dir_cases : forall (P : N -> Prop) d,
  (forall b, P (head_dir b d)) -> P (outh d) /\ P (inh d).
Proof. intros P d H. split; [apply (H true)|apply (H false)]. Qed.

Lemma bool_out_cases : forall b out : bool, b = out \/ b = negb out.
Proof. intros [|] [|]; auto. Qed.

(* the key lemma: one call of LinkStore.add_links on node l with the blocks of tgts.
   Direction [out] advances by the pairs (l, t) (resp. (t, l)) in the order of tgts;
   the other direction, stated against any list, is untouched. *)
Lemma store_links_step : forall out l tgts s d links links2,
  good s -> Rbase s -> Rdir out s links -> Rdir (negb out) s links2 ->
  wf_lru l -> nodeof s l = Some d ->
  Forall (fun t => wf_lru t /\ is_page s t) tgts ->
  let s' := store_links out (lru_iter l) (map (fun o => addr_of o s) tgts) s in
  good s' /\ Rbase s' /\
  Rdir out s' (links ++ map (lpair out l) tgts) /\ Rdir (negb out) s' links2 /\
  length (stubs s') = (length (stubs s) + length tgts)%nat /\
  (forall t, is_page s t -> is_page s' t) /\
  (forall t, nodeof s t <> None -> nodeof s' t <> None).
Proof.
  intros out l tgts s d links links2 Hg HB Hdir Hoth Hl Hd Htg.
  destruct tgts as [|t0 tgts0].
  { cbn [map]. rewrite store_links_nil, app_nil_r, Nat.add_0_r. cbv zeta.
    split; [exact Hg|]. split; [exact HB|]. split; [exact Hdir|]. split; [exact Hoth|]. auto. }
  set (tgts := t0 :: tgts0) in *.
  set (targets := map (fun o => addr_of o s) tgts).
  assert (Hne : targets <> []) by (unfold targets, tgts; discriminate).
  unfold nodeof in Hd.
  destruct (store_links_shape out (lru_iter l) targets s d Hne Hd (B_stubs s HB)
              (head_dir_ok s HB out _ d Hd)) as (news & h' & Es & Hm & Hok & Hhd & Htgs).
  cbv zeta. fold targets. rewrite Es. clear Es.
  set (q := lru_iter l) in *.
  set (g := set_head out h').
  set (s' := mkT (upd g q (tr s)) (nb s) (lastwe s) (stubs s ++ news) (rules s) (dflt s)).
  destruct Hg as (Hwf & Hnb & Hok0).
  assert (Hgs : forall x, stem (g x) = stem x) by (intro x; apply set_head_stem).
  assert (Hgsa : forall x, stem (g x) = stem x /\ addr (g x) = addr x)
    by (intro x; split; [apply set_head_stem|apply set_head_addr]).
  assert (Hwf' : wf_tst (tr s')) by (apply upd_wf; assumption).
  assert (Hok' : addr_ok (tr s') (nb s')) by (apply upd_addr_ok; assumption).
  (* F2: the address -> LRU lookup is stable on old nodes *)
  assert (F2 : forall p0 d0, find p0 (tr s) = Some d0 -> lru_at (addr d0) s' = lru_at (addr d0) s).
  { intros p0 d0 H0. apply (lru_at_upd g q s s' p0 d0 Hgsa); auto. }
  (* F3: every node of s' comes from a node of s *)
  assert (F3 : forall p d1, find p (tr s') = Some d1 ->
            exists d0, find p (tr s) = Some d0 /\ addr d1 = addr d0 /\ page d1 = page d0 /\
              head_dir (negb out) d1 = head_dir (negb out) d0 /\
              ((p = q /\ d0 = d /\ head_dir out d1 = h') \/
               (p <> q /\ head_dir out d1 = head_dir out d0))).
  { intros p d1 H1. cbn [tr s'] in H1.
    destruct (find_upd_class g q (tr s) p d1 Hgs H1) as [(-> & d0 & Hd0 & ->)|(Hne' & Hd0)].
    - exists d0. split; [exact Hd0|]. unfold g.
      rewrite set_head_addr, set_head_page, set_head_other, set_head_same.
      repeat split. left. repeat split. congruence.
    - exists d1. repeat split; auto. }
  (* F4: every node of s is still there *)
  assert (F4 : forall p d0, find p (tr s) = Some d0 ->
            exists d1, find p (tr s') = Some d1 /\ addr d1 = addr d0 /\ page d1 = page d0).
  { intros p d0 H0. cbn [tr s'].
    destruct (find_upd_keeps g q (tr s) p d0 Hgs H0) as [H|(_ & H)].
    - exists d0. auto.
    - exists (g d0). split; [exact H|]. unfold g. rewrite set_head_addr, set_head_page. auto. }
  assert (Hlen : (length (stubs s) <= length (stubs s ++ news))%nat)
    by (rewrite app_length; lia).
  (* old chains read the same in s' *)
  assert (Fold0 : forall b p d0, find p (tr s) = Some d0 ->
            map (fun t => lru_at t s') (rev (targets_of (stubs s) (head_dir b d0))) =
            map (fun t => lru_at t s) (rev (targets_of (stubs s) (head_dir b d0)))).
  { intros b p d0 H0.
    apply map_ext_in. intros tg Hin. apply in_rev in Hin.
    apply targets_of_in in Hin. destruct Hin as (i & pv & Hi).
    destruct (B_targets s HB i tg pv Hi) as (p1 & d1 & Hf1 & <- & _).
    apply (F2 p1 d1 Hf1). }
  assert (Fold : forall b p d0, find p (tr s) = Some d0 ->
            map (fun t => lru_at t s') (rev (targets_of (stubs s ++ news) (head_dir b d0))) =
            map (fun t => lru_at t s) (rev (targets_of (stubs s) (head_dir b d0)))).
  { intros b p d0 H0.
    rewrite targets_app; [|apply (B_stubs s HB)|apply (head_dir_ok s HB b p d0 H0)].
    apply (Fold0 b p d0 H0). }
  (* the new targets read back as tgts *)
  assert (Fnew : map (fun t => lru_at t s') targets = tgts).
  { unfold targets. rewrite map_map. rewrite <- (map_id tgts) at 2.
    apply map_ext_in. intros t Hin.
    rewrite Forall_forall in Htg. destruct (Htg t Hin) as (Hwt & dt & Hdt & _).
    unfold addr_of. unfold nodeof in Hdt. rewrite Hdt.
    rewrite (F2 _ _ Hdt), (lru_at_spec s _ dt Hwf Hok0 Hdt). apply lru_iter_concat. exact Hwt. }
  split; [split; [exact Hwf'|split; [exact Hnb|exact Hok']]|].
  split; [|split; [|split; [|split; [|split]]]].
  - (* Rbase *)
    constructor.
    + exact Hok'.
    + exact Hok.
    + intros p d1 H1. cbn [stubs s'].
      destruct (F3 p d1 H1) as (d0 & Hd0 & _ & _ & Eo & Hcase).
      apply head_dir_cases. intro b. destruct (bool_out_cases b out) as [->| ->].
      * destruct Hcase as [(_ & _ & ->)|(_ & ->)]; [exact Hhd|].
        apply (head_ok_mono _ _ _ Hlen). apply (head_dir_ok s HB out p d0 Hd0).
      * rewrite Eo. apply (head_ok_mono _ _ _ Hlen). apply (head_dir_ok s HB (negb out) p d0 Hd0).
    + intros i tg pv Hn. cbn [stubs s'] in Hn.
      assert (Hex : exists p0 d0, find p0 (tr s) = Some d0 /\ addr d0 = tg /\ page d0 = true).
      { destruct (Nat.lt_ge_cases i (length (stubs s))) as [Hi|Hi].
        - rewrite nth_error_app1 in Hn by exact Hi. apply (B_targets s HB i tg pv Hn).
        - rewrite nth_error_app2 in Hn by exact Hi. apply nth_error_In in Hn.
          assert (Hin : In tg targets).
          { rewrite <- Hm. apply in_map_iff. exists (tg, pv). split; [reflexivity|exact Hn]. }
          unfold targets in Hin. apply in_map_iff in Hin. destruct Hin as (t & <- & Hint).
          rewrite Forall_forall in Htg. destruct (Htg t Hint) as (_ & dt & Hdt & Hpt).
          unfold nodeof in Hdt. exists (lru_iter t), dt. unfold addr_of. rewrite Hdt. auto. }
      destruct Hex as (p0 & d0 & Hd0 & Ha0 & Hp0).
      destruct (F4 p0 d0 Hd0) as (d1 & Hd1 & Ha1 & Hp1).
      exists p0, d1. split; [exact Hd1|]. split; congruence.
  - (* the direction written *)
    intros l1 d1 Hl1 Hn1. unfold nodeof in Hn1. cbn [stubs s'].
    destruct (F3 _ d1 Hn1) as (d0 & Hd0 & _ & _ & _ & Hcase).
    rewrite filter_app, map_app.
    destruct Hcase as [(Epq & -> & Eh)|(Hpq & Eh)].
    + apply (lru_iter_inj l1 l Hl1 Hl) in Epq. subst l1.
      rewrite Eh, Htgs, rev_app_distr, rev_involutive, map_app, Fnew.
      rewrite (Fold0 out q d Hd0). f_equal.
      * apply (Hdir l d Hl Hd0).
      * rewrite filter_all.
        -- rewrite map_map. rewrite <- (map_id tgts) at 1. apply map_ext.
           intro t. symmetry. apply lval_lpair.
        -- intros x Hx. apply in_map_iff in Hx. destruct Hx as (t & <- & _).
           rewrite lkey_lpair. apply beq_eq. reflexivity.
    + rewrite Eh, (Fold out _ d0 Hd0), (Hdir l1 d0 Hl1 Hd0).
      rewrite (filter_nil _ _ (map (lpair out l) tgts)); [cbn [map]; rewrite app_nil_r; reflexivity|].
      intros x Hx. apply in_map_iff in Hx. destruct Hx as (t & <- & _).
      rewrite lkey_lpair. destruct (beq l l1) eqn:E; [|reflexivity].
      apply beq_eq in E. subst l1. exfalso. apply Hpq. reflexivity.
  - (* the other direction *)
    intros l1 d1 Hl1 Hn1. unfold nodeof in Hn1. cbn [stubs s'].
    destruct (F3 _ d1 Hn1) as (d0 & Hd0 & _ & _ & Eo & _).
    rewrite Eo, (Fold (negb out) _ d0 Hd0). apply (Hoth l1 d0 Hl1 Hd0).
  - cbn [stubs s']. rewrite app_length. f_equal.
    rewrite <- (map_length fst news), Hm. unfold targets. apply map_length.
  - intros t (dt & Hdt & Hpt). unfold nodeof in Hdt.
    destruct (F4 _ dt Hdt) as (d1 & Hd1 & _ & Hp1). exists d1. split; [exact Hd1|congruence].
  - intros t Hk. unfold nodeof in *.
    destruct (find (lru_iter t) (tr s)) as [dt|] eqn:E; [|congruence].
    destruct (F4 _ dt E) as (d1 & Hd1 & _). unfold nodeof. cbn [tr s'] in *. rewrite Hd1. discriminate.
Qed.

(* the same, in the Rout / Rin vocabulary *)
Lemma store_links_out : forall l tgts s d links links2,
  good s -> Rout s links -> Rin s links2 ->
  wf_lru l -> nodeof s l = Some d ->
  Forall (fun t => wf_lru t /\ is_page s t) tgts ->
  let s' := store_links true (lru_iter l) (map (fun o => addr_of o s) tgts) s in
  Rout s' (links ++ map (fun t => (l, t)) tgts) /\ Rin s' links2.
Proof.
  intros l tgts s d links links2 Hg [HB Ho] Hi Hl Hd Htg.
  destruct (store_links_step true l tgts s d links links2 Hg HB Ho Hi Hl Hd Htg)
    as (_ & HB' & Ho' & Hi' & _).
  split; [split|]; assumption.
Qed.

Lemma store_links_in : forall l srcs s d links links2,
  good s -> Rout s links2 -> Rin s links ->
  wf_lru l -> nodeof s l = Some d ->
  Forall (fun t => wf_lru t /\ is_page s t) srcs ->
  let s' := store_links false (lru_iter l) (map (fun o => addr_of o s) srcs) s in
  Rout s' links2 /\ Rin s' (links ++ map (fun t => (t, l)) srcs).
Proof.
  intros l srcs s d links links2 Hg [HB Ho] Hi Hl Hd Htg.
  destruct (store_links_step false l srcs s d links links2 Hg HB Hi Ho Hl Hd Htg)
    as (_ & HB' & Hi' & Ho' & _).
  split; [split|]; assumption.
Qed.
