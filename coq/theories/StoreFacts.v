(* StoreFacts.v — the tree model is a faithful abstraction of the pointer structure
   stored in lru_trie.dat: on the files of every state satisfying Inv18 the block-level
   read functions of Store.v (blk_at, b_read, b_find, b_lru_node, b_windup_lru) agree
   with the tree-level ones (find, nodeof, concat of the path). *)
From Coq Require Import List NArith Bool Lia Arith Permutation.
Import ListNotations.
From Traph Require Import Bytes Consts Helpers Rules Tst TstDefs Traph Traphw Codec Ops RefDefs
  TstFacts CodecFacts QueryCore2 TraceDefs TraceFacts Store.
Open Scope N_scope.

(* ====================================================================== *)
(* Subtrees                                                                 *)
(* ====================================================================== *)

(* x occurs in t, following left / child / right links *)
Inductive subt (x : tst) : tst -> Prop :=
| subt_here : subt x x
| subt_l : forall d l c r, subt x l -> subt x (Nd d l c r)
| subt_c : forall d l c r, subt x c -> subt x (Nd d l c r)
| subt_r : forall d l c r, subt x r -> subt x (Nd d l c r).

Lemma subt_trans : forall x y z, subt x y -> subt y z -> subt x z.
Proof.
  intros x y z Hxy Hyz. induction Hyz as [|d l c r _ IH|d l c r _ IH|d l c r _ IH].
  - exact Hxy.
  - apply subt_l. exact IH.
  - apply subt_c. exact IH.
  - apply subt_r. exact IH.
Qed.

Lemma subt_left : forall d l c r t, subt (Nd d l c r) t -> subt l t.
Proof. intros d l c r t H. eapply subt_trans; [|exact H]. apply subt_l, subt_here. Qed.
Lemma subt_child : forall d l c r t, subt (Nd d l c r) t -> subt c t.
Proof. intros d l c r t H. eapply subt_trans; [|exact H]. apply subt_c, subt_here. Qed.
Lemma subt_right : forall d l c r t, subt (Nd d l c r) t -> subt r t.
Proof. intros d l c r t H. eapply subt_trans; [|exact H]. apply subt_r, subt_here. Qed.

Lemma find_sub_subt : forall ss t sub, find_sub ss t = Some sub -> subt sub t.
Proof.
  induction ss as [|s rest IHss]; intros t sub; [discriminate|].
  induction t as [|d l IHl c _ r IHr].
  - rewrite find_sub_Lf. discriminate.
  - rewrite find_sub_Nd. destruct (lex s (stem d)).
    + destruct rest as [|x2 p2].
      * intro H. injection H as <-. apply subt_here.
      * intro H. apply subt_c. apply (IHss _ _ H).
    + intro H. apply subt_l. apply IHl. exact H.
    + intro H. apply subt_r. apply IHr. exact H.
Qed.

Lemma subt_placed : forall x t, subt x t -> incl (placed x) (placed t).
Proof.
  intros x t H. induction H as [|d l c r _ IH|d l c r _ IH|d l c r _ IH]; intros y Hy.
  - exact Hy.
  - cbn [placed]. apply in_or_app. right. apply in_or_app. right. apply in_or_app. left. apply IH. exact Hy.
  - cbn [placed]. apply in_or_app. right. apply in_or_app. left. apply IH. exact Hy.
  - cbn [placed]. apply in_or_app. right. apply in_or_app. right. apply in_or_app. right. apply IH. exact Hy.
Qed.

Lemma subt_paths : forall d l c r t, subt (Nd d l c r) t -> forall pre, exists p, In (p, d) (paths pre t).
Proof.
  intros d l c r t H. induction H as [|d0 l0 c0 r0 _ IH|d0 l0 c0 r0 _ IH|d0 l0 c0 r0 _ IH]; intro pre.
  - exists (pre ++ [stem d]). cbn [paths]. left. reflexivity.
  - destruct (IH pre) as (p & Hp). exists p. cbn [paths]. right. apply in_or_app. right. apply in_or_app. left. exact Hp.
  - destruct (IH (pre ++ [stem d0])) as (p & Hp). exists p. cbn [paths]. right. apply in_or_app. left. exact Hp.
  - destruct (IH pre) as (p & Hp). exists p. cbn [paths]. right. apply in_or_app. right. apply in_or_app. right. exact Hp.
Qed.

(* every node of a subtree is found by some path *)
Lemma subt_node_find : forall d l c r t, bst t -> subt (Nd d l c r) t -> exists p, find p t = Some d.
Proof.
  intros d l c r t Hb H. destruct (subt_paths _ _ _ _ _ H []) as (p & Hp).
  destruct (paths_find_fwd _ _ _ _ Hb Hp) as (q & _ & Hq). exists q. exact Hq.
Qed.

(* the node found at a path, with its three subtrees *)
Lemma find_subt : forall p t d, find p t = Some d ->
  exists l c r, find_sub p t = Some (Nd d l c r) /\ subt (Nd d l c r) t.
Proof.
  intros p t d H. unfold find in H. destruct (find_sub p t) as [sub|] eqn:E; [|discriminate].
  destruct sub as [|d' l c r]; [discriminate|]. cbn in H. injection H as ->.
  exists l, c, r. split; [reflexivity|]. apply (find_sub_subt _ _ _ E).
Qed.

(* ---- number of nodes ---------------------------------------------------------- *)
Fixpoint size (t : tst) : nat :=
  match t with Lf => 0%nat | Nd _ l c r => S (size l + size c + size r) end.

Lemma number_from_length : forall bs a, length (number_from a bs) = length bs.
Proof. induction bs as [|b bs IH]; intro a; [reflexivity|]. cbn [number_from length]. rewrite IH. reflexivity. Qed.

Lemma size_placed : forall t, (size t <= length (placed t))%nat.
Proof.
  induction t as [|d l IHl c IHc r IHr]; [apply Nat.le_refl|].
  cbn [size placed]. rewrite !app_length, number_from_length. cbn [node_blocks length]. lia.
Qed.

Lemma find_length_size : forall p t d, find p t = Some d -> (length p <= size t)%nat.
Proof.
  induction p as [|s rest IHp]; intros t d0; [rewrite find_nil; discriminate|].
  induction t as [|d l IHl c _ r IHr].
  - rewrite find_Lf. discriminate.
  - rewrite find_Nd. cbn [size length]. destruct (lex s (stem d)).
    + destruct rest as [|x2 p2].
      * intros _. cbn [length]. lia.
      * intro H. apply IHp in H. lia.
    + intro H. apply IHl in H. cbn [length] in H. lia.
    + intro H. apply IHr in H. cbn [length] in H. lia.
Qed.

(* ====================================================================== *)
(* S1 — the stored blocks                                                    *)
(* ====================================================================== *)

Lemma ft_length : forall s, length (ft (files_of s)) = length (placed (tr s)).
Proof.
  intro s. unfold files_of. cbn [ft]. rewrite map_length.
  apply Permutation_length. apply flatten_perm.
Qed.

Lemma size_ft : forall s, (size (tr s) <= length (ft (files_of s)))%nat.
Proof. intro s. rewrite ft_length. apply size_placed. Qed.

Lemma blk_at_placed : forall s a b, tiled (tr s) (nb s) -> In (a, b) (placed (tr s)) ->
  blk_at (files_of s) a = Some b.
Proof.
  intros s a b Ht Hin.
  destruct (img_In _ _ _ _ _ (tiled_img _ _ Ht) Hin) as (i & -> & E & _).
  unfold blk_at. rewrite tidx_S.
  rewrite N.mod_mul by (rewrite bsz_val; discriminate). rewrite N.eqb_refl.
  assert (Hle : (bsz <=? N.of_nat (S i) * bsz) = true) by (apply N.leb_le; rewrite bsz_val; lia).
  rewrite Hle. cbn [andb]. exact E.
Qed.

Lemma number_from_nth : forall bs a k b, nth_error bs k = Some b ->
  In (a + N.of_nat k * bsz, b) (number_from a bs).
Proof.
  induction bs as [|b0 bs IH]; intros a k b H; [destruct k; discriminate|].
  destruct k as [|k]; cbn [nth_error] in H; cbn [number_from].
  - injection H as ->. left. f_equal. change (N.of_nat 0) with 0. lia.
  - right. replace (a + N.of_nat (S k) * bsz) with ((a + bsz) + N.of_nat k * bsz) by lia.
    apply IH. exact H.
Qed.

Section OnState.
  Variable s : traph.
  Hypothesis Hinv : Inv18 s.

  Lemma blk_at_main_subt : forall d l c r, subt (Nd d l c r) (tr s) ->
    blk_at (files_of s) (addr d) = Some (main_block d (root_addr l) (root_addr r) (root_addr c)).
  Proof.
    intros d l c r Hsub. apply blk_at_placed; [apply Hinv|].
    apply (subt_placed _ _ Hsub). cbn [placed node_blocks number_from app]. left. reflexivity.
  Qed.

  Lemma blk_at_tail_subt : forall d l c r k b, subt (Nd d l c r) (tr s) ->
    nth_error (tail_blocks (stem_tail_chunks (stem d))) k = Some b ->
    blk_at (files_of s) (addr d + N.of_nat (S k) * bsz) = Some b.
  Proof.
    intros d l c r k b Hsub Hk. apply blk_at_placed; [apply Hinv|].
    apply (subt_placed _ _ Hsub). cbn [placed]. apply in_or_app. left.
    apply number_from_nth. cbn [node_blocks nth_error]. exact Hk.
  Qed.

  (* S1 as requested: through find / find_sub *)
  Theorem blk_at_main : forall p d l c r, find_sub p (tr s) = Some (Nd d l c r) ->
    blk_at (files_of s) (addr d) = Some (main_block d (root_addr l) (root_addr r) (root_addr c)).
  Proof. intros p d l c r H. apply blk_at_main_subt. apply (find_sub_subt _ _ _ H). Qed.

  Theorem blk_at_main_find : forall p d, find p (tr s) = Some d ->
    exists l c r, find_sub p (tr s) = Some (Nd d l c r) /\
      blk_at (files_of s) (addr d) = Some (main_block d (root_addr l) (root_addr r) (root_addr c)).
  Proof.
    intros p d H. destruct (find_subt _ _ _ H) as (l & c & r & E & Hsub).
    exists l, c, r. split; [exact E|]. apply blk_at_main_subt. exact Hsub.
  Qed.

  Theorem blk_at_tail : forall p d k b, find p (tr s) = Some d ->
    nth_error (tail_blocks (stem_tail_chunks (stem d))) k = Some b ->
    blk_at (files_of s) (addr d + N.of_nat (S k) * bsz) = Some b.
  Proof.
    intros p d k b H Hk. destruct (find_subt _ _ _ H) as (l & c & r & _ & Hsub).
    apply (blk_at_tail_subt d l c r k b Hsub Hk).
  Qed.

  (* ==================================================================== *)
  (* S2 — node.read                                                         *)
  (* ==================================================================== *)

  Lemma main_has_tail : forall d la ra ca, blk_has_tail (main_block d la ra ca) = has_tail_of (stem d).
  Proof.
    intros d la ra ca. unfold blk_has_tail, main_block, flags_of. cbn [b_flags].
    destruct (page d), (crawled d), (rule d), (has_tail_of (stem d)), (nochild d); vm_compute; reflexivity.
  Qed.

  Lemma main_is_tail : forall d la ra ca, blk_is_tail (main_block d la ra ca) = false.
  Proof.
    intros d la ra ca. unfold blk_is_tail, main_block, flags_of. cbn [b_flags].
    destruct (page d), (crawled d), (rule d), (has_tail_of (stem d)), (nochild d); vm_compute; reflexivity.
  Qed.

  Lemma main_page : forall d la ra ca, blk_page (main_block d la ra ca) = page d.
  Proof.
    intros d la ra ca. unfold blk_page, main_block, flags_of. cbn [b_flags].
    destruct (page d), (crawled d), (rule d), (has_tail_of (stem d)), (nochild d); vm_compute; reflexivity.
  Qed.

  Lemma main_crawled : forall d la ra ca, blk_crawled (main_block d la ra ca) = crawled d.
  Proof.
    intros d la ra ca. unfold blk_crawled, main_block, flags_of. cbn [b_flags].
    destruct (page d), (crawled d), (rule d), (has_tail_of (stem d)), (nochild d); vm_compute; reflexivity.
  Qed.

  Lemma tail_has_tail : forall ch (rest : list bytes),
    blk_has_tail (mkBlk ch (default_flags + bit true flag_is_tail + bit (nonempty rest) flag_has_tail) 0 0 0 0 0 0 0)
    = nonempty rest.
  Proof. intros ch rest. unfold blk_has_tail. cbn [b_flags]. destruct (nonempty rest); vm_compute; reflexivity. Qed.

  Lemma tails_spec : forall f chs fuel a0, chs <> [] -> (length chs <= fuel)%nat ->
    (forall k b, nth_error (tail_blocks chs) k = Some b -> blk_at f (a0 + N.of_nat k * bsz) = Some b) ->
    tails fuel f a0 = concat chs.
  Proof.
    intros f. induction chs as [|ch rest IH]; intros fuel a0 Hne Hlen Hb; [congruence|].
    destruct fuel as [|k]; [cbn [length] in Hlen; lia|].
    pose proof (Hb 0%nat _ eq_refl) as E0. change (N.of_nat 0) with 0 in E0.
    rewrite N.mul_0_l, N.add_0_r in E0.
    cbn [tails]. rewrite E0. cbn [b_stem]. rewrite tail_has_tail.
    destruct rest as [|ch2 rest2].
    - reflexivity.
    - cbn [nonempty]. rewrite (IH k (a0 + bsz)).
      + reflexivity.
      + discriminate.
      + cbn [length] in *. lia.
      + intros j b Hj. replace (a0 + bsz + N.of_nat j * bsz) with (a0 + N.of_nat (S j) * bsz) by lia.
        apply Hb. exact Hj.
  Qed.

  Lemma has_tail_chunks : forall st, has_tail_of st = true -> stem_tail_chunks st <> [].
  Proof.
    intros st H. unfold has_tail_of in H. apply Nat.ltb_lt in H.
    unfold stem_tail_chunks, chunks.
    destruct (skipn stem_size_nat st) as [|x rest] eqn:E.
    - pose proof (skipn_length stem_size_nat st) as HL. rewrite E in HL. cbn [length] in HL. lia.
    - cbn [length chunks_fuel]. discriminate.
  Qed.

  Lemma stem_reassembled : forall st,
    stem_head st ++ (if has_tail_of st then concat (stem_tail_chunks st) else []) = st.
  Proof.
    intro st. destruct (has_tail_of st) eqn:E.
    - exact (stem_roundtrip st).
    - rewrite app_nil_r. unfold has_tail_of in E. apply Nat.ltb_ge in E.
      unfold stem_head. apply firstn_all2. exact E.
  Qed.

  Lemma node_addr_ok : forall d l c r, subt (Nd d l c r) (tr s) ->
    exists k, addr d = k * bsz /\ 1 <= k /\ k + nblk (stem d) <= nb s.
  Proof.
    intros d l c r Hsub. destruct (subt_node_find _ _ _ _ _ (proj1 (I_wf _ Hinv)) Hsub) as (p & Hp).
    exact (proj1 (I_addr _ Hinv) p d Hp).
  Qed.

  Lemma node_addr_nz : forall d l c r, subt (Nd d l c r) (tr s) -> addr d <> 0.
  Proof.
    intros d l c r Hsub. destruct (node_addr_ok _ _ _ _ Hsub) as (k & E & Hk & _).
    rewrite E, bsz_val. lia.
  Qed.

  Theorem b_read_subt : forall d l c r, subt (Nd d l c r) (tr s) ->
    b_read (files_of s) (addr d)
    = Some (main_block d (root_addr l) (root_addr r) (root_addr c), stem d).
  Proof.
    intros d l c r Hsub. unfold b_read. rewrite (blk_at_main_subt _ _ _ _ Hsub).
    rewrite main_has_tail. cbn [main_block b_stem]. f_equal. f_equal.
    rewrite <- (stem_reassembled (stem d)) at 3.
    destruct (has_tail_of (stem d)) eqn:E; [|reflexivity]. f_equal.
    apply tails_spec.
    - apply has_tail_chunks. exact E.
    - destruct (node_addr_ok _ _ _ _ Hsub) as (k & _ & Hk & Hnb).
      rewrite (files_of_length s (I_tiled _ Hinv)). unfold nblk in Hnb. lia.
    - intros j b Hj. replace (addr d + bsz + N.of_nat j * bsz) with (addr d + N.of_nat (S j) * bsz) by lia.
      apply (blk_at_tail_subt d l c r j b Hsub Hj).
  Qed.

  Theorem b_read_node : forall p d, find p (tr s) = Some d ->
    exists l c r, find_sub p (tr s) = Some (Nd d l c r) /\
      b_read (files_of s) (addr d)
      = Some (main_block d (root_addr l) (root_addr r) (root_addr c), stem d).
  Proof.
    intros p d H. destruct (find_subt _ _ _ H) as (l & c & r & E & Hsub).
    exists l, c, r. split; [exact E|]. apply b_read_subt. exact Hsub.
  Qed.

  (* ==================================================================== *)
  (* S4 — windup_lru along the parent registers                             *)
  (* ==================================================================== *)

  Lemma b_windup_gen : forall fuel p d, find p (tr s) = Some d -> (length p <= fuel)%nat ->
    b_windup fuel (files_of s) (addr d) = Some (concat p).
  Proof.
    induction fuel as [|k IH]; intros p d Hf Hlen.
    - destruct p; [rewrite find_nil in Hf; discriminate|cbn [length] in Hlen; lia].
    - destruct (exists_last (l := p)) as (q & x & ->); [intro E; subst p; rewrite find_nil in Hf; discriminate|].
      destruct (find_subt _ _ _ Hf) as (l & c & r & _ & Hsub).
      cbn [b_windup]. rewrite (b_read_subt _ _ _ _ Hsub). cbn [main_block b_parent].
      pose proof (find_last_stem _ _ _ Hf) as Es. rewrite last_last in Es.
      pose proof (I_pars _ Hinv q x d Hf) as Hp.
      rewrite concat_snoc.
      destruct q as [|y q'].
      + rewrite Hp. cbn [N.eqb concat app]. rewrite Es. reflexivity.
      + destruct Hp as (dp & Hdp & Epar).
        destruct (find_subt _ _ _ Hdp) as (l' & c' & r' & _ & Hsub').
        assert (Hnz : (par d =? 0) = false).
        { apply N.eqb_neq. rewrite Epar. apply (node_addr_nz _ _ _ _ Hsub'). }
        rewrite Hnz, Epar. rewrite (IH _ _ Hdp).
        * rewrite Es. reflexivity.
        * rewrite app_length in Hlen. cbn [length] in *. lia.
  Qed.

  Theorem b_windup_spec : forall p d, find p (tr s) = Some d ->
    b_windup_lru (files_of s) (addr d) = Some (concat p).
  Proof.
    intros p d Hf. unfold b_windup_lru. apply b_windup_gen; [exact Hf|].
    pose proof (find_length_size _ _ _ Hf). pose proof (size_ft s). lia.
  Qed.

  (* ==================================================================== *)
  (* S3 — lru_node: descent on the stored pointers                          *)
  (* ==================================================================== *)

  Lemma b_find_nil : forall fuel f a, b_find fuel f [] a = None.
  Proof. destruct fuel; reflexivity. Qed.

  Lemma blk_at_0 : forall f, blk_at f 0 = None.
  Proof. intro f. unfold blk_at. rewrite bsz_val. reflexivity. Qed.

  Lemma b_find_0 : forall fuel f stems, b_find fuel f stems 0 = None.
  Proof.
    intros fuel f stems. destruct fuel; [reflexivity|]. destruct stems; [reflexivity|].
    cbn [b_find]. unfold b_read. rewrite blk_at_0. reflexivity.
  Qed.

  Theorem b_find_spec : forall stems sub fuel, subt sub (tr s) -> (size sub <= fuel)%nat ->
    b_find fuel (files_of s) stems (root_addr sub) = option_map addr (find stems sub).
  Proof.
    induction stems as [|x rest IHstems]; intros sub fuel Hsub Hfuel.
    - rewrite b_find_nil, find_nil. reflexivity.
    - revert fuel Hsub Hfuel. induction sub as [|d l IHl c _ r IHr]; intros fuel Hsub Hfuel.
      + cbn [root_addr]. rewrite b_find_0, find_Lf. reflexivity.
      + destruct fuel as [|k]; [cbn [size] in Hfuel; lia|]. cbn [size] in Hfuel.
        cbn [root_addr b_find]. rewrite (b_read_subt _ _ _ _ Hsub).
        cbn [main_block b_left b_right b_child]. rewrite find_Nd.
        destruct (lex x (stem d)).
        * destruct rest as [|x2 rest2]; [reflexivity|].
          destruct c as [|dc lc cc rc].
          -- cbn [root_addr N.eqb]. rewrite find_Lf. reflexivity.
          -- pose proof (subt_child _ _ _ _ _ Hsub) as Hc.
             assert (Hnz : (root_addr (Nd dc lc cc rc) =? 0) = false).
             { apply N.eqb_neq. apply (node_addr_nz _ _ _ _ Hc). }
             rewrite Hnz. apply IHstems; [exact Hc|lia].
        * destruct l as [|dl ll cl rl].
          -- cbn [root_addr N.eqb]. rewrite find_Lf. reflexivity.
          -- pose proof (subt_left _ _ _ _ _ Hsub) as Hl.
             assert (Hnz : (root_addr (Nd dl ll cl rl) =? 0) = false).
             { apply N.eqb_neq. apply (node_addr_nz _ _ _ _ Hl). }
             rewrite Hnz. apply IHl; [exact Hl|lia].
        * destruct r as [|dr lr cr rr].
          -- cbn [root_addr N.eqb]. rewrite find_Lf. reflexivity.
          -- pose proof (subt_right _ _ _ _ _ Hsub) as Hr.
             assert (Hnz : (root_addr (Nd dr lr cr rr) =? 0) = false).
             { apply N.eqb_neq. apply (node_addr_nz _ _ _ _ Hr). }
             rewrite Hnz. apply IHr; [exact Hr|lia].
  Qed.

  (* the root of a non-empty trie is the first data block *)
  Definition root_first : Prop := root_addr (tr s) = bsz \/ tr s = Lf.

  Theorem b_find_root : forall stems, root_first ->
    b_find (S (length (ft (files_of s)))) (files_of s) stems bsz = option_map addr (find stems (tr s)).
  Proof.
    intros stems [Hr|Hr].
    - rewrite <- Hr. apply b_find_spec; [apply subt_here|]. pose proof (size_ft s). lia.
    - rewrite Hr, find_Lf. destruct stems as [|x rest]; [apply b_find_nil|].
      cbn [b_find]. unfold b_read, blk_at.
      assert (E : ft (files_of s) = []).
      { apply length_zero_iff_nil. rewrite ft_length, Hr. reflexivity. }
      rewrite E. destruct ((bsz mod bsz =? 0) && (bsz <=? bsz)); [|reflexivity].
      destruct (tidx bsz); reflexivity.
  Qed.

  Theorem b_lru_node_spec : forall l, root_first ->
    b_lru_node (files_of s) l = option_map addr (nodeof s l).
  Proof. intros l Hr. unfold b_lru_node, nodeof. apply b_find_root. exact Hr. Qed.

  (* the two access paths agree at block level *)
  Theorem b_paths_agree : forall l a, root_first -> wf_lru l ->
    b_lru_node (files_of s) l = Some a -> b_windup_lru (files_of s) a = Some l.
  Proof.
    intros l a Hr Hl H. rewrite (b_lru_node_spec l Hr) in H. unfold nodeof in H.
    destruct (find (lru_iter l) (tr s)) as [d|] eqn:E; [|discriminate].
    cbn [option_map] in H. injection H as <-.
    rewrite (b_windup_spec _ _ E). f_equal. apply lru_iter_concat. exact Hl.
  Qed.

  (* page / crawled bits read from the stored block *)
  Theorem b_is_page_spec : forall p d, find p (tr s) = Some d -> b_is_page (files_of s) (addr d) = page d.
  Proof.
    intros p d H. destruct (find_subt _ _ _ H) as (l & c & r & _ & Hsub).
    unfold b_is_page. rewrite (blk_at_main_subt _ _ _ _ Hsub). apply main_page.
  Qed.
End OnState.

Print Assumptions blk_at_main.
Print Assumptions blk_at_tail.
Print Assumptions b_read_node.
Print Assumptions b_windup_spec.
Print Assumptions b_find_spec.
Print Assumptions b_lru_node_spec.
Print Assumptions b_paths_agree.
