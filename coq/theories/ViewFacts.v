(* ViewFacts.v — how the two tree primitives (add_lru, upd) transform the core
   abstraction relation Rcore.  Part A: bridging bytes / stem lists / association
   lists.  Part B: add_lru.  (Part C, node rewrites, lives in ViewFacts2.v.) *)
From Coq Require Import List NArith Bool Lia Arith.
Import ListNotations.
From Traph Require Import Bytes Consts Helpers Rules Tst TstDefs Traph Spec Ops RefDefs TstFacts.
Open Scope N_scope.

(* ====================================================================== *)
(* Part A.0 — byte strings                                                *)
(* ====================================================================== *)

Lemma beq_refl : forall a, beq a a = true.
Proof. intro a. apply beq_eq. reflexivity. Qed.

Lemma beq_neq : forall a b, beq a b = false <-> a <> b.
Proof.
  intros a b. split.
  - intros H E. apply beq_eq in E. congruence.
  - intro H. destruct (beq a b) eqn:E; [|reflexivity]. apply beq_eq in E. contradiction.
Qed.

Lemma beq_sym : forall a b, beq a b = beq b a.
Proof.
  intros a b. destruct (beq b a) eqn:E.
  - apply beq_eq in E. subst. apply beq_refl.
  - apply beq_neq in E. apply beq_neq. congruence.
Qed.

Lemma beq_spec : forall a b, reflect (a = b) (beq a b).
Proof.
  intros a b. destruct (beq a b) eqn:E; constructor.
  - apply beq_eq. exact E.
  - apply beq_neq. exact E.
Qed.

Lemma mem_bytes_In : forall x l, mem_bytes x l = true <-> In x l.
Proof.
  intros x l. induction l as [|y l IH]; cbn [mem_bytes In].
  - split; [discriminate|tauto].
  - rewrite orb_true_iff, IH, beq_eq. split; intros [H|H]; auto.
Qed.

Lemma mem_bytes_nIn : forall x l, mem_bytes x l = false <-> ~ In x l.
Proof.
  intros x l. rewrite <- mem_bytes_In. destruct (mem_bytes x l); split; congruence.
Qed.

Lemma last_app_ne : forall (A : Type) (a b : list A) d, b <> [] -> last (a ++ b) d = last b d.
Proof.
  intros A a b d Hb. induction a as [|x a IH]; [reflexivity|].
  cbn [app]. destruct (a ++ b) as [|y r] eqn:E.
  - apply app_eq_nil in E. destruct E. congruence.
  - rewrite last_cons_cons. exact IH.
Qed.

(* ====================================================================== *)
(* Part A.1 — stems, prefixes, paths                                      *)
(* ====================================================================== *)

Lemma wf_stem_lru : forall s, wf_stem s -> wf_lru s.
Proof.
  intros s (body & -> & _). split.
  - destruct body; discriminate.
  - apply last_last.
Qed.

Lemma wf_lru_concat : forall p, Forall wf_stem p -> p <> [] -> wf_lru (concat p).
Proof.
  intros p Hp. induction Hp as [|s p Hs Hp IH]; intro Hne; [congruence|].
  cbn [concat]. destruct p as [|s2 p2].
  - cbn [concat]. rewrite app_nil_r. apply wf_stem_lru. exact Hs.
  - destruct IH as [IH1 IH2]; [discriminate|]. split.
    + intro E. apply app_eq_nil in E. destruct E. contradiction.
    + rewrite last_app_ne by exact IH1. exact IH2.
Qed.

Lemma lru_iter_inj : forall l l', wf_lru l -> wf_lru l' -> lru_iter l = lru_iter l' -> l = l'.
Proof.
  intros l l' Hl Hl' E.
  rewrite <- (lru_iter_concat l Hl), <- (lru_iter_concat l' Hl'), E. reflexivity.
Qed.

Lemma is_prefix_spec : forall p ss, is_prefix p ss = true <-> exists r, ss = p ++ r.
Proof.
  induction p as [|x p IH]; intro ss.
  - split; [intros _; exists ss; reflexivity|reflexivity].
  - destruct ss as [|y ss].
    + split; [discriminate|intros [r Hr]; discriminate].
    + rewrite is_prefix_cons, andb_true_iff, beq_eq, IH. split.
      * intros [-> [r ->]]. exists r. reflexivity.
      * intros [r Hr]. injection Hr as -> ->. split; [reflexivity|exists r; reflexivity].
Qed.

Lemma is_prefix_refl : forall p, is_prefix p p = true.
Proof. intro p. apply is_prefix_spec. exists []. symmetry. apply app_nil_r. Qed.

Lemma is_prefix_trans : forall p q r, is_prefix p q = true -> is_prefix q r = true -> is_prefix p r = true.
Proof.
  intros p q r H1 H2. apply is_prefix_spec in H1, H2. destruct H1 as [a ->], H2 as [b ->].
  apply is_prefix_spec. exists (a ++ b). symmetry. apply app_assoc.
Qed.

Lemma is_prefix_length : forall p ss, is_prefix p ss = true -> (length p <= length ss)%nat.
Proof.
  intros p ss H. apply is_prefix_spec in H. destruct H as [r ->]. rewrite app_length. lia.
Qed.

Lemma is_prefix_same_length : forall p ss, is_prefix p ss = true -> length p = length ss -> p = ss.
Proof.
  intros p ss H L. apply is_prefix_spec in H. destruct H as [r ->].
  rewrite app_length in L. destruct r; [symmetry; apply app_nil_r|cbn [length] in L; lia].
Qed.

Lemma is_prefix_ltb : forall p ss, is_prefix p ss = true ->
  Nat.ltb (length p) (length ss) = negb (if list_eq_dec (list_eq_dec N.eq_dec) p ss then true else false).
Proof.
  intros p ss H. destruct (list_eq_dec (list_eq_dec N.eq_dec) p ss) as [E|E]; cbn [negb].
  - subst. apply Nat.ltb_irrefl.
  - apply Nat.ltb_lt. pose proof (is_prefix_length p ss H) as L.
    destruct (Nat.eq_dec (length p) (length ss)) as [E2|E2]; [|lia].
    exfalso. apply E. apply is_prefix_same_length; assumption.
Qed.

Lemma In_nprefixes : forall ss p, In p (nprefixes [] ss) <-> p <> [] /\ is_prefix p ss = true.
Proof.
  induction ss as [|s rest IH]; intro p.
  - cbn [nprefixes In]. split; [tauto|]. intros [Hne H]. destruct p; [congruence|discriminate].
  - rewrite nprefixes_cons. cbn [In]. rewrite in_map_iff. split.
    + intros [<-|(p' & <- & Hin)].
      * split; [discriminate|]. rewrite is_prefix_cons, beq_refl. reflexivity.
      * apply IH in Hin. destruct Hin as [_ Hin]. split; [discriminate|].
        rewrite is_prefix_cons, beq_refl. exact Hin.
    + intros [Hne H]. destruct p as [|x p']; [congruence|].
      rewrite is_prefix_cons in H. apply andb_prop in H. destruct H as [Hx H].
      apply beq_eq in Hx. subst x. destruct p' as [|x2 p2].
      * left. reflexivity.
      * right. exists (x2 :: p2). split; [reflexivity|]. apply IH. split; [discriminate|exact H].
Qed.

Lemma Forall_prefix : forall (P : bytes -> Prop) p ss, is_prefix p ss = true -> Forall P ss -> Forall P p.
Proof.
  intros P p ss H F. apply is_prefix_spec in H. destruct H as [r ->].
  apply Forall_app in F. tauto.
Qed.

Lemma prefixes_from_spec : forall ss pre0,
  prefixes_from (concat pre0) ss = map (@concat N) (nprefixes pre0 ss).
Proof.
  induction ss as [|s r IH]; intro pre0; [reflexivity|].
  cbn [prefixes_from nprefixes map]. rewrite concat_snoc. f_equal.
  rewrite <- concat_snoc. apply IH.
Qed.

(* stated for wf_lru l as requested; the hypothesis is not used *)
Lemma stem_prefixes_spec : forall l, wf_lru l ->
  stem_prefixes l = map (@concat N) (nprefixes [] (lru_iter l)).
Proof. intros l _. apply (prefixes_from_spec (lru_iter l) []). Qed.

Lemma stem_prefixes_eq : forall l,
  stem_prefixes l = map (@concat N) (nprefixes [] (lru_iter l)).
Proof. intro l. apply (prefixes_from_spec (lru_iter l) []). Qed.

(* membership in stem_prefixes, with no hypothesis on l *)
Lemma In_stem_prefixes : forall l x,
  In x (stem_prefixes l) <->
  exists p, x = concat p /\ p <> [] /\ is_prefix p (lru_iter l) = true.
Proof.
  intros l x. rewrite stem_prefixes_eq, in_map_iff. split.
  - intros (p & <- & Hin). apply In_nprefixes in Hin. exists p. tauto.
  - intros (p & -> & Hne & H). exists p. split; [reflexivity|]. apply In_nprefixes. tauto.
Qed.

Lemma stem_prefix_path : forall l x, In x (stem_prefixes l) ->
  wf_lru x /\ lru_iter x <> [] /\ is_prefix (lru_iter x) (lru_iter l) = true.
Proof.
  intros l x H. apply In_stem_prefixes in H. destruct H as (p & -> & Hne & H).
  assert (Hp : Forall wf_stem p) by (eapply Forall_prefix; [exact H|apply lru_iter_wf]).
  rewrite lru_iter_concat_stems by exact Hp.
  split; [apply wf_lru_concat; assumption|]. split; assumption.
Qed.

Lemma stem_prefixes_wf : forall l, wf_lru l -> Forall wf_lru (stem_prefixes l).
Proof. intros l _. apply Forall_forall. intros x Hx. apply (stem_prefix_path l x Hx). Qed.

Lemma stem_prefixes_wf' : forall l, Forall wf_lru (stem_prefixes l).
Proof. intro l. apply Forall_forall. intros x Hx. apply (stem_prefix_path l x Hx). Qed.

Lemma is_prefix_iff : forall l l', wf_lru l -> wf_lru l' ->
  (is_prefix (lru_iter l') (lru_iter l) = true <-> In l' (stem_prefixes l)).
Proof.
  intros l l' _ Hl'. split.
  - intro H. apply In_stem_prefixes. exists (lru_iter l'). split; [|split].
    + symmetry. apply lru_iter_concat. exact Hl'.
    + apply lru_iter_nonempty. exact Hl'.
    + exact H.
  - intro H. apply (stem_prefix_path l l' H).
Qed.

Lemma is_prefix_false_iff : forall l l', wf_lru l -> wf_lru l' ->
  (is_prefix (lru_iter l') (lru_iter l) = false <-> ~ In l' (stem_prefixes l)).
Proof.
  intros l l' Hl Hl'. rewrite <- (is_prefix_iff l l' Hl Hl').
  destruct (is_prefix (lru_iter l') (lru_iter l)); split; congruence.
Qed.

Lemma stem_prefixes_self : forall l, wf_lru l -> In l (stem_prefixes l).
Proof. intros l Hl. apply (is_prefix_iff l l Hl Hl). apply is_prefix_refl. Qed.

Lemma stem_prefixes_trans : forall l l' l'', In l'' (stem_prefixes l') -> In l' (stem_prefixes l) ->
  In l'' (stem_prefixes l).
Proof.
  intros l l' l'' H1 H2.
  destruct (stem_prefix_path _ _ H1) as (W1 & _ & P1).
  destruct (stem_prefix_path _ _ H2) as (W2 & _ & P2).
  apply In_stem_prefixes. exists (lru_iter l''). split; [|split].
  - symmetry. apply lru_iter_concat. exact W1.
  - apply lru_iter_nonempty. exact W1.
  - eapply is_prefix_trans; eassumption.
Qed.

(* length test used by ins versus byte equality *)
Lemma prefix_ltb_beq : forall l l', wf_lru l -> In l' (stem_prefixes l) ->
  Nat.ltb (length (lru_iter l')) (length (lru_iter l)) = negb (beq l' l).
Proof.
  intros l l' Hl Hin. destruct (stem_prefix_path _ _ Hin) as (Hl' & _ & Hp).
  rewrite (is_prefix_ltb _ _ Hp).
  destruct (list_eq_dec (list_eq_dec N.eq_dec) (lru_iter l') (lru_iter l)) as [E|E].
  - apply lru_iter_inj in E; [|assumption|assumption]. subst. rewrite beq_refl. reflexivity.
  - destruct (beq_spec l' l) as [E2|E2]; [|reflexivity]. subst. congruence.
Qed.

(* ---- paths of a well-formed tree ---------------------------------------- *)

Lemma find_stems_wf : forall p t d, stems_wf t -> find p t = Some d -> Forall wf_stem p.
Proof.
  induction p as [|x p IHp]; intros t d0 Hs Hf; [constructor|].
  induction t as [|d l IHl c _ r IHr].
  - rewrite find_Lf in Hf. discriminate.
  - destruct Hs as (Hd & Hsl & Hsc & Hsr). rewrite find_Nd in Hf.
    destruct (lex x (stem d)) eqn:E.
    + apply lex_eq in E. subst x. constructor; [exact Hd|].
      destruct p as [|x2 p2]; [constructor|]. exact (IHp c d0 Hsc Hf).
    + apply IHl; assumption.
    + apply IHr; assumption.
Qed.

Lemma find_nonempty : forall p t d, find p t = Some d -> p <> [].
Proof. intros p t d H E. subst. rewrite find_nil in H. discriminate. Qed.

Lemma wf_lru_of_path : forall s p d, wf_tst (tr s) -> find p (tr s) = Some d ->
  Forall wf_stem p /\ wf_lru (concat p) /\ lru_iter (concat p) = p.
Proof.
  intros s p d [_ Hs] Hf.
  assert (Hp : Forall wf_stem p) by (eapply find_stems_wf; eassumption).
  split; [exact Hp|]. split.
  - apply wf_lru_concat; [exact Hp|]. eapply find_nonempty; eassumption.
  - apply lru_iter_concat_stems. exact Hp.
Qed.

Lemma nodeof_concat : forall s p, Forall wf_stem p -> nodeof s (concat p) = find p (tr s).
Proof. intros s p Hp. unfold nodeof. rewrite lru_iter_concat_stems by exact Hp. reflexivity. Qed.

Lemma find_nodeof : forall s p d, wf_tst (tr s) -> find p (tr s) = Some d ->
  wf_lru (concat p) /\ nodeof s (concat p) = Some d.
Proof.
  intros s p d Hw Hf. destruct (wf_lru_of_path s p d Hw Hf) as (Hp & Hl & E).
  split; [exact Hl|]. rewrite nodeof_concat by exact Hp. exact Hf.
Qed.

(* generalised prefix closure *)
Lemma find_prefix_closed_gen : forall r p t, p <> [] -> find (p ++ r) t <> None -> find p t <> None.
Proof.
  intro r. induction r as [|x r IH] using rev_ind; intros p t Hp H.
  - rewrite app_nil_r in H. exact H.
  - rewrite app_assoc in H. apply find_prefix_closed in H.
    + apply IH; assumption.
    + intro E. apply app_eq_nil in E. destruct E. contradiction.
Qed.

Lemma find_is_prefix_closed : forall p q t, p <> [] -> is_prefix p q = true ->
  find q t <> None -> find p t <> None.
Proof.
  intros p q t Hp H Hq. apply is_prefix_spec in H. destruct H as [r ->].
  eapply find_prefix_closed_gen; eassumption.
Qed.

(* ====================================================================== *)
(* Part A.2 — association lists and sets                                  *)
(* ====================================================================== *)

Section AssocFacts.
  Context {A : Type}.
  Implicit Types (m : list (bytes * A)) (k : bytes) (v : A).

  Lemma aget_Some_In : forall m k v, aget k m = Some v -> In (k, v) m.
  Proof.
    induction m as [|[k1 v1] m IH]; intros k v H; [discriminate|].
    cbn [aget] in H. destruct (beq_spec k k1) as [E|E].
    - injection H as <-. subst. left. reflexivity.
    - right. apply IH. exact H.
  Qed.

  Lemma aget_None : forall m k, aget k m = None <-> ~ In k (map fst m).
  Proof.
    induction m as [|[k1 v1] m IH]; intro k; cbn [aget map In fst].
    - split; [tauto|reflexivity].
    - destruct (beq_spec k k1) as [E|E].
      + split; [discriminate|]. intro H. exfalso. apply H. left. congruence.
      + rewrite IH. split; [intros H [H1|H1]; [congruence|auto]|tauto].
  Qed.

  Lemma aget_In : forall m k v, NoDup (map fst m) -> (aget k m = Some v <-> In (k, v) m).
  Proof.
    intros m k v Hnd. split; [apply aget_Some_In|].
    induction m as [|[k1 v1] m IH]; intro H; [destruct H|].
    cbn [map fst] in Hnd. inversion Hnd as [|? ? Hk1 Hnd']. subst.
    cbn [aget]. destruct H as [H|H].
    - injection H as -> ->. rewrite beq_refl. reflexivity.
    - destruct (beq_spec k k1) as [E|E].
      + exfalso. apply Hk1. subst. apply (in_map fst) in H. exact H.
      + apply IH; assumption.
  Qed.

  Lemma amem_In : forall m k, amem k m = true <-> exists v, In (k, v) m.
  Proof.
    intros m k. unfold amem. destruct (aget k m) as [v|] eqn:E.
    - split; [|reflexivity]. intros _. exists v. apply aget_Some_In. exact E.
    - split; [discriminate|]. intros [v Hv]. apply aget_None in E. exfalso. apply E.
      apply (in_map fst) in Hv. exact Hv.
  Qed.

  Lemma amem_false : forall m k, amem k m = false <-> ~ In k (map fst m).
  Proof.
    intros m k. unfold amem. rewrite <- aget_None. destruct (aget k m); split; congruence.
  Qed.

  Lemma In_aset_weak : forall m k v k' v',
    In (k', v') (aset k v m) -> (k' = k /\ v' = v) \/ In (k', v') m.
  Proof.
    induction m as [|[k1 v1] m IH]; intros k v k' v' H; cbn [aset] in H.
    - destruct H as [H|[]]. injection H as <- <-. left. tauto.
    - destruct (beq_spec k k1) as [E|E].
      + destruct H as [H|H].
        * injection H as <- <-. left. subst. tauto.
        * right. right. exact H.
      + destruct H as [H|H].
        * right. left. exact H.
        * apply IH in H. destruct H as [H|H]; [left; exact H|right; right; exact H].
  Qed.

  Lemma In_fst_aset : forall m k v k',
    In k' (map fst (aset k v m)) <-> k' = k \/ In k' (map fst m).
  Proof.
    induction m as [|[k1 v1] m IH]; intros k v k'; cbn [aset].
    - cbn [map fst In]. split; intros [H|H]; auto.
    - destruct (beq_spec k k1) as [E|E]; cbn [map fst In].
      + subst. split; [intros [H|H]; auto|intros [H|[H|H]]; auto].
      + rewrite IH. tauto.
  Qed.

  Lemma NoDup_aset : forall m k v, NoDup (map fst m) -> NoDup (map fst (aset k v m)).
  Proof.
    induction m as [|[k1 v1] m IH]; intros k v Hnd; cbn [aset].
    - cbn [map fst]. constructor; [intros []|constructor].
    - cbn [map fst] in Hnd. inversion Hnd as [|? ? Hk1 Hnd']. subst.
      destruct (beq_spec k k1) as [E|E]; cbn [map fst].
      + constructor; assumption.
      + constructor; [|apply IH; exact Hnd'].
        rewrite In_fst_aset. intros [H|H]; [congruence|contradiction].
  Qed.

  Lemma In_aset : forall m k v k' v', NoDup (map fst m) ->
    (In (k', v') (aset k v m) <-> (k' = k /\ v' = v) \/ (k' <> k /\ In (k', v') m)).
  Proof.
    induction m as [|[k1 v1] m IH]; intros k v k' v' Hnd; cbn [aset].
    - cbn [In]. split.
      + intros [H|[]]. injection H as <- <-. left. tauto.
      + intros [[-> ->]|[_ []]]. left. reflexivity.
    - cbn [map fst] in Hnd. inversion Hnd as [|? ? Hk1 Hnd']. subst.
      destruct (beq_spec k k1) as [E|E]; cbn [In].
      + subst k1. split.
        * intros [H|H]; [injection H as <- <-; left; tauto|].
          right. split; [|right; exact H].
          intro E. subst. apply Hk1. apply (in_map fst) in H. exact H.
        * intros [[-> ->]|[Hne [H|H]]]; [left; reflexivity| |right; exact H].
          injection H as H _. congruence.
      + rewrite (IH k v k' v' Hnd'). split.
        * intros [H|[H|H]]; [|left; exact H|right; tauto].
          injection H as <- <-. right. split; [congruence|left; reflexivity].
        * intros [H|[Hne [H|H]]]; [right; left; exact H|left; exact H|right; right; tauto].
  Qed.

  Lemma In_adel_weak : forall m k x, In x (adel k m) -> In x m.
  Proof.
    induction m as [|[k1 v1] m IH]; intros k x H; cbn [adel] in H; [exact H|].
    destruct (beq k k1).
    - right. exact H.
    - destruct H as [H|H]; [left; exact H|right; eapply IH; exact H].
  Qed.

  Lemma In_fst_adel_weak : forall m k k', In k' (map fst (adel k m)) -> In k' (map fst m).
  Proof.
    intros m k k' H. apply in_map_iff in H. destruct H as ([k2 v2] & <- & H).
    apply In_adel_weak in H. apply (in_map fst) in H. exact H.
  Qed.

  Lemma NoDup_adel : forall m k, NoDup (map fst m) -> NoDup (map fst (adel k m)).
  Proof.
    induction m as [|[k1 v1] m IH]; intros k Hnd; cbn [adel]; [exact Hnd|].
    cbn [map fst] in Hnd. inversion Hnd as [|? ? Hk1 Hnd']. subst.
    destruct (beq k k1); [exact Hnd'|].
    cbn [map fst]. constructor; [|apply IH; exact Hnd'].
    intro H. apply Hk1. eapply In_fst_adel_weak. exact H.
  Qed.

  Lemma In_adel : forall m k k' v', NoDup (map fst m) ->
    (In (k', v') (adel k m) <-> k' <> k /\ In (k', v') m).
  Proof.
    induction m as [|[k1 v1] m IH]; intros k k' v' Hnd; cbn [adel].
    - cbn [In]. tauto.
    - cbn [map fst] in Hnd. inversion Hnd as [|? ? Hk1 Hnd']. subst.
      destruct (beq_spec k k1) as [E|E]; cbn [In].
      + subst k1. split.
        * intro H. split; [|right; exact H].
          intro E. subst. apply Hk1. apply (in_map fst) in H. exact H.
        * intros [Hne [H|H]]; [|exact H]. injection H as H _. congruence.
      + rewrite (IH k k' v' Hnd'). split.
        * intros [H|H]; [|tauto]. injection H as <- <-. split; [congruence|left; reflexivity].
        * intros [Hne [H|H]]; [left; exact H|right; tauto].
  Qed.
End AssocFacts.

Lemma In_add_set : forall x y k, In x (add_set y k) <-> x = y \/ In x k.
Proof.
  intros x y k. unfold add_set. destruct (mem_bytes y k) eqn:E.
  - apply mem_bytes_In in E. split; [auto|]. intros [->|H]; assumption.
  - rewrite in_app_iff. cbn [In]. split; intros [H|H]; auto.
    + destruct H as [H|[]]. auto.
Qed.

Lemma NoDup_add_set : forall y k, NoDup k -> NoDup (add_set y k).
Proof.
  intros y k Hnd. unfold add_set. destruct (mem_bytes y k) eqn:E; [exact Hnd|].
  apply mem_bytes_nIn in E. apply NoDup_app_intro; [exact Hnd|constructor; [intros []|constructor]|].
  intros x Hx [<-|[]]. contradiction.
Qed.

Lemma In_fold_add_set : forall ps k x,
  In x (fold_left (fun k p => add_set p k) ps k) <-> In x ps \/ In x k.
Proof.
  induction ps as [|p ps IH]; intros k x; cbn [fold_left In]; [tauto|].
  rewrite IH, In_add_set. split; intros [H|H]; auto.
  - destruct H as [H|H]; auto.
  - destruct H as [H|H]; auto.
Qed.

Lemma NoDup_fold_add_set : forall ps k, NoDup k -> NoDup (fold_left (fun k p => add_set p k) ps k).
Proof.
  induction ps as [|p ps IH]; intros k Hnd; cbn [fold_left]; [exact Hnd|].
  apply IH. apply NoDup_add_set. exact Hnd.
Qed.

Lemma In_know : forall l k x, In x (know l k) <-> In x (stem_prefixes l) \/ In x k.
Proof. intros. apply In_fold_add_set. Qed.

Lemma NoDup_know : forall l k, NoDup k -> NoDup (know l k).
Proof. intros. apply NoDup_fold_add_set. assumption. Qed.

Lemma Forall_know : forall l k, Forall wf_lru k -> Forall wf_lru (know l k).
Proof.
  intros l k Hk. apply Forall_forall. intros x Hx. apply In_know in Hx. destruct Hx as [Hx|Hx].
  - apply (stem_prefix_path l x Hx).
  - rewrite Forall_forall in Hk. apply Hk. exact Hx.
Qed.

(* ====================================================================== *)
(* Part A.3 — boolean bridges between the abstract lists and the tree     *)
(* ====================================================================== *)

Lemma aget_pref_iff : forall s a l w, Rcore s a -> wf_lru l ->
  (aget l (a_pref a) = Some w <-> exists d, nodeof s l = Some d /\ we d = w /\ w <> 0).
Proof.
  intros s a l w HR Hl. rewrite (aget_In _ _ _ (R_pref_nodup s a HR)). apply (R_pref s a HR). exact Hl.
Qed.

Lemma aget_pref_none : forall s a l, Rcore s a -> wf_lru l ->
  (aget l (a_pref a) = None <-> forall d, nodeof s l = Some d -> we d = 0).
Proof.
  intros s a l HR Hl. split.
  - intros H d Hd. destruct (N.eq_dec (we d) 0) as [E|E]; [exact E|].
    assert (X : aget l (a_pref a) = Some (we d)).
    { apply (aget_pref_iff s a l (we d) HR Hl). exists d. auto. }
    congruence.
  - intro H. destruct (aget l (a_pref a)) as [w|] eqn:E; [|reflexivity].
    apply (aget_pref_iff s a l w HR Hl) in E. destruct E as (d & Hd & Hw & Hne).
    apply H in Hd. congruence.
Qed.

Lemma aget_pref_nodeof : forall s a l, Rcore s a -> wf_lru l ->
  (amem l (a_pref a) = true <-> exists d, nodeof s l = Some d /\ we d <> 0).
Proof.
  intros s a l HR Hl. rewrite amem_In. split.
  - intros [w Hw]. apply (R_pref s a HR l w Hl) in Hw. destruct Hw as (d & Hd & <- & Hne).
    exists d. auto.
  - intros (d & Hd & Hne). exists (we d). apply (R_pref s a HR l (we d) Hl). exists d. auto.
Qed.

Lemma mem_known_nodeof : forall s a l, Rcore s a -> wf_lru l ->
  (mem_bytes l (a_known a) = true <-> nodeof s l <> None).
Proof.
  intros s a l HR Hl. rewrite mem_bytes_In. symmetry. apply (R_known s a HR). exact Hl.
Qed.

Lemma mem_flags_nodeof : forall s a l, Rcore s a -> wf_lru l ->
  (mem_bytes l (a_flags a) = true <-> exists d, nodeof s l = Some d /\ rule d = true).
Proof.
  intros s a l HR Hl. rewrite mem_bytes_In. apply (R_flags s a HR). exact Hl.
Qed.

Lemma aget_pages_iff : forall s a l c, Rcore s a -> wf_lru l ->
  (aget l (a_pages a) = Some c <-> exists d, nodeof s l = Some d /\ page d = true /\ crawled d = c).
Proof.
  intros s a l c HR Hl. rewrite (aget_In _ _ _ (R_pages_nodup s a HR)). apply (R_pages s a HR). exact Hl.
Qed.

Lemma amem_pages_nodeof : forall s a l, Rcore s a -> wf_lru l ->
  (amem l (a_pages a) = true <-> exists d, nodeof s l = Some d /\ page d = true).
Proof.
  intros s a l HR Hl. rewrite amem_In. split.
  - intros [c Hc]. apply (R_pages s a HR l c Hl) in Hc. destruct Hc as (d & Hd & Hp & _).
    exists d. auto.
  - intros (d & Hd & Hp). exists (crawled d). apply (R_pages s a HR l _ Hl). exists d. auto.
Qed.

(* ====================================================================== *)
(* Part B — add_lru                                                       *)
(* ====================================================================== *)

Lemma add_lru_tr : forall flag l s,
  tr (fst (add_lru flag l s)) = ins_t flag (lru_iter l) [] 0 (nb s) hist0 (tr s).
Proof.
  intros. unfold add_lru, ins_t.
  destruct (ins flag (lru_iter l) [] 0 (nb s) hist0 (tr s)) as [[t' nb'] h]. reflexivity.
Qed.

Lemma add_lru_nb : forall flag l s,
  nb (fst (add_lru flag l s)) = ins_nb flag (lru_iter l) [] 0 (nb s) hist0 (tr s).
Proof.
  intros. unfold add_lru, ins_nb.
  destruct (ins flag (lru_iter l) [] 0 (nb s) hist0 (tr s)) as [[t' nb'] h]. reflexivity.
Qed.

Lemma add_lru_snd : forall flag l s,
  snd (add_lru flag l s) = ins_h flag (lru_iter l) [] 0 (nb s) hist0 (tr s).
Proof.
  intros. unfold add_lru, ins_h.
  destruct (ins flag (lru_iter l) [] 0 (nb s) hist0 (tr s)) as [[t' nb'] h]. reflexivity.
Qed.

Lemma add_lru_fields : forall flag l s,
  lastwe (fst (add_lru flag l s)) = lastwe s /\ stubs (fst (add_lru flag l s)) = stubs s /\
  rules (fst (add_lru flag l s)) = rules s /\ dflt (fst (add_lru flag l s)) = dflt s.
Proof.
  intros. unfold add_lru.
  destruct (ins flag (lru_iter l) [] 0 (nb s) hist0 (tr s)) as [[t' nb'] h]. cbn. auto.
Qed.

(* ---- find-level view of ins --------------------------------------------- *)

Definition same_data (d d' : nd) : Prop := d' = d \/ d' = set_nochild false d.

Lemma same_data_proj : forall d d', same_data d d' ->
  page d' = page d /\ crawled d' = crawled d /\ rule d' = rule d /\ we d' = we d /\
  outh d' = outh d /\ inh d' = inh d /\ stem d' = stem d /\ addr d' = addr d /\ par d' = par d /\
  (nochild d' = true -> nochild d = true).
Proof.
  intros d d' [->| ->]; cbn; repeat split; auto; discriminate.
Qed.

Lemma same_data_if : forall (b : bool) d, same_data d (if b then set_nochild false d else d).
Proof. intros [|] d; [right|left]; reflexivity. Qed.

Lemma find_ins_fwd : forall flag ss pre pa nb h t p d,
  find p t = Some d ->
  exists d', find p (ins_t flag ss pre pa nb h t) = Some d' /\ same_data d d'.
Proof.
  intros flag ss pre pa nb h t p d Hf.
  assert (Hp : p <> []) by (eapply find_nonempty; eassumption).
  destruct (is_prefix p ss) eqn:E.
  - eexists. split; [apply find_ins_old; eassumption|apply same_data_if].
  - exists d. split; [rewrite find_ins_other; assumption|left; reflexivity].
Qed.

Lemma find_ins_cases : forall flag ss pre pa nb h t p d',
  find p (ins_t flag ss pre pa nb h t) = Some d' ->
  (exists d, find p t = Some d /\ same_data d d') \/
  (find p t = None /\ is_prefix p ss = true /\
   page d' = false /\ crawled d' = false /\ rule d' = false /\ we d' = 0 /\ outh d' = 0 /\ inh d' = 0).
Proof.
  intros flag ss pre pa nb h t p d' Hf.
  assert (Hp : p <> []) by (eapply find_nonempty; eassumption).
  destruct (is_prefix p ss) eqn:E.
  - destruct (find p t) as [d|] eqn:Ft.
    + left. exists d. split; [reflexivity|].
      rewrite (find_ins_old flag ss pre pa nb h t p d Hp E Ft) in Hf. injection Hf as <-.
      apply same_data_if.
    + right. destruct (find_ins_new flag ss pre pa nb h t p Hp E Ft) as (ad & pa' & Hn).
      rewrite Hn in Hf. injection Hf as <-. cbn. repeat split; reflexivity.
  - left. exists d'. rewrite find_ins_other in Hf by assumption. split; [exact Hf|left; reflexivity].
Qed.

Lemma find_ins_prefix : forall flag ss pre pa nb h t p,
  p <> [] -> is_prefix p ss = true -> find p (ins_t flag ss pre pa nb h t) <> None.
Proof.
  intros flag ss pre pa nb h t p Hp E.
  destruct (find p t) as [d|] eqn:Ft.
  - rewrite (find_ins_old flag ss pre pa nb h t p d Hp E Ft). discriminate.
  - destruct (find_ins_new flag ss pre pa nb h t p Hp E Ft) as (ad & pa' & Hn).
    rewrite Hn. discriminate.
Qed.

(* ---- nodeof-level statements -------------------------------------------- *)

Lemma add_lru_other : forall flag l s l', wf_lru l -> wf_lru l' ->
  ~ In l' (stem_prefixes l) ->
  nodeof (fst (add_lru flag l s)) l' = nodeof s l'.
Proof.
  intros flag l s l' Hl Hl' Hn. unfold nodeof. rewrite add_lru_tr.
  apply find_ins_other.
  - apply lru_iter_nonempty. exact Hl'.
  - apply (is_prefix_false_iff l l' Hl Hl'). exact Hn.
Qed.

Lemma add_lru_old : forall flag l s l' d, wf_lru l -> wf_lru l' ->
  In l' (stem_prefixes l) -> nodeof s l' = Some d ->
  nodeof (fst (add_lru flag l s)) l' =
  Some (if flag && negb (beq l' l) then set_nochild false d else d).
Proof.
  intros flag l s l' d Hl Hl' Hin Hd. unfold nodeof. rewrite add_lru_tr.
  rewrite <- (prefix_ltb_beq l l' Hl Hin).
  apply find_ins_old.
  - apply lru_iter_nonempty. exact Hl'.
  - apply (is_prefix_iff l l' Hl Hl'). exact Hin.
  - exact Hd.
Qed.

Lemma add_lru_new : forall flag l s l', wf_lru l -> wf_lru l' ->
  In l' (stem_prefixes l) -> nodeof s l' = None ->
  exists d', nodeof (fst (add_lru flag l s)) l' = Some d' /\
    page d' = false /\ crawled d' = false /\ rule d' = false /\ we d' = 0 /\
    outh d' = 0 /\ inh d' = 0 /\ nochild d' = negb (flag && negb (beq l' l)).
Proof.
  intros flag l s l' Hl Hl' Hin Hd. unfold nodeof. rewrite add_lru_tr.
  rewrite <- (prefix_ltb_beq l l' Hl Hin).
  destruct (find_ins_new flag (lru_iter l) [] 0 (nb s) hist0 (tr s) (lru_iter l')) as (ad & pa' & Hn).
  - apply lru_iter_nonempty. exact Hl'.
  - apply (is_prefix_iff l l' Hl Hl'). exact Hin.
  - exact Hd.
  - eexists. split; [exact Hn|]. cbn. repeat split; reflexivity.
Qed.

Lemma add_lru_mono : forall flag l s l',
  nodeof s l' <> None -> nodeof (fst (add_lru flag l s)) l' <> None.
Proof.
  intros flag l s l' H. unfold nodeof in *. rewrite add_lru_tr.
  destruct (find (lru_iter l') (tr s)) as [d|] eqn:E; [|congruence].
  destruct (find_ins_fwd flag (lru_iter l) [] 0 (nb s) hist0 (tr s) _ d E) as (d' & Hd' & _).
  rewrite Hd'. discriminate.
Qed.

Lemma add_lru_self : forall flag l s, wf_lru l -> nodeof (fst (add_lru flag l s)) l <> None.
Proof.
  intros flag l s Hl. unfold nodeof. rewrite add_lru_tr. apply find_ins_prefix.
  - apply lru_iter_nonempty. exact Hl.
  - apply is_prefix_refl.
Qed.

Lemma add_lru_prefix : forall flag l s l', In l' (stem_prefixes l) ->
  nodeof (fst (add_lru flag l s)) l' <> None.
Proof.
  intros flag l s l' Hin. destruct (stem_prefix_path l l' Hin) as (_ & Hne & Hp).
  unfold nodeof. rewrite add_lru_tr. apply find_ins_prefix; assumption.
Qed.

(* ---- storage accounting ------------------------------------------------- *)

Lemma nprefixes_length : forall ss pre p, In p (nprefixes pre ss) -> (length pre < length p)%nat.
Proof.
  induction ss as [|s r IH]; intros pre p H; [destruct H|].
  cbn [nprefixes In] in H. destruct H as [<-|H].
  - rewrite app_length. cbn [length]. lia.
  - apply IH in H. rewrite app_length in H. cbn [length] in H. lia.
Qed.

Lemma nprefixes_nodup : forall ss pre, NoDup (nprefixes pre ss).
Proof.
  induction ss as [|s r IH]; intro pre; cbn [nprefixes]; constructor.
  - intro H. apply nprefixes_length in H. lia.
  - apply IH.
Qed.

Lemma NoDup_map_inj_in : forall (A B : Type) (f : A -> B) (L : list A),
  NoDup L -> (forall x y, In x L -> In y L -> f x = f y -> x = y) -> NoDup (map f L).
Proof.
  intros A B f L Hnd. induction Hnd as [|x L Hx Hnd IH]; intro Hinj; cbn [map]; constructor.
  - intro H. apply in_map_iff in H. destruct H as (y & Hy & Hin).
    assert (y = x) by (apply Hinj; [right; exact Hin|left; reflexivity|exact Hy]).
    subst. contradiction.
  - apply IH. intros a b Ha Hb. apply Hinj; right; assumption.
Qed.

Lemma stem_prefixes_nodup : forall l, NoDup (stem_prefixes l).
Proof.
  intro l. rewrite stem_prefixes_eq. apply NoDup_map_inj_in; [apply nprefixes_nodup|].
  intros p q Hp Hq E. apply In_nprefixes in Hp, Hq.
  apply concat_stems_inj; [| |exact E].
  - eapply Forall_prefix; [apply Hp|apply lru_iter_wf].
  - eapply Forall_prefix; [apply Hq|apply lru_iter_wf].
Qed.

Lemma mem_bytes_app1 : forall x k y, x <> y -> mem_bytes x (k ++ [y]) = mem_bytes x k.
Proof.
  intros x k y Hne. destruct (mem_bytes x k) eqn:E.
  - apply mem_bytes_In. apply in_or_app. left. apply mem_bytes_In. exact E.
  - apply mem_bytes_nIn. apply mem_bytes_nIn in E. rewrite in_app_iff. cbn [In].
    intros [H|[H|[]]]; [contradiction|congruence].
Qed.

Lemma fold_add_set_app : forall ps k, NoDup ps ->
  fold_left (fun k p => add_set p k) ps k = k ++ filter (fun x => negb (mem_bytes x k)) ps.
Proof.
  induction ps as [|p ps IH]; intros k Hnd; cbn [fold_left filter]; [symmetry; apply app_nil_r|].
  inversion Hnd as [|? ? Hp Hnd']. subst.
  rewrite (IH _ Hnd'). unfold add_set. destruct (mem_bytes p k) eqn:E; cbn [negb].
  - reflexivity.
  - rewrite <- app_assoc. cbn [app]. f_equal. f_equal.
    apply filter_ext_in. intros x Hx. rewrite mem_bytes_app1; [reflexivity|].
    intro Ex. subst. contradiction.
Qed.

Lemma know_app : forall l k,
  know l k = k ++ filter (fun x => negb (mem_bytes x k)) (stem_prefixes l).
Proof. intros. apply fold_add_set_app. apply stem_prefixes_nodup. Qed.

Lemma fold_left_add_sum : forall (A : Type) (w : A -> N) (L : list A) (acc : N),
  fold_left (fun n p => n + w p) L acc = acc + fold_right N.add 0 (map w L).
Proof.
  intros A w L. induction L as [|x L IH]; intro acc; cbn [fold_left map fold_right]; [lia|].
  rewrite IH. lia.
Qed.

Lemma filter_map_comm : forall (A B : Type) (f : A -> B) (g : B -> bool) (L : list A),
  filter g (map f L) = map f (filter (fun x => g (f x)) L).
Proof.
  intros A B f g L. induction L as [|x L IH]; [reflexivity|].
  cbn [map filter]. destruct (g (f x)); cbn [map]; rewrite IH; reflexivity.
Qed.

(* the stems add_lru creates are the last stems of the stem-prefixes not yet known *)
Lemma missing_known : forall s a l, Rcore s a ->
  map nblk (missing (tr s) (lru_iter l)) =
  map (fun p => nblk (last (lru_iter p) []))
      (filter (fun x => negb (mem_bytes x (a_known a))) (stem_prefixes l)).
Proof.
  intros s a l HR. unfold missing. rewrite stem_prefixes_eq, filter_map_comm, !map_map.
  assert (Hgood : forall p, In p (nprefixes [] (lru_iter l)) ->
            Forall wf_stem p /\ p <> []).
  { intros p Hp. apply In_nprefixes in Hp. destruct Hp as [Hne Hp]. split; [|exact Hne].
    eapply Forall_prefix; [exact Hp|apply lru_iter_wf]. }
  rewrite (filter_ext_in
             (fun p => match find p (tr s) with None => true | Some _ => false end)
             (fun p => negb (mem_bytes (concat p) (a_known a)))).
  - apply map_ext_in. intros p Hp. apply filter_In in Hp. destruct Hp as [Hp _].
    destruct (Hgood p Hp) as [Hw _]. rewrite lru_iter_concat_stems by exact Hw. reflexivity.
  - intros p Hp. destruct (Hgood p Hp) as [Hw Hne].
    assert (Hl : wf_lru (concat p)) by (apply wf_lru_concat; assumption).
    pose proof (mem_known_nodeof s a (concat p) HR Hl) as B.
    rewrite nodeof_concat in B by exact Hw.
    destruct (find p (tr s)) as [d|]; destruct (mem_bytes (concat p) (a_known a)); cbn [negb];
      try reflexivity.
    + exfalso. destruct B as [_ B].
      assert (Y : false = true) by (apply B; discriminate). discriminate.
    + exfalso. destruct B as [B _]. apply B; reflexivity.
Qed.

Lemma add_lru_nb_spec : forall flag l s a, Rcore s a ->
  nb (fst (add_lru flag l s)) = s_trie_blocks (upd_known (know l) a).
Proof.
  intros flag l s a HR. rewrite add_lru_nb, ins_nb_spec, (R_nb s a HR).
  unfold s_trie_blocks, upd_known. cbn [a_known].
  rewrite know_app, fold_left_app.
  rewrite (fold_left_add_sum _ (fun p => nblk (last (lru_iter p) [])) (filter _ _)).
  rewrite (missing_known s a l HR). lia.
Qed.

(* ---- add_lru preserves the relation -------------------------------------- *)

Lemma add_lru_Rcore : forall flag l s a, wf_lru l -> Rcore s a ->
  Rcore (fst (add_lru flag l s)) (upd_known (know l) a).
Proof.
  intros flag l s a Hl HR.
  pose proof (add_lru_fields flag l s) as (Flast & Fstubs & Frules & Fdflt).
  (* two generic transfer facts, at the level of stem lists *)
  assert (FWD : forall p d, find p (tr s) = Some d ->
            exists d', find p (tr (fst (add_lru flag l s))) = Some d' /\ same_data d d').
  { intros p d Hd. rewrite add_lru_tr. apply find_ins_fwd. exact Hd. }
  assert (BWD : forall p d', find p (tr (fst (add_lru flag l s))) = Some d' ->
            (exists d, find p (tr s) = Some d /\ same_data d d') \/
            (find p (tr s) = None /\ is_prefix p (lru_iter l) = true /\
             page d' = false /\ crawled d' = false /\ rule d' = false /\ we d' = 0 /\
             outh d' = 0 /\ inh d' = 0)).
  { intros p d' Hd'. rewrite add_lru_tr in Hd'. eapply find_ins_cases. exact Hd'. }
  constructor; unfold upd_known; cbn [a_pages a_known a_pref a_links a_last a_flags a_rules a_dflt].
  - (* R_wf *)
    rewrite add_lru_tr. apply ins_wf; [apply lru_iter_wf|apply (R_wf s a HR)].
  - (* R_known *)
    intros l' Hl'. rewrite In_know. split.
    + intro H. destruct (nodeof (fst (add_lru flag l s)) l') as [d'|] eqn:E; [|congruence].
      destruct (BWD _ _ E) as [(d & Hd & _)|(Hn & Hp & _)].
      * right. apply (R_known s a HR l' Hl'). unfold nodeof. congruence.
      * left. apply (is_prefix_iff l l' Hl Hl'). exact Hp.
    + intros [H|H].
      * apply add_lru_prefix. exact H.
      * apply add_lru_mono. apply (R_known s a HR l' Hl'). exact H.
  - (* R_known_wf *)
    apply Forall_know. apply (R_known_wf s a HR).
  - (* R_known_nodup *)
    apply NoDup_know. apply (R_known_nodup s a HR).
  - (* R_pages *)
    intros l' c Hl'. rewrite (R_pages s a HR l' c Hl'). split.
    + intros (d & Hd & Hp & Hc). destruct (FWD _ _ Hd) as (d' & Hd' & Hs).
      apply same_data_proj in Hs. exists d'. split; [exact Hd'|]. split; [|]; destruct Hs as (? & ? & _); congruence.
    + intros (d' & Hd' & Hp & Hc). destruct (BWD _ _ Hd') as [(d & Hd & Hs)|(_ & _ & Hpg & _)].
      * apply same_data_proj in Hs. exists d. split; [exact Hd|].
        split; [|]; destruct Hs as (? & ? & _); congruence.
      * congruence.
  - apply (R_pages_wf s a HR).
  - apply (R_pages_nodup s a HR).
  - (* R_crawled *)
    intros p d' Hd' Hc. destruct (BWD _ _ Hd') as [(d & Hd & Hs)|(_ & _ & _ & Hcr & _)].
    + apply same_data_proj in Hs. destruct Hs as (Hpg & Hcr & _).
      rewrite Hpg. apply (R_crawled s a HR p d Hd). congruence.
    + congruence.
  - (* R_pref *)
    intros l' w Hl'. rewrite (R_pref s a HR l' w Hl'). split.
    + intros (d & Hd & Hw & Hne). destruct (FWD _ _ Hd) as (d' & Hd' & Hs).
      apply same_data_proj in Hs. exists d'. split; [exact Hd'|].
      split; [|exact Hne]. destruct Hs as (_ & _ & _ & Hwe & _). congruence.
    + intros (d' & Hd' & Hw & Hne). destruct (BWD _ _ Hd') as [(d & Hd & Hs)|(_ & _ & _ & _ & _ & Hwe & _)].
      * apply same_data_proj in Hs. exists d. split; [exact Hd|].
        split; [|exact Hne]. destruct Hs as (_ & _ & _ & Hwe & _). congruence.
      * congruence.
  - apply (R_pref_wf s a HR).
  - apply (R_pref_nodup s a HR).
  - rewrite Flast. apply (R_last s a HR).
  - (* R_flags *)
    intros l' Hl'. rewrite (R_flags s a HR l' Hl'). split.
    + intros (d & Hd & Hr). destruct (FWD _ _ Hd) as (d' & Hd' & Hs).
      apply same_data_proj in Hs. exists d'. split; [exact Hd'|].
      destruct Hs as (_ & _ & Hru & _). congruence.
    + intros (d' & Hd' & Hr). destruct (BWD _ _ Hd') as [(d & Hd & Hs)|(_ & _ & _ & _ & Hru & _)].
      * apply same_data_proj in Hs. exists d. split; [exact Hd|].
        destruct Hs as (_ & _ & Hru & _). congruence.
      * congruence.
  - apply (R_flags_wf s a HR).
  - rewrite Frules. apply (R_rules s a HR).
  - rewrite Fdflt. apply (R_dflt s a HR).
  - (* R_nochild *)
    intros p q dp' dq' Hp Hnc Hpq Hne Hq.
    destruct (BWD _ _ Hq) as [(dq & Hdq & Hsq)|(_ & _ & _ & _ & _ & Hwe & _)]; [|exact Hwe].
    apply same_data_proj in Hsq. destruct Hsq as (_ & _ & _ & Hweq & _). rewrite Hweq.
    destruct (BWD _ _ Hp) as [(dp & Hdp & Hsp)|(Hnone & _)].
    + apply same_data_proj in Hsp. destruct Hsp as (_ & _ & _ & _ & _ & _ & _ & _ & _ & Hn).
      apply (R_nochild s a HR p q dp dq Hdp (Hn Hnc) Hpq Hne Hdq).
    + exfalso. apply (find_is_prefix_closed p q (tr s)); [|exact Hpq| |exact Hnone].
      * eapply find_nonempty. exact Hp.
      * congruence.
  - (* R_nb *)
    apply (add_lru_nb_spec flag l s a HR).
Qed.

(* ---- the walk history ---------------------------------------------------- *)

(* hist_of, folded over the LRUs spelled by the stem-prefixes *)
Lemma hist_of_nodeof : forall s l,
  hist_of (tr s) (lru_iter l) =
  fold_left (fun h x => match nodeof s x with Some d => visit d x h | None => h end)
            (stem_prefixes l) hist0.
Proof.
  intros s l. rewrite stem_prefixes_eq. unfold hist_of. symmetry.
  apply fold_left_map_in. intros h p Hp. apply In_nprefixes in Hp. destruct Hp as [_ Hp].
  rewrite nodeof_concat; [reflexivity|]. eapply Forall_prefix; [exact Hp|apply lru_iter_wf].
Qed.

Definition hist_best (best : option (bytes * N)) (anch : list N) : hist :=
  match best with
  | Some (p, w) => mkHist w p (Some (blen p)) anch
  | None => mkHist 0 [] None anch
  end.

Lemma hist_best_rules : forall best anch, h_rules (hist_best best anch) = anch.
Proof. intros [[p w]|] anch; reflexivity. Qed.

Lemma ahist_best : forall a l,
  ahist a l = hist_best (resolve (a_pref a) l)
                (map blen (filter (fun p => mem_bytes p (a_flags a)) (stem_prefixes l))).
Proof. intros a l. unfold ahist, hist_best. destruct (resolve (a_pref a) l) as [[p w]|]; reflexivity. Qed.

Lemma visit_step : forall s a x best anch, Rcore s a -> wf_lru x ->
  match nodeof s x with Some d => visit d x (hist_best best anch) | None => hist_best best anch end =
  hist_best (match aget x (a_pref a) with Some w => Some (x, w) | None => best end)
            (if mem_bytes x (a_flags a) then anch ++ [blen x] else anch).
Proof.
  intros s a x best anch HR Hx.
  pose proof (aget_pref_iff s a x) as BP. pose proof (aget_pref_none s a x HR Hx) as BN.
  pose proof (mem_flags_nodeof s a x HR Hx) as BF.
  destruct (nodeof s x) as [d|] eqn:Hd.
  - assert (Hfl : mem_bytes x (a_flags a) = rule d).
    { destruct (rule d) eqn:Er.
      - apply BF. exists d. auto.
      - destruct (mem_bytes x (a_flags a)); [|reflexivity].
        destruct BF as [BF _]. destruct (BF eq_refl) as (d2 & Hd2 & Hr). congruence. }
    rewrite Hfl. unfold visit. destruct (N.eqb_spec (we d) 0) as [E|E].
    + assert (Hag : aget x (a_pref a) = None).
      { apply BN. intros d2 Hd2. congruence. }
      rewrite Hag. destruct (rule d); [|reflexivity].
      rewrite hist_best_rules. destruct best as [[p w]|]; reflexivity.
    + assert (Hag : aget x (a_pref a) = Some (we d)).
      { apply (BP (we d) HR Hx). exists d. auto. }
      rewrite Hag. rewrite hist_best_rules. destruct (rule d); reflexivity.
  - assert (Hfl : mem_bytes x (a_flags a) = false).
    { destruct (mem_bytes x (a_flags a)); [|reflexivity].
      destruct BF as [BF _]. destruct (BF eq_refl) as (d2 & Hd2 & _). discriminate. }
    assert (Hag : aget x (a_pref a) = None).
    { apply BN. intros d2 Hd2. discriminate. }
    rewrite Hfl, Hag. reflexivity.
Qed.

Lemma hist_fold : forall s a, Rcore s a -> forall X, Forall wf_lru X -> forall best anch,
  fold_left (fun h x => match nodeof s x with Some d => visit d x h | None => h end) X
            (hist_best best anch) =
  hist_best (fold_left (fun best p => match aget p (a_pref a) with Some w => Some (p, w) | None => best end)
                       X best)
            (anch ++ map blen (filter (fun p => mem_bytes p (a_flags a)) X)).
Proof.
  intros s a HR X HX. induction HX as [|x X Hx HX IH]; intros best anch.
  - cbn [fold_left filter map]. rewrite app_nil_r. reflexivity.
  - cbn [fold_left filter]. rewrite (visit_step s a x best anch HR Hx), IH.
    f_equal. destruct (mem_bytes x (a_flags a)); [|reflexivity].
    cbn [map]. rewrite <- app_assoc. reflexivity.
Qed.

Lemma add_lru_hist : forall flag l s a, wf_lru l -> Rcore s a ->
  snd (add_lru flag l s) = ahist a l.
Proof.
  intros flag l s a Hl HR.
  rewrite add_lru_snd, ins_hist, hist_of_nodeof, ahist_best.
  change hist0 with (hist_best None []).
  rewrite (hist_fold s a HR (stem_prefixes l) (stem_prefixes_wf' l) None []).
  reflexivity.
Qed.

(* ---- extra views of add_lru, convenient when chaining --------------------- *)

(* an old node survives with the same data, up to a cleared nochild bit *)
Lemma add_lru_fwd : forall flag l s l' d, nodeof s l' = Some d ->
  exists d', nodeof (fst (add_lru flag l s)) l' = Some d' /\ same_data d d'.
Proof.
  intros flag l s l' d Hd. unfold nodeof. rewrite add_lru_tr. apply find_ins_fwd. exact Hd.
Qed.

(* a node of the new tree is an old one (same data) or a blank new one on the path of l *)
Lemma add_lru_bwd : forall flag l s l' d', nodeof (fst (add_lru flag l s)) l' = Some d' ->
  (exists d, nodeof s l' = Some d /\ same_data d d') \/
  (nodeof s l' = None /\ is_prefix (lru_iter l') (lru_iter l) = true /\
   page d' = false /\ crawled d' = false /\ rule d' = false /\ we d' = 0 /\ outh d' = 0 /\ inh d' = 0).
Proof.
  intros flag l s l' d' Hd'. unfold nodeof in *. rewrite add_lru_tr in Hd'.
  eapply find_ins_cases. exact Hd'.
Qed.

(* after add_lru true, every proper stem-prefix of l has its nochild bit cleared *)
Lemma add_lru_true_ancestors : forall l s l' d', wf_lru l ->
  In l' (stem_prefixes l) -> l' <> l ->
  nodeof (fst (add_lru true l s)) l' = Some d' -> nochild d' = false.
Proof.
  intros l s l' d' Hl Hin Hne Hd'.
  destruct (stem_prefix_path l l' Hin) as (Hl' & _ & _).
  assert (Hb : beq l' l = false) by (apply beq_neq; exact Hne).
  destruct (nodeof s l') as [d|] eqn:E.
  - rewrite (add_lru_old true l s l' d Hl Hl' Hin E), Hb in Hd'. cbn in Hd'.
    injection Hd' as <-. reflexivity.
  - destruct (add_lru_new true l s l' Hl Hl' Hin E) as (d2 & Hd2 & _ & _ & _ & _ & _ & _ & Hn).
    rewrite Hd2 in Hd'. injection Hd' as <-. rewrite Hn, Hb. reflexivity.
Qed.

(* a cleared nochild bit stays cleared *)
Lemma add_lru_nochild_false : forall flag l s l' d, nodeof s l' = Some d -> nochild d = false ->
  exists d', nodeof (fst (add_lru flag l s)) l' = Some d' /\ nochild d' = false.
Proof.
  intros flag l s l' d Hd Hn. destruct (add_lru_fwd flag l s l' d Hd) as (d' & Hd' & Hs).
  exists d'. split; [exact Hd'|]. apply same_data_proj in Hs.
  destruct Hs as (_ & _ & _ & _ & _ & _ & _ & _ & _ & Hi).
  destruct (nochild d') eqn:E; [|reflexivity]. rewrite (Hi eq_refl) in Hn. discriminate.
Qed.
