(* GenTraphWFacts2.v — four more write requests of the public API translated from the source (GenTraphW.v, generated on every run
   from /repo/traph/traph.py: Traph.add_prefix_to_webentity, remove_prefix_from_webentity, move_prefix_to_webentity,
   delete_webentity) do on the bytes of the trie file exactly what the model's Traph.add_prefix / remove_prefix / move_prefix /
   delete_webentity do, on every state satisfying Inv18; the code raises TraphException (None) exactly when the model says Refused.
     1. one node written with its webentity register changed, WITHOUT being read again (we_write: the variant of
        GenTraphWFacts1.set_we_in_place for a node object that may be stale in the webentity register only);
        how upd at one path moves the node found at any other path (find_sub_upd_any)
     2. add_lru seen from the request level (after_add_lru: the header block and the RAM header are kept, the node object
        returned is the one of the prefix in the new tree)
     3. add_prefix_to_webentity      4. remove_prefix_from_webentity      5. move_prefix_to_webentity
     6. delete_webentity: the generated definition in named pieces (look_step, unset_step), the first loop (look_spec: the
        file is only read, the dict keeps each prefix once in first-occurrence order = dedup_bytes), the second loop
        (unset_loop_spec: the stale objects are written one after the other; stale_ok is kept by every upd (set_we 0))
     7. examples by vm_compute on the trie file of PropsEx.exs. *)
From Coq Require Import List NArith Bool Lia Arith.
Import ListNotations.
From Traph Require Import Bytes Consts Layout Helpers Rules Tst TstDefs Traph Traphw TraceDefs Codec CodecFacts
  TstFacts Store StoreFacts GenStorage GenNode GenNodeFacts GenLinks GenTrie GenTrieFacts GenTrieW GenTrieWDefs GenTraphW
  GenTraphWDefs GenTraphWFacts.
From Traph Require Import TraceFacts2 TraceFacts3 TraceFacts4 LinkFacts StoreFacts2 GenTrieWAdd1 GenTrieWAdd2 GenTrieWAdd
  GenTrieWPage ReopenFacts GenTrieWFrame GenTraphWFacts1 GenTraphPages.
Open Scope N_scope.

Arguments N.shiftr : simpl never.
Arguments N.shiftl : simpl never.
Arguments N.modulo : simpl never.
Arguments N.div : simpl never.
Arguments N.land : simpl never.
Arguments N.lor : simpl never.
Arguments N.ldiff : simpl never.
Arguments N.mul : simpl never.
Arguments N.add : simpl never.
Arguments N.sub : simpl never.
Arguments N.ltb : simpl never.
Arguments N.eqb : simpl never.
Arguments N.pow : simpl never.

(* ====================================================================================== *)
(* 1. writing the webentity register of one node; upd seen from another path              *)
(* ====================================================================================== *)
Lemma upd_root_addr : forall f, (forall d, addr (f d) = addr d) -> forall q t, root_addr (upd f q t) = root_addr t.
Proof.
  intros f Ha q t. destruct q as [|x rest]; [reflexivity|]. destruct t as [|d l c r]; [rewrite upd_Lf; reflexivity|].
  rewrite upd_Nd. destruct (lex x (stem d)); [destruct rest|..]; cbn [root_addr]; auto.
Qed.

Lemma we_write : forall s, Inv18 s -> forall w p d l c r n sg H,
  w < 2 ^ 32 ->
  find_sub p (tr s) = Some (Nd d l c r) ->
  nd_exists n = true -> nd_block n = Some (addr d) ->
  py_set_nth pos_we (VNum w) (nd_data n) =
    tblock_vals (main_block (set_we w d) (root_addr l) (root_addr r) (root_addr c)) ->
  trep (files_of s) sg -> hk H sg ->
  let s' := set_tree (upd (set_we w) p (tr s)) s in
  exists n2 sg2, py_node_write (py_node_set_webentity n w) sg = (n2, sg2) /\
    trep (files_of s') sg2 /\ hk H sg2 /\ Inv18 s'.
Proof.
  intros s Hinv w p d l c r n sg H Hw Hfs Hex Hblk Hdat Hrep Hhk s'.
  pose proof (find_sub_subt _ _ _ Hfs) as Hsub.
  set (n' := py_node_set_webentity n w).
  assert (Hd' : nd_data n' = tblock_vals (main_block (set_we w d) (root_addr l) (root_addr r) (root_addr c))) by exact Hdat.
  destruct (node_index s Hinv d l c r Hsub) as (j & Haj & Hj & Hnth).
  assert (Henc' : blk_encodable (main_block (set_we w d) (root_addr l) (root_addr r) (root_addr c))).
  { apply main_block_encodable_we; [exact Hw|]. exact (trep_nth_enc _ _ _ _ Hrep Hnth). }
  assert (Hb' : nd_block n' = Some (blk_off j)) by (rewrite <- Haj; exact Hblk).
  destruct (trep_write_existing (files_of s) sg n' j _ Hrep Hj Hex Hb' Hd' Henc') as [W1 W2].
  assert (Hok : okN n').
  { intros a Ha. change (nd_block n') with (nd_block n) in Ha. rewrite Hblk in Ha. injection Ha as <-.
    destruct (node_in_file s Hinv d l c r sg Hsub Hrep); assumption. }
  destruct (py_node_write_frame n' sg H Hhk Hok) as [Hhk2 _].
  destruct (py_node_write n' sg) as [n2 sg2]. cbn [fst snd] in W1, W2, Hhk2.
  exists n2, sg2. split; [reflexivity|].
  destruct (soft_Tr (set_we w) p s Hinv (soft_set_we w)) as (Eap & Hinv' & _).
  destruct (placed_upd (set_we w) (fun _ => eq_refl) (fun _ => eq_refl) p (tr s) d l c r Hfs) as (_ & _ & _ & _ & E3 & _).
  unfold nwp in Eap. rewrite E3 in Eap. cbn [apply_all fold_left] in Eap.
  change (addr (set_we w d)) with (addr d) in Eap. rewrite Haj in Eap.
  split; [|split; [exact Hhk2|exact Hinv']].
  unfold s'. rewrite <- Eap. exact W2.
Qed.

Lemma find_sub_upd_any : forall f, (forall d, stem (f d) = stem d) -> (forall d, addr (f d) = addr d) ->
  forall p q t d l c r, find_sub p t = Some (Nd d l c r) ->
  exists d' l' c' r', find_sub p (upd f q t) = Some (Nd d' l' c' r') /\ (d' = d \/ d' = f d) /\
    root_addr l' = root_addr l /\ root_addr c' = root_addr c /\ root_addr r' = root_addr r.
Proof.
  intros f Hs Ha. induction p as [|sp restp IHp]; intros q t d l c r H; [discriminate H|].
  destruct q as [|sq restq].
  { exists d, l, c, r. cbn [upd]. split; [exact H|]. split; [left; reflexivity|]. repeat split. }
  revert H. induction t as [|d0 l0 IHl c0 _ r0 IHr]; intro H; [rewrite find_sub_Lf in H; discriminate H|].
  rewrite find_sub_Nd in H. rewrite upd_Nd.
  destruct (lex sq (stem d0)) eqn:Eq.
  - destruct restq as [|sq2 restq2].
    + rewrite find_sub_Nd, Hs. destruct (lex sp (stem d0)).
      * destruct restp as [|sp2 restp2].
        -- injection H as <- <- <- <-. exists (f d0), l0, c0, r0. split; [reflexivity|]. split; [right; reflexivity|]. repeat split.
        -- exists d, l, c, r. split; [exact H|]. split; [left; reflexivity|]. repeat split.
      * exists d, l, c, r. split; [exact H|]. split; [left; reflexivity|]. repeat split.
      * exists d, l, c, r. split; [exact H|]. split; [left; reflexivity|]. repeat split.
    + rewrite find_sub_Nd. destruct (lex sp (stem d0)).
      * destruct restp as [|sp2 restp2].
        -- injection H as <- <- <- <-. exists d0, l0, (upd f (sq2 :: restq2) c0), r0.
           split; [reflexivity|]. split; [left; reflexivity|]. split; [reflexivity|]. split; [apply upd_root_addr; exact Ha|reflexivity].
        -- apply IHp. exact H.
      * exists d, l, c, r. split; [exact H|]. split; [left; reflexivity|]. repeat split.
      * exists d, l, c, r. split; [exact H|]. split; [left; reflexivity|]. repeat split.
  - rewrite find_sub_Nd. destruct (lex sp (stem d0)).
    + destruct restp as [|sp2 restp2].
      * injection H as <- <- <- <-. exists d0, (upd f (sq :: restq) l0), c0, r0.
        split; [reflexivity|]. split; [left; reflexivity|]. split; [apply upd_root_addr; exact Ha|]. split; reflexivity.
      * exists d, l, c, r. split; [exact H|]. split; [left; reflexivity|]. repeat split.
    + apply IHl. exact H.
    + exists d, l, c, r. split; [exact H|]. split; [left; reflexivity|]. repeat split.
  - rewrite find_sub_Nd. destruct (lex sp (stem d0)).
    + destruct restp as [|sp2 restp2].
      * injection H as <- <- <- <-. exists d0, l0, c0, (upd f (sq :: restq) r0).
        split; [reflexivity|]. split; [left; reflexivity|]. split; [reflexivity|]. split; [reflexivity|apply upd_root_addr; exact Ha].
      * exists d, l, c, r. split; [exact H|]. split; [left; reflexivity|]. repeat split.
    + exists d, l, c, r. split; [exact H|]. split; [left; reflexivity|]. repeat split.
    + apply IHr. exact H.
Qed.

(* ====================================================================================== *)
(* 2. add_lru seen from the request level: header kept, node object of the prefix         *)
(* ====================================================================================== *)
Lemma add_lru_lastwe : forall flag p s, lastwe (fst (add_lru flag p s)) = lastwe s.
Proof.
  intros flag p s. unfold add_lru. destruct (ins flag (lru_iter p) [] 0 (nb s) hist0 (tr s)) as [[t' nb'] h]. reflexivity.
Qed.

Lemma after_add_lru : forall s, Inv18 s -> root_first s -> forall hd sg p flag,
  hrep s hd sg -> wf_lru p ->
  let s1 := fst (add_lru flag p s) in
  nb s1 * 128 < 2 ^ 64 ->
  exists sg1 n ph d l c r, py_trie_add_lru sg p flag = Some (sg1, (n, ph)) /\
    hrep s1 hd sg1 /\ Inv18 s1 /\ root_first s1 /\
    find_sub (lru_iter p) (tr s1) = Some (Nd d l c r) /\ node_at (Nd d l c r) n.
Proof.
  intros s Hinv Hroot hd sg p flag Hh Hwf s1 Hsize.
  pose proof Hh as (Hrep & Hdat & _). pose proof (hrep_hk s hd sg Hh) as Hhk.
  destruct (py_trie_add_lru_spec s Hinv sg p flag Hroot Hrep Hwf Hsize) as (sg1 & n & ph & Eadd & Hrep1 & _ & t' & Ht' & Hn).
  fold s1 in Hrep1, Ht'.
  destruct (py_trie_add_lru_frame sg p flag sg1 (n, ph) _ Hhk Eadd) as [Hhk1 _].
  destruct t' as [|d l c r]; [destruct Hn|].
  exists sg1, n, ph, d, l, c, r. split; [exact Eadd|].
  pose proof (add_lru_lastwe flag p s) as El. fold s1 in El.
  split; [|split; [exact (add_lru_Inv18 flag p s Hinv)|split; [exact (add_lru_root_first flag p s Hinv Hroot)|split; assumption]]].
  rewrite <- El in Hdat, Hhk1. apply hrep_intro; assumption.
Qed.

(* ====================================================================================== *)
(* 3. add_prefix_to_webentity                                                             *)
(* ====================================================================================== *)
Lemma add_prefix_eq : forall p w s, add_prefix p w s =
  let s1 := fst (add_lru true p s) in
  match find (lru_iter p) (tr s1) with
  | Some d => if we d =? 0 then (set_tree (upd (set_we w) (lru_iter p) (tr s1)) s1, Ok) else (s1, Refused)
  | None => (s1, Crash)
  end.
Proof. intros p w s. unfold add_prefix. destruct (add_lru true p s) as [s1 h]. reflexivity. Qed.

Lemma add_prefix_nb : forall p w s, nb (fst (add_prefix p w s)) = nb (fst (add_lru true p s)).
Proof.
  intros p w s. rewrite add_prefix_eq. cbv zeta. destruct (find _ _) as [d|]; [|reflexivity].
  destruct (we d =? 0); reflexivity.
Qed.

Theorem py_traph_add_prefix_full : forall s, Inv18 s -> root_first s -> forall hd sg p w,
  hrep s hd sg -> wf_lru p -> w < 2 ^ 32 ->
  let r := add_prefix p w s in let s' := fst r in
  nb s' * 128 < 2 ^ 64 ->
  Inv18 s' /\ root_first s' /\
  match snd r with
  | Ok => exists hd' sg', py_traph_add_prefix_to_webentity hd sg p w = Some (hd', sg', true) /\ hrep s' hd' sg'
  | Refused => py_traph_add_prefix_to_webentity hd sg p w = None
  | _ => False
  end.
Proof.
  intros s Hinv Hroot hd sg p w Hh Hwf Hw r s' Hsize.
  split; [exact (Tr_inv _ _ _ (add_prefix_Tr p w s Hinv))|].
  split; [apply Q_root_first, add_prefix_Q, root_first_Q; assumption|].
  unfold s', r in Hsize. rewrite add_prefix_nb in Hsize.
  destruct (after_add_lru s Hinv Hroot hd sg p true Hh Hwf Hsize)
    as (sg1 & n & ph & d & l & c & r0 & Eadd & Hh1 & Hinv1 & _ & Hfs & Hn).
  unfold s', r. rewrite add_prefix_eq. cbv zeta.
  set (s1 := fst (add_lru true p s)) in *.
  rewrite find_of_sub, Hfs. cbn [node_of].
  pose proof Hn as (Hex & Hblk & Hdata & _).
  destruct (node_has_we d _ _ _ n Hdata) as (Ehw & _).
  unfold py_traph_add_prefix_to_webentity. cbv zeta. rewrite Eadd, Ehw.
  destruct (we d =? 0); cbn [negb fst snd]; [|reflexivity].
  pose proof Hh1 as (Hrep1 & Hdat1 & _). pose proof (hrep_hk _ _ _ Hh1) as Hhk1.
  destruct (we_write s1 Hinv1 w (lru_iter p) d l c r0 n sg1 _ Hw Hfs Hex Hblk
              ltac:(rewrite Hdata; apply set_we_vals) Hrep1 Hhk1) as (n2 & sg2 & Ewr & Hrep2 & Hhk2 & _).
  rewrite Ewr. exists hd, sg2. split; [reflexivity|].
  apply hrep_intro; [exact Hrep2|exact Hdat1|exact Hhk2].
Qed.

Theorem py_traph_add_prefix_spec : forall s, Inv18 s -> root_first s -> forall hd sg p w,
  hrep s hd sg -> wf_lru p -> w < 2 ^ 32 ->
  let r := add_prefix p w s in let s' := fst r in
  nb s' * 128 < 2 ^ 64 ->
  match snd r with
  | Ok => exists hd' sg', py_traph_add_prefix_to_webentity hd sg p w = Some (hd', sg', true) /\ hrep s' hd' sg'
  | Refused => py_traph_add_prefix_to_webentity hd sg p w = None
  | _ => False
  end.
Proof.
  intros s Hinv Hroot hd sg p w Hh Hwf Hw r s' Hsize.
  exact (proj2 (proj2 (py_traph_add_prefix_full s Hinv Hroot hd sg p w Hh Hwf Hw Hsize))).
Qed.

(* ====================================================================================== *)
(* 4. remove_prefix_from_webentity                                                        *)
(* ====================================================================================== *)
Lemma remove_prefix_eq : forall p w s, remove_prefix p w s =
  let s1 := fst (add_lru false p s) in
  match find (lru_iter p) (tr s1) with
  | Some d => if (w =? 0) || (negb (we d =? 0) && (we d =? w))
              then (set_tree (upd (set_we 0) (lru_iter p) (tr s1)) s1, Ok) else (s1, Refused)
  | None => (s1, Crash)
  end.
Proof. intros p w s. unfold remove_prefix. destruct (add_lru false p s) as [s1 h]. reflexivity. Qed.

Lemma remove_prefix_nb : forall p w s, nb (fst (remove_prefix p w s)) = nb (fst (add_lru false p s)).
Proof.
  intros p w s. rewrite remove_prefix_eq. cbv zeta. destruct (find _ _) as [d|]; [|reflexivity].
  destruct ((w =? 0) || _); reflexivity.
Qed.

Lemma pow32_pos : 0 < 2 ^ 32.
Proof. reflexivity. Qed.

Theorem py_traph_remove_prefix_full : forall s, Inv18 s -> root_first s -> forall hd sg p w,
  hrep s hd sg -> wf_lru p ->
  let r := remove_prefix p w s in let s' := fst r in
  nb s' * 128 < 2 ^ 64 ->
  Inv18 s' /\ root_first s' /\
  match snd r with
  | Ok => exists hd' sg', py_traph_remove_prefix_from_webentity hd sg p w = Some (hd', sg', true) /\ hrep s' hd' sg'
  | Refused => py_traph_remove_prefix_from_webentity hd sg p w = None
  | _ => False
  end.
Proof.
  intros s Hinv Hroot hd sg p w Hh Hwf r s' Hsize.
  split; [exact (Tr_inv _ _ _ (remove_prefix_Tr p w s Hinv))|].
  split; [apply Q_root_first, remove_prefix_Q, root_first_Q; assumption|].
  unfold s', r in Hsize. rewrite remove_prefix_nb in Hsize.
  destruct (after_add_lru s Hinv Hroot hd sg p false Hh Hwf Hsize)
    as (sg1 & n & ph & d & l & c & r0 & Eadd & Hh1 & Hinv1 & _ & Hfs & Hn).
  unfold s', r. rewrite remove_prefix_eq. cbv zeta.
  set (s1 := fst (add_lru false p s)) in *.
  rewrite find_of_sub, Hfs. cbn [node_of].
  pose proof Hn as (Hex & Hblk & Hdata & _).
  destruct (node_has_we d _ _ _ n Hdata) as (_ & Ewe & _).
  unfold py_traph_remove_prefix_from_webentity. cbv zeta. rewrite Eadd, Ewe.
  assert (Etest : oN_eqb (if we d =? 0 then None else Some (we d)) (Some w) = negb (we d =? 0) && (we d =? w)).
  { destruct (we d =? 0); reflexivity. }
  rewrite Etest.
  destruct ((w =? 0) || (negb (we d =? 0) && (we d =? w))); cbn [fst snd]; [|reflexivity].
  pose proof Hh1 as (Hrep1 & Hdat1 & _). pose proof (hrep_hk _ _ _ Hh1) as Hhk1.
  destruct (we_write s1 Hinv1 0 (lru_iter p) d l c r0 n sg1 _ pow32_pos Hfs Hex Hblk
              ltac:(rewrite Hdata; apply set_we_vals) Hrep1 Hhk1) as (n2 & sg2 & Ewr & Hrep2 & Hhk2 & _).
  change (py_node_unset_webentity n) with (py_node_set_webentity n 0).
  rewrite Ewr. exists hd, sg2. split; [reflexivity|].
  apply hrep_intro; [exact Hrep2|exact Hdat1|exact Hhk2].
Qed.

Theorem py_traph_remove_prefix_spec : forall s, Inv18 s -> root_first s -> forall hd sg p w,
  hrep s hd sg -> wf_lru p ->
  let r := remove_prefix p w s in let s' := fst r in
  nb s' * 128 < 2 ^ 64 ->
  match snd r with
  | Ok => exists hd' sg', py_traph_remove_prefix_from_webentity hd sg p w = Some (hd', sg', true) /\ hrep s' hd' sg'
  | Refused => py_traph_remove_prefix_from_webentity hd sg p w = None
  | _ => False
  end.
Proof.
  intros s Hinv Hroot hd sg p w Hh Hwf r s' Hsize.
  exact (proj2 (proj2 (py_traph_remove_prefix_full s Hinv Hroot hd sg p w Hh Hwf Hsize))).
Qed.

(* ====================================================================================== *)
(* 5. move_prefix_to_webentity                                                            *)
(* ====================================================================================== *)
Lemma move_prefix_nb_ge : forall p wt ws s, nb (fst (remove_prefix p ws s)) <= nb (fst (move_prefix p wt ws s)).
Proof.
  intros p wt ws s. unfold move_prefix. destruct (remove_prefix p ws s) as [s1 [| | |k cr]]; cbn [fst]; try lia.
  rewrite add_prefix_nb, add_lru_nb.
  pose proof (ins_nb_mono true (lru_iter p) [] 0 (nb s1) hist0 (tr s1)). lia.
Qed.

Theorem py_traph_move_prefix_spec : forall s, Inv18 s -> root_first s -> forall hd sg p wt ws,
  hrep s hd sg -> wf_lru p -> wt < 2 ^ 32 ->
  let r := move_prefix p wt ws s in let s' := fst r in
  nb s' * 128 < 2 ^ 64 ->
  match snd r with
  | Ok => exists hd' sg', py_traph_move_prefix_to_webentity hd sg p wt ws = Some (hd', sg', true) /\ hrep s' hd' sg'
  | Refused => py_traph_move_prefix_to_webentity hd sg p wt ws = None
  | _ => False
  end.
Proof.
  intros s Hinv Hroot hd sg p wt ws Hh Hwf Hw r s' Hsize.
  assert (Hsize1 : nb (fst (remove_prefix p ws s)) * 128 < 2 ^ 64).
  { pose proof (move_prefix_nb_ge p wt ws s) as Hm. unfold s', r in Hsize. rewrite pow64 in *. nia. }
  destruct (py_traph_remove_prefix_full s Hinv Hroot hd sg p ws Hh Hwf Hsize1) as (Hinv1 & Hroot1 & HR).
  unfold s', r in *. clear s' r. unfold move_prefix in *. unfold py_traph_move_prefix_to_webentity. cbv zeta.
  destruct (remove_prefix p ws s) as [s1 [| | |k cr]]; cbn [fst snd] in *.
  - rewrite HR. reflexivity.
  - exact HR.
  - destruct HR as (hd1 & sg1 & E1 & Hh1). rewrite E1. cbv iota.
    pose proof (py_traph_add_prefix_spec s1 Hinv1 Hroot1 hd1 sg1 p wt Hh1 Hwf Hw Hsize) as HA. cbv zeta in HA.
    destruct (snd (add_prefix p wt s1)).
    + rewrite HA. reflexivity.
    + exact HA.
    + destruct HA as (hd2 & sg2 & E2 & Hh2). rewrite E2. exists hd2, sg2. split; [reflexivity|exact Hh2].
    + exact HA.
  - exact HR.
Qed.

(* ====================================================================================== *)
(* 6. delete_webentity                                                                    *)
(* ====================================================================================== *)
Definition DIdx : Type := list (bytes * option py_node).

Definition look_step (v_weid : N) (st : option (py_pm * DIdx)) (v_prefix : bytes) : option (py_pm * DIdx) :=
 match st with
 | None => None
 | Some (sg, v_prefix_index) => (match py_trie_lru_node sg v_prefix with
 | None => None
 | Some (sg, v_node) => (match v_node with
 | None => None
 | Some v_node => (let v_prefix_index := py_dict_update v_prefix (Some v_node) v_prefix_index in
 (if ((negb (py_node_has_webentity v_node)) || (negb (oN_eqb (py_node_webentity v_node) (Some v_weid))))
 then None
 else (Some (sg, v_prefix_index)))) end) end) end.

Definition unset_step (st : option py_pm) (v__it : (bytes * option py_node)) : option py_pm :=
 match st with
 | None => None
 | Some sg => (let '(v_prefix, v__n) := v__it in
 match v__n with
 | None => None
 | Some v_node => (let v_node := py_node_unset_webentity v_node in
 (let '(v_node, sg) := py_node_write v_node sg in
 (Some sg))) end) end.

Lemma delete_eq : forall hd sg w ps,
  py_traph_delete_webentity hd sg w ps true =
  match fold_left (look_step w) ps (Some (sg, [])) with
  | None => None
  | Some (sg, idx) =>
      match fold_left unset_step idx (Some sg) with
      | None => None
      | Some sg => Some (hd, sg, true)
      end
  end.
Proof. reflexivity. Qed.

Lemma fold_look_None : forall w ps, fold_left (look_step w) ps None = None.
Proof. intros w. induction ps as [|p ps IH]; [reflexivity|exact IH]. Qed.

(* a node object kept in the dict: it names the block of the node found at its key in the current tree, and once its webentity
   register is cleared it holds the registers of that node with the webentity cleared (the object may be stale in that one
   register only) *)
Definition stale_ok (s : traph) (it : bytes * option py_node) : Prop :=
  exists n d l c r, snd it = Some n /\
    find_sub (lru_iter (fst it)) (tr s) = Some (Nd d l c r) /\
    nd_exists n = true /\ nd_block n = Some (addr d) /\
    py_set_nth pos_we (VNum 0) (nd_data n) =
      tblock_vals (main_block (set_we 0 d) (root_addr l) (root_addr r) (root_addr c)).

Lemma stale_ok_upd : forall s q it, stale_ok s it -> stale_ok (set_tree (upd (set_we 0) q (tr s)) s) it.
Proof.
  intros s q it (n & d & l & c & r & Hn & Hfs & Hex & Hblk & Hdat).
  destruct (find_sub_upd_any (set_we 0) (fun _ => eq_refl) (fun _ => eq_refl) (lru_iter (fst it)) q (tr s) d l c r Hfs)
    as (d' & l' & c' & r' & Hfs' & Hd' & El & Ec & Er).
  exists n, d', l', c', r'. split; [exact Hn|]. split; [exact Hfs'|]. split; [exact Hex|].
  rewrite El, Ec, Er. destruct Hd' as [->| ->]; split; assumption.
Qed.

Definition chk (w : N) (s : traph) (p : bytes) : bool :=
  match find (lru_iter p) (tr s) with
  | Some d => negb (we d =? 0) && (we d =? w)
  | None => false
  end.

Lemma Forall_dict_update : forall (V : Type) (P : bytes * V -> Prop) k v d,
  Forall P d -> P (k, v) -> Forall P (py_dict_update k v d).
Proof.
  intros V P k v d Hd Hk. apply Forall_forall. intros [k1 v1] Hin.
  destruct (dict_update_In _ _ _ _ _ _ Hin) as [Hold|[-> ->]]; [|exact Hk].
  rewrite Forall_forall in Hd. apply Hd. exact Hold.
Qed.

Section Delete.
  Variable s : traph.
  Hypothesis Hinv : Inv18 s.
  Hypothesis Hroot : root_first s.

  (* the first loop: the file is only read; the loop raises at the first prefix the model's test rejects *)
  Lemma look_spec : forall w ps sg idx H,
    trep (files_of s) sg -> hk H sg -> Forall wf_lru ps -> Forall (stale_ok s) idx ->
    if forallb (chk w s) ps
    then exists sg' idx', fold_left (look_step w) ps (Some (sg, idx)) = Some (sg', idx') /\
           trep (files_of s) sg' /\ hk H sg' /\ Forall (stale_ok s) idx' /\
           map fst idx' = dedup_bytes ps (map fst idx)
    else fold_left (look_step w) ps (Some (sg, idx)) = None.
  Proof.
    intros w. induction ps as [|p ps IH]; intros sg idx H Hrep Hhk Hwf Hidx.
    - cbn [forallb fold_left dedup_bytes]. exists sg, idx. split; [reflexivity|]. split; [exact Hrep|]. split; [exact Hhk|]. split; [exact Hidx|reflexivity].
    - pose proof (Forall_inv Hwf) as Hwp. pose proof (Forall_inv_tail Hwf) as Hwps.
      destruct (lru_node_full s Hinv Hroot sg p Hrep Hwp) as (sg1 & Hrep1 & Harr1 & H1).
      assert (Hhk1 : hk H sg1).
      { destruct Hhk as (_ & Hf & Hl). split; [apply Hrep1|]. rewrite Harr1. split; assumption. }
      cbn [forallb fold_left look_step]. unfold chk at 1. rewrite find_of_sub.
      destruct (find_sub (lru_iter p) (tr s)) as [t'|] eqn:Efs.
      2:{ rewrite H1. cbn [andb]. apply fold_look_None. }
      destruct H1 as (n & E1 & Hn & _). rewrite E1.
      destruct t' as [|d l c r]; [destruct Hn|]. cbn [node_of].
      pose proof Hn as (Hex & Hblk & Hdata & _).
      destruct (node_has_we d _ _ _ n Hdata) as (Ehw & Ewe & _). cbv zeta. rewrite Ehw, Ewe.
      destruct (we d =? 0); cbn [negb andb orb]; [apply fold_look_None|].
      cbn [oN_eqb]. destruct (we d =? w); cbn [negb]; [|apply fold_look_None].
      assert (Hidx1 : Forall (stale_ok s) (py_dict_update p (Some n) idx)).
      { apply Forall_dict_update; [exact Hidx|]. exists n, d, l, c, r. cbn [fst snd].
        split; [reflexivity|]. split; [exact Efs|]. split; [exact Hex|]. split; [exact Hblk|].
        rewrite Hdata. apply set_we_vals. }
      specialize (IH sg1 (py_dict_update p (Some n) idx) H Hrep1 Hhk1 Hwps Hidx1).
      destruct (forallb (chk w s) ps); [|exact IH].
      destruct IH as (sg' & idx' & Ef & Hrep' & Hhk' & Hidx' & Hkeys).
      exists sg', idx'. split; [exact Ef|]. split; [exact Hrep'|]. split; [exact Hhk'|]. split; [exact Hidx'|].
      rewrite Hkeys, dict_update_keys. reflexivity.
  Qed.
End Delete.

(* the second loop: each node object is written with its webentity register cleared, without being read again *)
Lemma unset_loop_spec : forall idx s sg H,
  Inv18 s -> trep (files_of s) sg -> hk H sg -> Forall (stale_ok s) idx ->
  let s' := set_tree (fold_left (fun t p => upd (set_we 0) (lru_iter p) t) (map fst idx) (tr s)) s in
  exists sg', fold_left unset_step idx (Some sg) = Some sg' /\ trep (files_of s') sg' /\ hk H sg'.
Proof.
  induction idx as [|[k on] idx IH]; intros s sg H Hinv Hrep Hhk Hidx s'.
  - exists sg. split; [reflexivity|]. unfold s'. cbn [map fold_left].
    assert (E : set_tree (tr s) s = s) by (destruct s; reflexivity). rewrite E. split; assumption.
  - pose proof (Forall_inv Hidx) as (n & d & l & c & r & Hn & Hfs & Hex & Hblk & Hdat).
    cbn [fst snd] in Hn, Hfs. subst on.
    destruct (we_write s Hinv 0 (lru_iter k) d l c r n sg H pow32_pos Hfs Hex Hblk Hdat Hrep Hhk)
      as (n2 & sg2 & Ewr & Hrep2 & Hhk2 & Hinv2).
    cbn [fold_left unset_step]. change (py_node_unset_webentity n) with (py_node_set_webentity n 0). rewrite Ewr.
    set (s2 := set_tree (upd (set_we 0) (lru_iter k) (tr s)) s) in *.
    assert (Hidx2 : Forall (stale_ok s2) idx).
    { pose proof (Forall_inv_tail Hidx) as Ht. rewrite Forall_forall in *. intros it Hin. apply stale_ok_upd, Ht, Hin. }
    destruct (IH s2 sg2 H Hinv2 Hrep2 Hhk2 Hidx2) as (sg' & Ef & Hrep' & Hhk').
    exists sg'. split; [exact Ef|]. split; [exact Hrep'|exact Hhk'].
Qed.

Theorem py_traph_delete_webentity_spec : forall s, Inv18 s -> root_first s -> forall hd sg w ps,
  hrep s hd sg -> Forall wf_lru ps ->
  let r := delete_webentity w ps s in
  match snd r with
  | Ok => exists hd' sg', py_traph_delete_webentity hd sg w ps true = Some (hd', sg', true) /\ hrep (fst r) hd' sg'
  | Refused => py_traph_delete_webentity hd sg w ps true = None
  | _ => False
  end.
Proof.
  intros s Hinv Hroot hd sg w ps Hh Hwf r.
  pose proof Hh as (Hrep & Hdat & _). pose proof (hrep_hk s hd sg Hh) as Hhk.
  pose proof (look_spec s Hinv Hroot w ps sg [] _ Hrep Hhk Hwf (Forall_nil _)) as HL.
  unfold r, delete_webentity. fold (chk w s). rewrite delete_eq.
  destruct (forallb (chk w s) ps); cbn [fst snd].
  - destruct HL as (sg1 & idx & Ef & Hrep1 & Hhk1 & Hidx & Hkeys). rewrite Ef.
    destruct (unset_loop_spec idx s sg1 _ Hinv Hrep1 Hhk1 Hidx) as (sg2 & Eu & Hrep2 & Hhk2).
    rewrite Eu. exists hd, sg2. split; [reflexivity|].
    cbn [map] in Hkeys. rewrite Hkeys in Hrep2.
    apply hrep_intro; [exact Hrep2|exact Hdat|exact Hhk2].
  - rewrite HL. reflexivity.
Qed.

(* ====================================================================================== *)
(* the new states can be used again; the whole file is the model's trie file              *)
(* ====================================================================================== *)
Lemma move_prefix_Inv18 : forall p wt ws s, Inv18 s -> Inv18 (fst (move_prefix p wt ws s)).
Proof. intros p wt ws s H. exact (Tr_inv _ _ _ (move_prefix_Tr p wt ws s H)). Qed.
Lemma move_prefix_root_first : forall p wt ws s, Inv18 s -> root_first s -> root_first (fst (move_prefix p wt ws s)).
Proof. intros p wt ws s Hinv Hr. apply Q_root_first, move_prefix_Q, root_first_Q; assumption. Qed.
Lemma delete_webentity_Inv18 : forall w ps s, Inv18 s -> Inv18 (fst (delete_webentity w ps s)).
Proof. intros w ps s H. exact (Tr_inv _ _ _ (delete_webentity_Tr w ps s H)). Qed.
Lemma delete_webentity_root_first : forall w ps s, Inv18 s -> root_first s -> root_first (fst (delete_webentity w ps s)).
Proof. intros w ps s Hinv Hr. apply Q_root_first, delete_webentity_Q, root_first_Q; assumption. Qed.

(* with GenTraphWFacts.hrep_file: whenever one of the four requests answers, the bytes of the storage are the trie file of the
   model's next state *)
Corollary py_traph_delete_webentity_file : forall s, Inv18 s -> root_first s -> forall hd sg w ps,
  hrep s hd sg -> Forall wf_lru ps ->
  forall hd' sg' b, py_traph_delete_webentity hd sg w ps true = Some (hd', sg', b) ->
  snd (delete_webentity w ps s) = Ok /\ pm_array sg' = trie_file (fst (delete_webentity w ps s)).
Proof.
  intros s Hinv Hroot hd sg w ps Hh Hwf hd' sg' b E.
  pose proof (py_traph_delete_webentity_spec s Hinv Hroot hd sg w ps Hh Hwf) as HA. cbv zeta in HA.
  destruct (snd (delete_webentity w ps s)) as [| | |k cr].
  - rewrite HA in E. discriminate E.
  - destruct HA.
  - destruct HA as (hd2 & sg2 & E2 & Hh2). rewrite E2 in E. injection E as <- <- _.
    split; [reflexivity|exact (hrep_file _ _ _ Hh2)].
  - destruct HA.
Qed.

(* ====================================================================================== *)
(* 7. non-vacuity: the translated code run on the bytes of the trie file of PropsEx.exs   *)
(* ====================================================================================== *)
From Traph Require PropsEx IdFacts.

(* (what the code returns: the boolean, and whether the bytes are the trie file of the model's next state; the model's reply) *)
Definition cmp (r : option (py_thdr * py_pm * bool)) (m : traph * reply) : option (bool * bool) * reply :=
  (match r with
   | Some (hd', sg', b) => Some (b, Bytes.beq (pm_array sg') (trie_file (fst m)))
   | None => None
   end, snd m).

(* in the example state the prefix ex_px belongs to webentity 3, ex_pa to webentity 1, ex_pxy and newp to none (newp is not in
   the trie) *)
Example ex_state :
  lastwe PropsEx.exs = 3 /\
  option_map (fun d => we d) (find (lru_iter PropsEx.ex_px) (tr PropsEx.exs)) = Some 3 /\
  option_map (fun d => we d) (find (lru_iter PropsEx.ex_pxy) (tr PropsEx.exs)) = Some 0 /\
  option_map (fun d => we d) (find (lru_iter IdFacts.ex_pa) (tr PropsEx.exs)) = Some 1 /\
  find (lru_iter newp) (tr PropsEx.exs) = None.
Proof. vm_compute. repeat split; reflexivity. Qed.

(* add_prefix_to_webentity: a prefix not yet in the trie (nodes appended, then the register written), a known node without
   webentity (one block rewritten), a prefix that is taken (TraphException) *)
Example ex_add_prefix_new :
  cmp (py_traph_add_prefix_to_webentity hd0 ex_sg newp 7) (add_prefix newp 7 PropsEx.exs) = (Some (true, true), Ok) /\
  option_map (fun d => we d) (find (lru_iter newp) (tr (fst (add_prefix newp 7 PropsEx.exs)))) = Some 7.
Proof. vm_compute. split; reflexivity. Qed.
Example ex_add_prefix_known :
  cmp (py_traph_add_prefix_to_webentity hd0 ex_sg PropsEx.ex_pxy 7) (add_prefix PropsEx.ex_pxy 7 PropsEx.exs) = (Some (true, true), Ok) /\
  Bytes.beq (trie_file (fst (add_prefix PropsEx.ex_pxy 7 PropsEx.exs))) (trie_file PropsEx.exs) = false.
Proof. vm_compute. split; reflexivity. Qed.
Example ex_add_prefix_refused :
  cmp (py_traph_add_prefix_to_webentity hd0 ex_sg PropsEx.ex_px 7) (add_prefix PropsEx.ex_px 7 PropsEx.exs) = (None, Refused).
Proof. vm_compute. reflexivity. Qed.

(* remove_prefix_from_webentity: with the right id, with the default False (0: no check), with a wrong id (TraphException), on a
   prefix that is not in the trie (created by add_lru, then cleared / refused) *)
Example ex_remove_prefix_ok :
  cmp (py_traph_remove_prefix_from_webentity hd0 ex_sg PropsEx.ex_px 3) (remove_prefix PropsEx.ex_px 3 PropsEx.exs) = (Some (true, true), Ok) /\
  option_map (fun d => we d) (find (lru_iter PropsEx.ex_px) (tr (fst (remove_prefix PropsEx.ex_px 3 PropsEx.exs)))) = Some 0.
Proof. vm_compute. split; reflexivity. Qed.
Example ex_remove_prefix_nocheck :
  cmp (py_traph_remove_prefix_from_webentity hd0 ex_sg PropsEx.ex_px 0) (remove_prefix PropsEx.ex_px 0 PropsEx.exs) = (Some (true, true), Ok) /\
  cmp (py_traph_remove_prefix_from_webentity hd0 ex_sg newp 0) (remove_prefix newp 0 PropsEx.exs) = (Some (true, true), Ok).
Proof. vm_compute. split; reflexivity. Qed.
Example ex_remove_prefix_refused :
  cmp (py_traph_remove_prefix_from_webentity hd0 ex_sg PropsEx.ex_px 2) (remove_prefix PropsEx.ex_px 2 PropsEx.exs) = (None, Refused) /\
  cmp (py_traph_remove_prefix_from_webentity hd0 ex_sg newp 2) (remove_prefix newp 2 PropsEx.exs) = (None, Refused).
Proof. vm_compute. split; reflexivity. Qed.

(* move_prefix_to_webentity: from the right source, from a wrong source (TraphException) *)
Example ex_move_prefix_ok :
  cmp (py_traph_move_prefix_to_webentity hd0 ex_sg PropsEx.ex_px 9 3) (move_prefix PropsEx.ex_px 9 3 PropsEx.exs) = (Some (true, true), Ok) /\
  option_map (fun d => we d) (find (lru_iter PropsEx.ex_px) (tr (fst (move_prefix PropsEx.ex_px 9 3 PropsEx.exs)))) = Some 9.
Proof. vm_compute. split; reflexivity. Qed.
Example ex_move_prefix_refused :
  cmp (py_traph_move_prefix_to_webentity hd0 ex_sg PropsEx.ex_px 9 2) (move_prefix PropsEx.ex_px 9 2 PropsEx.exs) = (None, Refused).
Proof. vm_compute. reflexivity. Qed.

(* delete_webentity: a prefix given twice (one entry in the dict, one write), a wrong id, a prefix that is not in the trie, a
   prefix without webentity asked with id 0 (refused like every prefix then), no prefix at all *)
Example ex_delete_ok :
  cmp (py_traph_delete_webentity hd0 ex_sg 3 [PropsEx.ex_px; PropsEx.ex_px] true)
      (delete_webentity 3 [PropsEx.ex_px; PropsEx.ex_px] PropsEx.exs) = (Some (true, true), Ok) /\
  option_map (fun d => we d) (find (lru_iter PropsEx.ex_px) (tr (fst (delete_webentity 3 [PropsEx.ex_px; PropsEx.ex_px] PropsEx.exs)))) = Some 0 /\
  Bytes.beq (trie_file (fst (delete_webentity 3 [PropsEx.ex_px; PropsEx.ex_px] PropsEx.exs))) (trie_file PropsEx.exs) = false.
Proof. vm_compute. repeat split; reflexivity. Qed.
Example ex_delete_refused :
  cmp (py_traph_delete_webentity hd0 ex_sg 2 [PropsEx.ex_px] true) (delete_webentity 2 [PropsEx.ex_px] PropsEx.exs) = (None, Refused) /\
  cmp (py_traph_delete_webentity hd0 ex_sg 3 [PropsEx.ex_px; newp] true) (delete_webentity 3 [PropsEx.ex_px; newp] PropsEx.exs) = (None, Refused) /\
  cmp (py_traph_delete_webentity hd0 ex_sg 0 [PropsEx.ex_pxy] true) (delete_webentity 0 [PropsEx.ex_pxy] PropsEx.exs) = (None, Refused).
Proof. vm_compute. repeat split; reflexivity. Qed.
Example ex_delete_nothing :
  cmp (py_traph_delete_webentity hd0 ex_sg 3 [] true) (delete_webentity 3 [] PropsEx.exs) = (Some (true, true), Ok).
Proof. vm_compute. reflexivity. Qed.
(* two webentities' prefixes in one call are refused; two prefixes of distinct nodes carrying the same id are both cleared *)
Example ex_delete_two :
  let s1 := fst (add_prefix PropsEx.ex_pxy 3 PropsEx.exs) in
  match py_traph_add_prefix_to_webentity hd0 ex_sg PropsEx.ex_pxy 3 with
  | Some (hd1, sg1, _) =>
      cmp (py_traph_delete_webentity hd1 sg1 3 [PropsEx.ex_pxy; PropsEx.ex_px; PropsEx.ex_pxy] true)
          (delete_webentity 3 [PropsEx.ex_pxy; PropsEx.ex_px; PropsEx.ex_pxy] s1) = (Some (true, true), Ok) /\
      cmp (py_traph_delete_webentity hd1 sg1 3 [PropsEx.ex_pxy; IdFacts.ex_pa] true)
          (delete_webentity 3 [PropsEx.ex_pxy; IdFacts.ex_pa] s1) = (None, Refused)
  | None => False
  end.
Proof. vm_compute. split; reflexivity. Qed.

(* the theorems instantiated on the example: all their hypotheses hold there *)
Example ex_add_prefix_applies :
  exists hd' sg', py_traph_add_prefix_to_webentity hd0 ex_sg newp 7 = Some (hd', sg', true) /\
    hrep (fst (add_prefix newp 7 PropsEx.exs)) hd' sg'.
Proof.
  destruct ex_inv as [Hinv Hroot].
  pose proof (py_traph_add_prefix_spec PropsEx.exs Hinv Hroot hd0 ex_sg newp 7 ex_hrep ltac:(PropsEx.wf_lru_tac)
                ltac:(reflexivity) ltac:(vm_compute; reflexivity)) as HA. cbv zeta in HA.
  assert (Ea : snd (add_prefix newp 7 PropsEx.exs) = Ok) by (vm_compute; reflexivity).
  rewrite Ea in HA. exact HA.
Qed.
Example ex_move_prefix_applies :
  exists hd' sg', py_traph_move_prefix_to_webentity hd0 ex_sg PropsEx.ex_px 9 3 = Some (hd', sg', true) /\
    hrep (fst (move_prefix PropsEx.ex_px 9 3 PropsEx.exs)) hd' sg'.
Proof.
  destruct ex_inv as [Hinv Hroot].
  pose proof (py_traph_move_prefix_spec PropsEx.exs Hinv Hroot hd0 ex_sg PropsEx.ex_px 9 3 ex_hrep ltac:(PropsEx.wf_lru_tac)
                ltac:(reflexivity) ltac:(vm_compute; reflexivity)) as HA. cbv zeta in HA.
  assert (Ea : snd (move_prefix PropsEx.ex_px 9 3 PropsEx.exs) = Ok) by (vm_compute; reflexivity).
  rewrite Ea in HA. exact HA.
Qed.
Example ex_delete_applies :
  exists hd' sg', py_traph_delete_webentity hd0 ex_sg 3 [PropsEx.ex_px; PropsEx.ex_px] true = Some (hd', sg', true) /\
    hrep (fst (delete_webentity 3 [PropsEx.ex_px; PropsEx.ex_px] PropsEx.exs)) hd' sg'.
Proof.
  destruct ex_inv as [Hinv Hroot].
  assert (Hwf : Forall wf_lru [PropsEx.ex_px; PropsEx.ex_px]) by (repeat constructor; PropsEx.wf_lru_tac).
  pose proof (py_traph_delete_webentity_spec PropsEx.exs Hinv Hroot hd0 ex_sg 3 _ ex_hrep Hwf) as HA. cbv zeta in HA.
  assert (Ea : snd (delete_webentity 3 [PropsEx.ex_px; PropsEx.ex_px] PropsEx.exs) = Ok) by (vm_compute; reflexivity).
  rewrite Ea in HA. exact HA.
Qed.

Print Assumptions py_traph_add_prefix_spec.
Print Assumptions py_traph_remove_prefix_spec.
Print Assumptions py_traph_move_prefix_spec.
Print Assumptions py_traph_delete_webentity_spec.
Print Assumptions py_traph_add_prefix_full.
Print Assumptions py_traph_remove_prefix_full.
Print Assumptions py_traph_delete_webentity_file.
Print Assumptions ex_add_prefix_applies.
Print Assumptions ex_move_prefix_applies.
Print Assumptions ex_delete_applies.
