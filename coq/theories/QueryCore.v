(* QueryCore.v — under [Rcore s a] the read requests of the model answer what the
   specification dictates.  Part 1: basics (paths of the tree are well-formed LRUs),
   Q01 enumeration of pages, Q02 findability, Q04 resolution, Q06 potential prefix. *)
From Coq Require Import List NArith Bool Lia Arith Permutation.
Import ListNotations.
From Traph Require Import Bytes Consts Helpers Rules Tst TstDefs Traph Spec Ops RefDefs TstFacts.
Open Scope N_scope.

(* ====================================================================== *)
(* List utilities                                                         *)
(* ====================================================================== *)

Lemma NoDup_map_inj_in : forall (A B : Type) (f : A -> B) (l : list A),
  (forall x y, In x l -> In y l -> f x = f y -> x = y) -> NoDup l -> NoDup (map f l).
Proof.
  intros A B f l Hinj Hnd. induction Hnd as [|x l Hx Hnd IH]; [constructor|].
  cbn [map]. constructor.
  - intro Hin. apply in_map_iff in Hin. destruct Hin as (y & Hy & Hin).
    assert (E : y = x) by (apply Hinj; [right; exact Hin|left; reflexivity|exact Hy]).
    subst y. auto.
  - apply IH. intros u v Hu Hv. apply Hinj; right; assumption.
Qed.

Lemma NoDup_map_filter : forall (A B : Type) (g : A -> B) (f : A -> bool) (l : list A),
  NoDup (map g l) -> NoDup (map g (filter f l)).
Proof.
  intros A B g f l. induction l as [|x l IH]; intro H; [constructor|].
  cbn [map] in H. inversion H as [|y l' Hx Hnd]; subst.
  cbn [filter]. destruct (f x); [|apply IH; exact Hnd].
  cbn [map]. constructor; [|apply IH; exact Hnd].
  intro Hin. apply Hx. apply in_map_iff in Hin. destruct Hin as (z & Hz & Hin).
  apply filter_In in Hin. apply in_map_iff. exists z. split; [exact Hz|apply Hin].
Qed.

Lemma NoDup_fst_pairs : forall (A B : Type) (l : list (A * B)), NoDup (map fst l) -> NoDup l.
Proof. intros A B l H. apply NoDup_map_inv in H. exact H. Qed.

Lemma last_app_ne : forall (A : Type) (l1 l2 : list A) d, l2 <> [] -> last (l1 ++ l2) d = last l2 d.
Proof.
  intros A l1 l2 d Hne. induction l1 as [|x l1 IH]; [reflexivity|].
  cbn [app]. destruct (l1 ++ l2) as [|y l'] eqn:E.
  - apply app_eq_nil in E. destruct E as [_ E]. contradiction.
  - cbn [last]. exact IH.
Qed.

Lemma mem_bytes_In : forall x l, mem_bytes x l = true <-> In x l.
Proof.
  intros x l. induction l as [|y l IH]; cbn [mem_bytes In].
  - split; [discriminate|intros []].
  - rewrite orb_true_iff, IH, beq_eq. split; intros [H|H]; auto.
Qed.

Lemma mem_bytes_false : forall x l, mem_bytes x l = false <-> ~ In x l.
Proof.
  intros x l. rewrite <- mem_bytes_In. destruct (mem_bytes x l); split; congruence.
Qed.

Lemma beq_refl : forall x, beq x x = true.
Proof. intro x. apply beq_eq. reflexivity. Qed.

(* ---- association lists ---------------------------------------------------- *)
Lemma aget_In : forall (A : Type) k (v : A) l,
  NoDup (map fst l) -> In (k, v) l -> aget k l = Some v.
Proof.
  intros A k v l. induction l as [|[k' v'] l IH]; intros Hnd Hin; [destruct Hin|].
  cbn [map fst] in Hnd. inversion Hnd as [|y l' Hk Hnd']; subst.
  cbn [aget]. destruct Hin as [E|Hin].
  - injection E as -> ->. rewrite beq_refl. reflexivity.
  - destruct (beq k k') eqn:E.
    + apply beq_eq in E. subst k'. exfalso. apply Hk. apply in_map_iff.
      exists (k, v). split; [reflexivity|exact Hin].
    + apply IH; assumption.
Qed.

Lemma aget_Some_In : forall (A : Type) k (v : A) l, aget k l = Some v -> In (k, v) l.
Proof.
  intros A k v l. induction l as [|[k' v'] l IH]; cbn [aget]; [discriminate|].
  destruct (beq k k') eqn:E.
  - apply beq_eq in E. subst k'. intro H. injection H as ->. left. reflexivity.
  - intro H. right. apply IH. exact H.
Qed.

(* ====================================================================== *)
(* Basics: the paths of a well-formed tree are stem lists of well-formed LRUs *)
(* ====================================================================== *)

Lemma find_stems_wf : forall p t d, stems_wf t -> find p t = Some d -> Forall wf_stem p.
Proof.
  induction p as [|x p IHp]; intros t d0 Hw; [constructor|].
  induction t as [|d l IHl c _ r IHr].
  - rewrite find_Lf. discriminate.
  - cbn [stems_wf] in Hw. destruct Hw as (Hd & Hl & Hc & Hr).
    rewrite find_Nd. destruct (lex x (stem d)) eqn:E.
    + apply lex_eq in E. subst x. destruct p as [|x2 p2].
      * intros _. constructor; [exact Hd|constructor].
      * intro H. constructor; [exact Hd|]. apply (IHp c d0 Hc H).
    + apply IHl. exact Hl.
    + apply IHr. exact Hr.
Qed.

Lemma wf_stem_ne : forall s, wf_stem s -> s <> [].
Proof. intros s (body & -> & _). destruct body; discriminate. Qed.

Lemma concat_stems_wf_lru : forall p, Forall wf_stem p -> p <> [] -> wf_lru (concat p).
Proof.
  induction p as [|s p IH]; intros Hf Hne; [congruence|].
  inversion Hf as [|s' p' Hs Hp]; subst. cbn [concat].
  destruct p as [|s2 p2].
  - cbn [concat]. rewrite app_nil_r. destruct Hs as (body & -> & _).
    split; [destruct body; discriminate|apply last_last].
  - assert (W : wf_lru (concat (s2 :: p2))) by (apply IH; [exact Hp|discriminate]).
    destruct W as [Wne Wl]. split.
    + intro E. apply app_eq_nil in E. destruct E as [_ E]. contradiction.
    + rewrite last_app_ne by exact Wne. exact Wl.
Qed.

Lemma concat_stems_ne : forall p, Forall wf_stem p -> p <> [] -> concat p <> [].
Proof. intros p Hf Hne. apply (concat_stems_wf_lru p Hf Hne). Qed.

Lemma find_path_lru : forall t p d, wf_tst t -> find p t = Some d ->
  Forall wf_stem p /\ wf_lru (concat p) /\ lru_iter (concat p) = p.
Proof.
  intros t p d [_ Hs] Hf.
  assert (Hw : Forall wf_stem p) by (eapply find_stems_wf; eauto).
  split; [exact Hw|]. split.
  - apply concat_stems_wf_lru; [exact Hw|]. intros ->. rewrite find_nil in Hf. discriminate.
  - apply lru_iter_concat_stems. exact Hw.
Qed.

Lemma all_nodes_find : forall t x d, wf_tst t ->
  (In (x, d) (all_nodes t) <-> exists p, x = concat p /\ find p t = Some d).
Proof.
  intros t x d Hw. rewrite all_nodes_paths, in_map_iff. split.
  - intros ([p d'] & E & Hin). cbn [fst snd] in E. injection E as <- <-.
    exists p. split; [reflexivity|]. apply paths_find; assumption.
  - intros (p & -> & Hf). exists (p, d). split; [reflexivity|]. apply paths_find; assumption.
Qed.

Lemma all_nodes_nodup : forall t, wf_tst t -> NoDup (map fst (all_nodes t)).
Proof.
  intros t Hw.
  assert (E : map fst (all_nodes t) = map (@concat N) (map fst (paths [] t))).
  { rewrite all_nodes_paths, !map_map. reflexivity. }
  rewrite E. apply NoDup_map_inj_in; [|apply paths_nodup; exact Hw].
  intros p q Hp Hq Hc.
  apply in_map_iff in Hp. destruct Hp as ([p' dp] & <- & Hp).
  apply in_map_iff in Hq. destruct Hq as ([q' dq] & <- & Hq).
  cbn [fst] in *.
  apply paths_find in Hp; [|exact Hw]. apply paths_find in Hq; [|exact Hw].
  destruct Hw as [_ Hs].
  apply concat_stems_inj; [eapply find_stems_wf; eauto|eapply find_stems_wf; eauto|exact Hc].
Qed.

(* ---- non-empty prefixes ---------------------------------------------------- *)
Lemma nprefixes_in : forall ss pre q,
  In q (nprefixes pre ss) <-> exists u v, u <> [] /\ ss = u ++ v /\ q = pre ++ u.
Proof.
  induction ss as [|s r IH]; intros pre q; cbn [nprefixes In].
  - split; [intros []|]. intros (u & v & Hu & E & _). symmetry in E.
    apply app_eq_nil in E. destruct E as [E _]. contradiction.
  - rewrite IH. split.
    + intros [<-|(u & v & Hu & -> & ->)].
      * exists [s], r. split; [discriminate|]. split; reflexivity.
      * exists (s :: u), v. split; [discriminate|]. split; [reflexivity|].
        rewrite <- app_assoc. reflexivity.
    + intros (u & v & Hu & E & ->). destruct u as [|x u]; [congruence|].
      cbn [app] in E. injection E as <- ->. destruct u as [|y u].
      * left. reflexivity.
      * right. exists (y :: u), v. split; [discriminate|]. split; [reflexivity|].
        rewrite <- app_assoc. reflexivity.
Qed.

Lemma nprefixes_in0 : forall ss q,
  In q (nprefixes [] ss) <-> q <> [] /\ exists v, ss = q ++ v.
Proof.
  intros ss q. rewrite nprefixes_in. split.
  - intros (u & v & Hu & -> & ->). split; [exact Hu|]. exists v. reflexivity.
  - intros (Hq & v & ->). exists q, v. auto.
Qed.

Lemma prefixes_from_nprefixes : forall ss pre,
  prefixes_from (concat pre) ss = map (@concat N) (nprefixes pre ss).
Proof.
  induction ss as [|s r IH]; intro pre; [reflexivity|].
  cbn [prefixes_from nprefixes map]. rewrite <- concat_snoc, IH. reflexivity.
Qed.

Lemma stem_prefixes_eq : forall l,
  stem_prefixes l = map (@concat N) (nprefixes [] (lru_iter l)).
Proof. intro l. exact (prefixes_from_nprefixes (lru_iter l) []). Qed.

Lemma prefix_stems : forall l q, In q (nprefixes [] (lru_iter l)) ->
  q <> [] /\ Forall wf_stem q /\ wf_lru (concat q) /\ lru_iter (concat q) = q.
Proof.
  intros l q Hq. apply nprefixes_in0 in Hq. destruct Hq as (Hne & v & E).
  assert (Hw : Forall wf_stem q).
  { pose proof (lru_iter_wf l) as H. rewrite E in H. apply Forall_app in H. apply H. }
  split; [exact Hne|]. split; [exact Hw|]. split.
  - apply concat_stems_wf_lru; assumption.
  - apply lru_iter_concat_stems. exact Hw.
Qed.

(* ---- the abstract history as one fold -------------------------------------- *)
Definition astep (a : astate) (h : hist) (x : bytes) : hist :=
  let h1 := match aget x (a_pref a) with
            | Some w => mkHist w x (Some (blen x)) (h_rules h)
            | None => h
            end in
  if mem_bytes x (a_flags a)
  then mkHist (h_we h1) (h_pref h1) (h_pos h1) (h_rules h1 ++ [blen x]) else h1.

Definition hist_mk (best : option (bytes * N)) (anc : list N) : hist :=
  match best with
  | Some (p, w) => mkHist w p (Some (blen p)) anc
  | None => mkHist 0 [] None anc
  end.

Lemma astep_fold : forall a L best anc,
  fold_left (astep a) L (hist_mk best anc) =
  hist_mk (fold_left (fun best p => match aget p (a_pref a) with Some w => Some (p, w) | None => best end)
                     L best)
          (anc ++ map blen (filter (fun p => mem_bytes p (a_flags a)) L)).
Proof.
  intros a L. induction L as [|x L IH]; intros best anc.
  - cbn [fold_left filter map]. rewrite app_nil_r. reflexivity.
  - cbn [fold_left filter].
    assert (E : astep a (hist_mk best anc) x =
                hist_mk (match aget x (a_pref a) with Some w => Some (x, w) | None => best end)
                        (if mem_bytes x (a_flags a) then anc ++ [blen x] else anc)).
    { unfold astep. destruct (aget x (a_pref a)) as [w|]; destruct best as [[p w']|];
        destruct (mem_bytes x (a_flags a)); reflexivity. }
    rewrite E, IH. f_equal.
    destruct (mem_bytes x (a_flags a)); [|reflexivity].
    cbn [map]. rewrite <- app_assoc. reflexivity.
Qed.

Lemma ahist_fold : forall a l, ahist a l = fold_left (astep a) (stem_prefixes l) hist0.
Proof.
  intros a l. change hist0 with (hist_mk None []). rewrite astep_fold.
  unfold ahist, resolve. cbn [app].
  destruct (fold_left _ (stem_prefixes l) None) as [[p w]|]; reflexivity.
Qed.

Lemma resolve_fold_In : forall (pref : list (bytes * N)) L best p w,
  fold_left (fun best p => match aget p pref with Some w => Some (p, w) | None => best end) L best
    = Some (p, w) -> best = Some (p, w) \/ In (p, w) pref.
Proof.
  intros pref L. induction L as [|x L IH]; intros best p w; cbn [fold_left]; [auto|].
  intro H. apply IH in H. destruct H as [H|H]; [|auto].
  destruct (aget x pref) as [w'|] eqn:E; [|auto].
  injection H as <- <-. right. apply aget_Some_In. exact E.
Qed.

Lemma resolve_In : forall pref l p w, resolve pref l = Some (p, w) -> In (p, w) pref.
Proof.
  intros pref l p w H. apply resolve_fold_In in H. destruct H as [H|H]; [discriminate|exact H].
Qed.

(* decide only reads the RAM rules *)
Lemma decide_ext : forall s s' l h, rules s = rules s' -> dflt s = dflt s' ->
  decide s l h = decide s' l h.
Proof. intros s s' l h Hr Hd. unfold decide. rewrite Hr, Hd. reflexivity. Qed.

(* ====================================================================== *)
(* The query theorems                                                     *)
(* ====================================================================== *)
Section Core.
  Variables (s : traph) (a : astate).
  Hypothesis HR : Rcore s a.

  Let Hwf : wf_tst (tr s) := R_wf s a HR.

  Lemma find_nodeof : forall p d, find p (tr s) = Some d ->
    wf_lru (concat p) /\ nodeof s (concat p) = Some d.
  Proof.
    intros p d Hf. destruct (find_path_lru _ _ _ Hwf Hf) as (_ & Hl & Hi).
    split; [exact Hl|]. unfold nodeof. rewrite Hi. exact Hf.
  Qed.

  Lemma all_nodes_nodeof : forall x d,
    In (x, d) (all_nodes (tr s)) <-> wf_lru x /\ nodeof s x = Some d.
  Proof.
    intros x d. rewrite all_nodes_find by exact Hwf. split.
    - intros (p & -> & Hf). apply find_nodeof. exact Hf.
    - intros (Hl & Hn). exists (lru_iter x). split; [|exact Hn].
      symmetry. apply lru_iter_concat. exact Hl.
  Qed.

  Lemma all_nodes_keys_nodup : NoDup (map fst (all_nodes (tr s))).
  Proof. apply all_nodes_nodup. exact Hwf. Qed.

  (* ---- Q01: enumeration of pages ------------------------------------------ *)
  Theorem pages_iter_spec : forall l c, In (l, c) (pages_iter s) <-> In (l, c) (a_pages a).
  Proof.
    intros l c. unfold pages_iter. rewrite in_map_iff. split.
    - intros ([x d] & E & Hin). cbn [fst snd] in E. injection E as -> <-.
      apply filter_In in Hin. destruct Hin as [Hin Hp]. cbn [snd] in Hp.
      apply all_nodes_nodeof in Hin. destruct Hin as [Hl Hn].
      apply (R_pages s a HR); [exact Hl|]. exists d. auto.
    - intro Hin.
      assert (Hl : wf_lru l).
      { pose proof (R_pages_wf s a HR) as H. rewrite Forall_forall in H. apply (H _ Hin). }
      apply (R_pages s a HR) in Hin; [|exact Hl]. destruct Hin as (d & Hn & Hp & Hc).
      exists (l, d). cbn [fst snd]. split; [rewrite Hc; reflexivity|].
      apply filter_In. split; [|exact Hp]. apply all_nodes_nodeof. auto.
  Qed.

  Theorem pages_iter_nodup : NoDup (map fst (pages_iter s)).
  Proof.
    unfold pages_iter. rewrite map_map. cbn [fst].
    apply (NoDup_map_filter _ _ (@fst bytes nd)). exact all_nodes_keys_nodup.
  Qed.

  Theorem pages_iter_perm : Permutation (pages_iter s) (a_pages a).
  Proof.
    apply NoDup_Permutation.
    - apply NoDup_fst_pairs. exact pages_iter_nodup.
    - apply NoDup_fst_pairs. apply (R_pages_nodup s a HR).
    - intros [l c]. apply pages_iter_spec.
  Qed.

  (* ---- Q02: findability ---------------------------------------------------- *)
  Theorem dfs_known : set_eq (map fst (all_nodes (tr s))) (a_known a)
                      /\ NoDup (map fst (all_nodes (tr s))).
  Proof.
    split; [|exact all_nodes_keys_nodup].
    intro x. rewrite in_map_iff. split.
    - intros ([x' d] & E & Hin). cbn [fst] in E. subst x'.
      apply all_nodes_nodeof in Hin. destruct Hin as [Hl Hn].
      apply (R_known s a HR); [exact Hl|]. rewrite Hn. discriminate.
    - intro Hin.
      assert (Hl : wf_lru x).
      { pose proof (R_known_wf s a HR) as H. rewrite Forall_forall in H. apply (H _ Hin). }
      apply (R_known s a HR) in Hin; [|exact Hl].
      destruct (nodeof s x) as [d|] eqn:En; [|congruence].
      exists (x, d). split; [reflexivity|]. apply all_nodes_nodeof. auto.
  Qed.

  Theorem find_known : forall l, wf_lru l -> (nodeof s l <> None <-> In l (a_known a)).
  Proof. exact (R_known s a HR). Qed.

  Theorem windup : addr_ok (tr s) (nb s) -> forall l d, wf_lru l ->
    nodeof s l = Some d -> lru_at (addr d) s = l.
  Proof.
    intros [_ Hinj] l d Hl Hn. unfold lru_at, node_at.
    destruct (List.find (fun p => addr (snd p) =? addr d) (all_nodes (tr s))) as [[l' d']|] eqn:E.
    - apply find_some in E. destruct E as [Hin Ha]. cbn [snd] in Ha. apply N.eqb_eq in Ha.
      apply all_nodes_find in Hin; [|exact Hwf]. destruct Hin as (p & -> & Hf).
      unfold nodeof in Hn. rewrite (Hinj _ _ _ _ Hf Hn Ha).
      apply lru_iter_concat. exact Hl.
    - exfalso. assert (Hin : In (l, d) (all_nodes (tr s))) by (apply all_nodes_nodeof; auto).
      apply (find_none _ _ E) in Hin. cbn [snd] in Hin. rewrite N.eqb_refl in Hin. discriminate.
  Qed.

  (* ---- Q04: resolution ----------------------------------------------------- *)
  Lemma aget_pref : forall x, wf_lru x ->
    aget x (a_pref a) =
    match nodeof s x with
    | Some d => if we d =? 0 then None else Some (we d)
    | None => None
    end.
  Proof.
    intros x Hx. destruct (aget x (a_pref a)) as [w|] eqn:E.
    - apply aget_Some_In in E. apply (R_pref s a HR) in E; [|exact Hx].
      destruct E as (d & -> & <- & Hw). apply N.eqb_neq in Hw. rewrite Hw. reflexivity.
    - destruct (nodeof s x) as [d|] eqn:En; [|reflexivity].
      destruct (N.eqb_spec (we d) 0) as [|Hne]; [reflexivity|].
      assert (Hin : In (x, we d) (a_pref a)).
      { apply (R_pref s a HR); [exact Hx|]. exists d. auto. }
      apply aget_In in Hin; [congruence|apply (R_pref_nodup s a HR)].
  Qed.

  Lemma mem_flags : forall x, wf_lru x ->
    mem_bytes x (a_flags a) = match nodeof s x with Some d => rule d | None => false end.
  Proof.
    intros x Hx. destruct (mem_bytes x (a_flags a)) eqn:E.
    - apply mem_bytes_In in E. apply (R_flags s a HR) in E; [|exact Hx].
      destruct E as (d & -> & Hr). symmetry. exact Hr.
    - apply mem_bytes_false in E.
      destruct (nodeof s x) as [d|] eqn:En; [|reflexivity].
      destruct (rule d) eqn:Er; [|reflexivity].
      exfalso. apply E. apply (R_flags s a HR); [exact Hx|]. exists d. auto.
  Qed.

  Lemma astep_visit : forall q h, wf_lru (concat q) -> lru_iter (concat q) = q ->
    astep a h (concat q) =
    match find q (tr s) with Some d => visit d (concat q) h | None => h end.
  Proof.
    intros q h Hl Hi. unfold astep. rewrite aget_pref, mem_flags by exact Hl.
    unfold nodeof. rewrite Hi. destruct (find q (tr s)) as [d|]; [|reflexivity].
    unfold visit. destruct (we d =? 0); destruct (rule d); reflexivity.
  Qed.

  (* Q06, first half: the walk history is the one the specification computes
     (no hypothesis on l is needed: both sides only look at [lru_iter l]) *)
  Theorem hist_spec_gen : forall l, q_follow l s = ahist a l.
  Proof.
    intro l. unfold q_follow. rewrite follow_hist, ahist_fold, stem_prefixes_eq.
    unfold hist_of. symmetry. apply fold_left_map_in.
    intros h q Hq. apply prefix_stems in Hq. destruct Hq as (_ & _ & Hl & Hi).
    apply astep_visit; assumption.
  Qed.

  Theorem hist_spec : forall l, wf_lru l -> q_follow l s = ahist a l.
  Proof. intros l _. apply hist_spec_gen. Qed.

  Lemma resolve_hit : forall l p w, resolve (a_pref a) l = Some (p, w) -> wf_lru p /\ w <> 0.
  Proof.
    intros l p w H. apply resolve_In in H.
    assert (Hl : wf_lru p).
    { pose proof (R_pref_wf s a HR) as HF. rewrite Forall_forall in HF. apply (HF _ H). }
    split; [exact Hl|]. apply (R_pref s a HR) in H; [|exact Hl].
    destruct H as (d & _ & _ & Hw). exact Hw.
  Qed.

  Theorem retrieve_webentity_spec_gen : forall l, retrieve_webentity l s = s_resolve_we l a.
  Proof.
    intro l. unfold retrieve_webentity, s_resolve_we. rewrite hist_spec_gen. unfold ahist.
    destruct (resolve (a_pref a) l) as [[p w]|] eqn:E; cbn [h_we]; [|reflexivity].
    apply resolve_hit in E. destruct E as [_ Hw]. apply N.eqb_neq in Hw. rewrite Hw. reflexivity.
  Qed.

  Theorem retrieve_webentity_spec : forall l, wf_lru l -> retrieve_webentity l s = s_resolve_we l a.
  Proof. intros l _. apply retrieve_webentity_spec_gen. Qed.

  Theorem retrieve_prefix_spec_gen : forall l, retrieve_prefix l s = s_resolve_prefix l a.
  Proof.
    intro l. unfold retrieve_prefix, s_resolve_prefix. rewrite hist_spec_gen. unfold ahist.
    destruct (resolve (a_pref a) l) as [[p w]|] eqn:E; cbn [h_pref]; [|reflexivity].
    apply resolve_hit in E. destruct E as [[Hne _] _]. destruct p; [congruence|reflexivity].
  Qed.

  Theorem retrieve_prefix_spec : forall l, wf_lru l -> retrieve_prefix l s = s_resolve_prefix l a.
  Proof. intros l _. apply retrieve_prefix_spec_gen. Qed.

  Theorem webentity_by_prefix_spec : forall p, wf_lru p ->
    webentity_by_prefix p s = match aget p (a_pref a) with Some w => ROk w | None => RRefused end.
  Proof.
    intros p Hp. unfold webentity_by_prefix. rewrite aget_pref by exact Hp. unfold nodeof.
    destruct (find (lru_iter p) (tr s)) as [d|]; [|reflexivity].
    destruct (we d =? 0); reflexivity.
  Qed.

  Theorem prefix_iter_spec : forall l w, In (l, w) (prefix_iter s) <-> In (l, w) (a_pref a).
  Proof.
    intros l w. unfold prefix_iter. rewrite in_map_iff. split.
    - intros ([x d] & E & Hin). cbn [fst snd] in E. injection E as -> <-.
      apply filter_In in Hin. destruct Hin as [Hin Hp]. cbn [snd] in Hp.
      apply negb_true_iff, N.eqb_neq in Hp.
      apply all_nodes_nodeof in Hin. destruct Hin as [Hl Hn].
      apply (R_pref s a HR); [exact Hl|]. exists d. auto.
    - intro Hin.
      assert (Hl : wf_lru l).
      { pose proof (R_pref_wf s a HR) as H. rewrite Forall_forall in H. apply (H _ Hin). }
      apply (R_pref s a HR) in Hin; [|exact Hl]. destruct Hin as (d & Hn & Hw & Hne).
      exists (l, d). cbn [fst snd]. split; [rewrite Hw; reflexivity|].
      apply filter_In. split; [apply all_nodes_nodeof; auto|].
      cbn [snd]. apply negb_true_iff, N.eqb_neq. rewrite Hw. exact Hne.
  Qed.

  (* ---- Q06: potential prefix ------------------------------------------------ *)
  Theorem potential_spec_gen : forall l, potential_prefix l s = s_potential l a.
  Proof.
    intro l. unfold potential_prefix, s_potential, adecide. rewrite hist_spec_gen.
    rewrite (decide_ext s (mkT Lf 1 0 [] (a_rules a) (a_dflt a)) l (ahist a l)
                        (R_rules s a HR) (R_dflt s a HR)).
    reflexivity.
  Qed.

  Theorem potential_spec : forall l, wf_lru l -> potential_prefix l s = s_potential l a.
  Proof. intros l _. apply potential_spec_gen. Qed.

  (* ---- Q19 (first part) ------------------------------------------------------ *)
  Theorem trie_blocks_spec : nb s = s_trie_blocks a.
  Proof. exact (R_nb s a HR). Qed.
End Core.
