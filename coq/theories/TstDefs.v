(* TstDefs.v — the vocabulary in which the tree lemmas and the refinement are
   stated: well-formed stems, the BST invariant, paths as stem lists. *)
From Coq Require Import List NArith Bool.
From Traph Require Import Bytes Consts Helpers Tst.
Import ListNotations.
Open Scope N_scope.

(* a stem: non-separator bytes closed by one '|' *)
Definition wf_stem (s : bytes) : Prop := exists body, s = body ++ [sep] /\ ~ In sep body.
(* a well-formed LRU: one or more stems *)
Definition wf_lru (l : bytes) : Prop := l <> [] /\ last l 0 = sep.

(* stems of one sibling BST (children not included) *)
Fixpoint sib_stems (t : tst) : list bytes :=
  match t with Lf => [] | Nd d l _ r => sib_stems l ++ stem d :: sib_stems r end.

Fixpoint bst (t : tst) : Prop :=
  match t with
  | Lf => True
  | Nd d l c r =>
      (forall s, In s (sib_stems l) -> lex s (stem d) = Lt) /\
      (forall s, In s (sib_stems r) -> lex s (stem d) = Gt) /\
      bst l /\ bst c /\ bst r
  end.

Fixpoint stems_wf (t : tst) : Prop :=
  match t with
  | Lf => True
  | Nd d l c r => wf_stem (stem d) /\ stems_wf l /\ stems_wf c /\ stems_wf r
  end.

Definition wf_tst (t : tst) : Prop := bst t /\ stems_wf t.

(* every node with its path (list of stems from the top), in dfs order *)
Fixpoint paths (pre : list bytes) (t : tst) : list (list bytes * nd) :=
  match t with
  | Lf => []
  | Nd d l c r =>
      (pre ++ [stem d], d) :: paths (pre ++ [stem d]) c ++ paths pre l ++ paths pre r
  end.

(* non-empty prefixes of a stem list, shortest first *)
Fixpoint nprefixes (pre ss : list bytes) : list (list bytes) :=
  match ss with [] => [] | s :: r => (pre ++ [s]) :: nprefixes (pre ++ [s]) r end.

Fixpoint is_prefix (p ss : list bytes) : bool :=
  match p, ss with
  | [], _ => true
  | _ :: _, [] => false
  | x :: p', y :: ss' => beq x y && is_prefix p' ss'
  end.

(* the history a walk along [ss] gathers, stated through [find] only *)
Definition hist_of (t : tst) (ss : list bytes) : hist :=
  fold_left (fun h p => match find p t with Some d => visit d (concat p) h | None => h end)
            (nprefixes [] ss) hist0.

(* projections of ins *)
Definition ins_t flag ss pre pa nb h t : tst := fst (fst (ins flag ss pre pa nb h t)).
Definition ins_nb flag ss pre pa nb h t : N := snd (fst (ins flag ss pre pa nb h t)).
Definition ins_h flag ss pre pa nb h t : hist := snd (ins flag ss pre pa nb h t).

(* stems of [ss] that are not yet in the tree (last stems of the missing prefixes) *)
Definition missing (t : tst) (ss : list bytes) : list bytes :=
  map (fun p => last p []) (filter (fun p => match find p t with None => true | Some _ => false end)
                                   (nprefixes [] ss)).
