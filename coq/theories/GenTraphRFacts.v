(* GenTraphRFacts.v — the potential-prefix query and the removal of a creation rule translated from the source (GenTraphR.v,
   generated on every run from /repo/traph/traph.py: Traph.get_potential_prefix, remove_webentity_creation_rule; node.py:
   unflag_as_webentity_creation_rule) agree with the model's Traph.potential_prefix / remove_rule on every state with Inv18.
   PLAN
     1. the generated get_potential_prefix re-stated in named pieces (GenTraphPFacts1.rule_step, answer; equality by reflexivity)
     2. py_traph_get_potential_prefix_spec: follow_lru = Tst.follow (GenTrieWFollow), the fold over history.rules_to_apply() =
        Traph.longest_candidate as long as every anchor met has its rule in RAM (GenTraphPFacts1.rules_fold_spec), then the
        ladder against Traph.decide; no byte of the file changes
     3. the anchors met by follow_lru are flagged nodes of the tree: walk_known from anchors_known (follow_anchors_known), the
        theorem under anchors_known, and on `run d rs h` under `resupplied (init d rs) h` (AnchorsFacts.run_anchors_known)
     4. the RAM table: py_rules_del = adel (first match removed, both sides)
     5. unflag(flags, rule) on the registers of a main block = the registers of the block of (set_rule false d)
     6. py_traph_remove_rule_spec: KeyError -> Crash, lru_node None -> TraphException -> Refused (both None), else the block of
        the node is rewritten in place (GenTrieWPage.rewrite_in_place with the soft update set_rule false)
     7. examples by vm_compute, the theorems instantiated. *)
From Coq Require Import List NArith Bool Lia Arith.
Import ListNotations.
From Traph Require Import Bytes Consts Layout Helpers Rules Tst TstDefs Traph Spec Ops RefDefs Traphw TraceDefs Codec CodecFacts
  TstFacts Store StoreFacts StoreFacts2 GenStorage GenNode GenNodeFacts GenTrie GenTrieFacts GenTrieW GenTrieWDefs GenTrieWFollow
  GenTraphW GenTraphP GenTraphPDefs GenTraphPFacts1 GenTraphR.
From Traph Require Import TraceFacts3 TraceFacts4 GenTrieWPage GenTraphPages ViewFacts ViewFacts2 AnchorsFacts.
Open Scope N_scope.

Arguments N.shiftr : simpl never.
Arguments N.shiftl : simpl never.
Arguments N.modulo : simpl never.
Arguments N.div : simpl never.
Arguments N.land : simpl never.
Arguments N.lor : simpl never.
Arguments N.ldiff : simpl never.
Arguments N.mul : simpl never.
Arguments N.add : simpl never.
Arguments N.sub : simpl never.
Arguments N.ltb : simpl never.
Arguments N.eqb : simpl never.
Arguments N.leb : simpl never.
Arguments N.pow : simpl never.

(* ====================================================================================== *)
(* 1. the generated get_potential_prefix in named pieces                                  *)
(* ====================================================================================== *)
(* everything after the loop over the rules: the answer (None = Python's False) *)
Definition answer (rm : py_ram) (sg : py_pm) (v_lru : bytes) (v_history : py_hist) (v_longest_candidate_prefix : bytes)
  : option (py_pm * option bytes) :=
 if (match (hs_webentity_position v_history) with None => false | Some v__p => N.leb (N.of_nat (length v_longest_candidate_prefix)) v__p end)
 then Some (sg, Some (hs_webentity_prefix v_history))
 else if py_nonempty v_longest_candidate_prefix
 then Some (sg, Some v_longest_candidate_prefix)
 else match py_traph_apply_webentity_default_creation_rule rm v_lru with
      | None => None
      | Some None => Some (sg, None)
      | Some (Some p) => if py_nonempty p then Some (sg, Some p) else Some (sg, None)
      end.

Lemma get_potential_prefix_eq : forall rm sg v_lru,
  py_traph_get_potential_prefix rm sg v_lru =
  match py_trie_follow_lru sg v_lru with
  | None => None
  | Some (sg, (v_node, v_history)) =>
      match fold_left (rule_step rm v_lru) (py_hist_rules_to_apply v_history) (Some []) with
      | None => None
      | Some longest => answer rm sg v_lru v_history longest
      end
  end.
Proof.
  intros. unfold py_traph_get_potential_prefix.
  destruct (py_trie_follow_lru sg v_lru) as [[sg1 [n h]]|]; reflexivity.
Qed.

(* ====================================================================================== *)
(* 2. Traph.get_potential_prefix                                                          *)
(* ====================================================================================== *)
Theorem py_traph_get_potential_prefix_spec : forall s, Inv18 s -> root_first s -> forall rm sg lru,
  ramrep s rm -> trep (files_of s) sg -> wf_lru lru ->
  walk_known (rules s) lru (q_follow lru s) ->
  exists sg', py_traph_get_potential_prefix rm sg lru = Some (sg', potential_prefix lru s) /\
    trep (files_of s) sg' /\ pm_array sg' = pm_array sg.
Proof.
  intros s Hinv Hroot rm sg lru [Hrr Hrd] Hrep Hl Hwk.
  destruct (py_trie_follow_lru_spec s Hinv sg lru Hroot Hrep Hl) as (sg' & on & ph & E & Hrep' & Harr' & HH & _).
  fold (q_follow lru s) in HH.
  destruct HH as (Hlru & _ & Hpref & Hpos & Hrules & _).
  exists sg'. split; [|split; assumption].
  rewrite get_potential_prefix_eq, E.
  unfold py_hist_rules_to_apply. rewrite Hlru, Hrules, rules_fold_spec
    by (intros pos Hp; rewrite Hrr; apply Hwk; apply in_rev; exact Hp).
  rewrite Hrr, <- longest_candidate_eq.
  unfold potential_prefix, decide, answer. rewrite Hpos, Hpref.
  set (h := q_follow lru s).
  change (@blen N) with (fun l : bytes => N.of_nat (length l)). cbv beta zeta.
  set (cand := longest_candidate (rules s) lru h).
  destruct (match h_pos h with Some p => N.of_nat (length cand) <=? p | None => false end); [reflexivity|].
  destruct cand as [|x cd]; [|reflexivity].
  cbn [py_nonempty]. unfold py_traph_apply_webentity_default_creation_rule, py_re_search. rewrite Hrd.
  destruct (apply_rule (dflt s) lru) as [[|y dp]|]; reflexivity.
Qed.

(* ====================================================================================== *)
(* 3. the anchors met by follow_lru                                                       *)
(* ====================================================================================== *)
(* the walk of follow_lru only records flagged nodes of the tree *)
Lemma follow_anchors_known : forall lru s, wf_lru lru -> anchors_known s -> walk_known (rules s) lru (q_follow lru s).
Proof.
  intros lru s Hl Hk pos Hpos. unfold q_follow in Hpos.
  rewrite follow_hist, hist_of_nodeof in Hpos.
  destruct (hist_fold_rules s _ _ _ Hpos) as [[]|(x & d & Hx & -> & Hd & Hr)].
  rewrite (bsub_stem_prefix lru x Hl Hx).
  destruct (stem_prefix_path lru x Hx) as (Hwx & _). exact (Hk x d Hwx Hd Hr).
Qed.

(* the same with the condition on the state *)
Corollary py_traph_get_potential_prefix_spec' : forall s, Inv18 s -> root_first s -> anchors_known s -> forall rm sg lru,
  ramrep s rm -> trep (files_of s) sg -> wf_lru lru ->
  exists sg', py_traph_get_potential_prefix rm sg lru = Some (sg', potential_prefix lru s) /\
    trep (files_of s) sg' /\ pm_array sg' = pm_array sg.
Proof.
  intros s Hinv Hroot Hk rm sg lru Hram Hrep Hl.
  apply (py_traph_get_potential_prefix_spec s Hinv Hroot rm sg lru Hram Hrep Hl).
  apply follow_anchors_known; assumption.
Qed.

(* on every state reached by a history whose reopen requests re-supply the rules of the anchors flagged in the file *)
Corollary py_traph_get_potential_prefix_reach : forall d rs h, wf_rules rs -> Forall wf_op h -> resupplied (init d rs) h ->
  let s := run d rs h in
  forall rm sg lru, ramrep s rm -> trep (files_of s) sg -> wf_lru lru ->
  exists sg', py_traph_get_potential_prefix rm sg lru = Some (sg', potential_prefix lru s) /\
    trep (files_of s) sg' /\ pm_array sg' = pm_array sg.
Proof.
  intros d rs h Hrs Hh Hre s.
  apply py_traph_get_potential_prefix_spec';
    [apply run_Inv18; exact Hh|apply run_root_first|apply AnchorsFacts.run_anchors_known; assumption].
Qed.

(* ====================================================================================== *)
(* 4. the RAM table: `del self.webentity_creation_rules[rule_prefix]`                     *)
(* ====================================================================================== *)
(* both remove the first entry with that key *)
Lemma py_rules_del_eq : forall k d, py_rules_del k d = adel k d.
Proof. intros k d. induction d as [|[k' v] d IH]; [reflexivity|]. cbn [py_rules_del adel]. rewrite IH. reflexivity. Qed.

(* ====================================================================================== *)
(* 5. node.unflag_as_webentity_creation_rule()                                            *)
(* ====================================================================================== *)
Lemma flags_unflag_rule : forall d, N.ldiff (flags_of d) (N.shiftl 1 flag_rule) = flags_of (set_rule false d).
Proof.
  intro d. unfold flags_of. cbn [set_rule page crawled rule stem nochild].
  destruct (page d), (crawled d), (rule d), (has_tail_of (stem d)), (nochild d); vm_compute; reflexivity.
Qed.

Lemma unflag_rule_vals : forall d la ra ca,
  py_unflag (tblock_vals (main_block d la ra ca)) (N.of_nat pos_flags) flag_rule =
  tblock_vals (main_block (set_rule false d) la ra ca).
Proof.
  intros d la ra ca. unfold py_unflag.
  change (py_get_num (N.to_nat (N.of_nat pos_flags)) (tblock_vals (main_block d la ra ca))) with (flags_of d).
  rewrite flags_unflag_rule. reflexivity.
Qed.

Lemma unflag_rule_main : forall n d la ra ca, nd_data n = tblock_vals (main_block d la ra ca) ->
  nd_data (py_node_unflag_as_webentity_creation_rule n) = tblock_vals (main_block (set_rule false d) la ra ca).
Proof.
  intros n d la ra ca H. unfold py_node_unflag_as_webentity_creation_rule. cbn [nd_set_data nd_data].
  rewrite H. apply unflag_rule_vals.
Qed.

(* ====================================================================================== *)
(* 6. Traph.remove_webentity_creation_rule                                                *)
(* ====================================================================================== *)
Theorem py_traph_remove_rule_spec : forall s, Inv18 s -> root_first s -> forall rm sg p,
  ramrep s rm -> trep (files_of s) sg -> wf_lru p ->
  let r := remove_rule p s in
  match snd r with
  | Ok => exists rm' sg', py_traph_remove_webentity_creation_rule rm sg p = Some (rm', sg', true) /\
            ramrep (fst r) rm' /\ trep (files_of (fst r)) sg'
  | _ => py_traph_remove_webentity_creation_rule rm sg p = None
  end.
Proof.
  intros s Hinv Hroot rm sg p [Hrr Hrd] Hrep Hp r. unfold r, remove_rule, py_traph_remove_webentity_creation_rule.
  rewrite (py_rules_get_eq p (ram_rules rm)), Hrr.
  destruct (aget p (rules s)) as [k|]; [|reflexivity].
  cbv zeta. cbn [tr].
  destruct (lru_node_full s Hinv Hroot sg p Hrep Hp) as (sg1 & Hrep1 & _ & H).
  unfold find. destruct (find_sub (lru_iter p) (tr s)) as [t'|] eqn:Ef.
  - destruct H as (n & E & Hn & _). destruct t' as [|d l c r0]; [destruct Hn|].
    cbn [node_of snd fst]. rewrite E.
    pose proof Hn as (Hex & Hblk & Hdata & Hstem).
    set (n2 := py_node_unflag_as_webentity_creation_rule n).
    assert (Hd2 : nd_data n2 = tblock_vals (main_block (set_rule false d) (root_addr l) (root_addr r0) (root_addr c)))
      by (apply unflag_rule_main; exact Hdata).
    assert (Hst2 : py_node_stem n2 = stem d).
    { unfold py_node_stem. rewrite Hd2, py_get_stem. change (nd_tail n2) with (nd_tail n).
      rewrite <- Hstem. unfold py_node_stem. rewrite Hdata, !py_get_stem. reflexivity. }
    destruct (rewrite_in_place s Hinv (set_rule false) (lru_iter p) d l c r0 n2 sg1
                (soft_set_rule false) (fun _ => eq_refl) Ef Hrep1 Hex Hblk Hd2 Hst2)
      as (sg2 & Ew & Hrep2 & _).
    rewrite Ew. eexists. exists sg2. split; [reflexivity|]. split.
    + split; cbn [ram_rules ram_dflt]; [rewrite (py_rules_del_eq p (rules s))|rewrite Hrd]; reflexivity.
    + exact Hrep2.
  - cbn [snd]. rewrite H. reflexivity.
Qed.

Print Assumptions py_traph_get_potential_prefix_spec.
Print Assumptions py_traph_get_potential_prefix_spec'.
Print Assumptions py_traph_get_potential_prefix_reach.
Print Assumptions py_traph_remove_rule_spec.

(* ====================================================================================== *)
(* 7. non-vacuity                                                                         *)
(* ====================================================================================== *)
From Traph Require PropsEx IdFacts GenTraphWFacts GenTraphPEx.

Definition rm0 : py_ram := mk_ram (rules PropsEx.exs) (dflt PropsEx.exs).
Definition rm3 : py_ram := GenTraphPEx.rm_of GenTraphPEx.exs3.
Definition sg3 : py_pm := GenTraphPEx.sg_of GenTraphPEx.exs3.

(* the answer of the translated query, and whether the bytes are those before *)
Definition run_potential (rm : py_ram) (sg : py_pm) (lru : bytes) : option (option bytes * bool) :=
  match py_traph_get_potential_prefix rm sg lru with
  | Some (sg', a) => Some (a, Bytes.beq (pm_array sg') (pm_array sg))
  | None => None
  end.

(* a page on an unknown domain: the default rule proposes s:http|h:org|h:z| *)
Example ex_potential_default :
  run_potential rm0 ex_sg GenTraphPEx.l1 = Some (Some GenTraphPEx.org_z, true) /\
  potential_prefix GenTraphPEx.l1 PropsEx.exs = Some GenTraphPEx.org_z.
Proof. vm_compute. split; reflexivity. Qed.

(* a page under an existing webentity: its prefix *)
Example ex_potential_known :
  run_potential rm0 ex_sg PropsEx.ex_pxy = Some (Some PropsEx.ex_px, true) /\
  potential_prefix PropsEx.ex_pxy PropsEx.exs = Some PropsEx.ex_px.
Proof. vm_compute. split; reflexivity. Qed.

(* nothing proposed: a LRU the default rule (domain) does not match -> False *)
Example ex_potential_false :
  run_potential rm0 ex_sg [115;58;104;116;116;112;124] = Some (None, true) /\
  potential_prefix [115;58;104;116;116;112;124] PropsEx.exs = None.
Proof. vm_compute. split; reflexivity. Qed.

(* the anchored rule "first path stem" on s:http|h:com|h:a| proposes s:http|h:com|h:a|p:w| for ...|p:w|p:v| *)
Example ex_potential_anchored :
  run_potential rm3 sg3 GenTraphPEx.l3 = Some (Some GenTraphPEx.pa_w, true) /\
  potential_prefix GenTraphPEx.l3 GenTraphPEx.exs3 = Some GenTraphPEx.pa_w /\
  h_rules (q_follow GenTraphPEx.l3 GenTraphPEx.exs3) = [17] /\
  ram_rules rm3 = [(IdFacts.ex_pa, Path 1)].
Proof. vm_compute. repeat split; reflexivity. Qed.

(* the removal of that rule: the bytes are the trie file of the model's next state (and did change), the RAM entry is gone *)
Definition run_remove (s : traph) (p : bytes) : option (list (bytes * rulekind) * bool * bool * bool) :=
  match py_traph_remove_webentity_creation_rule (GenTraphPEx.rm_of s) (GenTraphPEx.sg_of s) p with
  | Some (rm', sg', b) =>
      Some (ram_rules rm', b, Bytes.beq (pm_array sg') (trie_file (fst (remove_rule p s))),
            Bytes.beq (pm_array sg') (pm_array (GenTraphPEx.sg_of s)))
  | None => None
  end.

Example ex_remove_anchored :
  run_remove GenTraphPEx.exs3 IdFacts.ex_pa = Some ([], true, true, false) /\
  snd (remove_rule IdFacts.ex_pa GenTraphPEx.exs3) = Ok /\
  rules (fst (remove_rule IdFacts.ex_pa GenTraphPEx.exs3)) = [] /\
  option_map rule (nodeof GenTraphPEx.exs3 IdFacts.ex_pa) = Some true /\
  option_map rule (nodeof (fst (remove_rule IdFacts.ex_pa GenTraphPEx.exs3)) IdFacts.ex_pa) = Some false.
Proof. vm_compute. repeat split; reflexivity. Qed.

(* after the removal the anchor no longer fires: the existing webentity prefix is proposed again *)
Example ex_potential_after_removal :
  let s' := fst (remove_rule IdFacts.ex_pa GenTraphPEx.exs3) in
  run_potential (GenTraphPEx.rm_of s') (GenTraphPEx.sg_of s') GenTraphPEx.l3 = Some (potential_prefix GenTraphPEx.l3 s', true) /\
  potential_prefix GenTraphPEx.l3 s' = Some IdFacts.ex_pa.
Proof. vm_compute. split; reflexivity. Qed.

(* an unknown anchor: KeyError / Crash *)
Example ex_remove_unknown :
  run_remove GenTraphPEx.exs3 PropsEx.ex_px = None /\ snd (remove_rule PropsEx.ex_px GenTraphPEx.exs3) = Crash /\
  run_remove PropsEx.exs IdFacts.ex_pa = None /\ snd (remove_rule IdFacts.ex_pa PropsEx.exs) = Crash.
Proof. vm_compute. repeat split; reflexivity. Qed.

(* a rule kept in RAM only (write_in_trie = False) on a prefix that is not in the trie: the RAM entry is deleted, then
   TraphException / Refused *)
Definition exs5 : traph := fst (add_rule GenTraphPEx.org_z Domain false PropsEx.exs).
Example ex_remove_refused :
  run_remove exs5 GenTraphPEx.org_z = None /\ snd (remove_rule GenTraphPEx.org_z exs5) = Refused /\
  rules exs5 = [(GenTraphPEx.org_z, Domain)] /\ rules (fst (remove_rule GenTraphPEx.org_z exs5)) = [].
Proof. vm_compute. repeat split; reflexivity. Qed.

(* ---- the theorems instantiated: all their hypotheses hold on the examples ---- *)
Lemma trep_sg_of : forall s, forallb GenTraphWFacts.blk_encodableb (ft (files_of s)) = true ->
  trep (files_of s) (GenTraphPEx.sg_of s).
Proof.
  intros s Hall. apply (trep_of_file s 0). apply Forall_forall. intros b Hb. apply GenTraphWFacts.blk_encodableb_ok.
  rewrite forallb_forall in Hall. apply Hall. exact Hb.
Qed.

Lemma exh3_no_reopen : Forall no_reopen GenTraphPEx.exh3.
Proof. repeat constructor. Qed.

Example ex_theorem_applies_potential :
  exists sg', py_traph_get_potential_prefix rm3 sg3 GenTraphPEx.l3 = Some (sg', Some GenTraphPEx.pa_w) /\
    pm_array sg' = pm_array sg3.
Proof.
  pose proof (py_traph_get_potential_prefix_reach Domain [] GenTraphPEx.exh3 PropsEx.ex_rules_wf GenTraphPEx.exh3_wf
                (no_reopen_resupplied _ _ exh3_no_reopen)) as HA.
  cbv zeta in HA. rewrite GenTraphPEx.exs3_run in HA.
  assert (Hrep : trep (files_of GenTraphPEx.exs3) sg3) by (apply trep_sg_of; vm_compute; reflexivity).
  assert (Hl : wf_lru GenTraphPEx.l3) by PropsEx.wf_lru_tac.
  destruct (HA rm3 sg3 GenTraphPEx.l3 (GenTraphPEx.ramrep_of _) Hrep Hl) as (sg' & E & _ & Ha).
  exists sg'. split; [|exact Ha].
  assert (Er : potential_prefix GenTraphPEx.l3 GenTraphPEx.exs3 = Some GenTraphPEx.pa_w) by (vm_compute; reflexivity).
  rewrite <- Er. exact E.
Qed.

Example ex_theorem_applies_remove :
  exists rm' sg', py_traph_remove_webentity_creation_rule rm3 sg3 IdFacts.ex_pa = Some (rm', sg', true) /\
    ramrep (fst (remove_rule IdFacts.ex_pa GenTraphPEx.exs3)) rm' /\
    trep (files_of (fst (remove_rule IdFacts.ex_pa GenTraphPEx.exs3))) sg'.
Proof.
  assert (Hinv : Inv18 GenTraphPEx.exs3) by (rewrite <- GenTraphPEx.exs3_run; apply run_Inv18; exact GenTraphPEx.exh3_wf).
  assert (Hroot : root_first GenTraphPEx.exs3) by (rewrite <- GenTraphPEx.exs3_run; apply run_root_first).
  assert (Hrep : trep (files_of GenTraphPEx.exs3) sg3) by (apply trep_sg_of; vm_compute; reflexivity).
  assert (Hp : wf_lru IdFacts.ex_pa) by PropsEx.wf_lru_tac.
  pose proof (py_traph_remove_rule_spec GenTraphPEx.exs3 Hinv Hroot rm3 sg3 IdFacts.ex_pa (GenTraphPEx.ramrep_of _) Hrep Hp) as HA.
  cbv zeta in HA.
  assert (Er : snd (remove_rule IdFacts.ex_pa GenTraphPEx.exs3) = Ok) by (vm_compute; reflexivity).
  rewrite Er in HA. exact HA.
Qed.

Print Assumptions ex_theorem_applies_potential.
Print Assumptions ex_theorem_applies_remove.
