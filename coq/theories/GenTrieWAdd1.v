(* GenTrieWAdd1.v — LRUTrie.add_lru translated from the source (GenTrieW.py_trie_add_lru), part 1:
   PLAN (three files, each compiling on its own)
     GenTrieWAdd1 (this file)
       1. blocks that fit their fields (flags_of < 256, node_blocks_encodable)
       2. how a storage object representing the files f (trep f sg) moves under the two kinds of writes,
          stated on bytes: append of whole blocks (trep_app_bytes) and rewrite of one block in place (trep_set_bytes)
       3. registers / flag bits of a node object whose data are the values of a main block
       4. the tree model along one stem, through GenTrieFacts.sib_end (where the walk among the siblings ends):
          insw, ins_t, ins_h, ins_nb (insw_sib_end, sib_ins_t, sib_find_sib_end), the parent register of the node
          where the walk ends (sib_end_par), lookups below a found node (find_sub_below)
     GenTrieWAdd2
       5. the generated definition re-stated in named pieces (loop1, loop2c, after_ensure, after_hist, after_clear,
          finish; equality by reflexivity)
       6. the second loop (creation of the missing chain) on abstract files (loop2c_spec)
       7. the rest of an iteration of the first loop after a fresh node has been written (fresh_spec)
     GenTrieWAdd
       8. the first loop, by induction on the remaining stems, generalised over the state (clearing a flag changes
          the state: TraceFacts3.upd_Tr) (loop1_spec)
       9. py_trie_add_lru_spec, chaining lemmas (Inv18, root_first), examples by vm_compute. *)
From Coq Require Import List NArith Bool Lia Arith.
Import ListNotations.
From Traph Require Import Bytes Consts Layout Helpers Rules Tst TstDefs Traph Traphw TraceDefs Codec CodecFacts
  TstFacts Store StoreFacts GenStorage GenNode GenNodeFacts GenTrie GenTrieFacts GenTrieW GenTrieWDefs.
From Traph Require Import QueryCore2 TraceFacts TraceFacts2 TraceFacts3 LinkFacts.
Open Scope N_scope.

Arguments N.shiftr : simpl never.
Arguments N.shiftl : simpl never.
Arguments N.modulo : simpl never.
Arguments N.div : simpl never.
Arguments N.land : simpl never.
Arguments N.lor : simpl never.
Arguments N.ldiff : simpl never.
Arguments N.mul : simpl never.
Arguments N.add : simpl never.
Arguments N.sub : simpl never.
Arguments N.ltb : simpl never.
Arguments N.eqb : simpl never.
Arguments N.pow : simpl never.

(* ====================================================================================== *)
(* 1. blocks that fit their fields                                                        *)
(* ====================================================================================== *)
Lemma flags_of_lt : forall d, flags_of d < 256.
Proof.
  intro d. unfold flags_of.
  destruct (page d), (crawled d), (rule d), (has_tail_of (stem d)), (nochild d); vm_compute; reflexivity.
Qed.

Lemma main_block_encodable : forall d la ra ca,
  we d < 2 ^ 32 -> par d < 2 ^ 64 -> outh d < 2 ^ 64 -> inh d < 2 ^ 64 ->
  la < 2 ^ 64 -> ra < 2 ^ 64 -> ca < 2 ^ 64 ->
  blk_encodable (main_block d la ra ca).
Proof.
  intros d la ra ca Hw Hp Ho Hi Hl Hr Hc. unfold blk_encodable, main_block.
  cbn [b_stem b_flags b_we b_left b_right b_child b_parent b_out b_in].
  split; [unfold stem_head; rewrite firstn_length; change stem_size_nat with 74%nat; lia|].
  split; [apply flags_of_lt|]. repeat split; assumption.
Qed.

Lemma main_block_encodable_inv : forall d la ra ca, blk_encodable (main_block d la ra ca) ->
  we d < 2 ^ 32 /\ par d < 2 ^ 64 /\ outh d < 2 ^ 64 /\ inh d < 2 ^ 64 /\
  la < 2 ^ 64 /\ ra < 2 ^ 64 /\ ca < 2 ^ 64.
Proof.
  intros d la ra ca (_ & _ & Hw & Hl & Hr & Hc & Hp & Ho & Hi).
  cbn [main_block b_we b_left b_right b_child b_parent b_out b_in] in *. repeat split; assumption.
Qed.

Lemma node_blocks_encodable : forall d la ra ca, blk_encodable (main_block d la ra ca) ->
  Forall blk_encodable (node_blocks d la ra ca).
Proof.
  intros d la ra ca H. unfold node_blocks. constructor; [exact H|].
  apply tail_blocks_encodable. intros c Hc. unfold stem_tail_chunks in Hc.
  apply chunks_each in Hc; [|vm_compute; lia]. change stem_size_nat with 74%nat in Hc. lia.
Qed.

(* ====================================================================================== *)
(* 2. trep under the two kinds of writes                                                  *)
(* ====================================================================================== *)
Lemma trep_len : forall f sg, trep f sg -> length (pm_array sg) = (128 + 128 * length (ft f))%nat.
Proof. intros f sg (_ & (hdr & Harr & Hh) & _). rewrite Harr, app_length, flat_blocks_length, Hh. reflexivity. Qed.

Lemma flat_firstn : forall j bs,
  firstn (128 * j) (flat_map encode_tblock bs) = flat_map encode_tblock (firstn j bs).
Proof.
  induction j as [|j IH]; intro bs.
  - reflexivity.
  - destruct bs as [|b r].
    + cbn [flat_map firstn]. apply firstn_nil.
    + cbn [flat_map firstn]. rewrite firstn_app, encode_tblock_length.
      rewrite firstn_all2 by (rewrite encode_tblock_length; lia).
      replace (128 * S j - 128)%nat with (128 * j)%nat by lia. rewrite IH. reflexivity.
Qed.

Lemma set_nth_split : forall (A : Type) j (x : A) l, (j < length l)%nat ->
  set_nth j x l = firstn j l ++ x :: skipn (S j) l.
Proof.
  intros A j x l. revert j. induction l as [|y l IH]; intros j Hj; [cbn in Hj; lia|].
  destruct j as [|j]; [reflexivity|]. cbn [set_nth firstn skipn app]. f_equal.
  apply IH. cbn [length] in Hj. lia.
Qed.

Lemma blk_off_nat : forall j, N.to_nat (blk_off j) = (128 + 128 * j)%nat.
Proof. intro j. unfold blk_off, bsz. change py_node_block_size with 128. lia. Qed.

Lemma tidx_blk_off : forall j, tidx (blk_off j) = j.
Proof. intro j. unfold blk_off. rewrite N.mul_comm. apply tidx_S. Qed.

Lemma trep_set_bytes : forall f sg sg' j b,
  trep f sg -> (j < length (ft f))%nat -> pm_block_size sg' = py_node_block_size ->
  firstn (N.to_nat (blk_off j)) (pm_array sg') = firstn (N.to_nat (blk_off j)) (pm_array sg) ->
  GenStorage.py_slice (blk_off j) (blk_off j + 128) (pm_array sg') = encode_tblock b ->
  skipn (N.to_nat (blk_off j) + 128) (pm_array sg') = skipn (N.to_nat (blk_off j) + 128) (pm_array sg) ->
  blk_encodable b ->
  trep (apply (TSet (blk_off j) b) f) sg'.
Proof.
  intros f sg sg' j b (Hbs & (hdr & Harr & Hh) & Henc) Hj Hbs' Hf Hs Hk Hb.
  split; [exact Hbs'|]. cbn [apply ft]. rewrite tidx_blk_off. split.
  - exists hdr. split; [|exact Hh].
    rewrite <- (firstn_skipn (N.to_nat (blk_off j)) (pm_array sg')).
    rewrite <- (firstn_skipn 128 (skipn (N.to_nat (blk_off j)) (pm_array sg'))).
    rewrite skipn_skipn'. rewrite Hk, Hf.
    unfold GenStorage.py_slice in Hs.
    replace (N.to_nat (blk_off j + 128 - blk_off j)) with 128%nat in Hs by lia. rewrite Hs.
    rewrite Harr, blk_off_nat.
    rewrite firstn_app, Hh, firstn_all2 by lia.
    replace (128 + 128 * j - 128)%nat with (128 * j)%nat by lia. rewrite flat_firstn.
    rewrite skipn_app, Hh, skipn_all2 by lia.
    replace (128 + 128 * j + 128 - 128)%nat with (128 * S j)%nat by lia. rewrite skipn_blocks. cbn [app].
    rewrite set_nth_split by exact Hj. rewrite flat_map_app. cbn [flat_map].
    rewrite <- !app_assoc. reflexivity.
  - apply Forall_forall. intros y Hy. apply set_nth_In in Hy. destruct Hy as [->|Hy]; [exact Hb|].
    rewrite Forall_forall in Henc. apply Henc. exact Hy.
Qed.

Lemma trep_app_bytes : forall f sg sg' bs,
  trep f sg -> pm_block_size sg' = py_node_block_size ->
  pm_array sg' = pm_array sg ++ flat_map encode_tblock bs -> Forall blk_encodable bs ->
  trep (apply_all (map TApp bs) f) sg'.
Proof.
  intros f sg sg' bs (Hbs & (hdr & Harr & Hh) & Henc) Hbs' Ha Hb. rewrite apply_apps.
  split; [exact Hbs'|]. cbn [ft]. split.
  - exists hdr. split; [|exact Hh]. rewrite Ha, Harr, flat_map_app, app_assoc. reflexivity.
  - apply Forall_app. split; assumption.
Qed.

(* the rewrite in place of a node object that exists (py_node_write_existing), on trep *)
Lemma trep_write_existing : forall f sg n j b,
  trep f sg -> (j < length (ft f))%nat ->
  nd_exists n = true -> nd_block n = Some (blk_off j) -> nd_data n = tblock_vals b -> blk_encodable b ->
  fst (py_node_write n sg) = n /\ trep (apply (TSet (blk_off j) b) f) (snd (py_node_write n sg)).
Proof.
  intros f sg n j b Hrep Hj He Hb Hd Henc.
  pose proof Hrep as (Hbs & _ & _).
  assert (Hlen : blk_off j + 128 <= N.of_nat (length (pm_array sg))).
  { rewrite (trep_len f sg Hrep). pose proof (blk_off_nat j). lia. }
  destruct (py_node_write_existing n sg (blk_off j) b He Hb Hd Hbs Hlen) as (W1 & _ & W3 & W4 & W5 & W6 & _).
  split; [exact W1|].
  apply (trep_set_bytes f sg _ j b Hrep Hj); try assumption. rewrite W6. exact Hbs.
Qed.

(* ====================================================================================== *)
(* 3. registers and flag bits of a node object                                            *)
(* ====================================================================================== *)
Lemma get_we : forall b, py_get_num pos_we (tblock_vals b) = b_we b.
Proof. intros [st fl w l r c p o i]. reflexivity. Qed.

Lemma py_test_flags : forall b pos, py_test (tblock_vals b) (N.of_nat pos_flags) pos = N.testbit (b_flags b) pos.
Proof.
  intros b pos. unfold py_test.
  change (py_get_num (N.to_nat (N.of_nat pos_flags)) (tblock_vals b)) with (b_flags b).
  apply py_test_testbit.
Qed.

Lemma flags_rule : forall d, N.testbit (flags_of d) flag_rule = rule d.
Proof.
  intro d. unfold flags_of.
  destruct (page d), (crawled d), (rule d), (has_tail_of (stem d)), (nochild d); vm_compute; reflexivity.
Qed.

Lemma flags_nochild : forall d, N.testbit (flags_of d) flag_nochild = nochild d.
Proof.
  intro d. unfold flags_of.
  destruct (page d), (crawled d), (rule d), (has_tail_of (stem d)), (nochild d); vm_compute; reflexivity.
Qed.

Lemma flags_unflag_nochild : forall d,
  N.ldiff (flags_of d) (N.shiftl 1 flag_nochild) = flags_of (set_nochild false d).
Proof.
  intro d. unfold flags_of. cbn [set_nochild page crawled rule stem nochild].
  destruct (page d), (crawled d), (rule d), (has_tail_of (stem d)), (nochild d); vm_compute; reflexivity.
Qed.

Lemma unflag_nochild_vals : forall d la ra ca,
  py_unflag (tblock_vals (main_block d la ra ca)) (N.of_nat pos_flags) flag_nochild =
  tblock_vals (main_block (set_nochild false d) la ra ca).
Proof.
  intros d la ra ca. unfold py_unflag.
  change (py_get_num (N.to_nat (N.of_nat pos_flags)) (tblock_vals (main_block d la ra ca))) with (flags_of d).
  rewrite flags_unflag_nochild. reflexivity.
Qed.

Lemma set_child_vals : forall b a, py_set_nth pos_child (VNum a) (tblock_vals b) =
  tblock_vals (mkBlk (b_stem b) (b_flags b) (b_we b) (b_left b) (b_right b) a (b_parent b) (b_out b) (b_in b)).
Proof. intros [st fl w l r c pa o i] a. reflexivity. Qed.

(* the node object of the root of t, as far as the walk history is concerned *)
Lemma node_has_we : forall d la ra ca n, nd_data n = tblock_vals (main_block d la ra ca) ->
  py_node_has_webentity n = negb (we d =? 0) /\
  py_node_webentity n = (if we d =? 0 then None else Some (we d)) /\
  py_node_has_webentity_creation_rule n = rule d /\
  py_node_can_have_child_webentities n = negb (nochild d).
Proof.
  intros d la ra ca n Hd.
  unfold py_node_has_webentity, py_node_webentity, py_node_has_webentity_creation_rule,
    py_node_can_have_child_webentities.
  rewrite Hd, get_we, !py_test_flags. cbn [main_block b_we b_flags].
  rewrite flags_rule, flags_nochild. repeat split.
Qed.

(* ====================================================================================== *)
(* 4. the tree model along one stem                                                       *)
(* ====================================================================================== *)
Lemma sib_find_sib_end : forall x t,
  sib_find x t = match sib_end x t with Some (Nd d l c r, None) => Some (d, c) | _ => None end.
Proof.
  intros x. induction t as [|d l IHl c _ r IHr]; [reflexivity|].
  cbn [sib_find sib_end]. destruct (lex x (stem d)).
  - reflexivity.
  - destruct l as [|dl ll cl rl]; [reflexivity|exact IHl].
  - destruct r as [|dr lr cr rr]; [reflexivity|exact IHr].
Qed.

Lemma sib_end_found : forall x t te, sib_end x t = Some (te, None) ->
  exists d l c r, te = Nd d l c r /\ lex x (stem d) = Eq /\ sib x t = Some te.
Proof.
  intros x. induction t as [|d l IHl c _ r IHr]; intros te H; [discriminate H|].
  cbn [sib_end] in H. cbn [sib]. destruct (lex x (stem d)) eqn:E.
  - injection H as <-. exists d, l, c, r. auto.
  - destruct l as [|dl ll cl rl]; [discriminate H|]. exact (IHl _ H).
  - destruct r as [|dr lr cr rr]; [discriminate H|]. exact (IHr _ H).
Qed.

(* the node where the walk ends is found under its own stem *)
Lemma sib_end_self : forall x t, bst t -> forall d l c r o, sib_end x t = Some (Nd d l c r, o) ->
  In (stem d) (sib_stems t) /\ sib_find (stem d) t = Some (d, c).
Proof.
  intros x. induction t as [|d0 l0 IHl c0 _ r0 IHr]; intros Hb d l c r o H; [discriminate H|].
  cbn [bst] in Hb. destruct Hb as (Hl & Hr & Bl & _ & Br).
  assert (Hhere : forall l1 r1 o1, Some (Nd d0 l1 c0 r1, o1) = Some (Nd d l c r, o) ->
            In (stem d) (sib_stems (Nd d0 l0 c0 r0)) /\ sib_find (stem d) (Nd d0 l0 c0 r0) = Some (d, c)).
  { intros l1 r1 o1 E. injection E as <- _ <- _ _. split.
    - cbn [sib_stems]. apply in_or_app. right. left. reflexivity.
    - cbn [sib_find]. rewrite lex_refl. reflexivity. }
  cbn [sib_end] in H. destruct (lex x (stem d0)) eqn:E.
  - exact (Hhere _ _ _ H).
  - destruct l0 as [|dl ll cl rl]; [exact (Hhere _ _ _ H)|].
    destruct (IHl Bl _ _ _ _ _ H) as [Hin Hf]. split.
    + cbn [sib_stems]. apply in_or_app. left. exact Hin.
    + cbn [sib_find]. rewrite (Hl _ Hin). exact Hf.
  - destruct r0 as [|dr lr cr rr]; [exact (Hhere _ _ _ H)|].
    destruct (IHr Br _ _ _ _ _ H) as [Hin Hf]. split.
    + cbn [sib_stems]. apply in_or_app. right. right. exact Hin.
    + cbn [sib_find]. rewrite (Hr _ Hin). exact Hf.
Qed.

Lemma insw_sib_end : forall flag x rest pa nb t cx,
  insw flag (x :: rest) pa nb cx t =
  match sib_end x t with
  | Some (Nd d l c r, None) =>
      (if flag && nonempty rest && nochild d
       then [TSet (addr d) (main_block (if flag && nonempty rest then set_nochild false d else d)
                                       (root_addr l) (root_addr r) (root_addr c))] else [])
        ++ insw flag rest (addr d) nb
             (CChild (if flag && nonempty rest then set_nochild false d else d) (root_addr l) (root_addr r)) c
  | Some (Nd d l c r, Some side) =>
      here_w flag rest x pa nb (CSib d (root_addr l) (root_addr r) (root_addr c) side)
        ++ insw flag rest (nb * bsz) (nb + nblk x) (CChild (dnew flag rest x pa nb) 0 0) Lf
  | _ => insw flag (x :: rest) pa nb cx t
  end.
Proof.
  intros flag x rest pa nb. induction t as [|d l IHl c _ r IHr]; intro cx; [reflexivity|].
  rewrite insw_Nd. cbn [sib_end]. destruct (lex x (stem d)).
  - reflexivity.
  - destruct l as [|dl ll cl rl]; [rewrite insw_Lf; reflexivity|]. rewrite IHl.
    destruct (sib_end x (Nd dl ll cl rl)) as [[[|d1 l1 c1 r1] [side|]]|]; try reflexivity;
      rewrite <- IHl; reflexivity.
  - destruct r as [|dr lr cr rr]; [rewrite insw_Lf; reflexivity|]. rewrite IHr.
    destruct (sib_end x (Nd dr lr cr rr)) as [[[|d1 l1 c1 r1] [side|]]|]; try reflexivity;
      rewrite <- IHr; reflexivity.
Qed.

Lemma sib_ins_t : forall flag x rest pre pa nb h t,
  sib x (ins_t flag (x :: rest) pre pa nb h t) =
  match sib_end x t with
  | Some (Nd d l c r, None) =>
      Some (Nd (if flag && nonempty rest then set_nochild false d else d) l
               (ins_t flag rest (pre ++ x) (addr d) nb (visit d (pre ++ x) h) c) r)
  | _ => Some (Nd (dnew flag rest x pa nb) Lf (ins_t flag rest (pre ++ x) (nb * bsz) (nb + nblk x) h Lf) Lf)
  end.
Proof.
  intros flag x rest pre pa nb h. induction t as [|d l IHl c _ r IHr].
  - rewrite ins_t_Lf. cbn [sib stem sib_end]. rewrite lex_refl. reflexivity.
  - rewrite ins_t_Nd. cbn [sib_end]. destruct (lex x (stem d)) eqn:E.
    + cbn [sib]. rewrite stem_nochild_if, E. reflexivity.
    + cbn [sib]. rewrite E. rewrite IHl. destruct l as [|dl ll cl rl]; reflexivity.
    + cbn [sib]. rewrite E. rewrite IHr. destruct r as [|dr lr cr rr]; reflexivity.
Qed.

(* lookups below a found node continue in its child tree *)
Lemma find_sub_below : forall p T d l c r, find_sub p T = Some (Nd d l c r) ->
  forall q, q <> [] -> find_sub (p ++ q) T = find_sub q c.
Proof.
  induction p as [|s rest IHp]; intros T d l c r H; [discriminate H|].
  induction T as [|d0 l0 IHl c0 _ r0 IHr]; [rewrite QueryCore2.find_sub_Lf in H; discriminate H|].
  rewrite QueryCore2.find_sub_Nd in H. intros q Hq. cbn [app]. rewrite QueryCore2.find_sub_Nd.
  destruct (lex s (stem d0)).
  - destruct rest as [|x2 p2].
    + injection H as -> -> -> ->. cbn [app]. destruct q; [congruence|reflexivity].
    + cbn [app]. apply (IHp _ _ _ _ _ H q Hq).
  - apply IHl; assumption.
  - apply IHr; assumption.
Qed.

(* the sibling tree t hangs below the path p of the state; pa is the block of the node at p (0 at the top) *)
Definition At (p : list bytes) (t : tst) (pa : N) (s : traph) : Prop :=
  (p = [] /\ t = tr s /\ pa = 0) \/
  (exists dp lp rp, find_sub p (tr s) = Some (Nd dp lp t rp) /\ pa = addr dp).

Lemma At_subt : forall p t pa s, At p t pa s -> subt t (tr s).
Proof.
  intros p t pa s [(_ & -> & _)|(dp & lp & rp & H & _)]; [apply subt_here|].
  eapply subt_child. apply (find_sub_subt _ _ _ H).
Qed.

Lemma At_find_sub : forall p t pa s q, At p t pa s -> q <> [] -> find_sub (p ++ q) (tr s) = find_sub q t.
Proof.
  intros p t pa s q [(-> & -> & _)|(dp & lp & rp & H & _)] Hq; [reflexivity|].
  apply (find_sub_below _ _ _ _ _ _ H q Hq).
Qed.

Lemma At_wf : forall p t pa s, Inv18 s -> At p t pa s -> wf_tst t.
Proof.
  intros p t pa s Hinv [(_ & -> & _)|(dp & lp & rp & H & _)]; [apply Hinv|].
  eapply wf_tst_child. eapply find_sub_wf; [apply Hinv|exact H].
Qed.

Lemma sib_end_par : forall s, Inv18 s -> forall p t pa, At p t pa s ->
  forall x d l c r o, sib_end x t = Some (Nd d l c r, o) -> par d = pa.
Proof.
  intros s Hinv p t pa HAt x d l c r o He.
  pose proof (At_wf _ _ _ _ Hinv HAt) as [Hb _].
  destruct (sib_end_self x t Hb d l c r o He) as [_ Hsf].
  assert (Hf : find [stem d] t = Some d) by (rewrite find_single, Hsf; reflexivity).
  destruct HAt as [(-> & -> & ->)|(dp & lp & rp & H & ->)].
  - exact (I_pars s Hinv [] (stem d) d Hf).
  - destruct (find_sub_some _ _ _ H) as (d' & l' & c' & r' & E & Hfp & Hbelow).
    injection E as <- <- <- <-.
    assert (Hf' : find (p ++ [stem d]) (tr s) = Some d) by (rewrite Hbelow; [exact Hf|discriminate]).
    pose proof (I_pars s Hinv p (stem d) d Hf') as HP.
    destruct p as [|y p']; [discriminate H|].
    destruct HP as (dp' & Hdp' & ->). congruence.
Qed.

(* going one stem down from a found node *)
Lemma At_down : forall p t pa s x d l c r, At p t pa s -> sib x t = Some (Nd d l c r) ->
  find_sub (p ++ [x]) (tr s) = Some (Nd d l c r).
Proof.
  intros p t pa s x d l c r HAt Hs.
  rewrite (At_find_sub _ _ _ _ [x] HAt) by discriminate.
  rewrite find_sub_sib, Hs. reflexivity.
Qed.
