(* QueryAlone3.v — the page-link query coroutine of Sched.v (plinksq_step: get_webentity_pagelinks_iter, the tree read
   LAZILY by block address with an explicit traversal stack, one link item per turn) advanced ALONE until it is done
   is the sequential request Traph.webentity_pagelinks (structural walk wdfs_at of every prefix, links of every page
   met): same refusal, same list of links in the same order.

   Method.  When the coroutine runs alone the index never changes, so a run is the iteration of ONE loop iteration
   (SchedFacts9.lmicro) from the initial local state until the done flag is raised (miter); the fuel that
   co_step gives to plinksq_step only decides where the run is cut into turns (plinks_miter, run_alone_miter: fuel
   exhaustion inside a turn is harmless, the next turn resumes at the same local state).  The iteration is then
   followed structurally: link items of a page (items_run), one popped node (node_run, read by address through
   RuleRunFacts1.sub_at / read_at_sub), a whole sibling tree by induction (sub_run: stack order child, left, right =
   order of Tst.wdfs), one prefix (prefix_run = Tst.wdfs_at), the prefix list (prefixes_run = Traph.over_prefixes). *)
From Coq Require Import List NArith Bool Lia Arith.
Import ListNotations.
From Traph Require Import Bytes Consts Helpers Rules Tst TstDefs Traph Spec Ops RefDefs TstFacts
  ViewFacts LinkFacts2 LinkFacts3 RefFull Sched SchedFacts9 RuleRunFacts1 RuleRunFacts.
Open Scope N_scope.

(* ====================================================================== *)
(* small facts                                                            *)
(* ====================================================================== *)

Lemma occ_not_Lf : forall pp T q x, occ pp T q x -> x <> Lf.
Proof. intros pp T q x H. induction H; [discriminate|assumption|assumption|assumption]. Qed.

Lemma occ_kids : forall pp T q d l c r, occ pp T q (Nd d l c r) ->
  (c = Lf \/ occ pp T (q ++ [stem d]) c) /\ (l = Lf \/ occ pp T q l) /\ (r = Lf \/ occ pp T q r).
Proof.
  intros pp T q d l c r H. split; [|split].
  - destruct c as [|dc lc cc rc]; [left; reflexivity|right].
    apply (occ_trans _ _ _ _ H). apply occ_c. apply occ_here.
  - destruct l as [|dl ll cl rl]; [left; reflexivity|right].
    apply (occ_trans _ _ _ _ H). apply occ_l. apply occ_here.
  - destruct r as [|dr lr cr rr]; [left; reflexivity|right].
    apply (occ_trans _ _ _ _ H). apply occ_r. apply occ_here.
Qed.

Lemma kid_addrs : forall pp T q x, x = Lf \/ occ pp T q x -> forall a, In a (addrs x) -> In a (addrs T).
Proof.
  intros pp T q x [->|H] a Ha; [destruct Ha|].
  induction H as [pp d l c r|pp d l c r q x H IH|pp d l c r q x H IH|pp d l c r q x H IH]; [exact Ha| | |];
    cbn [addrs]; right; apply in_or_app.
  - left. apply IH. exact Ha.
  - right. apply in_or_app. left. apply IH. exact Ha.
  - right. apply in_or_app. right. apply IH. exact Ha.
Qed.

(* ====================================================================== *)
(* the run alone as an iteration of the loop body                         *)
(* ====================================================================== *)

Section Alone.
Variable s : traph.

(* n iterations of the loop body, stopping at the done flag *)
Fixpoint miter (n : nat) (q : lco) : lco :=
  match n with
  | O => q
  | S n' => if l_done q then q else miter n' (fst (lmicro q s))
  end.

Lemma miter_done : forall n q, l_done q = true -> miter n q = q.
Proof. intros n q H. destruct n; cbn [miter]; [reflexivity|]. rewrite H. reflexivity. Qed.

Lemma miter_add : forall a b q, miter (a + b) q = miter b (miter a q).
Proof.
  induction a as [|a IH]; intros b q; cbn [miter Nat.add]; [reflexivity|].
  destruct (l_done q) eqn:E; [symmetry; apply miter_done; exact E|apply IH].
Qed.

Lemma miter_S : forall n q, l_done q = false -> miter (S n) q = miter n (fst (lmicro q s)).
Proof. intros n q H. cbn [miter]. rewrite H. reflexivity. Qed.

(* chaining *)
Lemma miter_chain : forall q1 q2 q3, (exists n, miter n q1 = q2) -> (exists n, miter n q2 = q3) ->
  exists n, miter n q1 = q3.
Proof. intros q1 q2 q3 (a & Ha) (b & Hb). exists (a + b)%nat. rewrite miter_add, Ha. exact Hb. Qed.

(* one turn is a positive number of iterations, whatever the fuel *)
Lemma plinks_miter : forall fuel q, l_done q = false ->
  exists k, plinksq_step fuel q s = miter k q /\ (fuel <> O -> k <> O).
Proof.
  induction fuel as [|f IH]; intros q Hd.
  - exists O. split; [reflexivity|]. intro H. exfalso. apply H. reflexivity.
  - rewrite plinksq_step_S. destruct (snd (lmicro q s)) eqn:E.
    + exists 1%nat. cbn [miter]. rewrite Hd. split; [reflexivity|discriminate].
    + destruct (lmicro_shape q s) as (_ & _ & H). destruct (H E) as (_ & Hd1).
      destruct (IH _ Hd1) as (k & Ek & _). exists (S k). rewrite (miter_S k q Hd).
      split; [exact Ek|discriminate].
Qed.

Lemma co_step_links : forall q, l_done q = false ->
  exists k, co_step (CLinks q) s = (CLinks (miter k q), s) /\ k <> O.
Proof.
  intros q Hd. rewrite co_step_plinks, Hd.
  destruct (plinks_miter (lq_fuel q s) q Hd) as (k & Ek & Hk).
  exists k. rewrite Ek. split; [reflexivity|]. apply Hk. unfold lq_fuel. discriminate.
Qed.

Lemma run_alone_miter : forall n q, l_done (miter n q) = true ->
  exists fuel, run_alone fuel (CLinks q) s = (CLinks (miter n q), s).
Proof.
  induction n as [n IH] using lt_wf_ind. intros q Hdn.
  destruct (l_done q) eqn:Hd.
  - exists 1%nat. cbn [run_alone co_done]. rewrite Hd, (miter_done n q Hd). reflexivity.
  - destruct (co_step_links q Hd) as (k & Ek & Hk).
    destruct (le_lt_dec n k) as [Hle|Hlt].
    + exists 2%nat. cbn [run_alone co_done]. rewrite Hd, Ek.
      assert (E : miter k q = miter n q).
      { replace k with (n + (k - n))%nat by lia. rewrite miter_add. apply miter_done. exact Hdn. }
      rewrite E. cbn [co_done]. rewrite Hdn. reflexivity.
    + assert (E : miter n q = miter (n - k) (miter k q)).
      { rewrite <- miter_add. f_equal. lia. }
      rewrite E in Hdn |- *.
      destruct (IH (n - k)%nat ltac:(lia) (miter k q) Hdn) as (fuel & Hf).
      exists (S fuel). cbn [run_alone co_done]. rewrite Hd, Ek. exact Hf.
Qed.

(* ====================================================================== *)
(* the loop body on the states of one query                               *)
(* ====================================================================== *)

Variables (w : N) (inb int outb : bool).

Definition Q ps st stk its ip acc : lco := mkL w inb int outb ps st stk its ip acc false false.
Definition QD acc (rf : bool) : lco := mkL w inb int outb [] 0 [] [] None acc true rf.

Definition addl (it : bool * bytes * N * N) : list (bytes * bytes * N) := ladd (Q [] 0 [] [] None []) s it.

Definition outpart (cur : bytes) (d : nd) : list (bytes * bytes * N) :=
  if negb (outh d =? 0) && (outb || int)
  then flat_map (fun '(tg, wt) =>
                   let tw := we_at tg (tr s) in
                   if (outb && negb (tw =? w)) || (int && (tw =? w)) then [(cur, lru_at tg s, wt)] else [])
                (out_w d s)
  else [].
Definition inpart (cur : bytes) (d : nd) : list (bytes * bytes * N) :=
  if negb (inh d =? 0) && inb
  then flat_map (fun '(sr, wt) =>
                   if negb (we_at sr (tr s) =? w) then [(lru_at sr s, cur, wt)] else [])
                (in_w d s)
  else [].
Definition plof : bytes * nd -> list (bytes * bytes * N) := pagelinks_of w inb int outb s.

Lemma plof_eq : forall cur d, plof (cur, d) = outpart cur d ++ inpart cur d.
Proof. reflexivity. Qed.

Lemma addl_outs : forall cur L,
  flat_map addl (map (fun y : N * N => (true, cur, fst y, snd y)) L) =
  flat_map (fun '(tg, wt) =>
              let tw := we_at tg (tr s) in
              if (outb && negb (tw =? w)) || (int && (tw =? w)) then [(cur, lru_at tg s, wt)] else []) L.
Proof.
  intros cur L. induction L as [|[tg wt] L IH]; [reflexivity|].
  cbn [map flat_map fst snd]. rewrite IH. reflexivity.
Qed.

Lemma addl_ins : forall cur L,
  flat_map addl (map (fun x : N * N => (false, cur, fst x, snd x)) L) =
  flat_map (fun '(sr, wt) => if negb (we_at sr (tr s) =? w) then [(lru_at sr s, cur, wt)] else []) L.
Proof.
  intros cur L. induction L as [|[sr wt] L IH]; [reflexivity|].
  cbn [map flat_map fst snd]. rewrite IH. reflexivity.
Qed.

Section Flags.
Hypothesis Hfl : negb int && negb outb && negb inb = false.

Lemma micro_item : forall ps st stk it its ip acc,
  fst (lmicro (Q ps st stk (it :: its) ip acc) s) = Q ps st stk its ip (acc ++ addl it).
Proof. intros. unfold lmicro. cbn [Q l_int l_outb l_inb l_items]. rewrite Hfl. reflexivity. Qed.

Lemma micro_inpend : forall ps st stk lru h acc,
  fst (lmicro (Q ps st stk [] (Some (lru, h)) acc) s) =
  Q ps st stk (map (fun x => (false, lru, fst x, snd x)) (weighted (targets_of (stubs s) h))) None acc.
Proof. intros. unfold lmicro. cbn [Q l_int l_outb l_inb l_items l_inpend]. rewrite Hfl. reflexivity. Qed.

Lemma micro_end : forall st acc, fst (lmicro (Q [] st [] [] None acc) s) = QD acc false.
Proof. intros. unfold lmicro. cbn [Q l_int l_outb l_inb l_items l_inpend l_stack l_prefixes]. rewrite Hfl. reflexivity. Qed.

Lemma micro_refuse : forall p ps st acc, find (lru_iter p) (tr s) = None ->
  fst (lmicro (Q (p :: ps) st [] [] None acc) s) = QD acc true.
Proof.
  intros p ps st acc H. unfold lmicro. cbn [Q l_int l_outb l_inb l_items l_inpend l_stack l_prefixes].
  rewrite Hfl, H. reflexivity.
Qed.

Lemma micro_prefix : forall p ps st acc d, find (lru_iter p) (tr s) = Some d ->
  fst (lmicro (Q (p :: ps) st [] [] None acc) s) = Q ps (addr d) [(addr d, lru_dirname p, 0)] [] None acc.
Proof.
  intros p ps st acc d H. unfold lmicro. cbn [Q l_int l_outb l_inb l_items l_inpend l_stack l_prefixes].
  rewrite Hfl, H. reflexivity.
Qed.

Definition outs_of (rel : bool) (cur : bytes) (d : nd) : list (bool * bytes * N * N) :=
  if rel && page d && negb (outh d =? 0) && (outb || int)
  then map (fun y => (true, cur, fst y, snd y)) (weighted (targets_of (stubs s) (outh d)))
  else [].
Definition ins_of (rel : bool) (cur : bytes) (d : nd) : option (bytes * N) :=
  if rel && page d && negb (inh d =? 0) && inb then Some (cur, inh d) else None.
Definition kids (rel : bool) (a st : N) (pre : bytes) (lv : N) (d : nd) (l c r : tst) : list (N * bytes * N) :=
  (if rel then nz3 (root_addr c) (pre ++ stem d) (lv + 1) else [])
    ++ (if a =? st then [] else nz3 (root_addr l) pre lv ++ nz3 (root_addr r) pre lv).

Lemma micro_node : forall ps st a pre lv rest acc d l c r,
  read_at a (tr s) = Some (mkRN d (root_addr l) (root_addr r) (root_addr c)) ->
  fst (lmicro (Q ps st ((a, pre, lv) :: rest) [] None acc) s) =
  Q ps st (kids ((a =? st) || (we d =? 0)) a st pre lv d l c r ++ rest)
    (outs_of ((a =? st) || (we d =? 0)) (pre ++ stem d) d) (ins_of ((a =? st) || (we d =? 0)) (pre ++ stem d) d) acc.
Proof.
  intros ps st a pre lv rest acc d l c r H. unfold lmicro.
  cbn [Q l_int l_outb l_inb l_items l_inpend l_stack l_prefixes]. rewrite Hfl, H. reflexivity.
Qed.

(* the link items of a page, one per iteration *)
Lemma items_run : forall its ps st stk ip acc,
  miter (length its) (Q ps st stk its ip acc) = Q ps st stk [] ip (acc ++ flat_map addl its).
Proof.
  induction its as [|it its IH]; intros ps st stk ip acc.
  - cbn [length miter flat_map]. rewrite app_nil_r. reflexivity.
  - cbn [length]. rewrite miter_S by reflexivity. rewrite micro_item, IH.
    cbn [flat_map]. rewrite <- app_assoc. reflexivity.
Qed.

Lemma items_run_ex : forall its ps st stk ip acc,
  exists n, miter n (Q ps st stk its ip acc) = Q ps st stk [] ip (acc ++ flat_map addl its).
Proof. intros. exists (length its). apply items_run. Qed.

Lemma step_ex : forall q q', l_done q = false -> fst (lmicro q s) = q' -> exists n, miter n q = q'.
Proof. intros q q' Hd H. exists 1%nat. rewrite (miter_S O q Hd). exact H. Qed.

(* ====================================================================== *)
(* one node                                                               *)
(* ====================================================================== *)

Lemma node_run : forall ps st a pre lv rest acc qp d l c r,
  sub_at [] a (tr s) = Some (qp, Nd d l c r) ->
  let rel := (a =? st) || (we d =? 0) in
  exists n, miter n (Q ps st ((a, pre, lv) :: rest) [] None acc) =
            Q ps st (kids rel a st pre lv d l c r ++ rest) [] None
              (acc ++ if rel && page d then plof (pre ++ stem d, d) else []).
Proof.
  intros ps st a pre lv rest acc qp d l c r Hs rel.
  assert (Hr : read_at a (tr s) = Some (mkRN d (root_addr l) (root_addr r) (root_addr c))).
  { rewrite (read_at_sub (tr s) [] a), Hs. reflexivity. }
  set (cur := pre ++ stem d). set (K := kids rel a st pre lv d l c r ++ rest).
  eapply miter_chain; [apply step_ex; [reflexivity|apply (micro_node _ _ _ _ _ _ _ _ _ _ _ Hr)]|].
  fold rel. fold cur. fold K.
  eapply miter_chain; [apply items_run_ex|].
  assert (Eo : flat_map addl (outs_of rel cur d) = if rel && page d then outpart cur d else []).
  { unfold outs_of, outpart. destruct (rel && page d); cbn [andb]; [|reflexivity].
    destruct (negb (outh d =? 0) && (outb || int)); [|reflexivity]. apply addl_outs. }
  rewrite Eo. unfold ins_of.
  destruct (rel && page d) eqn:Erp; cbn [andb].
  - rewrite plof_eq. unfold inpart. destruct (negb (inh d =? 0) && inb).
    + eapply miter_chain; [apply step_ex; [reflexivity|apply micro_inpend]|].
      eapply miter_chain; [apply items_run_ex|].
      exists O. cbn [miter]. rewrite addl_ins, <- app_assoc. reflexivity.
    + exists O. cbn [miter]. rewrite !app_nil_r. reflexivity.
  - exists O. cbn [miter]. reflexivity.
Qed.

(* ====================================================================== *)
(* a sibling tree below the start node                                    *)
(* ====================================================================== *)

Definition pg (x : bytes * nd) : bool := page (snd x).

Lemma pg_cons : forall cur d X,
  filter pg ((cur, d) :: X) = if page d then (cur, d) :: filter pg X else filter pg X.
Proof. reflexivity. Qed.

Hypothesis Hg : good s.

Lemma sub_run : forall t qp pre lv st ps rest acc,
  t = Lf \/ occ [] (tr s) qp t -> concat qp = pre -> ~ In st (addrs t) ->
  exists n, miter n (Q ps st (nz3 (root_addr t) pre lv ++ rest) [] None acc) =
            Q ps st rest [] None (acc ++ flat_map plof (filter pg (wdfs None lv pre t))).
Proof.
  pose proof (good_nodup s Hg) as Hnd.
  induction t as [|d l IHl c IHc r IHr]; intros qp pre lv st ps rest acc Ho Hq Hst.
  - exists O. cbn. rewrite app_nil_r. reflexivity.
  - destruct Ho as [Ho|Ho]; [discriminate|].
    pose proof (occ_addr _ _ _ _ Ho) as Hin. cbn [root_addr] in Hin |- *.
    pose proof (good_nz s _ Hg Hin) as Hz.
    pose proof (occ_sub_at _ _ _ _ Ho Hnd) as Hs. cbn [root_addr] in Hs.
    destruct (occ_kids _ _ _ _ _ _ _ Ho) as (Kc & Kl & Kr).
    cbn [addrs] in Hst.
    assert (Est : addr d =? st = false) by (apply N.eqb_neq; intro E; apply Hst; left; exact E).
    assert (Nc : ~ In st (addrs c)) by (intro H; apply Hst; right; apply in_or_app; left; exact H).
    assert (Nl : ~ In st (addrs l))
      by (intro H; apply Hst; right; apply in_or_app; right; apply in_or_app; left; exact H).
    assert (Nr : ~ In st (addrs r))
      by (intro H; apply Hst; right; apply in_or_app; right; apply in_or_app; right; exact H).
    unfold nz3 at 1. replace (addr d =? 0) with false by (symmetry; apply N.eqb_neq; exact Hz).
    cbn [app].
    eapply miter_chain; [apply (node_run ps st (addr d) pre lv rest acc qp d l c r Hs)|].
    rewrite Est. cbn [orb]. unfold kids. rewrite Est.
    set (cur := pre ++ stem d).
    assert (Ecur : concat (qp ++ [stem d]) = cur) by (rewrite concat_snoc, Hq; reflexivity).
    cbn [wdfs]. fold cur. change (depth_ok None lv) with true. cbv iota.
    rewrite <- !app_assoc.
    destruct (we d =? 0) eqn:Ew.
    + cbn [andb].
      eapply miter_chain; [apply (IHc _ cur (lv + 1) st ps _ _ Kc Ecur Nc)|].
      eapply miter_chain; [apply (IHl _ pre lv st ps _ _ Kl Hq Nl)|].
      eapply miter_chain; [apply (IHr _ pre lv st ps _ _ Kr Hq Nr)|].
      exists O. cbn [miter]. f_equal.
      rewrite !filter_app, pg_cons, !flat_map_app.
      destruct (page d); cbn [flat_map]; rewrite <- ?app_assoc; reflexivity.
    + cbn [andb app].
      eapply miter_chain; [apply (IHl _ pre lv st ps _ _ Kl Hq Nl)|].
      eapply miter_chain; [apply (IHr _ pre lv st ps _ _ Kr Hq Nr)|].
      exists O. cbn [miter]. f_equal.
      rewrite !filter_app, !flat_map_app, app_nil_r, <- !app_assoc. reflexivity.
Qed.

(* ====================================================================== *)
(* one prefix, the list of prefixes                                       *)
(* ====================================================================== *)

Definition fpre (p : bytes) (sub : tst) : list (bytes * nd) := filter pg (wdfs_at None (lru_dirname p) sub).

Lemma prefix_run : forall p ps st acc sub, find_sub (lru_iter p) (tr s) = Some sub ->
  exists st' n, miter n (Q (p :: ps) st [] [] None acc) = Q ps st' [] [] None (acc ++ flat_map plof (fpre p sub)).
Proof.
  intros p ps st acc sub Hf.
  pose proof (good_nodup s Hg) as Hnd.
  pose proof (find_sub_occ _ _ [] _ Hf) as Ho. cbn [app] in Ho.
  pose proof (occ_not_Lf _ _ _ _ Ho) as Hn.
  destruct sub as [|d l c r]; [exfalso; apply Hn; reflexivity|].
  assert (Hfd : find (lru_iter p) (tr s) = Some d) by (unfold find; rewrite Hf; reflexivity).
  pose proof (occ_sub_at _ _ _ _ Ho Hnd) as Hs. cbn [root_addr] in Hs.
  pose proof (occ_nodup _ _ _ _ Ho Hnd) as Hnd2. cbn [addrs] in Hnd2.
  inversion Hnd2 as [|? ? Hn0 _]; subst.
  assert (Nc : ~ In (addr d) (addrs c)) by (intro H; apply Hn0; apply in_or_app; left; exact H).
  destruct (occ_kids _ _ _ _ _ _ _ Ho) as (Kc & _ & _).
  set (pre := lru_dirname p) in *. set (cur := pre ++ stem d).
  assert (Ecur : concat (removelast (lru_iter p) ++ [stem d]) = cur) by (rewrite concat_snoc; reflexivity).
  exists (addr d).
  eapply miter_chain; [apply step_ex; [reflexivity|apply (micro_prefix p ps st acc d Hfd)]|].
  fold pre.
  eapply miter_chain; [apply (node_run ps (addr d) (addr d) pre 0 [] acc _ d l c r Hs)|].
  rewrite N.eqb_refl. cbn [orb andb]. unfold kids. rewrite N.eqb_refl. fold cur. rewrite app_nil_r.
  eapply miter_chain; [apply (sub_run c _ cur (0 + 1) (addr d) ps [] _ Kc Ecur Nc)|].
  exists O. cbn [miter]. f_equal.
  unfold fpre. cbn [wdfs_at]. fold pre. fold cur. change (depth_ok None 0) with true. cbv iota.
  rewrite pg_cons, <- app_assoc.
  destruct (page d); reflexivity.
Qed.

Lemma prefixes_run : forall ps st acc,
  exists n, l_done (miter n (Q ps st [] [] None acc)) = true /\
    match over_prefixes fpre ps (tr s) with
    | ROk l => l_refused (miter n (Q ps st [] [] None acc)) = false /\
               l_acc (miter n (Q ps st [] [] None acc)) = acc ++ flat_map plof l
    | RRefused => l_refused (miter n (Q ps st [] [] None acc)) = true
    | RCrash => False
    end.
Proof.
  induction ps as [|p ps IH]; intros st acc.
  - exists 1%nat. rewrite (miter_S O) by reflexivity. rewrite micro_end. cbn [miter over_prefixes QD l_done l_refused l_acc flat_map].
    rewrite app_nil_r. auto.
  - cbn [over_prefixes]. destruct (find_sub (lru_iter p) (tr s)) as [sub|] eqn:Hf.
    + destruct (prefix_run p ps st acc sub Hf) as (st' & n1 & E1).
      destruct (IH st' (acc ++ flat_map plof (fpre p sub))) as (n2 & Hd & Hm).
      exists (n1 + n2)%nat. rewrite miter_add, E1. split; [exact Hd|].
      destruct (over_prefixes fpre ps (tr s)) as [| |l]; [exact Hm|exact Hm|].
      destruct Hm as (H1 & H2). split; [exact H1|]. rewrite H2, flat_map_app, app_assoc. reflexivity.
    + assert (Hfd : find (lru_iter p) (tr s) = None) by (unfold find; rewrite Hf; reflexivity).
      exists 1%nat. rewrite (miter_S O) by reflexivity. rewrite (micro_refuse p ps st acc Hfd).
      cbn [miter QD l_done l_refused]. auto.
Qed.

End Flags.
End Alone.

(* ====================================================================== *)
(* main theorems                                                          *)
(* ====================================================================== *)

(* state-level: any index whose tree is well formed with distinct, in-range block addresses *)
Theorem pagelinks_query_alone_state : forall s, good s ->
  forall w ps inb int outb,
  exists fuel q, run_alone fuel (CLinks (plinksq_start w ps inb int outb)) s = (CLinks q, s) /\ l_done q = true /\
    match webentity_pagelinks w ps inb int outb s with
    | ROk l => l_refused q = false /\ l_acc q = l
    | RRefused => l_refused q = true
    | RCrash => False
    end.
Proof.
  intros s Hg w ps inb int outb.
  change (plinksq_start w ps inb int outb) with (Q w inb int outb ps 0 [] [] None []).
  unfold webentity_pagelinks.
  destruct (negb int && negb outb && negb inb) eqn:Hfl.
  - (* no direction asked: refused at once *)
    set (q0 := Q w inb int outb ps 0 [] [] None []).
    assert (E : miter s 1 q0 = QD w inb int outb [] true).
    { rewrite (miter_S s O q0) by reflexivity. cbn [miter]. unfold lmicro, q0. cbn [Q l_int l_outb l_inb]. rewrite Hfl. reflexivity. }
    destruct (run_alone_miter s 1 q0) as (fuel & Hf); [rewrite E; reflexivity|].
    exists fuel, (miter s 1 q0). split; [exact Hf|]. rewrite E. split; reflexivity.
  - destruct (prefixes_run s w inb int outb Hfl Hg ps 0 []) as (n & Hd & Hm).
    destruct (run_alone_miter s n _ Hd) as (fuel & Hf).
    exists fuel, (miter s n (Q w inb int outb ps 0 [] [] None [])). split; [exact Hf|]. split; [exact Hd|].
    unfold we_page_nodes.
    change (fun (p : bytes) (sub : tst) => filter (fun x : bytes * nd => page (snd x)) (wdfs_at None (lru_dirname p) sub))
      with fpre.
    destruct (over_prefixes fpre ps (tr s)) as [| |l]; [exact Hm|exact Hm|].
    exact Hm.
Qed.

(* the coroutine run alone from any reachable state is the sequential request *)
Theorem pagelinks_query_alone : forall d rs h, wf_rules rs -> Forall wf_op h ->
  let s := run d rs h in
  forall w ps inb int outb, Forall wf_lru ps ->
  exists fuel q, run_alone fuel (CLinks (plinksq_start w ps inb int outb)) s = (CLinks q, s) /\ l_done q = true /\
    match webentity_pagelinks w ps inb int outb s with
    | ROk l => l_refused q = false /\ l_acc q = l
    | RRefused => l_refused q = true
    | RCrash => False
    end.
Proof.
  intros d rs h H1 H2 s w ps inb int outb _. apply pagelinks_query_alone_state. apply run_good; assumption.
Qed.

Print Assumptions pagelinks_query_alone_state.
Print Assumptions pagelinks_query_alone.
