(* SchedRefute.v — the clause of C16 "a query's answer contains no item that qualified at
   no moment of its execution" is FALSE of the network query (get_webentities_links_iter)
   interleaved with a rule installation, on the faithful model: the query resolves the
   webentity of every page while it walks the tree (phase 1) and combines these stale
   answers afterwards (phase 2).  When a creation rule moves two linked pages of one
   webentity into one new webentity between the two visits, the answer contains an edge
   old -> new although, at every moment, both pages belonged to the same webentity (and
   links inside one webentity are not reported).  The witness below is replayed on the
   real implementation by findings/repro.py (F10). *)
From Coq Require Import List NArith Bool Lia Arith.
Import ListNotations.
From Traph Require Import Bytes Consts Helpers Rules Tst TstDefs Traph Spec Ops RefDefs RefFull
  ViewFacts SchedFacts2 Sched SchedFacts6 PropsEx.
Open Scope N_scope.

(* the webentity-to-webentity edges of a network answer (kind 0 entries) *)
Definition edges (g : list (N * N * N * N)) : list (N * N) :=
  flat_map (fun x => let '(a, k, b, _) := x in if k =? 0 then [(a, b)] else []) g.
Definition edge_in (e : N * N) (l : list (N * N)) : bool :=
  existsb (fun x => (fst x =? fst e) && (snd x =? snd e)) l.

Lemma edge_in_In : forall e l, edge_in e l = false -> ~ In e l.
Proof.
  intros e l H Hin. unfold edge_in in H.
  assert (existsb (fun x => (fst x =? fst e) && (snd x =? snd e)) l = true) as E.
  { apply existsb_exists. exists e. split; [exact Hin|]. rewrite !N.eqb_refl. reflexivity. }
  rewrite E in H. discriminate.
Qed.

(* s:https|h:com|h:a|p:m|p:x|  ->  s:http|h:com|h:a|p:m|p:y|, both in the webentity of the domain *)
Definition rf_S : bytes := [115; 58; 104; 116; 116; 112; 115; 124; 104; 58; 99; 111; 109; 124; 104; 58; 97; 124; 112; 58; 109; 124; 112; 58; 120; 124].
Definition rf_T : bytes := [115; 58; 104; 116; 116; 112; 124; 104; 58; 99; 111; 109; 124; 104; 58; 97; 124; 112; 58; 109; 124; 112; 58; 121; 124].
Definition rf_P : bytes := [115; 58; 104; 116; 116; 112; 124; 104; 58; 99; 111; 109; 124; 104; 58; 97; 124].
Definition rf_hist : list op := [OAddPage rf_S false; OAddPage rf_T false; OAddLinks [(rf_S, rf_T)]].
Definition rf_s0 : traph := run Domain [] rf_hist.
Definition rf_jobs : list job := [JNet true false; JRule rf_P (Path 1)].
Definition rf_sched : list nat := [0; 1; 1; 1; 1; 1; 0; 0; 0]%nat.
Definition rf_edge : N * N := (1, 2).

Lemma rf_hist_wf : Forall wf_op rf_hist.
Proof. unfold rf_hist. repeat constructor; cbn [wf_op fst snd]; try wf_lru_tac; try discriminate. Qed.

Lemma rf_jobs_wf : Forall job_wf rf_jobs.
Proof. unfold rf_jobs. repeat constructor; cbn [job_wf]. wf_lru_tac. Qed.

(* the moments of the execution: the state after every prefix of the schedule *)
Definition moment (k : nat) : traph := snd (exec_sched (firstn k rf_sched) (map job_start rf_jobs) rf_s0).

Lemma rf_moments : forallb (fun k => negb (edge_in rf_edge (edges (webentities_links true false (moment k)))))
                           (seq 0 (S (length rf_sched))) = true.
Proof. vm_compute. reflexivity. Qed.

Theorem C16_network_no_moment_refuted :
  (* a reachable start state, refined by the specification *)
  R rf_s0 (srun Domain [] rf_hist) /\ Forall job_wf rf_jobs /\
  let cs := map job_start rf_jobs in
  let cs' := fst (exec_sched rf_sched cs rf_s0) in
  (* every request has finished *)
  forallb co_done cs' = true /\
  (* the network query answers with the edge 1 -> 2 *)
  (exists q, nth_error cs' 0 = Some (CNet q) /\ In rf_edge (edges (n_graph q))) /\
  (* which the uninterrupted query reports at no moment of the execution *)
  (forall k, (k <= length rf_sched)%nat ->
     ~ In rf_edge (edges (webentities_links true false (snd (exec_sched (firstn k rf_sched) cs rf_s0))))).
Proof.
  split; [apply run_R; [apply ex_rules_wf|apply rf_hist_wf]|].
  split; [apply rf_jobs_wf|]. cbv zeta.
  split; [vm_compute; reflexivity|].
  split.
  - eexists. split; [vm_compute; reflexivity|]. vm_compute. left. reflexivity.
  - intros k Hk. apply edge_in_In.
    pose proof rf_moments as H. rewrite forallb_forall in H.
    specialize (H k). apply negb_true_iff. apply H. apply in_seq. lia.
Qed.
Print Assumptions C16_network_no_moment_refuted.

(* ---------------------------------------------------------------------------------------
   The same clause for the page-link query (get_webentity_pagelinks_iter) with the outbound
   clause: the query decides that the source page belongs to the webentity when it pops it
   and resolves the target of each link after later yields.  Page A links to C and to B (all
   in webentity 1); after the first link the batch adds a page on the http side, where a
   path-1 creation rule sits: webentity 2 is created over A and B together.  The query then
   reports A -> B as leaving webentity 1, which it did at no moment (finding F11). *)
Definition rg_A : bytes := [115; 58; 104; 116; 116; 112; 115; 124; 104; 58; 99; 111; 109; 124; 104; 58; 97; 124; 112; 58; 109; 124; 112; 58; 110; 124].
Definition rg_B : bytes := [115; 58; 104; 116; 116; 112; 115; 124; 104; 58; 99; 111; 109; 124; 104; 58; 97; 124; 112; 58; 109; 124].
Definition rg_C : bytes := [115; 58; 104; 116; 116; 112; 115; 124; 104; 58; 99; 111; 109; 124; 104; 58; 97; 124; 112; 58; 107; 124].
Definition rg_Q : bytes := [115; 58; 104; 116; 116; 112; 124; 104; 58; 99; 111; 109; 124; 104; 58; 97; 124; 112; 58; 109; 124; 112; 58; 113; 124].
Definition rg_P : bytes := [115; 58; 104; 116; 116; 112; 124; 104; 58; 99; 111; 109; 124; 104; 58; 97; 124].
Definition rg_D : bytes := [115; 58; 104; 116; 116; 112; 115; 124; 104; 58; 99; 111; 109; 124; 104; 58; 97; 124].
Definition rg_rules : list (bytes * rulekind) := [(rg_P, Path 1)].
Definition rg_hist : list op := [OAddPages [rg_A; rg_B; rg_C] false; OAddLinks [(rg_A, rg_B); (rg_A, rg_C)]].
Definition rg_s0 : traph := run Domain rg_rules rg_hist.
Definition rg_jobs : list job := [JLinks 1 [rg_D] false false true; JBatch [(rg_Q, [])]].
Definition rg_sched : list nat := [0; 1; 1; 1; 0; 0; 0]%nat.
Definition rg_link : bytes * bytes * N := (rg_A, rg_B, 1).

Definition link_in (e : bytes * bytes * N) (l : list (bytes * bytes * N)) : bool :=
  existsb (fun x => beq (fst (fst x)) (fst (fst e)) && beq (snd (fst x)) (snd (fst e))) l.
Lemma link_in_In : forall e l, link_in e l = false -> ~ In e l.
Proof.
  intros e l H Hin. unfold link_in in H.
  assert (existsb (fun x => beq (fst (fst x)) (fst (fst e)) && beq (snd (fst x)) (snd (fst e))) l = true) as E.
  { apply existsb_exists. exists e. split; [exact Hin|]. rewrite !ViewFacts.beq_refl. reflexivity. }
  rewrite E in H. discriminate.
Qed.

Definition plain_links (s : traph) : list (bytes * bytes * N) :=
  match webentity_pagelinks 1 [rg_D] false false true s with ROk l => l | _ => [] end.

Lemma rg_rules_wf : wf_rules rg_rules.
Proof.
  split.
  - constructor; [cbn [fst]; wf_lru_tac|constructor].
  - cbn [map fst rg_rules]. constructor; [intros []|constructor].
Qed.
Lemma rg_hist_wf : Forall wf_op rg_hist.
Proof. unfold rg_hist. repeat constructor; cbn [wf_op fst snd]; try wf_lru_tac; try discriminate. Qed.
Lemma rg_jobs_wf : Forall job_wf rg_jobs.
Proof.
  unfold rg_jobs. repeat constructor; cbn [job_wf fst snd]; try exact I. wf_lru_tac.
Qed.

Definition not_refused (s : traph) : bool :=
  match webentity_pagelinks 1 [rg_D] false false true s with ROk _ => true | _ => false end.
Lemma rg_moments :
  forallb (fun k => let s := snd (exec_sched (firstn k rg_sched) (map job_start rg_jobs) rg_s0) in
                    not_refused s && negb (link_in rg_link (plain_links s)))
          (seq 0 (S (length rg_sched))) = true.
Proof. vm_compute. reflexivity. Qed.

Theorem C16_pagelinks_outbound_no_moment_refuted :
  R rg_s0 (srun Domain rg_rules rg_hist) /\ Forall job_wf rg_jobs /\
  let cs := map job_start rg_jobs in
  let cs' := fst (exec_sched rg_sched cs rg_s0) in
  forallb co_done cs' = true /\
  (exists q, nth_error cs' 0 = Some (CLinks q) /\ l_refused q = false /\ In rg_link (l_acc q)) /\
  (forall k, (k <= length rg_sched)%nat ->
     webentity_pagelinks 1 [rg_D] false false true (snd (exec_sched (firstn k rg_sched) cs rg_s0)) <> RRefused /\
     ~ In rg_link (plain_links (snd (exec_sched (firstn k rg_sched) cs rg_s0)))).
Proof.
  split; [apply run_R; [apply rg_rules_wf|apply rg_hist_wf]|].
  split; [apply rg_jobs_wf|]. cbv zeta.
  split; [vm_compute; reflexivity|].
  split.
  - eexists. split; [vm_compute; reflexivity|]. split; [vm_compute; reflexivity|]. vm_compute. left. reflexivity.
  - intros k Hk.
    pose proof rg_moments as H. rewrite forallb_forall in H.
    assert (In k (seq 0 (S (length rg_sched)))) as Hin by (apply in_seq; lia).
    specialize (H k Hin). cbv zeta in H. apply andb_true_iff in H. destruct H as (H1 & H2). split.
    + unfold not_refused in H1. intro E. rewrite E in H1. discriminate.
    + apply link_in_In. apply negb_true_iff. exact H2.
Qed.
Print Assumptions C16_pagelinks_outbound_no_moment_refuted.
