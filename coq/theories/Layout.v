(* Layout.v — the subset of Python `struct` native-mode formats the package uses:
   "<n>p" pascal string, "B" u8, "I" u32, "Q" u64, "<n>x" padding; native alignment
   (I on 4, Q on 8, no trailing padding).  Consts.v (regenerated) holds the format
   strings parsed into [fitem] lists; the sizes Python computes are re-proved there. *)
From Coq Require Import List NArith Bool.
Import ListNotations.
Open Scope N_scope.

Inductive fitem := FPas (n : N) | FU8 | FU32 | FU64 | FPad (n : N).

Definition fsize (f : fitem) : N :=
  match f with FPas n => n | FU8 => 1 | FU32 => 4 | FU64 => 8 | FPad n => n end.
Definition falign (f : fitem) : N :=
  match f with FU32 => 4 | FU64 => 8 | _ => 1 end.
Definition align_up (off a : N) : N := ((off + a - 1) / a) * a.

(* offsets of every item (padding items included), and total size *)
Fixpoint layout_from (off : N) (fs : list fitem) : list (fitem * N) * N :=
  match fs with
  | [] => ([], off)
  | f :: fs' =>
      let o := align_up off (falign f) in
      let '(r, e) := layout_from (o + fsize f) fs' in
      ((f, o) :: r, e)
  end.
Definition layout (fs : list fitem) := fst (layout_from 0 fs).
Definition layout_size (fs : list fitem) : N := snd (layout_from 0 fs).
(* offsets of the value-carrying items only (Python's tuple positions) *)
Definition is_value (f : fitem) : bool := match f with FPad _ => false | _ => true end.
Definition fields (fs : list fitem) : list (fitem * N) :=
  filter (fun p => is_value (fst p)) (layout fs).
Definition field_off (fs : list fitem) (i : nat) : N := snd (nth i (fields fs) (FU8, 0)).
Definition field_item (fs : list fitem) (i : nat) : fitem := fst (nth i (fields fs) (FU8, 0)).
