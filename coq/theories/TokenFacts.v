(* TokenFacts.v — pagination tokens and positional digits (Helpers.v): round trips. *)
From Coq Require Import List NArith Bool Lia Arith.
Import ListNotations.
From Traph Require Import Bytes Consts Helpers.
Open Scope N_scope.

(* ---- fuel ------------------------------------------------------------------------ *)
Lemma pos_size_nat_gt : forall p, N.pos p < 2 ^ N.of_nat (Pos.size_nat p).
Proof.
  induction p as [p IH|p IH|]; cbn [Pos.size_nat].
  - rewrite Nat2N.inj_succ, N.pow_succ_r'. lia.
  - rewrite Nat2N.inj_succ, N.pow_succ_r'. lia.
  - reflexivity.
Qed.

Lemma size_nat_gt : forall x, x < 2 ^ N.of_nat (N.size_nat x).
Proof.
  destruct x as [|p]; [reflexivity|]. apply pos_size_nat_gt.
Qed.

Lemma div_fuel : forall b f x, 2 <= b -> x < 2 ^ N.of_nat (S f) -> x / b < 2 ^ N.of_nat f.
Proof.
  intros b f x Hb Hx. rewrite Nat2N.inj_succ, N.pow_succ_r' in Hx.
  apply N.div_lt_upper_bound; [lia|]. nia.
Qed.

(* ---- digits_fuel ----------------------------------------------------------------- *)
Lemma digits_fuel_acc : forall b fuel x acc,
  digits_fuel b fuel x acc = digits_fuel b fuel x [] ++ acc.
Proof.
  intros b fuel; induction fuel as [|f IH]; intros x acc; cbn [digits_fuel].
  - reflexivity.
  - destruct (x =? 0); [reflexivity|].
    rewrite (IH (x / b) (x mod b :: acc)), (IH (x / b) [x mod b]).
    rewrite <- app_assoc. reflexivity.
Qed.

Lemma digits_fuel_indep : forall b f1 f2 x acc, 2 <= b ->
  x < 2 ^ N.of_nat f1 -> x < 2 ^ N.of_nat f2 ->
  digits_fuel b f1 x acc = digits_fuel b f2 x acc.
Proof.
  intros b f1; induction f1 as [|f1 IH]; intros f2 x acc Hb H1 H2.
  - cbn in H1. assert (x = 0) as -> by lia.
    destruct f2; reflexivity.
  - destruct f2 as [|f2].
    + cbn in H2. assert (x = 0) as -> by lia. reflexivity.
    + cbn [digits_fuel]. destruct (x =? 0); [reflexivity|].
      apply IH; auto using div_fuel.
Qed.

Lemma of_digits_app1 : forall b ds d, of_digits b (ds ++ [d]) = of_digits b ds * b + d.
Proof. intros b ds d. unfold of_digits. rewrite fold_left_app. reflexivity. Qed.

Lemma of_digits_fuel : forall b fuel x, 2 <= b -> x < 2 ^ N.of_nat fuel ->
  of_digits b (digits_fuel b fuel x []) = x.
Proof.
  intros b fuel; induction fuel as [|f IH]; intros x Hb Hx.
  - cbn in Hx. cbn. lia.
  - cbn [digits_fuel]. destruct (N.eqb_spec x 0) as [->|Hne]; [reflexivity|].
    rewrite digits_fuel_acc, of_digits_app1, IH by auto using div_fuel.
    rewrite N.mul_comm. symmetry. apply N.div_mod'.
Qed.

Theorem of_digits_to_digits : forall b x, 2 <= b -> of_digits b (to_digits b x) = x.
Proof. intros b x Hb. apply of_digits_fuel; auto using size_nat_gt. Qed.

Lemma digits_fuel_bound : forall b fuel x acc d, 2 <= b ->
  In d (digits_fuel b fuel x acc) -> In d acc \/ d < b.
Proof.
  intros b fuel; induction fuel as [|f IH]; intros x acc d Hb Hin; cbn [digits_fuel] in Hin.
  - auto.
  - destruct (x =? 0); [auto|].
    apply IH in Hin; [|assumption]. destruct Hin as [[<-|Hin]|Hlt]; auto.
    right. apply N.mod_lt. lia.
Qed.

Theorem to_digits_bound : forall b x d, 2 <= b -> In d (to_digits b x) -> d < b.
Proof.
  intros b x d Hb Hin. apply digits_fuel_bound in Hin; [|assumption].
  destruct Hin as [[]|Hlt]; assumption.
Qed.

Lemma to_digits_0 : forall b, to_digits b 0 = [].
Proof. reflexivity. Qed.

(* one more digit: the unfolding of to_digits at a non-zero number *)
Lemma to_digits_step : forall b x, 2 <= b -> x <> 0 ->
  to_digits b x = to_digits b (x / b) ++ [x mod b].
Proof.
  intros b x Hb Hx. unfold to_digits.
  pose proof (size_nat_gt x) as Hs.
  destruct (N.size_nat x) as [|f] eqn:Ef.
  - cbn in Hs. lia.
  - cbn [digits_fuel]. destruct (N.eqb_spec x 0) as [->|_]; [congruence|].
    rewrite digits_fuel_acc. f_equal.
    apply digits_fuel_indep; auto using div_fuel, size_nat_gt.
Qed.

Lemma to_digits_nonempty : forall b x, 2 <= b -> x <> 0 -> to_digits b x <> [].
Proof.
  intros b x Hb Hx. rewrite to_digits_step by assumption.
  destruct (to_digits b (x / b)); discriminate.
Qed.

(* ---- base 64 --------------------------------------------------------------------- *)
Lemma lt64_in : forall d, d < 64 -> In d (map N.of_nat (seq 0 64)).
Proof.
  intros d Hd. apply in_map_iff. exists (N.to_nat d). split; [lia|].
  apply in_seq. lia.
Qed.

Lemma b64_index_char : forall d, d < 64 -> b64_index (b64_char d) = Some d.
Proof.
  intros d Hd.
  assert (forallb (fun d => match b64_index (b64_char d) with
                            | Some v => v =? d | None => false end)
                  (map N.of_nat (seq 0 64)) = true) as H by (vm_compute; reflexivity).
  rewrite forallb_forall in H. specialize (H d (lt64_in d Hd)).
  destruct (b64_index (b64_char d)) as [v|]; [|discriminate].
  apply N.eqb_eq in H. congruence.
Qed.

Lemma b64_char_in : forall d, d < 64 -> In (b64_char d) base64_alphabet.
Proof.
  intros d Hd. unfold b64_char. apply nth_In.
  change (length base64_alphabet) with 64%nat. lia.
Qed.

Lemma alphabet_no_hash : ~ In hash_char base64_alphabet.
Proof.
  intro Hin.
  assert (forallb (fun c => negb (c =? hash_char)) base64_alphabet = true) as H
    by (vm_compute; reflexivity).
  rewrite forallb_forall in H. specialize (H _ Hin).
  rewrite N.eqb_refl in H. discriminate.
Qed.

Lemma base64_to_int_acc_map : forall ds acc, (forall d, In d ds -> d < 64) ->
  base64_to_int_acc (map b64_char ds) acc = Some (fold_left (fun a d => a * 64 + d) ds acc).
Proof.
  induction ds as [|d ds IH]; intros acc Hds; cbn [map base64_to_int_acc fold_left].
  - reflexivity.
  - rewrite b64_index_char by (apply Hds; left; reflexivity).
    apply IH. intros d' Hd'. apply Hds. right. assumption.
Qed.

Theorem b64_roundtrip : forall x, base64_to_int (int_to_base64 x) = Some x.
Proof.
  intro x. unfold int_to_base64, base64_to_int.
  destruct (N.eqb_spec x 0) as [->|Hne]; [reflexivity|].
  rewrite base64_to_int_acc_map.
  - f_equal. apply (of_digits_to_digits 64 x). lia.
  - intros d Hd. apply (to_digits_bound 64 x); [lia|assumption].
Qed.

(* ---- decimal --------------------------------------------------------------------- *)
Lemma dec_to_int_acc_map : forall ds acc, (forall d, In d ds -> d < 10) ->
  dec_to_int_acc (map dec_char ds) acc = Some (fold_left (fun a d => a * 10 + d) ds acc).
Proof.
  induction ds as [|d ds IH]; intros acc Hds; cbn [map dec_to_int_acc fold_left].
  - reflexivity.
  - assert (d < 10) as Hd by (apply Hds; left; reflexivity).
    change (dec_char d) with (48 + d). unfold is_digit.
    replace (48 <=? 48 + d) with true by (symmetry; apply N.leb_le; lia).
    replace (48 + d <=? 57) with true by (symmetry; apply N.leb_le; lia).
    cbn [andb]. replace (48 + d - 48) with d by lia.
    apply IH. intros d' Hd'. apply Hds. right. assumption.
Qed.

Theorem dec_roundtrip : forall x, dec_to_int (int_to_dec x) = Some x.
Proof.
  intro x. unfold int_to_dec, dec_to_int.
  destruct (N.eqb_spec x 0) as [->|Hne]; [reflexivity|].
  pose proof (to_digits_nonempty 10 x ltac:(lia) Hne) as Hnil.
  destruct (map dec_char (to_digits 10 x)) as [|c s] eqn:Em.
  - destruct (to_digits 10 x); [congruence|discriminate].
  - rewrite <- Em. rewrite dec_to_int_acc_map.
    + f_equal. apply (of_digits_to_digits 10 x). lia.
    + intros d Hd. apply (to_digits_bound 10 x); [lia|assumption].
Qed.

(* ---- tokens ---------------------------------------------------------------------- *)
Lemma split_on_absent : forall s l, ~ In s l -> split_on s l = [l].
Proof.
  intros s l; induction l as [|x l IH]; intro Hn; cbn [split_on].
  - reflexivity.
  - destruct (N.eqb_spec x s) as [->|Hne].
    + exfalso. apply Hn. left. reflexivity.
    + rewrite IH; [reflexivity|]. intro Hin. apply Hn. right. assumption.
Qed.

Lemma split_on_app : forall s a b, ~ In s a ->
  split_on s (a ++ s :: b) = a :: split_on s b.
Proof.
  intros s a b; induction a as [|x a IH]; intro Hn; cbn [app split_on].
  - rewrite N.eqb_refl. reflexivity.
  - destruct (N.eqb_spec x s) as [->|Hne].
    + exfalso. apply Hn. left. reflexivity.
    + rewrite IH; [reflexivity|]. intro Hin. apply Hn. right. assumption.
Qed.

Lemma dec_no_hash : forall x, ~ In hash_char (int_to_dec x).
Proof.
  intros x Hin. unfold int_to_dec in Hin.
  destruct (x =? 0).
  - destruct Hin as [H|[]]. discriminate.
  - apply in_map_iff in Hin. destruct Hin as [d [Hd _]].
    unfold dec_char, hash_char in Hd. lia.
Qed.

Lemma b64_no_hash : forall x, ~ In hash_char (int_to_base64 x).
Proof.
  intros x Hin. apply alphabet_no_hash. unfold int_to_base64 in Hin.
  destruct (x =? 0).
  - destruct Hin as [<-|[]]. apply b64_char_in. lia.
  - apply in_map_iff in Hin. destruct Hin as [d [<- Hd]].
    apply b64_char_in. apply (to_digits_bound 64 x); [lia|assumption].
Qed.

Theorem token_roundtrip : forall i p, parse_token (build_token i p) = Some (i, p).
Proof.
  intros i p. unfold parse_token, build_token.
  rewrite split_on_app by apply dec_no_hash.
  rewrite split_on_absent by apply b64_no_hash.
  rewrite dec_roundtrip, b64_roundtrip. reflexivity.
Qed.

(* ---- base 4 paths ---------------------------------------------------------------- *)
(* appending an op digit to a path appends one base-4 digit *)
Theorem base4_digits_gen : forall p d, d < 4 -> (p <> 0 \/ d <> 0) ->
  int_to_base4 (base4_append p d) = (if p =? 0 then [] else int_to_base4 p) ++ [d].
Proof.
  intros p d Hd Hnz. unfold int_to_base4, base4_append.
  destruct (N.eqb_spec (p * 4 + d) 0) as [E|Hne]; [lia|].
  rewrite to_digits_step by lia.
  replace ((p * 4 + d) / 4) with p by (apply N.div_unique with d; lia).
  replace ((p * 4 + d) mod 4) with d by (apply N.mod_unique with p; lia).
  destruct (N.eqb_spec p 0) as [->|_]; reflexivity.
Qed.

Theorem base4_digits : forall p d, 1 <= d <= 3 ->
  int_to_base4 (base4_append p d) = (if p =? 0 then [] else int_to_base4 p) ++ [d].
Proof. intros p d Hd. apply base4_digits_gen; lia. Qed.

Theorem to_digits_of_digits : forall b x, 2 <= b -> of_digits b (to_digits b x) = x.
Proof. exact of_digits_to_digits. Qed.
