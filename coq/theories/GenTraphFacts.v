(* GenTraphFacts.v — the resolution requests of the public API translated from /repo/traph/traph.py on every run
   (GenTraph.v: Traph.retrieve_prefix, retrieve_webentity, get_webentity_by_prefix, over the translated
   LRUTrie.follow_lru / lru_node) answer exactly what the model's Traph.retrieve_prefix / retrieve_webentity /
   webentity_by_prefix answer, on the trie file of every state satisfying the block invariant Inv18; a refusal
   (TraphException) is None on both sides, and the translated code never fails otherwise. *)
From Coq Require Import List NArith Bool Lia Arith.
Import ListNotations.
From Traph Require Import Bytes Consts Layout Helpers Rules Tst TstDefs Traph Traphw TraceDefs Codec CodecFacts
  TstFacts Store StoreFacts GenStorage GenNode GenNodeFacts GenTrie GenTrieFacts GenTrieW GenTrieWDefs GenTrieWFollow GenTraph.
Open Scope N_scope.

Section OnState.
  Variable s : traph.
  Hypothesis Hinv : Inv18 s.
  Hypothesis Hroot : root_first s.

  Theorem py_traph_retrieve_webentity_spec : forall sg lru, trep (files_of s) sg -> wf_lru lru ->
    option_map snd (py_traph_retrieve_webentity sg lru) = retrieve_webentity lru s /\
    (forall r, py_traph_retrieve_webentity sg lru = Some r -> trep (files_of s) (fst r) /\ pm_array (fst r) = pm_array sg).
  Proof.
    intros sg lru Hrep Hwf.
    destruct (py_trie_follow_lru_spec s Hinv sg lru Hroot Hrep Hwf) as (sg' & on & ph & E & Hrep' & Harr & Hh & _).
    unfold py_traph_retrieve_webentity. rewrite E. unfold retrieve_webentity, q_follow.
    destruct Hh as (_ & Hwe & _). rewrite Hwe.
    destruct (h_we (fst (follow (lru_iter lru) [] hist0 (tr s))) =? 0) eqn:Ez.
    - split; [reflexivity|]. intros r Hr. discriminate Hr.
    - rewrite Ez. split; [reflexivity|]. intros r Hr. injection Hr as <-. split; assumption.
  Qed.

  Theorem py_traph_retrieve_prefix_spec : forall sg lru, trep (files_of s) sg -> wf_lru lru ->
    option_map snd (py_traph_retrieve_prefix sg lru) = retrieve_prefix lru s /\
    (forall r, py_traph_retrieve_prefix sg lru = Some r -> trep (files_of s) (fst r) /\ pm_array (fst r) = pm_array sg).
  Proof.
    intros sg lru Hrep Hwf.
    destruct (py_trie_follow_lru_spec s Hinv sg lru Hroot Hrep Hwf) as (sg' & on & ph & E & Hrep' & Harr & Hh & _).
    unfold py_traph_retrieve_prefix. rewrite E. unfold retrieve_prefix, q_follow.
    destruct Hh as (_ & _ & Hp & _). rewrite Hp.
    destruct (h_pref (fst (follow (lru_iter lru) [] hist0 (tr s)))) as [|b p].
    - split; [reflexivity|]. intros r Hr. discriminate Hr.
    - split; [reflexivity|]. intros r Hr. cbn in Hr. injection Hr as <-. split; assumption.
  Qed.

  Lemma get_we' : forall b, py_get_num pos_we (tblock_vals b) = b_we b.
  Proof. intros [st fl w l r c p o i]. reflexivity. Qed.

  (* None stands for TraphException on the code's side, RRefused on the model's *)
  Theorem py_traph_get_webentity_by_prefix_spec : forall sg p, trep (files_of s) sg -> wf_lru p ->
    match webentity_by_prefix p s with
    | ROk w => exists sg', py_traph_get_webentity_by_prefix sg p = Some (sg', w) /\ trep (files_of s) sg'
    | _ => py_traph_get_webentity_by_prefix sg p = None
    end.
  Proof.
    intros sg p Hrep Hwf.
    destruct (py_trie_lru_node_spec s Hinv sg p Hroot Hrep Hwf) as (sg' & Hrep' & H).
    unfold py_traph_get_webentity_by_prefix, webentity_by_prefix, find.
    destruct (find_sub (lru_iter p) (tr s)) as [t'|].
    - destruct H as (n' & E & Hn). rewrite E. destruct t' as [|d l c r]; [destruct Hn|].
      cbn [node_of]. destruct Hn as (_ & _ & Hd & _).
      unfold py_node_has_webentity, py_node_webentity. rewrite Hd, get_we'. cbn [main_block b_we].
      destruct (we d =? 0) eqn:Ez; cbn [negb].
      + reflexivity.
      + exists sg'. split; [reflexivity|exact Hrep'].
    - rewrite H. reflexivity.
  Qed.
End OnState.

Print Assumptions py_traph_retrieve_webentity_spec.
Print Assumptions py_traph_retrieve_prefix_spec.
Print Assumptions py_traph_get_webentity_by_prefix_spec.
