(* QueryCore2.v — tree-level characterisations of the traversals used by the read
   requests: subtrees found by [find_sub], [ancestors], [dfs], [dfs_skip], [wdfs].
   No reference to the abstraction relation here (see QueryCore3.v). *)
From Coq Require Import List NArith Bool Lia Arith Permutation.
Import ListNotations.
From Traph Require Import Bytes Consts Helpers Rules Tst TstDefs Traph Spec TstFacts QueryCore.
Open Scope N_scope.

(* ====================================================================== *)
(* Sub-lists (order-preserving selections)                                *)
(* ====================================================================== *)
Inductive sublist {A : Type} : list A -> list A -> Prop :=
| sl_nil : sublist [] []
| sl_skip : forall x l1 l2, sublist l1 l2 -> sublist l1 (x :: l2)
| sl_cons : forall x l1 l2, sublist l1 l2 -> sublist (x :: l1) (x :: l2).

Lemma sublist_nil_l : forall (A : Type) (l : list A), sublist [] l.
Proof. intros A l. induction l; constructor; assumption. Qed.

Lemma sublist_refl : forall (A : Type) (l : list A), sublist l l.
Proof. intros A l. induction l; constructor; assumption. Qed.

Lemma sublist_app : forall (A : Type) (a1 a2 b1 b2 : list A),
  sublist a1 a2 -> sublist b1 b2 -> sublist (a1 ++ b1) (a2 ++ b2).
Proof.
  intros A a1 a2 b1 b2 Ha Hb. induction Ha; cbn [app]; [exact Hb| |]; constructor; assumption.
Qed.

Lemma sublist_app_r : forall (A : Type) (a b c : list A), sublist a b -> sublist a (c ++ b).
Proof. intros A a b c H. apply (sublist_app A [] c a b); [apply sublist_nil_l|exact H]. Qed.

Lemma sublist_app_l : forall (A : Type) (a b c : list A), sublist a b -> sublist a (b ++ c).
Proof.
  intros A a b c H. rewrite <- (app_nil_r a). apply sublist_app; [exact H|apply sublist_nil_l].
Qed.

Lemma sublist_trans : forall (A : Type) (l2 l3 : list A), sublist l2 l3 ->
  forall l1, sublist l1 l2 -> sublist l1 l3.
Proof.
  intros A l2 l3 H. induction H as [|x l2 l3 H IH|x l2 l3 H IH]; intros l1 H1.
  - exact H1.
  - constructor. apply IH. exact H1.
  - inversion H1 as [|y a b Hs|y a b Hs]; subst.
    + apply sl_skip. apply IH. exact Hs.
    + apply sl_cons. apply IH. exact Hs.
Qed.

Lemma sublist_map : forall (A B : Type) (f : A -> B) (l1 l2 : list A),
  sublist l1 l2 -> sublist (map f l1) (map f l2).
Proof. intros A B f l1 l2 H. induction H; cbn [map]; constructor; assumption. Qed.

Lemma sublist_In : forall (A : Type) (l1 l2 : list A) x, sublist l1 l2 -> In x l1 -> In x l2.
Proof.
  intros A l1 l2 x H. induction H as [|y l1 l2 H IH|y l1 l2 H IH]; intro Hin.
  - exact Hin.
  - right. apply IH. exact Hin.
  - destruct Hin as [E|Hin]; [left; exact E|right; apply IH; exact Hin].
Qed.

Lemma sublist_NoDup : forall (A : Type) (l1 l2 : list A), sublist l1 l2 -> NoDup l2 -> NoDup l1.
Proof.
  intros A l1 l2 H. induction H as [|y l1 l2 H IH|y l1 l2 H IH]; intro Hnd.
  - constructor.
  - inversion Hnd; subst. apply IH. assumption.
  - inversion Hnd as [|z l Hy Hnd']; subst. constructor; [|apply IH; exact Hnd'].
    intro Hin. apply Hy. eapply sublist_In; eauto.
Qed.

Lemma Permutation_filter' : forall (A : Type) (f : A -> bool) (l l' : list A),
  Permutation l l' -> Permutation (filter f l) (filter f l').
Proof.
  intros A f l l' H. induction H as [|x l l' H IH|x y l|l l' l'' H1 IH1 H2 IH2]; cbn [filter].
  - constructor.
  - destruct (f x); [constructor|]; exact IH.
  - destruct (f x), (f y); try apply Permutation_refl. apply perm_swap.
  - eapply Permutation_trans; eauto.
Qed.

Lemma app_eq_split : forall (A : Type) (q v ss r : list A), q ++ v = ss ++ r ->
  (exists u, ss = q ++ u) \/ (exists r1 r2, r1 <> [] /\ q = ss ++ r1 /\ r = r1 ++ r2).
Proof.
  intros A q. induction q as [|x q IH]; intros v ss r E.
  - left. exists ss. reflexivity.
  - destruct ss as [|y ss].
    + right. exists (x :: q), v. split; [discriminate|]. split; [reflexivity|]. symmetry. exact E.
    + cbn [app] in E. injection E as <- E. apply IH in E. destruct E as [(u & ->)|(r1 & r2 & Hr1 & -> & ->)].
      * left. exists u. reflexivity.
      * right. exists r1, r2. split; [exact Hr1|]. split; reflexivity.
Qed.

Lemma app_nonnil_neq : forall (A : Type) (l r : list A), r <> [] -> l <> l ++ r.
Proof.
  intros A l r Hr E. rewrite <- (app_nil_r l) in E at 1. apply app_inv_head in E. congruence.
Qed.

Lemma is_prefix_app : forall p r, is_prefix p (p ++ r) = true.
Proof.
  induction p as [|x p IH]; intro r; [reflexivity|].
  cbn [app is_prefix]. rewrite beq_refl, IH. reflexivity.
Qed.

(* ====================================================================== *)
(* find_sub                                                               *)
(* ====================================================================== *)
Lemma find_sub_Lf : forall ss, find_sub ss Lf = None.
Proof. destruct ss; reflexivity. Qed.

Lemma find_sub_Nd : forall s rest d l c r,
  find_sub (s :: rest) (Nd d l c r) =
  match lex s (stem d) with
  | Eq => match rest with [] => Some (Nd d l c r) | _ :: _ => find_sub rest c end
  | Lt => find_sub (s :: rest) l
  | Gt => find_sub (s :: rest) r
  end.
Proof. reflexivity. Qed.

(* the subtree found at [ss]: its node is the one [find] returns, and lookups
   below [ss] continue in its child tree *)
Lemma find_sub_some : forall ss t sub, find_sub ss t = Some sub ->
  exists d l c r, sub = Nd d l c r /\ find ss t = Some d /\
                  (forall r', r' <> [] -> find (ss ++ r') t = find r' c).
Proof.
  induction ss as [|s rest IHss]; intros t sub; [discriminate|].
  induction t as [|d l IHl c _ r IHr].
  - rewrite find_sub_Lf. discriminate.
  - rewrite find_sub_Nd. destruct (lex s (stem d)) eqn:E.
    + destruct rest as [|x2 p2].
      * intro H. injection H as <-. exists d, l, c, r. split; [reflexivity|]. split.
        -- rewrite find_Nd, E. reflexivity.
        -- intros r' Hr'. cbn [app]. rewrite find_Nd, E. destruct r'; [congruence|reflexivity].
      * intro H. apply IHss in H. destruct H as (d' & l' & c' & r0 & -> & Hf & Hbelow).
        exists d', l', c', r0. split; [reflexivity|]. split.
        -- rewrite find_Nd, E. exact Hf.
        -- intros r' Hr'. cbn [app]. rewrite find_Nd, E. apply (Hbelow r' Hr').
    + intro H. apply IHl in H. destruct H as (d' & l' & c' & r0 & -> & Hf & Hbelow).
      exists d', l', c', r0. split; [reflexivity|]. split.
      * rewrite find_Nd, E. exact Hf.
      * intros r' Hr'. cbn [app]. rewrite find_Nd, E. apply (Hbelow r' Hr').
    + intro H. apply IHr in H. destruct H as (d' & l' & c' & r0 & -> & Hf & Hbelow).
      exists d', l', c', r0. split; [reflexivity|]. split.
      * rewrite find_Nd, E. exact Hf.
      * intros r' Hr'. cbn [app]. rewrite find_Nd, E. apply (Hbelow r' Hr').
Qed.

Lemma find_sub_none : forall ss t, find_sub ss t = None <-> find ss t = None.
Proof.
  intros ss t. split.
  - intro H. unfold find. rewrite H. reflexivity.
  - intro H. destruct (find_sub ss t) as [sub|] eqn:E; [|reflexivity].
    apply find_sub_some in E. destruct E as (d & l & c & r & _ & Hf & _). congruence.
Qed.

Lemma find_sub_wf : forall ss t sub, wf_tst t -> find_sub ss t = Some sub -> wf_tst sub.
Proof.
  induction ss as [|s rest IHss]; intros t sub Hw; [discriminate|].
  induction t as [|d l IHl c _ r IHr].
  - rewrite find_sub_Lf. discriminate.
  - assert (Hl : wf_tst l /\ wf_tst c /\ wf_tst r).
    { destruct Hw as [Hb Hs]. cbn [bst stems_wf] in Hb, Hs. unfold wf_tst. tauto. }
    destruct Hl as (Wl & Wc & Wr).
    rewrite find_sub_Nd. destruct (lex s (stem d)).
    + destruct rest as [|x2 p2].
      * intro H. injection H as <-. exact Hw.
      * apply IHss. exact Wc.
    + apply IHl. exact Wl.
    + apply IHr. exact Wr.
Qed.

Lemma wf_tst_child : forall d l c r, wf_tst (Nd d l c r) -> wf_tst c.
Proof. intros d l c r [Hb Hs]. cbn [bst stems_wf] in Hb, Hs. unfold wf_tst. tauto. Qed.

(* the traversal from the found node is a selection of the whole enumeration *)
Lemma dfs_at_sublist : forall ss t sub pre, find_sub ss t = Some sub ->
  sublist (dfs_at false (pre ++ concat (removelast ss)) sub) (dfs pre t).
Proof.
  induction ss as [|s rest IHss]; intros t sub pre; [discriminate|].
  induction t as [|d l IHl c _ r IHr].
  - rewrite find_sub_Lf. discriminate.
  - rewrite find_sub_Nd. cbn [dfs]. destruct (lex s (stem d)) eqn:E.
    + apply lex_eq in E. subst s. destruct rest as [|x2 p2].
      * intro H. injection H as <-. cbn [removelast concat dfs_at]. rewrite app_nil_r.
        apply sl_cons. apply sublist_app_l. apply sublist_refl.
      * intro H. apply (IHss c sub (pre ++ stem d)) in H.
        change (removelast (stem d :: x2 :: p2)) with (stem d :: removelast (x2 :: p2)).
        cbn [concat]. rewrite app_assoc. apply sl_skip. apply sublist_app_l. exact H.
    + intro H. apply sl_skip. apply sublist_app_r. apply sublist_app_l. apply IHl. exact H.
    + intro H. apply sl_skip. apply sublist_app_r. apply sublist_app_r. apply IHr. exact H.
Qed.

Lemma dirname_last : forall ss : list bytes, ss <> [] ->
  concat (removelast ss) ++ last ss [] = concat ss.
Proof.
  intros ss Hne. rewrite <- concat_snoc. rewrite <- app_removelast_last by exact Hne. reflexivity.
Qed.

(* ====================================================================== *)
(* ancestors                                                              *)
(* ====================================================================== *)
Lemma ancestors_Lf : forall ss acc, ancestors ss acc Lf = acc.
Proof. destruct ss; reflexivity. Qed.

Lemma ancestors_Nd : forall s rest acc d l c r,
  ancestors (s :: rest) acc (Nd d l c r) =
  match lex s (stem d) with
  | Eq => match rest with [] => acc | _ :: _ => ancestors rest (d :: acc) c end
  | Lt => ancestors (s :: rest) acc l
  | Gt => ancestors (s :: rest) acc r
  end.
Proof. reflexivity. Qed.

Lemma ancestors_sib : forall s rest acc t,
  ancestors (s :: rest) acc t =
  match sib_find s t with
  | Some (d, c) => match rest with [] => acc | _ :: _ => ancestors rest (d :: acc) c end
  | None => acc
  end.
Proof.
  intros. induction t as [|d l IHl c _ r IHr].
  - apply ancestors_Lf.
  - rewrite ancestors_Nd. cbn [sib_find]. destruct (lex s (stem d)); auto.
Qed.

Lemma ancestors_in : forall ss t acc d0, find ss t = Some d0 ->
  forall d, In d (ancestors ss acc t) <->
            In d acc \/ exists q r, ss = q ++ r /\ q <> [] /\ r <> [] /\ find q t = Some d.
Proof.
  induction ss as [|s rest IHss]; intros t acc d0 Hf d; [rewrite find_nil in Hf; discriminate|].
  rewrite ancestors_sib. rewrite find_sib in Hf.
  destruct (sib_find s t) as [[d1 c]|] eqn:Es; [|discriminate].
  destruct rest as [|x2 p2].
  - split; [auto|]. intros [H|(q & r & E & Hq & Hr & _)]; [exact H|].
    exfalso. destruct q as [|y q]; [congruence|]. cbn [app] in E. injection E as _ E.
    symmetry in E. apply app_eq_nil in E. destruct E as [_ E]. contradiction.
  - rewrite (IHss c (d1 :: acc) d0 Hf d). cbn [In]. split.
    + intros [[<-|H]|(q & r & E & Hq & Hr & Hfq)].
      * right. exists [s], (x2 :: p2). split; [reflexivity|]. split; [discriminate|].
        split; [discriminate|]. rewrite find_sib, Es. reflexivity.
      * left. exact H.
      * right. exists (s :: q), r. split; [cbn [app]; rewrite E; reflexivity|].
        split; [discriminate|]. split; [exact Hr|].
        rewrite find_sib, Es. destruct q; [congruence|exact Hfq].
    + intros [H|(q & r & E & Hq & Hr & Hfq)]; [left; right; exact H|].
      destruct q as [|y q]; [congruence|]. cbn [app] in E. injection E as <- E.
      rewrite find_sib, Es in Hfq. destruct q as [|y2 q2].
      * injection Hfq as ->. left. left. reflexivity.
      * right. exists (y2 :: q2), r. split; [exact E|]. split; [discriminate|]. auto.
Qed.

(* ====================================================================== *)
(* dfs / dfs_skip                                                         *)
(* ====================================================================== *)
Lemma dfs_in : forall c pre x d, bst c ->
  (In (x, d) (dfs pre c) <-> exists r, x = pre ++ concat r /\ find r c = Some d).
Proof.
  intros c pre x d Hb.
  assert (E : dfs pre c = dfs (concat [pre]) c) by (cbn [concat]; rewrite app_nil_r; reflexivity).
  rewrite E, dfs_paths, in_map_iff. split.
  - intros ([q d'] & Eq & Hin). cbn [fst snd] in Eq. injection Eq as <- <-.
    apply paths_find_fwd in Hin; [|exact Hb]. destruct Hin as (r & -> & Hf).
    exists r. split; [|exact Hf]. cbn [app concat]. reflexivity.
  - intros (r & -> & Hf). exists ([pre] ++ r, d). split; [reflexivity|].
    apply paths_find_bwd. exact Hf.
Qed.

Lemma dfs_skip_incl : forall t pre y, In y (dfs_skip pre t) -> In y (dfs pre t).
Proof.
  induction t as [|d l IHl c IHc r IHr]; intros pre y; [auto|].
  cbn [dfs_skip dfs In]. rewrite !in_app_iff. intros [H|[H|[H|H]]]; auto.
  destruct (nochild d); [destruct H|]. right. left. apply IHc. exact H.
Qed.

Lemma dfs_skip_in : forall c pre r d', find r c = Some d' ->
  (forall r1 r2 d1, r = r1 ++ r2 -> r1 <> [] -> r2 <> [] -> find r1 c = Some d1 -> nochild d1 = false) ->
  In (pre ++ concat r, d') (dfs_skip pre c).
Proof.
  induction c as [|d l IHl c IHc r0 IHr]; intros pre r d' Hf Hno.
  - rewrite find_Lf in Hf. discriminate.
  - destruct r as [|s rest]; [rewrite find_nil in Hf; discriminate|].
    rewrite find_Nd in Hf. cbn [dfs_skip In]. rewrite !in_app_iff.
    destruct (lex s (stem d)) eqn:E.
    + assert (Es := E). apply lex_eq in Es. subst s. destruct rest as [|x2 p2].
      * injection Hf as ->. left. cbn [concat]. rewrite app_nil_r. reflexivity.
      * right. left.
        assert (Hn : nochild d = false).
        { apply (Hno [stem d] (x2 :: p2) d); [reflexivity|discriminate|discriminate|].
          rewrite find_Nd, E. reflexivity. }
        rewrite Hn. rewrite concat_cons, app_assoc. apply IHc; [exact Hf|].
        intros r1 r2 d1 Er Hr1 Hr2 Hf1.
        apply (Hno (stem d :: r1) r2 d1); [cbn [app]; rewrite Er; reflexivity|discriminate|exact Hr2|].
        rewrite find_Nd, E. destruct r1; [congruence|exact Hf1].
    + right. right. left. apply IHl; [exact Hf|].
      intros r1 r2 d1 Er Hr1 Hr2 Hf1. apply (Hno r1 r2 d1 Er Hr1 Hr2).
      destruct r1 as [|y r1]; [congruence|]. cbn [app] in Er. injection Er as <- _.
      rewrite find_Nd, E. exact Hf1.
    + right. right. right. apply IHr; [exact Hf|].
      intros r1 r2 d1 Er Hr1 Hr2 Hf1. apply (Hno r1 r2 d1 Er Hr1 Hr2).
      destruct r1 as [|y r1]; [congruence|]. cbn [app] in Er. injection Er as <- _.
      rewrite find_Nd, E. exact Hf1.
Qed.

(* ====================================================================== *)
(* wdfs                                                                   *)
(* ====================================================================== *)
Lemma wdfs_sublist : forall t maxd lvl pre, sublist (wdfs maxd lvl pre t) (dfs pre t).
Proof.
  induction t as [|d l IHl c IHc r IHr]; intros maxd lvl pre; [constructor|].
  cbn [wdfs dfs].
  change ((pre ++ stem d, d) :: dfs (pre ++ stem d) c ++ dfs pre l ++ dfs pre r)
    with (((pre ++ stem d, d) :: dfs (pre ++ stem d) c) ++ dfs pre l ++ dfs pre r).
  apply sublist_app; [|apply sublist_app; auto].
  destruct (we d =? 0); [|apply sublist_nil_l].
  apply sl_cons. destruct (depth_ok maxd lvl); [apply IHc|apply sublist_nil_l].
Qed.

Lemma wdfs_at_sublist : forall t maxd pre, sublist (wdfs_at maxd pre t) (dfs_at false pre t).
Proof.
  intros [|d l c r] maxd pre; [constructor|]. cbn [wdfs_at dfs_at]. apply sl_cons.
  destruct (depth_ok maxd 0); [apply wdfs_sublist|apply sublist_nil_l].
Qed.

(* the nodes on the way down all lack a webentity *)
Definition realm_ok (c : tst) (r : list bytes) : Prop :=
  forall r1 r2 d1, r = r1 ++ r2 -> r1 <> [] -> find r1 c = Some d1 -> we d1 = 0.
Definition lvl_ok (maxd : option N) (lvl : N) (k : nat) : Prop :=
  match maxd with None => True | Some m => lvl + N.of_nat k <= m + 1 end.

Lemma depth_ok_next : forall maxd lvl, depth_ok maxd lvl = true -> lvl_ok maxd (lvl + 1) 1.
Proof.
  intros [m|] lvl; cbn [depth_ok lvl_ok]; [|auto]. intro H. apply N.ltb_lt in H. lia.
Qed.

Lemma wdfs_in : forall c maxd lvl pre x d', bst c -> lvl_ok maxd lvl 1 ->
  (In (x, d') (wdfs maxd lvl pre c) <->
   exists r, x = pre ++ concat r /\ find r c = Some d' /\ realm_ok c r /\ lvl_ok maxd lvl (length r)).
Proof.
  induction c as [|d l IHl c IHc r0 IHr]; intros maxd lvl pre x d' Hb Hlv.
  - cbn [wdfs In]. split; [intros []|]. intros (r & _ & Hf & _). rewrite find_Lf in Hf. discriminate.
  - cbn [bst] in Hb. destruct Hb as (Hl & Hr & Bl & Bc & Br).
    cbn [wdfs]. rewrite !in_app_iff. split.
    + intros [H|[H|H]].
      * destruct (we d =? 0) eqn:Ew; [|destruct H]. apply N.eqb_eq in Ew.
        destruct H as [E|H].
        -- injection E as <- <-. exists [stem d]. split; [cbn [concat]; rewrite app_nil_r; reflexivity|].
           split; [rewrite find_Nd, lex_refl; reflexivity|]. split; [|exact Hlv].
           intros r1 r2 d1 Er Hr1 Hf1. destruct r1 as [|y r1]; [congruence|].
           cbn [app] in Er. injection Er as <- Er. symmetry in Er. apply app_eq_nil in Er.
           destruct Er as [-> _]. rewrite find_Nd, lex_refl in Hf1. injection Hf1 as <-. exact Ew.
        -- destruct (depth_ok maxd lvl) eqn:Ed; [|destruct H].
           apply IHc in H; [|exact Bc|apply depth_ok_next; exact Ed].
           destruct H as (r' & -> & Hf & Hre & Hlr).
           assert (Hne : r' <> []) by (intros ->; rewrite find_nil in Hf; discriminate).
           exists (stem d :: r'). split; [rewrite concat_cons, app_assoc; reflexivity|].
           split; [rewrite find_Nd, lex_refl; destruct r'; [congruence|exact Hf]|]. split.
           ++ intros r1 r2 d1 Er Hr1 Hf1. destruct r1 as [|y r1]; [congruence|].
              cbn [app] in Er. injection Er as <- Er. rewrite find_Nd, lex_refl in Hf1.
              destruct r1 as [|y2 r1']; [injection Hf1 as <-; exact Ew|].
              apply (Hre (y2 :: r1') r2 d1 Er); [discriminate|exact Hf1].
           ++ destruct maxd as [m|]; cbn [lvl_ok length] in *; [lia|exact I].
      * apply IHl in H; [|exact Bl|exact Hlv]. destruct H as (r & -> & Hf & Hre & Hlr).
        destruct r as [|y r]; [rewrite find_nil in Hf; discriminate|].
        assert (Ey : lex y (stem d) = Lt) by (apply Hl; eapply find_cons_in_sib; eauto).
        exists (y :: r). split; [reflexivity|]. split; [rewrite find_Nd, Ey; exact Hf|].
        split; [|exact Hlr].
        intros r1 r2 d1 Er Hr1 Hf1. destruct r1 as [|z r1]; [congruence|].
        cbn [app] in Er. injection Er as <- Er. rewrite find_Nd, Ey in Hf1.
        apply (Hre (y :: r1) r2 d1); [cbn [app]; rewrite Er; reflexivity|discriminate|exact Hf1].
      * apply IHr in H; [|exact Br|exact Hlv]. destruct H as (r & -> & Hf & Hre & Hlr).
        destruct r as [|y r]; [rewrite find_nil in Hf; discriminate|].
        assert (Ey : lex y (stem d) = Gt) by (apply Hr; eapply find_cons_in_sib; eauto).
        exists (y :: r). split; [reflexivity|]. split; [rewrite find_Nd, Ey; exact Hf|].
        split; [|exact Hlr].
        intros r1 r2 d1 Er Hr1 Hf1. destruct r1 as [|z r1]; [congruence|].
        cbn [app] in Er. injection Er as <- Er. rewrite find_Nd, Ey in Hf1.
        apply (Hre (y :: r1) r2 d1); [cbn [app]; rewrite Er; reflexivity|discriminate|exact Hf1].
    + intros (r & -> & Hf & Hre & Hlr).
      destruct r as [|y rest]; [rewrite find_nil in Hf; discriminate|].
      rewrite find_Nd in Hf. destruct (lex y (stem d)) eqn:E.
      * assert (Ey := E). apply lex_eq in Ey. subst y. left.
        assert (Ew : we d = 0).
        { apply (Hre [stem d] rest d); [reflexivity|discriminate|]. rewrite find_Nd, E. reflexivity. }
        rewrite Ew. cbn [N.eqb In]. destruct rest as [|x2 p2].
        -- injection Hf as ->. left. cbn [concat]. rewrite app_nil_r. reflexivity.
        -- right.
           assert (Ed : depth_ok maxd lvl = true).
           { destruct maxd as [m|]; cbn [depth_ok lvl_ok length] in *; [|reflexivity].
             apply N.ltb_lt. lia. }
           rewrite Ed. apply IHc; [exact Bc|apply depth_ok_next; exact Ed|].
           exists (x2 :: p2). split; [rewrite concat_cons, app_assoc; reflexivity|].
           split; [exact Hf|]. split.
           ++ intros r1 r2 d1 Er Hr1 Hf1.
              apply (Hre (stem d :: r1) r2 d1); [cbn [app]; rewrite Er; reflexivity|discriminate|].
              rewrite find_Nd, E. destruct r1; [congruence|exact Hf1].
           ++ destruct maxd as [m|]; cbn [lvl_ok length] in *; [lia|exact I].
      * right. left. apply IHl; [exact Bl|exact Hlv|]. exists (y :: rest).
        split; [reflexivity|]. split; [exact Hf|]. split; [|exact Hlr].
        intros r1 r2 d1 Er Hr1 Hf1. apply (Hre r1 r2 d1 Er Hr1).
        destruct r1 as [|z r1]; [congruence|]. cbn [app] in Er. injection Er as <- _.
        rewrite find_Nd, E. exact Hf1.
      * right. right. apply IHr; [exact Br|exact Hlv|]. exists (y :: rest).
        split; [reflexivity|]. split; [exact Hf|]. split; [|exact Hlr].
        intros r1 r2 d1 Er Hr1 Hf1. apply (Hre r1 r2 d1 Er Hr1).
        destruct r1 as [|z r1]; [congruence|]. cbn [app] in Er. injection Er as <- _.
        rewrite find_Nd, E. exact Hf1.
Qed.

(* ====================================================================== *)
(* over_prefixes                                                          *)
(* ====================================================================== *)
Lemma over_prefixes_spec : forall (A : Type) (f : bytes -> tst -> list A) ps t,
  match over_prefixes f ps t with
  | ROk L => (forall p, In p ps -> find_sub (lru_iter p) t <> None) /\
             (forall x, In x L <-> exists p sub, In p ps /\ find_sub (lru_iter p) t = Some sub /\ In x (f p sub))
  | RRefused => exists p, In p ps /\ find_sub (lru_iter p) t = None
  | RCrash => False
  end.
Proof.
  intros A f ps t. induction ps as [|p ps IH]; cbn [over_prefixes].
  - split; [intros p []|]. intro x. split; [intros []|]. intros (p & _ & [] & _).
  - destruct (find_sub (lru_iter p) t) as [sub|] eqn:E.
    + destruct (over_prefixes f ps t) as [| |L].
      * destruct IH as (q & Hq & Hn). exists q. split; [right; exact Hq|exact Hn].
      * exact IH.
      * destruct IH as [Hall Hin]. split.
        -- intros q [<-|Hq]; [congruence|apply Hall; exact Hq].
        -- intro x. rewrite in_app_iff, Hin. split.
           ++ intros [H|(q & sq & Hq & Eq & Hx)].
              ** exists p, sub. split; [left; reflexivity|split; assumption].
              ** exists q, sq. split; [right; exact Hq|split; assumption].
           ++ intros (q & sq & [<-|Hq] & Eq & Hx).
              ** left. rewrite E in Eq. injection Eq as <-. exact Hx.
              ** right. exists q, sq. split; [exact Hq|split; assumption].
    + exists p. split; [left; reflexivity|exact E].
Qed.

Lemma parents_of_spec : forall w ps t,
  match parents_of w ps t with
  | ROk L => (forall p, In p ps -> find_sub (lru_iter p) t <> None) /\
             (forall x, In x L <-> exists p, In p ps /\
                 In x (filter (fun x => negb (x =? 0) && negb (x =? w))
                              (map we (ancestors (lru_iter p) [] t))))
  | RRefused => exists p, In p ps /\ find_sub (lru_iter p) t = None
  | RCrash => False
  end.
Proof.
  intros w ps t. induction ps as [|p ps IH]; cbn [parents_of].
  - split; [intros p []|]. intro x. split; [intros []|]. intros (p & [] & _).
  - destruct (find_sub (lru_iter p) t) as [sub|] eqn:E.
    + destruct (parents_of w ps t) as [| |L].
      * destruct IH as (q & Hq & Hn). exists q. split; [right; exact Hq|exact Hn].
      * exact IH.
      * destruct IH as [Hall Hin]. split.
        -- intros q [<-|Hq]; [congruence|apply Hall; exact Hq].
        -- intro x. rewrite in_app_iff, Hin. split.
           ++ intros [H|(q & Hq & Hx)].
              ** exists p. split; [left; reflexivity|exact H].
              ** exists q. split; [right; exact Hq|exact Hx].
           ++ intros (q & [<-|Hq] & Hx).
              ** left. exact Hx.
              ** right. exists q. split; assumption.
    + exists p. split; [left; reflexivity|exact E].
Qed.
