(* SchedFacts6.v — any schedule of crawl-batch coroutines, rule-installation coroutines
   and read-only coroutines (page queries, network queries, page-link queries): the run invariant holds at
   every intermediate state (C16_invariant_rules) and a complete schedule ends with the
   pages and the link multigraph of the batches applied one after another
   (C16_schedule_independent_rules): a rule installation creates no page and no link. *)
From Coq Require Import List NArith Bool Lia Arith Permutation.
Import ListNotations.
From Traph Require Import Bytes Consts Helpers Rules Tst TstDefs Traph Spec Ops RefDefs TstFacts
  ViewFacts ViewFacts2 RefCore RefCore3 LinkFacts LinkFacts2 LinkFacts3 RefFull QueryCore
  Sched SchedFacts SchedFacts2 SchedFacts3 SchedFacts4 SchedFacts5.
Open Scope N_scope.

(* ====================================================================== *)
(* jobs: what a coroutine was started as                                  *)
(* ====================================================================== *)

Inductive job :=
| JBatch (d : list (bytes * list bytes))
| JRule (p : bytes) (k : rulekind)
| JPages (ps : list bytes)
| JNet (out auto : bool)
| JLinks (w : N) (ps : list bytes) (inb int outb : bool).

Definition job_start (j : job) : coro :=
  match j with
  | JBatch d => CBatch (batch_start d)
  | JRule p k => CRule (rule_start p k)
  | JPages ps => CPages (pagesq_start ps)
  | JNet out auto => CNet (netq_start out auto)
  | JLinks w ps inb int outb => CLinks (plinksq_start w ps inb int outb)
  end.

Definition job_wf (j : job) : Prop :=
  match j with JBatch d => wf_data d | JRule p _ => wf_lru p | JPages _ => True | JNet _ _ => True | JLinks _ _ _ _ _ => True end.

Definition job_data (j : job) : list (list (bytes * list bytes)) :=
  match j with JBatch d => [d] | _ => [] end.
(* the batches among the jobs, in order *)
Definition datas_of (jobs : list job) : list (list (bytes * list bytes)) := flat_map job_data jobs.

(* a finished page query has an empty stack and no prefix left *)
Definition qshape (q : qco) : Prop :=
  q_done q = true -> q_prefixes q = [] /\ q_pend q = [] /\ q_stack q = [].

Lemma pagesq_step_shape : forall s fuel q, qshape q -> qshape (pagesq_step fuel q s).
Proof.
  intros s. induction fuel as [|f IH]; intros q Hq; [exact Hq|].
  cbn [pagesq_step]. destruct (q_pend q ++ q_stack q) as [|[[a pre] lv] rest].
  - destruct (q_prefixes q) as [|p ps].
    + intros _. cbn. auto.
    + destruct (find (lru_iter p) (tr s)) as [d|].
      * apply IH. intro E. discriminate.
      * intros _. cbn. auto.
  - destruct (read_at a (tr s)) as [x|].
    + destruct (((a =? q_start q) || (we (rn_d x) =? 0)) && page (rn_d x)).
      * intro E. discriminate.
      * apply IH. intro E. discriminate.
    + apply IH. intro E. discriminate.
Qed.

(* the invariant of a coroutine, relative to the job it was started as *)
Definition JInv (s : traph) (a : astate) (j : job) (c : coro) : Prop :=
  match j, c with
  | JBatch _, CBatch b => BInv b a
  | JRule _ _, CRule r => RInv r s
  | JPages ps, CPages q => QInv ps q s /\ qshape q
  | JNet _ _, CNet _ => True
  | JLinks _ _ _ _ _, CLinks _ => True
  | _, _ => False
  end.

Lemma JInv_mono : forall s a s' a' j c, pages_mono a a' -> tree_ext s s' -> JInv s a j c -> JInv s' a' j c.
Proof.
  intros s a s' a' j c Hm Hx H. destruct j, c; cbn [JInv] in *; try contradiction.
  - apply (BInv_mono _ _ _ Hm H).
  - apply (RInv_ext _ _ _ Hx H).
  - destruct H as (H1 & H2). split; [apply (QInv_ext _ _ _ _ Hx H1)|exact H2].
  - exact I.
  - exact I.
Qed.

Lemma JInv_start : forall s a j, job_wf j -> JInv s a j (job_start j).
Proof.
  intros s a [d|p k|ps|out auto|w ps inb int outb] H; cbn [job_wf job_start JInv] in *.
  - apply BInv_start. exact H.
  - apply RInv_start. exact H.
  - split; [apply QInv_start|]. intro E. discriminate.
  - exact I.
  - exact I.
Qed.

(* what a coroutine still owes *)
Definition cpo (c : coro) : links := match c with CBatch b => pend_out b | _ => [] end.
Definition cpi (c : coro) : links := match c with CBatch b => pend_in b | _ => [] end.
Definition cpe (c : coro) : list (bytes * bool) := match c with CBatch b => pend_ev b | _ => [] end.

Lemma cp_start : forall j,
  cpo (job_start j) = flat_map links_of (job_data j) /\
  cpi (job_start j) = flat_map links_of (job_data j) /\
  cpe (job_start j) = flat_map events (job_data j).
Proof.
  intros [d|p k|ps|out auto|w ps inb int outb]; cbn [job_start cpo cpi cpe job_data flat_map]; try (repeat split; reflexivity).
  rewrite !app_nil_r. apply pend_start.
Qed.

Lemma flat_map_flat_map : forall (A B C : Type) (f : A -> list B) (g : B -> list C) l,
  flat_map g (flat_map f l) = flat_map (fun x => flat_map g (f x)) l.
Proof.
  intros A B C f g l. induction l as [|x l IH]; [reflexivity|].
  cbn [flat_map]. rewrite flat_map_app, IH. reflexivity.
Qed.

Lemma flat_map_ext_start : forall (B : Type) (f : coro -> list B) (g : job -> list B) jobs,
  (forall j, f (job_start j) = g j) -> flat_map f (map job_start jobs) = flat_map g jobs.
Proof.
  intros B f g jobs H. induction jobs as [|j jobs IH]; [reflexivity|].
  cbn [map flat_map]. rewrite H, IH. reflexivity.
Qed.

(* ====================================================================== *)
(* lists                                                                  *)
(* ====================================================================== *)

Lemma set_nth_co_eq : forall i c l, set_nth_co i c l = set_nth i c l.
Proof.
  intros i c l. revert i. induction l as [|y l IH]; intros [|i]; cbn [set_nth_co set_nth]; try reflexivity.
  rewrite IH. reflexivity.
Qed.

Lemma F2_set_nth : forall (A B : Type) (Rl : A -> B -> Prop) l0 l i y,
  Forall2 Rl l0 l -> (forall x0, nth_error l0 i = Some x0 -> Rl x0 y) ->
  Forall2 Rl l0 (set_nth i y l).
Proof.
  intros A B Rl l0 l i y H. revert i. induction H as [|x0 x l0 l Hx Hl IH]; intros i Hi; [destruct i; constructor|].
  destruct i as [|i]; cbn [set_nth].
  - constructor; [apply Hi; reflexivity|exact Hl].
  - constructor; [exact Hx|]. apply IH. intros x1 H1. apply Hi. exact H1.
Qed.

Lemma F2_nth : forall (A B : Type) (Rl : A -> B -> Prop) l0 l i y,
  Forall2 Rl l0 l -> nth_error l i = Some y -> exists x0, nth_error l0 i = Some x0 /\ Rl x0 y.
Proof.
  intros A B Rl l0 l i y H. revert i. induction H as [|x0 x l0 l Hx Hl IH]; intros i Hi.
  - destruct i; discriminate.
  - destruct i as [|i]; cbn [nth_error] in *.
    + injection Hi as <-. exists x0. auto.
    + apply IH. exact Hi.
Qed.

Lemma F2_nth_l : forall (A B : Type) (Rl : A -> B -> Prop) l0 l i x0,
  Forall2 Rl l0 l -> nth_error l0 i = Some x0 -> exists y, nth_error l i = Some y /\ Rl x0 y.
Proof.
  intros A B Rl l0 l i x0 H. revert i. induction H as [|x1 x l0 l Hx Hl IH]; intros i Hi.
  - destruct i; discriminate.
  - destruct i as [|i]; cbn [nth_error] in *.
    + injection Hi as <-. exists x. auto.
    + apply IH. exact Hi.
Qed.

Lemma F2_In_r : forall (A B : Type) (Rl : A -> B -> Prop) l0 l y,
  Forall2 Rl l0 l -> In y l -> exists x0, In x0 l0 /\ Rl x0 y.
Proof.
  intros A B Rl l0 l y H. induction H as [|x0 x l0 l Hx Hl IH]; intro Hy; [destruct Hy|].
  destruct Hy as [<-|Hy]; [exists x0; split; [left; reflexivity|exact Hx]|].
  destruct (IH Hy) as (x1 & H1 & H2). exists x1. split; [right; exact H1|exact H2].
Qed.

Lemma F2_impl : forall (A B : Type) (P Q : A -> B -> Prop) l l',
  (forall x y, P x y -> Q x y) -> Forall2 P l l' -> Forall2 Q l l'.
Proof. intros A B P Q l l' H F. induction F; constructor; auto. Qed.

Lemma F2_map_r : forall (A B : Type) (Rl : A -> B -> Prop) (f : A -> B) l,
  (forall x, In x l -> Rl x (f x)) -> Forall2 Rl l (map f l).
Proof.
  intros A B Rl f l. induction l as [|x l IH]; intro H; [constructor|].
  cbn [map]. constructor; [apply H; left; reflexivity|]. apply IH. intros y Hy. apply H. right. exact Hy.
Qed.

(* ====================================================================== *)
(* the invariant of a run                                                 *)
(* ====================================================================== *)

Record HInv (a0 : astate) (jobs : list job) (cs : list coro) (s : traph) (a : astate) (go gi : links)
  : Prop := mkHInv {
  H_s : SInv s a go gi;
  H_c : Forall2 (JInv s a) jobs cs;
  H_links : a_links a = a_links a0;
  H_out : Permutation (go ++ flat_map cpo cs) (a_links a0 ++ flat_map links_of (datas_of jobs));
  H_in : Permutation (gi ++ flat_map cpi cs) (a_links a0 ++ flat_map links_of (datas_of jobs));
  H_pm : pmono a0 a;
  H_sound : sound a0 a (flat_map events (datas_of jobs));
  H_compl : forall e, In e (flat_map events (datas_of jobs)) ->
              covered a e \/ exists c, In c cs /\ In e (cpe c);
  H_incl : forall c, In c cs -> incl (cpe c) (flat_map events (datas_of jobs))
}.

Lemma HInv_init : forall s0 a0 jobs, R s0 a0 -> Forall job_wf jobs ->
  HInv a0 jobs (map job_start jobs) s0 a0 (a_links a0) (a_links a0).
Proof.
  intros s0 a0 jobs HR Hwf. constructor.
  - apply SInv_R. exact HR.
  - apply F2_map_r. intros j Hj. apply JInv_start. rewrite Forall_forall in Hwf. apply Hwf. exact Hj.
  - reflexivity.
  - unfold datas_of. rewrite flat_map_flat_map.
    rewrite (flat_map_ext_start _ cpo (fun j => flat_map links_of (job_data j))); [apply Permutation_refl|].
    intro j. apply cp_start.
  - unfold datas_of. rewrite flat_map_flat_map.
    rewrite (flat_map_ext_start _ cpi (fun j => flat_map links_of (job_data j))); [apply Permutation_refl|].
    intro j. apply cp_start.
  - apply pmono_refl.
  - apply sound_refl.
  - intros e He. right. unfold datas_of in He. rewrite flat_map_flat_map in He.
    apply in_flat_map in He. destruct He as (j & Hj & He).
    exists (job_start j). split; [apply in_map; exact Hj|].
    destruct (cp_start j) as (_ & _ & E). rewrite E. exact He.
  - intros c Hc. apply in_map_iff in Hc. destruct Hc as (j & <- & Hj).
    intros e He. unfold datas_of. rewrite flat_map_flat_map. apply in_flat_map. exists j. split; [exact Hj|].
    destruct (cp_start j) as (_ & _ & E). rewrite <- E. exact He.
Qed.

(* a step of a coroutine that owes nothing and creates neither page nor link *)
Lemma HInv_neutral : forall a0 jobs cs s a go gi i c c' s' a',
  HInv a0 jobs cs s a go gi -> nth_error cs i = Some c ->
  cpo c = [] -> cpi c = [] -> cpe c = [] -> cpo c' = [] -> cpi c' = [] -> cpe c' = [] ->
  SInv s' a' go gi -> a_pages a' = a_pages a -> a_links a' = a_links a ->
  Forall2 (JInv s' a') jobs (set_nth i c' cs) ->
  HInv a0 jobs (set_nth i c' cs) s' a' go gi.
Proof.
  intros a0 jobs cs s a go gi i c c' s' a' [Gs Gc Gl Go Gi Gp Gso Gcm Gin] Hi Eo Ei Ee Eo' Ei' Ee' HS' Ep El HF.
  constructor.
  - exact HS'.
  - exact HF.
  - congruence.
  - apply Permutation_trans with (go ++ flat_map cpo cs); [|exact Go]. apply Permutation_app_head.
    apply (perm_set_nth _ _ cpo i c' c [] cs Hi). rewrite Eo, Eo'. apply Permutation_refl.
  - apply Permutation_trans with (gi ++ flat_map cpi cs); [|exact Gi]. apply Permutation_app_head.
    apply (perm_set_nth _ _ cpi i c' c [] cs Hi). rewrite Ei, Ei'. apply Permutation_refl.
  - unfold pmono in *. rewrite Ep. exact Gp.
  - unfold sound in *. rewrite Ep. exact Gso.
  - intros e He. destruct (Gcm e He) as [H|(z & Hz & Hez)].
    + left. unfold covered in *. rewrite Ep. exact H.
    + right. destruct (In_keep_set_nth _ i c' c z cs Hi Hz) as [->|Hz'].
      * rewrite Ee in Hez. destruct Hez.
      * exists z. auto.
  - intros z Hz. apply In_set_nth_inv in Hz. destruct Hz as [->|Hz]; [|apply Gin; exact Hz].
    rewrite Ee'. intros e [].
Qed.

Lemma co_step_net : forall q s, exists q', co_step (CNet q) s = (CNet q', s).
Proof.
  intros q s. unfold co_step. cbn [co_done]. destruct (n_done q); eexists; reflexivity.
Qed.

Lemma co_step_links : forall q s, exists q', co_step (CLinks q) s = (CLinks q', s).
Proof.
  intros q s. unfold co_step. cbn [co_done]. destruct (l_done q); eexists; reflexivity.
Qed.

Lemma bstep_tree_ext : forall b s a go gi, SInv s a go gi -> BInv b a -> tree_ext s (snd (bstep b s)).
Proof.
  intros b s a go gi HS HB. destruct (bstep_ext b s a go gi HS HB) as (a' & go' & gi' & _ & _ & _ & Hx). exact Hx.
Qed.

Lemma HInv_step : forall a0 jobs cs s a go gi i c, HInv a0 jobs cs s a go gi ->
  nth_error cs i = Some c ->
  exists a' go' gi',
    HInv a0 jobs (set_nth_co i (fst (co_step c s)) cs) (snd (co_step c s)) a' go' gi' /\
    tree_ext s (snd (co_step c s)).
Proof.
  intros a0 jobs cs s a go gi i c HG Hi. rewrite set_nth_co_eq.
  pose proof HG as [Gs Gc Gl Go Gi Gp Gso Gcm Gin].
  destruct (F2_nth _ _ _ _ _ _ _ Gc Hi) as (j & Hj & HJ).
  destruct j as [d|p k|ps|out auto|w ps inb int outb], c as [b|r|q|n|lq]; cbn [JInv] in HJ; try contradiction.
  - (* a batch moves *)
    rewrite co_step_batch. cbn [fst snd].
    assert (Hb : In (CBatch b) cs) by (apply (nth_error_In _ _ Hi)).
    pose proof (bstep_tree_ext b s a go gi Gs HJ) as Hx.
    destruct (bstep_inv b s a go gi Gs HJ) as (a' & go' & gi' & HS' & HB' & HA).
    set (b' := fst (bstep b s)) in *. set (s' := snd (bstep b s)) in *. cbv zeta in *.
    destruct HA as [P1 L1 (X & EX & PX) (Y & EY & PY) S1 C1 I1]. cbn [cb SchedFacts.cs ca co ci] in *.
    exists a', go', gi'. split; [|exact Hx]. constructor.
    + exact HS'.
    + apply F2_set_nth.
      * apply (F2_impl _ _ (JInv s a)); [|exact Gc]. intros x y. apply (JInv_mono _ _ _ _ _ _ (pmono_pages _ _ P1) Hx).
      * intros j1 H1. rewrite Hj in H1. injection H1 as <-. exact HB'.
    + congruence.
    + rewrite EX, <- app_assoc. apply Permutation_trans with (go ++ flat_map cpo cs); [|exact Go].
      apply Permutation_app_head. apply (perm_set_nth _ _ cpo i (CBatch b') (CBatch b) X cs Hi PX).
    + rewrite EY, <- app_assoc. apply Permutation_trans with (gi ++ flat_map cpi cs); [|exact Gi].
      apply Permutation_app_head. apply (perm_set_nth _ _ cpi i (CBatch b') (CBatch b) Y cs Hi PY).
    + apply (pmono_trans _ _ _ Gp P1).
    + apply (sound_trans _ a); [exact Gso|]. apply (sound_incl _ _ _ _ (Gin _ Hb) S1).
    + intros e He. destruct (Gcm e He) as [H|(z & Hz & Hez)].
      * left. apply (covered_mono _ _ _ P1 H).
      * destruct (In_keep_set_nth _ i (CBatch b') (CBatch b) z cs Hi Hz) as [->|Hz'].
        -- destruct (C1 e Hez) as [H|H]; [left; exact H|].
           right. exists (CBatch b'). split; [apply (In_set_nth _ i _ (CBatch b) cs Hi)|exact H].
        -- right. exists z. auto.
    + intros z Hz. apply In_set_nth_inv in Hz. destruct Hz as [->|Hz]; [|apply Gin; exact Hz].
      intros e He. apply (Gin _ Hb). apply I1. exact He.
  - (* a rule installation moves *)
    rewrite co_step_rule. cbn [fst snd].
    destruct (rstep_inv r s a go gi Gs HJ) as (a' & HS' & HR' & Ep & El & St).
    pose proof (step_ok_ext _ _ St) as Hx.
    exists a', go, gi. split; [|exact Hx].
    apply (HInv_neutral a0 _ cs s a go gi i (CRule r) _ _ a' HG Hi); try reflexivity; try assumption.
    apply F2_set_nth.
    + apply (F2_impl _ _ (JInv s a)); [|exact Gc]. intros x y. apply (JInv_mono _ _ _ _ _ _ (pages_mono_eq _ _ Ep) Hx).
    + intros j1 H1. rewrite Hj in H1. injection H1 as <-. exact HR'.
  - (* a page query moves: the index is untouched *)
    rewrite co_step_pages. cbn [fst snd].
    exists a, go, gi. split; [|apply tree_ext_refl].
    apply (HInv_neutral a0 _ cs s a go gi i (CPages q) _ _ a HG Hi); try reflexivity; try assumption.
    apply F2_set_nth; [exact Gc|].
    intros j1 H1. rewrite Hj in H1. injection H1 as <-. cbn [JInv].
    destruct (q_done q); [exact HJ|]. destruct HJ as (HQ & Hsh). split.
    + apply (pagesq_step_sound _ s (R_wf s a (SI_core _ _ _ _ Gs)) (proj2 (proj2 (SI_good _ _ _ _ Gs))) _ q HQ).
    + apply pagesq_step_shape. exact Hsh.
  - (* a network query moves: the index is untouched *)
    destruct (co_step_net n s) as (n' & E). rewrite E. cbn [fst snd].
    exists a, go, gi. split; [|apply tree_ext_refl].
    apply (HInv_neutral a0 _ cs s a go gi i (CNet n) _ _ a HG Hi); try reflexivity; try assumption.
    apply F2_set_nth; [exact Gc|].
    intros j1 H1. rewrite Hj in H1. injection H1 as <-. exact I.
  - (* a page-link query moves: the index is untouched *)
    destruct (co_step_links lq s) as (n' & E). rewrite E. cbn [fst snd].
    exists a, go, gi. split; [|apply tree_ext_refl].
    apply (HInv_neutral a0 _ cs s a go gi i (CLinks lq) _ _ a HG Hi); try reflexivity; try assumption.
    apply F2_set_nth; [exact Gc|].
    intros j1 H1. rewrite Hj in H1. injection H1 as <-. exact I.
Qed.

Lemma HInv_exec : forall a0 jobs sched cs s a go gi, HInv a0 jobs cs s a go gi ->
  exists a' go' gi', HInv a0 jobs (fst (exec_sched sched cs s)) (snd (exec_sched sched cs s)) a' go' gi'.
Proof.
  intros a0 jobs sched. induction sched as [|i sched IH]; intros cs s a go gi HG.
  - exists a, go, gi. exact HG.
  - cbn [exec_sched]. destruct (nth_error cs i) as [c|] eqn:Hi; [|apply (IH _ _ _ _ _ HG)].
    destruct (HInv_step _ _ _ _ _ _ _ i c HG Hi) as (a1 & go1 & gi1 & HG1 & _).
    destruct (co_step c s) as [c' s']. cbn [fst snd] in HG1. apply (IH _ _ _ _ _ HG1).
Qed.

(* ====================================================================== *)
(* E1a. the invariants hold whatever the schedule, at every prefix of it   *)
(* ====================================================================== *)

Theorem C16_invariant_rules : forall jobs sched s0 a0, R s0 a0 -> Forall job_wf jobs ->
  forall k,
  let cs := map job_start jobs in
  let s' := snd (exec_sched (firstn k sched) cs s0) in
  exists a go gi, SInv s' a go gi /\ wf_tst (tr s') /\ addr_ok (tr s') (nb s') /\ stubs_ok (stubs s').
Proof.
  intros jobs sched s0 a0 HR Hwf k cs s'. unfold s', cs.
  destruct (HInv_exec a0 jobs (firstn k sched) _ _ _ _ _ (HInv_init s0 a0 jobs HR Hwf))
    as (a & go & gi & HG).
  exists a, go, gi. split; [apply (H_s _ _ _ _ _ _ _ HG)|]. apply (SInv_facts _ _ _ _ (H_s _ _ _ _ _ _ _ HG)).
Qed.

(* ====================================================================== *)
(* E1b. a complete schedule ends like the batches one after another        *)
(* ====================================================================== *)

Lemma done_cp : forall s a j c, JInv s a j c -> co_done c = true ->
  cpo c = [] /\ cpi c = [] /\ cpe c = [].
Proof.
  intros s a j c HJ Hd. destruct c as [b|r|q|n|lq]; cbn [cpo cpi cpe]; auto.
  destruct j; cbn [JInv] in HJ; try contradiction. apply (done_pend b a HJ Hd).
Qed.

Theorem C16_schedule_independent_rules : forall jobs sched s0 a0, R s0 a0 -> Forall job_wf jobs ->
  let cs := map job_start jobs in
  let cs' := fst (exec_sched sched cs s0) in
  let s_fin := snd (exec_sched sched cs s0) in
  forallb co_done cs' = true ->
  let datas := datas_of jobs in
  let a_seq := fold_left (fun a d => fst (s_batch d a)) datas a0 in
  let L := flat_map links_of datas in
  exists a_fin go gi,
    SInv s_fin a_fin go gi /\
    (* pages and crawled marks *)
    (forall l c, In (l, c) (a_pages a_fin) <-> In (l, c) (a_pages a_seq)) /\
    (forall l c, In (l, c) (pages_iter s_fin) <-> In (l, c) (a_pages a_seq)) /\
    (* the link multigraph *)
    Permutation go (a_links a0 ++ L) /\ Permutation gi (a_links a0 ++ L) /\
    a_links a_seq = a_links a0 ++ L /\
    (forall l d, wf_lru l -> nodeof s_fin l = Some d ->
       Permutation (map (fun t => lru_at t s_fin) (targets_of (stubs s_fin) (outh d)))
                   (map snd (filter (fun p => beq (fst p) l) (a_links a_seq))) /\
       Permutation (map (fun t => lru_at t s_fin) (targets_of (stubs s_fin) (inh d)))
                   (map fst (filter (fun p => beq (snd p) l) (a_links a_seq)))).
Proof.
  intros jobs sched s0 a0 HR Hwf cs cs' s_fin Hdone datas a_seq L.
  unfold cs', s_fin, cs in *.
  destruct (HInv_exec a0 jobs sched _ _ _ _ _ (HInv_init s0 a0 jobs HR Hwf))
    as (a & go & gi & [Gs Gc Gl Go Gi Gp Gso Gcm Gin]).
  set (cf := fst (exec_sched sched (map job_start jobs) s0)) in *.
  set (s' := snd (exec_sched sched (map job_start jobs) s0)) in *.
  fold datas in Go, Gi, Gso, Gcm, Gin.
  assert (Hpend : forall c, In c cf -> cpo c = [] /\ cpi c = [] /\ cpe c = []).
  { intros c Hc. destruct (F2_In_r _ _ _ _ _ _ Gc Hc) as (j & _ & HJ). apply (done_cp s' a j c HJ).
    rewrite forallb_forall in Hdone. apply (Hdone c Hc). }
  rewrite (flat_map_nil _ _ cpo cf) in Go by (intros c Hc; apply (Hpend c Hc)).
  rewrite (flat_map_nil _ _ cpi cf) in Gi by (intros c Hc; apply (Hpend c Hc)).
  rewrite app_nil_r in Go, Gi.
  assert (Hwfd : Forall wf_data datas).
  { apply Forall_forall. intros d Hd. unfold datas, datas_of in Hd. apply in_flat_map in Hd.
    destruct Hd as (j & Hj & Hd). rewrite Forall_forall in Hwf. pose proof (Hwf j Hj) as Hw.
    destruct j; cbn [job_data] in Hd; try (destruct Hd; fail). destruct Hd as [<-|[]]. exact Hw. }
  destruct (s_seq_ev datas a0) as (Lseq & Eseq). change (s_seq datas a0) with a_seq in *. fold L in Lseq, Go, Gi.
  assert (Hpages : forall l c, In (l, c) (a_pages a) <-> In (l, c) (a_pages a_seq)).
  { apply (pages_char a0 (flat_map events datas)).
    - apply (R_pages_nodup s' a (SI_core _ _ _ _ Gs)).
    - apply (R_pages_nodup _ _ (seq_Rcore datas s0 a0 Hwfd (proj1 HR))).
    - split; [exact Gp|]. split; [exact Gso|]. intros e He.
      destruct (Gcm e He) as [H|(c & Hc & Hce)]; [exact H|].
      destruct (Hpend c Hc) as (_ & _ & E). rewrite E in Hce. destruct Hce.
    - exact Eseq. }
  exists a, go, gi. split; [exact Gs|]. split; [exact Hpages|].
  split; [intros l c; rewrite (pages_iter_spec s' a (SI_core _ _ _ _ Gs)); apply Hpages|].
  split; [exact Go|]. split; [exact Gi|]. split; [exact Lseq|].
  intros l d Hl Hd. rewrite Lseq. split.
  - exact (Rdir_perm true s' go (a_links a0 ++ L) l d (SI_out _ _ _ _ Gs) Go Hl Hd).
  - exact (Rdir_perm false s' gi (a_links a0 ++ L) l d (SI_in _ _ _ _ Gs) Gi Hl Hd).
Qed.

Lemma datas_of_batches : forall datas, flat_map job_data (map JBatch datas) = datas.
Proof.
  induction datas as [|d ds IH]; [reflexivity|]. cbn [map flat_map job_data app]. rewrite IH. reflexivity.
Qed.

(* the form with one rule installation among any number of batches *)
Corollary C16_schedule_independent_one_rule : forall datas p k sched s0 a0, R s0 a0 ->
  Forall wf_data datas -> wf_lru p ->
  let cs := CRule (rule_start p k) :: map (fun d => CBatch (batch_start d)) datas in
  let s_fin := snd (exec_sched sched cs s0) in
  forallb co_done (fst (exec_sched sched cs s0)) = true ->
  let a_seq := fold_left (fun a d => fst (s_batch d a)) datas a0 in
  (forall l c, In (l, c) (pages_iter s_fin) <-> In (l, c) (a_pages a_seq)) /\
  (forall l d, wf_lru l -> nodeof s_fin l = Some d ->
     Permutation (map (fun t => lru_at t s_fin) (targets_of (stubs s_fin) (outh d)))
                 (map snd (filter (fun p => beq (fst p) l) (a_links a_seq))) /\
     Permutation (map (fun t => lru_at t s_fin) (targets_of (stubs s_fin) (inh d)))
                 (map fst (filter (fun p => beq (snd p) l) (a_links a_seq)))).
Proof.
  intros datas p k sched s0 a0 HR Hwf Hp cs s_fin Hdone a_seq.
  assert (Ecs : cs = map job_start (JRule p k :: map JBatch datas)).
  { unfold cs. cbn [map job_start]. rewrite map_map. reflexivity. }
  assert (Ed : datas_of (JRule p k :: map JBatch datas) = datas).
  { unfold datas_of. cbn [flat_map job_data app]. apply datas_of_batches. }
  assert (Hj : Forall job_wf (JRule p k :: map JBatch datas)).
  { constructor; [exact Hp|]. apply Forall_forall. intros j Hj. apply in_map_iff in Hj.
    destruct Hj as (d & <- & Hd). rewrite Forall_forall in Hwf. apply (Hwf d Hd). }
  unfold s_fin in *. rewrite Ecs in *.
  destruct (C16_schedule_independent_rules _ sched s0 a0 HR Hj Hdone)
    as (a & go & gi & _ & _ & H1 & _ & _ & _ & H2).
  rewrite Ed in H1, H2. split; [exact H1|exact H2].
Qed.
