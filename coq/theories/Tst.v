(* Tst.v — the LRU trie as a ternary search tree whose nodes carry their block
   address (model of traph/lru_trie/lru_trie.py + node.py at the level of the
   algorithm).  Definitions only. *)
From Coq Require Import List NArith Bool.
From Traph Require Import Bytes Consts Helpers.
Import ListNotations.
Open Scope N_scope.

Definition bsz : N := py_node_block_size.        (* LRU_TRIE_NODE_BLOCK_SIZE *)

Record nd := mkNd {
  addr : N;          (* byte offset of the main block *)
  par : N;           (* parent register: block of the node one stem up (0 at top level) *)
  stem : bytes;      (* full stem, trailing '|' included *)
  page : bool; crawled : bool; rule : bool;
  nochild : bool;    (* NO_CHILD_WEBENTITIES bit *)
  we : N;            (* 0 = none *)
  outh : N; inh : N  (* heads of the outlinks / inlinks stub lists, 0 = none *)
}.

(* l, r : sibling BST on full stems;  c : sibling tree one stem down *)
Inductive tst := Lf | Nd (d : nd) (l c r : tst).

Definition root_addr (t : tst) : N := match t with Lf => 0 | Nd d _ _ _ => addr d end.

Definition set_page (d : nd) := mkNd (addr d) (par d) (stem d) true (crawled d) (rule d) (nochild d) (we d) (outh d) (inh d).
Definition set_crawled (d : nd) := mkNd (addr d) (par d) (stem d) (page d) true (rule d) (nochild d) (we d) (outh d) (inh d).
Definition set_rule (b : bool) (d : nd) := mkNd (addr d) (par d) (stem d) (page d) (crawled d) b (nochild d) (we d) (outh d) (inh d).
Definition set_nochild (b : bool) (d : nd) := mkNd (addr d) (par d) (stem d) (page d) (crawled d) (rule d) b (we d) (outh d) (inh d).
Definition set_we (w : N) (d : nd) := mkNd (addr d) (par d) (stem d) (page d) (crawled d) (rule d) (nochild d) w (outh d) (inh d).
Definition set_outh (h : N) (d : nd) := mkNd (addr d) (par d) (stem d) (page d) (crawled d) (rule d) (nochild d) (we d) h (inh d).
Definition set_inh (h : N) (d : nd) := mkNd (addr d) (par d) (stem d) (page d) (crawled d) (rule d) (nochild d) (we d) (outh d) h.

Definition blen {A} (l : list A) : N := N.of_nat (length l).
Definition nonempty {A} (l : list A) : bool := match l with [] => false | _ => true end.

(* ---- walk history (walk_history.py) ------------------------------------------- *)
Record hist := mkHist {
  h_we : N;              (* 0 = None *)
  h_pref : bytes;        (* webentity_prefix ("" when none) *)
  h_pos : option N;      (* webentity_position; None stands for -1 *)
  h_rules : list N       (* positions of creation-rule anchors, in walk order *)
}.
Definition hist0 : hist := mkHist 0 [] None [].

(* what add_lru / follow_lru record when standing on node d reached with LRU [lru] *)
Definition visit (d : nd) (lru : bytes) (h : hist) : hist :=
  let h1 := if we d =? 0 then h
            else mkHist (we d) lru (Some (blen lru)) (h_rules h) in
  if rule d then mkHist (h_we h1) (h_pref h1) (h_pos h1) (h_rules h1 ++ [blen lru]) else h1.

(* ---- add_lru --------------------------------------------------------------------
   outer recursion on the stem list, inner on the sibling BST.  [nb] = number of
   blocks in the file (header included) = next block index.  New nodes take
   [nblk stem] consecutive blocks.  With [flag] every proper ancestor of the last
   node gets its NO_CHILD_WEBENTITIES bit cleared. *)
Section Ins.
  Variable flag : bool.

  Fixpoint ins (stems : list bytes) (pre : bytes) (pa nb : N) (h : hist) (t : tst)
    {struct stems} : tst * N * hist :=
    match stems with
    | [] => (t, nb, h)
    | s :: rest =>
      (fix bst (t : tst) : tst * N * hist :=
         match t with
         | Lf =>
             let a := nb * bsz in
             let d := mkNd a pa s false false false (negb (flag && nonempty rest)) 0 0 0 in
             let '(c, nb', _) := ins rest (pre ++ s) a (nb + nblk s) h Lf in
             (Nd d Lf c Lf, nb', h)
         | Nd d l c r =>
             match lex s (stem d) with
             | Eq =>
                 let d' := if flag && nonempty rest then set_nochild false d else d in
                 let h' := visit d (pre ++ s) h in
                 let '(c', nb', h'') := ins rest (pre ++ s) (addr d) nb h' c in
                 (Nd d' l c' r, nb', h'')
             | Lt => let '(l', nb', h') := bst l in (Nd d l' c r, nb', h')
             | Gt => let '(r', nb', h') := bst r in (Nd d l c r', nb', h')
             end
         end) t
    end.
End Ins.

(* ---- lookups ------------------------------------------------------------------- *)
(* lru_node: the subtree rooted at the node spelled by the stems (None: not in the trie) *)
Fixpoint find_sub (stems : list bytes) (t : tst) {struct stems} : option tst :=
  match stems with
  | [] => None
  | s :: rest =>
    (fix bst (t : tst) : option tst :=
       match t with
       | Lf => None
       | Nd d l c r =>
           match lex s (stem d) with
           | Eq => match rest with [] => Some t | _ => find_sub rest c end
           | Lt => bst l
           | Gt => bst r
           end
       end) t
  end.
Definition node_of (t : tst) : option nd := match t with Lf => None | Nd d _ _ _ => Some d end.
Definition find (stems : list bytes) (t : tst) : option nd :=
  match find_sub stems t with Some s => node_of s | None => None end.

(* follow_lru: the history gathered until the LRU leaves the tree *)
Fixpoint follow (stems : list bytes) (pre : bytes) (h : hist) (t : tst) {struct stems}
  : hist * option nd :=
  match stems with
  | [] => (h, None)
  | s :: rest =>
    (fix bst (t : tst) : hist * option nd :=
       match t with
       | Lf => (h, None)
       | Nd d l c r =>
           match lex s (stem d) with
           | Eq => let h' := visit d (pre ++ s) h in
                   match rest with
                   | [] => (h', Some d)
                   | _ => follow rest (pre ++ s) h' c
                   end
           | Lt => bst l
           | Gt => bst r
           end
       end) t
  end.

(* in-place rewrite of the node spelled by the stems *)
Fixpoint upd (f : nd -> nd) (stems : list bytes) (t : tst) {struct stems} : tst :=
  match stems with
  | [] => t
  | s :: rest =>
    (fix bst (t : tst) : tst :=
       match t with
       | Lf => Lf
       | Nd d l c r =>
           match lex s (stem d) with
           | Eq => match rest with
                   | [] => Nd (f d) l c r
                   | _ => Nd d l (upd f rest c) r
                   end
           | Lt => Nd d (bst l) c r
           | Gt => Nd d l c (bst r)
           end
       end) t
  end.

(* ancestors of the node spelled by the stems, nearest first (node_parents_iter) *)
Fixpoint ancestors (stems : list bytes) (acc : list nd) (t : tst) {struct stems} : list nd :=
  match stems with
  | [] => acc
  | s :: rest =>
    (fix bst (t : tst) : list nd :=
       match t with
       | Lf => acc
       | Nd d l c r =>
           match lex s (stem d) with
           | Eq => match rest with [] => acc | _ => ancestors rest (d :: acc) c end
           | Lt => bst l
           | Gt => bst r
           end
       end) t
  end.

(* ---- traversals ---------------------------------------------------------------- *)
(* dfs_iter over a whole sibling tree: pop order child, left, right *)
Fixpoint dfs (pre : bytes) (t : tst) : list (bytes * nd) :=
  match t with
  | Lf => []
  | Nd d l c r =>
      let cur := pre ++ stem d in
      (cur, d) :: dfs cur c ++ dfs pre l ++ dfs pre r
  end.
(* skip_childless_paths=True *)
Fixpoint dfs_skip (pre : bytes) (t : tst) : list (bytes * nd) :=
  match t with
  | Lf => []
  | Nd d l c r =>
      let cur := pre ++ stem d in
      (cur, d) :: (if nochild d then [] else dfs_skip cur c) ++ dfs_skip pre l ++ dfs_skip pre r
  end.
(* dfs from a starting node: its siblings are not followed *)
Definition dfs_at (skip : bool) (pre : bytes) (t : tst) : list (bytes * nd) :=
  match t with
  | Lf => []
  | Nd d _ c _ =>
      let cur := pre ++ stem d in
      (cur, d) :: (if skip then (if nochild d then [] else dfs_skip cur c) else dfs cur c)
  end.

Definition depth_ok (maxd : option N) (lvl : N) : bool :=
  match maxd with None => true | Some m => lvl <? m end.

(* webentity_dfs_iter below the starting node *)
Fixpoint wdfs (maxd : option N) (lvl : N) (pre : bytes) (t : tst) : list (bytes * nd) :=
  match t with
  | Lf => []
  | Nd d l c r =>
      let cur := pre ++ stem d in
      let rel := we d =? 0 in
      (if rel then (cur, d) :: (if depth_ok maxd lvl then wdfs maxd (lvl + 1) cur c else []) else [])
        ++ wdfs maxd lvl pre l ++ wdfs maxd lvl pre r
  end.
Definition wdfs_at (maxd : option N) (pre : bytes) (t : tst) : list (bytes * nd) :=
  match t with
  | Lf => []
  | Nd d _ c _ =>
      let cur := pre ++ stem d in
      (cur, d) :: (if depth_ok maxd 0 then wdfs maxd 1 cur c else [])
  end.

(* webentity_inorder_iter without pagination path: (lru, node, path) *)
Fixpoint ino (path : N) (pre : bytes) (t : tst) : list (bytes * nd * N) :=
  match t with
  | Lf => []
  | Nd d l c r =>
      let cur := pre ++ stem d in
      ino (base4_append path 1) pre l
        ++ (if we d =? 0 then (cur, d, path) :: ino (base4_append path 2) cur c else [])
        ++ ino (base4_append path 3) pre r
  end.
Definition ino_at (pre : bytes) (t : tst) : list (bytes * nd * N) :=
  match t with
  | Lf => []
  | Nd d _ c _ => let cur := pre ++ stem d in (cur, d, 0) :: ino 2 cur c
  end.

(* can_follow_path: base-4 strings compared as Python strings, p cut to the current length *)
Definition can_follow (cmp_path : list N) (path : N) : bool :=
  if path =? 0 then true
  else let cp := int_to_base4 path in
       match lex cp (firstn (length cp) cmp_path) with Lt => false | _ => true end.

(* with a pagination path: pruning + strict LRU filter *)
Fixpoint ino_from (cmp_path : list N) (plru : bytes) (path : N) (pre : bytes) (t : tst)
  : list (bytes * nd * N) :=
  match t with
  | Lf => []
  | Nd d l c r =>
      if negb (can_follow cmp_path path) then []
      else
        let cur := pre ++ stem d in
        ino_from cmp_path plru (base4_append path 1) pre l
          ++ (if we d =? 0
              then (if bgt cur plru then [(cur, d, path)] else [])
                     ++ ino_from cmp_path plru (base4_append path 2) cur c
              else [])
          ++ ino_from cmp_path plru (base4_append path 3) pre r
  end.
Definition ino_from_at (cmp_path : list N) (plru : bytes) (pre : bytes) (t : tst)
  : list (bytes * nd * N) :=
  match t with
  | Lf => []
  | Nd d _ c _ =>
      let cur := pre ++ stem d in
      (if bgt cur plru then [(cur, d, 0)] else []) ++ ino_from cmp_path plru 2 cur c
  end.

(* follow_path: ops 1 = left, 2 = child, otherwise right; failure = traversal exception *)
Fixpoint follow_path (ops : list N) (pre : bytes) (t : tst) : option bytes :=
  match t with
  | Lf => None
  | Nd d l c r =>
      match ops with
      | [] => Some (pre ++ stem d)
      | o :: ops' =>
          if o =? 1 then follow_path ops' pre l
          else if o =? 2 then follow_path ops' (pre ++ stem d) c
          else follow_path ops' pre r
      end
  end.

(* dfs_with_webentity_iter *)
Fixpoint dww (w : N) (t : tst) : list (nd * N) :=
  match t with
  | Lf => []
  | Nd d l c r =>
      let cur := if we d =? 0 then w else we d in
      (d, cur) :: dww cur c ++ dww w l ++ dww w r
  end.

(* every node with its LRU and the webentity inherited from above (for address lookups) *)
Definition all_nodes (t : tst) : list (bytes * nd) := dfs [] t.
Definition node_at (a : N) (t : tst) : option (bytes * nd) :=
  List.find (fun p => addr (snd p) =? a) (all_nodes t).
(* windup_lru_for_webentity from a block address *)
Definition we_at (a : N) (t : tst) : N :=
  match List.find (fun p => addr (fst p) =? a) (dww 0 t) with Some (_, w) => w | None => 0 end.

(* ---- blocks -------------------------------------------------------------------- *)
Record tblock := mkBlk {
  b_stem : bytes; b_flags : N; b_we : N;
  b_left : N; b_right : N; b_child : N; b_parent : N; b_out : N; b_in : N
}.

Definition bit (b : bool) (pos : N) : N := if b then N.shiftl 1 pos else 0.
Definition has_tail_of (s : bytes) : bool := Nat.ltb stem_size_nat (length s).
Definition flags_of (d : nd) : N :=
  bit (page d) flag_page + bit (crawled d) flag_crawled + bit (rule d) flag_rule
  + bit (has_tail_of (stem d)) flag_has_tail + bit (nochild d) flag_nochild.

Definition main_block (d : nd) (la ra ca : N) : tblock :=
  mkBlk (stem_head (stem d)) (flags_of d) (we d) la ra ca (par d) (outh d) (inh d).

Fixpoint tail_blocks (chs : list bytes) : list tblock :=
  match chs with
  | [] => []
  | ch :: rest =>
      mkBlk ch (default_flags + bit true flag_is_tail + bit (nonempty rest) flag_has_tail)
            0 0 0 0 0 0 0 :: tail_blocks rest
  end.

Definition node_blocks (d : nd) (la ra ca : N) : list tblock :=
  main_block d la ra ca :: tail_blocks (stem_tail_chunks (stem d)).

Fixpoint number_from (a : N) (bs : list tblock) : list (N * tblock) :=
  match bs with [] => [] | b :: bs' => (a, b) :: number_from (a + bsz) bs' end.

Fixpoint placed (t : tst) : list (N * tblock) :=
  match t with
  | Lf => []
  | Nd d l c r =>
      number_from (addr d) (node_blocks d (root_addr l) (root_addr r) (root_addr c))
        ++ placed c ++ placed l ++ placed r
  end.

Fixpoint insert_by_addr (x : N * tblock) (l : list (N * tblock)) : list (N * tblock) :=
  match l with
  | [] => [x]
  | y :: l' => if fst x <=? fst y then x :: l else y :: insert_by_addr x l'
  end.
Definition sort_by_addr (l : list (N * tblock)) : list (N * tblock) :=
  fold_right insert_by_addr [] l.

(* the data blocks of lru_trie.dat in file order (the header is block 0) *)
Definition flatten (t : tst) : list (N * tblock) := sort_by_addr (placed t).

(* nodes_iter is a linear scan of all data blocks, tail blocks included *)
Definition blk_page (b : tblock) : bool := N.testbit (b_flags b) flag_page.
Definition blk_crawled (b : tblock) : bool := N.testbit (b_flags b) flag_crawled.
Definition blk_is_tail (b : tblock) : bool := N.testbit (b_flags b) flag_is_tail.
Definition blk_has_tail (b : tblock) : bool := N.testbit (b_flags b) flag_has_tail.
Definition count_if {A} (f : A -> bool) (l : list A) : N := N.of_nat (length (filter f l)).
Definition scan_count_pages (t : tst) : N := count_if (fun p => blk_page (snd p)) (flatten t).
Definition scan_count_crawled (t : tst) : N :=
  count_if (fun p => blk_page (snd p) && blk_crawled (snd p)) (flatten t).
