(* Ops.v — request histories: the typed request alphabet, one step of the model and
   of the specification, and runs over a whole history.  Definitions only. *)
From Coq Require Import List NArith Bool.
From Traph Require Import Bytes Consts Helpers Rules Tst TstDefs Traph Spec.
Import ListNotations.
Open Scope N_scope.

Inductive op :=
| OAddPage (l : bytes) (cr : bool)
| OAddPages (ls : list bytes) (cr : bool)
| OAddLinks (links : list (bytes * bytes))
| OBatch (data : list (bytes * list bytes))
| OCreate (ps : list bytes)
| ODelete (w : N) (ps : list bytes)
| OAddPrefix (p : bytes) (w : N)
| ORemovePrefix (p : bytes) (w : N)            (* w = 0: no consistency check *)
| OMovePrefix (p : bytes) (wt ws : N)
| OAddRule (p : bytes) (k : rulekind)
| ORemoveRule (p : bytes)
| OReopen (d : rulekind) (rs : list (bytes * rulekind))
| OClear (od : option rulekind) (ors : option (list (bytes * rulekind))).

Definition step (s : traph) (o : op) : traph * reply :=
  match o with
  | OAddPage l cr => add_page l cr s
  | OAddPages ls cr => add_pages ls cr s
  | OAddLinks links => add_links links s
  | OBatch data => batch_crawl data s
  | OCreate ps => create_webentity ps s
  | ODelete w ps => delete_webentity w ps s
  | OAddPrefix p w => add_prefix p w s
  | ORemovePrefix p w => remove_prefix p w s
  | OMovePrefix p wt ws => move_prefix p wt ws s
  | OAddRule p k => add_rule p k true s
  | ORemoveRule p => remove_rule p s
  | OReopen d rs => (reopen d rs s, Ok)
  | OClear od ors => (clear od ors s, Ok)
  end.

Definition rep3 (x : astate * N * list (N * list bytes)) : astate * reply :=
  let '(a, n, c) := x in (a, Report n c).

(* the specification step; for a rule installation the order in which the pages
   beneath the anchor are re-inserted is a parameter ([s] is only consulted for it) *)
Definition sstep (s : traph) (a : astate) (o : op) : astate * reply :=
  match o with
  | OAddPage l cr => rep3 (s_add_page l cr a)
  | OAddPages ls cr => rep3 (s_add_pages ls cr a)
  | OAddLinks links => s_add_links links a
  | OBatch data => s_batch data a
  | OCreate ps => s_create ps a
  | ODelete w ps => s_delete w ps a
  | OAddPrefix p w => s_add_prefix p w a
  | ORemovePrefix p w => s_remove_prefix p w a
  | OMovePrefix p wt ws => s_move_prefix p wt ws a
  | OAddRule p k => s_add_rule p k true (pages_under p (fst (add_lru false p s))) a
  | ORemoveRule p => s_remove_rule p a
  | OReopen d rs => (s_reopen d rs a, Ok)
  | OClear od ors => (s_clear od ors a, Ok)
  end.

(* run a history on both sides, collecting the replies *)
Fixpoint run2 (h : list op) (s : traph) (a : astate) : traph * astate * list (reply * reply) :=
  match h with
  | [] => (s, a, [])
  | o :: h' =>
      let '(s1, r) := step s o in
      let '(a1, r') := sstep s a o in
      let '(s2, a2, rs) := run2 h' s1 a1 in
      (s2, a2, (r, r') :: rs)
  end.

Definition run (d : rulekind) (rs : list (bytes * rulekind)) (h : list op) : traph :=
  fst (fst (run2 h (init d rs) (s_init d rs))).
Definition srun (d : rulekind) (rs : list (bytes * rulekind)) (h : list op) : astate :=
  snd (fst (run2 h (init d rs) (s_init d rs))).
Definition replies (d : rulekind) (rs : list (bytes * rulekind)) (h : list op) : list (reply * reply) :=
  snd (run2 h (init d rs) (s_init d rs)).

(* well-formed requests: the quantifier of the properties *)
Definition wf_rules (rs : list (bytes * rulekind)) : Prop :=
  Forall (fun x => wf_lru (fst x)) rs /\ NoDup (map fst rs).
Definition wf_op (o : op) : Prop :=
  match o with
  | OAddPage l _ => wf_lru l
  | OAddPages ls _ => Forall wf_lru ls
  | OAddLinks links => Forall (fun p => wf_lru (fst p) /\ wf_lru (snd p)) links
  | OBatch data => Forall (fun p => wf_lru (fst p) /\ Forall wf_lru (snd p)) data /\ NoDup (map fst data)
  | OCreate ps => ps <> [] /\ Forall wf_lru ps
  | ODelete w ps => w <> 0 /\ Forall wf_lru ps
  | OAddPrefix p w => wf_lru p /\ w <> 0
  | ORemovePrefix p _ => wf_lru p
  | OMovePrefix p wt _ => wf_lru p /\ wt <> 0
  | OAddRule p _ => wf_lru p
  | ORemoveRule p => wf_lru p
  | OReopen _ rs => wf_rules rs
  | OClear _ ors => match ors with Some rs => wf_rules rs | None => True end
  end.
