(* QueryLinks2.v — Q20 (most linked pages) and Q08 (per-webentity link queries). *)
From Coq Require Import List NArith Bool Lia Arith Permutation Sorted.
Import ListNotations.
From Traph Require Import Bytes Consts Helpers Rules Tst TstDefs Traph Spec Ops RefDefs TstFacts
     QueryCore QueryCore2 QueryCore3 TopkFacts QueryLinks.
Open Scope N_scope.

(* ====================================================================== *)
(* generic                                                                 *)
(* ====================================================================== *)
Lemma keys_in : forall (A : Type) (deg : A -> N) (lru : A -> bytes) xs c y,
  In y (keys A deg lru c xs) -> exists x, In x xs /\ fst (fst y) = deg x /\ snd y = lru x.
Proof.
  intros A deg lru xs. induction xs as [|x xs IH]; intros c y H; [destruct H|].
  cbn [keys] in H. destruct H as [<-|H].
  - exists x. cbn. auto.
  - destruct (IH _ _ H) as (x' & Hx' & E). exists x'. split; [right; exact Hx'|exact E].
Qed.

Lemma keys_in_conv : forall (A : Type) (deg : A -> N) (lru : A -> bytes) xs c x,
  In x xs -> exists c', In (deg x, c', lru x) (keys A deg lru c xs).
Proof.
  intros A deg lru xs. induction xs as [|x0 xs IH]; intros c x H; [destruct H|].
  cbn [keys]. destruct H as [->|H].
  - exists (c + 1). left. reflexivity.
  - destruct (IH (c + 1) x H) as [c' Hc']. exists c'. right. exact Hc'.
Qed.

Lemma StronglySorted_map : forall (A B : Type) (R : A -> A -> Prop) (R' : B -> B -> Prop) (f : A -> B) l,
  (forall x y, R x y -> R' (f x) (f y)) -> StronglySorted R l -> StronglySorted R' (map f l).
Proof.
  intros A B R R' f l HR Hs. induction Hs as [|x l Hs IH Hall]; cbn [map]; constructor.
  - exact IH.
  - rewrite Forall_forall in *. intros y Hy. apply in_map_iff in Hy. destruct Hy as (z & <- & Hz).
    apply HR. apply Hall. exact Hz.
Qed.

(* the reported indegree of a page, as the specification sees it (defect F7: never 0) *)
Definition rep_indegree (l : bytes) (a : astate) : N :=
  if s_indegree l a =? 0 then 1 else s_indegree l a.

(* non-increasing degrees along an answer *)
Definition deg_sorted (ans : list (bytes * N)) : Prop :=
  StronglySorted (fun x y => snd y <= snd x) ans.

Section Q20.
  Variables (s : traph) (a : astate).
  Hypothesis HR : R s a.

  Let HC : Rcore s a := proj1 HR.
  Let HL : Rlinks s a := proj2 HR.
  Let Hwf : wf_tst (tr s) := R_wf s a HC.

  Lemma indegree_len : forall l d, wf_lru l -> nodeof s l = Some d ->
    s_indegree l a = N.of_nat (length (deduped (dir_targets false d s))).
  Proof.
    intros l d Hl Hn. unfold s_indegree, blen. f_equal.
    change (map fst (filter (fun p => beq (snd p) l) (a_links a))) with (ends false l (a_links a)).
    rewrite <- (map_length (fun t => lru_at t s) (deduped (dir_targets false d s))).
    apply Permutation_length. apply NoDup_Permutation.
    - apply (dedup_bytes_spec _ [] (NoDup_nil _)).
    - apply NoDup_map_inj_in; [|apply deduped_nodup].
      intros t t' Ht Ht' E. apply (proj1 (deduped_in _ _)) in Ht. apply (proj1 (deduped_in _ _)) in Ht'.
      eapply (lru_at_inj s a HR); eassumption.
    - intro y. destruct (dedup_bytes_spec (ends false l (a_links a)) [] (NoDup_nil _)) as [_ H].
      rewrite H. cbn [In]. rewrite in_map_iff. split.
      + intros [[]|Hy]. apply in_rev in Hy. rewrite <- (dir_targets_ends s a HR false l d Hl Hn) in Hy.
        apply in_map_iff in Hy. destruct Hy as (t & E & Ht). exists t. split; [exact E|].
        apply deduped_in. exact Ht.
      + intros (t & E & Ht). right. apply (proj1 (deduped_in _ _)) in Ht.
        apply in_rev. rewrite <- (dir_targets_ends s a HR false l d Hl Hn).
        apply in_map_iff. exists t. auto.
  Qed.

  (* F7: a page nobody links to is reported with indegree 1 *)
  Theorem reported_indegree_spec : forall l d, wf_lru l -> nodeof s l = Some d ->
    reported_indegree d s = rep_indegree l a.
  Proof.
    intros l d Hl Hn. unfold reported_indegree, rep_indegree.
    change (inh d) with (head_dir false d).
    change (targets_of (stubs s) (head_dir false d)) with (dir_targets false d s).
    rewrite (indegree_len l d Hl Hn).
    destruct (head_dir false d =? 0) eqn:E.
    - apply N.eqb_eq in E. rewrite (head_zero_nil s false d E). reflexivity.
    - apply N.eqb_neq in E. pose proof (head_nonzero s a HR false _ d Hn E) as Hne.
      destruct (dir_targets false d s) as [|t T] eqn:ET; [congruence|].
      assert (Hin : In t (deduped (t :: T))) by (apply deduped_in; left; reflexivity).
      destruct (deduped (t :: T)) as [|t' T']; [destruct Hin|].
      cbn [length]. destruct (N.of_nat (S (length T')) =? 0) eqn:E0; [|reflexivity].
      apply N.eqb_eq in E0. lia.
  Qed.

  (* ---- membership of we_page_nodes ------------------------------------------ *)
  Lemma one_in : forall maxd p sub x d, wf_lru p -> find_sub (lru_iter p) (tr s) = Some sub ->
    (In (x, d) (filter (fun y => page (snd y)) (wdfs_at maxd (lru_dirname p) sub)) <->
     wf_lru x /\ nodeof s x = Some d /\ page d = true /\
     in_realm (a_pref a) p x && within_depth maxd p x = true).
  Proof.
    intros maxd p sub x d Hp E. rewrite filter_In. cbn [snd]. split.
    - intros [Hin Hpg].
      apply (wdfs_at_in s a HC maxd p sub x d Hp E) in Hin. destruct Hin as (r & -> & Hf & Hre & Hd).
      destruct (find_nodeof s a HC _ _ Hf) as [Hl Hn].
      destruct (find_path_lru _ _ _ Hwf Hf) as (_ & _ & Hi).
      rewrite (concat_below p r Hp) in Hl, Hn, Hi.
      split; [exact Hl|]. split; [exact Hn|]. split; [exact Hpg|].
      apply (realm_spec s a HC maxd p _ Hp). exists r. auto.
    - intros (Hl & Hn & Hpg & Hc). split; [|exact Hpg].
      apply (realm_spec s a HC maxd p x Hp) in Hc. destruct Hc as (r & Er & Hre & Hd).
      apply (wdfs_at_in s a HC maxd p sub x d Hp E). exists r. split.
      + rewrite <- (concat_below p r Hp), <- Er. symmetry. apply lru_iter_concat. exact Hl.
      + split; [|auto]. unfold nodeof in Hn. rewrite Er in Hn. exact Hn.
  Qed.

  Definition page_in (maxd : option N) (ps : list bytes) (x : bytes) (d : nd) : Prop :=
    exists p, In p ps /\ wf_lru x /\ nodeof s x = Some d /\ page d = true /\
              in_realm (a_pref a) p x && within_depth maxd p x = true.

  Lemma we_page_nodes_cases : forall maxd ps, Forall wf_lru ps ->
    match we_page_nodes maxd ps s with
    | ROk L => forallb (fun p => mem_bytes p (a_known a)) ps = true /\
               (forall x d, In (x, d) L <-> page_in maxd ps x d)
    | RRefused => forallb (fun p => mem_bytes p (a_known a)) ps = false
    | RCrash => False
    end.
  Proof.
    intros maxd ps Hps. unfold we_page_nodes.
    pose proof (over_prefixes_spec _
      (fun p sub => filter (fun x => page (snd x)) (wdfs_at maxd (lru_dirname p) sub)) ps (tr s)) as H.
    match type of H with match ?o with _ => _ end => destruct o as [| |L] end.
    - destruct H as (p & Hp & E). apply (refusal_agrees s a HC ps Hps). exists p. auto.
    - exact H.
    - destruct H as [Hall Hin]. split; [apply (forallb_known s a HC ps Hps); exact Hall|].
      intros x d. rewrite Hin. unfold page_in. rewrite Forall_forall in Hps. split.
      + intros (p & sub & Hp & E & Hx). exists p. split; [exact Hp|].
        apply (one_in maxd p sub x d (Hps p Hp) E). exact Hx.
      + intros (p & Hp & Hx). destruct (find_sub (lru_iter p) (tr s)) as [sub|] eqn:E.
        * exists p, sub. split; [exact Hp|]. split; [exact E|].
          apply (one_in maxd p sub x d (Hps p Hp) E). exact Hx.
        * exfalso. apply (Hall p Hp). exact E.
  Qed.

  Lemma we_page_nodes_nodup : forall maxd ps, Forall wf_lru ps -> NoDup ps ->
    (forall l p q, In p ps -> In q ps -> in_realm (a_pref a) p l = true ->
                   in_realm (a_pref a) q l = true -> p = q) ->
    forall L, we_page_nodes maxd ps s = ROk L -> NoDup (map fst L).
  Proof.
    intros maxd ps Hps. induction Hps as [|p ps Hp Hps IH]; intros Hnd Hdisj L HL'.
    - cbn in HL'. inversion HL'. constructor.
    - unfold we_page_nodes in HL'. cbn [over_prefixes] in HL'.
      destruct (find_sub (lru_iter p) (tr s)) as [sub|] eqn:E; [|discriminate].
      pose proof (we_page_nodes_cases maxd ps Hps) as Hcs. unfold we_page_nodes in Hcs, IH.
      match type of HL' with match ?o with _ => _ end = _ => destruct o as [| |L0] eqn:EO end;
        try discriminate.
      inversion HL'; subst L. clear HL'. destruct Hcs as [_ Hin0].
      inversion Hnd as [|p' ps' Hnp Hnd']; subst.
      rewrite map_app. apply NoDup_app_intro.
      + apply (NoDup_map_filter _ _ (@fst bytes nd)). apply (wdfs_at_nodup s a HC). exact E.
      + apply IH; [exact Hnd'| |reflexivity].
        intros l p1 q1 H1 H2. apply Hdisj; right; assumption.
      + intros x H1 H2. apply in_map_iff in H1. destruct H1 as ([x1 d1] & E1 & H1).
        apply in_map_iff in H2. destruct H2 as ([x2 d2] & E2 & H2). cbn [fst] in E1, E2. subst x1 x2.
        apply (one_in maxd p sub x d1 Hp E) in H1. destruct H1 as (_ & _ & _ & H1).
        apply Hin0 in H2. destruct H2 as (q & Hq & _ & _ & _ & H2).
        apply andb_true_iff in H1. apply andb_true_iff in H2.
        assert (p = q).
        { apply (Hdisj x); [left; reflexivity|right; exact Hq|tauto|tauto]. }
        subst q. contradiction.
  Qed.

  (* ---- Q20: the most linked pages -------------------------------------------- *)
  Theorem most_linked_spec : forall ps k maxd, Forall wf_lru ps ->
    match most_linked ps k maxd s, s_we_pages maxd ps a with
    | ROk ans, ROk cands =>
        length ans = Nat.min (N.to_nat k) (length cands) /\
        (forall l dg, In (l, dg) ans -> exists c, In (l, c) cands /\ dg = rep_indegree l a) /\
        deg_sorted ans /\
        (forall l c, In (l, c) cands -> ~ In l (map fst ans) ->
                     forall l' dg', In (l', dg') ans -> rep_indegree l a <= dg')
    | RRefused, RRefused => True
    | _, _ => False
    end.
  Proof.
    intros ps k maxd Hps. rewrite most_linked_char.
    pose proof (we_page_nodes_spec s a HC maxd ps Hps) as Hsp.
    pose proof (we_page_nodes_cases maxd ps Hps) as Hcs.
    destruct (we_page_nodes maxd ps s) as [| |L]; destruct (s_we_pages maxd ps a) as [| |cands];
      try exact Hsp.
    destruct Hcs as [_ Hin].
    set (deg := fun x : bytes * nd => reported_indegree (snd x) s).
    set (K := keys (bytes * nd) deg fst 0 L).
    destruct (topk_fold _ deg fst (N.to_nat k) L _ _ (topk_fold_char _ deg fst (N.to_nat k) L))
      as (_ & Hsorted & Hlen & Hkeys & Htop).
    fold K in Hsorted, Hlen, Hkeys, Htop.
    set (H := firstn (N.to_nat k) (isort K)) in *.
    assert (Hdeg : forall x d, In (x, d) L -> deg (x, d) = rep_indegree x a).
    { intros x d Hx. apply Hin in Hx. destruct Hx as (p & _ & Hl & Hn & _).
      unfold deg. cbn [snd]. apply reported_indegree_spec; assumption. }
    assert (Emap : map (fun '(dg, _, lru) => (lru, dg)) H = map (fun y : key => (snd y, fst (fst y))) H).
    { apply map_ext. intros [[dg c] lru]. reflexivity. }
    rewrite Emap. clear Emap.
    split; [|split; [|split]].
    - rewrite map_length, Hlen. f_equal. rewrite <- (Permutation_length Hsp), map_length. reflexivity.
    - intros l dg Hl. apply in_map_iff in Hl. destruct Hl as (y & E & Hy). inversion E; subst.
      apply Hkeys in Hy. apply keys_in in Hy. destruct Hy as ([x d] & Hx & E1 & E2).
      cbn [fst] in E2. rewrite E2, E1. exists (crawled d). split.
      + apply (Permutation_in _ Hsp). apply in_map_iff. exists (x, d). auto.
      + apply Hdeg. exact Hx.
    - unfold deg_sorted. apply (StronglySorted_map _ _ gt); [|exact Hsorted].
      intros x y Hg. cbn [snd]. unfold gt in Hg. lia.
    - intros l c Hc Hnot l' dg' Hl'.
      apply (Permutation_in _ (Permutation_sym Hsp)) in Hc. apply in_map_iff in Hc.
      destruct Hc as ([x d] & E & Hx). cbn [fst snd] in E. inversion E; subst x c.
      destruct (keys_in_conv _ deg fst L 0 (l, d) Hx) as [c' Hc']. cbn [fst] in Hc'. fold K in Hc'.
      apply in_map_iff in Hl'. destruct Hl' as (h & Eh & Hh). inversion Eh; subst.
      assert (Hny : ~ In (deg (l, d), c', l) H).
      { intro Hy. apply Hnot. rewrite map_map. apply in_map_iff.
        exists (deg (l, d), c', l). split; [reflexivity|exact Hy]. }
      pose proof (Htop _ h Hc' Hny Hh) as Hg. unfold gt in Hg. cbn [fst snd] in Hg.
      rewrite <- (Hdeg l d Hx). lia.
  Qed.
End Q20.

(* ====================================================================== *)
(* Q08: links of the pages of a webentity, neighbouring webentities        *)
(* ====================================================================== *)
Lemma in_realms_iff : forall a ps x,
  in_realms a ps x = true <-> exists p, In p ps /\ in_realm (a_pref a) p x = true.
Proof. intros a ps x. unfold in_realms. apply existsb_exists. Qed.

Section Q08.
  Variables (s : traph) (a : astate).
  Hypothesis HR : R s a.

  Let HC : Rcore s a := proj1 HR.
  Let HL : Rlinks s a := proj2 HR.
  Let Hwf : wf_tst (tr s) := R_wf s a HC.

  Lemma page_in_none : forall ps x d,
    page_in s a None ps x d <->
    wf_lru x /\ nodeof s x = Some d /\ page d = true /\ in_realms a ps x = true.
  Proof.
    intros ps x d. unfold page_in. rewrite in_realms_iff. split.
    - intros (p & Hp & Hl & Hn & Hpg & Hr). cbn [within_depth] in Hr. rewrite andb_true_r in Hr.
      eauto 10.
    - intros (Hl & Hn & Hpg & p & Hp & Hr). exists p. cbn [within_depth]. rewrite andb_true_r. auto.
  Qed.

  (* a link end lying in the realms is one of the pages walked *)
  Lemma realm_page : forall ps x, in_realms a ps x = true ->
    (exists y, In (x, y) (a_links a) \/ In (y, x) (a_links a)) ->
    exists d, page_in s a None ps x d.
  Proof.
    intros ps x Hr [y Hy].
    assert (Hx : wf_lru x /\ exists d, nodeof s x = Some d /\ page d = true).
    { destruct Hy as [Hy|Hy]; apply (link_ends s a HR) in Hy; tauto. }
    destruct Hx as (Hl & d & Hn & Hpg). exists d. apply page_in_none. auto.
  Qed.

  Definition c_out (w : N) (int outb : bool) (y : bytes) : bool :=
    (outb && negb (owner a y =? w)) || (int && (owner a y =? w)).
  Definition c_in (w : N) (x : bytes) : bool := negb (owner a x =? w).

  Lemma pagelinks_of_halves : forall w inb int outb lru d,
    pagelinks_of w inb int outb s (lru, d)
    = (if outb || int then out_half s lru (c_out w int outb) d else [])
      ++ (if inb then in_half s lru (c_in w) d else []).
  Proof.
    intros w inb int outb lru d. unfold pagelinks_of, out_w, in_w.
    change (targets_of (stubs s) (outh d)) with (dir_targets true d s).
    change (targets_of (stubs s) (inh d)) with (dir_targets false d s).
    change (outh d) with (head_dir true d). change (inh d) with (head_dir false d).
    rewrite !guard_drop. f_equal.
    - destruct (outb || int); [|reflexivity]. unfold out_half, wl.
      rewrite <- (flat_map_wl s _ (c_out w int outb) (fun tl wt => (lru, tl, wt))).
      apply flat_map_ext_in. intros [tg wt] Hin. cbv zeta.
      rewrite (wl_owner s a HR true d tg wt Hin). reflexivity.
    - destruct inb; [|reflexivity]. unfold in_half, wl.
      rewrite <- (flat_map_wl s _ (c_in w) (fun sl wt => (sl, lru, wt))).
      apply flat_map_ext_in. intros [sr wt] Hin. cbv zeta.
      rewrite (wl_owner s a HR false d sr wt Hin). reflexivity.
  Qed.

  Lemma c_out_guard : forall w int outb y, c_out w int outb y = true -> outb || int = true.
  Proof. intros w int outb y H. unfold c_out in H. destruct outb, int; cbn in *; congruence. Qed.

  Lemma pagelinks_of_in : forall w inb int outb lru d x y wt, wf_lru lru -> nodeof s lru = Some d ->
    (In (x, y, wt) (pagelinks_of w inb int outb s (lru, d)) <->
     (x = lru /\ c_out w int outb y = true /\ In (lru, y) (a_links a) /\ wt = count_link lru y (a_links a))
     \/ (inb = true /\ y = lru /\ c_in w x = true /\ In (x, lru) (a_links a)
         /\ wt = count_link x lru (a_links a))).
  Proof.
    intros w inb int outb lru d x y wt Hl Hn. rewrite pagelinks_of_halves, in_app_iff. split.
    - intros [H|H].
      + destruct (outb || int); [|destruct H]. left. apply (out_half_in s a HR lru _ d x y wt Hl Hn). exact H.
      + destruct inb; [|destruct H]. right. split; [reflexivity|].
        apply (in_half_in s a HR lru _ d x y wt Hl Hn). exact H.
    - intros [H|[Hi H]].
      + left. destruct H as (Hx & Hc & H). rewrite (c_out_guard _ _ _ _ Hc).
        apply (out_half_in s a HR lru _ d x y wt Hl Hn). auto.
      + right. subst inb. apply (in_half_in s a HR lru _ d x y wt Hl Hn). exact H.
  Qed.

  Theorem pagelinks_spec : forall w ps inb int outb, Forall wf_lru ps ->
    match webentity_pagelinks w ps inb int outb s, s_pagelinks w ps inb int outb a with
    | ROk x, ROk y => forall e, In e x <-> In e y
    | RRefused, RRefused => True
    | _, _ => False
    end.
  Proof.
    intros w ps inb int outb Hps. unfold webentity_pagelinks, s_pagelinks.
    destruct (negb int && negb outb && negb inb); [exact I|].
    pose proof (we_page_nodes_cases s a HR None ps Hps) as Hcs.
    destruct (we_page_nodes None ps s) as [| |L].
    - rewrite Hcs. exact I.
    - destruct Hcs.
    - destruct Hcs as [Hk Hin]. rewrite Hk. cbn [negb].
      intros [[x y] wt]. rewrite in_flat_map, filter_In, s_wlinks_in. split.
      + intros ([lru d] & HLd & He). apply Hin, page_in_none in HLd.
        destruct HLd as (Hl & Hn & Hpg & Hr).
        apply (pagelinks_of_in w inb int outb lru d x y wt Hl Hn) in He.
        destruct He as [(-> & Hc & Hlk & Hw)|(Hi & -> & Hc & Hlk & Hw)].
        * split; [auto|]. rewrite Hr. unfold c_out in Hc. rewrite Hc. reflexivity.
        * split; [auto|]. rewrite Hr, Hi. unfold c_in in Hc. rewrite Hc. cbn. apply orb_true_r.
      + intros [[Hlk Hw] Hc]. apply orb_true_iff in Hc. destruct Hc as [Hc|Hc].
        * apply andb_true_iff in Hc. destruct Hc as [Hr Hc].
          destruct (realm_page ps x Hr (ex_intro _ y (or_introl Hlk))) as [d Hd].
          exists (x, d). split; [apply Hin; exact Hd|]. apply page_in_none in Hd.
          destruct Hd as (Hl & Hn & _).
          apply (pagelinks_of_in w inb int outb x d x y wt Hl Hn). left. auto.
        * apply andb_true_iff in Hc. destruct Hc as [Hc Hc3]. apply andb_true_iff in Hc.
          destruct Hc as [Hi Hr].
          destruct (realm_page ps y Hr (ex_intro _ x (or_intror Hlk))) as [d Hd].
          exists (y, d). split; [apply Hin; exact Hd|]. apply page_in_none in Hd.
          destruct Hd as (Hl & Hn & _).
          apply (pagelinks_of_in w inb int outb y d x y wt Hl Hn). right. auto.
  Qed.

  (* each link once: the realms must not overlap and their pages must belong to w *)
  Theorem pagelinks_nodup : forall w ps inb int outb, Forall wf_lru ps -> NoDup ps ->
    (forall l p q, In p ps -> In q ps -> in_realm (a_pref a) p l = true ->
                   in_realm (a_pref a) q l = true -> p = q) ->
    (forall x, in_realms a ps x = true -> owner a x = w) ->
    match webentity_pagelinks w ps inb int outb s with
    | ROk x => NoDup x
    | _ => True
    end.
  Proof.
    intros w ps inb int outb Hps Hnd Hdisj Hown. unfold webentity_pagelinks.
    destruct (negb int && negb outb && negb inb); [exact I|].
    pose proof (we_page_nodes_cases s a HR None ps Hps) as Hcs.
    pose proof (we_page_nodes_nodup s a HR None ps Hps Hnd Hdisj) as HndL.
    destruct (we_page_nodes None ps s) as [| |L]; [exact I|exact I|].
    destruct Hcs as [_ Hin]. specialize (HndL L eq_refl).
    assert (Hview : forall lru d, In (lru, d) L ->
              wf_lru lru /\ nodeof s lru = Some d /\ owner a lru = w).
    { intros lru d H. apply Hin, page_in_none in H. destruct H as (Hl & Hn & _ & Hr). auto. }
    apply NoDup_flat_map.
    - apply NoDup_fst_pairs. exact HndL.
    - intros [lru d] HLd. destruct (Hview lru d HLd) as (Hl & Hn & Ho).
      rewrite pagelinks_of_halves. apply NoDup_app_intro.
      + destruct (outb || int); [apply (out_half_nodup s a HR)|constructor].
      + destruct inb; [apply (in_half_nodup s a HR)|constructor].
      + intros [[x y] wt] H1 H2.
        destruct (outb || int); [|destruct H1]. destruct inb; [|destruct H2].
        apply (out_half_in s a HR lru _ d x y wt Hl Hn) in H1.
        apply (in_half_in s a HR lru _ d x y wt Hl Hn) in H2.
        destruct H1 as (-> & _). destruct H2 as (_ & Hc & _). unfold c_in in Hc.
        rewrite Ho, N.eqb_refl in Hc. discriminate.
    - intros [l1 d1] [l2 d2] [[x y] wt] HL1 HL2 H1 H2.
      destruct (Hview l1 d1 HL1) as (Hl1 & Hn1 & Ho1). destruct (Hview l2 d2 HL2) as (Hl2 & Hn2 & Ho2).
      apply (pagelinks_of_in w inb int outb l1 d1 x y wt Hl1 Hn1) in H1.
      apply (pagelinks_of_in w inb int outb l2 d2 x y wt Hl2 Hn2) in H2.
      assert (Hsame : l1 = l2 -> (l1, d1) = (l2, d2)).
      { intro E. subst l2. rewrite Hn1 in Hn2. inversion Hn2. reflexivity. }
      destruct H1 as [(E1 & _)|(_ & E1 & Hc1 & _)]; destruct H2 as [(E2 & _)|(_ & E2 & Hc2 & _)].
      + apply Hsame. congruence.
      + exfalso. subst x. unfold c_in in Hc2. rewrite Ho1, N.eqb_refl in Hc2. discriminate.
      + exfalso. subst x. unfold c_in in Hc1. rewrite Ho2, N.eqb_refl in Hc1. discriminate.
      + apply Hsame. congruence.
  Qed.

  (* ---- neighbours -------------------------------------------------------------- *)
  Theorem neighbours_spec : forall out ps, Forall wf_lru ps ->
    match webentity_neighbours out ps s, s_neighbours out ps a with
    | ROk x, ROk y => set_eq x y
    | RRefused, RRefused => True
    | _, _ => False
    end.
  Proof.
    intros out ps Hps. unfold webentity_neighbours, s_neighbours.
    pose proof (we_page_nodes_cases s a HR None ps Hps) as Hcs.
    destruct (we_page_nodes None ps s) as [| |L].
    - rewrite Hcs. exact I.
    - destruct Hcs.
    - destruct Hcs as [Hk Hin]. rewrite Hk. cbn [negb].
      intro n. rewrite !deduped_in, in_map_iff, in_flat_map. split.
      + intros (tg & En & Htg). apply (proj1 (deduped_in _ _)) in Htg.
        apply in_flat_map in Htg. destruct Htg as ([lru d] & HLd & Htg).
        apply (proj1 (deduped_in _ _)) in Htg. cbn [snd] in Htg.
        change (targets_of (stubs s) (if out then outh d else inh d)) with (dir_targets out d s) in Htg.
        apply Hin, page_in_none in HLd. destruct HLd as (Hl & Hn & Hpg & Hr).
        destruct (target_node s a HR _ _ Htg) as (y & d' & V).
        assert (Hy : In (mkpair out lru y) (a_links a)).
        { apply ends_in, in_rev. rewrite <- (dir_targets_ends s a HR out lru d Hl Hn).
          apply in_map_iff. exists tg. split; [apply (tv_lru _ _ _ _ _ V)|exact Htg]. }
        rewrite (tv_we _ _ _ _ _ V) in En.
        exists (mkpair out lru y). split; [exact Hy|].
        destruct out; cbn [mkpair]; rewrite Hr; left; exact En.
      + intros ([x y] & Hlk & Hn').
        assert (Hcase : exists l z, mkpair out l z = (x, y) /\ in_realms a ps l = true /\ n = owner a z).
        { destruct out.
          - exists x, y. destruct (in_realms a ps x); [|destruct Hn'].
            destruct Hn' as [<-|[]]. auto.
          - exists y, x. destruct (in_realms a ps y); [|destruct Hn'].
            destruct Hn' as [<-|[]]. auto. }
        destruct Hcase as (l & z & Emk & Hr & ->).
        assert (Hlk' : In (mkpair out l z) (a_links a)) by (rewrite Emk; exact Hlk).
        destruct (realm_page ps l Hr) as [d Hd].
        { exists z. destruct out; cbn [mkpair] in Hlk'; auto. }
        pose proof Hd as Hd'. apply page_in_none in Hd'. destruct Hd' as (Hl & Hn & _).
        apply ends_in, in_rev in Hlk'. rewrite <- (dir_targets_ends s a HR out l d Hl Hn) in Hlk'.
        apply in_map_iff in Hlk'. destruct Hlk' as (tg & Etg & Htg).
        destruct (target_node s a HR _ _ Htg) as (y' & d' & V).
        exists tg. split.
        * rewrite (tv_we _ _ _ _ _ V). rewrite <- Etg, (tv_lru _ _ _ _ _ V). reflexivity.
        * apply deduped_in. apply in_flat_map. exists (l, d). split; [apply Hin; exact Hd|].
          apply deduped_in. cbn [snd]. exact Htg.
  Qed.
End Q08.

(* ====================================================================== *)
(* The natural case: the prefixes are prefixes of webentity w              *)
(* ====================================================================== *)
Lemma wwalk_zero : forall r c w,
  (forall r1 r2 d1, r = r1 ++ r2 -> r1 <> [] -> find r1 c = Some d1 -> we d1 = 0) ->
  wwalk w c r = w.
Proof.
  induction r as [|s' r' IH]; intros c w H; [reflexivity|].
  cbn [wwalk]. destruct (sib_find s' c) as [[d' c']|] eqn:Es; [|reflexivity].
  assert (E0 : we d' = 0).
  { apply (H [s'] r' d' eq_refl); [discriminate|]. rewrite find_single, Es. reflexivity. }
  rewrite E0, N.eqb_refl. apply IH. intros r1 r2 d1 E Hne Hf.
  apply (H (s' :: r1) r2 d1); [cbn [app]; rewrite E; reflexivity|discriminate|].
  rewrite find_sib, Es. destruct r1; [contradiction|exact Hf].
Qed.

Lemma wwalk_realm : forall q t w0 r d0, find q t = Some d0 -> we d0 <> 0 ->
  (forall r1 r2 d1, r = r1 ++ r2 -> r1 <> [] -> find (q ++ r1) t = Some d1 -> we d1 = 0) ->
  wwalk w0 t (q ++ r) = we d0.
Proof.
  induction q as [|s q IH]; intros t w0 r d0 Hf Hw H; [rewrite find_nil in Hf; discriminate|].
  cbn [app wwalk]. rewrite find_sib in Hf.
  destruct (sib_find s t) as [[d c]|] eqn:Es; [|discriminate]. destruct q as [|s2 q2].
  - inversion Hf; subst d0. cbn [app]. apply N.eqb_neq in Hw. rewrite Hw. apply wwalk_zero.
    intros r1 r2 d1 E Hne Hf1. apply (H r1 r2 d1 E Hne). cbn [app]. rewrite find_sib, Es.
    destruct r1; [contradiction|exact Hf1].
  - apply (IH c _ r d0 Hf Hw). intros r1 r2 d1 E Hne Hf1. apply (H r1 r2 d1 E Hne).
    cbn [app]. rewrite find_sib, Es. cbn [app] in Hf1. exact Hf1.
Qed.

Section OwnRealms.
  Variables (s : traph) (a : astate).
  Hypothesis HR : R s a.

  Let HC : Rcore s a := proj1 HR.

  Lemma in_realm_split : forall p x, wf_lru p -> in_realm (a_pref a) p x = true ->
    exists r, lru_iter x = lru_iter p ++ r /\ realm_t s (lru_iter p) r.
  Proof.
    intros p x Hp H.
    assert (H' : in_realm (a_pref a) p x && within_depth None p x = true)
      by (cbn [within_depth]; rewrite andb_true_r; exact H).
    apply (realm_spec s a HC None p x Hp) in H'. destruct H' as (r & E & Hre & _). eauto.
  Qed.

  Lemma pref_node : forall p w, wf_lru p -> In (p, w) (a_pref a) ->
    exists d, find (lru_iter p) (tr s) = Some d /\ we d = w /\ w <> 0.
  Proof. intros p w Hp H. apply (R_pref s a HC p w Hp) in H. exact H. Qed.

  (* a page in the realm of a prefix of w belongs to w *)
  Lemma owner_in_realm : forall p w x, wf_lru p -> In (p, w) (a_pref a) ->
    in_realm (a_pref a) p x = true -> owner a x = w.
  Proof.
    intros p w x Hp Hpw Hr. destruct (pref_node p w Hp Hpw) as (d0 & Hf & Hw & Hnz).
    destruct (in_realm_split p x Hp Hr) as (r & E & Hre).
    rewrite (owner_wwalk s a HR), E, <- Hw. apply wwalk_realm; [exact Hf|congruence|exact Hre].
  Qed.

  (* the realms of two prefixes carrying webentities do not overlap *)
  Lemma realms_disjoint : forall l p q w1 w2, wf_lru p -> wf_lru q ->
    In (p, w1) (a_pref a) -> In (q, w2) (a_pref a) ->
    in_realm (a_pref a) p l = true -> in_realm (a_pref a) q l = true -> p = q.
  Proof.
    intros l p q w1 w2 Hp Hq H1 H2 Hr1 Hr2.
    destruct (pref_node p w1 Hp H1) as (dp & Hfp & Hwp & Hnp).
    destruct (pref_node q w2 Hq H2) as (dq & Hfq & Hwq & Hnq).
    destruct (in_realm_split p l Hp Hr1) as (r & E & Hre).
    destruct (in_realm_split q l Hq Hr2) as (r' & E' & Hre').
    rewrite E in E'. destruct (app_eq_split _ _ _ _ _ E') as [[u Eu]|(r1 & r2 & Hne & Eq & Er)].
    - destruct u as [|u0 u].
      + rewrite app_nil_r in Eu. rewrite <- (lru_iter_concat p Hp), <- (lru_iter_concat q Hq), Eu. reflexivity.
      + exfalso. rewrite Eu, <- app_assoc in E'. apply app_inv_head in E'.
        assert (E0 : we dq = 0).
        { apply (Hre (u0 :: u) r' dq E'); [discriminate|]. rewrite <- Eu. exact Hfq. }
        congruence.
    - exfalso.
      assert (E0 : we dp = 0).
      { apply (Hre' r1 r2 dp Er Hne). rewrite <- Eq. exact Hfp. }
      congruence.
  Qed.

  Corollary pagelinks_nodup_we : forall w ps inb int outb, Forall wf_lru ps -> NoDup ps ->
    (forall p, In p ps -> In (p, w) (a_pref a)) ->
    match webentity_pagelinks w ps inb int outb s with
    | ROk x => NoDup x
    | _ => True
    end.
  Proof.
    intros w ps inb int outb Hps Hnd Hw. pose proof Hps as Hps'. rewrite Forall_forall in Hps'.
    apply (pagelinks_nodup s a HR w ps inb int outb Hps Hnd).
    - intros l p q Hp Hq. apply (realms_disjoint l p q w w); auto.
    - intros x Hx. apply in_realms_iff in Hx. destruct Hx as (p & Hp & Hr).
      apply (owner_in_realm p w x); auto.
  Qed.
End OwnRealms.
