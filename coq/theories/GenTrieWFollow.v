(* GenTrieWFollow.v — the translated LRUTrie.follow_lru (GenTrieW.v, generated from /repo/traph/lru_trie/lru_trie.py)
   agrees with the tree model Tst.follow on the trie file of every state that satisfies the block invariant Inv18:
     the walk ends on the node Tst.find_sub finds (or on nothing when it finds nothing),
     the walk-history object holds the history Tst.follow gathers,
     the bytes of the file are untouched, the loops never run out of fuel and never raise. *)
From Coq Require Import List NArith Bool Lia Arith.
Import ListNotations.
From Traph Require Import Bytes Consts Layout Helpers Rules Tst TstDefs Traph Traphw TraceDefs Codec CodecFacts
  TstFacts Store StoreFacts GenStorage GenNode GenNodeFacts GenTrie GenTrieFacts GenTrieW GenTrieWDefs.
From Traph Require GenHelpers2 GenHelpers2Facts Ops IdFacts PropsEx.
Open Scope N_scope.

Arguments N.shiftr : simpl never.
Arguments N.shiftl : simpl never.
Arguments N.modulo : simpl never.
Arguments N.div : simpl never.
Arguments N.land : simpl never.
Arguments N.lor : simpl never.
Arguments N.mul : simpl never.
Arguments N.add : simpl never.
Arguments N.sub : simpl never.
Arguments N.ltb : simpl never.
Arguments N.eqb : simpl never.

(* ---- the generated definition in readable pieces ---- *)
Definition RF : Type := option (py_pm * (option py_node * py_hist)).
Definition StF : Type := (py_pm * py_hist * bytes * py_node)%type.

(* the BST walk among siblings; the history is only carried into the early returns *)
Definition innerF (v_history : py_hist) (v_stem : bytes) :=
 fix py_loop (fuel : nat) (st : (py_pm * py_node)) {struct fuel} : (RF + (py_pm * py_node)) :=
 match fuel with
 | O => inr st
 | S fuel' =>
 let '(sg, v_node) := st in
 (let v_current_stem := (py_node_stem v_node) in
 (if (beq v_current_stem v_stem)
 then (inr (sg, v_node))
 else (if (blt v_stem v_current_stem)
 then (if (py_node_has_left v_node)
 then (match py_node_read_left v_node sg with
 | None => (inl None)
 | Some (v_node, sg) => (py_loop fuel' (sg, v_node)) end)
 else (inl (Some (sg, (None, v_history)))))
 else (if (py_node_has_right v_node)
 then (match py_node_read_right v_node sg with
 | None => (inl None)
 | Some (v_node, sg) => (py_loop fuel' (sg, v_node)) end)
 else (inl (Some (sg, (None, v_history))))))))
 end.

(* the bookkeeping done when standing on a node reached with the LRU [lru] *)
Definition pvisit (n : py_node) (lru : bytes) (ph : py_hist) : py_hist :=
  let ph1 := if py_node_has_webentity n
             then py_hist_update_webentity ph (py_node_webentity n) lru (N.of_nat (length lru)) else ph in
  if py_node_has_webentity_creation_rule n
  then py_hist_add_webentity_creation_rule ph1 (N.of_nat (length lru)) else ph1.

(* what happens after the stem has been matched *)
Definition afterF (v_l v_i : N) (sg : py_pm) (v_history : py_hist) (v_lru : bytes) (v_node : py_node) : RF + StF :=
 (let '(sg, v_history) := (if (py_node_has_webentity v_node)
 then (let v_history := py_hist_update_webentity v_history (py_node_webentity v_node) v_lru (N.of_nat (length v_lru)) in
 (sg, v_history))
 else (sg, v_history)) in
 (let '(sg, v_history) := (if (py_node_has_webentity_creation_rule v_node)
 then (let v_history := py_hist_add_webentity_creation_rule v_history (N.of_nat (length v_lru)) in
 (sg, v_history))
 else (sg, v_history)) in
 (if (N.ltb v_i (N.sub v_l 1%N))
 then (if (negb (py_node_has_child v_node))
 then (inl (Some (sg, (None, v_history))))
 else (match py_node_read_child v_node sg with
 | None => (inl None)
 | Some (v_node, sg) => (inr (sg, v_history, v_lru, v_node)) end))
 else (inr (sg, v_history, v_lru, v_node))))).

Definition stepF (v_stems : list bytes) (v_l : N) (acc : RF + StF) (v_i : N) : RF + StF :=
 match acc with
 | inl v__r => inl v__r
 | inr (sg, v_history, v_lru, v_node) =>
   (let v_stem := (nth (N.to_nat v_i) v_stems (@nil N)) in
   (let v_lru := (v_lru ++ v_stem) in
   (match innerF v_history v_stem (S (length (pm_array sg))) (sg, v_node) with
    | inl v__r => (inl v__r)
    | inr (sg, v_node) => afterF v_l v_i sg v_history v_lru v_node end)))
 end.

Lemma follow_lru_eq : forall sg lru,
  py_trie_follow_lru sg lru =
  (let '(n, sg) := py_node_init sg None (Some py_first_data_block) None in
   let h := py_hist_init lru in
   let stems := GenHelpers2.py_lru_iter lru in
   let l := N.of_nat (length stems) in
   match fold_left (stepF stems l) (py_range l) (inr (sg, h, [], n)) with
   | inl r => r
   | inr (sg, h, _, n) => Some (sg, (Some n, h))
   end).
Proof. reflexivity. Qed.

Lemma afterF_eq : forall l i sg h lru n,
  afterF l i sg h lru n =
  (let h' := pvisit n lru h in
   if i <? l - 1
   then (if negb (py_node_has_child n) then inl (Some (sg, (None, h')))
         else match py_node_read_child n sg with
              | None => inl None
              | Some (n', sg') => inr (sg', h', lru, n')
              end)
   else inr (sg, h', lru, n)).
Proof.
  intros l i sg h lru n. unfold afterF, pvisit.
  destruct (py_node_has_webentity n), (py_node_has_webentity_creation_rule n); reflexivity.
Qed.

(* ---- reading the data of a node object ---- *)
Lemma get_we : forall b, py_get_num pos_we (tblock_vals b) = b_we b.
Proof. intros [st fl w l r c p o i]. reflexivity. Qed.

Lemma flags_rule : forall d, N.testbit (flags_of d) flag_rule = rule d.
Proof.
  intro d. unfold flags_of.
  destruct (page d), (crawled d), (rule d), (has_tail_of (stem d)), (nochild d); reflexivity.
Qed.

Lemma py_test_rule : forall d la ra ca,
  py_test (tblock_vals (main_block d la ra ca)) (N.of_nat pos_flags) flag_rule = rule d.
Proof.
  intros d la ra ca. unfold py_test.
  change (py_get_num (N.to_nat (N.of_nat pos_flags)) (tblock_vals (main_block d la ra ca))) with (flags_of d).
  rewrite py_test_testbit. apply flags_rule.
Qed.

(* the four history fields the walk maintains *)
Definition hrep (h : hist) (ph : py_hist) : Prop :=
  hs_webentity ph = (if h_we h =? 0 then None else Some (h_we h)) /\
  hs_webentity_prefix ph = h_pref h /\
  hs_webentity_position ph = h_pos h /\
  hs_webentity_creation_rules ph = h_rules h.

Lemma pvisit_rep : forall d l c r n lru h ph,
  node_at (Nd d l c r) n -> hrep h ph ->
  hrep (visit d lru h) (pvisit n lru ph) /\
  hs_lru (pvisit n lru ph) = hs_lru ph /\ hs_page_was_created (pvisit n lru ph) = hs_page_was_created ph.
Proof.
  intros d l c r n lru h ph (_ & _ & Hd & _) (H1 & H2 & H3 & H4).
  unfold pvisit, visit, py_node_has_webentity, py_node_webentity, py_node_has_webentity_creation_rule.
  rewrite Hd, get_we, py_test_rule. cbn [main_block b_we]. unfold blen.
  destruct (we d =? 0) eqn:Ew; cbn [negb]; destruct (rule d);
    unfold hrep, py_hist_update_webentity, py_hist_add_webentity_creation_rule;
    cbn [hs_set_webentity hs_set_webentity_prefix hs_set_webentity_position hs_set_webentity_creation_rules
         hs_webentity hs_webentity_prefix hs_webentity_position hs_webentity_creation_rules hs_lru hs_page_was_created
         h_we h_pref h_pos h_rules];
    rewrite ?Ew, ?H4; repeat split; assumption.
Qed.

Lemma follow_gsib : forall x rest pre h t,
  follow (x :: rest) pre h t =
  match sib x t with
  | Some (Nd d l c r) => match rest with
                         | [] => (visit d (pre ++ x) h, Some d)
                         | _ :: _ => follow rest (pre ++ x) (visit d (pre ++ x) h) c
                         end
  | _ => (h, None)
  end.
Proof.
  intros x rest pre h. induction t as [|d l IHl c _ r IHr]; [reflexivity|].
  rewrite follow_Nd. cbn [sib]. destruct (lex x (stem d)); [reflexivity|exact IHl|exact IHr].
Qed.

Section OnState.
  Variable s : traph.
  Hypothesis Hinv : Inv18 s.

  (* reading an existing node leaves the bytes alone *)
  Lemma read_subt_arr : forall d l c r nd0 sg, subt (Nd d l c r) (tr s) -> trep (files_of s) sg ->
    pm_array (snd (py_node_read_o nd0 sg (Some (addr d)))) = pm_array sg.
  Proof.
    intros d l c r nd0 sg Hsub (Hbs & (hdr & Harr & Hh) & Henc).
    rewrite py_node_read_o_some.
    pose proof (blk_at_main_subt s Hinv d l c r Hsub) as Hblk. destruct (blk_at_off _ _ _ Hblk) as [Hao Hn0].
    pose proof (py_node_read_spec nd0 sg hdr (files_of s) (tidx (addr d)) _ Hbs Harr Hh Henc Hn0) as HS.
    cbv zeta in HS. rewrite <- Hao in HS. apply HS.
  Qed.

  (* following a register that names the root of a non-empty subtree *)
  Lemma follow_reg_arr : forall d l c r nd0 sg, subt (Nd d l c r) (tr s) -> trep (files_of s) sg ->
    (addr d =? 0) = false /\ (addr d <? py_first_data_block) = false /\
    exists n1 sg1, py_node_read_o nd0 sg (Some (addr d)) = (n1, sg1) /\
      node_at (Nd d l c r) n1 /\ trep (files_of s) sg1 /\ pm_array sg1 = pm_array sg.
  Proof.
    intros d l c r nd0 sg Hsub Hrep.
    destruct (follow_reg s Hinv (Nd d l c r) nd0 sg (addr d) (or_introl Hsub) eq_refl Hrep) as (Hz & Hlt & Hna & Hr').
    pose proof (read_subt_arr d l c r nd0 sg Hsub Hrep) as Ha.
    split; [exact Hz|]. split; [exact Hlt|].
    destruct (py_node_read_o nd0 sg (Some (addr d))) as [n1 sg1]. cbn [fst snd] in *.
    exists n1, sg1. split; [reflexivity|]. split; [exact Hna|]. split; [exact Hr'|exact Ha].
  Qed.

  (* ---- the BST walk among siblings ---- *)
  Lemma innerF_spec : forall h x sub, subt sub (tr s) -> forall fuel n sg,
    (size sub <= fuel)%nat -> node_at sub n -> trep (files_of s) sg ->
    exists sg', trep (files_of s) sg' /\ pm_array sg' = pm_array sg /\
      match sib x sub with
      | Some sub' => exists n', innerF h x fuel (sg, n) = inr (sg', n') /\ node_at sub' n' /\ subt sub' (tr s)
      | None => innerF h x fuel (sg, n) = inl (Some (sg', (None, h)))
      end.
  Proof.
    intros h x sub. induction sub as [|d l IHl c _ r IHr]; intros Hsub fuel n sg Hf Hn Hrep; [destruct Hn|].
    destruct fuel as [|k]; [cbn [size] in Hf; lia|]. cbn [size] in Hf.
    pose proof Hn as (He & Hb & Hd & Hs).
    cbn [innerF sib]. rewrite Hs, beq_lex. unfold blt.
    destruct (lex x (stem d)) eqn:E.
    - exists sg. split; [exact Hrep|]. split; [reflexivity|]. exists n. repeat split; assumption.
    - unfold py_node_has_left, py_node_read_left, py_node_has_left, py_node_left.
      rewrite Hd, get_left. cbn [main_block b_left].
      destruct l as [|dl ll cl rl].
      + cbn [root_addr]. change (0 =? 0) with true. cbn [negb]. exists sg. split; [exact Hrep|]. split; reflexivity.
      + pose proof (subt_left _ _ _ _ _ Hsub) as Hl. cbn [root_addr].
        destruct (follow_reg_arr dl ll cl rl n sg Hl Hrep) as (Hz & Hlt & n1 & sg1 & Er & Hna & Hr' & Ha).
        rewrite Hz. cbn [negb]. rewrite Hlt, Er.
        destruct (IHl Hl k n1 sg1 ltac:(lia) Hna Hr') as (sg' & H1 & H2 & H3).
        exists sg'. split; [exact H1|]. split; [rewrite H2; exact Ha|exact H3].
    - unfold py_node_has_right, py_node_read_right, py_node_has_right, py_node_right.
      rewrite Hd, get_right. cbn [main_block b_right].
      destruct r as [|dr lr cr rr].
      + cbn [root_addr]. change (0 =? 0) with true. cbn [negb]. exists sg. split; [exact Hrep|]. split; reflexivity.
      + pose proof (subt_right _ _ _ _ _ Hsub) as Hr. cbn [root_addr].
        destruct (follow_reg_arr dr lr cr rr n sg Hr Hrep) as (Hz & Hlt & n1 & sg1 & Er & Hna & Hr' & Ha).
        rewrite Hz. cbn [negb]. rewrite Hlt, Er.
        destruct (IHr Hr k n1 sg1 ltac:(lia) Hna Hr') as (sg' & H1 & H2 & H3).
        exists sg'. split; [exact H1|]. split; [rewrite H2; exact Ha|exact H3].
  Qed.

  Lemma fold_stepF_inl : forall stems l is r, fold_left (stepF stems l) is (inl r) = inl r.
  Proof. induction is as [|i is IH]; intro r; [reflexivity|apply IH]. Qed.

  (* ---- the descent over the stems ---- *)
  Lemma descentF_spec : forall stems m k sub n sg pre h ph,
    (k + m = length stems)%nat -> (1 <= m)%nat ->
    subt sub (tr s) -> node_at sub n -> trep (files_of s) sg -> hrep h ph ->
    exists sg' ph', trep (files_of s) sg' /\ pm_array sg' = pm_array sg /\
      hrep (fst (follow (skipn k stems) pre h sub)) ph' /\
      hs_lru ph' = hs_lru ph /\ hs_page_was_created ph' = hs_page_was_created ph /\
      match find_sub (skipn k stems) sub with
      | Some t' => exists n' pre', fold_left (stepF stems (N.of_nat (length stems))) (map N.of_nat (seq k m)) (inr (sg, ph, pre, n))
                             = inr (sg', ph', pre', n') /\ node_at t' n' /\ subt t' (tr s)
      | None => fold_left (stepF stems (N.of_nat (length stems))) (map N.of_nat (seq k m)) (inr (sg, ph, pre, n))
                = inl (Some (sg', (None, ph')))
      end.
  Proof.
    intros stems m. induction m as [|m IH]; intros k sub n sg pre h ph Hkm Hm Hsub Hn Hrep Hh; [lia|].
    assert (Hk : (k < length stems)%nat) by lia.
    destruct (skipn k stems) as [|x rest] eqn:Esk.
    { exfalso. assert (length (skipn k stems) = length stems - k)%nat by apply skipn_length. rewrite Esk in H. cbn in H. lia. }
    assert (Hx : nth k stems [] = x).
    { rewrite <- (firstn_skipn k stems) at 1. rewrite app_nth2; rewrite firstn_length_le by lia; [|lia].
      rewrite Nat.sub_diag, Esk. reflexivity. }
    assert (Hrest : skipn (S k) stems = rest).
    { rewrite skipn_S_tl, Esk. reflexivity. }
    cbn [seq map fold_left]. cbn [stepF]. rewrite Nat2N.id, Hx.
    destruct (innerF_spec ph x sub Hsub (S (length (pm_array sg))) n sg (fuel_enough s sub sg Hsub Hrep) Hn Hrep)
      as (sg1 & Hrep1 & Harr1 & Hin).
    rewrite find_sub_sib, follow_gsib.
    destruct (sib x sub) as [t1|] eqn:Es.
    2:{ rewrite Hin, fold_stepF_inl. exists sg1, ph. cbn [fst].
        split; [exact Hrep1|]. split; [exact Harr1|]. split; [exact Hh|]. split; [reflexivity|]. split; reflexivity. }
    destruct Hin as (n1 & Ein & Hn1 & Hsub1). rewrite Ein.
    destruct t1 as [|d1 l1 c1 r1]; [destruct Hn1|].
    rewrite afterF_eq. cbv zeta.
    destruct (pvisit_rep d1 l1 c1 r1 n1 (pre ++ x) h ph Hn1 Hh) as (Hh1 & Hl1 & Hc1).
    destruct (N.ltb_spec (N.of_nat k) (N.of_nat (length stems) - 1)) as [Hlt|Hge].
    - (* not the last stem *)
      assert (Hm1 : (1 <= m)%nat) by lia.
      destruct rest as [|y rest'].
      { exfalso. assert (length (skipn (S k) stems) = length stems - S k)%nat by apply skipn_length.
        rewrite Hrest in H. cbn in H. lia. }
      pose proof Hn1 as (_ & _ & Hd1 & _).
      unfold py_node_has_child, py_node_read_child, py_node_has_child, py_node_child.
      rewrite Hd1, get_child. cbn [main_block b_child].
      destruct c1 as [|dc lc cc rc].
      + cbn [root_addr]. change (0 =? 0) with true. cbn [negb]. rewrite fold_stepF_inl.
        exists sg1, (pvisit n1 (pre ++ x) ph). rewrite follow_Lf. cbn [fst].
        split; [exact Hrep1|]. split; [exact Harr1|]. split; [exact Hh1|]. split; [exact Hl1|]. split; [exact Hc1|].
        destruct (y :: rest'); reflexivity.
      + pose proof (subt_child _ _ _ _ _ Hsub1) as Hc. cbn [root_addr].
        destruct (follow_reg_arr dc lc cc rc n1 sg1 Hc Hrep1) as (Hz & Hlt' & n2 & sg2 & Er & Hna & Hr' & Ha).
        rewrite Hz. cbn [negb]. rewrite Hlt', Er.
        destruct (IH (S k) (Nd dc lc cc rc) n2 sg2 (pre ++ x) (visit d1 (pre ++ x) h) (pvisit n1 (pre ++ x) ph)
                     ltac:(lia) Hm1 Hc Hna Hr' Hh1) as (sg3 & ph3 & Hrep3 & Harr3 & Hh3 & Hl3 & Hc3 & H3).
        rewrite Hrest in H3, Hh3. exists sg3, ph3.
        split; [exact Hrep3|]. split; [rewrite Harr3, Ha; exact Harr1|]. split; [exact Hh3|].
        split; [rewrite Hl3; exact Hl1|]. split; [rewrite Hc3; exact Hc1|exact H3].
    - (* the last stem *)
      assert (m = 0)%nat by lia. subst m. cbn [seq map fold_left].
      destruct rest as [|y rest'].
      + exists sg1, (pvisit n1 (pre ++ x) ph). cbn [fst].
        split; [exact Hrep1|]. split; [exact Harr1|]. split; [exact Hh1|]. split; [exact Hl1|]. split; [exact Hc1|].
        exists n1, (pre ++ x). split; [reflexivity|]. split; [exact Hn1|exact Hsub1].
      + exfalso. assert (length (skipn (S k) stems) = length stems - S k)%nat by apply skipn_length.
        rewrite Hrest in H. cbn in H. lia.
  Qed.

  (* LRUTrie.follow_lru(lru) on the trie file of the state: the node object of the node Tst.find_sub finds (None when the LRU
     leaves the tree), the walk history Tst.follow gathers, the bytes of the file untouched *)
  Theorem py_trie_follow_lru_spec : forall sg lru,
    root_first s -> trep (files_of s) sg -> wf_lru lru ->
    exists sg' on ph, py_trie_follow_lru sg lru = Some (sg', (on, ph)) /\
      trep (files_of s) sg' /\ pm_array sg' = pm_array sg /\
      hist_rep lru (fst (follow (lru_iter lru) [] hist0 (tr s))) false ph /\
      match find_sub (lru_iter lru) (tr s) with
      | Some t' => exists n', on = Some n' /\ node_at t' n'
      | None => on = None
      end.
  Proof.
    intros sg lru Hroot Hrep Hwf. rewrite follow_lru_eq, init_read. cbv zeta.
    rewrite GenHelpers2Facts.py_lru_iter_eq.
    pose proof (lru_iter_nonempty lru Hwf) as Hne.
    set (stems := lru_iter lru) in *.
    assert (Hlen : (1 <= length stems)%nat) by (destruct stems; [congruence|cbn; lia]).
    rewrite py_range_seq.
    assert (Hh0 : hrep hist0 (py_hist_init lru)) by (repeat split).
    destruct Hroot as [Hr|Hr].
    - (* a non-empty trie: its root is the first data block *)
      destruct (tr s) as [|d l c r] eqn:Et; [cbn in Hr; discriminate Hr|].
      cbn [root_addr] in Hr.
      assert (Hsub : subt (Nd d l c r) (tr s)) by (rewrite Et; apply subt_here).
      destruct (follow_reg_arr d l c r (nd_set_tail [] (nd_set_exists false (nd_set_block None py_node_new))) sg Hsub Hrep)
        as (_ & _ & n0 & sg0 & Er & Hn0 & Hrep0 & Harr0).
      rewrite Hr in Er. change py_first_data_block with bsz. rewrite Er. cbv beta iota.
      destruct (descentF_spec stems (length stems) 0 (Nd d l c r) n0 sg0 [] hist0 (py_hist_init lru)
                  eq_refl Hlen Hsub Hn0 Hrep0 Hh0) as (sg' & ph' & Hrep' & Harr' & Hh' & Hl' & Hc' & H).
      cbn [skipn] in H, Hh'. rewrite <- Et.
      assert (HH : hist_rep lru (fst (follow stems [] hist0 (tr s))) false ph').
      { rewrite Et. destruct Hh' as (H1 & H2 & H3 & H4). unfold hist_rep. rewrite Hl', Hc'. repeat split; assumption. }
      rewrite Et in *.
      destruct (find_sub stems (Nd d l c r)) as [t'|].
      + destruct H as (n' & pre' & E & Hn' & _). exists sg', (Some n'), ph'.
        match goal with |- context [match ?X with inl _ => _ | inr _ => _ end] =>
          replace X with (@inr RF StF (sg', ph', pre', n')) by (symmetry; exact E) end.
        split; [reflexivity|]. split; [exact Hrep'|]. split; [rewrite Harr'; exact Harr0|]. split; [exact HH|].
        exists n'. split; [reflexivity|exact Hn'].
      + exists sg', None, ph'.
        match goal with |- context [match ?X with inl _ => _ | inr _ => _ end] =>
          replace X with (@inl RF StF (Some (sg', (None, ph')))) by (symmetry; exact H) end.
        split; [reflexivity|]. split; [exact Hrep'|]. split; [rewrite Harr'; exact Harr0|]. split; [exact HH|reflexivity].
    - (* an empty trie: the root block does not exist, the node object holds the default data *)
      rewrite Hr. rewrite (QueryCore2.find_sub_Lf stems), follow_Lf. cbn [fst].
      destruct Hrep as (Hbs & (hdr & Harr & Hh) & Henc).
      assert (Eft : ft (files_of s) = []).
      { apply length_zero_iff_nil. rewrite ft_length, Hr. reflexivity. }
      rewrite Eft in Harr. cbn [flat_map] in Harr. rewrite app_nil_r in Harr.
      rewrite py_node_read_o_some.
      pose proof (py_node_read_absent (nd_set_tail [] (nd_set_exists false (nd_set_block None py_node_new))) sg py_first_data_block) as HA.
      cbv zeta in HA. destruct HA as (Hex & _ & Hdat & Htl & Harr' & Hbs').
      { rewrite Harr, Hh. change py_first_data_block with 128. lia. }
      destruct (py_node_read _ sg py_first_data_block) as [n0 sg0]. cbn [fst snd] in *.
      exists sg0, None, (py_hist_init lru).
      assert (Hrep0 : trep (files_of s) sg0).
      { split; [rewrite Hbs'; exact Hbs|]. split; [|exact Henc]. exists hdr. rewrite Harr', Eft, Harr.
        cbn [flat_map]. rewrite app_nil_r. split; [reflexivity|exact Hh]. }
      assert (HH : hist_rep lru hist0 false (py_hist_init lru)) by (repeat split).
      split; [|split; [exact Hrep0|split; [exact Harr'|split; [exact HH|reflexivity]]]].
      destruct stems as [|x rest] eqn:Es; [congruence|].
      cbn [length seq map fold_left]. cbn [stepF]. cbn [N.to_nat nth].
      assert (Hx : x <> []).
      { pose proof (lru_iter_wf lru) as Hw. fold stems in Hw. rewrite Es in Hw. inversion Hw as [|? ? Hwx _]; subst.
        destruct Hwx as (body & -> & _). destruct body; discriminate. }
      cbn [innerF]. unfold py_node_stem. rewrite Hdat, Htl. cbn [default_data py_get_bytes nth vbytes app].
      assert (Eb : beq [] x = false) by (destruct x; [congruence|reflexivity]).
      assert (El : blt x [] = false) by (destruct x; reflexivity).
      change (N.to_nat (N.of_nat 0)) with 0%nat. cbv iota.
      change (py_get_bytes pos_stem (VBytes [] :: VNum default_flags :: repeat (VNum 0) node_registers) ++ []) with (@nil N).
      rewrite Eb, El. unfold py_node_has_right. rewrite Hdat. cbn [default_data py_get_num nth vnum].
      change (py_get_num pos_right default_data) with 0. change (0 =? 0) with true. cbn [negb].
      rewrite fold_stepF_inl. reflexivity.
  Qed.

  (* the node follow_lru returns is the node the model's follow returns *)
  Corollary py_trie_follow_lru_node : forall sg lru d,
    root_first s -> trep (files_of s) sg -> wf_lru lru ->
    snd (follow (lru_iter lru) [] hist0 (tr s)) = Some d ->
    exists sg' n' ph, py_trie_follow_lru sg lru = Some (sg', (Some n', ph)) /\
      nd_block n' = Some (addr d) /\
      trep (files_of s) sg' /\ pm_array sg' = pm_array sg /\
      hist_rep lru (fst (follow (lru_iter lru) [] hist0 (tr s))) false ph.
  Proof.
    intros sg lru d Hroot Hrep Hwf Hf.
    destruct (py_trie_follow_lru_spec sg lru Hroot Hrep Hwf) as (sg' & on & ph & E & Hrep' & Harr' & HH & Hon).
    rewrite follow_find in Hf. unfold find in Hf.
    destruct (find_sub (lru_iter lru) (tr s)) as [t'|]; [|discriminate Hf].
    destruct Hon as (n' & -> & Hn'). destruct t' as [|d' l' c' r']; [destruct Hn'|].
    cbn [node_of] in Hf. injection Hf as ->.
    exists sg', n', ph. split; [exact E|]. split; [apply Hn'|]. split; [exact Hrep'|]. split; [exact Harr'|exact HH].
  Qed.
End OnState.

Print Assumptions py_trie_follow_lru_spec.
Print Assumptions py_trie_follow_lru_node.

(* ---- non-vacuity: the translated code run on the bytes of the trie file of a concrete state (PropsEx.exs) ---- *)
Definition hist_fields (ph : py_hist) :=
  (hs_lru ph, hs_webentity ph, hs_webentity_prefix ph, hs_webentity_position ph, hs_webentity_creation_rules ph,
   hs_page_was_created ph).
Definition model_fields (lru : bytes) (h : hist) :=
  (lru, (if h_we h =? 0 then None else Some (h_we h)), h_pref h, h_pos h, h_rules h, false).
Definition run_follow (sg : py_pm) (lru : bytes) :=
  option_map (fun r => (option_map nd_block (fst (snd r)), hist_fields (snd (snd r)))) (py_trie_follow_lru sg lru).
Definition model_follow (s : traph) (lru : bytes) :=
  let r := follow (lru_iter lru) [] hist0 (tr s) in
  Some (option_map (fun d => Some (addr d)) (snd r), model_fields lru (fst r)).
Definition exs2 : traph := fst (Ops.step PropsEx.exs (Ops.OAddRule IdFacts.ex_pa Domain)).
Definition ex_sg2 : py_pm := mk_pm 128 (trie_file exs2) 0.

(* a known LRU: the node of the webentity prefix, webentity 3 recorded at position 21 *)
Example ex_follow_known : run_follow ex_sg PropsEx.ex_px = model_follow PropsEx.exs PropsEx.ex_px.
Proof. vm_compute. reflexivity. Qed.
Example ex_follow_known_value :
  run_follow ex_sg PropsEx.ex_px = Some (Some (Some 1920), (PropsEx.ex_px, Some 3, PropsEx.ex_px, Some 21, [], false)).
Proof. vm_compute. reflexivity. Qed.
(* an unknown LRU below it: no node, the history gathered on the way is kept *)
Example ex_follow_unknown :
  run_follow ex_sg (PropsEx.ex_px ++ [112; 58; 122; 124]) = model_follow PropsEx.exs (PropsEx.ex_px ++ [112; 58; 122; 124]).
Proof. vm_compute. reflexivity. Qed.
Example ex_follow_unknown_value :
  run_follow ex_sg (PropsEx.ex_px ++ [112; 58; 122; 124])
  = Some (None, (PropsEx.ex_px ++ [112; 58; 122; 124], Some 3, PropsEx.ex_px, Some 21, [], false)).
Proof. vm_compute. reflexivity. Qed.
(* an LRU that leaves the tree at the first stem: nothing gathered *)
Example ex_follow_nowhere : run_follow ex_sg [115; 58; 102; 116; 112; 124] = model_follow PropsEx.exs [115; 58; 102; 116; 112; 124]
  /\ run_follow ex_sg [115; 58; 102; 116; 112; 124] = Some (None, ([115; 58; 102; 116; 112; 124], None, [], None, [], false)).
Proof. split; vm_compute; reflexivity. Qed.
(* after a creation rule is put on s:http|h:com|h:a| : a deeper known LRU passes the rule anchor (position 17) and the webentity *)
Example ex_follow_rule : run_follow ex_sg2 PropsEx.ex_pxy = model_follow exs2 PropsEx.ex_pxy.
Proof. vm_compute. reflexivity. Qed.
Example ex_follow_rule_value :
  run_follow ex_sg2 PropsEx.ex_pxy = Some (Some (Some 2048), (PropsEx.ex_pxy, Some 3, PropsEx.ex_px, Some 21, [17], false)).
Proof. vm_compute. reflexivity. Qed.
