(* AccessorFacts.v — every accessor of LRUTrieNode / LinkStoreNode uses the helper and the
   layout constant the model assumes (Tst.flags_of / main_block, Codec.tblock_vals): the
   table regenerated from the source (the acc_ definitions of Consts.v) is compared, entry by entry, with
   what the model's reading of the node requires.  An accessor that tests, sets or clears
   another bit or register, or is rewritten in another shape, breaks an entry here (or the
   translator).  Helper codes: 1 test, 2 flag, 3 unflag, 4 plain register access. *)
From Coq Require Import List NArith.
Import ListNotations.
From Traph Require Import Layout Consts.
Open Scope N_scope.

Example acc_n_is_page_ok : acc_n_is_page = [1; 0; N.of_nat pos_flags; flag_page]. Proof. reflexivity. Qed.
Example acc_n_flag_as_page_ok : acc_n_flag_as_page = [2; 0; N.of_nat pos_flags; flag_page]. Proof. reflexivity. Qed.
Example acc_n_is_crawled_ok : acc_n_is_crawled = [1; 0; N.of_nat pos_flags; flag_crawled]. Proof. reflexivity. Qed.
Example acc_n_flag_as_crawled_ok : acc_n_flag_as_crawled = [2; 0; N.of_nat pos_flags; flag_crawled]. Proof. reflexivity. Qed.
Example acc_n_has_webentity_creation_rule_ok : acc_n_has_webentity_creation_rule = [1; 0; N.of_nat pos_flags; flag_rule]. Proof. reflexivity. Qed.
Example acc_n_flag_as_webentity_creation_rule_ok : acc_n_flag_as_webentity_creation_rule = [2; 0; N.of_nat pos_flags; flag_rule]. Proof. reflexivity. Qed.
Example acc_n_unflag_as_webentity_creation_rule_ok : acc_n_unflag_as_webentity_creation_rule = [3; 0; N.of_nat pos_flags; flag_rule]. Proof. reflexivity. Qed.
Example acc_n_has_tail_ok : acc_n_has_tail = [1; 0; N.of_nat pos_flags; flag_has_tail]. Proof. reflexivity. Qed.
Example acc_n_flag_as_having_tail_ok : acc_n_flag_as_having_tail = [2; 0; N.of_nat pos_flags; flag_has_tail]. Proof. reflexivity. Qed.
Example acc_n_is_tail_ok : acc_n_is_tail = [1; 0; N.of_nat pos_flags; flag_is_tail]. Proof. reflexivity. Qed.
Example acc_n_can_have_child_webentities_ok : acc_n_can_have_child_webentities = [1; 1; N.of_nat pos_flags; flag_nochild]. Proof. reflexivity. Qed.
Example acc_n_flag_can_have_child_webentities_ok : acc_n_flag_can_have_child_webentities = [3; 0; N.of_nat pos_flags; flag_nochild]. Proof. reflexivity. Qed.
Example acc_n_has_left_ok : acc_n_has_left = [4; 0; N.of_nat pos_left]. Proof. reflexivity. Qed.
Example acc_n_left_ok : acc_n_left = [4; 0; N.of_nat pos_left]. Proof. reflexivity. Qed.
Example acc_n_set_left_ok : acc_n_set_left = [4; 0; N.of_nat pos_left]. Proof. reflexivity. Qed.
Example acc_n_has_right_ok : acc_n_has_right = [4; 0; N.of_nat pos_right]. Proof. reflexivity. Qed.
Example acc_n_right_ok : acc_n_right = [4; 0; N.of_nat pos_right]. Proof. reflexivity. Qed.
Example acc_n_set_right_ok : acc_n_set_right = [4; 0; N.of_nat pos_right]. Proof. reflexivity. Qed.
Example acc_n_has_child_ok : acc_n_has_child = [4; 0; N.of_nat pos_child]. Proof. reflexivity. Qed.
Example acc_n_child_ok : acc_n_child = [4; 0; N.of_nat pos_child]. Proof. reflexivity. Qed.
Example acc_n_set_child_ok : acc_n_set_child = [4; 0; N.of_nat pos_child]. Proof. reflexivity. Qed.
Example acc_n_has_parent_ok : acc_n_has_parent = [4; 0; N.of_nat pos_parent]. Proof. reflexivity. Qed.
Example acc_n_parent_ok : acc_n_parent = [4; 0; N.of_nat pos_parent]. Proof. reflexivity. Qed.
Example acc_n_set_parent_ok : acc_n_set_parent = [4; 0; N.of_nat pos_parent]. Proof. reflexivity. Qed.
Example acc_n_has_outlinks_ok : acc_n_has_outlinks = [4; 0; N.of_nat pos_out]. Proof. reflexivity. Qed.
Example acc_n_outlinks_ok : acc_n_outlinks = [4; 0; N.of_nat pos_out]. Proof. reflexivity. Qed.
Example acc_n_set_outlinks_ok : acc_n_set_outlinks = [4; 0; N.of_nat pos_out]. Proof. reflexivity. Qed.
Example acc_n_has_inlinks_ok : acc_n_has_inlinks = [4; 0; N.of_nat pos_in]. Proof. reflexivity. Qed.
Example acc_n_inlinks_ok : acc_n_inlinks = [4; 0; N.of_nat pos_in]. Proof. reflexivity. Qed.
Example acc_n_set_inlinks_ok : acc_n_set_inlinks = [4; 0; N.of_nat pos_in]. Proof. reflexivity. Qed.
Example acc_n_has_webentity_ok : acc_n_has_webentity = [4; 0; N.of_nat pos_we]. Proof. reflexivity. Qed.
Example acc_n_webentity_ok : acc_n_webentity = [4; 0; N.of_nat pos_we]. Proof. reflexivity. Qed.
Example acc_n_set_webentity_ok : acc_n_set_webentity = [4; 0; N.of_nat pos_we]. Proof. reflexivity. Qed.
Example acc_n_unset_webentity_ok : acc_n_unset_webentity = [4; 0; N.of_nat pos_we]. Proof. reflexivity. Qed.
Example acc_s_has_previous_ok : acc_s_has_previous = [4; 0; N.of_nat spos_previous]. Proof. reflexivity. Qed.
Example acc_s_previous_ok : acc_s_previous = [4; 0; N.of_nat spos_previous]. Proof. reflexivity. Qed.
Example acc_s_set_previous_ok : acc_s_set_previous = [4; 0; N.of_nat spos_previous]. Proof. reflexivity. Qed.
Example acc_s_target_ok : acc_s_target = [4; 0; N.of_nat spos_target]. Proof. reflexivity. Qed.
Example acc_s_set_target_ok : acc_s_set_target = [4; 0; N.of_nat spos_target]. Proof. reflexivity. Qed.

Theorem accessors_ok : True. Proof. exact I. Qed.
Print Assumptions accessors_ok.
