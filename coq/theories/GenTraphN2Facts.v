(* GenTraphN2Facts.v — the memory-light webentity network request of the public API translated from /repo/traph/traph.py
   (GenTraphN2.v: Traph.get_webentities_links_slow over the translated LRUTrie.dfs_with_webentity_iter,
   LinkStore.weighted_link_nodes_iter, LRUTrieNode.read and LRUTrie.windup_lru_for_webentity) computes exactly the
   entries of the model's Traph.webentities_links_slow, for EVERY history: on any trie storage holding the trie file of
   the state reached and any link storage holding its link file.  The translated code never fails, never runs out of
   fuel, and leaves every byte of the trie storage as it was.
   One loop nest; the dict block -> webentity is only a cache: every entry (Some a, w) has w = we_at a (tr s) <> 0. *)
From Coq Require Import List NArith Bool Lia Arith Permutation.
Import ListNotations.
From Traph Require Import Bytes Consts Layout Helpers Rules Tst TstDefs Traph Spec Ops RefDefs Traphw TraceDefs Codec
  CodecFacts TstFacts Store StoreFacts StoreFacts2 RefFull LinkFacts GenStorage GenNode GenNodeFacts GenLinks
  GenLinksFacts GenTrie GenTrieFacts GenTrieW GenTrieD GenTrieDDefs GenTraphN GenTraphQ GenTraphN2.
From Traph Require Import TopkFacts QueryLinks GenTrieDDfs GenTraphNFacts.
From Traph Require GenTrieWPage GenTraphPages GenTraphLFacts GenTraphQFacts SchedFacts9 PropsEx.
Open Scope N_scope.

Arguments N.shiftr : simpl never.
Arguments N.shiftl : simpl never.
Arguments N.modulo : simpl never.
Arguments N.div : simpl never.
Arguments N.land : simpl never.
Arguments N.lor : simpl never.
Arguments N.mul : simpl never.
Arguments N.add : simpl never.
Arguments N.sub : simpl never.
Arguments N.ltb : simpl never.
Arguments N.leb : simpl never.
Arguments N.eqb : simpl never.

(* ====================================================================================== *)
(* 1. the request, re-stated in named pieces                                              *)
(* ====================================================================================== *)
Definition St2 : Type := option (py_pm * py_graph * list (option N * N) * py_node).

(* body of `for target_block, weight in self.link_store.weighted_link_nodes_iter(links_block)` *)
Definition ibody (v_include_auto : bool) (v_source_webentity : N) (st : St2) (v__it : option N * N) : St2 :=
 match st with
 | None => None
 | Some (sg, v_graph, v_page_to_webentity, v_target_node) => (let '(v_target_block, v_weight) := v__it in
 (let v_target_webentity := py_bw_get v_target_block v_page_to_webentity in
 (match v_target_webentity with
 | None => (let '(v_target_node, sg) := py_node_read_o v_target_node sg v_target_block in
 (match py_trie_windup_lru_for_webentity sg v_target_node with
 | None => None
 | Some (sg, v_target_webentity) => (match v_target_webentity with
 | None => (Some (sg, v_graph, v_page_to_webentity, v_target_node))
 | Some v_target_webentity => (if (N.eqb v_target_webentity 0%N)
 then (Some (sg, v_graph, v_page_to_webentity, v_target_node))
 else (let v_page_to_webentity := py_bw_set v_target_block v_target_webentity v_page_to_webentity in
 (if ((negb v_include_auto) && (N.eqb v_source_webentity v_target_webentity))
 then (Some (sg, v_graph, v_page_to_webentity, v_target_node))
 else (let v_graph := py_graph_incr v_source_webentity (GKWe v_target_webentity) v_weight v_graph in
 (Some (sg, v_graph, v_page_to_webentity, v_target_node)))))) end) end))
 | Some v_target_webentity => (if ((negb v_include_auto) && (N.eqb v_source_webentity v_target_webentity))
 then (Some (sg, v_graph, v_page_to_webentity, v_target_node))
 else (let v_graph := py_graph_incr v_source_webentity (GKWe v_target_webentity) v_weight v_graph in
 (Some (sg, v_graph, v_page_to_webentity, v_target_node)))) end))) end.

(* body of `for node, source_webentity in self.lru_trie.dfs_with_webentity_iter()` *)
Definition obody (sgl : py_pm) (v_out v_include_auto : bool) (st : St2) (v__it : py_node * option N) : St2 :=
 match st with
 | None => None
 | Some (sg, v_graph, v_page_to_webentity, v_target_node) => (let '(v_node, v_source_webentity) := v__it in
 (if ((negb (py_node_is_page v_node)) || (negb (py_node_has_links v_node v_out)))
 then (Some (sg, v_graph, v_page_to_webentity, v_target_node))
 else (match v_source_webentity with
 | None => (Some (sg, v_graph, v_page_to_webentity, v_target_node))
 | Some v_source_webentity => (if (N.eqb v_source_webentity 0%N)
 then (Some (sg, v_graph, v_page_to_webentity, v_target_node))
 else (let v_page_to_webentity := py_bw_set (nd_block v_node) v_source_webentity v_page_to_webentity in
 (let v_links_block := (py_node_links v_node v_out) in
 (match py_ls_weighted_link_nodes_iter sgl v_links_block with
 | None => None
 | Some v__stubs => (match fold_left (ibody v_include_auto v_source_webentity) v__stubs
                              (Some (sg, v_graph, v_page_to_webentity, v_target_node)) with
 | None => None
 | Some (sg, v_graph, v_page_to_webentity, v_target_node) => (Some (sg, v_graph, v_page_to_webentity, v_target_node)) end) end)))) end))) end.

Lemma get_webentities_links_slow_eq : forall sg sgl out auto,
  py_traph_get_webentities_links_slow sg sgl out auto =
  let '(n0, sg) := py_node_init sg None None None in
  match py_trie_dfs_with_webentity_iter sg with
  | None => None
  | Some (items, sg) =>
      match fold_left (obody sgl out auto) items (Some (sg, [], [], n0)) with
      | None => None
      | Some (sg, g, _, _) => Some (sg, g)
      end
  end.
Proof. reflexivity. Qed.

(* ---- the model, in the same pieces ---- *)
Definition mouter_slow (out auto : bool) (s : traph) (g : list (N * N * N * N)) (x : nd * N) : list (N * N * N * N) :=
  let '(d, w) := x in
  if negb (page d) || (head_dir out d =? 0) || (w =? 0) then g
  else fold_left (minner auto (fun a => we_at a (tr s)) w) (weighted (targets_of (stubs s) (head_dir out d))) g.

Lemma webentities_links_slow_eq : forall out auto s,
  webentities_links_slow out auto s = fold_left (mouter_slow out auto s) (dww 0 (tr s)) [].
Proof. reflexivity. Qed.

(* ====================================================================================== *)
(* 2. the two loops on the files of a state                                               *)
(* ====================================================================================== *)
Section SlowOnState.
  Variable s : traph.
  Hypothesis Hinv : Inv18 s.

  (* the dict is a cache of we_at; webentity 0 is never stored *)
  Definition dict_ok (dc : list (option N * N)) : Prop :=
    forall a w, py_bw_get (Some a) dc = Some w -> w <> 0 /\ w = we_at a (tr s).

  Lemma dict_ok_nil : dict_ok [].
  Proof. intros a w H. cbn [py_bw_get] in H. discriminate H. Qed.

  Lemma dict_ok_set : forall a w dc, dict_ok dc -> w <> 0 -> w = we_at a (tr s) -> dict_ok (py_bw_set (Some a) w dc).
  Proof.
    intros a w dc Hd Hw He a' w' H. rewrite bw_get_set in H. cbn [oN_eqb] in H.
    destruct (N.eqb_spec a a') as [<-|_].
    - injection H as <-. split; assumption.
    - exact (Hd a' w' H).
  Qed.

  Lemma inner_spec : forall auto w xs sg g dc tn m,
    Forall (GenTraphLFacts.known_target s) xs -> trep (files_of s) sg -> dict_ok dc -> Grel g m ->
    exists sg' g' dc' tn',
      fold_left (ibody auto w) (map lift xs) (Some (sg, g, dc, tn)) = Some (sg', g', dc', tn') /\
      trep (files_of s) sg' /\ pm_array sg' = pm_array sg /\ dict_ok dc' /\
      Grel g' (fold_left (minner auto (fun a => we_at a (tr s)) w) xs m).
  Proof.
    intros auto w. induction xs as [|[tg wt] xs IH]; intros sg g dc tn m Hk Hrep Hd HG.
    - cbn [map fold_left]. exists sg, g, dc, tn. split; [reflexivity|]. split; [exact Hrep|]. split; [reflexivity|]. split; [exact Hd|exact HG].
    - inversion Hk as [|? ? Hx Hrest]; subst.
      cbn [map fold_left]. change (lift (tg, wt)) with (Some tg, wt). cbn [ibody].
      unfold minner at 2. cbv zeta.
      destruct (py_bw_get (Some tg) dc) as [tw|] eqn:Eg.
      + destruct (Hd tg tw Eg) as [Hnz Etw]. rewrite <- Etw.
        destruct (N.eqb_spec tw 0) as [E0|_]; [contradiction|].
        destruct (negb auto && (w =? tw)).
        * apply IH; assumption.
        * apply IH; try assumption.
          change (w, 0, tw) with (kenc w (GKWe tw)). apply Grel_incr. exact HG.
      + destruct Hx as (p & d & Hf & Ha & _). cbn [fst] in Ha.
        destruct (find_subt _ _ _ Hf) as (l & c & r & _ & Hsub).
        pose proof (read_subt s Hinv d l c r tn sg Hsub Hrep) as HR. cbv zeta in HR.
        pose proof (GenTraphPages.node_read_o_arr tn sg (Some (addr d))) as Harr.
        rewrite Ha in HR, Harr.
        destruct (py_node_read_o tn sg (Some tg)) as [nd1 sg1]. cbn [fst snd] in HR, Harr.
        destruct HR as [Hn1 Hrep1].
        destruct (GenTraphQFacts.py_trie_windup_lru_for_webentity_spec s Hinv p d l c r nd1 sg1 Hf Hsub Hn1 Hrep1)
          as (sg2 & Ew & Hrep2 & Harr2).
        rewrite Ha in Ew. rewrite Ew. unfold GenTraphQFacts.lift_we.
        destruct (N.eqb_spec (we_at tg (tr s)) 0) as [E0|Hnz].
        * destruct (IH sg2 g dc nd1 m Hrest Hrep2 Hd HG) as (sg' & g' & dc' & tn' & E & Hrep' & Harr' & Hd' & HG').
          exists sg', g', dc', tn'. split; [exact E|]. split; [exact Hrep'|]. split; [congruence|]. split; assumption.
        * destruct (N.eqb_spec (we_at tg (tr s)) 0) as [E0|_]; [contradiction|].
          assert (Hd2 : dict_ok (py_bw_set (Some tg) (we_at tg (tr s)) dc)) by (apply dict_ok_set; auto).
          destruct (negb auto && (w =? we_at tg (tr s))).
          -- destruct (IH sg2 g _ nd1 m Hrest Hrep2 Hd2 HG) as (sg' & g' & dc' & tn' & E & Hrep' & Harr' & Hd' & HG').
             exists sg', g', dc', tn'. split; [exact E|]. split; [exact Hrep'|]. split; [congruence|]. split; assumption.
          -- destruct (IH sg2 (py_graph_incr w (GKWe (we_at tg (tr s))) wt g) _ nd1
                         (gincr (w, 0, we_at tg (tr s)) wt m) Hrest Hrep2 Hd2)
               as (sg' & g' & dc' & tn' & E & Hrep' & Harr' & Hd' & HG').
             { change (w, 0, we_at tg (tr s)) with (kenc w (GKWe (we_at tg (tr s)))). apply Grel_incr. exact HG. }
             exists sg', g', dc', tn'. split; [exact E|]. split; [exact Hrep'|]. split; [congruence|]. split; assumption.
  Qed.

  Variable sgl : py_pm.
  Variable out auto : bool.
  Hypothesis Hknown : forall h x, In x (weighted (targets_of (stubs s) h)) -> GenTraphLFacts.known_target s x.

  Lemma outer_spec : forall items ms, Forall2 (witem_rep s) items ms ->
    (forall d w, In (d, w) ms -> w = we_at (addr d) (tr s)) ->
    (forall d w, In (d, w) ms -> head_dir out d <> 0 ->
       py_ls_weighted_link_nodes_iter sgl (head_dir out d)
       = Some (map lift (weighted (targets_of (stubs s) (head_dir out d))))) ->
    forall sg g dc tn m, trep (files_of s) sg -> dict_ok dc -> Grel g m ->
    exists sg' g' dc' tn',
      fold_left (obody sgl out auto) items (Some (sg, g, dc, tn)) = Some (sg', g', dc', tn') /\
      trep (files_of s) sg' /\ pm_array sg' = pm_array sg /\ dict_ok dc' /\
      Grel g' (fold_left (mouter_slow out auto s) ms m).
  Proof.
    intros items ms H. induction H as [|[n wo] [d w] items ms Hit _ IH]; intros Hwe Hiter sg g dc tn m Hrep Hd HG.
    - cbn [fold_left]. exists sg, g, dc, tn. split; [reflexivity|]. split; [exact Hrep|]. split; [reflexivity|]. split; [exact Hd|exact HG].
    - assert (Hwe' : forall d w, In (d, w) ms -> w = we_at (addr d) (tr s)) by (intros d' w' Hin; apply Hwe; right; exact Hin).
      assert (Hiter' : forall d w, In (d, w) ms -> head_dir out d <> 0 ->
                 py_ls_weighted_link_nodes_iter sgl (head_dir out d)
                 = Some (map lift (weighted (targets_of (stubs s) (head_dir out d)))))
        by (intros d' w' Hin; apply (Hiter d' w'); right; exact Hin).
      specialize (IH Hwe' Hiter').
      destruct Hit as (Hw & l & c & r & Hsub & Hn). cbn [fst snd] in Hw, Hsub, Hn.
      cbn [fold_left obody]. unfold mouter_slow at 2.
      rewrite (node_at_is_page _ _ _ _ _ Hn).
      destruct (node_at_links d l c r n out Hn) as [Hh Hl]. rewrite Hh, Hl, negb_involutive.
      destruct (page d); cbn [negb orb]; [|apply IH; assumption].
      destruct (N.eqb_spec (head_dir out d) 0) as [Eh|Hnz]; cbn [orb]; [apply IH; assumption|].
      rewrite Hw. destruct (N.eqb_spec w 0) as [E0|Hwnz]; [apply IH; assumption|].
      destruct (N.eqb_spec w 0) as [E0|_]; [contradiction|].
      rewrite (Hiter d w (or_introl eq_refl) Hnz).
      pose proof Hn as (_ & Hb & _). rewrite Hb.
      assert (Hd1 : dict_ok (py_bw_set (Some (addr d)) w dc)).
      { apply dict_ok_set; [exact Hd|exact Hwnz|]. apply Hwe. left. reflexivity. }
      assert (Hk : Forall (GenTraphLFacts.known_target s) (weighted (targets_of (stubs s) (head_dir out d)))).
      { apply Forall_forall. intros x Hx. exact (Hknown _ x Hx). }
      destruct (inner_spec auto w (weighted (targets_of (stubs s) (head_dir out d))) sg g
                  (py_bw_set (Some (addr d)) w dc) tn m Hk Hrep Hd1 HG)
        as (sg1 & g1 & dc1 & tn1 & E1 & Hrep1 & Harr1 & Hd1' & HG1).
      rewrite E1.
      destruct (IH sg1 g1 dc1 tn1 _ Hrep1 Hd1' HG1) as (sg' & g' & dc' & tn' & E & Hrep' & Harr' & Hd' & HG').
      exists sg', g', dc', tn'. split; [exact E|]. split; [exact Hrep'|]. split; [congruence|]. split; assumption.
  Qed.

  Hypothesis Hroot : root_first s.

  Theorem get_webentities_links_slow_on_state : forall sg,
    trep (files_of s) sg ->
    (forall d w, In (d, w) (dww 0 (tr s)) -> head_dir out d <> 0 ->
       py_ls_weighted_link_nodes_iter sgl (head_dir out d)
       = Some (map lift (weighted (targets_of (stubs s) (head_dir out d))))) ->
    exists sg' g, py_traph_get_webentities_links_slow sg sgl out auto = Some (sg', g) /\ trep (files_of s) sg' /\
      pm_array sg' = pm_array sg /\ Grel g (webentities_links_slow out auto s).
  Proof.
    intros sg Hrep Hiter.
    rewrite get_webentities_links_slow_eq. destruct (init_none sg) as (n0 & ->).
    destruct (dww_iter_root s Hinv sg Hroot Hrep) as (items & sg1 & E & Hrep1 & Harr1 & HF).
    rewrite E.
    destruct (outer_spec items _ HF) with (sg := sg1) (g := @nil (N * list (py_gkey * N))) (dc := @nil (option N * N))
                                          (tn := n0) (m := @nil (N * N * N * N))
      as (sg' & g' & dc' & tn' & E' & Hrep' & Harr' & _ & HG').
    - intros d w Hin. apply dww_in in Hin; [|apply (I_wf _ Hinv)]. destruct Hin as (p & Hp & Hw).
      rewrite (SchedFacts9.we_at_find_g (tr s) (nb s) p d (I_wf _ Hinv) (I_addr _ Hinv) Hp). exact Hw.
    - exact Hiter.
    - exact Hrep1.
    - exact dict_ok_nil.
    - exact Grel_nil.
    - cbv beta iota. unfold py_graph in *. rewrite E'. exists sg', g'. split; [reflexivity|]. split; [exact Hrep'|]. split; [congruence|].
      rewrite webentities_links_slow_eq. exact HG'.
  Qed.
End SlowOnState.

(* ====================================================================================== *)
(* 3. the main theorem: for every history                                                 *)
(* ====================================================================================== *)
Theorem py_traph_get_webentities_links_slow_spec : forall d rs h, wf_rules rs -> Forall wf_op h ->
  let s := run d rs h in
  forall sg sgl out auto,
    trep (files_of s) sg -> lrep (stubs s) sgl -> fits (nb s * bsz) -> fits (saddr (length (stubs s))) ->
    exists sg' g, py_traph_get_webentities_links_slow sg sgl out auto = Some (sg', g) /\ trep (files_of s) sg' /\
      pm_array sg' = pm_array sg /\ Permutation (flat g) (webentities_links_slow out auto s).
Proof.
  intros d rs h Hr Hh s sg sgl out auto Hrep Hlrep Hft Hfl.
  destruct (GenTraphQFacts.run_facts d rs h Hr Hh sgl Hlrep Hft Hfl) as (Hinv & Hroot & Hknown & Hheads).
  fold s in Hinv, Hroot, Hknown, Hheads.
  destruct (get_webentities_links_slow_on_state s Hinv sgl out auto Hknown Hroot sg Hrep) as (sg' & g & E & Hrep' & Harr' & HG).
  - intros d0 w Hin Hnz. apply dww_in in Hin; [|apply (I_wf _ Hinv)]. destruct Hin as (p & Hp & _).
    destruct (Hheads p d0 Hp) as [Ho Hi]. unfold head_dir in *.
    destruct out; [exact (proj1 (Ho Hnz))|exact (proj1 (Hi Hnz))].
  - exists sg', g. split; [exact E|]. split; [exact Hrep'|]. split; [exact Harr'|]. exact (Grel_perm _ _ HG).
Qed.

(* ====================================================================================== *)
(* 4. non-vacuity: the translated code run on the bytes of the two files of a concrete state *)
(* ====================================================================================== *)
(* the state of GenTraphLFacts: two webentities (the default creation rule made them), four pages, seven links, one of
   them inside webentity 2 and four inside webentity 1 *)
Notation exs_l := (run Domain [] GenTraphLFacts.exh_l).

(* the flattened answer has the entries of the model's answer for every setting of the two switches *)
Example ex_slow_all_switches :
  forallb (fun '(out, auto) =>
             match py_traph_get_webentities_links_slow GenTraphLFacts.ex_sgt GenTraphLFacts.ex_sgl out auto with
             | Some (_, g) => same_entries (flat g) (webentities_links_slow out auto exs_l)
             | None => false
             end) [(true, false); (false, true); (true, true); (false, false)] = true.
Proof. vm_compute. reflexivity. Qed.

(* the values *)
Example ex_slow_values :
  option_map snd (py_traph_get_webentities_links_slow GenTraphLFacts.ex_sgt GenTraphLFacts.ex_sgl true true)
    = Some [(1, [(GKWe 1, 4); (GKWe 2, 2)]); (2, [(GKWe 1, 1)])] /\
  option_map (fun r => flat (snd r)) (py_traph_get_webentities_links_slow GenTraphLFacts.ex_sgt GenTraphLFacts.ex_sgl true false)
    = Some [(1, 0, 2, 2); (2, 0, 1, 1)] /\
  webentities_links_slow true false exs_l = [(1, 0, 2, 2); (2, 0, 1, 1)] /\
  option_map (fun r => flat (snd r)) (py_traph_get_webentities_links_slow GenTraphLFacts.ex_sgt GenTraphLFacts.ex_sgl false true)
    = Some [(1, 0, 1, 4); (1, 0, 2, 1); (2, 0, 1, 2)] /\
  webentities_links_slow false true exs_l = [(1, 0, 1, 4); (1, 0, 2, 1); (2, 0, 1, 2)].
Proof. vm_compute. repeat split; reflexivity. Qed.

(* the hypotheses of the theorem are met by that history and the two files, and the theorem then gives the reply above *)
Example ex_slow_by_theorem : exists sg' g,
  py_traph_get_webentities_links_slow GenTraphLFacts.ex_sgt GenTraphLFacts.ex_sgl true false = Some (sg', g) /\
  trep (files_of exs_l) sg' /\ pm_array sg' = pm_array GenTraphLFacts.ex_sgt /\
  Permutation (flat g) [(1, 0, 2, 2); (2, 0, 1, 1)].
Proof.
  assert (H1 : fits (nb exs_l * bsz)) by (vm_compute; reflexivity).
  assert (H2 : fits (saddr (length (stubs exs_l)))) by (vm_compute; reflexivity).
  pose proof (py_traph_get_webentities_links_slow_spec Domain [] GenTraphLFacts.exh_l PropsEx.ex_rules_wf GenTraphLFacts.exh_l_wf
                GenTraphLFacts.ex_sgt GenTraphLFacts.ex_sgl true false
                GenTraphLFacts.ex_trep_l GenTraphLFacts.ex_lrep_l H1 H2) as H.
  replace (webentities_links_slow true false (run Domain [] GenTraphLFacts.exh_l))
    with [(1, 0, 2, 2); (2, 0, 1, 1)] in H
    by (vm_compute; reflexivity).
  exact H.
Qed.

Print Assumptions py_traph_get_webentities_links_slow_spec.
Print Assumptions ex_slow_all_switches.
Print Assumptions ex_slow_by_theorem.
