(* SchedFacts10.v — completeness of get_webentity_pagelinks_iter for the internal clause
   under growth (C16_pagelinks_complete_internal).  A link T -> U that is in the store
   when the query makes its first step, whose source page T lies under one of the
   query's prefixes and still qualifies when the query is over (no webentity strictly
   below the prefix on the way to it, itself included), and whose target U resolves to
   the webentity of the query at every moment of the execution, is in the query's answer,
   whatever the crawl batches, rule installations and other queries interleaved with it did.
   The invariant (LC): the link is already in the answer, or it is among the pending
   items, or the prefix has not been started, or some stack entry covers the source (cov
   of SchedFacts8).  Growth of the tree (text) keeps covering entries covering; growth of
   the link store (lext) keeps the link on the out-chain of T. *)
From Coq Require Import List NArith Bool Lia Arith Permutation.
Import ListNotations.
From Traph Require Import Bytes Consts Helpers Rules Tst TstDefs Traph Spec Ops RefDefs TstFacts TopkFacts
  ViewFacts ViewFacts2 RefCore RefCore3 LinkFacts LinkFacts2 LinkFacts3 RefFull QueryCore QueryCore3 QueryLinks IdFacts
  Sched SchedFacts SchedFacts2 SchedFacts3 SchedFacts4 SchedFacts5 SchedFacts6 SchedFacts7 SchedFacts8 SchedFacts9.
Open Scope N_scope.

(* ====================================================================== *)
(* the target link, the invariant                                         *)
(* ====================================================================== *)

(* the source T (a list of stems) under the prefix P in the state s: a page with the block
   aU on its out-chain; no node strictly below the prefix on the way to it (itself
   included) carries a webentity *)
Definition ltgt (P : bytes) (T : list bytes) (aU : N) (s : traph) : Prop :=
  under (lru_iter P) T /\
  (exists dT, find T (tr s) = Some dT /\ page dT = true /\ In aU (targets_of (stubs s) (outh dT))) /\
  (forall p' d', under (lru_iter P) p' -> p' <> lru_iter P -> under p' T ->
                 find p' (tr s) = Some d' -> we d' = 0).

Definition LC (P : bytes) (T : list bytes) (aU : N) (lU : bytes) (q : lco) (s : traph) : Prop :=
  l_refused q = true \/ In P (l_prefixes q) \/
  (exists wt, In (concat T, lU, wt) (l_acc q)) \/
  (exists wt, In (true, concat T, aU, wt) (l_items q)) \/
  ((exists d0, find (lru_iter P) (tr s) = Some d0 /\ addr d0 = l_start q) /\
   Exists (cov (tr s) T) (l_stack q)).

(* the steps of the other coroutines keep it *)
Lemma LC_ext : forall P T aU lU q s s', sext s s' -> LC P T aU lU q s -> LC P T aU lU q s'.
Proof.
  intros P T aU lU q s s' Hx [H|[H|[H|[H|((d0 & Hf0 & Ha0) & Hc)]]]];
    [left; exact H|right; left; exact H|right; right; left; exact H|right; right; right; left; exact H|].
  right. right. right. right. split.
  - destruct (text_find _ _ _ Hx d0 Hf0) as (d0' & Hf0' & _ & Ea & _). exists d0'. split; [exact Hf0'|congruence].
  - apply Exists_exists in Hc. destruct Hc as (e & He & Hce). apply Exists_exists. exists e.
    split; [exact He|apply (cov_ext _ _ _ _ Hx Hce)].
Qed.

(* ====================================================================== *)
(* one iteration keeps the invariant                                      *)
(* ====================================================================== *)

Lemma lmicro_LC : forall ps0 P T aU lU s q, wf_tst (tr s) -> addr_ok (tr s) (nb s) -> ltgt P T aU s ->
  l_int q = true -> we_at aU (tr s) = l_we q -> lru_at aU s = lU ->
  l_refused q = false -> LInv ps0 q s -> LC P T aU lU q s -> LC P T aU lU (fst (lmicro q s)) s.
Proof.
  intros ps0 P T aU lU s q Hwf Hok (Hu & (dT & HfT & HpT & HlT) & Hwe) Hint HweU HlU Hnr (Hincl & Hst & _ & _) HLC.
  unfold lmicro. rewrite Hint. cbn [negb andb].
  destruct HLC as [Hr|[Hpend|[Hacc|[Hitem|((d0 & Hf0 & Ha0) & Hcov)]]]].
  - congruence.
  - (* the prefix has not been started *)
    destruct (l_items q) as [|it rest]; [|right; left; exact Hpend].
    destruct (l_inpend q) as [[lru h]|]; [right; left; exact Hpend|].
    destruct (l_stack q) as [|[[a pre] lv] rest] eqn:Est.
    + destruct (l_prefixes q) as [|p ps] eqn:Eps; [destruct Hpend|].
      destruct (find (lru_iter p) (tr s)) as [d|] eqn:Ef; cbn [fst]; [|left; reflexivity].
      destruct Hpend as [->|Hin]; [|right; left; exact Hin].
      right. right. right. right. cbn [lmk l_start l_stack]. split; [exists d; auto|]. constructor.
      destruct Hu as (rest0 & ET).
      assert (Hne : lru_iter P <> []) by (intro E; rewrite E, find_nil in Ef; discriminate).
      destruct (exists_last Hne) as (p0 & x & Ep). rewrite Ep in Ef.
      destruct (find_locs x p0 (tr s) [] d Ef) as (l & c & r & Hin & Hall). cbn [app] in Hin.
      exists p0, (Nd d l c r), (x :: rest0). cbn [fst root_addr].
      split; [exact Hin|]. split; [reflexivity|].
      assert (ET' : T = p0 ++ x :: rest0) by (rewrite ET, Ep, <- app_assoc; reflexivity).
      split; [exact ET'|]. rewrite <- Hall, <- ET', HfT. discriminate.
    + destruct (read_at a (tr s)) as [x|]; right; left; exact Hpend.
  - (* already in the answer *)
    assert (Hkeep : forall q', (forall y, In y (l_acc q) -> In y (l_acc q')) -> LC P T aU lU q' s).
    { intros q' H. destruct Hacc as (c & Hc). right. right. left. exists c. apply H. exact Hc. }
    destruct (l_items q) as [|it rest].
    2:{ apply Hkeep. cbn [fst lmk l_acc]. intros y Hy. apply in_or_app. left. exact Hy. }
    destruct (l_inpend q) as [[lru h]|]; [apply Hkeep; auto|].
    destruct (l_stack q) as [|[[a pre] lv] rest].
    + destruct (l_prefixes q) as [|p ps]; [apply Hkeep; auto|].
      destruct (find (lru_iter p) (tr s)); apply Hkeep; auto.
    + destruct (read_at a (tr s)) as [x|]; apply Hkeep; auto.
  - (* among the pending items: the first one is processed *)
    destruct Hitem as (wt & Hin).
    destruct (l_items q) as [|it rest]; [destruct Hin|]. cbn [fst lmk].
    destruct Hin as [->|Hin]; [|right; right; right; left; exists wt; exact Hin].
    right. right. left. exists wt. cbn [l_acc]. apply in_or_app. right.
    unfold ladd. rewrite HweU, N.eqb_refl, Hint, HlU. cbn [andb]. rewrite orb_true_r. left. reflexivity.
  - (* covered by a stack entry *)
    destruct (l_items q) as [|it rest0] eqn:Eit.
    { destruct (l_inpend q) as [[lru h]|] eqn:Einp.
      { right. right. right. right. cbn [fst lmk l_start l_stack]. split; [exists d0; auto|exact Hcov]. }
      destruct (l_stack q) as [|[[a pre] lv] rest] eqn:Est; [inversion Hcov|].
      destruct Hst as [Hn|(P0 & d0' & HP0 & Hf0' & Ha0' & Hall)]; [discriminate|].
      pose proof (Forall_inv Hall) as He. pose proof (Forall_inv_tail Hall) as Hrest.
      assert (EP : lru_iter P0 = lru_iter P) by (apply (proj2 Hok _ _ d0' d0 Hf0' Hf0); congruence).
      (* what every outcome looks like *)
      assert (Hfin : forall pushes q', l_start q' = l_start q -> l_stack q' = pushes ++ rest ->
                Exists (cov (tr s) T) pushes \/ Exists (cov (tr s) T) rest -> LC P T aU lU q' s).
      { intros pushes q' E1 E2 Hex. right. right. right. right. split; [exists d0; split; [exact Hf0|congruence]|].
        rewrite E2. apply Exists_app. exact Hex. }
      apply Exists_cons in Hcov. destruct Hcov as [Hc|Hc].
      2:{ (* covered by a deeper entry *)
          destruct (read_at a (tr s)) as [x|]; cbn [fst].
          - eapply Hfin; [reflexivity|cbn [lmk l_stack]; reflexivity|right; exact Hc].
          - apply (Hfin []); [reflexivity|reflexivity|right; exact Hc]. }
      destruct Hc as (pp & sub & rst & Hin & Hra & ET & Hfr). cbn [fst] in Hra.
      destruct sub as [|d l c r]; [rewrite find_Lf in Hfr; congruence|]. cbn [root_addr] in Hra.
      destruct (read_at a (tr s)) as [x|] eqn:Er; [|exfalso; apply (read_at_none _ _ _ _ _ _ _ _ Er Hin Hra)].
      destruct (read_at_located (tr s) (nb s) a pp d l c r x Hwf Hok Hin Hra Er) as (Ex & El & Err & Ec).
      pose proof (locs_find_root _ _ _ _ _ _ Hwf Hin) as Hfd.
      destruct He as (pe & de & Hfe & Hae & Hpre & Hue). cbn [fst snd] in Hae, Hpre.
      assert (Epe : pe = pp ++ [stem d]) by (apply (proj2 Hok _ _ de d Hfe Hfd); congruence). subst pe.
      rewrite removelast_last in Hpre. rewrite EP in Hue.
      destruct rst as [|x' rst']; [rewrite find_nil in Hfr; congruence|].
      rewrite find_Nd in Hfr.
      destruct (locs_children _ _ _ _ _ _ _ Hin) as (Ic & Il & Ir).
      cbn [fst]. unfold lpushes, louts, lins. rewrite Ex, El, Err, Ec.
      destruct (lex x' (stem d)) eqn:Elex.
      + (* the path goes through this node *)
        apply lex_eq in Elex. subst x'.
        assert (ET2 : T = (pp ++ [stem d]) ++ rst') by (rewrite ET, <- app_assoc; reflexivity).
        assert (Hrel : (a =? l_start q) || (we d =? 0) = true).
        { destruct (list_eq_dec (list_eq_dec N.eq_dec) (pp ++ [stem d]) (lru_iter P)) as [E|E].
          - rewrite E in Hfd. rewrite Hf0 in Hfd. injection Hfd as <-.
            apply orb_true_intro. left. apply N.eqb_eq. congruence.
          - apply orb_true_intro. right. apply N.eqb_eq.
            apply (Hwe (pp ++ [stem d]) d Hue E); [exists rst'; exact ET2|exact Hfd]. }
        rewrite Hrel. cbn [andb].
        destruct rst' as [|y rst''].
        * (* this node is the source: its out items are produced *)
          rewrite app_nil_r in ET2. rewrite ET2, Hfd in HfT. injection HfT as <-. rewrite HpT.
          assert (Hnz : (outh d =? 0) = false).
          { destruct (outh d =? 0) eqn:E0; [|reflexivity]. apply N.eqb_eq in E0. rewrite E0, targets_of_0 in HlT.
            destruct HlT. }
          rewrite Hnz, Hint, orb_true_r. cbn [negb andb].
          destruct (proj2 (weighted_in (targets_of (stubs s) (outh d)) aU) HlT) as (wt & Hwt).
          right. right. right. left. exists wt. cbn [lmk l_items]. apply in_map_iff. exists (aU, wt).
          split; [|exact Hwt]. cbn [fst snd]. rewrite ET2, concat_snoc, Hpre. reflexivity.
        * (* the source is below: the child is pushed *)
          assert (Hpush : Exists (cov (tr s) T) (nz3 (root_addr c) (pre ++ stem d) (lv + 1))).
          { apply (cov_push (tr s) (nb s) T (pp ++ [stem d]) c (y :: rst'') _ _ Hwf Hok Ic ET2 Hfr). }
          eapply Hfin; [reflexivity|cbn [lmk l_stack]; reflexivity|left; apply Exists_app; left; exact Hpush].
      + (* the path goes to the left sibling subtree *)
        assert (Hns : (a =? l_start q) = false).
        { destruct (a =? l_start q) eqn:Ea; [|reflexivity]. exfalso. apply N.eqb_eq in Ea.
          assert (E : pp ++ [stem d] = lru_iter P) by (apply (proj2 Hok _ _ d d0 Hfd Hf0); congruence).
          destruct Hu as (rest1 & ET0). rewrite ET0, <- E, <- app_assoc in ET. apply app_inv_head in ET.
          cbn [app] in ET. injection ET as E1 _. rewrite <- E1, lex_refl in Elex. discriminate. }
        rewrite Hns.
        assert (Hpush : Exists (cov (tr s) T) (nz3 (root_addr l) pre lv)).
        { apply (cov_push (tr s) (nb s) T pp l (x' :: rst') _ _ Hwf Hok Il ET Hfr). }
        eapply Hfin; [reflexivity|cbn [lmk l_stack]; reflexivity|].
        left. apply Exists_app. right. apply Exists_app. left. exact Hpush.
      + (* the path goes to the right sibling subtree *)
        assert (Hns : (a =? l_start q) = false).
        { destruct (a =? l_start q) eqn:Ea; [|reflexivity]. exfalso. apply N.eqb_eq in Ea.
          assert (E : pp ++ [stem d] = lru_iter P) by (apply (proj2 Hok _ _ d d0 Hfd Hf0); congruence).
          destruct Hu as (rest1 & ET0). rewrite ET0, <- E, <- app_assoc in ET. apply app_inv_head in ET.
          cbn [app] in ET. injection ET as E1 _. rewrite <- E1, lex_refl in Elex. discriminate. }
        rewrite Hns.
        assert (Hpush : Exists (cov (tr s) T) (nz3 (root_addr r) pre lv)).
        { apply (cov_push (tr s) (nb s) T pp r (x' :: rst') _ _ Hwf Hok Ir ET Hfr). }
        eapply Hfin; [reflexivity|cbn [lmk l_stack]; reflexivity|].
        left. apply Exists_app. right. apply Exists_app. right. exact Hpush. }
    (* an item is processed: the stack is untouched *)
    right. right. right. right. cbn [fst lmk l_start l_stack]. split; [exists d0; auto|exact Hcov].
Qed.

(* a turn of the query *)
Lemma plinksq_step_complete : forall ps0 P T aU lU s a go gi, SInv s a go gi -> ltgt P T aU s ->
  lru_at aU s = lU ->
  forall fuel q, l_int q = true -> we_at aU (tr s) = l_we q -> l_refused q = false ->
    LInv ps0 q s -> LC P T aU lU q s -> LC P T aU lU (plinksq_step fuel q s) s.
Proof.
  intros ps0 P T aU lU s a go gi HS Ht HlU.
  pose proof (SInv_facts _ _ _ _ HS) as (_ & Hwf & Hok & _).
  induction fuel as [|f IH]; intros q Hint HweU Hnr HQ HC; [exact HC|].
  rewrite plinksq_step_S.
  pose proof (lmicro_LC ps0 P T aU lU s q Hwf Hok Ht Hint HweU HlU Hnr HQ HC) as HC1.
  destruct (snd (lmicro q s)) eqn:Ey; [exact HC1|].
  destruct (lmicro_same q s) as (E1 & _ & E3 & _).
  apply IH; [congruence|congruence| | |exact HC1].
  - apply (proj2 (proj2 (lmicro_shape q s)) Ey).
  - apply (lmicro_sound ps0 s a go gi q HS HQ).
Qed.

(* ====================================================================== *)
(* any schedule                                                           *)
(* ====================================================================== *)

Lemma lcomplete_exec : forall P T aU lU, under (lru_iter P) T ->
  forall jobs a0 i w ps0 inb outb, nth_error jobs i = Some (JLinks w ps0 inb true outb) ->
  forall sched cl s a go gi q,
    LHInv a0 jobs cl s a go gi -> nth_error cl i = Some (CLinks q) -> LC P T aU lU q s ->
    (exists dT, find T (tr s) = Some dT /\ page dT = true /\ In aU (targets_of (stubs s) (outh dT))) ->
    (exists pU dU, find pU (tr s) = Some dU /\ addr dU = aU /\ concat pU = lU) ->
    (forall p' d', under (lru_iter P) p' -> p' <> lru_iter P -> under p' T ->
                   find p' (tr (snd (exec_sched sched cl s))) = Some d' -> we d' = 0) ->
    (forall k, we_at aU (tr (snd (exec_sched (firstn k sched) cl s))) = w) ->
    exists q', nth_error (fst (exec_sched sched cl s)) i = Some (CLinks q') /\
               lshape q' /\ LC P T aU lU q' (snd (exec_sched sched cl s)).
Proof.
  intros P T aU lU Hu jobs a0 i w ps0 inb outb Hji.
  induction sched as [|j sched IH]; intros cl s a go gi q HG Hi HC HT HU Hfinal Hwe.
  - cbn [exec_sched fst snd]. exists q. split; [exact Hi|]. split; [|exact HC].
    destruct (F2_nth_l _ _ _ _ _ _ _ (proj2 HG) Hji) as (y & Hy & HJ).
    rewrite Hi in Hy. injection Hy as <-. apply HJ.
  - cbn [exec_sched] in *.
    destruct (nth_error cl j) as [c|] eqn:Hj.
    2:{ apply (IH _ _ _ _ _ _ HG Hi HC HT HU Hfinal). intro k. specialize (Hwe (S k)).
        cbn [firstn exec_sched] in Hwe. rewrite Hj in Hwe. exact Hwe. }
    destruct (LHInv_step _ _ _ _ _ _ _ j c HG Hj) as (a1 & go1 & gi1 & HG1 & Hlx).
    pose proof (co_step_sext c s) as Hx.
    pose proof (SInv_facts _ _ _ _ (H_s _ _ _ _ _ _ _ (proj1 HG))) as (_ & Hwf & Hok & _).
    pose proof (SInv_facts _ _ _ _ (H_s _ _ _ _ _ _ _ (proj1 HG1))) as (_ & Hwf1 & Hok1 & _).
    (* the target now *)
    assert (Htgt : ltgt P T aU s).
    { split; [exact Hu|]. split; [exact HT|]. intros p' d' H1 H2 H3 H4.
      pose proof (exec_sext (j :: sched) cl s) as Hxx. cbn [exec_sched] in Hxx. rewrite Hj in Hxx.
      destruct (text_find p' _ _ Hxx d' H4) as (d2 & Hf2 & _ & _ & _ & Hw2).
      pose proof (Hfinal p' d2 H1 H2 H3 Hf2) as Hz.
      destruct (N.eq_dec (we d') 0) as [E|E]; [exact E|]. exfalso. apply (Hw2 E Hz). }
    assert (HT1 : exists dT, find T (tr (snd (co_step c s))) = Some dT /\ page dT = true /\
                             In aU (targets_of (stubs (snd (co_step c s))) (outh dT))).
    { destruct HT as (dT & H1 & H2 & H3). destruct Hlx as (Hte & _ & _ & Hnd).
      destruct (Hte T dT H1) as (dT' & H1' & _). destruct (Hnd T dT dT' H1 H1') as (Hp & Hinc).
      exists dT'. split; [exact H1'|]. split; [apply Hp; exact H2|]. apply (Hinc true). exact H3. }
    assert (HU1 : exists pU dU, find pU (tr (snd (co_step c s))) = Some dU /\ addr dU = aU /\ concat pU = lU).
    { destruct HU as (pU & dU & H1 & H2 & H3). destruct (proj1 Hlx pU dU H1) as (dU' & H1' & Ea).
      exists pU, dU'. split; [exact H1'|]. split; [congruence|exact H3]. }
    assert (Hwe0 : we_at aU (tr s) = w) by (apply (Hwe 0%nat)).
    assert (Hwe1 : forall k, we_at aU (tr (snd (exec_sched (firstn k sched) (set_nth_co j (fst (co_step c s)) cl)
                                                  (snd (co_step c s))))) = w).
    { intro k. specialize (Hwe (S k)). cbn [firstn exec_sched] in Hwe. rewrite Hj in Hwe.
      destruct (co_step c s) as [c' s']. exact Hwe. }
    assert (HlU : lru_at aU s = lU).
    { destruct HU as (pU & dU & H1 & H2 & H3). rewrite <- H2, <- H3. apply (lru_at_spec s pU dU Hwf Hok H1). }
    destruct (Nat.eq_dec i j) as [<-|Hne].
    + (* the query moves *)
      rewrite Hi in Hj. injection Hj as <-.
      destruct (F2_nth_l _ _ _ _ _ _ _ (proj2 HG) Hji) as (y & Hy & HJ).
      rewrite Hi in Hy. injection Hy as <-. cbn [LJ] in HJ. destruct HJ as (HQ & (F1 & F2 & F3 & F4) & Hsh & Hsh2).
      rewrite co_step_plinks in *. cbn [fst snd] in *. rewrite set_nth_co_eq in *.
      set (q1 := if l_done q then q else plinksq_step (lq_fuel q s) q s) in *.
      apply (IH _ _ _ _ _ q1 HG1); [apply (nth_set_nth_same _ _ _ _ _ Hi)| |exact HT|exact HU|exact Hfinal|exact Hwe1].
      unfold q1. destruct (l_done q) eqn:Ed; [exact HC|].
      apply (plinksq_step_complete ps0 P T aU lU s a go gi (H_s _ _ _ _ _ _ _ (proj1 HG)) Htgt HlU);
        [exact F3|congruence| |exact HQ|exact HC].
      destruct (l_refused q) eqn:Er; [|reflexivity]. rewrite (Hsh2 Er) in Ed. discriminate.
    + (* another coroutine moves *)
      destruct (co_step c s) as [c' s'] eqn:Ec. cbn [fst snd] in *. rewrite set_nth_co_eq in *.
      apply (IH _ _ _ _ _ q HG1); [rewrite nth_set_nth_other by exact Hne; exact Hi| |exact HT1|exact HU1|exact Hfinal|exact Hwe1].
      apply (LC_ext _ _ _ _ _ _ _ Hx HC).
Qed.

(* ====================================================================== *)
(* (L3) completeness for the internal clause                              *)
(* ====================================================================== *)

Theorem C16_pagelinks_complete_internal : forall jobs sched1 sched2 s0 a0 i w ps inb outb P T dT aU,
  R s0 a0 -> Forall job_wf jobs ->
  let cs0 := map job_start jobs in
  let cs1 := fst (exec_sched sched1 cs0 s0) in
  let s1 := snd (exec_sched sched1 cs0 s0) in
  let cs2 := fst (exec_sched sched2 cs1 s1) in
  let s2 := snd (exec_sched sched2 cs1 s1) in
  (* the query (internal clause requested) has not made a step yet in s1 *)
  nth_error cs1 i = Some (CLinks (plinksq_start w ps inb true outb)) -> In P ps ->
  (* the source is a page of s1 under P, with the block aU on its out-chain *)
  under (lru_iter P) T -> find T (tr s1) = Some dT -> page dT = true ->
  In aU (targets_of (stubs s1) (outh dT)) ->
  (* at the end no node strictly below P on the way to the source, itself included, carries a webentity *)
  (forall p' d', under (lru_iter P) p' -> p' <> lru_iter P -> under p' T ->
                 find p' (tr s2) = Some d' -> we d' = 0) ->
  (* at every moment the target resolves to the webentity of the query *)
  (forall k, we_at aU (tr (snd (exec_sched (firstn k sched2) cs1 s1))) = w) ->
  forall q2, nth_error cs2 i = Some (CLinks q2) -> l_done q2 = true -> l_refused q2 = false ->
  exists wt, In (concat T, lru_at aU s2, wt) (l_acc q2).
Proof.
  intros jobs sched1 sched2 s0 a0 i w ps inb outb P T dT aU HR Hwf cs0 cs1 s1 cs2 s2 Hi HP Hu HfT HpT HlT Hfinal Hwe
         q2 Hi2 Hd2 Hr2.
  destruct (LHInv_exec a0 jobs sched1 _ _ _ _ _ (LHInv_init s0 a0 jobs HR Hwf)) as (a1 & go1 & gi1 & HG1).
  fold cs0 in HG1. fold cs1 in HG1. fold s1 in HG1.
  destruct (F2_nth _ _ _ _ _ _ _ (H_c _ _ _ _ _ _ _ (proj1 HG1)) Hi) as (j & Hj & HJ).
  destruct j as [d|p k|ps0|out auto|w0 ps0 inb0 int0 outb0]; cbn [JInv] in HJ; try contradiction.
  destruct (F2_nth _ _ _ _ _ _ _ (proj2 HG1) Hi) as (j' & Hj' & HJ'). rewrite Hj in Hj'. injection Hj' as <-.
  cbn [LJ] in HJ'. destruct HJ' as (_ & (F1 & F2 & F3 & F4) & _). cbn in F1, F2, F3, F4. subst w0 inb0 int0 outb0.
  pose proof (H_s _ _ _ _ _ _ _ (proj1 HG1)) as HS1.
  destruct (chain_target s1 a1 go1 gi1 true T dT aU HS1 HfT HlT) as (pU & dU & HfU & HaU & _ & ElU & _).
  destruct (LHInv_exec a0 jobs sched2 _ _ _ _ _ HG1) as (a2 & go2 & gi2 & HG2).
  fold cs2 in HG2. fold s2 in HG2.
  destruct (lcomplete_exec P T aU (concat pU) Hu jobs a0 i w ps0 inb outb Hj sched2 cs1 s1 a1 go1 gi1
              (plinksq_start w ps inb true outb) HG1 Hi) as (q' & Hq' & Hsh & HC).
  - right. left. exact HP.
  - exists dT. auto.
  - exists pU, dU. auto.
  - exact Hfinal.
  - exact Hwe.
  - fold cs2 in Hq'. fold s2 in HC. rewrite Hi2 in Hq'. injection Hq' as <-.
    (* the LRU of the target is the same at the end *)
    assert (ElU2 : lru_at aU s2 = concat pU).
    { pose proof (exec_sext sched2 cs1 s1) as Hxx. fold s2 in Hxx.
      destruct (text_find pU _ _ Hxx dU HfU) as (dU2 & HfU2 & _ & Ea & _).
      pose proof (SInv_facts _ _ _ _ (H_s _ _ _ _ _ _ _ (proj1 HG2))) as (_ & Hwf2 & Hok2 & _).
      rewrite <- HaU, <- Ea. apply (lru_at_spec s2 pU dU2 Hwf2 Hok2 HfU2). }
    rewrite ElU2.
    destruct (Hsh Hd2) as (E1 & E2 & E3 & E4).
    destruct HC as [H|[H|[H|[H|(_ & H)]]]].
    + congruence.
    + rewrite E1 in H. destruct H.
    + exact H.
    + rewrite E3 in H. destruct H as (wt & []).
    + rewrite E2 in H. inversion H.
Qed.

(* ====================================================================== *)
(* webentities along the turns of the coroutines                          *)
(* ====================================================================== *)

(* a node that carries a webentity keeps THAT webentity; a node that carries none gets
   none or one whose id is above the counter (lastwe) of the earlier state *)
Definition ndw (L : N) (d d' : nd) : Prop :=
  (we d <> 0 -> we d' = we d) /\ (we d = 0 -> we d' = 0 \/ L < we d').

Definition wext (s s' : traph) : Prop :=
  sext s s' /\ lastwe s <= lastwe s' /\
  forall p d d', find p (tr s) = Some d -> find p (tr s') = Some d' -> ndw (lastwe s) d d'.

(* steps that touch neither the webentity of a node nor the counter *)
Definition wkeep (s s' : traph) : Prop :=
  sext s s' /\ lastwe s' = lastwe s /\
  forall p d d', find p (tr s) = Some d -> find p (tr s') = Some d' -> we d' = we d.

Lemma wkeep_refl : forall s, wkeep s s.
Proof.
  intro s. split; [apply sext_refl|]. split; [reflexivity|]. intros p d d' H1 H2. congruence.
Qed.

Lemma wkeep_trans : forall s1 s2 s3, wkeep s1 s2 -> wkeep s2 s3 -> wkeep s1 s3.
Proof.
  intros s1 s2 s3 (X1 & L1 & K1) (X2 & L2 & K2). split; [apply (sext_trans _ _ _ X1 X2)|]. split; [congruence|].
  intros p d d3 H1 H3. destruct (text_find p _ _ X1 d H1) as (d2 & H2 & _).
  rewrite (K2 p d2 d3 H2 H3). apply (K1 p d d2 H1 H2).
Qed.

Lemma wkeep_wext : forall s s', wkeep s s' -> wext s s'.
Proof.
  intros s s' (X & L & K). split; [exact X|]. split; [rewrite L; apply N.le_refl|].
  intros p d d' H1 H2. pose proof (K p d d' H1 H2) as E. unfold ndw. rewrite E.
  split; [reflexivity|]. intro Z. left. exact Z.
Qed.

Lemma wext_refl : forall s, wext s s.
Proof. intro s. apply wkeep_wext. apply wkeep_refl. Qed.

Lemma wext_trans : forall s1 s2 s3, wext s1 s2 -> wext s2 s3 -> wext s1 s3.
Proof.
  intros s1 s2 s3 (X1 & L1 & K1) (X2 & L2 & K2). split; [apply (sext_trans _ _ _ X1 X2)|].
  split; [apply (N.le_trans _ _ _ L1 L2)|].
  intros p d d3 H1 H3. destruct (text_find p _ _ X1 d H1) as (d2 & H2 & _).
  destruct (K1 p d d2 H1 H2) as (A1 & B1). destruct (K2 p d2 d3 H2 H3) as (A2 & B2). split.
  - intro E. rewrite <- (A1 E). apply A2. rewrite (A1 E). exact E.
  - intro E. destruct (B1 E) as [E2|E2].
    + destruct (B2 E2) as [E3|E3]; [left; exact E3|right]. apply (N.le_lt_trans _ _ _ L1 E3).
    + right. rewrite A2; [exact E2|]. intro Z. rewrite Z in E2. apply (N.nlt_0_r _ E2).
Qed.

(* ---- the primitives ---------------------------------------------------------------- *)

Lemma add_lru_wkeep : forall flag l s, wkeep s (fst (add_lru flag l s)).
Proof.
  intros flag l s. split; [apply add_lru_sext|]. split.
  - destruct (add_lru flag l s) as [s1 h] eqn:E. apply (add_lru_lastwe _ _ _ _ _ E).
  - intros p d d' H1 H2. rewrite LinkFacts.add_lru_tr in H2.
    destruct (find_ins_keeps flag (lru_iter l) [] 0 (nb s) hist0 (tr s) p d H1) as (d2 & H2' & K).
    rewrite H2 in H2'. injection H2' as <-. apply K.
Qed.

Lemma upd_wkeep : forall f q s, (forall d, ndx d (f d)) -> (forall d, we (f d) = we d) ->
  wkeep s (set_tree (upd f q (tr s)) s).
Proof.
  intros f q s Hf Hw. split; [apply upd_sext; exact Hf|]. split; [reflexivity|].
  intros p d d' H1 H2. cbn [tr set_tree set_tr] in H2.
  assert (Hs : forall x, stem (f x) = stem x) by (intro x; apply (Hf x)).
  destruct (find_upd_class f q (tr s) p d' Hs H2) as [(-> & d0 & H0 & ->)|(_ & H0)].
  - rewrite H1 in H0. injection H0 as <-. apply Hw.
  - congruence.
Qed.

Lemma store_links_wkeep : forall out path tg s, wkeep s (store_links out path tg s).
Proof.
  intros out path tg s. split; [apply store_links_sext|]. split; [apply store_links_lastwe|].
  unfold store_links. destruct tg as [|t tg]; [intros p d d' H1 H2; congruence|].
  destruct (find path (tr s)) as [d0|]; [|intros p d d' H1 H2; congruence].
  destruct (push_stubs (t :: tg) (if out then outh d0 else inh d0) (stubs s)) as [st' h'].
  intros p d d' H1 H2. cbn [tr] in H2.
  set (g := if out then set_outh h' else set_inh h') in *.
  assert (Hs : forall x, stem (g x) = stem x) by (intro x; unfold g; destruct out; reflexivity).
  destruct (find_upd_class g path (tr s) p d' Hs H2) as [(-> & d1 & H0 & ->)|(_ & H0)].
  - rewrite H1 in H0. injection H0 as <-. unfold g. destruct out; reflexivity.
  - congruence.
Qed.

Lemma trie_add_page_wkeep : forall l cr s, wkeep s (fst (fst (trie_add_page l cr s))).
Proof.
  intros l cr s. unfold trie_add_page.
  pose proof (add_lru_wkeep false l s) as H1.
  destruct (add_lru false l s) as [s1 h]. cbn [fst] in H1.
  destruct (find (lru_iter l) (tr s1)) as [d|]; [|exact H1].
  destruct (page d).
  - destruct (cr && negb (crawled d)); cbn [fst]; [|exact H1].
    apply (wkeep_trans _ _ _ H1). apply upd_wkeep; [apply ndx_set_crawled|reflexivity].
  - cbn [fst]. apply (wkeep_trans _ _ _ H1). apply upd_wkeep; [apply ndx_page_crawled|].
    intro x. destruct cr; reflexivity.
Qed.

(* the valid prefixes gathered by the walk carry no webentity when it ends *)
Lemma walk_prefixes_wkeep : forall ps s ninv valid,
  wkeep s (fst (fst (walk_prefixes ps s ninv valid))) /\
  forall v, In v (snd (walk_prefixes ps s ninv valid)) ->
    In v valid \/ exists d, find (lru_iter v) (tr (fst (fst (walk_prefixes ps s ninv valid)))) = Some d /\ we d = 0.
Proof.
  induction ps as [|p ps IH]; intros s ninv valid; [split; [apply wkeep_refl|intros v Hv; left; exact Hv]|].
  cbn [walk_prefixes].
  pose proof (add_lru_wkeep true p s) as H1.
  destruct (add_lru true p s) as [s1 h]. cbn [fst] in H1.
  destruct (find (lru_iter p) (tr s1)) as [d|] eqn:Ef.
  - destruct (we d =? 0) eqn:Ew.
    + destruct (IH s1 ninv (if mem_bytes p valid then valid else valid ++ [p])) as (K & V).
      split; [apply (wkeep_trans _ _ _ H1 K)|]. intros v Hv. destruct (V v Hv) as [Hin|Hex]; [|right; exact Hex].
      assert (Hc : In v valid \/ v = p).
      { destruct (mem_bytes p valid); [left; exact Hin|]. apply in_app_or in Hin.
        destruct Hin as [Hin|[<-|[]]]; auto. }
      destruct Hc as [Hc| ->]; [left; exact Hc|right].
      destruct K as (X & _ & Kw). destruct (text_find _ _ _ X d Ef) as (d2 & H2 & _).
      exists d2. split; [exact H2|]. rewrite (Kw _ _ _ Ef H2). apply N.eqb_eq. exact Ew.
    + destruct (IH s1 (S ninv) valid) as (K & V). split; [apply (wkeep_trans _ _ _ H1 K)|exact V].
  - destruct (IH s1 ninv valid) as (K & V). split; [apply (wkeep_trans _ _ _ H1 K)|exact V].
Qed.

Lemma set_we_all_find : forall w vs t p d d', find p t = Some d -> find p (set_we_all w vs t) = Some d' ->
  we d' = we d \/ (we d' = w /\ exists v, In v vs /\ p = lru_iter v).
Proof.
  intros w. induction vs as [|v vs IH]; intros t p d d' H1 H2.
  - cbn in H2. left. congruence.
  - unfold set_we_all in H2. cbn [fold_left] in H2. fold (set_we_all w vs) in H2.
    assert (Hs : forall x, stem (set_we w x) = stem x) by reflexivity.
    destruct (find_upd_keeps (set_we w) (lru_iter v) t p d Hs H1) as [K|(-> & K)].
    + destruct (IH _ p d d' K H2) as [E|(E & v' & Hv' & Ep)]; [left; exact E|right].
      split; [exact E|]. exists v'. split; [right; exact Hv'|exact Ep].
    + right. destruct (IH _ _ _ d' K H2) as [E|(E & _)].
      * split; [exact E|]. exists v. split; [left; reflexivity|reflexivity].
      * split; [exact E|]. exists v. split; [left; reflexivity|reflexivity].
Qed.

Lemma add_prefixes_wext : forall ps best s, wext s (fst (add_prefixes ps best s)).
Proof.
  intros ps best s. unfold add_prefixes.
  destruct (walk_prefixes_wkeep ps s 0%nat []) as (K & V).
  pose proof (add_prefixes_sext ps best s) as HX. unfold add_prefixes in HX.
  destruct (walk_prefixes ps s 0 []) as [[s1 ninv] valid]. cbn [fst snd] in *.
  destruct (negb (Nat.eqb ninv 0) && negb best); [apply wkeep_wext; exact K|].
  destruct (Nat.eqb ninv (length ps)); [apply wkeep_wext; exact K|]. cbn [fst] in *.
  destruct K as (X & L & Kw). split; [exact HX|]. cbn [lastwe tr]. split; [rewrite L; lia|].
  intros p d d' H1 H2. destruct (text_find _ _ _ X d H1) as (d1 & Hd1 & _).
  pose proof (Kw _ _ _ H1 Hd1) as E1.
  destruct (set_we_all_find _ _ _ _ _ _ Hd1 H2) as [E|(E & v & Hv & ->)].
  - unfold ndw. rewrite E, E1. split; [reflexivity|]. intro Z. left. exact Z.
  - destruct (V v Hv) as [[]|(dv & Hdv & Zv)]. rewrite Hd1 in Hdv. injection Hdv as <-.
    rewrite E1 in Zv. unfold ndw. split; [intro Z; contradiction|]. intros _. right. rewrite E, L. lia.
Qed.

Lemma create_from_wext : forall p s, wext s (fst (create_from p s)).
Proof.
  intros p s. unfold create_from.
  pose proof (add_prefixes_wext (lru_variations p) true s) as H1.
  destruct (add_prefixes (lru_variations p) true s) as [s1 [| |w valid]]; exact H1.
Qed.

Lemma add_page_int_wext : forall l cr s, wext s (fst (fst (add_page_int l cr s))).
Proof.
  intros l cr s. unfold add_page_int.
  pose proof (trie_add_page_wkeep l cr s) as H1.
  destruct (trie_add_page l cr s) as [[s1 h] created]. cbn [fst] in H1. apply wkeep_wext in H1.
  destruct (decide s1 l h) as [|p|]; try exact H1.
  pose proof (create_from_wext p s1) as H2.
  destruct (create_from p s1) as [s2 c]. cbn [fst] in *. apply (wext_trans _ _ _ H1 H2).
Qed.

(* ---- the coroutines ------------------------------------------------------------------ *)

Lemma mstep_wext : forall c c', mstep c c' -> wext (SchedFacts.cs c) (SchedFacts.cs c').
Proof.
  intros c c' H. destruct H; cbn [SchedFacts.cs]; try apply wext_refl;
    try (apply wkeep_wext; apply store_links_wkeep).
  - apply wkeep_wext. apply upd_wkeep; [apply ndx_set_crawled|reflexivity].
  - apply add_page_int_wext.
  - apply add_page_int_wext.
Qed.

Lemma msteps_wext : forall c c', msteps c c' -> wext (SchedFacts.cs c) (SchedFacts.cs c').
Proof.
  intros c c' H. induction H as [c|c c1 c2 H1 H2 IH]; [apply wext_refl|].
  apply (wext_trans _ _ _ (mstep_wext _ _ H1) IH).
Qed.

Lemma batch_step_wext : forall fuel b s, wext s (snd (batch_step fuel b s)).
Proof.
  intros fuel b s. pose (a := mkA [] [] [] [] 0 [] [] (dflt s)).
  pose proof (batch_step_giter fuel (mkC b s a [] [])) as E. cbn [cb SchedFacts.cs] in E. rewrite E. cbn [snd].
  apply (msteps_wext _ _ (giter_msteps fuel (mkC b s a [] []))).
Qed.

Lemma rule_step_wext : forall r s, wext s (snd (rule_step r s)).
Proof.
  intros r s. rewrite rule_step_eq.
  assert (H1 : wext s (snd (rule_pre r s))).
  { unfold rule_pre. destruct (r_init r) as [[p k]|]; [|apply wext_refl]. cbn [snd]. unfold rule_setup.
    set (s0 := mkT (tr s) (nb s) (lastwe s) (stubs s) (aset p k (rules s)) (dflt s)).
    apply wkeep_wext. apply (wkeep_trans s s0).
    - split; [apply text_refl|]. split; [reflexivity|]. intros q d d' A B. cbn [tr s0] in B. congruence.
    - apply (wkeep_trans _ (fst (add_lru false p s0))); [apply add_lru_wkeep|].
      apply upd_wkeep; [apply ndx_set_rule|reflexivity]. }
  apply (wext_trans _ _ _ H1).
  generalize (fst (rule_pre r s)) (snd (rule_pre r s)). clear. intros r0 s0.
  unfold rule_dfs. destruct (r_pend r0 ++ r_stack r0) as [|[a pre] rest]; [apply wext_refl|].
  destruct (read_at a (tr s0)) as [x|]; [|apply wext_refl].
  destruct (page (rn_d x)); [|apply wext_refl].
  pose proof (add_page_int_wext (pre ++ stem (rn_d x)) false s0) as H.
  destruct (add_page_int (pre ++ stem (rn_d x)) false s0) as [[s1 n'] c']. exact H.
Qed.

Theorem co_step_wext : forall c s, wext s (snd (co_step c s)).
Proof.
  intros c s. unfold co_step. destruct (co_done c); [apply wext_refl|].
  destruct c as [b|r|q|n|lq]; cbn [snd]; try apply wext_refl.
  - pose proof (batch_step_wext (batch_fuel b) b s) as H.
    destruct (batch_step (batch_fuel b) b s) as [b' s']. exact H.
  - pose proof (rule_step_wext r s) as H. destruct (rule_step r s) as [r' s']. exact H.
Qed.

Theorem exec_wext : forall sched cl s, wext s (snd (exec_sched sched cl s)).
Proof.
  induction sched as [|i sched IH]; intros cl s; [apply wext_refl|].
  cbn [exec_sched]. destruct (nth_error cl i) as [c|]; [|apply IH].
  pose proof (co_step_wext c s) as H1. destruct (co_step c s) as [c' s']. cbn [snd] in H1.
  apply (wext_trans _ _ _ H1). apply IH.
Qed.

(* ====================================================================== *)
(* the webentity resolved from a block, along a run                       *)
(* ====================================================================== *)

(* the webentity inherited along a path, as a fold over the prefixes of the path *)
Definition wfold (t : tst) (qs : list (list bytes)) (w : N) : N :=
  fold_left (fun w q => match find q t with Some d => if we d =? 0 then w else we d | None => w end) qs w.

Lemma h_we_fold : forall t pre qs h,
  h_we (fold_left (fun h p => match find p t with Some d => visit d (pre ++ concat p) h | None => h end) qs h)
  = wfold t qs (h_we h).
Proof.
  intros t pre. unfold wfold. induction qs as [|q qs IH]; intro h; [reflexivity|].
  cbn [fold_left]. rewrite IH. f_equal.
  destruct (find q t) as [d|]; [|reflexivity]. apply h_we_visit.
Qed.

Lemma wwalk_wfold : forall t p, wwalk 0 t p = wfold t (nprefixes [] p) 0.
Proof.
  intros t p. change (wwalk 0 t p) with (wwalk (h_we hist0) t p). rewrite <- (wwalk_hist_from p [] hist0 t).
  unfold hist_from. rewrite h_we_fold. reflexivity.
Qed.

Lemma wfold_stable : forall L t t' qs,
  (forall q, In q qs -> exists d d', find q t = Some d /\ find q t' = Some d' /\ ndw L d d') ->
  forall acc acc', acc' = acc \/ L < acc' ->
  wfold t' qs acc' = wfold t qs acc \/ L < wfold t' qs acc'.
Proof.
  intros L t t'. induction qs as [|q qs IH]; intros Hq acc acc' Hacc; [exact Hacc|].
  cbn [wfold fold_left]. fold (wfold t qs). fold (wfold t' qs).
  destruct (Hq q (or_introl eq_refl)) as (d & d' & -> & -> & (A & B)).
  apply IH; [intros q' Hq'; apply Hq; right; exact Hq'|].
  destruct (we d =? 0) eqn:E.
  - apply N.eqb_eq in E. destruct (B E) as [Z|Z].
    + rewrite Z. cbn. exact Hacc.
    + right. destruct (we d' =? 0) eqn:E'; [apply N.eqb_eq in E'; rewrite E' in Z; exfalso; apply (N.nlt_0_r _ Z)|exact Z].
  - apply N.eqb_neq in E. rewrite (A E). apply N.eqb_neq in E. rewrite E. left. reflexivity.
Qed.

Lemma exec_sched_app : forall l1 l2 cl s,
  exec_sched (l1 ++ l2) cl s = exec_sched l2 (fst (exec_sched l1 cl s)) (snd (exec_sched l1 cl s)).
Proof.
  induction l1 as [|i l1 IH]; intros l2 cl s; [reflexivity|].
  cbn [app exec_sched]. destruct (nth_error cl i) as [c|]; [|apply IH].
  destruct (co_step c s) as [c' s']. apply IH.
Qed.

(* if the block of a node of s resolves, in a later state s2, to a webentity whose id is
   not above the counter of s, it resolves to that webentity in s already *)
Lemma we_at_back : forall s s2 nbk nbk2 p d w, wext s s2 ->
  wf_tst (tr s) -> addr_ok (tr s) nbk -> wf_tst (tr s2) -> addr_ok (tr s2) nbk2 ->
  find p (tr s) = Some d -> we_at (addr d) (tr s2) = w -> w <= lastwe s -> we_at (addr d) (tr s) = w.
Proof.
  intros s s2 nbk nbk2 p d w (X & _ & K) Hwf Hok Hwf2 Hok2 Hf Hw HL.
  destruct (text_find p _ _ X d Hf) as (d2 & Hf2 & _ & Ea & _).
  rewrite (we_at_find_g _ _ p d Hwf Hok Hf), wwalk_wfold.
  rewrite <- Ea, (we_at_find_g _ _ p d2 Hwf2 Hok2 Hf2), wwalk_wfold in Hw.
  destruct (wfold_stable (lastwe s) (tr s) (tr s2) (nprefixes [] p)) with (acc := 0) (acc' := 0) as [E|E].
  - intros q Hq. apply In_nprefixes in Hq. destruct Hq as (Hne & Hpre). apply is_prefix_spec in Hpre.
    destruct Hpre as (r & Er).
    destruct (find q (tr s)) as [dq|] eqn:Eq.
    + destruct (text_find q _ _ X dq Eq) as (dq2 & Eq2 & _). exists dq, dq2. split; [reflexivity|].
      split; [exact Eq2|apply (K q dq dq2 Eq Eq2)].
    + exfalso. apply (find_prefix_closed_gen r q (tr s) Hne); [|exact Eq]. rewrite <- Er, Hf. discriminate.
  - left. reflexivity.
  - rewrite <- E. exact Hw.
  - rewrite Hw in E. exfalso. apply (N.lt_irrefl w). apply (N.le_lt_trans _ _ _ HL E).
Qed.

(* (L3), final form: the target resolves to the webentity of the query at the END, and
   that webentity existed (its id is not above the counter) when the query started *)
Theorem C16_pagelinks_complete_internal_end : forall jobs sched1 sched2 s0 a0 i w ps inb outb P T dT aU,
  R s0 a0 -> Forall job_wf jobs ->
  let cs0 := map job_start jobs in
  let cs1 := fst (exec_sched sched1 cs0 s0) in
  let s1 := snd (exec_sched sched1 cs0 s0) in
  let cs2 := fst (exec_sched sched2 cs1 s1) in
  let s2 := snd (exec_sched sched2 cs1 s1) in
  nth_error cs1 i = Some (CLinks (plinksq_start w ps inb true outb)) -> In P ps ->
  under (lru_iter P) T -> find T (tr s1) = Some dT -> page dT = true ->
  In aU (targets_of (stubs s1) (outh dT)) ->
  (forall p' d', under (lru_iter P) p' -> p' <> lru_iter P -> under p' T ->
                 find p' (tr s2) = Some d' -> we d' = 0) ->
  we_at aU (tr s2) = w -> w <= lastwe s1 ->
  forall q2, nth_error cs2 i = Some (CLinks q2) -> l_done q2 = true -> l_refused q2 = false ->
  exists wt, In (concat T, lru_at aU s2, wt) (l_acc q2).
Proof.
  intros jobs sched1 sched2 s0 a0 i w ps inb outb P T dT aU HR Hwf cs0 cs1 s1 cs2 s2 Hi HP Hu HfT HpT HlT Hfinal
         Hwe HL q2 Hi2 Hd2 Hr2.
  apply (C16_pagelinks_complete_internal jobs sched1 sched2 s0 a0 i w ps inb outb P T dT aU HR Hwf Hi HP Hu HfT HpT HlT
           Hfinal); try assumption.
  intro k. fold cs0. fold cs1. fold s1.
  destruct (LHInv_exec a0 jobs sched1 _ _ _ _ _ (LHInv_init s0 a0 jobs HR Hwf)) as (a1 & go1 & gi1 & HG1).
  fold cs0 in HG1. fold cs1 in HG1. fold s1 in HG1.
  destruct (chain_target s1 a1 go1 gi1 true T dT aU (H_s _ _ _ _ _ _ _ (proj1 HG1)) HfT HlT)
    as (pU & dU & HfU & HaU & _).
  set (sk := snd (exec_sched (firstn k sched2) cs1 s1)). set (ck := fst (exec_sched (firstn k sched2) cs1 s1)).
  destruct (LHInv_exec a0 jobs (firstn k sched2) _ _ _ _ _ HG1) as (ak & gok & gik & HGk).
  fold sk in HGk. fold ck in HGk.
  assert (E2 : s2 = snd (exec_sched (skipn k sched2) ck sk)).
  { unfold s2, ck, sk. rewrite <- exec_sched_app, firstn_skipn. reflexivity. }
  destruct (LHInv_exec a0 jobs (skipn k sched2) _ _ _ _ _ HGk) as (a2 & go2 & gi2 & HG2). rewrite <- E2 in HG2.
  pose proof (SInv_facts _ _ _ _ (H_s _ _ _ _ _ _ _ (proj1 HGk))) as (_ & Hwfk & Hokk & _).
  pose proof (SInv_facts _ _ _ _ (H_s _ _ _ _ _ _ _ (proj1 HG2))) as (_ & Hwf2 & Hok2 & _).
  pose proof (exec_wext (firstn k sched2) cs1 s1) as W1. fold sk in W1.
  pose proof (exec_wext (skipn k sched2) ck sk) as W2. rewrite <- E2 in W2.
  destruct (text_find pU _ _ (proj1 W1) dU HfU) as (dUk & HfUk & _ & Ea & _).
  rewrite <- HaU, <- Ea.
  apply (we_at_back sk s2 (nb sk) (nb s2) pU dUk w W2 Hwfk Hokk Hwf2 Hok2 HfUk).
  - rewrite Ea, HaU. exact Hwe.
  - apply (N.le_trans _ _ _ HL). apply (proj1 (proj2 W1)).
Qed.
