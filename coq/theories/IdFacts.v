(* IdFacts.v — C12: webentity ids are issued from the header counter [lastwe]:
   the ids reported by a request are strictly increasing and greater than every id
   issued before; the counter ends at the last one; only a clear restarts it. *)
From Coq Require Import List NArith Bool Lia Arith.
From Traph Require Import Bytes Consts Helpers Rules Tst TstDefs Traph Spec Ops.
Import ListNotations.
Open Scope N_scope.

Definition issued (r : reply) : list N :=
  match r with Report _ c => map fst c | _ => [] end.

Fixpoint increasing_from (x : N) (l : list N) : Prop :=
  match l with [] => True | y :: l' => x < y /\ increasing_from y l' end.

(* ---------- lists: last / increasing_from ---------- *)

Lemma last_nonempty_default : forall (l : list N) a x y, last (a :: l) x = last (a :: l) y.
Proof.
  induction l as [|b l IH]; intros a x y.
  - reflexivity.
  - change (last (b :: l) x = last (b :: l) y). apply IH.
Qed.

Lemma last_cons : forall (l : list N) y x, last (y :: l) x = last l y.
Proof.
  induction l as [|b l IH]; intros y x.
  - reflexivity.
  - change (last (b :: l) x = last (b :: l) y). apply last_nonempty_default.
Qed.

Lemma last_app : forall (l1 l2 : list N) x, last (l1 ++ l2) x = last l2 (last l1 x).
Proof.
  induction l1 as [|a l1 IH]; intros l2 x.
  - reflexivity.
  - rewrite <- app_comm_cons. rewrite !last_cons. apply IH.
Qed.

Lemma increasing_from_app : forall l1 l2 x,
  increasing_from x l1 -> increasing_from (last l1 x) l2 -> increasing_from x (l1 ++ l2).
Proof.
  induction l1 as [|a l1 IH]; intros l2 x H1 H2.
  - exact H2.
  - cbn [increasing_from app] in *. destruct H1 as [Hlt H1]. split; [exact Hlt|].
    apply IH; [exact H1|]. rewrite last_cons in H2. exact H2.
Qed.

Lemma increasing_from_last_le : forall l x, increasing_from x l -> x <= last l x.
Proof.
  induction l as [|a l IH]; intros x H.
  - cbn. lia.
  - cbn [increasing_from] in H. destruct H as [Hlt H]. rewrite last_cons.
    specialize (IH a H). lia.
Qed.

(* every element is greater than the start, and the list is strictly sorted *)
Lemma increasing_from_all_gt : forall l x y, increasing_from x l -> In y l -> x < y.
Proof.
  induction l as [|a l IH]; intros x y H Hin.
  - destruct Hin.
  - cbn [increasing_from] in H. destruct H as [Hlt H]. destruct Hin as [Heq | Hin].
    + subst y. exact Hlt.
    + specialize (IH a y H Hin). lia.
Qed.

Lemma increasing_from_app_inv : forall l1 l2 x,
  increasing_from x (l1 ++ l2) -> increasing_from x l1 /\ increasing_from (last l1 x) l2.
Proof.
  induction l1 as [|a l1 IH]; intros l2 x H.
  - split; [exact I | exact H].
  - cbn [increasing_from app] in *. destruct H as [Hlt H]. apply IH in H. destruct H as [Ha Hb].
    rewrite last_cons. split; [split; assumption | exact Hb].
Qed.

(* an id issued later is greater than any id issued earlier *)
Lemma increasing_from_later_gt : forall l1 l2 x a b,
  increasing_from x (l1 ++ l2) -> In a l1 -> In b l2 -> a < b.
Proof.
  intros l1 l2 x a b H Ha Hb. apply increasing_from_app_inv in H. destruct H as [H1 H2].
  pose proof (increasing_from_all_gt l2 _ b H2 Hb) as Hgt.
  assert (Hle : a <= last l1 x).
  { clear - H1 Ha. revert x H1 Ha. induction l1 as [|c l1 IH]; intros x H1 Ha.
    - destruct Ha.
    - cbn [increasing_from] in H1. destruct H1 as [Hlt H1]. rewrite last_cons.
      destruct Ha as [Heq | Ha].
      + subst c. apply increasing_from_last_le. exact H1.
      + apply IH; assumption. }
  lia.
Qed.

Lemma increasing_from_nodup : forall l x, increasing_from x l -> NoDup l.
Proof.
  induction l as [|a l IH]; intros x H.
  - constructor.
  - cbn [increasing_from] in H. destruct H as [Hlt H]. constructor.
    + intros Hin. pose proof (increasing_from_all_gt l a a H Hin). lia.
    + apply (IH a H).
Qed.

(* ---------- the invariant of one request ---------- *)

Definition ids_ok (s s' : traph) (c : list (N * list bytes)) : Prop :=
  increasing_from (lastwe s) (map fst c) /\ lastwe s' = last (map fst c) (lastwe s).

Lemma ids_ok_nil : forall s s', lastwe s' = lastwe s -> ids_ok s s' [].
Proof. intros s s' H. split; [exact I | exact H]. Qed.

Lemma ids_ok_trans : forall s s1 s2 c1 c2,
  ids_ok s s1 c1 -> ids_ok s1 s2 c2 -> ids_ok s s2 (c1 ++ c2).
Proof.
  intros s s1 s2 c1 c2 [Ha Hb] [Hc Hd]. unfold ids_ok. rewrite map_app. split.
  - apply increasing_from_app; [exact Ha|]. rewrite <- Hb. exact Hc.
  - rewrite last_app. rewrite <- Hb. exact Hd.
Qed.

Lemma ids_ok_frame : forall s s1 s2 c,
  ids_ok s s1 c -> lastwe s2 = lastwe s1 -> ids_ok s s2 c.
Proof. intros s s1 s2 c [Ha Hb] H. split; [exact Ha | rewrite H; exact Hb]. Qed.

Lemma ids_ok_frame_l : forall s0 s s1 c,
  lastwe s = lastwe s0 -> ids_ok s s1 c -> ids_ok s0 s1 c.
Proof. intros s0 s s1 c H [Ha Hb]. unfold ids_ok. rewrite <- H. split; assumption. Qed.

(* ---------- frame lemmas: the functions that only rewrite the tree / the stubs ---------- *)

Lemma set_tree_lastwe : forall t s, lastwe (set_tree t s) = lastwe s.
Proof. reflexivity. Qed.

Lemma set_tr_lastwe : forall t n s, lastwe (set_tr t n s) = lastwe s.
Proof. reflexivity. Qed.

Lemma add_lru_lastwe : forall flag lru s s1 h,
  add_lru flag lru s = (s1, h) -> lastwe s1 = lastwe s.
Proof.
  intros flag lru s s1 h H. unfold add_lru in H.
  destruct (ins flag (lru_iter lru) [] 0 (nb s) hist0 (tr s)) as [[t' nb'] h'].
  inversion H; subst. reflexivity.
Qed.

Lemma trie_add_page_lastwe : forall lru cr s s1 h b,
  trie_add_page lru cr s = (s1, h, b) -> lastwe s1 = lastwe s.
Proof.
  intros lru cr s s1 h b H. unfold trie_add_page in H.
  destruct (add_lru false lru s) as [s0 h0] eqn:E. apply add_lru_lastwe in E.
  destruct (find (lru_iter lru) (tr s0)) as [d|].
  - destruct (page d).
    + destruct (cr && negb (crawled d)); inversion H; subst; cbn; exact E.
    + inversion H; subst; cbn; exact E.
  - inversion H; subst; exact E.
Qed.

Lemma walk_prefixes_lastwe : forall ps s ninv valid s1 ninv' valid',
  walk_prefixes ps s ninv valid = (s1, ninv', valid') -> lastwe s1 = lastwe s.
Proof.
  induction ps as [|p ps IH]; intros s ninv valid s1 ninv' valid' H; cbn [walk_prefixes] in H.
  - inversion H; subst; reflexivity.
  - destruct (add_lru true p s) as [s0 h0] eqn:E. apply add_lru_lastwe in E.
    destruct (find (lru_iter p) (tr s0)) as [d|].
    + destruct (we d =? 0); apply IH in H; rewrite H; exact E.
    + apply IH in H; rewrite H; exact E.
Qed.

Lemma store_links_lastwe : forall out path targets s,
  lastwe (store_links out path targets s) = lastwe s.
Proof.
  intros out path targets s. unfold store_links.
  destruct targets as [|t ts]; [reflexivity|].
  destruct (find path (tr s)) as [d|]; [|reflexivity].
  destruct (push_stubs (t :: ts) (if out then outh d else inh d) (stubs s)) as [st' h'].
  reflexivity.
Qed.

Lemma fold_left_inv : forall (A B : Type) (P : A -> Prop) (f : A -> B -> A) (l : list B) (a : A),
  P a -> (forall a b, P a -> P (f a b)) -> P (fold_left f l a).
Proof.
  intros A B P f l. induction l as [|b l IH]; intros a Ha Hf; cbn [fold_left].
  - exact Ha.
  - apply IH; [apply Hf; exact Ha | exact Hf].
Qed.

Lemma flush_links_lastwe : forall out mm s, lastwe (flush_links out mm s) = lastwe s.
Proof.
  intros out mm s. unfold flush_links.
  apply (fold_left_inv traph _ (fun s' => lastwe s' = lastwe s)); [reflexivity|].
  intros a [p others] Ha. rewrite store_links_lastwe. exact Ha.
Qed.

(* ---------- the functions that issue ids ---------- *)

Lemma add_prefixes_ids : forall ps best s s' a,
  add_prefixes ps best s = (s', a) ->
  match a with
  | ACreated w _ => w = lastwe s + 1 /\ lastwe s' = w
  | _ => lastwe s' = lastwe s
  end.
Proof.
  intros ps best s s' a H. unfold add_prefixes in H.
  destruct (walk_prefixes ps s 0%nat []) as [[s1 ninv] valid] eqn:W.
  apply walk_prefixes_lastwe in W.
  destruct (negb (Nat.eqb ninv 0) && negb best).
  - inversion H; subst. exact W.
  - destruct (Nat.eqb ninv (length ps)).
    + inversion H; subst. exact W.
    + inversion H; subst. cbn [lastwe]. rewrite W. split; reflexivity.
Qed.

Lemma create_from_ids : forall prefix s s' c,
  create_from prefix s = (s', c) -> ids_ok s s' c.
Proof.
  intros prefix s s' c H. unfold create_from in H.
  destruct (add_prefixes (lru_variations prefix) true s) as [s1 a] eqn:E.
  apply add_prefixes_ids in E.
  destruct a as [| |w valid]; inversion H; subst.
  - apply ids_ok_nil. exact E.
  - apply ids_ok_nil. exact E.
  - destruct E as [Hw Hl]. unfold ids_ok. cbn. split; [split; [lia | exact I] | exact Hl].
Qed.

(* one creation, at most one id *)
Lemma create_from_one_id : forall prefix s s' c,
  create_from prefix s = (s', c) -> c = [] \/ exists w valid, c = [(w, valid)].
Proof.
  intros prefix s s' c H. unfold create_from in H.
  destruct (add_prefixes (lru_variations prefix) true s) as [s1 a].
  destruct a as [| |w valid]; inversion H; subst.
  - left; reflexivity.
  - left; reflexivity.
  - right. exists w, valid. reflexivity.
Qed.

Lemma add_page_int_ids : forall lru cr s s' n c,
  add_page_int lru cr s = (s', n, c) -> ids_ok s s' c.
Proof.
  intros lru cr s s' n c H. unfold add_page_int in H.
  destruct (trie_add_page lru cr s) as [[s1 h] created] eqn:E.
  apply trie_add_page_lastwe in E.
  destruct (decide s1 lru h) as [|p|].
  - inversion H; subst. apply ids_ok_nil. exact E.
  - destruct (create_from p s1) as [s2 c2] eqn:C. inversion H; subst.
    apply create_from_ids in C. apply (ids_ok_frame_l s s1); [exact E | exact C].
  - inversion H; subst. apply ids_ok_nil. exact E.
Qed.

(* a page added alone also yields at most one id *)
Lemma add_page_int_one_id : forall lru cr s s' n c,
  add_page_int lru cr s = (s', n, c) -> c = [] \/ exists w valid, c = [(w, valid)].
Proof.
  intros lru cr s s' n c H. unfold add_page_int in H.
  destruct (trie_add_page lru cr s) as [[s1 h] created].
  destruct (decide s1 lru h) as [|p|].
  - inversion H; subst. left; reflexivity.
  - destruct (create_from p s1) as [s2 c2] eqn:C. inversion H; subst.
    apply (create_from_one_id p s1 s'). exact C.
  - inversion H; subst. left; reflexivity.
Qed.

(* chaining one more page on an accumulated (state, created) pair *)
Lemma ids_ok_add_page : forall s0 s c l cr s' n' c',
  ids_ok s0 s c -> add_page_int l cr s = (s', n', c') -> ids_ok s0 s' (c ++ c').
Proof.
  intros s0 s c l cr s' n' c' H E. apply (ids_ok_trans s0 s s'); [exact H|].
  apply (add_page_int_ids l cr s s' n'). exact E.
Qed.

(* the fold of add_pages / add_rule *)
Definition pages_fold (cr : bool) :=
  fun '(s, n, c) l => let '(s', n', c') := add_page_int l cr s in (s', n + n', c ++ c').

Lemma pages_fold_ids : forall cr lrus s0 s n c s1 n1 c1,
  ids_ok s0 s c ->
  fold_left (pages_fold cr) lrus (s, n, c) = (s1, n1, c1) -> ids_ok s0 s1 c1.
Proof.
  intros cr lrus s0 s n c s1 n1 c1 H E.
  assert (G : let '(s', _, c') := fold_left (pages_fold cr) lrus (s, n, c) in ids_ok s0 s' c').
  { apply (fold_left_inv _ _ (fun acc : traph * N * list (N * list bytes) =>
                                 let '(s', _, c') := acc in ids_ok s0 s' c')); [exact H|].
    intros [[sa na] ca] l Ha. unfold pages_fold.
    destruct (add_page_int l cr sa) as [[s' n'] c'] eqn:A.
    apply (ids_ok_add_page s0 sa ca l cr s' n' c' Ha A). }
  rewrite E in G. exact G.
Qed.

Lemma add_page_ids : forall lru cr s s' r, add_page lru cr s = (s', r) ->
  ids_ok s s' (match r with Report _ c => c | _ => [] end) .
Proof.
  intros lru cr s s' r H. unfold add_page in H.
  destruct (add_page_int lru cr s) as [[s1 n] c] eqn:E. inversion H; subst.
  apply (add_page_int_ids lru cr s s' n c E).
Qed.

Definition created_of (r : reply) : list (N * list bytes) :=
  match r with Report _ c => c | _ => [] end.

Lemma issued_created : forall r, issued r = map fst (created_of r).
Proof. intros [| | |n c]; reflexivity. Qed.

Lemma add_pages_ids : forall lrus cr s s' r, add_pages lrus cr s = (s', r) ->
  ids_ok s s' (created_of r).
Proof.
  intros lrus cr s s' r H. unfold add_pages in H.
  change (fun '(s, n, c) l => let '(s', n', c') := add_page_int l cr s in (s', n + n', c ++ c'))
    with (pages_fold cr) in H.
  destruct (fold_left (pages_fold cr) lrus (s, 0, [])) as [[s1 n] c] eqn:E.
  inversion H; subst. cbn [created_of].
  apply (pages_fold_ids cr lrus s s 0 [] s' n c); [apply ids_ok_nil; reflexivity | exact E].
Qed.

(* add_links *)
Lemma add_links_ids : forall links s s' r, add_links links s = (s', r) ->
  ids_ok s s' (created_of r).
Proof.
  intros links s s' r H. unfold add_links in H.
  match type of H with
  | context [fold_left ?f links ?a] =>
      set (F := f) in H;
      assert (G : let '(s1, _, c1, _, _, _) := fold_left F links a in ids_ok s s1 c1)
  end.
  { apply (fold_left_inv _ _
             (fun acc : traph * N * list (N * list bytes) * list bytes
                        * list (bytes * list bytes) * list (bytes * list bytes) =>
                let '(s1, _, c1, _, _, _) := acc in ids_ok s s1 c1));
      [apply ids_ok_nil; reflexivity|].
    intros [[[[[sa na] ca] seen] outs] ins] [a b] Ha. unfold F.
    destruct (mem_bytes a seen).
    - destruct (mem_bytes b seen).
      + exact Ha.
      + destruct (add_page_int b false sa) as [[s2 n2] c2] eqn:B.
        apply (ids_ok_add_page s sa ca b false s2 n2 c2 Ha B).
    - destruct (add_page_int a false sa) as [[s2 n2] c2] eqn:A.
      pose proof (ids_ok_add_page s sa ca a false s2 n2 c2 Ha A) as Ha2.
      destruct (mem_bytes b (a :: seen)).
      + exact Ha2.
      + destruct (add_page_int b false s2) as [[s3 n3] c3] eqn:B.
        apply (ids_ok_add_page s s2 (ca ++ c2) b false s3 n3 c3 Ha2 B). }
  destruct (fold_left F links (s, 0, [], [], [], [])) as [[[[[s1 n] c] seen] outs] ins].
  inversion H; subst. cbn [created_of].
  apply (ids_ok_frame s s1); [exact G|].
  rewrite !flush_links_lastwe. reflexivity.
Qed.

(* batch_crawl *)
Lemma batch_crawl_ids : forall data s s' r, batch_crawl data s = (s', r) ->
  ids_ok s s' (created_of r).
Proof.
  intros data s s' r H. unfold batch_crawl in H.
  match type of H with
  | context [fold_left ?f data ?a] =>
      set (F := f) in H;
      assert (G : let '(s1, _, c1, _, _) := fold_left F data a in ids_ok s s1 c1)
  end.
  { apply (fold_left_inv _ _
             (fun acc : traph * N * list (N * list bytes) * list bytes
                        * list (bytes * list bytes) =>
                let '(s1, _, c1, _, _) := acc in ids_ok s s1 c1));
      [apply ids_ok_nil; reflexivity|].
    intros [[[[sa na] ca] seen] ins] [src tgts] Ha. unfold F.
    assert (Hsrc : let '(s2, _, c2, _) :=
                     (if mem_bytes src seen
                      then (set_tree (upd set_crawled (lru_iter src) (tr sa)) sa, na, ca, seen)
                      else let '(s', n', c') := add_page_int src true sa in
                           (s', na + n', ca ++ c', src :: seen))
                   in ids_ok s s2 c2).
    { destruct (mem_bytes src seen).
      - apply (ids_ok_frame s sa); [exact Ha | reflexivity].
      - destruct (add_page_int src true sa) as [[s2 n2] c2] eqn:A.
        apply (ids_ok_add_page s sa ca src true s2 n2 c2 Ha A). }
    destruct (if mem_bytes src seen
              then (set_tree (upd set_crawled (lru_iter src) (tr sa)) sa, na, ca, seen)
              else let '(s', n', c') := add_page_int src true sa in
                   (s', na + n', ca ++ c', src :: seen)) as [[[sb nb0] cb] seenb].
    match goal with
    | |- context [fold_left ?g tgts ?a0] =>
        set (Gf := g);
        assert (Hin : let '(s3, _, c3, _, _) := fold_left Gf tgts a0 in ids_ok s s3 c3)
    end.
    { apply (fold_left_inv _ _
               (fun acc : traph * N * list (N * list bytes) * list bytes
                          * list (bytes * list bytes) =>
                  let '(s3, _, c3, _, _) := acc in ids_ok s s3 c3)); [exact Hsrc|].
      intros [[[[sc nc] cc] seenc] insc] t Hc. unfold Gf.
      destruct (mem_bytes t seenc).
      - exact Hc.
      - destruct (add_page_int t false sc) as [[s4 n4] c4] eqn:A.
        apply (ids_ok_add_page s sc cc t false s4 n4 c4 Hc A). }
    destruct (fold_left Gf tgts (sb, nb0, cb, seenb, ins)) as [[[[sd nd0] cd] seend] insd].
    apply (ids_ok_frame s sd); [exact Hin | apply store_links_lastwe]. }
  destruct (fold_left F data (s, 0, [], [], [])) as [[[[s1 n] c] seen] ins].
  inversion H; subst. cbn [created_of].
  apply (ids_ok_frame s s1); [exact G | apply flush_links_lastwe].
Qed.

Lemma create_webentity_ids : forall ps s s' r, create_webentity ps s = (s', r) ->
  ids_ok s s' (created_of r).
Proof.
  intros ps s s' r H. unfold create_webentity in H.
  destruct (add_prefixes ps false s) as [s1 a] eqn:E. apply add_prefixes_ids in E.
  destruct a as [| |w valid]; inversion H; subst; cbn [created_of].
  - apply ids_ok_nil; exact E.
  - apply ids_ok_nil; exact E.
  - destruct E as [Hw Hl]. unfold ids_ok. cbn. split; [split; [lia | exact I] | exact Hl].
Qed.

Lemma add_rule_ids : forall p k write s s' r, add_rule p k write s = (s', r) ->
  ids_ok s s' (created_of r).
Proof.
  intros p k write s s' r H. unfold add_rule in H.
  destruct write; cbn [negb] in H.
  - set (s0 := mkT (tr s) (nb s) (lastwe s) (stubs s) (aset p k (rules s)) (dflt s)) in *.
    destruct (add_lru false p s0) as [s1 h1] eqn:E. apply add_lru_lastwe in E.
    set (s2 := set_tree (upd (set_rule true) (lru_iter p) (tr s1)) s1) in *.
    change (fun '(s, n, c) l => let '(s', n', c') := add_page_int l false s in (s', n + n', c ++ c'))
      with (pages_fold false) in H.
    destruct (fold_left (pages_fold false) (pages_under p s2) (s2, 0, [])) as [[s3 n] c] eqn:Fd.
    inversion H; subst. cbn [created_of].
    apply (pages_fold_ids false (pages_under p s2) s s2 0 [] s' n c);
      [apply ids_ok_nil; exact E | exact Fd].
  - inversion H; subst. cbn [created_of]. apply ids_ok_nil. reflexivity.
Qed.

(* ---------- the requests that create nothing ---------- *)

Lemma delete_webentity_ids : forall w ps s s' r, delete_webentity w ps s = (s', r) ->
  lastwe s' = lastwe s /\ issued r = [].
Proof.
  intros w ps s s' r H. unfold delete_webentity in H.
  destruct (forallb _ ps); inversion H; subst; split; reflexivity.
Qed.

Lemma add_prefix_ids : forall p w s s' r, add_prefix p w s = (s', r) ->
  lastwe s' = lastwe s /\ issued r = [].
Proof.
  intros p w s s' r H. unfold add_prefix in H.
  destruct (add_lru true p s) as [s1 h1] eqn:E. apply add_lru_lastwe in E.
  destruct (find (lru_iter p) (tr s1)) as [d|].
  - destruct (we d =? 0); inversion H; subst; split; try reflexivity; exact E.
  - inversion H; subst; split; [exact E | reflexivity].
Qed.

Lemma remove_prefix_ids : forall p w s s' r, remove_prefix p w s = (s', r) ->
  lastwe s' = lastwe s /\ issued r = [].
Proof.
  intros p w s s' r H. unfold remove_prefix in H.
  destruct (add_lru false p s) as [s1 h1] eqn:E. apply add_lru_lastwe in E.
  destruct (find (lru_iter p) (tr s1)) as [d|].
  - destruct ((w =? 0) || (negb (we d =? 0) && (we d =? w)));
      inversion H; subst; split; try reflexivity; exact E.
  - inversion H; subst; split; [exact E | reflexivity].
Qed.

Lemma move_prefix_ids : forall p wt ws s s' r, move_prefix p wt ws s = (s', r) ->
  lastwe s' = lastwe s /\ issued r = [].
Proof.
  intros p wt ws s s' r H. unfold move_prefix in H.
  destruct (remove_prefix p ws s) as [s1 r1] eqn:E. apply remove_prefix_ids in E.
  destruct E as [E1 E2].
  destruct r1 as [| | |n c].
  - inversion H; subst. split; [exact E1 | reflexivity].
  - inversion H; subst. split; [exact E1 | reflexivity].
  - apply add_prefix_ids in H. destruct H as [H1 H2]. split; [rewrite H1; exact E1 | exact H2].
  - inversion H; subst. split; [exact E1 | exact E2].
Qed.

Lemma remove_rule_ids : forall p s s' r, remove_rule p s = (s', r) ->
  lastwe s' = lastwe s /\ issued r = [].
Proof.
  intros p s s' r H. unfold remove_rule in H.
  destruct (aget p (rules s)).
  - cbn [tr] in H. destruct (find (lru_iter p) (tr s)); inversion H; subst; split; reflexivity.
  - inversion H; subst; split; reflexivity.
Qed.

(* close + open on the existing files: the counter is read back from the header *)
Lemma install_rules_nowrite_lastwe : forall rs s, lastwe (install_rules rs false s) = lastwe s.
Proof.
  intros rs s. unfold install_rules.
  apply (fold_left_inv traph _ (fun s' => lastwe s' = lastwe s)); [reflexivity|].
  intros a [p k] Ha. unfold add_rule. cbn [negb fst lastwe]. exact Ha.
Qed.

Lemma reopen_lastwe : forall d rs s, lastwe (reopen d rs s) = lastwe s.
Proof. intros d rs s. unfold reopen. rewrite install_rules_nowrite_lastwe. reflexivity. Qed.

(* ---------- one request ---------- *)

Lemma ids_ok_issued : forall s s' r, ids_ok s s' (created_of r) ->
  increasing_from (lastwe s) (issued r) /\ lastwe s' = last (issued r) (lastwe s).
Proof. intros s s' r H. rewrite issued_created. exact H. Qed.

Lemma nothing_issued : forall s s' r, lastwe s' = lastwe s /\ issued r = [] ->
  increasing_from (lastwe s) (issued r) /\ lastwe s' = last (issued r) (lastwe s).
Proof. intros s s' r [H1 H2]. rewrite H2. split; [exact I | exact H1]. Qed.

Theorem step_ids : forall s o, (forall od ors, o <> OClear od ors) ->
  let '(s', r) := step s o in
  increasing_from (lastwe s) (issued r) /\ lastwe s' = last (issued r) (lastwe s).
Proof.
  intros s o Hnc. destruct (step s o) as [s' r] eqn:E.
  destruct o; cbn [step] in E.
  - apply ids_ok_issued. apply add_page_ids in E. exact E.
  - apply ids_ok_issued. apply add_pages_ids in E. exact E.
  - apply ids_ok_issued. apply add_links_ids in E. exact E.
  - apply ids_ok_issued. apply batch_crawl_ids in E. exact E.
  - apply ids_ok_issued. apply create_webentity_ids in E. exact E.
  - apply nothing_issued. apply delete_webentity_ids in E. exact E.
  - apply nothing_issued. apply add_prefix_ids in E. exact E.
  - apply nothing_issued. apply remove_prefix_ids in E. exact E.
  - apply nothing_issued. apply move_prefix_ids in E. exact E.
  - apply ids_ok_issued. apply add_rule_ids in E. exact E.
  - apply nothing_issued. apply remove_rule_ids in E. exact E.
  - apply nothing_issued. inversion E; subst. split; [apply reopen_lastwe | reflexivity].
  - exfalso. apply (Hnc od ors). reflexivity.
Qed.

(* the requests that create nothing leave the counter alone *)
Lemma step_no_creation : forall s o,
  match o with
  | ODelete _ _ | OAddPrefix _ _ | ORemovePrefix _ _ | OMovePrefix _ _ _
  | ORemoveRule _ | OReopen _ _ => True
  | _ => False
  end ->
  lastwe (fst (step s o)) = lastwe s /\ issued (snd (step s o)) = [].
Proof.
  intros s o Ho. destruct (step s o) as [s' r] eqn:E. cbn [fst snd].
  destruct o; try (exfalso; exact Ho); cbn [step] in E.
  - apply delete_webentity_ids in E. exact E.
  - apply add_prefix_ids in E. exact E.
  - apply remove_prefix_ids in E. exact E.
  - apply move_prefix_ids in E. exact E.
  - apply remove_rule_ids in E. exact E.
  - inversion E; subst. split; [apply reopen_lastwe | reflexivity].
Qed.

(* ---------- histories ---------- *)

Fixpoint mrun (h : list op) (s : traph) : traph * list reply :=
  match h with
  | [] => (s, [])
  | o :: h' => let '(s1, r) := step s o in
               let '(s2, rs) := mrun h' s1 in (s2, r :: rs)
  end.

Definition ids_of_run (h : list op) (s : traph) : list N := concat (map issued (snd (mrun h s))).

Definition no_clear (h : list op) : Prop := forall od ors, ~ In (OClear od ors) h.

Lemma C12_fresh_gen : forall h s, no_clear h ->
  increasing_from (lastwe s) (ids_of_run h s) /\
  lastwe (fst (mrun h s)) = last (ids_of_run h s) (lastwe s).
Proof.
  unfold ids_of_run.
  induction h as [|o h IH]; intros s Hnc.
  - cbn. split; [exact I | reflexivity].
  - cbn [mrun].
    assert (Ho : forall od ors, o <> OClear od ors).
    { intros od ors Heq. apply (Hnc od ors). left. exact Heq. }
    assert (Hh : no_clear h).
    { intros od ors Hin. apply (Hnc od ors). right. exact Hin. }
    pose proof (step_ids s o Ho) as Hs.
    destruct (step s o) as [s1 r]. destruct Hs as [Hs1 Hs2].
    specialize (IH s1 Hh). destruct (mrun h s1) as [s2 rs]. cbn [fst snd] in *.
    destruct IH as [IH1 IH2]. cbn [map concat]. split.
    + apply increasing_from_app; [exact Hs1|]. rewrite <- Hs2. exact IH1.
    + rewrite last_app. rewrite <- Hs2. exact IH2.
Qed.

Theorem C12_fresh : forall h s, (forall od ors, ~ In (OClear od ors) h) ->
  increasing_from (lastwe s) (concat (map issued (snd (mrun h s)))).
Proof. intros h s Hnc. apply (C12_fresh_gen h s Hnc). Qed.

(* consequences: no id is issued twice, and a later id is greater than an earlier one *)
Corollary C12_ids_nodup : forall h s, (forall od ors, ~ In (OClear od ors) h) ->
  NoDup (concat (map issued (snd (mrun h s)))).
Proof. intros h s Hnc. apply (increasing_from_nodup _ (lastwe s)). apply C12_fresh. exact Hnc. Qed.

Corollary C12_ids_above_counter : forall h s w, (forall od ors, ~ In (OClear od ors) h) ->
  In w (concat (map issued (snd (mrun h s)))) -> lastwe s < w.
Proof.
  intros h s w Hnc Hin. apply (increasing_from_all_gt _ _ w (C12_fresh h s Hnc) Hin).
Qed.

Lemma mrun_app : forall h1 h2 s,
  mrun (h1 ++ h2) s =
  (fst (mrun h2 (fst (mrun h1 s))), snd (mrun h1 s) ++ snd (mrun h2 (fst (mrun h1 s)))).
Proof.
  induction h1 as [|o h1 IH]; intros h2 s.
  - cbn. destruct (mrun h2 s); reflexivity.
  - cbn [mrun app]. destruct (step s o) as [s1 r]. rewrite IH.
    destruct (mrun h1 s1) as [s2 rs]. cbn [fst snd]. reflexivity.
Qed.

Corollary C12_later_greater : forall h1 h2 s a b,
  (forall od ors, ~ In (OClear od ors) (h1 ++ h2)) ->
  In a (concat (map issued (snd (mrun h1 s)))) ->
  In b (concat (map issued (snd (mrun h2 (fst (mrun h1 s)))))) ->
  a < b.
Proof.
  intros h1 h2 s a b Hnc Ha Hb.
  pose proof (C12_fresh (h1 ++ h2) s Hnc) as H.
  rewrite mrun_app in H. cbn [snd] in H. rewrite map_app, concat_app in H.
  apply (increasing_from_later_gt _ _ _ a b H Ha Hb).
Qed.

(* one creation request, one id for all the prefixes it attaches *)
Theorem C12_one_id : forall ps s s' r, create_webentity ps s = (s', r) ->
  (exists n w valid, r = Report n [(w, valid)]) \/ r = Refused \/ r = Crash.
Proof.
  intros ps s s' r H. unfold create_webentity in H.
  destruct (add_prefixes ps false s) as [s1 a].
  destruct a as [| |w valid]; inversion H; subst.
  - right; left; reflexivity.
  - right; right; reflexivity.
  - left. exists 0, w, valid. reflexivity.
Qed.

(* and that id is the successor of the counter *)
Lemma C12_create_next : forall ps s s' n w valid,
  create_webentity ps s = (s', Report n [(w, valid)]) -> w = lastwe s + 1 /\ lastwe s' = w.
Proof.
  intros ps s s' n w valid H. unfold create_webentity in H.
  destruct (add_prefixes ps false s) as [s1 a] eqn:E. apply add_prefixes_ids in E.
  destruct a as [| |w0 valid0]; inversion H; subst. exact E.
Qed.

(* clear restarts the counter, like a fresh index *)
Theorem C12_clear : forall s od, lastwe (fst (step s (OClear od None))) = 0.
Proof. reflexivity. Qed.

Theorem C12_clear_rules : forall s od rs,
  fst (step s (OClear od (Some rs))) =
  init (match od with Some d => d | None => dflt s end) rs.
Proof. reflexivity. Qed.

Theorem C12_clear_fresh : forall s od ors,
  lastwe (clear od ors s) =
  lastwe (match ors with
          | Some rs => init (match od with Some d => d | None => dflt s end) rs
          | None => mkT Lf 1 0 [] [] (match od with Some d => d | None => dflt s end)
          end).
Proof. intros s od [rs|]; reflexivity. Qed.

(* ---------- non-vacuity ---------- *)

Definition ex_com : bytes := [104; 58; 99; 111; 109; 124].   (* h:com| *)
Definition ex_a : bytes := [104; 58; 97; 124].               (* h:a|   *)
Definition ex_b : bytes := [104; 58; 98; 124].               (* h:b|   *)
Definition ex_pa : bytes := s_http ++ ex_com ++ ex_a.
Definition ex_pb : bytes := s_http ++ ex_com ++ ex_b.

(* create, delete, close/reopen, create again: the deleted id 1 is not reissued; pages
   handled by the default rule get the following ids; a refused creation issues nothing *)
Definition ex_history : list op :=
  [OCreate [ex_pa]; ODelete 1 [ex_pa]; OReopen Domain []; OCreate [ex_pa];
   OAddPages [ex_pb; ex_pa] false; ORemovePrefix ex_pa 2; OAddPage ex_pa true; OCreate [ex_pa]].

Example C12_nonvacuous :
  map issued (snd (mrun ex_history (init Domain []))) = [[1]; []; []; [2]; [3]; []; [4]; []] /\
  lastwe (fst (mrun ex_history (init Domain []))) = 4.
Proof. vm_compute. split; reflexivity. Qed.

(* the exclusion of OClear is not decorative: after a clear the ids start again at 1 *)
Example C12_clear_reissues :
  map issued (snd (mrun [OCreate [ex_pa]; OClear None None; OCreate [ex_pa]] (init Domain [])))
  = [[1]; []; [1]].
Proof. vm_compute. reflexivity. Qed.

Print Assumptions step_ids.
Print Assumptions C12_fresh.
Print Assumptions C12_one_id.
Print Assumptions create_from_one_id.
Print Assumptions C12_clear.
Print Assumptions C12_later_greater.
Print Assumptions C12_nonvacuous.
