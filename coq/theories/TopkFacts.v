(* TopkFacts.v — the bounded descending insertion used by most_linked (Traph.v insert_desc),
   and the Counter / ordered-set walks (weighted, deduped). *)
From Coq Require Import List NArith Bool Lia Arith Sorted Permutation.
Import ListNotations.
From Traph Require Import Bytes Consts Helpers Tst Traph.
Open Scope N_scope.

Definition key := (N * N * bytes)%type.
Definition deg_of (x : key) : N := fst (fst x).
Definition arr_of (x : key) : N := snd (fst x).

(* x is strictly above y: greater degree, or same degree and later arrival *)
Definition gt (x y : key) : Prop :=
  fst (fst y) < fst (fst x) \/ (fst (fst y) = fst (fst x) /\ snd (fst y) < snd (fst x)).

Definition gtb (x y : key) : bool :=
  (fst (fst y) <? fst (fst x)) || ((fst (fst y) =? fst (fst x)) && (snd (fst y) <? snd (fst x))).

Lemma gtb_spec : forall x y, gtb x y = true <-> gt x y.
Proof.
  intros x y. unfold gtb, gt.
  rewrite orb_true_iff, andb_true_iff, !N.ltb_lt, N.eqb_eq. reflexivity.
Qed.

Lemma gt_trans : forall x y z, gt x y -> gt y z -> gt x z.
Proof. unfold gt. intros x y z Hxy Hyz. lia. Qed.

Lemma gt_irrefl : forall x, ~ gt x x.
Proof. unfold gt. intros x H. lia. Qed.

Lemma not_gt_flip : forall x y, snd (fst y) <> snd (fst x) -> ~ gt x y -> gt y x.
Proof. unfold gt. intros x y Hne Hn. lia. Qed.

Lemma insert_desc_cons : forall x y l,
  insert_desc x (y :: l) = if gtb x y then x :: y :: l else y :: insert_desc x l.
Proof. intros [[dx cx] bx] [[dy cy] by_] l. reflexivity. Qed.

Lemma insert_desc_nil : forall x, insert_desc x [] = [x].
Proof. reflexivity. Qed.

Theorem insert_desc_perm : forall x l, Permutation (insert_desc x l) (x :: l).
Proof.
  intros x l; induction l as [|y l IH].
  - apply Permutation_refl.
  - rewrite insert_desc_cons. destruct (gtb x y).
    + apply Permutation_refl.
    + eapply perm_trans; [apply perm_skip, IH|apply perm_swap].
Qed.

Lemma insert_desc_in : forall x l y, In y (insert_desc x l) <-> y = x \/ In y l.
Proof.
  intros x l y. split; intro H.
  - apply (Permutation_in _ (insert_desc_perm x l)) in H. destruct H as [H|H]; auto.
  - apply (Permutation_in _ (Permutation_sym (insert_desc_perm x l))).
    destruct H as [->|H]; [left; reflexivity|right; assumption].
Qed.

Lemma insert_desc_length : forall x l, length (insert_desc x l) = S (length l).
Proof. intros x l. apply (Permutation_length (insert_desc_perm x l)). Qed.

Theorem insert_desc_sorted : forall x l,
  (forall y, In y l -> snd (fst y) <> snd (fst x)) ->
  StronglySorted gt l -> StronglySorted gt (insert_desc x l).
Proof.
  intros x l; induction l as [|y l IH]; intros Hd Hs.
  - cbn. constructor; constructor.
  - rewrite insert_desc_cons. destruct (gtb x y) eqn:E.
    + apply gtb_spec in E. constructor; [assumption|].
      inversion Hs as [|y' l' Hs' Hall]; subst.
      constructor; [assumption|].
      rewrite Forall_forall in *. intros z Hz. eapply gt_trans; eauto.
    + inversion Hs as [|y' l' Hs' Hall]; subst.
      constructor.
      * apply IH; [|assumption]. intros z Hz. apply Hd. right. assumption.
      * rewrite Forall_forall in *. intros z Hz. apply insert_desc_in in Hz.
        destruct Hz as [->|Hz]; [|auto].
        apply not_gt_flip.
        -- intro Heq. apply (Hd y); [left; reflexivity|]. assumption.
        -- intro Hg. apply gtb_spec in Hg. congruence.
Qed.

(* truncating before or after the insertion gives the same first k elements *)
Lemma firstn_insert_firstn : forall k x l,
  firstn k (insert_desc x (firstn k l)) = firstn k (insert_desc x l).
Proof.
  induction k as [|k IH]; intros x l; [reflexivity|].
  destruct l as [|y l]; [reflexivity|].
  cbn [firstn]. rewrite !insert_desc_cons. destruct (gtb x y).
  - cbn [firstn]. f_equal.
    change (y :: firstn k l) with (firstn (S k) (y :: l)).
    rewrite firstn_firstn. f_equal. lia.
  - cbn [firstn]. f_equal. apply IH.
Qed.

(* ---- the fold of most_linked ------------------------------------------------------ *)
Section Topk.
  Variable A : Type.
  Variable deg : A -> N.
  Variable lru : A -> bytes.

  Definition step (k : nat) (st : list key * N) (x : A) : list key * N :=
    let '(heap, c) := st in (firstn k (insert_desc (deg x, c + 1, lru x) heap), c + 1).

  (* the keys (deg x_i, c + i, lru x_i), i = 1 .. *)
  Fixpoint keys (c : N) (xs : list A) : list key :=
    match xs with
    | [] => []
    | x :: xs' => (deg x, c + 1, lru x) :: keys (c + 1) xs'
    end.

  (* full insertion sort, same insertion order as the fold *)
  Definition isort_from (h : list key) (ks : list key) : list key :=
    fold_left (fun h x => insert_desc x h) ks h.
  Definition isort (ks : list key) : list key := isort_from [] ks.

  Lemma keys_length : forall xs c, length (keys c xs) = length xs.
  Proof. induction xs as [|x xs IH]; intro c; cbn; auto. Qed.

  Lemma keys_arr_gt : forall xs c y, In y (keys c xs) -> c < snd (fst y).
  Proof.
    induction xs as [|x xs IH]; intros c y Hin; cbn [keys] in Hin.
    - destruct Hin.
    - destruct Hin as [<-|Hin]; [cbn; lia|]. apply IH in Hin. lia.
  Qed.

  Lemma keys_arr_nodup : forall xs c, NoDup (map arr_of (keys c xs)).
  Proof.
    induction xs as [|x xs IH]; intro c; cbn [keys map].
    - constructor.
    - constructor; [|apply IH].
      intro Hin. apply in_map_iff in Hin. destruct Hin as [y [Hy Hin]].
      apply keys_arr_gt in Hin. unfold arr_of in Hy. cbn in Hy. lia.
  Qed.

  Lemma keys_nth : forall xs c i x0, (i < length xs)%nat ->
    nth i (keys c xs) (deg x0, 0, lru x0) =
    (deg (nth i xs x0), c + N.of_nat (S i), lru (nth i xs x0)).
  Proof.
    induction xs as [|x xs IH]; intros c i x0 Hi; cbn [length] in Hi; [lia|].
    destruct i as [|i]; cbn [keys nth].
    - reflexivity.
    - rewrite IH by lia. replace (c + 1 + N.of_nat (S i)) with (c + N.of_nat (S (S i))) by lia. reflexivity.
  Qed.

  Lemma isort_from_perm : forall ks h, Permutation (isort_from h ks) (h ++ ks).
  Proof.
    induction ks as [|x ks IH]; intro h; cbn [isort_from fold_left].
    - rewrite app_nil_r. apply Permutation_refl.
    - eapply perm_trans; [apply IH|].
      eapply perm_trans; [apply Permutation_app_tail, insert_desc_perm|].
      cbn [app]. apply Permutation_middle.
  Qed.

  Lemma isort_perm : forall ks, Permutation (isort ks) ks.
  Proof. intro ks. apply (isort_from_perm ks []). Qed.

  Lemma isort_from_sorted : forall ks h,
    NoDup (map arr_of ks) ->
    (forall y z, In y h -> In z ks -> snd (fst y) <> snd (fst z)) ->
    StronglySorted gt h -> StronglySorted gt (isort_from h ks).
  Proof.
    induction ks as [|x ks IH]; intros h Hnd Hx Hs; cbn [isort_from fold_left]; [assumption|].
    cbn [map] in Hnd. inversion Hnd as [|a m Hnin Hnd']; subst.
    apply IH; [assumption| |].
    - intros y z Hy Hz. apply insert_desc_in in Hy. destruct Hy as [->|Hy].
      + intro Heq. apply Hnin. apply in_map_iff. exists z. split; [|assumption].
        unfold arr_of. symmetry. assumption.
      + apply Hx; [assumption|right; assumption].
    - apply insert_desc_sorted; [|assumption].
      intros y Hy. apply Hx; [assumption|left; reflexivity].
  Qed.

  Lemma isort_sorted : forall ks, NoDup (map arr_of ks) -> StronglySorted gt (isort ks).
  Proof.
    intros ks Hnd. apply isort_from_sorted; [assumption| |constructor].
    intros y z [].
  Qed.

  (* the bounded fold keeps exactly the first k elements of the full sort *)
  Lemma topk_fold_from : forall k xs h c,
    fold_left (step k) xs (firstn k h, c) =
    (firstn k (isort_from h (keys c xs)), c + N.of_nat (length xs)).
  Proof.
    intros k xs; induction xs as [|x xs IH]; intros h c.
    - cbn. f_equal. lia.
    - cbn [fold_left step keys isort_from length].
      rewrite firstn_insert_firstn. rewrite IH. unfold isort_from. f_equal. lia.
  Qed.

  Theorem topk_fold_char : forall k xs,
    fold_left (step k) xs ([], 0) = (firstn k (isort (keys 0 xs)), N.of_nat (length xs)).
  Proof.
    intros k xs. pose proof (topk_fold_from k xs [] 0) as H. rewrite firstn_nil in H. exact H.
  Qed.

  Lemma sorted_firstn : forall (l : list key) k, StronglySorted gt l -> StronglySorted gt (firstn k l).
  Proof.
    induction l as [|y l IH]; intros k Hs; destruct k as [|k]; cbn [firstn]; try constructor.
    - apply IH. inversion Hs; assumption.
    - inversion Hs as [|y' l' Hs' Hall]; subst.
      rewrite Forall_forall in *. intros z Hz. apply Hall.
      rewrite <- (firstn_skipn k l). apply in_or_app. left. assumption.
  Qed.

  Lemma sorted_app_cross : forall (a b : list key) x y,
    StronglySorted gt (a ++ b) -> In x a -> In y b -> gt x y.
  Proof.
    induction a as [|z a IH]; intros b x y Hs Hx Hy; [destruct Hx|].
    cbn [app] in Hs. inversion Hs as [|z' l' Hs' Hall]; subst.
    destruct Hx as [->|Hx].
    - rewrite Forall_forall in Hall. apply Hall. apply in_or_app. right. assumption.
    - eapply IH; eauto.
  Qed.

  (* the statement asked for: after folding over xs from ([], 0) the heap is sorted
     descending, has min k |xs| elements, all of them genuine keys, and every key left
     out is strictly below every key kept *)
  Theorem topk_fold : forall k xs heap c,
    fold_left (step k) xs ([], 0) = (heap, c) ->
    c = N.of_nat (length xs) /\
    StronglySorted gt heap /\
    length heap = Nat.min k (length xs) /\
    (forall h, In h heap -> In h (keys 0 xs)) /\
    (forall y h, In y (keys 0 xs) -> ~ In y heap -> In h heap -> gt h y).
  Proof.
    intros k xs heap c Hf. rewrite topk_fold_char in Hf.
    injection Hf as Hh Hc. subst heap c.
    pose proof (isort_perm (keys 0 xs)) as Hp.
    pose proof (isort_sorted (keys 0 xs) (keys_arr_nodup xs 0)) as Hs.
    split; [reflexivity|]. split; [apply sorted_firstn; assumption|].
    split.
    { rewrite firstn_length, (Permutation_length Hp), keys_length. reflexivity. }
    split.
    { intros h Hh. apply (Permutation_in _ Hp).
      rewrite <- (firstn_skipn k (isort (keys 0 xs))). apply in_or_app. left. assumption. }
    intros y h Hy Hny Hh.
    apply (Permutation_in _ (Permutation_sym Hp)) in Hy.
    rewrite <- (firstn_skipn k (isort (keys 0 xs))) in Hy, Hs.
    apply in_app_or in Hy. destruct Hy as [Hy|Hy]; [contradiction|].
    eapply sorted_app_cross; eauto.
  Qed.
End Topk.

Lemma fold_left_ext2 : forall (S X : Type) (f g : S -> X -> S),
  (forall a x, f a x = g a x) -> forall l a, fold_left f l a = fold_left g l a.
Proof.
  intros S X f g Hfg l; induction l as [|x l IH]; intro a; cbn [fold_left]; [reflexivity|].
  rewrite Hfg. apply IH.
Qed.

(* the fold inside most_linked is this step *)
Lemma most_linked_fold : forall (l : list (bytes * nd)) k s,
  fold_left (fun '(heap, c) x =>
               let c' := c + 1 in
               (firstn (N.to_nat k) (insert_desc (reported_indegree (snd x) s, c', fst x) heap), c'))
            l ([], 0)
  = fold_left (step _ (fun x => reported_indegree (snd x) s) fst (N.to_nat k)) l ([], 0).
Proof.
  intros l k s. apply fold_left_ext2. intros [heap c] x. reflexivity.
Qed.

Theorem most_linked_char : forall ps k maxd s,
  most_linked ps k maxd s =
  match we_page_nodes maxd ps s with
  | ROk l => ROk (map (fun '(dg, _, lru) => (lru, dg))
                      (firstn (N.to_nat k)
                              (isort (keys _ (fun x => reported_indegree (snd x) s) fst 0 l))))
  | RRefused => RRefused
  | RCrash => RCrash
  end.
Proof.
  intros ps k maxd s. unfold most_linked.
  destruct (we_page_nodes maxd ps s) as [| |l]; try reflexivity.
  rewrite most_linked_fold, topk_fold_char. reflexivity.
Qed.

(* ---- weighted (Counter, first-occurrence order) and deduped ----------------------- *)
Definition dedup_from (acc l : list N) : list N :=
  fold_left (fun acc x => if memN x acc then acc else acc ++ [x]) l acc.
Definition weighted_from (acc : list (N * N)) (l : list N) : list (N * N) :=
  fold_left (fun acc x => incr x acc) l acc.

Lemma memN_spec : forall x l, memN x l = true <-> In x l.
Proof.
  intros x l. unfold memN. rewrite existsb_exists. split.
  - intros [y [Hy He]]. apply N.eqb_eq in He. subst. assumption.
  - intro H. exists x. split; [assumption|apply N.eqb_refl].
Qed.

Lemma dedup_from_in : forall l acc x, In x (dedup_from acc l) <-> In x acc \/ In x l.
Proof.
  induction l as [|y l IH]; intros acc x; cbn [dedup_from fold_left].
  - cbn. tauto.
  - fold (dedup_from (if memN y acc then acc else acc ++ [y]) l). rewrite IH.
    destruct (memN y acc) eqn:E.
    + apply memN_spec in E. cbn [In]. split; [tauto|].
      intros [H|[<-|H]]; auto.
    + rewrite in_app_iff. cbn [In]. tauto.
Qed.

Lemma nodup_snoc : forall (l : list N) y, NoDup l -> ~ In y l -> NoDup (l ++ [y]).
Proof.
  induction l as [|z l IH]; intros y Hnd Hn; cbn [app].
  - constructor; [intros []|constructor].
  - inversion Hnd as [|a m Hnin Hnd']; subst. constructor.
    + rewrite in_app_iff. cbn [In]. intros [H|[H|[]]]; [contradiction|].
      apply Hn. left. symmetry. assumption.
    + apply IH; [assumption|]. intro H. apply Hn. right. assumption.
Qed.

Lemma dedup_from_nodup : forall l acc, NoDup acc -> NoDup (dedup_from acc l).
Proof.
  induction l as [|y l IH]; intros acc Hnd; cbn [dedup_from fold_left]; [assumption|].
  fold (dedup_from (if memN y acc then acc else acc ++ [y]) l). apply IH.
  destruct (memN y acc) eqn:E; [assumption|].
  assert (~ In y acc) as Hn by (rewrite <- memN_spec; congruence).
  apply nodup_snoc; assumption.
Qed.

Theorem deduped_in : forall l x, In x (deduped l) <-> In x l.
Proof.
  intros l x. change (deduped l) with (dedup_from [] l). rewrite dedup_from_in. cbn. tauto.
Qed.

Theorem deduped_nodup : forall l, NoDup (deduped l).
Proof. intro l. apply (dedup_from_nodup l []). constructor. Qed.

Theorem deduped_spec : forall l, (forall x, In x (deduped l) <-> In x l) /\ NoDup (deduped l).
Proof. intro l. split; [intro x; apply deduped_in|apply deduped_nodup]. Qed.

(* the keys of the Counter are the ordered set *)
Lemma incr_fst : forall x acc,
  map fst (incr x acc) = if memN x (map fst acc) then map fst acc else map fst acc ++ [x].
Proof.
  intros x acc; induction acc as [|[y n] acc IH]; cbn [incr map fst]; [reflexivity|].
  unfold memN in *. cbn [existsb]. destruct (x =? y) eqn:E; cbn [orb map fst]; [reflexivity|].
  rewrite IH. destruct (existsb (N.eqb x) (map fst acc)); reflexivity.
Qed.

Lemma weighted_from_fst : forall l acc,
  map fst (weighted_from acc l) = dedup_from (map fst acc) l.
Proof.
  induction l as [|x l IH]; intro acc; cbn [weighted_from dedup_from fold_left]; [reflexivity|].
  fold (weighted_from (incr x acc) l). rewrite IH, incr_fst. reflexivity.
Qed.

Theorem weighted_fst : forall l, map fst (weighted l) = deduped l.
Proof. intro l. apply (weighted_from_fst l []). Qed.

Fixpoint get (x : N) (acc : list (N * N)) : N :=
  match acc with
  | [] => 0
  | (y, n) :: acc' => if x =? y then n else get x acc'
  end.

Lemma get_incr : forall x y acc, get x (incr y acc) = get x acc + (if x =? y then 1 else 0).
Proof.
  intros x y acc; induction acc as [|[z n] acc IH]; cbn [incr get].
  - destruct (x =? y); reflexivity.
  - destruct (N.eqb_spec y z) as [->|Hyz]; cbn [get].
    + destruct (x =? z); lia.
    + destruct (N.eqb_spec x z) as [->|Hxz].
      * destruct (N.eqb_spec z y); [congruence|lia].
      * apply IH.
Qed.

Lemma get_in : forall acc x w, NoDup (map fst acc) -> In (x, w) acc -> get x acc = w.
Proof.
  induction acc as [|[z n] acc IH]; intros x w Hnd Hin; [destruct Hin|].
  cbn [map fst] in Hnd. inversion Hnd as [|a m Hnin Hnd']; subst.
  cbn [get]. destruct Hin as [Heq|Hin].
  - injection Heq as -> ->. rewrite N.eqb_refl. reflexivity.
  - destruct (N.eqb_spec x z) as [->|Hne].
    + exfalso. apply Hnin. apply in_map_iff. exists (z, w). split; [reflexivity|assumption].
    + apply IH; assumption.
Qed.

Lemma get_weighted_from : forall l acc x,
  get x (weighted_from acc l) = get x acc + N.of_nat (count_occ N.eq_dec l x).
Proof.
  induction l as [|y l IH]; intros acc x; cbn [weighted_from fold_left].
  - cbn. lia.
  - fold (weighted_from (incr y acc) l). rewrite IH, get_incr.
    destruct (N.eqb_spec x y) as [->|Hne].
    + rewrite count_occ_cons_eq by reflexivity. lia.
    + rewrite count_occ_cons_neq by congruence. lia.
Qed.

Theorem weighted_nodup : forall l, NoDup (map fst (weighted l)).
Proof. intro l. rewrite weighted_fst. apply deduped_nodup. Qed.

Theorem weighted_in : forall l x, (exists w, In (x, w) (weighted l)) <-> In x l.
Proof.
  intros l x. rewrite <- deduped_in, <- weighted_fst, in_map_iff. split.
  - intros [w Hw]. exists (x, w). split; [reflexivity|assumption].
  - intros [[y w] [Hy Hin]]. cbn in Hy. subst. exists w. assumption.
Qed.

Theorem weighted_count : forall l x w,
  In (x, w) (weighted l) -> w = N.of_nat (count_occ N.eq_dec l x).
Proof.
  intros l x w Hin. apply get_in in Hin; [|apply weighted_nodup].
  change (weighted l) with (weighted_from [] l) in Hin.
  rewrite get_weighted_from in Hin. cbn [get] in Hin. lia.
Qed.

Theorem weighted_spec : forall l,
  (forall x, (exists w, In (x, w) (weighted l)) <-> In x l) /\
  (forall x w, In (x, w) (weighted l) -> w = N.of_nat (count_occ N.eq_dec l x)) /\
  NoDup (map fst (weighted l)).
Proof.
  intro l. split; [apply weighted_in|]. split; [apply weighted_count|apply weighted_nodup].
Qed.

(* every weight is positive, and conversely the count of a member is its weight *)
Corollary weighted_count_in : forall l x, In x l ->
  In (x, N.of_nat (count_occ N.eq_dec l x)) (weighted l).
Proof.
  intros l x Hin. apply weighted_in in Hin. destruct Hin as [w Hw].
  rewrite <- (weighted_count l x w Hw). assumption.
Qed.
