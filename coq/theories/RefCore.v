(* RefCore.v — the model refines the specification on the core relation Rcore.
   Part 1: well-formedness of creation-rule candidates and of prefix variations,
   the prefix walk (__add_prefixes), webentity creation, __add_page. *)
From Coq Require Import List NArith Bool Lia Arith.
Import ListNotations.
From Traph Require Import Bytes Consts Helpers Rules Tst TstDefs Traph Spec Ops RefDefs TstFacts
  ViewFacts ViewFacts2.
Open Scope N_scope.

(* ====================================================================== *)
(* 0. variations of a well-formed LRU are well formed                     *)
(* ====================================================================== *)

Definition vars_wf (x : bytes) : Prop := Forall wf_lru (lru_variations x).

Lemma last_skipn : forall (l : bytes) n d, skipn n l <> [] -> last (skipn n l) d = last l d.
Proof.
  induction l as [|x l IH]; intros n d H.
  - destruct n; reflexivity.
  - destruct n as [|n]; [reflexivity|]. cbn [skipn] in *.
    rewrite (IH n d H). destruct l as [|y l]; [destruct n; cbn in H; congruence|reflexivity].
Qed.

Lemma wf_lru_cons : forall x l, wf_lru l -> wf_lru (x :: l).
Proof.
  intros x l [Hne Hl]. split; [discriminate|]. destruct l; [congruence|exact Hl].
Qed.

Lemma replace_first_wf : forall old new l, wf_lru l -> wf_lru new -> wf_lru (replace_first old new l).
Proof.
  intros old new l Hl [Hn1 Hn2]. induction l as [|x l IH]; [destruct Hl; congruence|].
  cbn [replace_first]. destruct (starts_with old (x :: l)).
  - split.
    + intro E. apply app_eq_nil in E. destruct E. contradiction.
    + destruct (skipn (length old) (x :: l)) as [|y r] eqn:E.
      * rewrite app_nil_r. exact Hn2.
      * rewrite last_app_ne by discriminate. rewrite <- E.
        rewrite last_skipn by (rewrite E; discriminate). apply Hl.
  - destruct l as [|y l].
    + cbn [replace_first]. exact Hl.
    + apply wf_lru_cons. apply IH. destruct Hl as [_ Hl]. split; [discriminate|exact Hl].
Qed.

Lemma wf_lru_snoc_sep : forall b, wf_lru (b ++ [sep]).
Proof.
  intro b. split; [intro E; apply app_eq_nil in E; destruct E; discriminate|apply last_last].
Qed.

Lemma https_variation_wf : forall l v, wf_lru l -> https_variation l = Some v -> wf_lru v.
Proof.
  intros l v Hl. unfold https_variation.
  destruct (starts_with s_http l).
  - intro H. injection H as <-. apply replace_first_wf; [exact Hl|].
    split; [discriminate|reflexivity].
  - destruct (starts_with s_https l); [|discriminate].
    intro H. injection H as <-. apply replace_first_wf; [exact Hl|].
    split; [discriminate|reflexivity].
Qed.

Lemma lru_variations_wf : forall x, wf_lru x -> vars_wf x.
Proof.
  intros x Hx. unfold vars_wf, lru_variations.
  destruct x as [|x0 x']; [destruct Hx; congruence|].
  set (l := x0 :: x') in *.
  assert (Hbase : Forall wf_lru (l :: match https_variation l with Some v => [v] | None => [] end)).
  { constructor; [exact Hx|]. destruct (https_variation l) as [v|] eqn:E; [|constructor].
    constructor; [|constructor]. eapply https_variation_wf; eassumption. }
  destruct (Nat.leb _ 1); [exact Hbase|].
  match goal with |- context [Nat.eqb (length ?H) 1] => set (hosts' := H) end.
  destruct (Nat.eqb (length hosts') 1); [exact Hbase|].
  apply Forall_app. split; [exact Hbase|].
  constructor.
  - apply replace_first_wf; [exact Hx|apply wf_lru_snoc_sep].
  - destruct (https_variation l) as [v|] eqn:E; [|constructor].
    constructor; [|constructor]. apply replace_first_wf; [|apply wf_lru_snoc_sep].
    eapply https_variation_wf; eassumption.
Qed.

(* ====================================================================== *)
(* 0b. the candidates a creation rule proposes are well formed            *)
(* ====================================================================== *)

Lemma Forall_firstn : forall (A : Type) (P : A -> Prop) n (l : list A), Forall P l -> Forall P (firstn n l).
Proof.
  intros A P n. induction n as [|n IH]; intros l H; [constructor|].
  destruct H; cbn [firstn]; constructor; auto.
Qed.

Lemma match_at_wf : forall k b r, match_at k b = Some r -> wf_lru r.
Proof.
  intros k b r. unfold match_at.
  pose proof (lru_iter_wf b) as Hw.
  destruct (lru_iter b) as [|sch rest]; [discriminate|].
  inversion Hw as [|? ? Hsch Hrest]; subst.
  destruct (is_scheme sch); [|discriminate].
  assert (A : forall n L, Forall wf_stem L -> wf_lru (concat (sch :: firstn n L))).
  { intros n L HL. apply wf_lru_concat; [|discriminate]. constructor; [exact Hsch|].
    apply Forall_firstn. exact HL. }
  assert (B : forall pt n L, wf_stem pt -> Forall wf_stem L -> wf_lru (concat (sch :: pt :: firstn n L))).
  { intros pt n L Hpt HL. apply wf_lru_concat; [|discriminate]. constructor; [exact Hsch|].
    constructor; [exact Hpt|]. apply Forall_firstn. exact HL. }
  destruct rest as [|pt rest'].
  - destruct (match_hosts k []) as [n|]; [|discriminate].
    intro H. injection H as <-. apply A. constructor.
  - inversion Hrest as [|? ? Hpt Hrest']; subst.
    destruct (is_port pt).
    + destruct (match_hosts k rest') as [n|].
      * intro H. injection H as <-. apply B; assumption.
      * destruct (match_hosts k (pt :: rest')) as [n|]; [|discriminate].
        intro H. injection H as <-. apply A. exact Hrest.
    + destruct (match_hosts k (pt :: rest')) as [n|]; [|discriminate].
      intro H. injection H as <-. apply A. exact Hrest.
Qed.

Lemma apply_rule_wf : forall k l x, apply_rule k l = Some x -> wf_lru x.
Proof.
  intros k l x. unfold apply_rule. induction l as [|c l IH]; cbn [search].
  - destruct (match_at k []) as [r|] eqn:E; [|discriminate].
    intro H. injection H as <-. eapply match_at_wf. exact E.
  - destruct (match_at k (c :: l)) as [r|] eqn:E.
    + intro H. injection H as <-. eapply match_at_wf. exact E.
    + exact IH.
Qed.

Lemma longest_candidate_wf : forall rs l h,
  longest_candidate rs l h = [] \/ wf_lru (longest_candidate rs l h).
Proof.
  intros rs l h. unfold longest_candidate.
  assert (G : forall L best, (best = [] \/ wf_lru best) ->
     let r := fold_left (fun best pos =>
               match aget (bsub l pos) rs with
               | Some k => match apply_rule k l with
                           | Some c => if Nat.ltb (length best) (length c) then c else best
                           | None => best
                           end
               | None => best
               end) L best in r = [] \/ wf_lru r).
  { induction L as [|pos L IH]; intros best Hb; [exact Hb|].
    cbn [fold_left]. apply IH.
    destruct (aget (bsub l pos) rs) as [k|]; [|exact Hb].
    destruct (apply_rule k l) as [c|] eqn:E; [|exact Hb].
    destruct (Nat.ltb (length best) (length c)); [|exact Hb].
    right. eapply apply_rule_wf. exact E. }
  apply G. left. reflexivity.
Qed.

Lemma decide_cand_wf : forall s l h x, decide s l h = LCand x -> wf_lru x.
Proof.
  intros s l h x. unfold decide.
  destruct (match h_pos h with None => false | Some p => blen (longest_candidate (rules s) l h) <=? p end);
    [discriminate|].
  destruct (longest_candidate_wf (rules s) l h) as [E|W].
  - rewrite E. destruct (apply_rule (dflt s) l) as [[|y r]|] eqn:Ea; try discriminate.
    intro H. injection H as <-. eapply apply_rule_wf. exact Ea.
  - destruct (longest_candidate (rules s) l h) as [|y r] eqn:E; [destruct W; congruence|].
    intro H. injection H as <-. exact W.
Qed.

Lemma decide_ext : forall s s' l h, rules s = rules s' -> dflt s = dflt s' ->
  decide s l h = decide s' l h.
Proof. intros s s' l h E1 E2. unfold decide. rewrite E1, E2. reflexivity. Qed.

(* the request-level side condition asked for in the task; it always holds *)
Definition rules_ok (rs : list (bytes * rulekind)) (d : rulekind) (l : bytes) : Prop :=
  forall h x, decide (mkT Lf 1 0 [] rs d) l h = LCand x -> wf_lru x /\ vars_wf x.

Lemma rules_ok_always : forall rs d l, rules_ok rs d l.
Proof.
  intros rs d l h x H. apply decide_cand_wf in H. split; [exact H|apply lru_variations_wf; exact H].
Qed.

(* the same, read off a model state *)
Definition cand_ok (s : traph) (l : bytes) : Prop :=
  forall h x, decide s l h = LCand x -> wf_lru x /\ vars_wf x.

Lemma cand_ok_always : forall s l, cand_ok s l.
Proof.
  intros s l h x H. apply decide_cand_wf in H. split; [exact H|apply lru_variations_wf; exact H].
Qed.

(* ====================================================================== *)
(* 1. the prefix walk                                                     *)
(* ====================================================================== *)

(* the node of l exists and its "no child webentities" bit is cleared *)
Definition cleared (s : traph) (l : bytes) : Prop :=
  exists d, nodeof s l = Some d /\ nochild d = false.

(* every proper stem-prefix of l is cleared *)
Definition anc_cleared (s : traph) (l : bytes) : Prop :=
  forall l', In l' (stem_prefixes l) -> l' <> l -> cleared s l'.

Lemma cleared_add_lru : forall flag l s l', cleared s l' -> cleared (fst (add_lru flag l s)) l'.
Proof. intros flag l s l' (d & Hd & Hn). eapply add_lru_nochild_false; eassumption. Qed.

Lemma anc_cleared_add_lru : forall flag l s p, anc_cleared s p -> anc_cleared (fst (add_lru flag l s)) p.
Proof. intros flag l s p H l' Hin Hne. apply cleared_add_lru. apply H; assumption. Qed.

Lemma anc_cleared_new : forall l s, wf_lru l -> anc_cleared (fst (add_lru true l s)) l.
Proof.
  intros l s Hl l' Hin Hne.
  destruct (nodeof (fst (add_lru true l s)) l') as [d'|] eqn:E.
  - exists d'. split; [exact E|]. eapply add_lru_true_ancestors; eassumption.
  - exfalso. apply (add_lru_prefix true l s l' Hin). exact E.
Qed.

Lemma anc_cleared_use : forall s l, anc_cleared s l ->
  forall l' d', In l' (stem_prefixes l) -> l' <> l -> nodeof s l' = Some d' -> nochild d' = false.
Proof.
  intros s l H l' d' Hin Hne Hd'. destruct (H l' Hin Hne) as (d & Hd & Hn). congruence.
Qed.

Fixpoint count_true {A} (f : A -> bool) (l : list A) : nat :=
  match l with [] => O | x :: l' => if f x then S (count_true f l') else count_true f l' end.

Lemma upd_known_upd_known : forall f g a, upd_known g (upd_known f a) = upd_known (fun k => g (f k)) a.
Proof. reflexivity. Qed.

(* the `we` field at l in any state related to an abstract state with the same a_pref *)
Lemma we_zero_amem : forall s a l d, Rcore s a -> wf_lru l -> nodeof s l = Some d ->
  (we d =? 0) = negb (amem l (a_pref a)).
Proof.
  intros s a l d HR Hl Hd. destruct (N.eqb_spec (we d) 0) as [E|E].
  - symmetry. apply negb_true_iff. destruct (amem l (a_pref a)) eqn:Em; [|reflexivity].
    apply (aget_pref_nodeof s a l HR Hl) in Em. destruct Em as (d2 & Hd2 & Hne). congruence.
  - symmetry. apply negb_false_iff. apply (aget_pref_nodeof s a l HR Hl). exists d. auto.
Qed.

Lemma walk_prefixes_spec : forall ps s a ninv valid, Forall wf_lru ps -> Rcore s a ->
  let r := walk_prefixes ps s ninv valid in
  Rcore (fst (fst r)) (upd_known (fun k => fold_left (fun k p => know p k) ps k) a) /\
  snd (fst r) = (ninv + count_true (fun p => amem p (a_pref a)) ps)%nat /\
  snd r = dedup_bytes (filter (fun p => negb (amem p (a_pref a))) ps) valid /\
  (forall p, In p ps -> anc_cleared (fst (fst r)) p) /\
  (forall q, anc_cleared s q -> anc_cleared (fst (fst r)) q) /\
  (forall q, nodeof s q <> None -> nodeof (fst (fst r)) q <> None) /\
  (forall p, In p ps -> nodeof (fst (fst r)) p <> None) /\
  lastwe (fst (fst r)) = lastwe s /\ stubs (fst (fst r)) = stubs s /\
  rules (fst (fst r)) = rules s /\ dflt (fst (fst r)) = dflt s.
Proof.
  induction ps as [|p ps IH]; intros s a ninv valid Hps HR.
  - cbn [walk_prefixes fold_left count_true filter dedup_bytes fst snd].
    split; [destruct a; exact HR|]. split; [lia|]. split; [reflexivity|].
    split; [intros p []|]. repeat (split; auto).
  - inversion Hps as [|? ? Hp Hps']; subst.
    cbn [walk_prefixes].
    pose proof (add_lru_Rcore true p s a Hp HR) as HR1.
    pose proof (add_lru_self true p s Hp) as Hself.
    pose proof (anc_cleared_new p s Hp) as Hnew.
    pose proof (add_lru_fields true p s) as (F1 & F2 & F3 & F4).
    assert (Hmono : forall q, nodeof s q <> None -> nodeof (fst (add_lru true p s)) q <> None)
      by (intros q; apply add_lru_mono).
    assert (Hkeep : forall q, anc_cleared s q -> anc_cleared (fst (add_lru true p s)) q)
      by (intros q; apply anc_cleared_add_lru).
    destruct (add_lru true p s) as [s1 h1]. cbn [fst] in *.
    change (find (lru_iter p) (tr s1)) with (nodeof s1 p).
    destruct (nodeof s1 p) as [d|] eqn:Hd; [|congruence].
    rewrite (we_zero_amem s1 _ p d HR1 Hp Hd).
    change (a_pref (upd_known (know p) a)) with (a_pref a).
    cbn [fold_left count_true filter].
    destruct (amem p (a_pref a)) eqn:Em; cbn [negb].
    + specialize (IH s1 (upd_known (know p) a) (S ninv) valid Hps' HR1).
      cbv zeta in IH. change (a_pref (upd_known (know p) a)) with (a_pref a) in IH.
      destruct IH as (I1 & I2 & I3 & I4 & I5 & I6 & I7 & I8 & I9 & I10 & I11).
      split; [exact I1|]. split; [rewrite I2; lia|]. split; [exact I3|].
      split; [intros q [<-|Hq]; [apply I5; exact Hnew|apply I4; exact Hq]|].
      split; [intros q Hq; apply I5, Hkeep, Hq|].
      split; [intros q Hq; apply I6, Hmono, Hq|].
      split; [intros q [<-|Hq]; [apply I6; congruence|apply I7; exact Hq]|].
      repeat split; congruence.
    + specialize (IH s1 (upd_known (know p) a) ninv (if mem_bytes p valid then valid else valid ++ [p]) Hps' HR1).
      cbv zeta in IH. change (a_pref (upd_known (know p) a)) with (a_pref a) in IH.
      destruct IH as (I1 & I2 & I3 & I4 & I5 & I6 & I7 & I8 & I9 & I10 & I11).
      split; [exact I1|]. split; [exact I2|]. split; [exact I3|].
      split; [intros q [<-|Hq]; [apply I5; exact Hnew|apply I4; exact Hq]|].
      split; [intros q Hq; apply I5, Hkeep, Hq|].
      split; [intros q Hq; apply I6, Hmono, Hq|].
      split; [intros q [<-|Hq]; [apply I6; congruence|apply I7; exact Hq]|].
      repeat split; congruence.
Qed.

(* ---- small list facts ---------------------------------------------------- *)

Lemma In_dedup_bytes : forall l acc x, In x (dedup_bytes l acc) -> In x l \/ In x acc.
Proof.
  induction l as [|y l IH]; intros acc x H; cbn [dedup_bytes] in H; [auto|].
  apply IH in H. destruct H as [H|H]; [left; right; exact H|].
  destruct (mem_bytes y acc); [right; exact H|].
  apply in_app_or in H. destruct H as [H|[<-|[]]]; [right; exact H|left; left; reflexivity].
Qed.

Lemma dedup_bytes_nil : forall l acc, dedup_bytes l acc = [] -> l = [] /\ acc = [].
Proof.
  induction l as [|y l IH]; intros acc H; cbn [dedup_bytes] in H; [auto|].
  apply IH in H. destruct H as [_ H]. exfalso.
  destruct (mem_bytes y acc) eqn:E.
  - subst acc. discriminate.
  - apply app_eq_nil in H. destruct H. discriminate.
Qed.

Lemma count_true_length : forall (A : Type) (f : A -> bool) l,
  count_true f l = length l <-> filter (fun x => negb (f x)) l = [].
Proof.
  intros A f l.
  assert (Hle : forall l, (count_true f l <= length l)%nat).
  { induction l0 as [|x l0 IH]; cbn [count_true length]; [lia|]. destruct (f x); lia. }
  induction l as [|x l IH]; cbn [count_true length filter]; [tauto|].
  destruct (f x); cbn [negb].
  - rewrite <- IH. lia.
  - split; [|discriminate]. pose proof (Hle l). lia.
Qed.

Lemma count_true_zero : forall (A : Type) (f : A -> bool) l,
  count_true f l = 0%nat <-> existsb f l = false.
Proof.
  intros A f l. induction l as [|x l IH]; cbn [count_true existsb]; [tauto|].
  destruct (f x); cbn [orb]; [split; discriminate|exact IH].
Qed.

Lemma filter_negb_none : forall (A : Type) (f : A -> bool) l,
  existsb f l = false -> filter (fun x => negb (f x)) l = l.
Proof.
  intros A f l. induction l as [|x l IH]; cbn [existsb filter]; [reflexivity|].
  destruct (f x); cbn [orb negb]; [discriminate|]. intro H. rewrite IH by exact H. reflexivity.
Qed.

(* ---- assigning one id to a list of prefixes ------------------------------ *)

Lemma cleared_updl_we : forall w v s l', wf_lru v -> wf_lru l' ->
  cleared s l' -> cleared (updl (set_we w) v s) l'.
Proof.
  intros w v s l' Hv Hl' (d & Hd & Hn). unfold cleared.
  rewrite (nodeof_updl (set_we w) v l' s (fun _ => eq_refl) Hv Hl').
  destruct (beq_spec l' v) as [E|E].
  - subst. rewrite Hd. cbn [option_map]. eexists. split; [reflexivity|exact Hn].
  - exists d. auto.
Qed.

Lemma anc_cleared_updl_we : forall w v s q, wf_lru v ->
  anc_cleared s q -> anc_cleared (updl (set_we w) v s) q.
Proof.
  intros w v s q Hv H l' Hin Hne. apply cleared_updl_we; [exact Hv| |apply H; assumption].
  apply (stem_prefix_path q l' Hin).
Qed.

Lemma nodeof_updl_mono : forall f v s q, (forall d, stem (f d) = stem d) ->
  nodeof s q <> None -> nodeof (updl f v s) q <> None.
Proof.
  intros f v s q Hf H. unfold nodeof, updl. cbn [tr set_tree set_tr].
  apply find_upd_none; assumption.
Qed.

Definition settable (s : traph) (v : bytes) : Prop :=
  wf_lru v /\ nodeof s v <> None /\ anc_cleared s v.

Lemma set_we_all_Rcore : forall w valid s a, w <> 0 -> Rcore s a -> Forall (settable s) valid ->
  Rcore (set_tree (set_we_all w valid (tr s)) s)
        (upd_pref (fun m => fold_left (fun m v => aset v w m) valid m) a).
Proof.
  intros w valid. induction valid as [|v valid IH]; intros s a Hw HR Hv.
  - cbn [set_we_all fold_left]. destruct s, a. exact HR.
  - inversion Hv as [|? ? (Hwf & Hex & Hanc) Hv']; subst.
    destruct (nodeof s v) as [d|] eqn:Hd; [|congruence].
    pose proof (set_we_Rcore' s a v d w HR Hwf Hd Hw (anc_cleared_use s v Hanc)) as HR1.
    specialize (IH (updl (set_we w) v s) (upd_pref (aset v w) a) Hw HR1).
    apply IH. apply Forall_forall. intros q Hq. rewrite Forall_forall in Hv'.
    destruct (Hv' q Hq) as (Q1 & Q2 & Q3). split; [exact Q1|]. split.
    + apply nodeof_updl_mono; [intro; reflexivity|exact Q2].
    + apply anc_cleared_updl_we; assumption.
Qed.

Lemma add_prefixes_Rcore : forall ps best s a, Forall wf_lru ps -> Rcore s a ->
  let a1 := upd_known (fun k => fold_left (fun k p => know p k) ps k) a in
  let ninv := count_true (fun p => amem p (a_pref a)) ps in
  let valid := dedup_bytes (filter (fun p => negb (amem p (a_pref a))) ps) [] in
  let w := a_last a + 1 in
  match add_prefixes ps best s with
  | (s', ARefuse) => ninv <> 0%nat /\ best = false /\ Rcore s' a1
  | (s', ANothing) => (ninv = 0%nat \/ best = true) /\ ninv = length ps /\ Rcore s' a1
  | (s', ACreated w' valid') =>
      (ninv = 0%nat \/ best = true) /\ ninv <> length ps /\ w' = w /\ valid' = valid /\
      Rcore s' (mkA (a_pages a1) (a_known a1) (fold_left (fun m v => aset v w m) valid (a_pref a1))
                    (a_links a1) w (a_flags a1) (a_rules a1) (a_dflt a1))
  end.
Proof.
  intros ps best s a Hps HR. cbv zeta. unfold add_prefixes.
  pose proof (walk_prefixes_spec ps s a 0%nat [] Hps HR) as H. cbv zeta in H.
  destruct (walk_prefixes ps s 0 []) as [[s1 ninv] valid]. cbn [fst snd] in H.
  destruct H as (HR1 & Hn & Hv & Hanc & _ & _ & Hex & Hlast & _).
  rewrite Nat.add_0_l in Hn. subst ninv valid.
  set (ninv := count_true (fun p => amem p (a_pref a)) ps) in *.
  destruct (Nat.eqb_spec ninv 0) as [E0|E0]; cbn [negb andb].
  - destruct (Nat.eqb_spec ninv (length ps)) as [E1|E1].
    + split; [left; exact E0|]. split; [exact E1|exact HR1].
    + split; [left; exact E0|]. split; [exact E1|].
      rewrite Hlast, (R_last s a HR). split; [reflexivity|]. split; [reflexivity|].
      set (w := a_last a + 1).
      pose proof (Rcore_set_last s1 _ w HR1) as HR2.
      refine (set_we_all_Rcore w _ _ _ _ HR2 _); [unfold w; lia|].
      apply Forall_forall. intros v Hin. apply In_dedup_bytes in Hin. destruct Hin as [Hin|[]].
      apply filter_In in Hin. destruct Hin as [Hin _].
      rewrite Forall_forall in Hps. split; [apply Hps; exact Hin|].
      split; [apply (Hex v Hin)|apply (Hanc v Hin)].
  - destruct best; cbn [negb].
    + destruct (Nat.eqb_spec ninv (length ps)) as [E1|E1].
      * split; [right; reflexivity|]. split; [exact E1|exact HR1].
      * split; [right; reflexivity|]. split; [exact E1|].
        rewrite Hlast, (R_last s a HR). split; [reflexivity|]. split; [reflexivity|].
        set (w := a_last a + 1).
        pose proof (Rcore_set_last s1 _ w HR1) as HR2.
        refine (set_we_all_Rcore w _ _ _ _ HR2 _); [unfold w; lia|].
        apply Forall_forall. intros v Hin. apply In_dedup_bytes in Hin. destruct Hin as [Hin|[]].
        apply filter_In in Hin. destruct Hin as [Hin _].
        rewrite Forall_forall in Hps. split; [apply Hps; exact Hin|].
        split; [apply (Hex v Hin)|apply (Hanc v Hin)].
    + split; [exact E0|]. split; [reflexivity|exact HR1].
Qed.

(* ---- __create_webentity(prefix, expand=True) ------------------------------ *)

Theorem create_from_Rcore : forall x s a, wf_lru x -> Rcore s a ->
  Rcore (fst (create_from x s)) (fst (acreate x a)) /\ snd (create_from x s) = snd (acreate x a).
Proof.
  intros x s a Hx HR. unfold create_from, acreate.
  pose proof (add_prefixes_Rcore (lru_variations x) true s a (lru_variations_wf x Hx) HR) as H.
  cbv zeta in H.
  change (a_pref (upd_known (fun k0 => fold_left (fun k v => know v k) (lru_variations x) k0) a))
    with (a_pref a).
  change (a_last (upd_known (fun k0 => fold_left (fun k v => know v k) (lru_variations x) k0) a))
    with (a_last a).
  set (valid := dedup_bytes (filter (fun p => negb (amem p (a_pref a))) (lru_variations x)) []) in *.
  destruct (add_prefixes (lru_variations x) true s) as [s1 [| |w' valid']].
  - destruct H as (_ & Hb & _). discriminate.
  - destruct H as (_ & Hn & HR1). apply count_true_length in Hn.
    assert (Hv : valid = []) by (unfold valid; rewrite Hn; reflexivity).
    rewrite Hv. cbn [fst snd]. split; [exact HR1|reflexivity].
  - destruct H as (_ & Hn & -> & -> & HR1).
    destruct valid as [|v0 vr] eqn:Ev.
    + exfalso. apply Hn. apply count_true_length.
      apply dedup_bytes_nil in Ev. apply Ev.
    + cbn [fst snd]. split; [exact HR1|reflexivity].
Qed.

(* ====================================================================== *)
(* 2. Traph.__add_page                                                    *)
(* ====================================================================== *)

Theorem add_page_int_Rcore : forall l cr s a, wf_lru l -> Rcore s a ->
  Rcore (fst (fst (add_page_int l cr s))) (fst (fst (s_add_page l cr a))) /\
  snd (fst (add_page_int l cr s)) = snd (fst (s_add_page l cr a)) /\
  snd (add_page_int l cr s) = snd (s_add_page l cr a).
Proof.
  intros l cr s a Hl HR. unfold add_page_int, s_add_page.
  pose proof (trie_add_page_Rcore l cr s a Hl HR) as (HR1 & Hh & Hc).
  destruct (trie_add_page l cr s) as [[s1 h] created]. cbn [fst snd] in HR1, Hh, Hc. subst h created.
  unfold pages_after in HR1.
  set (a1 := mkA (match aget l (a_pages a) with
                  | Some c => aset l (c || cr) (a_pages a)
                  | None => a_pages a ++ [(l, cr)]
                  end) (know l (a_known a)) (a_pref a) (a_links a) (a_last a)
                 (a_flags a) (a_rules a) (a_dflt a)) in *.
  assert (Hd : decide s1 l (ahist a l) = adecide a1 l).
  { unfold adecide. change (ahist a1 l) with (ahist a l). apply decide_ext.
    - apply (R_rules s1 a1 HR1).
    - apply (R_dflt s1 a1 HR1). }
  rewrite Hd. destruct (adecide a1 l) as [|x|] eqn:Ed.
  - cbn [fst snd]. auto.
  - assert (Hx : wf_lru x).
    { unfold adecide in Ed. eapply decide_cand_wf. exact Ed. }
    pose proof (create_from_Rcore x s1 a1 Hx HR1) as (HR2 & Hc2).
    destruct (create_from x s1) as [s2 c]. destruct (acreate x a1) as [a2 c'].
    cbn [fst snd] in *. auto.
  - cbn [fst snd]. auto.
Qed.

(* the same, in the pattern form *)
Corollary add_page_int_Rcore' : forall l cr s a, wf_lru l -> Rcore s a ->
  let '(s', n, c) := add_page_int l cr s in
  let '(a', n', c') := s_add_page l cr a in
  Rcore s' a' /\ n = n' /\ c = c'.
Proof.
  intros l cr s a Hl HR. pose proof (add_page_int_Rcore l cr s a Hl HR) as H.
  destruct (add_page_int l cr s) as [[s' n] c]. destruct (s_add_page l cr a) as [[a' n'] c'].
  exact H.
Qed.

Theorem add_page_Rcore : forall l cr s a, wf_lru l -> Rcore s a ->
  Rcore (fst (add_page l cr s)) (fst (rep3 (s_add_page l cr a))) /\
  snd (add_page l cr s) = snd (rep3 (s_add_page l cr a)).
Proof.
  intros l cr s a Hl HR. unfold add_page, rep3.
  pose proof (add_page_int_Rcore l cr s a Hl HR) as H.
  destruct (add_page_int l cr s) as [[s' n] c]. destruct (s_add_page l cr a) as [[a' n'] c'].
  cbn [fst snd] in *. destruct H as (H1 & -> & ->). auto.
Qed.
