(* TraceDefs.v — the two files as lists of abstract blocks, replay of a write list,
   cuts, and the safety predicates of C18.  Definitions only. *)
From Coq Require Import List NArith Bool.
From Traph Require Import Bytes Consts Helpers Rules Tst TstDefs Traph Traphw Ops RefDefs.
Import ListNotations.
Open Scope N_scope.

Record files := mkFiles {
  ft : list tblock;        (* data blocks of lru_trie.dat: index i lives at offset (i+1) * bsz *)
  fhdr : N;                (* header: last webentity id *)
  fl : list (N * N)        (* data blocks of link_store.dat: index i lives at offset (i+1) * ssz *)
}.

Definition files_of (s : traph) : files :=
  mkFiles (map snd (flatten (tr s))) (lastwe s) (stubs s).

Fixpoint set_nth {A} (n : nat) (x : A) (l : list A) : list A :=
  match l, n with
  | [], _ => []
  | _ :: l', O => x :: l'
  | y :: l', S n' => y :: set_nth n' x l'
  end.

(* index of the data block at byte offset a *)
Definition tidx (a : N) : nat := N.to_nat (a / bsz) - 1.

Definition apply (w : wr) (f : files) : files :=
  match w with
  | TApp b => mkFiles (ft f ++ [b]) (fhdr f) (fl f)
  | TSet a b => mkFiles (set_nth (tidx a) b (ft f)) (fhdr f) (fl f)
  | THdr n => mkFiles (ft f) n (fl f)
  | LApp s => mkFiles (ft f) (fhdr f) (fl f ++ [s])
  | LHdr => f
  end.
Definition apply_all (ws : list wr) (f : files) : files := fold_left (fun f w => apply w f) ws f.

(* the writes of one request *)
Definition step_w (s : traph) (o : op) : list wr :=
  match o with
  | OAddPage l cr => add_page_int_w l cr s
  | OAddPages ls cr => add_pages_w ls cr s
  | OAddLinks links => add_links_w links s
  | OBatch data => batch_crawl_w data s
  | OCreate ps => create_webentity_w ps s
  | ODelete w ps => delete_webentity_w w ps s
  | OAddPrefix p w => add_prefix_w p w s
  | ORemovePrefix p w => remove_prefix_w p w s
  | OMovePrefix p wt ws => move_prefix_w p wt ws s
  | OAddRule p k => add_rule_w p k s
  | ORemoveRule p => remove_rule_w p s
  | OReopen _ _ => []
  | OClear od ors => clear_w od ors s
  end.

(* ---- safety of a pair of files ---------------------------------------------------- *)
(* a trie pointer: null, or the offset of an existing data block *)
Definition tptr_ok (n : nat) (a : N) : Prop :=
  a = 0 \/ exists i, (i < n)%nat /\ a = N.of_nat (S i) * bsz.
(* a link-store pointer: null, or the offset of an existing stub *)
Definition lptr_ok (n : nat) (a : N) : Prop :=
  a = 0 \/ exists j, (j < n)%nat /\ a = ssz * N.of_nat (S j).

Definition block_ok (nt nl : nat) (b : tblock) : Prop :=
  tptr_ok nt (b_left b) /\ tptr_ok nt (b_right b) /\ tptr_ok nt (b_child b) /\ tptr_ok nt (b_parent b) /\
  lptr_ok nl (b_out b) /\ lptr_ok nl (b_in b).

(* no pointer of either file leaves the files; previous pointers go backwards *)
Definition no_dangling (f : files) : Prop :=
  (forall b, In b (ft f) -> block_ok (length (ft f)) (length (fl f)) b) /\
  (forall j tg pv, nth_error (fl f) j = Some (tg, pv) ->
      (exists i, (i < length (ft f))%nat /\ tg = N.of_nat (S i) * bsz) /\ lptr_ok j pv).

(* pointwise order between a cut and the completed files: same stems, page/crawled bits
   only added, tree pointers only filled in (write-once), list heads only move forward,
   stubs a prefix *)
Definition ptr_below (x y : N) : Prop := x = 0 \/ x = y.
Definition head_below (x y : N) : Prop := x <= y.
Definition bit_below (x y : N) (pos : N) : Prop := N.testbit x pos = true -> N.testbit y pos = true.
Definition block_below (b c : tblock) : Prop :=
  b_stem b = b_stem c /\
  bit_below (b_flags b) (b_flags c) flag_page /\ bit_below (b_flags b) (b_flags c) flag_crawled /\
  N.testbit (b_flags b) flag_has_tail = N.testbit (b_flags c) flag_has_tail /\
  N.testbit (b_flags b) flag_is_tail = N.testbit (b_flags c) flag_is_tail /\
  ptr_below (b_left b) (b_left c) /\ ptr_below (b_right b) (b_right c) /\ ptr_below (b_child b) (b_child c) /\
  b_parent b = b_parent c /\ head_below (b_out b) (b_out c) /\ head_below (b_in b) (b_in c).
Definition files_below (f g : files) : Prop :=
  (length (ft f) <= length (ft g))%nat /\
  (forall i b c, nth_error (ft f) i = Some b -> nth_error (ft g) i = Some c -> block_below b c) /\
  (exists more, fl g = fl f ++ more).

(* the state invariant behind C18 *)
Definition tiled (t : tst) (n : N) : Prop :=
  map fst (flatten t) = map (fun i => N.of_nat i * bsz) (seq 1 (N.to_nat n - 1)).
Definition pars_ok (t : tst) : Prop :=
  forall p s d, find (p ++ [s]) t = Some d ->
    match p with
    | [] => par d = 0
    | _ => exists dp, find p t = Some dp /\ par d = addr dp
    end.
Record Inv18 (s : traph) : Prop := mkInv18 {
  I_wf : wf_tst (tr s);
  I_tiled : tiled (tr s) (nb s);
  I_nb : 1 <= nb s;
  I_addr : addr_ok (tr s) (nb s);
  I_pars : pars_ok (tr s);
  I_stubs : stubs_ok (stubs s);
  I_heads : forall p d, find p (tr s) = Some d ->
      head_ok (length (stubs s)) (outh d) /\ head_ok (length (stubs s)) (inh d);
  I_targets : forall i tg pv, nth_error (stubs s) i = Some (tg, pv) ->
      exists p d, find p (tr s) = Some d /\ addr d = tg
}.
