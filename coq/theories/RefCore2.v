(* RefCore2.v — the model refines the specification on Rcore.
   Part 2: the explicit webentity edits (create, delete, add/remove/move prefix). *)
From Coq Require Import List NArith Bool Lia Arith.
Import ListNotations.
From Traph Require Import Bytes Consts Helpers Rules Tst TstDefs Traph Spec Ops RefDefs TstFacts
  ViewFacts ViewFacts2 RefCore.
Open Scope N_scope.

(* ====================================================================== *)
(* create_webentity                                                       *)
(* ====================================================================== *)

Theorem create_webentity_Rcore : forall ps s a, Forall wf_lru ps -> Rcore s a ->
  Rcore (fst (create_webentity ps s)) (fst (s_create ps a)) /\
  snd (create_webentity ps s) = snd (s_create ps a).
Proof.
  intros ps s a Hps HR. unfold create_webentity, s_create.
  pose proof (add_prefixes_Rcore ps false s a Hps HR) as H. cbv zeta in H.
  change (a_last (upd_known (fun k0 => fold_left (fun k p => know p k) ps k0) a)) with (a_last a).
  destruct (add_prefixes ps false s) as [s1 [| |w' valid']].
  - destruct H as (Hn & _ & HR1).
    destruct (existsb (fun p => amem p (a_pref a)) ps) eqn:E.
    + cbn [fst snd]. auto.
    + exfalso. apply Hn. apply count_true_zero. exact E.
  - destruct H as ([Hn0|Hb] & Hn & HR1); [|discriminate].
    assert (E : existsb (fun p => amem p (a_pref a)) ps = false) by (apply count_true_zero; exact Hn0).
    rewrite E. rewrite Hn0 in Hn. destruct ps; [|discriminate]. cbn [fst snd]. auto.
  - destruct H as ([Hn0|Hb] & Hn & -> & -> & HR1); [|discriminate].
    assert (E : existsb (fun p => amem p (a_pref a)) ps = false) by (apply count_true_zero; exact Hn0).
    rewrite E. rewrite (filter_negb_none _ _ _ E) in HR1 |- *.
    destruct ps as [|p0 ps']; [exfalso; apply Hn; rewrite Hn0; reflexivity|].
    cbn [fst snd]. auto.
Qed.

(* ====================================================================== *)
(* delete_webentity                                                       *)
(* ====================================================================== *)

Lemma forallb_ext_Forall : forall (A : Type) (P : A -> Prop) (f g : A -> bool) l,
  Forall P l -> (forall x, P x -> f x = g x) -> forallb f l = forallb g l.
Proof.
  intros A P f g l H E. induction H as [|x l Hx H IH]; [reflexivity|].
  cbn [forallb]. rewrite (E x Hx), IH. reflexivity.
Qed.

Lemma del_cond_eq : forall s a w p, Rcore s a -> wf_lru p ->
  match find (lru_iter p) (tr s) with
  | Some d => negb (we d =? 0) && (we d =? w)
  | None => false
  end =
  mem_bytes p (a_known a) && match aget p (a_pref a) with Some w' => w' =? w | None => false end.
Proof.
  intros s a w p HR Hp. change (find (lru_iter p) (tr s)) with (nodeof s p).
  pose proof (mem_known_nodeof s a p HR Hp) as BK.
  destruct (nodeof s p) as [d|] eqn:Hd.
  - assert (Hk : mem_bytes p (a_known a) = true) by (apply BK; discriminate).
    rewrite Hk. cbn [andb]. destruct (N.eqb_spec (we d) 0) as [E|E]; cbn [negb andb].
    + assert (Hag : aget p (a_pref a) = None).
      { apply (aget_pref_none s a p HR Hp). intros d2 Hd2. congruence. }
      rewrite Hag. reflexivity.
    + assert (Hag : aget p (a_pref a) = Some (we d)).
      { apply (aget_pref_iff s a p (we d) HR Hp). exists d. auto. }
      rewrite Hag. reflexivity.
  - destruct (mem_bytes p (a_known a)); [|reflexivity].
    exfalso. destruct BK as [BK _]. apply BK; reflexivity.
Qed.

Lemma unset_we_all_Rcore : forall L s a, Rcore s a ->
  Forall (fun v => wf_lru v /\ nodeof s v <> None) L ->
  Rcore (set_tree (fold_left (fun t p => upd (set_we 0) (lru_iter p) t) L (tr s)) s)
        (upd_pref (fun m => fold_left (fun m p => adel p m) L m) a).
Proof.
  induction L as [|v L IH]; intros s a HR HL.
  - cbn [fold_left]. destruct s, a. exact HR.
  - inversion HL as [|? ? (Hv & Hex) HL']; subst.
    destruct (nodeof s v) as [d|] eqn:Hd; [|congruence].
    pose proof (unset_we_Rcore s a v d HR Hv Hd) as HR1.
    apply (IH (updl (set_we 0) v s) (upd_pref (adel v) a) HR1).
    apply Forall_forall. intros q Hq. rewrite Forall_forall in HL'.
    destruct (HL' q Hq) as (Q1 & Q2). split; [exact Q1|].
    apply nodeof_updl_mono; [intro; reflexivity|exact Q2].
Qed.

Section AdelFacts.
  Context {A : Type}.
  Implicit Types (m : list (bytes * A)).

  Lemma adel_absent : forall m k, ~ In k (map fst m) -> adel k m = m.
  Proof.
    induction m as [|[k1 v1] m IH]; intros k H; [reflexivity|].
    cbn [adel]. cbn [map fst In] in H. destruct (beq_spec k k1) as [E|E].
    - exfalso. apply H. left. congruence.
    - f_equal. apply IH. tauto.
  Qed.

  Lemma adel_removes : forall m k, NoDup (map fst m) -> ~ In k (map fst (adel k m)).
  Proof.
    intros m k Hnd H. apply in_map_iff in H. destruct H as ([k' v] & E & Hin).
    cbn [fst] in E. subst k'. apply (In_adel _ _ _ _ Hnd) in Hin. destruct Hin as [Hne _]. congruence.
  Qed.

  Lemma fold_adel_keys_weak : forall L m k,
    In k (map fst (fold_left (fun m p => adel p m) L m)) -> In k (map fst m).
  Proof.
    induction L as [|y L IH]; intros m k H; [exact H|].
    cbn [fold_left] in H. apply IH in H. eapply In_fst_adel_weak. exact H.
  Qed.

  Lemma fold_adel_nodup : forall L m, NoDup (map fst m) ->
    NoDup (map fst (fold_left (fun m p => adel p m) L m)).
  Proof.
    induction L as [|y L IH]; intros m H; [exact H|].
    cbn [fold_left]. apply IH. apply NoDup_adel. exact H.
  Qed.

  Lemma fold_adel_removes : forall L m x, NoDup (map fst m) -> In x L ->
    ~ In x (map fst (fold_left (fun m p => adel p m) L m)).
  Proof.
    induction L as [|y L IH]; intros m x Hnd Hin; [destruct Hin|].
    cbn [fold_left]. destruct Hin as [<-|Hin].
    - intro H. apply fold_adel_keys_weak in H. revert H. apply adel_removes. exact Hnd.
    - apply IH; [apply NoDup_adel; exact Hnd|exact Hin].
  Qed.

  Lemma fold_adel_dedup : forall l acc m, NoDup (map fst m) ->
    fold_left (fun m p => adel p m) l (fold_left (fun m p => adel p m) acc m) =
    fold_left (fun m p => adel p m) (dedup_bytes l acc) m.
  Proof.
    induction l as [|x l IH]; intros acc m Hnd; [reflexivity|].
    cbn [fold_left dedup_bytes]. destruct (mem_bytes x acc) eqn:E.
    - rewrite adel_absent; [apply IH; exact Hnd|].
      apply fold_adel_removes; [exact Hnd|]. apply mem_bytes_In. exact E.
    - rewrite <- (IH (acc ++ [x]) m Hnd). rewrite fold_left_app. reflexivity.
  Qed.
End AdelFacts.

Theorem delete_webentity_Rcore : forall w ps s a, Forall wf_lru ps -> Rcore s a ->
  Rcore (fst (delete_webentity w ps s)) (fst (s_delete w ps a)) /\
  snd (delete_webentity w ps s) = snd (s_delete w ps a).
Proof.
  intros w ps s a Hps HR. unfold delete_webentity, s_delete.
  rewrite (forallb_ext_Forall _ wf_lru _
             (fun p => mem_bytes p (a_known a) &&
                       match aget p (a_pref a) with Some w' => w' =? w | None => false end) ps Hps)
    by (intros p Hp; apply del_cond_eq; assumption).
  destruct (forallb _ ps) eqn:Ec; cbn [fst snd]; [|auto].
  split; [|reflexivity].
  assert (Hall : forall p, In p ps -> wf_lru p /\ nodeof s p <> None).
  { intros p Hin. rewrite Forall_forall in Hps. split; [apply Hps; exact Hin|].
    rewrite forallb_forall in Ec. specialize (Ec p Hin). apply andb_prop in Ec. destruct Ec as [Ek _].
    apply (mem_known_nodeof s a p HR); [apply Hps; exact Hin|exact Ek]. }
  pose proof (unset_we_all_Rcore (dedup_bytes ps []) s a HR) as H.
  unfold upd_pref in *.
  rewrite <- (fold_adel_dedup ps [] (a_pref a) (R_pref_nodup s a HR)) in H. cbn [fold_left] in H.
  apply H. apply Forall_forall. intros v Hv. apply In_dedup_bytes in Hv. destruct Hv as [Hv|[]].
  apply Hall. exact Hv.
Qed.

(* ====================================================================== *)
(* add_prefix / remove_prefix / move_prefix                               *)
(* ====================================================================== *)

Theorem add_prefix_Rcore : forall p w s a, wf_lru p -> w <> 0 -> Rcore s a ->
  Rcore (fst (add_prefix p w s)) (fst (s_add_prefix p w a)) /\
  snd (add_prefix p w s) = snd (s_add_prefix p w a).
Proof.
  intros p w s a Hp Hw HR. unfold add_prefix, s_add_prefix.
  pose proof (add_lru_Rcore true p s a Hp HR) as HR1.
  pose proof (add_lru_self true p s Hp) as Hself.
  pose proof (anc_cleared_new p s Hp) as Hnew.
  destruct (add_lru true p s) as [s1 h1]. cbn [fst] in *.
  change (find (lru_iter p) (tr s1)) with (nodeof s1 p).
  destruct (nodeof s1 p) as [d|] eqn:Hd; [|congruence].
  rewrite (we_zero_amem s1 _ p d HR1 Hp Hd).
  change (a_pref (upd_known (know p) a)) with (a_pref a).
  destruct (amem p (a_pref a)); cbn [negb fst snd]; [auto|].
  split; [|reflexivity].
  apply (set_we_Rcore' s1 _ p d w HR1 Hp Hd Hw). apply anc_cleared_use. exact Hnew.
Qed.

Theorem remove_prefix_Rcore : forall p w s a, wf_lru p -> Rcore s a ->
  Rcore (fst (remove_prefix p w s)) (fst (s_remove_prefix p w a)) /\
  snd (remove_prefix p w s) = snd (s_remove_prefix p w a).
Proof.
  intros p w s a Hp HR. unfold remove_prefix, s_remove_prefix.
  pose proof (add_lru_Rcore false p s a Hp HR) as HR1.
  pose proof (add_lru_self false p s Hp) as Hself.
  destruct (add_lru false p s) as [s1 h1]. cbn [fst] in *.
  change (find (lru_iter p) (tr s1)) with (nodeof s1 p).
  destruct (nodeof s1 p) as [d|] eqn:Hd; [|congruence].
  assert (Hc : negb (we d =? 0) && (we d =? w) =
               match aget p (a_pref a) with Some w' => w' =? w | None => false end).
  { change (a_pref a) with (a_pref (upd_known (know p) a)).
    destruct (N.eqb_spec (we d) 0) as [E|E]; cbn [negb andb].
    - assert (Hag : aget p (a_pref (upd_known (know p) a)) = None).
      { apply (aget_pref_none s1 _ p HR1 Hp). intros d2 Hd2. congruence. }
      rewrite Hag. reflexivity.
    - assert (Hag : aget p (a_pref (upd_known (know p) a)) = Some (we d)).
      { apply (aget_pref_iff s1 _ p (we d) HR1 Hp). exists d. auto. }
      rewrite Hag. reflexivity. }
  rewrite Hc.
  destruct ((w =? 0) || match aget p (a_pref a) with Some w' => w' =? w | None => false end);
    cbn [fst snd]; [|auto].
  split; [|reflexivity]. apply (unset_we_Rcore s1 _ p d HR1 Hp Hd).
Qed.

Theorem move_prefix_Rcore : forall p wt ws s a, wf_lru p -> wt <> 0 -> Rcore s a ->
  Rcore (fst (move_prefix p wt ws s)) (fst (s_move_prefix p wt ws a)) /\
  snd (move_prefix p wt ws s) = snd (s_move_prefix p wt ws a).
Proof.
  intros p wt ws s a Hp Hw HR. unfold move_prefix, s_move_prefix.
  pose proof (remove_prefix_Rcore p ws s a Hp HR) as (HR1 & Hr).
  destruct (remove_prefix p ws s) as [s1 r]. destruct (s_remove_prefix p ws a) as [a1 r'].
  cbn [fst snd] in *. subst r'.
  destruct r; cbn [fst snd]; auto.
  apply add_prefix_Rcore; assumption.
Qed.
