(* GenTraphBFacts1.v — the indexation of a crawl batch translated from the source (GenTraphB.v, generated on every run from
   /repo/traph/traph.py: Traph.index_batch_crawl_iter run to its end) does on the bytes of both files, on the RAM header and in its
   report exactly what the model's Traph.batch_crawl does.  Part 1: the pieces.
   PLAN
     GenTraphBFacts1 (this file)
       1. `kept`: what every step of the batch keeps of a node (existence, block address, crawled mark); add_page_int,
          upd set_crawled and store_links are such steps
       2. the node object returned by __add_page is the node of the page (py_traph_add_page_int_node: the theorem of
          GenTraphPFacts with the node described; the final node.refresh() re-reads the page's own block)
       3. one node: refresh, flag_as_crawled, write = upd set_crawled (set_crawled_in_place)
       4. one page: refresh, LinkStore.add_links = store_links (store_links_code)
       5. the dict of recorded node objects against the model's `seen` list (dict_ok); py_mm_add = mm_add
     GenTraphBFacts
       6. the generated definition in named pieces; the target loop, the source part, the outer loop, the flush loop
       7. py_traph_index_batch_crawl_spec; example by vm_compute *)
From Coq Require Import List NArith Bool Lia Arith.
Import ListNotations.
From Traph Require Import Bytes Consts Layout Helpers Rules Tst TstDefs Traph Spec Ops RefDefs Traphw TraceDefs Codec CodecFacts
  TstFacts Store StoreFacts StoreFacts2 RefFull LinkFacts GenStorage GenNode GenNodeFacts GenLinks GenLinksFacts GenTrie GenTrieFacts
  GenTrieW GenTrieWDefs GenTraphW GenTraphWDefs GenTraphP GenTraphPDefs GenTraphPFacts GenTraphK GenTraphB.
From Traph Require Import TraceFacts TraceFacts2 TraceFacts3 TraceFacts4 TraceFacts5 LinkFacts2 LinkFacts3 GenTrieWAdd1 GenTrieWAdd2 GenTrieWAdd
  GenTrieWPage GenTrieWAll GenTrieWFrame GenTraphWFacts1 GenTraphWFacts ViewFacts ViewFacts2 IdFacts GenTraphPFacts1.
Open Scope N_scope.

Arguments N.shiftr : simpl never.
Arguments N.shiftl : simpl never.
Arguments N.modulo : simpl never.
Arguments N.div : simpl never.
Arguments N.land : simpl never.
Arguments N.lor : simpl never.
Arguments N.ldiff : simpl never.
Arguments N.mul : simpl never.
Arguments N.add : simpl never.
Arguments N.sub : simpl never.
Arguments N.ltb : simpl never.
Arguments N.eqb : simpl never.
Arguments N.leb : simpl never.
Arguments N.pow : simpl never.

(* ====================================================================================== *)
(* 1. what every step keeps of a node                                                     *)
(* ====================================================================================== *)
Definition kept (s s' : traph) : Prop :=
  forall p d, find p (tr s) = Some d ->
    exists d', find p (tr s') = Some d' /\ addr d' = addr d /\ (crawled d = true -> crawled d' = true).

Lemma kept_refl : forall s, kept s s.
Proof. intros s p d H. exists d. auto. Qed.

Lemma kept_trans : forall s1 s2 s3, kept s1 s2 -> kept s2 s3 -> kept s1 s3.
Proof.
  intros s1 s2 s3 H1 H2 p d Hd. destruct (H1 p d Hd) as (d2 & Hd2 & Ha2 & Hc2).
  destruct (H2 p d2 Hd2) as (d3 & Hd3 & Ha3 & Hc3). exists d3. split; [exact Hd3|]. split; [congruence|auto].
Qed.

Lemma kept_tr : forall s s1 s2, tr s2 = tr s1 -> kept s s1 -> kept s s2.
Proof. intros s s1 s2 E H p d Hd. rewrite E. exact (H p d Hd). Qed.

Lemma add_lru_kept : forall flag l s, kept s (fst (add_lru flag l s)).
Proof.
  intros flag l s p d Hd. rewrite add_lru_tr.
  destruct (find_ins_fwd flag (lru_iter l) [] 0 (nb s) hist0 (tr s) p d Hd) as (d' & Hd' & Hs).
  apply same_data_proj in Hs. destruct Hs as (_ & Hc & _ & _ & _ & _ & _ & Ha & _).
  exists d'. split; [exact Hd'|]. split; [exact Ha|congruence].
Qed.

Definition keeps_mark (f : nd -> nd) : Prop :=
  forall d, stem (f d) = stem d /\ addr (f d) = addr d /\ (crawled d = true -> crawled (f d) = true).

Lemma upd_kept : forall f q s s', keeps_mark f -> tr s' = upd f q (tr s) -> kept s s'.
Proof.
  intros f q s s' Hf E p d Hd. rewrite E.
  destruct (find_upd_keeps f q (tr s) p d (fun d0 => proj1 (Hf d0)) Hd) as [H|(_ & H)].
  - exists d. auto.
  - exists (f d). split; [exact H|]. split; apply Hf.
Qed.

Lemma km_set_crawled : keeps_mark set_crawled.
Proof. intro d. repeat split; auto. Qed.
Lemma km_page_crawled : forall cr : bool, keeps_mark (fun d => if cr then set_crawled (set_page d) else set_page d).
Proof. intros [|] d; repeat split; auto. Qed.
Lemma km_set_we : forall w, keeps_mark (set_we w).
Proof. intros w d. repeat split; auto. Qed.
Lemma km_set_head : forall out h, keeps_mark (set_head out h).
Proof. intros [|] h d; repeat split; auto. Qed.

Lemma tap_kept : forall lru cr s, kept s (tap_state lru cr s).
Proof.
  intros lru cr s. unfold tap_state. destruct (find (lru_iter lru) (tr s)) as [d|]; [|apply kept_refl].
  destruct (page d); [destruct (cr && negb (crawled d)); [|apply kept_refl]|].
  - eapply upd_kept; [apply km_set_crawled|reflexivity].
  - eapply upd_kept; [apply (km_page_crawled cr)|reflexivity].
Qed.

Lemma trie_add_page_kept : forall lru cr s, kept s (fst (fst (trie_add_page lru cr s))).
Proof.
  intros. rewrite trie_add_page_state. eapply kept_trans; [apply (add_lru_kept false lru)|apply tap_kept].
Qed.

Lemma walked_kept : forall ps s, kept s (walked ps s).
Proof.
  induction ps as [|p ps IH]; intro s; [apply kept_refl|].
  cbn [walked fold_left]. fold (walked ps (fst (add_lru true p s))).
  eapply kept_trans; [apply (add_lru_kept true p)|apply IH].
Qed.

Lemma set_we_all_kept : forall w ps s s', tr s' = set_we_all w ps (tr s) -> kept s s'.
Proof.
  intros w ps. induction ps as [|p ps IH]; intros s s' E.
  - cbn in E. eapply kept_tr; [exact E|apply kept_refl].
  - unfold set_we_all in E. cbn [fold_left] in E. fold (set_we_all w ps) in E.
    eapply kept_trans; [apply (upd_kept (set_we w) (lru_iter p) s (set_tree (upd (set_we w) (lru_iter p) (tr s)) s));
                        [apply km_set_we|reflexivity]|].
    apply IH. exact E.
Qed.

Lemma add_prefixes_kept : forall ps best s, kept s (fst (add_prefixes ps best s)).
Proof.
  intros ps best s. unfold add_prefixes.
  pose proof (walk_state ps s 0 []) as Ew. pose proof (walked_kept ps s) as Hw.
  destruct (walk_prefixes ps s 0 []) as [[s1 ninv] valid]. cbn [fst] in Ew. subst s1.
  destruct (negb (Nat.eqb ninv 0) && negb best); [exact Hw|].
  destruct (Nat.eqb ninv (length ps)); [exact Hw|]. cbn [fst].
  eapply kept_trans; [exact Hw|]. eapply set_we_all_kept. reflexivity.
Qed.

Lemma create_from_kept : forall p s, kept s (fst (create_from p s)).
Proof. intros. rewrite create_from_state. apply add_prefixes_kept. Qed.

Lemma add_page_int_kept_trie : forall lru cr s,
  kept (fst (fst (trie_add_page lru cr s))) (fst (fst (add_page_int lru cr s))).
Proof.
  intros lru cr s. rewrite add_page_int_parts. cbv zeta.
  destruct (decide _ lru _) as [|p|]; cbn [fst]; try apply kept_refl. apply create_from_kept.
Qed.

Lemma add_page_int_kept : forall lru cr s, kept s (fst (fst (add_page_int lru cr s))).
Proof. intros. eapply kept_trans; [apply trie_add_page_kept|apply add_page_int_kept_trie]. Qed.

(* store_links, unfolded *)
Lemma store_links_unfold : forall out p ts s d, ts <> [] -> find p (tr s) = Some d ->
  let ps := push_stubs ts (head_dir out d) (stubs s) in
  store_links out p ts s = mkT (upd (set_head out (snd ps)) p (tr s)) (nb s) (lastwe s) (fst ps) (rules s) (dflt s).
Proof.
  intros out p ts s d Hne Hf. cbv zeta. destruct ts as [|t ts]; [congruence|].
  unfold store_links. rewrite Hf. unfold head_dir, set_head.
  destruct (push_stubs (t :: ts) (if out then outh d else inh d) (stubs s)) as [st' h']. cbn [fst snd].
  destruct out; reflexivity.
Qed.

Lemma store_links_kept : forall out p ts s, kept s (store_links out p ts s).
Proof.
  intros out p ts s. destruct ts as [|t ts]; [apply kept_refl|].
  destruct (find p (tr s)) as [d|] eqn:Ef.
  - rewrite (store_links_unfold out p (t :: ts) s d ltac:(discriminate) Ef).
    eapply upd_kept; [apply km_set_head|reflexivity].
  - unfold store_links. rewrite Ef. apply kept_refl.
Qed.

Lemma store_links_fields : forall out p ts s, let s' := store_links out p ts s in
  nb s' = nb s /\ lastwe s' = lastwe s /\ rules s' = rules s /\ dflt s' = dflt s.
Proof.
  intros out p ts s. cbv zeta. unfold store_links. destruct ts as [|t ts]; [auto|].
  destruct (find p (tr s)) as [d|]; [|auto].
  destruct (push_stubs (t :: ts) (if out then outh d else inh d) (stubs s)) as [st' h']. auto.
Qed.

(* the address of a known LRU does not move *)
Lemma kept_addr_of : forall s s' o d, kept s s' -> nodeof s o = Some d -> addr_of o s' = addr d.
Proof.
  intros s s' o d Hk Hd. unfold nodeof in Hd. destruct (Hk _ _ Hd) as (d' & Hd' & Ha & _).
  unfold addr_of. rewrite Hd'. exact Ha.
Qed.

Lemma addr_of_nodeof : forall s o d, nodeof s o = Some d -> addr_of o s = addr d.
Proof. intros s o d Hd. unfold nodeof in Hd. unfold addr_of. rewrite Hd. reflexivity. Qed.

(* ---- anchors_known and the RAM along the two extra kinds of step ---- *)
Lemma anchors_known_set_crawled : forall q s, anchors_known s -> anchors_known (set_tree (upd set_crawled q (tr s)) s).
Proof. intros q s H. apply anchors_known_upd; auto. Qed.

Lemma anchors_known_store_links : forall out p ts s, anchors_known s -> anchors_known (store_links out p ts s).
Proof.
  intros out p ts s H. destruct ts as [|t ts]; [exact H|].
  destruct (find p (tr s)) as [d|] eqn:Ef.
  - rewrite (store_links_unfold out p (t :: ts) s d ltac:(discriminate) Ef). cbv zeta.
    set (h' := snd (push_stubs (t :: ts) (head_dir out d) (stubs s))).
    eapply anchors_known_ext; [| |exact (anchors_known_upd (set_head out h') p s
                                           ltac:(intro d0; destruct out; reflexivity)
                                           ltac:(intro d0; destruct out; reflexivity) H)]; reflexivity.
  - unfold store_links. rewrite Ef. exact H.
Qed.

Lemma ramrep_ext : forall s s' rm, rules s' = rules s -> dflt s' = dflt s -> ramrep s rm -> ramrep s' rm.
Proof. intros s s' rm E1 E2 [H1 H2]. split; congruence. Qed.

Lemma add_page_int_stubs : forall l cr s, Inv18 s -> stubs (fst (fst (add_page_int l cr s))) = stubs s.
Proof. intros l cr s H. exact (step_stubs _ _ (add_page_int_step l cr s (Inv18_good s H))). Qed.

(* ====================================================================================== *)
(* 2. the node object returned by __add_page                                              *)
(* ====================================================================================== *)
Lemma same_sym : forall sg sg', same sg sg' -> same sg' sg.
Proof. intros sg sg' [H1 H2]. split; congruence. Qed.

Lemma finish_shape : forall hd sg n rp hd' sg' n' rp',
  finish hd sg n rp = Some (hd', sg', (n', rp')) -> py_node_refresh n sg = (n', sg').
Proof.
  intros hd sg n rp hd' sg' n' rp'. unfold finish. destruct (py_node_refresh n sg) as [n1 sg1].
  intro E. injection E as _ <- <- _. reflexivity.
Qed.

Lemma create_then_finish_shape : forall hd sg n rp p hd' sg' n' rp',
  create_then_finish hd sg n rp p = Some (hd', sg', (n', rp')) -> exists sgx, py_node_refresh n sgx = (n', sg').
Proof.
  intros hd sg n rp p hd' sg' n' rp'. unfold create_then_finish.
  destruct (py_traph_create_webentity_from hd sg p true true) as [[[hd1 sg1] r1]|]; [|discriminate].
  intro E. exists sg1. eapply finish_shape. exact E.
Qed.

Lemma after_rules_shape : forall rm hd sg lru n ph rp longest hd' sg' n' rp',
  after_rules rm hd sg lru n ph rp longest = Some (hd', sg', (n', rp')) -> exists sgx, py_node_refresh n sgx = (n', sg').
Proof.
  intros rm hd sg lru n ph rp longest hd' sg' n' rp'. unfold after_rules.
  destruct (match hs_webentity_position ph with Some v__p => N.of_nat (length longest) <=? v__p | None => false end).
  - intro E. exists sg. eapply finish_shape. exact E.
  - destruct (py_nonempty longest); [apply create_then_finish_shape|].
    destruct (py_traph_apply_webentity_default_creation_rule rm lru) as [[p|]|]; [| |discriminate].
    + destruct (py_nonempty p); [apply create_then_finish_shape|]. intro E. exists sg. eapply finish_shape. exact E.
    + intro E. exists sg. eapply finish_shape. exact E.
Qed.

Lemma add_page_int_shape : forall rm hd sg lru cr hd' sg' n' rp',
  py_traph_add_page_int rm hd sg lru cr = Some (hd', sg', (n', rp')) ->
  exists sg1 n ph sgx, py_trie_add_page sg lru cr = Some (sg1, (n, ph)) /\ py_node_refresh n sgx = (n', sg').
Proof.
  intros rm hd sg lru cr hd' sg' n' rp'. rewrite add_page_int_eq.
  destruct (py_trie_add_page sg lru cr) as [[sg1 [n ph]]|]; [|discriminate]. cbv zeta.
  destruct (fold_left (rule_step rm lru) (py_hist_rules_to_apply ph) (Some [])) as [longest|]; [|discriminate].
  intro E. destruct (after_rules_shape _ _ _ _ _ _ _ _ _ _ _ _ E) as (sgx & Ex).
  exists sg1, n, ph, sgx. split; [reflexivity|exact Ex].
Qed.

(* Traph.__add_page: the theorem of GenTraphPFacts, and the node object it returns is the one of the page's node in the new
   state (so: its block is the page's address and its flags are the page's flags) *)
Theorem py_traph_add_page_int_node : forall s, Inv18 s -> root_first s -> forall rm hd sg lru cr,
  ramrep s rm -> hrep s hd sg -> wf_lru lru ->
  walk_known (rules s) lru (snd (fst (trie_add_page lru cr s))) ->
  let r := add_page_int lru cr s in
  let s' := fst (fst r) in
  nb s' * 128 < 2 ^ 64 -> lastwe s + 1 < 2 ^ 32 ->
  Inv18 s' /\ root_first s' /\
  exists hd' sg' n', py_traph_add_page_int rm hd sg lru cr = Some (hd', sg', (n', report_of (snd (fst r)) (snd r))) /\
    hrep s' hd' sg' /\ ramrep s' rm /\
    exists d l c r0, find_sub (lru_iter lru) (tr s') = Some (Nd d l c r0) /\ node_at (Nd d l c r0) n'.
Proof.
  intros s Hinv Hroot rm hd sg lru cr Hram Hh Hl Hwk r s' Hsize Hlt.
  destruct (py_traph_add_page_int_spec s Hinv Hroot rm hd sg lru cr Hram Hh Hl Hwk Hsize Hlt)
    as (Hinv' & Hroot' & hd' & sg' & n' & E & Hh' & Hram').
  fold r s' in Hinv', Hroot', E, Hh', Hram'.
  split; [exact Hinv'|]. split; [exact Hroot'|]. exists hd', sg', n'.
  split; [exact E|]. split; [exact Hh'|]. split; [exact Hram'|].
  destruct (add_page_int_shape _ _ _ _ _ _ _ _ _ E) as (sg1 & n & ph & sgx & Ep & Ex).
  (* the node object after LRUTrie.add_page *)
  set (s1 := fst (fst (trie_add_page lru cr s))).
  assert (Hsize1 : nb s1 * 128 < 2 ^ 64).
  { pose proof (add_page_int_nb_trie lru cr s) as Hm. fold s1 r s' in Hm. rewrite pow64 in *. nia. }
  pose proof Hh as (Hrep & _ & _).
  destruct (py_trie_add_page_full s Hinv sg lru cr Hroot Hrep Hl Hsize1) as (sg1' & n1 & ph1 & Ep1 & _ & _ & t1 & Ht1 & Hn1).
  rewrite Ep in Ep1. injection Ep1 as <- <- <-. fold s1 in Ht1.
  destruct t1 as [|d1 l1 c1 r1]; [destruct Hn1|]. destruct Hn1 as (_ & Hblk & _ & _).
  assert (Hf1 : find (lru_iter lru) (tr s1) = Some d1) by (rewrite find_of_sub, Ht1; reflexivity).
  destruct (add_page_int_kept_trie lru cr s _ _ Hf1) as (d' & Hd' & Ha' & _). fold r s' in Hd'.
  destruct (find_subt _ _ _ Hd') as (l & c & r0 & Hfs & Hsub).
  exists d', l, c, r0. split; [exact Hfs|].
  (* the final refresh reads the block of the page in the new state *)
  unfold py_node_refresh in Ex. rewrite Hblk, <- Ha' in Ex.
  pose proof Hh' as (Hrep' & _ & _).
  assert (Hrepx : trep (files_of s') sgx).
  { apply (trep_same _ sg'); [exact Hrep'|]. apply same_sym.
    pose proof (refresh_same n sgx) as HS. unfold py_node_refresh in HS. rewrite Hblk, <- Ha' in HS.
    destruct (py_node_read_o n sgx (Some (addr d'))) as [nn sgg]. injection Ex as _ <-. exact HS. }
  pose proof (read_subt s' Hinv' d' l c r0 n sgx Hsub Hrepx) as HR. cbv zeta in HR.
  destruct (py_node_read_o n sgx (Some (addr d'))) as [nn sgg]. injection Ex as <- _. exact (proj1 HR).
Qed.

(* ====================================================================================== *)
(* 3. one node: refresh, flag_as_crawled, write                                           *)
(* ====================================================================================== *)
Lemma trep_ft : forall f g sg, ft g = ft f -> trep f sg -> trep g sg.
Proof. intros f g sg E H. unfold trep in *. rewrite E. exact H. Qed.

Section InPlace.
  Variable s : traph.
  Hypothesis Hinv : Inv18 s.

  (* refresh of a node object that knows its block *)
  Lemma refresh_at : forall p d n sg H, find p (tr s) = Some d -> nd_block n = Some (addr d) ->
    trep (files_of s) sg -> hk H sg ->
    exists l c r n1 sg1, find_sub p (tr s) = Some (Nd d l c r) /\ subt (Nd d l c r) (tr s) /\
      py_node_refresh n sg = (n1, sg1) /\ node_at (Nd d l c r) n1 /\ trep (files_of s) sg1 /\ hk H sg1 /\ 128 <= addr d.
  Proof.
    intros p d n sg H Hfd Hblk Hrep Hhk.
    destruct (find_subt _ _ _ Hfd) as (l & c & r & Hfs & Hsub).
    unfold py_node_refresh. rewrite Hblk.
    pose proof (read_subt s Hinv d l c r n sg Hsub Hrep) as HR. cbv zeta in HR.
    destruct (node_in_file s Hinv d l c r sg Hsub Hrep) as [_ Hge].
    assert (Hok : okN n) by (intros a Ha; rewrite Hblk in Ha; injection Ha as <-; exact Hge).
    destruct (py_node_read_o_frame n sg (Some (addr d)) H Hhk Hok) as [Hhk1 _].
    { intros a Ha. injection Ha as <-. exact Hge. }
    destruct (py_node_read_o n sg (Some (addr d))) as [n1 sg1]. cbn [fst snd] in HR, Hhk1.
    destruct HR as [Hn1 Hrep1].
    exists l, c, r, n1, sg1.
    split; [exact Hfs|]. split; [exact Hsub|]. split; [reflexivity|]. split; [exact Hn1|].
    split; [exact Hrep1|]. split; [exact Hhk1|exact Hge].
  Qed.

  (* the node at path p carries d; whatever the stale node object n holds besides that node's block address, after
     refresh / flag_as_crawled / write the storage holds the files of the state whose tree is upd set_crawled p, and the header
     block is untouched *)
  Lemma set_crawled_in_place : forall p d n sg H,
    find p (tr s) = Some d -> nd_block n = Some (addr d) ->
    trep (files_of s) sg -> hk H sg ->
    let s' := set_tree (upd set_crawled p (tr s)) s in
    exists n1 sg1 n2 sg2,
      py_node_refresh n sg = (n1, sg1) /\
      py_node_write (py_node_flag_as_crawled n1) sg1 = (n2, sg2) /\
      trep (files_of s') sg2 /\ hk H sg2 /\ Inv18 s' /\ nd_block n2 = Some (addr d).
  Proof.
    intros p d n sg H Hfd Hblk Hrep Hhk s'.
    destruct (refresh_at p d n sg H Hfd Hblk Hrep Hhk) as (l & c & r & n1 & sg1 & Hfs & Hsub & Er & Hn1 & Hrep1 & Hhk1 & Hge).
    destruct Hn1 as (Hex & Hb1 & Hd1 & Hst1).
    exists n1, sg1.
    set (n1' := py_node_flag_as_crawled n1).
    assert (Hd' : nd_data n1' = tblock_vals (main_block (set_crawled d) (root_addr l) (root_addr r) (root_addr c)))
      by (apply flag_as_crawled_main; exact Hd1).
    destruct (node_index s Hinv d l c r Hsub) as (j & Haj & Hj & Hnth).
    assert (Henc' : blk_encodable (main_block (set_crawled d) (root_addr l) (root_addr r) (root_addr c))).
    { apply (main_block_encodable_flags d); try reflexivity. exact (trep_nth_enc _ _ _ _ Hrep Hnth). }
    assert (Hb' : nd_block n1' = Some (blk_off j)) by (rewrite <- Haj; exact Hb1).
    destruct (trep_write_existing (files_of s) sg1 n1' j _ Hrep1 Hj Hex Hb' Hd' Henc') as [W1 W2].
    assert (Hok1 : okN n1').
    { intros a Ha. change (nd_block n1') with (nd_block n1) in Ha. rewrite Hb1 in Ha. injection Ha as <-. exact Hge. }
    destruct (py_node_write_frame n1' sg1 H Hhk1 Hok1) as [Hhk2 _].
    destruct (py_node_write n1' sg1) as [n2 sg2]. cbn [fst snd] in W1, W2, Hhk2.
    exists n2, sg2. split; [exact Er|]. split; [reflexivity|].
    destruct (soft_Tr set_crawled p s Hinv soft_set_crawled) as (Eap & Hinv' & _).
    destruct (placed_upd set_crawled (fun _ => eq_refl) (fun _ => eq_refl) p (tr s) d l c r Hfs) as (_ & _ & _ & _ & E3 & _).
    unfold nwp in Eap. rewrite E3 in Eap. cbn [apply_all fold_left] in Eap.
    change (addr (set_crawled d)) with (addr d) in Eap. rewrite Haj in Eap.
    split; [|split; [exact Hhk2|split; [exact Hinv'|]]].
    - unfold s'. rewrite <- Eap. exact W2.
    - rewrite W1. exact Hb1.
  Qed.

  (* ====================================================================================== *)
  (* 4. one page: refresh, LinkStore.add_links                                              *)
  (* ====================================================================================== *)
  Lemma head_ok_wf_head : forall n h, head_ok n h -> forall st, length st = n -> wf_head st h.
  Proof.
    intros n h [->|(j & Hj & ->)] st <-; [left; reflexivity|]. right. exists j. split; [exact Hj|reflexivity].
  Qed.

  Lemma blk_set_head_main : forall out h d la ra ca,
    blk_set_head out h (main_block d la ra ca) = main_block (set_head out h d) la ra ca.
  Proof. intros [|] h d la ra ca; reflexivity. Qed.

  Lemma blk_head_main : forall out d la ra ca, blk_head out (main_block d la ra ca) = head_dir out d.
  Proof. intros [|] d la ra ca; reflexivity. Qed.

  (* the page at the LRU l carries d; whatever the stale node object n holds besides the page's block address, after refresh and
     LinkStore.add_links(node, targets, out) both storages hold the files of the state after store_links; the header block of
     the trie file is untouched *)
  Lemma store_links_code : forall out l d n sg sgl H ts,
    find (lru_iter l) (tr s) = Some d -> nd_block n = Some (addr d) ->
    trep (files_of s) sg -> hk H sg -> lrep (stubs s) sgl ->
    (forall tg, In tg ts -> exists p d0, find p (tr s) = Some d0 /\ addr d0 = tg) ->
    let s' := store_links out (lru_iter l) ts s in
    fits (saddr (length (stubs s'))) ->
    exists n1 sg1 n2 sg2 sgl2,
      py_node_refresh n sg = (n1, sg1) /\
      py_ls_add_links n1 sg1 sgl ts out = Some (n2, sg2, sgl2) /\
      trep (files_of s') sg2 /\ hk H sg2 /\ lrep (stubs s') sgl2 /\ Inv18 s'.
  Proof.
    intros out l d n sg sgl H ts Hfd Hblk Hrep Hhk Hlrep Hts s' Hfits.
    destruct (refresh_at _ d n sg H Hfd Hblk Hrep Hhk) as (lt & c & r & n1 & sg1 & Hfs & Hsub & Er & Hn1 & Hrep1 & Hhk1 & Hge).
    destruct Hn1 as (Hex & Hb1 & Hd1 & Hst1).
    exists n1, sg1.
    set (b := main_block d (root_addr lt) (root_addr r) (root_addr c)) in *.
    pose proof (py_node_links_blk n1 b out Hd1) as HL. unfold b in HL. rewrite blk_head_main in HL.
    assert (Htok : Forall target_ok ts).
    { apply Forall_forall. intros tg Hin. destruct (Hts tg Hin) as (p0 & d0 & Hp0 & <-).
      destruct (find_subt _ _ _ Hp0) as (l0 & c0 & r0 & _ & Hsub0).
      unfold target_ok. exact (root_addr_ge s Hinv d0 l0 c0 r0 Hsub0). }
    assert (Hwh : wf_head (stubs s) (py_node_links n1 out)).
    { rewrite HL. destruct (I_heads s Hinv _ _ Hfd) as [Ho Hi].
      apply (head_ok_wf_head (length (stubs s))); [destruct out; assumption|reflexivity]. }
    destruct (py_ls_add_links_spec n1 sg1 sgl (stubs s) ts out Hlrep Htok Hwh) as (sgl2 & Hlrep2 & E).
    rewrite HL in Hlrep2, E.
    destruct ts as [|t ts'].
    - (* nothing to store *)
      exists n1, sg1, sgl2. split; [exact Er|]. split; [exact E|].
      assert (Es : s' = s) by reflexivity. rewrite Es.
      unfold push_stubs in Hlrep2. cbn [fold_left fst] in Hlrep2.
      split; [exact Hrep1|]. split; [exact Hhk1|]. split; [exact Hlrep2|exact Hinv].
    - set (ts := t :: ts') in *.
      assert (Hne : ts <> []) by discriminate.
      pose proof (store_links_unfold out (lru_iter l) ts s d Hne Hfd) as Es. cbv zeta in Es. fold s' in Es.
      set (ps := push_stubs ts (head_dir out d) (stubs s)) in *.
      set (h' := snd ps) in *.
      assert (Est : stubs s' = fst ps) by (rewrite Es; reflexivity).
      assert (Etr : tr s' = upd (set_head out h') (lru_iter l) (tr s)) by (rewrite Es; reflexivity).
      (* the trace of the model's step *)
      destruct (store_links_Tr out l ts s Hinv Hts) as (Eap & Hinv' & _). fold s' in Eap, Hinv'.
      assert (Ew : store_links_w out l ts s =
                   map LApp (skipn (length (stubs s)) (fst ps)) ++ node_write l s').
      { unfold store_links_w, ts. rewrite Hfd. reflexivity. }
      rewrite Ew, apply_all_app, apply_lapps in Eap.
      destruct (placed_upd (set_head out h') (set_head_stem out h') (set_head_addr out h') (lru_iter l) (tr s) d lt c r Hfs)
        as (_ & _ & _ & _ & E3 & _).
      rewrite node_write_nwp in Eap. unfold nwp in Eap. rewrite Etr, E3 in Eap. cbn [apply_all fold_left] in Eap.
      rewrite set_head_addr in Eap.
      set (b' := main_block (set_head out h' d) (root_addr lt) (root_addr r) (root_addr c)) in *.
      (* the head fits its register *)
      assert (Hh' : h' < 2 ^ 64).
      { unfold h', ps. rewrite (push_stubs_head ts (head_dir out d) (stubs s) Hne). fold ps. rewrite <- Est.
        unfold fits, saddr in Hfits. unfold ssz in *. change py_stub_block_size with 16 in *. lia. }
      destruct (node_index s Hinv d lt c r Hsub) as (j & Haj & Hj & Hnth).
      assert (Henc' : blk_encodable b').
      { destruct (main_block_encodable_inv _ _ _ _ (trep_nth_enc _ _ _ _ Hrep Hnth)) as (J1 & J2 & J3 & J4 & J5 & J6 & J7).
        unfold b'. apply main_block_encodable; try assumption; destruct out; cbn [set_head set_outh set_inh we par outh inh];
          assumption. }
      set (n1' := py_node_set_links n1 h' out) in *.
      assert (Hd' : nd_data n1' = tblock_vals b').
      { unfold n1'. rewrite (py_node_set_links_blk n1 b out h' Hd1). cbn [nd_set_data nd_data].
        unfold b. rewrite blk_set_head_main. reflexivity. }
      assert (Hex' : nd_exists n1' = true) by exact Hex.
      assert (Hb' : nd_block n1' = Some (blk_off j)) by (rewrite <- Haj; exact Hb1).
      destruct (trep_write_existing (files_of s) sg1 n1' j b' Hrep1 Hj Hex' Hb' Hd' Henc') as [W1 W2].
      assert (Hok1 : okN n1').
      { intros a Ha. change (nd_block n1') with (nd_block n1) in Ha. rewrite Hb1 in Ha. injection Ha as <-. exact Hge. }
      destruct (py_node_write_frame n1' sg1 H Hhk1 Hok1) as [Hhk2 _].
      exists (fst (py_node_write n1' sg1)), (snd (py_node_write n1' sg1)), sgl2.
      split; [exact Er|]. split; [exact E|].
      split; [|split; [exact Hhk2|split; [rewrite Est; exact Hlrep2|exact Hinv']]].
      apply (trep_ft (apply (TSet (blk_off j) b') (files_of s))); [|exact W2].
      rewrite <- Eap, Haj. reflexivity.
  Qed.
End InPlace.

(* ====================================================================================== *)
(* 5. the dict of recorded node objects and the multimap                                  *)
(* ====================================================================================== *)
Lemma py_mm_add_eq : forall k v d, py_mm_add k v d = mm_add k v d.
Proof.
  intros k v d. induction d as [|[k' vs] d IH]; [reflexivity|].
  cbn [py_mm_add mm_add]. rewrite IH. reflexivity.
Qed.

Lemma beq_refl : forall a, beq a a = true.
Proof. intro a. apply beq_eq. reflexivity. Qed.

Lemma beq_sym : forall a b, beq a b = beq b a.
Proof.
  intros a b. destruct (beq a b) eqn:E1, (beq b a) eqn:E2; try reflexivity.
  - apply beq_eq in E1. subst. rewrite beq_refl in E2. discriminate.
  - apply beq_eq in E2. subst. rewrite beq_refl in E1. discriminate.
Qed.

Lemma dict_get_update : forall (V : Type) k k' (v : V) d,
  py_dict_get k (py_dict_update k' v d) = if beq k k' then Some v else py_dict_get k d.
Proof.
  intros V k k' v d. induction d as [|[k0 v0] d IH].
  - cbn [py_dict_update py_dict_get]. destruct (beq k k'); reflexivity.
  - cbn [py_dict_update py_dict_get]. destruct (beq k' k0) eqn:E0.
    + apply beq_eq in E0. subst k0. cbn [py_dict_get]. destruct (beq k k'); reflexivity.
    + cbn [py_dict_get]. rewrite IH. destruct (beq k k0) eqn:E1; [|reflexivity].
      apply beq_eq in E1. subst k0. rewrite beq_sym, E0. reflexivity.
Qed.

(* the dict `pages` against the model's list `seen`: same keys; every recorded object carries the block address of its page, and
   a recorded crawled mark is a mark of the page *)
Definition rec_ok (s : traph) (k : bytes) (n : py_node) : Prop :=
  wf_lru k /\ exists d, nodeof s k = Some d /\ nd_block n = Some (addr d) /\ (py_node_is_crawled n = true -> crawled d = true).

Definition dict_ok (s : traph) (pages : list (bytes * py_node)) (seen : list bytes) : Prop :=
  (forall k, py_dict_mem k pages = mem_bytes k seen) /\
  (forall k n, py_dict_get k pages = Some n -> rec_ok s k n).

Lemma rec_ok_kept : forall s s' k n, kept s s' -> rec_ok s k n -> rec_ok s' k n.
Proof.
  intros s s' k n Hk (Hw & d & Hd & Hb & Hc). split; [exact Hw|]. unfold nodeof in *.
  destruct (Hk _ _ Hd) as (d' & Hd' & Ha & Hc'). exists d'. split; [exact Hd'|]. split; [congruence|auto].
Qed.

Lemma dict_ok_kept : forall s s' pages seen, kept s s' -> dict_ok s pages seen -> dict_ok s' pages seen.
Proof. intros s s' pages seen Hk [H1 H2]. split; [exact H1|]. intros k n Hg. eapply rec_ok_kept; eauto. Qed.

Lemma dict_ok_nil : forall s, dict_ok s [] [].
Proof. intro s. split; [reflexivity|]. intros k n H. discriminate H. Qed.

Lemma dict_ok_update : forall s pages seen k n, dict_ok s pages seen -> rec_ok s k n ->
  dict_ok s (py_dict_update k n pages) (k :: seen).
Proof.
  intros s pages seen k n [H1 H2] Hr. split.
  - intro k0. unfold py_dict_mem. rewrite dict_get_update. cbn [mem_bytes].
    destruct (beq k0 k); [reflexivity|]. cbn [orb]. apply H1.
  - intros k0 n0. rewrite dict_get_update. destruct (beq k0 k) eqn:E.
    + apply beq_eq in E. subst k0. intro E. injection E as <-. exact Hr.
    + apply H2.
Qed.

Lemma dict_ok_mem : forall s pages seen k, dict_ok s pages seen -> mem_bytes k seen = true ->
  exists n, py_dict_get k pages = Some n /\ rec_ok s k n.
Proof.
  intros s pages seen k [H1 H2] Hm. specialize (H1 k). rewrite Hm in H1. unfold py_dict_mem in H1.
  destruct (py_dict_get k pages) as [n|] eqn:E; [|discriminate]. exists n. split; [reflexivity|]. apply H2. exact E.
Qed.

Print Assumptions py_traph_add_page_int_node.
Print Assumptions set_crawled_in_place.
Print Assumptions store_links_code.
