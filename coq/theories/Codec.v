(* Codec.v — byte-level encoding of trie blocks, link stubs and the two headers,
   driven by the regenerated formats and tuple positions of Consts.v
   (Python `struct.pack/unpack`, native little-endian).  Definitions only. *)
From Coq Require Import List NArith Bool.
From Traph Require Import Bytes Layout Consts Helpers Tst Traph.
Import ListNotations.
Open Scope N_scope.

Inductive fval := VBytes (b : bytes) | VNum (n : N).

Fixpoint le_bytes (w : nat) (n : N) : bytes :=
  match w with O => [] | S w' => (n mod 256) :: le_bytes w' (n / 256) end.
Fixpoint le_value (b : bytes) : N :=
  match b with [] => 0 | x :: b' => x + 256 * le_value b' end.

Definition zeros (n : nat) : bytes := repeat 0 n.
Definition pad_to (n : nat) (b : bytes) : bytes := b ++ zeros (n - length b)%nat.

(* "<n>p": one length byte then at most n-1 payload bytes, zero padded *)
Definition enc_pascal (n : N) (b : bytes) : bytes :=
  let cap := (N.to_nat n - 1)%nat in
  let payload := firstn cap b in
  pad_to (N.to_nat n) (N.of_nat (length payload) :: payload).
Definition dec_pascal (raw : bytes) : bytes :=
  match raw with [] => [] | len :: rest => firstn (N.to_nat len) rest end.

Definition enc_item (f : fitem) (v : fval) : bytes :=
  match f, v with
  | FPas n, VBytes b => enc_pascal n b
  | FU8, VNum x => le_bytes 1 x
  | FU32, VNum x => le_bytes 4 x
  | FU64, VNum x => le_bytes 8 x
  | FPad n, _ => zeros (N.to_nat n)
  | f, _ => zeros (N.to_nat (fsize f))
  end.

(* pack: items laid out at their aligned offsets, gaps zero filled *)
Fixpoint enc_layout (lay : list (fitem * N)) (vals : list fval) (acc : bytes) : bytes :=
  match lay with
  | [] => acc
  | (f, off) :: lay' =>
      let acc' := pad_to (N.to_nat off) acc in
      match f with
      | FPad _ => enc_layout lay' vals (acc' ++ enc_item f (VNum 0))
      | _ => match vals with
             | v :: vals' => enc_layout lay' vals' (acc' ++ enc_item f v)
             | [] => enc_layout lay' [] (acc' ++ enc_item f (VNum 0))
             end
      end
  end.
Definition pack (fs : list fitem) (vals : list fval) : bytes :=
  pad_to (N.to_nat (layout_size fs)) (enc_layout (layout fs) vals []).

Definition slice (off len : N) (raw : bytes) : bytes := firstn (N.to_nat len) (skipn (N.to_nat off) raw).
Definition dec_item (f : fitem) (raw : bytes) : fval :=
  match f with
  | FPas _ => VBytes (dec_pascal raw)
  | _ => VNum (le_value raw)
  end.
Definition unpack (fs : list fitem) (raw : bytes) : list fval :=
  map (fun '(f, off) => dec_item f (slice off (fsize f) raw)) (fields fs).

(* build the value tuple from (position, value) pairs *)
Definition place (n : nat) (pvs : list (nat * fval)) : list fval :=
  map (fun i => match List.find (fun pv => Nat.eqb (fst pv) i) pvs with
                | Some (_, v) => v
                | None => VNum 0
                end) (seq 0 n).
Definition vnum (v : fval) : N := match v with VNum n => n | _ => 0 end.
Definition vbytes (v : fval) : bytes := match v with VBytes b => b | _ => [] end.

Definition tblock_vals (b : tblock) : list fval :=
  place (S (S node_registers))
        [(pos_stem, VBytes (b_stem b)); (pos_flags, VNum (b_flags b)); (pos_we, VNum (b_we b));
         (pos_left, VNum (b_left b)); (pos_right, VNum (b_right b)); (pos_child, VNum (b_child b));
         (pos_parent, VNum (b_parent b)); (pos_out, VNum (b_out b)); (pos_in, VNum (b_in b))].
Definition encode_tblock (b : tblock) : bytes := pack node_format (tblock_vals b).
Definition decode_tblock (raw : bytes) : tblock :=
  let vs := unpack node_format raw in
  let g i := nth i vs (VNum 0) in
  mkBlk (vbytes (g pos_stem)) (vnum (g pos_flags)) (vnum (g pos_we)) (vnum (g pos_left))
        (vnum (g pos_right)) (vnum (g pos_child)) (vnum (g pos_parent)) (vnum (g pos_out)) (vnum (g pos_in)).

Definition encode_stub (s : N * N) : bytes :=
  pack stub_format (place 2 [(spos_target, VNum (fst s)); (spos_previous, VNum (snd s))]).
Definition decode_stub (raw : bytes) : N * N :=
  let vs := unpack stub_format raw in
  (vnum (nth spos_target vs (VNum 0)), vnum (nth spos_previous vs (VNum 0))).

Definition encode_trie_header (last : N) : bytes :=
  pack header_format (place 2 [(hpos_last_we, VNum last); (hpos_version, VBytes version_bytes)]).
Definition decode_trie_header (raw : bytes) : N :=
  vnum (nth hpos_last_we (unpack header_format raw) (VNum 0)).
Definition encode_link_header : bytes :=
  pack link_header_format (place 1 [(lhpos_version, VBytes version_bytes)]).

(* the two files *)
Definition trie_file (s : traph) : bytes :=
  encode_trie_header (lastwe s) ++ flat_map (fun p => encode_tblock (snd p)) (flatten (tr s)).
Definition link_file (s : traph) : bytes :=
  encode_link_header ++ flat_map encode_stub (stubs s).

(* a stem across its blocks and back *)
Definition encode_stem (st : bytes) : bytes * list bytes := (stem_head st, stem_tail_chunks st).
Definition decode_stem (p : bytes * list bytes) : bytes := fst p ++ concat (snd p).
