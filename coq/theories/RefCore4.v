(* RefCore4.v — the model refines the specification on Rcore.
   Part 4: creation rules (add_rule, remove_rule, install_rules, init, reopen, clear). *)
From Coq Require Import List NArith Bool Lia Arith.
Import ListNotations.
From Traph Require Import Bytes Consts Helpers Rules Tst TstDefs Traph Spec Ops RefDefs TstFacts
  ViewFacts ViewFacts2 RefCore RefCore3.
Open Scope N_scope.

(* ====================================================================== *)
(* the subtree found by find_sub and the enumeration below it             *)
(* ====================================================================== *)

Lemma find_sub_Lf : forall ss, find_sub ss Lf = None.
Proof. destruct ss; reflexivity. Qed.

Lemma find_sub_Nd : forall s rest d l c r,
  find_sub (s :: rest) (Nd d l c r) =
  match lex s (stem d) with
  | Eq => match rest with [] => Some (Nd d l c r) | _ :: _ => find_sub rest c end
  | Lt => find_sub (s :: rest) l
  | Gt => find_sub (s :: rest) r
  end.
Proof. reflexivity. Qed.

(* the traversal from the found node only meets nodes of the whole enumeration *)
Lemma dfs_at_incl : forall ss t sub pre y, find_sub ss t = Some sub ->
  In y (dfs_at false (pre ++ concat (removelast ss)) sub) -> In y (dfs pre t).
Proof.
  induction ss as [|s rest IHss]; intros t sub pre y; [discriminate|].
  induction t as [|d l IHl c _ r IHr].
  - rewrite find_sub_Lf. discriminate.
  - rewrite find_sub_Nd. cbn [dfs]. destruct (lex s (stem d)) eqn:E.
    + apply lex_eq in E. subst s. destruct rest as [|x2 p2].
      * intro H. injection H as <-. cbn [removelast concat dfs_at]. rewrite app_nil_r.
        intros [Hy|Hy]; [left; exact Hy|right; apply in_or_app; left; exact Hy].
      * intros H Hy. right. apply in_or_app. left.
        apply (IHss c sub (pre ++ stem d) y H).
        change (removelast (stem d :: x2 :: p2)) with (stem d :: removelast (x2 :: p2)) in Hy.
        cbn [concat] in Hy. rewrite app_assoc in Hy. exact Hy.
    + intros H Hy. right. apply in_or_app. right. apply in_or_app. left. apply IHl; assumption.
    + intros H Hy. right. apply in_or_app. right. apply in_or_app. right. apply IHr; assumption.
Qed.

Lemma all_nodes_find : forall t x d, wf_tst t -> In (x, d) (all_nodes t) ->
  exists p, x = concat p /\ find p t = Some d.
Proof.
  intros t x d Hw. rewrite all_nodes_paths, in_map_iff.
  intros ([p d'] & E & Hin). cbn [fst snd] in E. injection E as <- <-.
  exists p. split; [reflexivity|]. apply paths_find; assumption.
Qed.

Lemma pages_under_spec : forall p s x, wf_tst (tr s) -> In x (pages_under p s) ->
  exists q d, find q (tr s) = Some d /\ page d = true /\ x = concat q.
Proof.
  intros p s x Hw. unfold pages_under.
  destruct (find_sub (lru_iter p) (tr s)) as [sub|] eqn:E; [|intros []].
  rewrite in_map_iff. intros ([x' d] & Ex & Hin). cbn [fst] in Ex. subst x'.
  apply filter_In in Hin. destruct Hin as [Hin Hpg]. cbn [snd] in Hpg.
  unfold lru_dirname in Hin.
  apply (dfs_at_incl (lru_iter p) (tr s) sub [] (x, d) E) in Hin.
  apply (all_nodes_find (tr s) x d Hw) in Hin. destruct Hin as (q & -> & Hf).
  exists q, d. auto.
Qed.

Lemma pages_under_wf : forall p s, wf_tst (tr s) -> Forall wf_lru (pages_under p s).
Proof.
  intros p s Hw. apply Forall_forall. intros x Hx.
  destruct (pages_under_spec p s x Hw Hx) as (q & d & Hf & _ & ->).
  apply (wf_lru_of_path s q d Hw Hf).
Qed.

Lemma pages_under_nopages : forall p s a, Rcore s a -> a_pages a = [] -> pages_under p s = [].
Proof.
  intros p s a HR Hnp. destruct (pages_under p s) as [|x r] eqn:E; [reflexivity|]. exfalso.
  assert (Hx : In x (pages_under p s)) by (rewrite E; left; reflexivity).
  destruct (pages_under_spec p s x (R_wf s a HR) Hx) as (q & d & Hf & Hpg & ->).
  destruct (find_nodeof s q d (R_wf s a HR) Hf) as (Hwf & Hn).
  assert (Hin : In (concat q, crawled d) (a_pages a)).
  { apply (R_pages s a HR _ _ Hwf). exists d. auto. }
  rewrite Hnp in Hin. destruct Hin.
Qed.

Lemma pages_under_tr : forall p s s', tr s = tr s' -> pages_under p s = pages_under p s'.
Proof. intros p s s' E. unfold pages_under. rewrite E. reflexivity. Qed.

Definition map_root (f : nd -> nd) (t : tst) : tst :=
  match t with Lf => Lf | Nd d l c r => Nd (f d) l c r end.

Lemma find_sub_upd_same : forall f q t, (forall d, stem (f d) = stem d) ->
  find_sub q (upd f q t) = option_map (map_root f) (find_sub q t).
Proof.
  intros f q. induction q as [|s rest IHq]; intros t Hf; [reflexivity|].
  induction t as [|d l IHl c _ r IHr].
  - rewrite upd_Lf, find_sub_Lf. reflexivity.
  - rewrite upd_Nd, find_sub_Nd. destruct (lex s (stem d)) eqn:E.
    + destruct rest as [|x2 p2].
      * rewrite find_sub_Nd, Hf, E. reflexivity.
      * rewrite find_sub_Nd, E. apply IHq. exact Hf.
    + rewrite find_sub_Nd, E. exact IHl.
    + rewrite find_sub_Nd, E. exact IHr.
Qed.

Lemma pages_under_upd : forall f p s, (forall d, stem (f d) = stem d) ->
  (forall d, page (f d) = page d) -> pages_under p (updl f p s) = pages_under p s.
Proof.
  intros f p s Hf Hp. unfold pages_under, updl. cbn [tr set_tree set_tr].
  rewrite find_sub_upd_same by exact Hf.
  destruct (find_sub (lru_iter p) (tr s)) as [[|d l c r]|]; cbn [option_map map_root]; try reflexivity.
  cbn [dfs_at filter fst snd map]. rewrite Hf, Hp. destruct (page d); reflexivity.
Qed.

Lemma add_lru_tr_ext : forall flag p s s', tr s = tr s' -> nb s = nb s' ->
  tr (fst (add_lru flag p s)) = tr (fst (add_lru flag p s')).
Proof. intros flag p s s' E1 E2. rewrite !add_lru_tr, E1, E2. reflexivity. Qed.

(* ====================================================================== *)
(* add_webentity_creation_rule                                            *)
(* ====================================================================== *)

Lemma add_rule_nowrite_Rcore : forall p k s a order, Rcore s a ->
  Rcore (fst (add_rule p k false s)) (fst (s_add_rule p k false order a)) /\
  snd (add_rule p k false s) = snd (s_add_rule p k false order a).
Proof.
  intros p k s a order HR. unfold add_rule, s_add_rule. cbn [negb fst snd].
  split; [|reflexivity]. rewrite (R_rules s a HR). apply Rcore_set_rules. exact HR.
Qed.

Theorem add_rule_Rcore : forall p k s a, wf_lru p -> Rcore s a ->
  Rcore (fst (add_rule p k true s))
        (fst (s_add_rule p k true (pages_under p (fst (add_lru false p s))) a)) /\
  snd (add_rule p k true s) = snd (s_add_rule p k true (pages_under p (fst (add_lru false p s))) a).
Proof.
  intros p k s a Hp HR. unfold add_rule, s_add_rule. cbn [negb].
  set (s0 := mkT (tr s) (nb s) (lastwe s) (stubs s) (aset p k (rules s)) (dflt s)).
  set (a0 := mkA (a_pages a) (a_known a) (a_pref a) (a_links a) (a_last a) (a_flags a)
                 (aset p k (a_rules a)) (a_dflt a)).
  assert (HR0 : Rcore s0 a0).
  { unfold s0, a0. rewrite (R_rules s a HR). apply Rcore_set_rules. exact HR. }
  assert (Etr : tr (fst (add_lru false p s0)) = tr (fst (add_lru false p s)))
    by (apply add_lru_tr_ext; reflexivity).
  pose proof (add_lru_Rcore false p s0 a0 Hp HR0) as HR1.
  pose proof (add_lru_self false p s0 Hp) as Hself.
  destruct (add_lru false p s0) as [s1 h1]. cbn [fst] in *.
  destruct (nodeof s1 p) as [d|] eqn:Hd; [|congruence].
  pose proof (set_rule_Rcore s1 _ p d true HR1 Hp Hd) as HR2.
  change (set_tree (upd (set_rule true) (lru_iter p) (tr s1)) s1) with (updl (set_rule true) p s1).
  assert (Eord : pages_under p (updl (set_rule true) p s1) = pages_under p (fst (add_lru false p s))).
  { rewrite pages_under_upd by (intro; reflexivity). apply pages_under_tr. exact Etr. }
  rewrite Eord.
  assert (Hord : Forall wf_lru (pages_under p (fst (add_lru false p s)))).
  { rewrite <- Eord. apply pages_under_wf. apply (R_wf _ _ HR2). }
  unfold s_add_pages.
  pose proof (pages_fold_Rcore (pages_under p (fst (add_lru false p s))) false _ _ 0 [] Hord HR2) as H.
  cbn [upd_known a_pages a_known a_pref a_links a_last a_flags a_rules a_dflt a0] in H.
  cbn [a_pages a_known a_pref a_links a_last a_flags a_rules a_dflt a0].
  match type of H with Inv3 ?A ?B => destruct A as [[s3 n3] c3]; destruct B as [[a3 n3'] c3'] end.
  destruct H as (H1 & -> & ->). cbn [fst snd]. auto.
Qed.

Theorem remove_rule_Rcore : forall p s a, wf_lru p -> Rcore s a ->
  Rcore (fst (remove_rule p s)) (fst (s_remove_rule p a)) /\
  snd (remove_rule p s) = snd (s_remove_rule p a).
Proof.
  intros p s a Hp HR. unfold remove_rule, s_remove_rule. rewrite (R_rules s a HR).
  destruct (aget p (a_rules a)) as [k|]; [|cbn [fst snd]; auto].
  set (s0 := mkT (tr s) (nb s) (lastwe s) (stubs s) (adel p (a_rules a)) (dflt s)).
  assert (HR0 : Rcore s0 (mkA (a_pages a) (a_known a) (a_pref a) (a_links a) (a_last a) (a_flags a)
                              (adel p (a_rules a)) (a_dflt a))).
  { unfold s0. apply Rcore_set_rules. exact HR. }
  pose proof (mem_known_nodeof s a p HR Hp) as BK.
  change (find (lru_iter p) (tr s0)) with (nodeof s p).
  destruct (nodeof s p) as [d|] eqn:Hd.
  - assert (Hk : mem_bytes p (a_known a) = true) by (apply BK; discriminate).
    rewrite Hk. cbn [fst snd]. split; [|reflexivity].
    apply (set_rule_Rcore s0 _ p d false HR0 Hp). exact Hd.
  - assert (Hk : mem_bytes p (a_known a) = false).
    { destruct (mem_bytes p (a_known a)); [|reflexivity]. exfalso.
      destruct BK as [BK _]. apply BK; reflexivity. }
    rewrite Hk. cbn [fst snd]. auto.
Qed.

(* ====================================================================== *)
(* install_rules, init, reopen, clear                                     *)
(* ====================================================================== *)

Lemma install_nowrite_Rcore : forall rs s a, Rcore s a ->
  Rcore (install_rules rs false s) (s_install rs false a).
Proof.
  unfold install_rules, s_install. induction rs as [|[p k] rs IH]; intros s a HR; [exact HR|].
  cbn [fold_left]. apply IH. apply (add_rule_nowrite_Rcore p k s a [] HR).
Qed.

Lemma install_write_Rcore : forall rs s a, Forall (fun x => wf_lru (fst x)) rs ->
  Rcore s a -> a_pages a = [] ->
  Rcore (install_rules rs true s) (s_install rs true a) /\ a_pages (s_install rs true a) = [].
Proof.
  unfold install_rules, s_install. induction rs as [|[p k] rs IH]; intros s a Hrs HR Hnp; [auto|].
  inversion Hrs as [|? ? Hp Hrs']; subst. cbn [fst] in Hp.
  cbn [fold_left].
  pose proof (add_rule_Rcore p k s a Hp HR) as (H1 & _).
  assert (E : pages_under p (fst (add_lru false p s)) = []).
  { apply (pages_under_nopages p _ _ (add_lru_Rcore false p s a Hp HR)). exact Hnp. }
  rewrite E in H1. apply (IH _ _ Hrs' H1).
  unfold s_add_rule. cbn. exact Hnp.
Qed.

Lemma Rcore_empty : forall st rs d lk,
  Rcore (mkT Lf 1 0 st rs d) (mkA [] [] [] lk 0 [] rs d).
Proof.
  intros st rs d lk. apply Rcore_groups.
  cbn [tr nb lastwe stubs rules dflt a_pages a_known a_pref a_links a_last a_flags a_rules a_dflt].
  split; [|split; [|split; [|split; [|split]]]].
  - split; [split; exact I|]. split; [|split; [constructor|split; [constructor|reflexivity]]].
    intros l _. rewrite find_Lf. split; [congruence|intros []].
  - split; [|split; [constructor|split; [constructor|]]].
    + intros l c _. rewrite find_Lf. split; [intros []|intros (d0 & H & _); discriminate].
    + intros p d0 H. rewrite find_Lf in H. discriminate.
  - split; [|split; constructor].
    intros l w _. rewrite find_Lf. split; [intros []|intros (d0 & H & _); discriminate].
  - split; [|constructor].
    intros l _. rewrite find_Lf. split; [intros []|intros (d0 & H & _); discriminate].
  - intros p q d0 d' H. rewrite find_Lf in H. discriminate.
  - auto.
Qed.

Theorem init_Rcore : forall d rs, wf_rules rs -> Rcore (init d rs) (s_init d rs).
Proof.
  intros d rs [Hrs _]. unfold init, s_init, a0.
  apply (install_write_Rcore rs _ _ Hrs (Rcore_empty [] [] d [])). reflexivity.
Qed.

Theorem reopen_Rcore : forall d rs s a, Rcore s a -> Rcore (reopen d rs s) (s_reopen d rs a).
Proof.
  intros d rs s a HR. unfold reopen, s_reopen. apply install_nowrite_Rcore.
  rewrite (R_last s a HR). apply Rcore_scalars. exact HR.
Qed.

Theorem clear_Rcore : forall od ors s a,
  match ors with Some rs => wf_rules rs | None => True end ->
  Rcore s a -> Rcore (clear od ors s) (s_clear od ors a).
Proof.
  intros od ors s a Hwf HR. unfold clear, s_clear.
  rewrite (R_dflt s a HR), (R_rules s a HR).
  destruct ors as [rs|].
  - destruct Hwf as [Hrs _].
    apply (install_write_Rcore rs _ _ Hrs (Rcore_empty [] [] _ [])). reflexivity.
  - apply Rcore_empty.
Qed.
