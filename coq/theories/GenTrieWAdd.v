(* GenTrieWAdd.v — LRUTrie.add_lru translated from the source (GenTrieW.py_trie_add_lru, generated on every run from
   /repo/traph/lru_trie/lru_trie.py) performs on the bytes of the trie file exactly what the tree model
   Tst.ins / Traph.add_lru does, on the file of every state that satisfies the block invariant Inv18.
   Part 3 (plan at the top of GenTrieWAdd1.v):
     8. the first loop (clear_spec: the NO_CHILD_WEBENTITIES bit cleared in place = one TSet = upd on the state;
        loop1_spec: induction on the remaining stems, generalised over the state)
     9. py_trie_add_lru_spec; Inv18 / root_first of the new state; examples by vm_compute. *)
From Coq Require Import List NArith Bool Lia Arith.
Import ListNotations.
From Traph Require Import Bytes Consts Layout Helpers Rules Tst TstDefs Traph Traphw TraceDefs Codec CodecFacts
  TstFacts Store StoreFacts GenStorage GenNode GenNodeFacts GenTrie GenTrieFacts GenTrieW GenTrieWDefs.
From Traph Require Import QueryCore2 TraceFacts TraceFacts2 TraceFacts3 TraceFacts4 LinkFacts StoreFacts2
  GenTrieWAdd1 GenTrieWAdd2.
From Traph Require GenHelpers2 GenHelpers2Facts.
Open Scope N_scope.

Arguments N.shiftr : simpl never.
Arguments N.shiftl : simpl never.
Arguments N.modulo : simpl never.
Arguments N.div : simpl never.
Arguments N.land : simpl never.
Arguments N.lor : simpl never.
Arguments N.ldiff : simpl never.
Arguments N.mul : simpl never.
Arguments N.add : simpl never.
Arguments N.sub : simpl never.
Arguments N.ltb : simpl never.
Arguments N.eqb : simpl never.
Arguments N.pow : simpl never.

(* ====================================================================================== *)
(* 8. the first loop                                                                      *)
(* ====================================================================================== *)
Lemma nb_len : forall s, Inv18 s -> nb s = N.of_nat (S (length (ft (files_of s)))).
Proof. intros s H. rewrite (files_of_length s (I_tiled s H)). pose proof (I_nb s H). lia. Qed.

Lemma node_index : forall s, Inv18 s -> forall d l c r, subt (Nd d l c r) (tr s) ->
  exists j, addr d = blk_off j /\ (j < length (ft (files_of s)))%nat /\
            nth_error (ft (files_of s)) j = Some (main_block d (root_addr l) (root_addr r) (root_addr c)).
Proof.
  intros s H d l c r Hsub. pose proof (blk_at_main_subt s H d l c r Hsub) as Hb.
  destruct (GenTrieFacts.blk_at_off _ _ _ Hb) as [Ha Hn]. exists (tidx (addr d)).
  split; [exact Ha|]. split; [apply nth_error_Some; congruence|exact Hn].
Qed.

Lemma trep_nth_enc : forall f sg j b, trep f sg -> nth_error (ft f) j = Some b -> blk_encodable b.
Proof.
  intros f sg j b (_ & _ & Henc) Hn. rewrite Forall_forall in Henc. apply Henc. eapply nth_error_In. exact Hn.
Qed.

(* clearing NO_CHILD_WEBENTITIES on the node found at the path q: one rewrite in place; the state moves by upd *)
Lemma clear_spec : forall s, Inv18 s -> forall q d l c r n1 sg1 (fl : bool),
  find_sub q (tr s) = Some (Nd d l c r) -> node_at (Nd d l c r) n1 -> trep (files_of s) sg1 ->
  exists s1 sg2 n2,
    (if fl && nochild d
     then (let '(v_node, sg0) := py_node_write (py_node_flag_can_have_child_webentities n1) sg1 in (sg0, v_node))
     else (sg1, n1)) = (sg2, n2) /\
    Inv18 s1 /\ nb s1 = nb s /\
    find_sub q (tr s1) = Some (Nd (if fl then set_nochild false d else d) l c r) /\
    node_at (Nd (if fl then set_nochild false d else d) l c r) n2 /\
    trep (files_of s1) sg2 /\
    files_of s1 = apply_all (if fl && nochild d
                             then [TSet (addr d) (main_block (if fl then set_nochild false d else d)
                                                             (root_addr l) (root_addr r) (root_addr c))]
                             else []) (files_of s).
Proof.
  intros s Hinv q d l c r n1 sg1 fl Hfs Hn1 Hrep.
  assert (Hsame : forall d', d' = d ->
    exists s1 sg2 n2, (sg1, n1) = (sg2, n2) /\ Inv18 s1 /\ nb s1 = nb s /\
      find_sub q (tr s1) = Some (Nd d' l c r) /\ node_at (Nd d' l c r) n2 /\ trep (files_of s1) sg2 /\
      files_of s1 = apply_all [] (files_of s)).
  { intros d' ->. exists s, sg1, n1. split; [reflexivity|]. split; [exact Hinv|]. split; [reflexivity|].
    split; [exact Hfs|]. split; [exact Hn1|]. split; [exact Hrep|reflexivity]. }
  destruct fl; cbn [andb]; [|apply Hsame; reflexivity].
  destruct (nochild d) eqn:Enc; [|apply Hsame; apply set_nochild_same; exact Enc].
  set (f := set_nochild false).
  assert (Hk : keeps_place f) by (intro d0; repeat split).
  assert (Hs : forall d0, stem (f d0) = stem d0) by reflexivity.
  assert (Ha : forall d0, addr (f d0) = addr d0) by reflexivity.
  assert (Hfd : find q (tr s) = Some d) by (rewrite find_of_sub, Hfs; reflexivity).
  assert (Hmono : forall d0, find q (tr s) = Some d0 -> mono_nd (length (stubs s)) d0 (f d0)).
  { intros d0 Hd0. rewrite Hfd in Hd0. injection Hd0 as <-.
    destruct (I_heads s Hinv q d Hfd) as [Ho Hi]. unfold mono_nd, f. cbn [set_nochild page crawled outh inh].
    repeat split; auto; lia. }
  destruct (upd_Tr f q s Hinv Hk Hmono) as (E & I1 & _).
  destruct (placed_upd f Hs Ha q (tr s) d l c r Hfs) as (P1 & P2 & _ & _ & E3 & _).
  unfold nwp in E. rewrite E3 in E.
  pose proof (find_sub_subt _ _ _ Hfs) as Hsub.
  destruct (node_index s Hinv d l c r Hsub) as (j & Haj & Hj & Hnth).
  destruct Hn1 as (He1 & Hb1 & Hd1 & Hst1).
  set (n1' := py_node_flag_can_have_child_webentities n1).
  assert (Hd' : nd_data n1' = tblock_vals (main_block (f d) (root_addr l) (root_addr r) (root_addr c))).
  { unfold n1', py_node_flag_can_have_child_webentities. cbn [nd_set_data nd_data].
    rewrite Hd1, unflag_nochild_vals. reflexivity. }
  assert (Henc' : blk_encodable (main_block (f d) (root_addr l) (root_addr r) (root_addr c))).
  { pose proof (trep_nth_enc _ _ _ _ Hrep Hnth) as H0.
    destruct (main_block_encodable_inv _ _ _ _ H0) as (J1 & J2 & J3 & J4 & J5 & J6 & J7).
    apply main_block_encodable; assumption. }
  assert (Hb' : nd_block n1' = Some (blk_off j)) by (rewrite <- Haj; exact Hb1).
  destruct (trep_write_existing (files_of s) sg1 n1' j _ Hrep Hj He1 Hb' Hd' Henc') as [W1 W2].
  destruct (py_node_write n1' sg1) as [n2 sg2]. cbn [fst snd] in W1, W2. subst n2.
  exists (set_tree (upd f q (tr s)) s), sg2, n1'.
  split; [reflexivity|]. split; [exact I1|]. split; [reflexivity|]. split; [exact E3|].
  split.
  - cbn [node_at]. split; [exact He1|]. split; [exact Hb1|]. split; [exact Hd'|].
    transitivity (py_node_stem n1); [|exact Hst1]. unfold py_node_stem. change (nd_tail n1') with (nd_tail n1).
    rewrite Hd', Hd1, !py_get_stem. reflexivity.
  - split.
    + rewrite <- E. cbn [apply_all fold_left]. rewrite Ha, Haj. exact W2.
    + rewrite <- E. rewrite Ha. reflexivity.
Qed.

(* the first loop started at the stem index i, on the node object of the root of the sibling tree t hanging below
   the path p of the state s *)
Lemma loop1_spec : forall stems flag L rest, rest <> [] ->
  forall i s p t pa cx pre h ph n sg fuel,
  skipn i stems = rest ->
  Inv18 s -> At p t pa s -> node_at t n -> trep (files_of s) sg ->
  hist_rep L h false ph ->
  ins_nb flag rest pre pa (nb s) h t * 128 < 2 ^ 64 ->
  (length rest < fuel)%nat ->
  exists sg' n' ph',
    finish stems (N.of_nat (length stems)) flag
      (loop1 stems (N.of_nat (length stems)) flag fuel (sg, ph, N.of_nat i, pre, n)) = Some (sg', (n', ph')) /\
    trep (apply_all (insw flag rest pa (nb s) cx t) (files_of s)) sg' /\
    hist_rep L (ins_h flag rest pre pa (nb s) h t) false ph' /\
    exists tf, find_sub rest (ins_t flag rest pre pa (nb s) h t) = Some tf /\ node_at tf n'.
Proof.
  intros stems flag L rest. induction rest as [|x rest' IH]; [congruence|]. intros _.
  intros i s p t pa cx pre h ph n sg fuel Hsk Hinv HAt Hn Hrep Hh Hsize Hfuel.
  destruct fuel as [|k]; [lia|]. cbn [length] in Hfuel.
  destruct (skipn_cons_nth _ i stems x rest' (@nil N) Hsk) as (Hnth & Hsk' & Hlen).
  pose proof (At_subt _ _ _ _ HAt) as Hsub.
  pose proof (nb_len s Hinv) as Hnb.
  cbn [loop1].
  assert (Hlt : (N.of_nat i <? N.of_nat (length stems)) = true) by (apply N.ltb_lt; lia).
  rewrite Hlt, Nat2N.id, Hnth.
  pose proof (py_trie_ensure_spec s Hinv x t n sg Hsub Hn Hrep) as HE.
  rewrite find_sub_sib, sib_ins_t, insw_sib_end, ins_h_sib, sib_find_sib_end.
  rewrite ins_nb_sib, sib_find_sib_end in Hsize.
  destruct (sib_end x t) as [[te [side|]]|] eqn:Ese; [| |destruct HE].
  - (* ---- a new sibling ---- *)
    destruct te as [|dt lt ct rt]; [destruct HE|]. cbv zeta in HE.
    destruct HE as (Hsubt & Hlf & sg1 & sibn & Eens & Hb & He & Hst & Hd & Hbs1 & Hf1 & Hs1 & Hk1).
    rewrite Eens.
    pose proof (sib_end_par s Hinv p t pa HAt x dt lt ct rt _ Ese) as Hpar.
    destruct (node_index s Hinv dt lt ct rt Hsubt) as (jd & Hajd & Hjd & Hnthd).
    pose proof (trep_nth_enc _ _ _ _ Hrep Hnthd) as Hencdt.
    destruct (main_block_encodable_inv _ _ _ _ Hencdt) as (J1 & J2 & J3 & J4 & J5 & J6 & J7).
    pose proof (trep_len _ _ Hrep) as Hlenarr.
    pose proof Hrep as (Hbs & _ & _).
    set (j0 := length (ft (files_of s))) in *.
    set (a := N.of_nat (length (pm_array sg))) in *.
    assert (Ea : a = nb s * bsz).
    { unfold a. rewrite Hlenarr, Hnb. unfold bsz. change py_node_block_size with 128. lia. }
    pose proof (ins_nb_mono flag rest' (pre ++ x) (nb s * bsz) (nb s + nblk x) h Lf) as Hmono.
    pose proof (nblk_pos x) as Hnblk.
    assert (Ha64 : a < 2 ^ 64).
    { rewrite Ea. unfold bsz. change py_node_block_size with 128. rewrite pow64 in *. nia. }
    set (dfin := dnew flag rest' x pa (nb s)).
    assert (Ed1 : mkNd a (par dt) x false false false true 0 0 0 = set_nochild true dfin).
    { unfold dfin, dnew. cbn [set_nochild addr par stem page crawled rule we outh inh]. rewrite Ea, Hpar. reflexivity. }
    rewrite Ed1 in Hd, Hk1.
    set (bsib := main_block dt (if side then a else root_addr lt) (if side then root_addr rt else a) (root_addr ct)).
    assert (Ebsib : (if side then main_block dt a (root_addr rt) (root_addr ct)
                     else main_block dt (root_addr lt) a (root_addr ct)) = bsib)
      by (unfold bsib; destruct side; reflexivity).
    rewrite Ebsib in Hs1.
    assert (Hencsib : blk_encodable bsib).
    { unfold bsib. apply main_block_encodable; try assumption; destruct side; assumption. }
    assert (Hencnew : Forall blk_encodable (node_blocks (set_nochild true dfin) 0 0 0)).
    { apply node_blocks_encodable. unfold dfin, dnew. cbn [set_nochild addr par stem page crawled rule we outh inh].
      apply new_main_encodable. rewrite <- Hpar. exact J2. }
    (* the files after the two writes *)
    set (fm := apply_all (new_blocks (set_nochild true dfin)) (files_of s)).
    set (sgm := mk_pm py_node_block_size
                  (pm_array sg ++ flat_map encode_tblock (node_blocks (set_nochild true dfin) 0 0 0)) 0).
    assert (Hrepm : trep fm sgm).
    { unfold fm. rewrite new_blocks_eq. apply (trep_app_bytes _ sg sgm _ Hrep); [reflexivity|reflexivity|exact Hencnew]. }
    assert (Hlenm : length (ft fm) = (j0 + length (node_blocks (set_nochild true dfin) 0 0 0))%nat).
    { unfold fm. rewrite new_blocks_eq, apply_apps. cbn [ft]. apply app_length. }
    pose proof (node_blocks_length (set_nochild true dfin) 0 0 0) as Hnbl.
    change (stem (set_nochild true dfin)) with x in Hnbl.
    set (f1 := apply (TSet (addr dt) bsib) fm).
    assert (Hoff : N.to_nat (addr dt) = (128 + 128 * jd)%nat) by (rewrite Hajd; apply blk_off_nat).
    assert (Hrep1 : trep f1 sg1).
    { unfold f1. rewrite Hajd. apply (trep_set_bytes fm sgm sg1 jd bsib Hrepm); [lia|exact Hbs1| | | |exact Hencsib].
      - rewrite <- Hajd, Hf1. cbn [sgm pm_array]. rewrite firstn_app.
        replace (N.to_nat (addr dt) - length (pm_array sg))%nat with 0%nat by lia.
        cbn [firstn]. rewrite app_nil_r. reflexivity.
      - rewrite <- Hajd. exact Hs1.
      - rewrite <- Hajd, Hk1. cbn [sgm pm_array]. rewrite skipn_app.
        replace (N.to_nat (addr dt) + 128 - length (pm_array sg))%nat with 0%nat by lia. reflexivity. }
    assert (Hlen1 : length (ft f1) = length (ft fm)) by apply apply_all_ft_length_sets.
    destruct (fresh_spec stems flag L x rest' i pre h ph pa sibn sg1 f1 k j0 Hsk Hrep1 ltac:(lia))
      as (sg' & n' & Efin & Hrep' & tf & Htf & Hntf).
    + rewrite Hlen1, Hlenm. unfold j0 in *. lia.
    + exact He.
    + rewrite Hb. f_equal. unfold a, blk_off, bsz, j0. rewrite Hlenarr. change py_node_block_size with 128. lia.
    + replace (N.of_nat (S j0)) with (nb s) by (unfold j0; exact Hnb). exact Hd.
    + exact Hst.
    + rewrite <- Hpar. exact J2.
    + exact Hh.
    + replace (N.of_nat (S j0)) with (nb s) by (unfold j0; exact Hnb). exact Hsize.
    + lia.
    + replace (N.of_nat (S j0)) with (nb s) in * by (unfold j0; exact Hnb). fold dfin in Hrep', Htf.
      exists sg', n', ph. split; [exact Efin|]. split; [|split; [exact Hh|]].
      * unfold here_w. fold dfin. rewrite <- !app_assoc, apply_all_app. fold fm.
        rewrite <- Ea. cbn [app]. rewrite apply_all_cons. fold bsib. fold f1. rewrite <- Ea in Hrep'. exact Hrep'.
      * exists tf. split; [|exact Hntf]. rewrite find_sub_sib in Htf. cbn [sib] in Htf.
        change (stem dfin) with x in Htf. rewrite lex_refl in Htf. exact Htf.
  - (* ---- the stem is there ---- *)
    destruct (sib_end_found x t te Ese) as (d & l & c & r & -> & Elex & Hsib).
    destruct HE as (sg1 & n1 & Eens & Hn1 & _ & Hrep1).
    rewrite Eens, after_ensure_eq.
    pose proof Hn1 as (He1 & Hb1 & Hd1 & Hst1).
    pose proof (visit_rep L h ph d _ _ _ n1 (pre ++ x) Hh Hd1) as Hh1.
    set (h1 := visit d (pre ++ x) h) in *. set (ph1 := py_visit ph n1 (pre ++ x)) in *.
    pose proof (At_down _ _ _ _ _ _ _ _ _ HAt Hsib) as Hfs.
    unfold after_hist. rewrite (not_last_nonempty _ i (length stems) rest' Hlen).
    destruct (node_has_we _ _ _ _ _ Hd1) as (_ & _ & _ & Ecan). rewrite Ecan, negb_involutive.
    rewrite (andb_comm (nonempty rest') flag).
    destruct (clear_spec s Hinv (p ++ [x]) d l c r n1 sg1 (flag && nonempty rest') Hfs Hn1 Hrep1)
      as (s1 & sg2 & n2 & Eclr & I1 & Enb1 & Hfs1 & Hn2 & Hrep2 & Ef1).
    rewrite Eclr. clear Eclr.
    set (d' := if flag && nonempty rest' then set_nochild false d else d) in *.
    set (clrw := if flag && nonempty rest' && nochild d
                 then [TSet (addr d) (main_block d' (root_addr l) (root_addr r) (root_addr c))] else []) in *.
    assert (Ead : addr d' = addr d) by apply addr_nochild_if.
    pose proof Hn2 as (He2 & Hb2 & Hd2 & Hst2).
    pose proof (find_sub_subt _ _ _ Hfs1) as Hsub1.
    unfold after_clear. rewrite (more_nonempty _ i (length stems) rest' Hlen).
    destruct rest' as [|y rest''].
    + (* the last stem: the node is returned *)
      assert (Eclrw : clrw = []) by (unfold clrw; cbn [nonempty]; rewrite andb_false_r; reflexivity).
      rewrite Eclrw in *.
      cbn [nonempty andb finish loop2c].
      assert (Hge : (N.of_nat i + 1 <? N.of_nat (length stems)) = false) by (apply N.ltb_ge; cbn [length] in Hlen; lia).
      rewrite Hge. exists sg2, n2, ph1.
      split; [reflexivity|]. cbn [app].
      rewrite insw_nil, ins_h_nil, ins_t_nil. cbn [apply_all fold_left] in Ef1 |- *.
      split; [rewrite <- Ef1; exact Hrep2|]. split; [exact Hh1|].
      eexists. split; [reflexivity|]. exact Hn2.
    + cbn [nonempty andb].
      assert (Esize : ins_nb flag (y :: rest'') (pre ++ x) (addr d) (nb s1) h1 c * 128 < 2 ^ 64)
        by (rewrite Enb1; exact Hsize).
      unfold py_node_has_child, py_node_read_child, py_node_has_child, py_node_child.
      rewrite Hd2, get_child. cbn [main_block b_child].
      destruct c as [|dc lc cc rc].
      * (* no child: the chain is created by the second loop *)
        cbn [root_addr]. change (0 =? 0) with true. cbn [negb finish].
        destruct (node_index s1 I1 d' l Lf r Hsub1) as (jd & Hajd & Hjd & Hnthd).
        pose proof (trep_nth_enc _ _ _ _ Hrep2 Hnthd) as Hencd. cbn [root_addr] in Hencd, Hd2.
        rewrite (nb_len s1 I1) in Esize.
        destruct (loop2c_spec stems flag (y :: rest'') (S i) (pre ++ x) h1 d' (root_addr l) (root_addr r) n2 sg2
                    (files_of s1) (S (N.to_nat (N.of_nat (length stems) - N.of_nat (S i)))) Hsk' ltac:(lia) Hrep2 He2 Hb2 Hd2)
          as (sg' & n' & Eloop & Hrep' & tf & Htf & Hntf).
        -- exists jd. split; [exact Hajd|exact Hjd].
        -- exact Hencd.
        -- rewrite Ead. exact Esize.
        -- cbn [length] in *. lia.
        -- replace (N.of_nat i + 1) with (N.of_nat (S i)) by lia. rewrite Eloop.
           exists sg', n', ph1. split; [reflexivity|].
           rewrite <- (nb_len s1 I1), Enb1, Ead in Hrep', Htf.
           split; [rewrite apply_all_app, <- Ef1; exact Hrep'|].
           split; [rewrite ins_h_Lf; exact Hh1|]. exists tf. split; [exact Htf|exact Hntf].
      * (* a child: one level down *)
        pose proof (subt_child _ _ _ _ _ Hsub1) as Hc.
        destruct (follow_reg s1 I1 (Nd dc lc cc rc) n2 sg2 (root_addr (Nd dc lc cc rc)) (or_introl Hc) eq_refl Hrep2)
          as (Hz & Hlt' & Hna & Hr').
        rewrite Hz. cbn [negb]. rewrite Hlt'.
        destruct (py_node_read_o n2 sg2 (Some (root_addr (Nd dc lc cc rc)))) as [n3 sg3].
        cbn [fst snd] in Hna, Hr'.
        replace (N.of_nat i + 1) with (N.of_nat (S i)) by lia.
        assert (HAt' : At (p ++ [x]) (Nd dc lc cc rc) (addr d) s1).
        { right. exists d', l, r. split; [exact Hfs1|symmetry; exact Ead]. }
        destruct (IH ltac:(discriminate) (S i) s1 (p ++ [x]) (Nd dc lc cc rc) (addr d)
                     (CChild d' (root_addr l) (root_addr r)) (pre ++ x) h1 ph1 n3 sg3 k
                     Hsk' I1 HAt' Hna Hr' Hh1 Esize ltac:(lia))
          as (sg' & n' & ph' & Efin & Hrep' & Hh' & tf & Htf & Hntf).
        exists sg', n', ph'. split; [exact Efin|]. rewrite Enb1 in Hrep', Hh', Htf.
        split; [rewrite apply_all_app, <- Ef1; exact Hrep'|]. split; [exact Hh'|].
        exists tf. split; [exact Htf|exact Hntf].
Qed.

(* ====================================================================================== *)
(* 9. LRUTrie.add_lru                                                                     *)
(* ====================================================================================== *)
Lemma add_lru_hist_eq : forall flag lru s,
  snd (add_lru flag lru s) = ins_h flag (lru_iter lru) [] 0 (nb s) hist0 (tr s).
Proof.
  intros flag lru s. unfold add_lru, ins_h.
  destruct (ins flag (lru_iter lru) [] 0 (nb s) hist0 (tr s)) as [[t' nb'] h']. reflexivity.
Qed.

Lemma hist_rep_init : forall lru, hist_rep lru hist0 false (py_hist_init lru).
Proof. intro lru. unfold hist_rep, py_hist_init, hist0. cbn. repeat split. Qed.

(* LRUTrie.add_lru(lru, flag) on the trie file of the state s: the storage holds the trie file of the state
   Traph.add_lru reaches, the history object is the model's history, the node object returned is the node of the LRU
   in the new tree. The generated loops never run out of fuel and never raise. *)
Theorem py_trie_add_lru_spec : forall s, Inv18 s -> forall sg lru flag,
  root_first s -> trep (files_of s) sg -> wf_lru lru ->
  let s' := fst (add_lru flag lru s) in
  nb s' * 128 < 2 ^ 64 ->
  exists sg' n ph, py_trie_add_lru sg lru flag = Some (sg', (n, ph)) /\
    trep (files_of s') sg' /\
    hist_rep lru (snd (add_lru flag lru s)) false ph /\
    exists t', find_sub (lru_iter lru) (tr s') = Some t' /\ node_at t' n.
Proof.
  intros s Hinv sg lru flag Hroot Hrep Hwf s' Hsize.
  destruct (add_lru_Tr flag lru s Hinv) as (Efiles & _ & _). fold s' in Efiles.
  unfold add_lru_w in Efiles.
  unfold s' in Hsize |- *. rewrite add_lru_nb in Hsize. rewrite add_lru_hist_eq, add_lru_tr. fold s'.
  rewrite <- Efiles. clear Efiles.
  rewrite add_lru_eq, init_read. cbv zeta. rewrite GenHelpers2Facts.py_lru_iter_eq.
  pose proof (lru_iter_nonempty lru Hwf) as Hne.
  set (stems := lru_iter lru) in *.
  destruct Hroot as [Hr|Hr].
  - (* a non-empty trie: its root is the first data block *)
    destruct (tr s) as [|d l c r] eqn:Et; [cbn in Hr; discriminate Hr|].
    cbn [root_addr] in Hr.
    assert (Hsub : subt (Nd d l c r) (tr s)) by (rewrite Et; apply subt_here).
    pose proof (read_subt s Hinv d l c r (nd_set_tail [] (nd_set_exists false (nd_set_block None py_node_new))) sg Hsub Hrep) as HR.
    cbv zeta in HR. rewrite Hr in HR. change py_first_data_block with bsz.
    destruct (py_node_read_o _ sg (Some bsz)) as [n0 sg0]. cbn [fst snd] in HR. destruct HR as [Hn0 Hrep0].
    assert (HAt : At [] (Nd d l c r) 0 s) by (left; rewrite Et; auto).
    destruct (loop1_spec stems flag lru stems Hne 0 s [] (Nd d l c r) 0 CRoot [] hist0 (py_hist_init lru) n0 sg0
                (S (N.to_nat (N.of_nat (length stems) - 0))) eq_refl Hinv HAt Hn0 Hrep0 (hist_rep_init lru) Hsize ltac:(lia))
      as (sg' & n' & ph' & Efin & Hrep' & Hh' & Htf).
    exists sg', n', ph'. split; [exact Efin|]. split; [exact Hrep'|]. split; [exact Hh'|exact Htf].
  - (* an empty trie: the root object does not exist; it is given the first stem and written *)
    rewrite Hr in *.
    assert (Eft : ft (files_of s) = []).
    { apply length_zero_iff_nil. rewrite ft_length, Hr. reflexivity. }
    assert (Enb : nb s = 1) by (rewrite (nb_len s Hinv), Eft; reflexivity).
    rewrite Enb in *.
    pose proof Hrep as (Hbs & (hdr & Harr & Hh) & Henc).
    rewrite Eft in Harr. cbn [flat_map] in Harr. rewrite app_nil_r in Harr.
    rewrite py_node_read_o_some.
    pose proof (py_node_read_absent (nd_set_tail [] (nd_set_exists false (nd_set_block None py_node_new))) sg py_first_data_block) as HA.
    cbv zeta in HA. destruct HA as (Hex & Hblk & Hdat & Htl & Harr' & Hbs').
    { rewrite Harr, Hh. change py_first_data_block with 128. lia. }
    destruct (py_node_read _ sg py_first_data_block) as [n0 sg0]. cbn [fst snd] in *.
    assert (Hrep0 : trep (files_of s) sg0).
    { split; [rewrite Hbs'; exact Hbs|]. split; [|exact Henc]. exists hdr. rewrite Harr', Eft, Harr.
      cbn [flat_map]. rewrite app_nil_r. split; [reflexivity|exact Hh]. }
    assert (Hbs0 : pm_block_size sg0 = py_node_block_size) by apply Hrep0.
    assert (Hlen0 : length (pm_array sg0) = 128%nat) by (rewrite Harr', Harr; exact Hh).
    destruct stems as [|x rest'] eqn:Es; [congruence|].
    cbn [loop1]. change (0 <? N.of_nat (length (x :: rest'))) with true. cbv iota.
    change (nth (N.to_nat 0) (x :: rest') []) with x. cbn [app].
    rewrite ensure_eq, Hex. cbn [negb].
    assert (En0 : py_node_set_stem n0 x = py_node_set_default_data py_node_new (Some x)).
    { destruct n0 as [b0 e0 t0 dd0]. cbn [nd_block nd_exists nd_data nd_tail] in Hex, Hblk, Hdat, Htl. subst. reflexivity. }
    rewrite En0.
    destruct (py_node_write_brand_new sg0 x Hbs0) as (W1 & W2 & _ & W4 & W5 & _ & W7 & W8).
    destruct (py_node_write (py_node_set_default_data py_node_new (Some x)) sg0) as [n1 sg1].
    cbn [fst snd] in W1, W2, W4, W5, W7, W8.
    destruct (py_node_new_node_spec x (N.of_nat (length (pm_array sg0)))) as (Hdata0 & _).
    rewrite Hdata0 in W7. rewrite Hlen0 in W1, W4, W7.
    set (dfin := dnew flag rest' x 0 1).
    change (mkNd (N.of_nat 128) 0 x false false false true 0 0 0) with (set_nochild true dfin) in W1, W7.
    set (f1 := apply_all (new_blocks (set_nochild true dfin)) (files_of s)).
    assert (Hencnew : Forall blk_encodable (node_blocks (set_nochild true dfin) 0 0 0)).
    { apply node_blocks_encodable. unfold dfin, dnew. cbn [set_nochild addr par stem page crawled rule we outh inh].
      apply new_main_encodable. cbn [par]. rewrite pow64. lia. }
    assert (Hrep1 : trep f1 sg1).
    { unfold f1. rewrite new_blocks_eq. apply (trep_app_bytes _ sg0 sg1 _ Hrep0); [rewrite W2; exact Hbs0|exact W1|exact Hencnew]. }
    assert (Hlen1 : length (ft f1) = length (node_blocks (set_nochild true dfin) 0 0 0)).
    { unfold f1. rewrite new_blocks_eq, apply_apps. cbn [ft]. rewrite Eft. reflexivity. }
    pose proof (node_blocks_length (set_nochild true dfin) 0 0 0) as Hnbl.
    change (stem (set_nochild true dfin)) with x in Hnbl.
    pose proof (nblk_pos x) as Hnblk.
    rewrite ins_nb_Lf in Hsize.
    destruct (fresh_spec (x :: rest') flag lru x rest' 0 [] hist0 (py_hist_init lru) 0 n1 sg1 f1
                (N.to_nat (N.of_nat (length (x :: rest')) - 0)) 0%nat eq_refl Hrep1 ltac:(lia))
      as (sg' & n' & Efin & Hrep' & tf & Htf & Hntf).
    + lia.
    + exact W5.
    + rewrite W4. reflexivity.
    + exact W7.
    + exact W8.
    + rewrite pow64. lia.
    + apply hist_rep_init.
    + exact Hsize.
    + cbn [length]. lia.
    + cbn [app] in Efin, Hrep', Htf. fold dfin in Hrep', Htf.
      exists sg', n', (py_hist_init lru). split; [exact Efin|]. split; [|split].
      * rewrite insw_Lf. unfold here_w. fold dfin. rewrite <- app_assoc, apply_all_app. fold f1. exact Hrep'.
      * rewrite ins_h_Lf. apply hist_rep_init.
      * exists tf. split; [|exact Hntf]. rewrite ins_t_Lf. fold (dnew flag rest' x 0 1). fold dfin. exact Htf.
Qed.

(* the new state can be used again: invariant and root clause *)
Lemma add_lru_Inv18 : forall flag lru s, Inv18 s -> Inv18 (fst (add_lru flag lru s)).
Proof. intros flag lru s H. exact (Tr_inv _ _ _ (add_lru_Tr flag lru s H)). Qed.

Lemma root_first_Q : forall s, Inv18 s -> root_first s -> Q s.
Proof.
  intros s Hinv [Hr|Hr]; unfold Q, root_ok.
  - destruct (tr s); [cbn in Hr; discriminate Hr|exact Hr].
  - rewrite Hr. rewrite (nb_len s Hinv).
    assert (E : ft (files_of s) = []) by (apply length_zero_iff_nil; rewrite ft_length, Hr; reflexivity).
    rewrite E. reflexivity.
Qed.

Lemma add_lru_root_first : forall flag lru s, Inv18 s -> root_first s -> root_first (fst (add_lru flag lru s)).
Proof. intros flag lru s Hinv Hr. apply Q_root_first, add_lru_Q, root_first_Q; assumption. Qed.

(* ---- non-vacuity: the translated code run on concrete trie files, compared byte for byte with the trie file of the
   state the model reaches, and the block of the returned node with the address the model gives the node ---- *)
From Traph Require PropsEx IdFacts.
Definition run_cmp (sg : py_pm) (s : traph) (lru : bytes) (flag : bool) : option (bool * bool) :=
  let s' := fst (add_lru flag lru s) in
  option_map (fun r => (beq (pm_array (fst r)) (trie_file s'),
                        match nd_block (fst (snd r)), find (lru_iter lru) (tr s') with
                        | Some a, Some d => a =? addr d
                        | _, _ => false
                        end))
             (py_trie_add_lru sg lru flag).

(* (a) a new LRU two stems below a known one, flag = true: two nodes appended, one child register and one flag rewritten *)
Example ex_add_new :
  run_cmp ex_sg PropsEx.exs (PropsEx.ex_px ++ [112; 58; 122; 124] ++ [112; 58; 119; 124]) true = Some (true, true).
Proof. vm_compute. reflexivity. Qed.
Example ex_add_new_grows :
  option_map (fun r => N.of_nat (length (pm_array (fst r))) - N.of_nat (length (pm_array ex_sg)))
             (py_trie_add_lru ex_sg (PropsEx.ex_px ++ [112; 58; 122; 124] ++ [112; 58; 119; 124]) true) = Some 256.
Proof. vm_compute. reflexivity. Qed.
(* (b) an LRU already present: the file is untouched *)
Example ex_add_present : run_cmp ex_sg PropsEx.exs PropsEx.ex_pxy false = Some (true, true).
Proof. vm_compute. reflexivity. Qed.
Example ex_add_present_same :
  option_map (fun r => beq (pm_array (fst r)) (pm_array ex_sg)) (py_trie_add_lru ex_sg PropsEx.ex_pxy false) = Some true.
Proof. vm_compute. reflexivity. Qed.
(* (c) the empty trie, with a stem of 103 bytes (two blocks) on the way *)
Example ex_add_empty :
  let s0 := Traph.init Domain [] in
  run_cmp (mk_pm 128 (trie_file s0) 0) s0 PropsEx.ex_pl true = Some (true, true).
Proof. vm_compute. reflexivity. Qed.
(* a new sibling in the middle of the tree, flag = true *)
Example ex_add_sibling :
  run_cmp ex_sg PropsEx.exs (IdFacts.ex_pa ++ [112; 58; 98; 124] ++ [112; 58; 99; 124]) true = Some (true, true).
Proof. vm_compute. reflexivity. Qed.

Print Assumptions py_trie_add_lru_spec.
Print Assumptions add_lru_Inv18.
Print Assumptions add_lru_root_first.
